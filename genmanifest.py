#!/usr/bin/env python3
"""Regenerates MANIFEST.json from checkprops.PROPS and properties.jsonl (run after editing checkprops.py)."""
import json, sys, os
ROOT = os.path.dirname(os.path.abspath(__file__))
sys.path.insert(0, ROOT)
import checkprops
props = [json.loads(l) for l in open(os.path.join(ROOT, 'properties.jsonl'))]
claimed = checkprops.PROPS
hooks_commits = [l.strip() for l in open(os.path.join(ROOT, 'hooks_commits.txt')) if l.strip()]
checks = []
for p in props:
    pid = p['id']
    if pid not in claimed:
        continue
    c = claimed[pid]
    checks.append(dict(
        property_id=pid,
        quick_cmd="./check %s --tier quick" % pid,
        thorough_cmd="./check %s --tier thorough" % pid,
        evidence_file="evidence/%s.json" % pid,
        replay_cmd_template="./check %s --replay {path}" % pid,
        engine="lean4-proof+correspondence",
        level_claimed=dict(category="proof",
            text=c.get("level_text", "Machine-checked Lean 4 theorems about an executable model (%s), for all histories / inputs / schedules the property quantifies over, with no bound on sizes or steps; the model is tied to /repo on every run by a differential correspondence check against the real implementation and by the property's own Go-side oracle. A change that breaks the property breaks a proof obligation, the correspondence or the oracle." % ", ".join(c["models"])),
            design_ref="DESIGN.md §6 " + pid),
        level_note="Trusted: Lean kernel; axioms within {propext, Classical.choice, Quot.sound}; the hand-written model and the Go harness / driver canonicalisation. Assumed: " + "; ".join(c["assumptions"]),
        technique=c.get("technique", "Lean 4 proof over a hand-written executable model + differential correspondence (Go harness vs Lean driver)"),
    ))
na = [dict(property_id=p['id'], reason=checkprops.NOT_CLAIMED.get(p['id'], "not yet built in this session (planned, see DESIGN.md §6); no check is registered, nothing is claimed"))
      for p in props if p['id'] not in claimed]
m = dict(version=1, setup_cmd="./setup.sh",
  hooks=dict(guard="verif", enable="go build -tags verif (harness module: replace github.com/hashicorp/eventlogger => /repo, .../filters/encrypt => /repo/filters/encrypt)",
     baseline_off_cmd="for m in . filters/encrypt; do (cd /repo/$m && GOFLAGS=-mod=mod go test -json -vet=off -count=1 -timeout 25m ./...); done",
     source_commits=hooks_commits, add_only=True),
  engines=[dict(name="lean4-proof+correspondence", path="check", serves_properties=sorted(claimed),
     kind_free_text="Lean 4 theorems over executable models (lean/Evl), Go differential harness (harness/cmd/evh) against the real code, line-protocol Lean driver (lean/Driver), facts regenerated from source (harness/cmd/gofacts)")],
  checks=checks, not_applicable=na,
  notes="See DESIGN.md. known_findings.json lists open findings and the fix: commits made to /repo.")
json.dump(m, open(os.path.join(ROOT, 'MANIFEST.json'), 'w'), indent=1)
print("claimed:", sorted(claimed), "not claimed:", [x['property_id'] for x in na])
