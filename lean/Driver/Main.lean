import Driver.Registry
import Driver.Gated
import Driver.Dispatch
import Driver.FileSink
import Driver.Sinks
import Driver.Json
import Driver.CloudEvents
import Driver.Encrypt
import Driver.EncryptTree
import Driver.EncryptTag
open Driver

def main (args : List String) : IO UInt32 := do
  let stdin ← IO.getStdin
  let stdout ← IO.getStdout
  match args with
  | ["registry"] => loop stdin stdout Driver.Registry.stepLine Evl.Registry.init; return 0
  | ["gated"] => loop stdin stdout Driver.Gated.stepLine {}; return 0
  | ["dispatch"] => loop stdin stdout Driver.Dispatch.stepLine {}; return 0
  | ["filesink"] => loop stdin stdout Driver.FileSink.stepLine {}; return 0
  | ["sinks"] => loop stdin stdout Driver.Sinks.stepLine []; return 0
  | ["json"] => loop stdin stdout Driver.Json.stepLine (); return 0
  | ["ce"] => loop stdin stdout Driver.CloudEvents.stepLine (); return 0
  | ["encrypt"] => loop stdin stdout Driver.Encrypt.stepLine { wrapper := none, salt := none, info := none }; return 0
  | ["enctree"] => loop stdin stdout Driver.EncryptTree.stepLine (); return 0
  | ["enctag"] => loop stdin stdout Driver.EncryptTag.stepLine (); return 0
  | _ => IO.eprintln "usage: evldriver <model>"; return 2
