import Evl.Model.Sinks
import Driver.Util
/- Line protocol for M9 Sinks. Tables are `fmt:b1.b2.b3` tokens (`fmt:` for empty bytes). -/
namespace Driver.Sinks
open Evl.Sinks Driver

def parseBytes (s : String) : Option Bytes :=
  if s.isEmpty then some [] else (s.splitOn ".").mapM (·.toNat?)

def parseEntry (s : String) : Option (Nat × Bytes) :=
  match s.splitOn ":" with
  | [f, b] => do some (← f.toNat?, ← parseBytes b)
  | _ => none

def showBytes (b : Bytes) : String := ".".intercalate (b.map toString)

def buildTable (es : List (Nat × Bytes)) : Table := es.foldl (fun t e => formattedAs t e.1 e.2) []

def showRes : SinkRes → String
  | .wrote b => ("wrote " ++ showBytes b).trimAscii.toString
  | .errNilWriter => "err E_NIL_WRITER" | .errNilEvent => "err E_NIL_EVENT"
  | .errNotMarshaled => "err E_NOT_MARSHALED" | .errWrite => "err E_WRITE" | .nothing => "nothing"

def parseW : String → Option WBeh
  | "ok" => some .ok | "fail" => some .fail
  | s => match s.splitOn "=" with
    | ["short", n] => n.toNat?.map .short
    | _ => none

def stepLine (t : Table) (line : String) : Table × String :=
  match toks line with
  | "writer" :: w :: en :: cfg :: es =>
    match parseBool en, cfg.toNat?, es.mapM parseEntry with
    | some en, some cfg, some es =>
      let tbl := buildTable es
      if w == "nil" then (t, showRes (writerProcess true en cfg tbl .ok))
      else match parseW w with
        | some wb => (t, showRes (writerProcess false en cfg tbl wb))
        | none => (t, "bad-op")
    | _, _, _ => (t, "bad-op")
  | "fsspecial" :: path :: cfg :: es =>
    match path.toNat?, cfg.toNat?, es.mapM parseEntry with
    | some p, some cfg, some es =>
      match fileSinkSpecial p cfg (buildTable es) with
      | some r => (t, showRes r)
      | none => (t, "bad-op")
    | _, _, _ => (t, "bad-op")
  | ["chan", cr, cd, to, obs] =>
    match parseBool cr, parseBool cd, parseBool to with
    | some cr, some cd, some to =>
      let o := match obs with | "sent" => some ChanOut.sent | "ctx" => some .ctxErr | "timeout" => some .timeoutErr | _ => none
      match o with
      | some o => (t, if (chanOutcomes cr cd to).contains o then "ok" else "reject")
      | none => (t, "bad-op")
    | _, _, _ => (t, "bad-op")
  | ["newevent"] => ([], "ok")
  | ["fa", f, b] =>
    match f.toNat?, parseBytes b with
    | some f, some b => (formattedAs t f b, "ok")
    | _, _ => (t, "bad-op")
  | ["fa", f] => match f.toNat? with | some f => (formattedAs t f [], "ok") | none => (t, "bad-op")
  | ["fq", f] =>
    match f.toNat? with
    | some f => (t, match format t f with | some b => ("some " ++ showBytes b).trimAscii.toString | none => "none")
    | none => (t, "bad-op")
  | _ => (t, "bad-op")

end Driver.Sinks
