import Evl.Model.FileSink
import Driver.Util
/- Line protocol for M5 FileSink. -/
namespace Driver.FileSink
open Evl.FileSink Driver

structure DS where
  cfg : Cfg := { maxBytes := 0, maxFiles := 0, maxDuration := 0, tsOnly := false, mode := 0 }
  s : St := {}

def listing (s : St) : String :=
  let evsOf (i : Nat) : List Nat := ((s.inodes.find? (fun x => x.id == i)).map (·.evs)).getD []
  let modeOf (i : Nat) : Nat := ((s.inodes.find? (fun x => x.id == i)).map (·.mode)).getD 0
  let plain := s.dir.filterMap (fun x => match x.1 with | .plain => some s!"plain:{showList (evsOf x.2)}:{modeOf x.2}" | _ => none)
  let ts := (tsFiles s.dir).zipIdx.map (fun (x, r) => s!"ts{r}:{showList (evsOf x.2)}:{modeOf x.2}")
  let fo := (s.dir.filterMap (fun x => match x.1 with | .foreign k => some (k, x.2) | _ => none)).mergeSort (fun a b => a.1 ≤ b.1)
  let fos := fo.map (fun x => s!"foreign{x.1}:{showList (evsOf x.2)}:{modeOf x.2}")
  " ".intercalate (plain ++ ts ++ fos) ++ s!" | bw={s.bytesWritten}"

def stepLine (d : DS) (line : String) : DS × String :=
  match toks line with
  | ["reset", mb, mf, md, tso, mode] =>
    match mb.toNat?, mf.toNat?, parseInt md, parseBool tso, mode.toNat? with
    | some mb, some mf, some md, some tso, some mode =>
      ({ cfg := { maxBytes := mb, maxFiles := mf, maxDuration := md, tsOnly := tso, mode := mode }, s := {} }, "reset")
    | _, _, _, _, _ => (d, "bad-op")
  | ["write", ev, size, el] =>
    match ev.toNat?, size.toNat?, el.toNat? with
    | some ev, some size, some el =>
      let (s', r) := step d.cfg d.s (.write ev size el)
      ({ d with s := s' }, (if r == .ok then "ok " else "err ") ++ listing s')
    | _, _, _ => (d, "bad-op")
  | ["nofmt"] => let (s', r) := step d.cfg d.s .noFormat; ({ d with s := s' }, (if r == .errFormat then "errfmt " else "ok ") ++ listing s')
  | ["reopen"] => let (s', _) := step d.cfg d.s .reopen; ({ d with s := s' }, "ok " ++ listing s')
  | ["extrename", k] =>
    match k.toNat? with
    | some k => let (s', _) := step d.cfg d.s (.extRename k); ({ d with s := s' }, "ok " ++ listing s')
    | none => (d, "bad-op")
  | _ => (d, "bad-op")

end Driver.FileSink
