import Evl.Model.Json
import Evl.Model.JsonParse
import Driver.Util
/- Line protocol for M8 Json. Bytes are hex strings ("-" for empty). -/
namespace Driver.Json
open Evl.Json Driver

def hexVal (c : Char) : Option Nat :=
  if '0' ≤ c ∧ c ≤ '9' then some (c.toNat - 48) else if 'a' ≤ c ∧ c ≤ 'f' then some (c.toNat - 87) else none

def unhexList : List Char → Option Bytes
  | [] => some []
  | a :: b :: r => do
    let x ← hexVal a; let y ← hexVal b; let rest ← unhexList r
    some ((x * 16 + y) :: rest)
  | _ => none

def unhex (s : String) : Option Bytes := if s == "-" then some [] else unhexList s.toList

def hexChar (n : Nat) : Char := Char.ofNat (if n < 10 then 48 + n else 87 + n)
def tohex (b : Bytes) : String := if b.isEmpty then "-" else String.ofList (b.flatMap (fun x => [hexChar (x / 16), hexChar (x % 16)]))

def parseTok (s : String) : Option Tok :=
  match s.toList with
  | ['N'] => some .null | ['T'] => some (.bool true) | ['F'] => some (.bool false) | ['U'] => some .unsupported
  | ['{'] => some .beginObj | ['}'] => some .endObj | ['['] => some .beginArr | [']'] => some .endArr
  | '#' :: r => (unhex (String.ofList r)).map .num
  | 'S' :: r => (unhex (String.ofList r)).map .str
  | 'K' :: r => (unhex (String.ofList r)).map .key
  | _ => none

def parsePred : String → Option Pred
  | "absent" => some .absent | "keep" => some (.ret true) | "drop" => some (.ret false) | "err" => some .err
  | "errkeep" => some .err     -- (true, err): an error from the predicate is an error whatever the boolean says
  | _ => none

def showOut : Out → String
  | .forward b => "forward " ++ tohex b
  | .dropped b => "dropped " ++ tohex b
  | .error => "error"

mutual
partial def showJ : J → List String
  | .null => ["n"] | .bool true => ["t"] | .bool false => ["f"]
  | .num l => ["#" ++ tohex l] | .str s => ["S" ++ tohex s]
  | .arr es => ["["] ++ showJL es ++ ["]"]
  | .obj ms => ["{"] ++ showJM ms ++ ["}"]
partial def showJL : JL → List String
  | .nil => [] | .cons v r => showJ v ++ showJL r
partial def showJM : JM → List String
  | .nil => [] | .cons k v r => ["K" ++ tohex k] ++ showJ v ++ showJM r
end

def stepLine (u : Unit) (line : String) : Unit × String :=
  match toks line with
  | "fmt" :: created :: ty :: ts =>
    match unhex created, unhex ty, ts.mapM parseTok with
    | some c, some t, some ts => (u, showOut (jsonFormatter c t ts))
    | _, _, _ => (u, "bad-op")
  | "fmtf" :: created :: ty :: pred :: ts =>
    match unhex created, unhex ty, parsePred pred, ts.mapM parseTok with
    | some c, some t, some p, some ts => (u, showOut (jsonFormatterFilter c t ts p))
    | _, _, _, _ => (u, "bad-op")
  | ["parse", doc] =>
    match unhex doc with
    | some b => (u, match parseDoc b with | some v => "ok " ++ " ".intercalate (showJ v) | none => "bad")
    | none => (u, "bad-op")
  | ["accepts", doc] =>
    match unhex doc with
    | some b => (u, if (parseDoc b).isSome then "ok" else "bad")
    | none => (u, "bad-op")
  | ["filter", pred] =>
    match parsePred pred with
    | some p => (u, match filterNode p with | .forward => "forward" | .dropped => "dropped" | .error => "error")
    | none => (u, "bad-op")
  | _ => (u, "bad-op")

end Driver.Json
