import Evl.Model.Encrypt
import Driver.Json
/- Line protocol for M7 Encrypt (flat structs + key material). -/
namespace Driver.Encrypt
open Evl.Encrypt Driver Driver.Json

def optNat (s : String) : Option (Option Nat) := if s == "N" then some none else s.toNat?.map some

def parseOp : String → Option Op
  | "none" => some .none | "redact" => some .redact | "encrypt" => some .encrypt | "hmac" => some .hmac
  | "other" => some .other | _ => none

def parseOv (s : String) : Option Overrides :=
  if s == "-" then some [] else
  (s.splitOn ",").mapM (fun kv => match kv.splitOn "=" with
    | [k, v] => do some (← unhex k, ← parseOp v)
    | _ => none)

def parseField (s : String) : Option Field :=
  match s.splitOn ":" with
  | [ex, kind, m, tag] => do
    let exported := ex == "E"
    let tg ← (if tag == "N" then some none else (unhex tag).map some)
    let k ← (match kind with
      | "s" => m.toNat?.map FKind.str
      | "b" => (optNat m).map FKind.bytes
      | "o" => some FKind.other
      | "S" => (if m == "-" then some [] else (m.splitOn ".").mapM (·.toNat?)).map FKind.strs
      | "B" => (if m == "-" then some [] else (m.splitOn ".").mapM optNat).map FKind.bss
      | _ => none)
    some { exported := exported, tag := tg, kind := k }
  | _ => none

def showOptNat : Option Nat → String | some n => toString n | none => "-"

/-- salt / info: `0` is the empty (but supplied) slice, which HKDF treats like none -/
def showSI : Option Nat → String | some 0 => "-" | some n => toString n | none => "-"

def showLeaf : Leaf → String
  | .plain m => s!"p{m}" | .nilBytes => "nil" | .redacted => "R" | .other => "o"
  | .enc (w, id) m => s!"E{w}/{showOptNat id}:{m}"
  | .mac (w, id) s i m => s!"M{w}/{showOptNat id}:{showSI s}:{showSI i}:{m}"

def stepLine (k : Keys) (line : String) : Keys × String :=
  match toks line with
  | ["reset", w, s, i] =>
    match optNat w, optNat s, optNat i with
    | some w, some s, some i => ({ wrapper := w, salt := s, info := i }, "reset")
    | _, _, _ => (k, "bad-op")
  | ["rotate", w, s, i] =>
    match optNat w, optNat s, optNat i with
    | some w, some s, some i => (rotate k w s i, "ok")
    | _, _, _ => (k, "bad-op")
  | ["rotpayload", w, s, i] =>
    match optNat w, optNat s, optNat i with
    | some w, some s, some i => (rotate k w s i, "consumed")
    | _, _, _ => (k, "bad-op")
  | "flat" :: ewi :: ov :: fs =>
    match parseOv ov, fs.mapM parseField with
    | some ov, some fs =>
      let ek : Option (Option EventKeys × Bool) :=
        if ewi == "N" then some (none, false)
        else match ewi.splitOn ":" with
          | [id, s, i] =>
            match id.toNat?, optNat s, optNat i with
            | some id, some s, some i =>
              -- event id 0 is the empty string: NewEventWrapper fails; it also fails without a filter wrapper
              let fails := id == 0 || k.wrapper.isNone
              some (some { derivedFrom := k.wrapper.map (·, id), salt := s, info := i }, fails)
            | _, _, _ => none
          | _ => none
      match ek with
      | some (ek, fails) =>
        (k, match processFlat k ek fails ov fs with
          | .same => "same"
          | .error => "error"
          | .filtered ls => "filtered " ++ ",".intercalate (ls.map (fun o => match o with
              | .one l => showLeaf l
              | .many xs => "[" ++ ";".intercalate (xs.map showLeaf) ++ "]")))
      | none => (k, "bad-op")
    | _, _ => (k, "bad-op")
  | _ => (k, "bad-op")

end Driver.Encrypt
