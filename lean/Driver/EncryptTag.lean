import Evl.Model.EncryptTag
import Driver.EncryptTree
/- Line protocol for M7g EncryptTag:
`tagged <wrapper|N> <overrides> <ntags> {<plen> <k1> .. <kn> <hex cls|N> <hex op|N>}* M <n> <entries>`. -/
namespace Driver.EncryptTag
open Evl.Encrypt Evl.EncryptTree Evl.EncryptTag Driver Driver.Json Driver.Encrypt Driver.EncryptTree

def hexOrEmpty (s : String) : Option Bytes := if s == "N" then some [] else unhex s

partial def parseTags : Nat → List String → Option (List PTag × List String)
  | 0, r => some ([], r)
  | n + 1, plen :: r => do
    let plen ← plen.toNat?
    let ks ← (r.take plen).mapM (·.toNat?)
    if ks.length ≠ plen then none
    match r.drop plen with
    | cls :: op :: r' =>
      let cls ← hexOrEmpty cls
      let op ← hexOrEmpty op
      let (ts, r'') ← parseTags n r'
      some ({ path := ks, cls := cls, op := op } :: ts, r'')
    | _ => none
  | _, _ => none

def stepLine (_ : Unit) (line : String) : Unit × String :=
  match toks line with
  | "tagged" :: w :: ov :: nt :: rest =>
    match optNat w, parseOv ov, nt.toNat? with
    | some w, some ov, some nt =>
      match parseTags nt rest with
      | some (tags, r) =>
        match parseV r with
        | some (.map es, []) =>
          let c : Ctx := { k := { wrapper := w, salt := some 1, info := some 1 }, ek := none, ov := ov }
          ((), match processTagged c false tags es with
            | .same => "same"
            | .error => "error"
            | .filtered v' => "filtered " ++ " ".intercalate (showV v'))
        | _ => ((), "bad-op")
      | none => ((), "bad-op")
    | _, _, _ => ((), "bad-op")
  | _ => ((), "bad-op")

end Driver.EncryptTag
