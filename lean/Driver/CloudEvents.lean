import Evl.Model.CloudEvents
import Evl.Model.CloudEventsVerify
import Driver.Json
/- Line protocol for M8b CloudEvents. -/
namespace Driver.CloudEvents
open Evl.CloudEvents Evl.Json Driver Driver.Json

def optHex (s : String) : Option (Option Bytes) := if s == "N" then some none else (unhex s).map some

def parseFormat : String → Option Format
  | "u" => some .unspecified | "j" => some .json | "t" => some .text | "x" => some .invalid | _ => none

def harnessSigner (fail : Bool) (b : Bytes) : Option Bytes :=
  -- the signature is an arbitrary string: a control character, DEL, a quote, a backslash, HTML characters
  -- in front of the checksum (the same bytes as the Go harness's signer)
  if fail then none else some ([115, 31, 127, 34, 92, 60, 62, 38] ++ str s!"sum{b.foldl (· + ·) 0 % 65521}len{b.length}")

def parsePredCE : String → Option Evl.CloudEvents.Pred
  | "absent" => some .absent | "keep" => some (.ret true) | "drop" => some (.ret false) | "err" => some .err | "errkeep" => some .err | _ => none

def errName : Err → String
  | .nilFilter => "E_NIL" | .missingSource => "E_SOURCE" | .badFormat => "E_FORMAT" | .emptySchema => "E_SCHEMA"
  | .emptyId => "E_ID" | .encode => "E_ENCODE" | .sign => "E_SIGN" | .predicate => "E_PRED"

def showOut : Evl.CloudEvents.Out → String
  | .forward f b => s!"forward {f} {tohex b}"
  | .dropped f b => s!"dropped {f} {tohex b}"
  | .error e => "error " ++ errName e

def stepLine (u : Unit) (line : String) : Unit × String :=
  match toks line with
  | "ce" :: nf :: src :: sch :: fm :: sg :: sts :: ty :: tt :: idi :: fid :: pr :: dk :: dts =>
    match parseBool nf, optHex src, optHex sch, parseFormat fm, sg.toNat?, unhex ty, unhex tt, optHex idi, unhex fid, parsePredCE pr, dts.mapM parseTok with
    | some nf, some src, some sch, some fm, some sg, some ty, some tt, some idi, some fid, some pr, some dts =>
      let signTypes := if sts == "-" then some [] else (sts.splitOn ",").mapM unhex
      match signTypes with
      | some sts =>
        let cfg : Cfg := { nilFilter := nf, source := src, schema := sch, format := fm, hasSigner := sg != 0, signTypes := sts }
        let ev : Ev := { ty := ty, timeTok := tt, data := if dk == "D" then some dts else none, idIface := idi, freshId := fid }
        (u, showOut (process cfg ev (harnessSigner (sg == 2)) pr))
      | none => (u, "bad-op")
    | _, _, _, _, _, _, _, _, _, _, _ => (u, "bad-op")
  | ["verifytext", doc] =>
    match unhex doc with
    | some b => (u, match verifyText (harnessSigner false) b with
        | .verified => "verified" | .notSigned => "notSigned" | .malformed => "malformed" | .mismatch => "mismatch")
    | none => (u, "bad-op")
  | ["compact", doc] =>
    match unhex doc with
    | some b => (u, tohex (Evl.Json.compact b))
    | none => (u, "bad-op")
  | ["verify", doc] =>
    match unhex doc with
    | some b => (u, match verify (harnessSigner false) b with
        | .verified => "verified" | .notSigned => "notSigned" | .malformed => "malformed" | .mismatch => "mismatch")
    | none => (u, "bad-op")
  | _ => (u, "bad-op")

end Driver.CloudEvents
