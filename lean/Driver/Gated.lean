import Evl.Model.Gated
import Driver.Util
/- Line protocol for M6 Gated. -/
namespace Driver.Gated
open Evl.Gated Driver

structure St where
  cfg : Cfg := { broker := false, expiration := 10 }
  gs : List Group := []

def fateName : Fate → String
  | .sent => "sent" | .noBroker => "nobroker" | .composeErr => "composeerr" | .gateableErr => "gateableerr"
  | .sendErr => "senderr" | .droppedUncomposed => "dropped" | .flushed => "flushed" | .flushComposeErr => "flushcomposeerr"

def retName : Ret → String
  | .gated => "gated" | .pass => "pass" | .flushed evs => "flushed " ++ showList evs | .ok => "ok"
  | .errNoId => "err E_NO_ID" | .errCompose => "err E_COMPOSE" | .errGateable => "err E_GATEABLE" | .errSend => "err E_SEND"

def showOut (o : Out) : String :=
  let es := o.emits.filter (fun e => e.fate.composed)
  retName o.ret ++ " emits=[" ++ ",".intercalate (es.map (fun e => s!"{e.id}:{showList e.evs}:{fateName e.fate}")) ++ "]"

def parseFail (cf cg sf : String) : Option Fail := do
  some { cf := ← cf.toNat?, cg := ← cg.toNat?, sf := ← sf.toNat? }

def parseOp : List String → Option Op
  | ["ev", uid, id, fl, now, cf, cg, sf] => do
    some (.ev (← uid.toNat?) (← id.toNat?) (← parseBool fl) (← parseInt now) (← parseFail cf cg sf))
  | ["ng", uid] => do some (.ng (← uid.toNat?))
  | ["flushall", cf, cg, sf] => do some (.flushAll (← parseFail cf cg sf))
  | ["close", cf, cg, sf] => do some (.close (← parseFail cf cg sf))
  | _ => none

def stepLine (s : St) (line : String) : St × String :=
  match toks line with
  | ["reset", b, e] =>
    match parseBool b, e.toNat? with
    | some b, some e => ({ cfg := { broker := b, expiration := e }, gs := [] }, "reset")
    | _, _ => (s, "bad-op")
  | ts =>
    match parseOp ts with
    | some op => let (gs', o) := step s.cfg s.gs op; ({ s with gs := gs' }, showOut o)
    | none => (s, "bad-op")

end Driver.Gated
