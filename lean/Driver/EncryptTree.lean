import Evl.Model.EncryptTree
import Driver.Encrypt
/- Line protocol for M7t EncryptTree: `tree <wrapper|N> <overrides> <value in prefix notation>`. -/
namespace Driver.EncryptTree
open Evl.Encrypt Evl.EncryptTree Driver Driver.Json Driver.Encrypt

mutual
partial def parseV : List String → Option (V × List String)
  | "s" :: m :: r => m.toNat?.map (fun m => (V.leaf (.plain m), r))
  | "b" :: m :: r => m.toNat?.map (fun m => (V.leaf (.plain m), r))
  | "bn" :: r => some (V.leaf .nilBytes, r)
  | "o" :: r => some (V.leaf .other, r)
  | "S" :: n :: r => do
    let n ← n.toNat?
    let ms ← (r.take n).mapM (·.toNat?)
    if ms.length = n then some (V.leaves (ms.map Leaf.plain), r.drop n) else none
  | "B" :: n :: r => do
    let n ← n.toNat?
    let ms ← (r.take n).mapM optNat
    if ms.length = n then some (V.leaves (ms.map rawElem), r.drop n) else none
  | "N" :: r => some (V.nilPtr, r)
  | "P" :: r => do let (v, r') ← parseV r; some (V.ptr v, r')
  | "I" :: r => do let (v, r') ← parseV r; some (V.iface v, r')
  | "T" :: n :: r => do let (is, r') ← parseItems 0 (← n.toNat?) r; some (V.struct is, r')
  | "L" :: n :: r => do let (is, r') ← parseItems 1 (← n.toNat?) r; some (V.slice is, r')
  | "M" :: n :: r => do let (is, r') ← parseItems 2 (← n.toNat?) r; some (V.map is, r')
  | "A" :: n :: r => do let (is, r') ← parseItems 1 (← n.toNat?) r; some (V.slice is, r')   -- []interface{}: elements are `I …` or `N`
  | _ => none
partial def parseItems (kind : Nat) : Nat → List String → Option (Items × List String)
  | 0, r => some (.nil, r)
  | n + 1, r => do
    let (h, r1) ← (match kind, r with
      | 0, ex :: tag :: r1 => do
        let tg ← (if tag == "N" then some none else (unhex tag).map some)
        some (Hdr.field (ex == "E") tg, r1)
      | 1, r1 => some (Hdr.elem, r1)
      | 2, k :: r1 => k.toNat?.map (fun k => (Hdr.key k, r1))
      | _, _ => none)
    let (v, r2) ← parseV r1
    let (rest, r3) ← parseItems kind n r2
    some (.cons h v rest, r3)
end

mutual
partial def showV : V → List String
  | .leaf l => [showLeaf l]
  | .leaves ls => ["S", toString ls.length] ++ ls.map showLeaf
  | .nilPtr => ["N"]
  | .ptr v => "P" :: showV v
  | .iface v => "I" :: showV v
  | .struct fs => ["T", toString (countItems fs)] ++ showItems fs
  | .slice vs => ["L", toString (countItems vs)] ++ showItems vs
  | .map es => ["M", toString (countItems es)] ++ showItems es
partial def showItems : Items → List String
  | .nil => []
  | .cons h v rest =>
    (match h with
     | .field ex _ => [if ex then "E" else "U"]
     | .elem => []
     | .key k => [toString k]) ++ showV v ++ showItems rest
partial def countItems : Items → Nat
  | .nil => 0
  | .cons _ _ rest => 1 + countItems rest
end

def stepLine (_ : Unit) (line : String) : Unit × String :=
  match toks line with
  | "tree" :: w :: ov :: rest =>
    match optNat w, parseOv ov, parseV rest with
    | some w, some ov, some (v, []) =>
      let c : Ctx := { k := { wrapper := w, salt := some 1, info := some 1 }, ek := none, ov := ov }
      ((), match process c false v with
        | .same => "same"
        | .error => "error"
        | .filtered v' => "filtered " ++ " ".intercalate (showV v'))
    | _, _, _ => ((), "bad-op")
  | _ => ((), "bad-op")

end Driver.EncryptTree
