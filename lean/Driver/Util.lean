/- Shared helpers of the line-protocol driver (core Lean only). -/
namespace Driver

def toks (line : String) : List String :=
  (line.trimAscii.toString.splitOn " ").filter (· ≠ "")

def natList (xs : List String) : Option (List Nat) := xs.mapM (·.toNat?)

def showList (xs : List Nat) : String := "[" ++ ",".intercalate (xs.map toString) ++ "]"

def sortNat (xs : List Nat) : List Nat := xs.mergeSort (· ≤ ·)

def bstr (b : Bool) : String := if b then "true" else "false"

def parseBool : String → Option Bool
  | "1" => some true | "true" => some true
  | "0" => some false | "false" => some false
  | _ => none

def parseInt (s : String) : Option Int := s.toInt?

/-- Feed stdin line by line through a step function with state. -/
partial def loop {σ : Type} (h : IO.FS.Stream) (out : IO.FS.Stream) (step : σ → String → σ × String) (s : σ) : IO Unit := do
  let line ← h.getLine
  if line.isEmpty then
    out.flush
    return ()
  let (s', o) := step s line
  out.putStrLn o
  loop h out step s'

end Driver
