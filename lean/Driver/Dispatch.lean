import Evl.Model.Dispatch
import Driver.Util
/- Trace acceptor for M2 Dispatch: replays the hook trace of one real Send through `Dispatch.fire`. -/
namespace Driver.Dispatch
open Evl.Dispatch Driver

structure St where
  n : Nat := 0
  lens : List Nat := []
  outs : List (List Outcome) := []
  sinks : List (List Bool) := []
  s : S := init
  sentSeen : List (Nat × Nat) := []
  recvSeen : List (Nat × Nat) := []
  bad : Bool := false

def St.cfg (st : St) : Cfg :=
  { n := st.n
    len := fun p => st.lens.getD p 1
    out := fun p k => (st.outs.getD p []).getD k .pass
    sink := fun p k => (st.sinks.getD p []).getD k false }

def parseOut : Char → Option Outcome
  | 'p' => some .pass | 'r' => some .replace | 'd' => some .drop | 'e' => some .err | 'E' => some .err | _ => none

def showGot (g : List (Nat × Nat × Bool)) : String :=
  let xs := (g.map (fun (p, k, w) => s!"{p}/{k}/{if w then "w" else "c"}")).mergeSort (fun a b => decide (a ≤ b))
  "[" ++ ",".intercalate xs ++ "]"

def showInv (g : List (Nat × Nat)) : String :=
  "[" ++ ",".intercalate (g.map (fun (p, k) => s!"{p}/{k}")) ++ "]"

def tryFire (st : St) (l : Label) : St × String :=
  match fire st.cfg st.s l with
  | some s' => ({ st with s := s' }, "ok")
  | none => ({ st with bad := true }, "reject")

def stepLine (st : St) (line : String) : St × String :=
  if st.bad then (st, "skipped") else
  match toks line with
  | ["cfg", n] => ({ n := n.toNat!, s := init }, "cfg")
  | "pipe" :: _ :: outs :: sinks :: [] =>
    let os := outs.toList.filterMap parseOut
    let ss := sinks.toList.map (· == '1')
    ({ st with lens := st.lens ++ [os.length], outs := st.outs ++ [os], sinks := st.sinks ++ [ss] }, "pipe")
  | ["cancel"] => tryFire st .cancel
  | ["rangeStart", p] => tryFire st (.rangeStart p.toNat!)
  | ["rangeStop"] => tryFire st .rangeStop
  | ["rangeEnd"] => if st.s.rg = .waiting then (st, "ok") else tryFire st .rangeEnd
  | ["call", p, k] =>
    let p := p.toNat!; let k := k.toNat!
    if (st.s.ps p).ph = .calling ∧ (st.s.ps p).k = k then (st, "ok") else ({ st with bad := true }, "reject")
  | ["ret", p, k] =>
    let p := p.toNat!; let k := k.toNat!
    if (st.s.ps p).k = k then tryFire st (.ret p) else ({ st with bad := true }, "reject")
  | ["sendTry", p, k] =>
    let p := p.toNat!; let k := k.toNat!
    if (st.s.ps p).k = k then tryFire st (.sendTry p) else ({ st with bad := true }, "reject")
  | ["spawn", p, k] =>
    let p := p.toNat!; let k := k.toNat!
    if (st.s.ps p).k + 1 = k then tryFire st (.spawn p) else ({ st with bad := true }, "reject")
  | ["sent", p, k] =>
    let p := p.toNat!; let k := k.toNat!
    if st.sentSeen.contains (p, k) then ({ st with bad := true }, "reject")
    else if st.recvSeen.contains (p, k) then ({ st with sentSeen := (p, k) :: st.sentSeen }, "ok")
    else if (st.s.ps p).k = k then
      let (st', r) := tryFire st (.rendezvous p)
      ({ st' with sentSeen := (p, k) :: st.sentSeen }, r)
    else ({ st with bad := true }, "reject")
  | ["recv", p, k] =>
    let p := p.toNat!; let k := k.toNat!
    if st.recvSeen.contains (p, k) then ({ st with bad := true }, "reject")
    else if st.sentSeen.contains (p, k) then ({ st with recvSeen := (p, k) :: st.recvSeen }, "ok")
    else if (st.s.ps p).k = k then
      let (st', r) := tryFire st (.rendezvous p)
      ({ st' with recvSeen := (p, k) :: st.recvSeen }, r)
    else ({ st with bad := true }, "reject")
  | ["abort", p, k] =>
    let p := p.toNat!; let k := k.toNat!
    if (st.s.ps p).k = k then tryFire st (.sendAbort p) else ({ st with bad := true }, "reject")
  | ["done", p, k] =>
    let p := p.toNat!; let k := k.toNat!
    if (st.s.ps p).ph = .finishing ∧ (st.s.ps p).k = k then tryFire st (.doneCur p)
    else if k = 0 then tryFire st (.doneRoot p)
    else if k < (st.s.ps p).k then tryFire st (.doneOwing p)
    else ({ st with bad := true }, "reject")
  | ["waited"] => tryFire st .waitEnd
  | ["closed"] =>
    -- the ranger logs `closed` after close(statusChan); the collector may already have seen (and logged) the closed channel
    if st.s.rg = .closed then (st, "ok") else tryFire st .close
  | ["collect"] => if st.s.collExited then ({ st with bad := true }, "reject") else (st, "ok")
  | ["collectCtx"] =>
    let (st', r) := tryFire st .collectCtx
    (st', r ++ " got=" ++ showGot st.s.got)
  | ["collectClosed"] =>
    let st0 := if st.s.rg = .waited then (tryFire st .close).1 else st
    let (st', r) := tryFire st0 .collectClosed
    (st', r ++ " got=" ++ showGot st.s.got)
  | ["end"] =>
    let term := st.s.collExited && st.s.rg == .closed
    let allSeen := st.sentSeen.all (fun x => st.recvSeen.contains x) && st.recvSeen.all (fun x => st.sentSeen.contains x)
    (st, (if term && allSeen then "end terminal" else "end nonterminal") ++ " inv=" ++ showInv st.s.inv)
  | _ => (st, "bad-op")

end Driver.Dispatch
