import Evl.Model.Registry
import Driver.Util
/- Line protocol for M1 Registry. -/
namespace Driver.Registry
open Evl.Registry Driver

def parseBeh : String → Option Beh
  | "pass" => some .pass | "replace" => some .replace | "drop" => some .drop | "err" => some .err | "errev" => some .err
  | _ => none

/-- `invalid…`: anything that is not exactly one of the two policy constants (another word, the right
word in the wrong case, the empty string, a trailing blank) -/
def parsePolOpt : String → Option PolOpt
  | "allow" => some ⟨true, .allow⟩ | "deny" => some ⟨true, .deny⟩
  | "xallow" => some ⟨false, .allow⟩ | "xdeny" => some ⟨false, .deny⟩
  | "nil" => some ⟨true, .dflt⟩
  | s =>
    if s.startsWith "invalid" then some ⟨true, .invalid⟩
    else if s.startsWith "xinvalid" then some ⟨false, .invalid⟩
    else none

/-- the option list of one call: `dflt` (no option) or options joined by `+` -/
def parsePol (s : String) : Option Pol :=
  if s = "dflt" then some .dflt
  else if s.startsWith "invalid" && !s.contains '+' then some .invalid
  else (s.splitOn "+").mapM parsePolOpt |>.map effPol

def errName : Err → String
  | .emptyId => "E_EMPTY_ID" | .badPolicy => "E_BAD_POLICY" | .deny => "E_DENY" | .notFound => "E_NOT_FOUND"
  | .inUse => "E_IN_USE" | .closeErr => "E_CLOSE" | .invalid => "E_INVALID" | .notRegistered => "E_NOT_REGISTERED"
  | .noChildren => "E_NO_CHILDREN" | .sinkAtRoot => "E_SINK_AT_ROOT" | .sinkNoFormatter => "E_SINK_NO_FORMATTER"
  | .emptyType => "E_EMPTY_TYPE" | .emptyPid => "E_EMPTY_PID" | .noGraph => "E_NO_GRAPH" | .noPipeline => "E_NO_PIPELINE"
  | .negative => "E_NEGATIVE" | .threshold => "E_THRESHOLD" | .thresholdSinks => "E_THRESHOLD_SINKS"
  | .reopenErr => "E_REOPEN"

def optErr : Option Err → String
  | none => "ok" | some e => errName e

def showTrav (t : Trav) : String :=
  let calls := ",".intercalate (t.calls.map (fun (a, b, c) => s!"{a}/{b}/{c}"))
  let comp := match t.complete with | some i => s!"c{i}" | none => "c-"
  let warn := match t.warn with | some i => s!"w{i}" | none => "w-"
  s!"{t.pid}:[{calls}]:{comp}:{bstr t.sink}:{warn}"

def showRes : Res → String
  | .ok => "ok"
  | .err e => "err " ++ errName e
  | .closed insts e => s!"closed {showList (sortNat insts)} {optErr e}"
  | .rpan r insts anyErr => s!"rpan {bstr r} {showList (sortNat insts)} {bstr anyErr}"
  | .thr n f => s!"thr {n} {bstr f}"
  | .bool b => s!"bool {bstr b}"
  | .sent travs e =>
    let calls := (travs.flatMap (fun t => t.calls.map (fun (_, b, c) => s!"{b}/{c}"))).mergeSort (fun a b => decide (a ≤ b))
    let comp := travs.filterMap (·.complete)
    let sinks := travs.filterMap (fun t => if t.sink then t.complete else none)
    let warns := travs.filterMap (·.warn)
    s!"sent {optErr e} calls=[{",".intercalate calls}] complete={showList (sortNat comp)} sinks={showList (sortNat sinks)} warns={showList (sortNat warns)}"
  | .reopened calls failed =>
    if failed then "reopened failed" else s!"reopened ok {showList (sortNat calls)}"

def dump (b : Broker) : String :=
  let ns := b.nodes.mergeSort (fun a b => a.1 ≤ b.1)
  let nstr := ",".intercalate (ns.map (fun (id, e) => s!"{id}/{e.inst}/{e.refs}/{bstr e.deny}"))
  let ps := b.pipes.mergeSort (fun a b => a.ty < b.ty || (a.ty == b.ty && a.pid ≤ b.pid))
  let pstr := ",".intercalate (ps.map (fun p => s!"{p.ty}/{p.pid}/{showList p.ids}/{bstr p.deny}"))
  let gs := b.graphs.mergeSort (fun a b => a.ty ≤ b.ty)
  let gstr := ",".intercalate (gs.map (fun g => s!"{g.ty}/{g.thr}/{g.thrSinks}"))
  s!"dump nodes={nstr} pipes={pstr} graphs={gstr}"

def parseOp : List String → Option Op
  | ["regnode", id, ty, beh, cf, pol] => do
    some (.regNode (← id.toNat?) (← ty.toNat?) (← parseBeh beh) (← parseBool cf) (← parsePol pol))
  | ["rmnode", id] => do some (.removeNode (← id.toNat?))
  | "regpipe" :: ty :: pid :: pol :: ids => do
    some (.regPipe (← ty.toNat?) (← pid.toNat?) (← natList ids) (← parsePol pol))
  | ["rmpipe", ty, pid] => do some (.removePipe (← ty.toNat?) (← pid.toNat?))
  | ["rpan", ty, pid] => do some (.rpan (← ty.toNat?) (← pid.toNat?))
  | ["setthr", ty, n] => do some (.setThr (← ty.toNat?) (← parseInt n))
  | ["setthrs", ty, n] => do some (.setThrSinks (← ty.toNat?) (← parseInt n))
  | ["getthr", ty] => do some (.getThr (← ty.toNat?))
  | ["getthrs", ty] => do some (.getThrSinks (← ty.toNat?))
  | ["isany", ty] => do some (.isAny (← ty.toNat?))
  | ["send", ty] => do some (.send (← ty.toNat?))
  | ["reopen", f] => do some (.reopen (← f.toNat?))
  | _ => none

def stepLine (b : Broker) (line : String) : Broker × String :=
  match toks line with
  | ["reset"] => (init, "reset")
  | ["dump"] => (b, dump b)
  | ts =>
    match parseOp ts with
    | some op => let (b', r) := step b op; (b', showRes r)
    | none => (b, "bad-op")

end Driver.Registry
