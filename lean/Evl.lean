import Evl.Model.Registry
import Evl.Lemmas.Registry
import Evl.Lemmas.RegistryInv
import Evl.Lemmas.RegistryClose
import Evl.Props.C05
import Evl.Props.C06
import Evl.Props.C07
import Evl.Props.C20
