import Driver.Util
import Driver.Registry
import Driver.Gated
import Driver.Dispatch
import Driver.FileSink
import Driver.Sinks
import Driver.Json
import Driver.Main
