import Evl.Model.Encrypt
/-
M7t `EncryptTree` — encrypt.Filter on *nested* payloads: filter.go (Process's dispatch on the payload
kind, filterField, the element loops, filterSliceElements, filterSlice, filterValue) and map.go
(trackMap / processUnfiltered) over a value tree of structs, pointers, interface-held values, slices
and untagged maps.  Leaves, tags, actions and key material are M7's (`Evl.Encrypt`).

What the tree keeps of Go's reflection: *addressability*.  A struct reached through a pointer, a
slice element or (since the fix of struct values in maps) a map value has settable fields; a struct
passed BY VALUE as the payload has not, and `filterValue` silently leaves such strings alone (known
finding F6c).  A value held directly in an `interface{}` *field* is filtered on a settable copy that
is stored back in the field (fix 663fde8) — whenever the struct that has the field is addressable.

Not in this model: Taggable values (M7g has Taggable map payloads), wrapperspb / structpb values,
IgnoreTypes, arrays, channels.
-/
namespace Evl.EncryptTree
open Evl.Encrypt

/-- what an item of a container is labelled with -/
inductive Hdr
  | field (exported : Bool) (tag : Option Bytes)    -- struct field with its `class` tag
  | elem                                            -- slice element
  | key (k : Nat)                                   -- map entry (string key)
  deriving DecidableEq, Repr, Inhabited

mutual
/-- a value reachable from the payload -/
inductive V
  | leaf (l : Leaf)              -- string / []byte (`plain m`, `nilBytes`) or any other scalar (`other`)
  | leaves (ls : List Leaf)      -- []string / [][]byte
  | nilPtr                       -- nil pointer / nil interface
  | ptr (v : V)                  -- non-nil pointer (or an interface holding one)
  | iface (v : V)                -- interface holding a value directly: not addressable
  | struct (fs : Items)
  | slice (vs : Items)           -- slice of anything but strings / []byte
  | map (es : Items)             -- untagged map with string keys
/-- fields / elements / entries -/
inductive Items
  | nil
  | cons (h : Hdr) (v : V) (rest : Items)
end

instance : Inhabited V := ⟨.nilPtr⟩
instance : Inhabited Items := ⟨.nil⟩

/-- the operations and key material of one Process call -/
structure Ctx where
  k : Keys
  ek : Option EventKeys
  ov : Overrides
  deriving Repr, Inhabited

/-- the plaintext readable in a leaf -/
def leafPlain : Leaf → List Nat
  | .plain m => [m]
  | _ => []

/-- `filterValue` on one string / []byte value: `settable` is `fv.CanSet()`; `none` = error -/
def filterStr (c : Ctx) (a : Action) (settable : Bool) (l : Leaf) : Option Leaf :=
  match l with
  | .plain m =>
    if a = .keep then some l
    else if !settable then some l            -- "check to see if it's an exported struct field": silently skipped
    else filterLeaf c.k c.ek a m
  | _ => some l                              -- nil []byte, non-string values

/-- `filterSlice` on a []string / [][]byte -/
def filterStrs (c : Ctx) (t : TagInfo) (ls : List Leaf) : Option (List Leaf) :=
  if t.cls = .pub then some ls
  else ls.mapM (filterStr c (action t) true)

/-- the tag of untagged map values: unknown classification, unknown operation (redact) -/
def mapTag : TagInfo := { cls := .unknown, op := .unknown }

mutual
/-- a struct field's / payload's value after the pointer / interface in front of it was looked through:
`addr` tells whether the value is addressable (its string fields settable) -/
def filtV (c : Ctx) (t : TagInfo) (addr : Bool) : V → Option V
  | .leaf l => (filterStr c (action t) addr l).map .leaf
  | .leaves ls => (filterStrs c t ls).map .leaves
  | .nilPtr => some .nilPtr
  | .ptr v => (filtV c t true v).map .ptr              -- what a pointer points at is addressable
  | .iface v => (filtIface c t addr v).map .iface
  | .struct fs => (filtFields c addr fs).map .struct
  | .slice vs => (filtElems c t vs).map .slice
  | .map es => (filtEntries c es).map .map
/-- an interface-typed field: `field = v.Field(i).Elem()`; a pointer inside is followed once more; a
value held directly is filtered on a settable copy, stored back when the field itself is settable
(`addr`: the struct that has the field is addressable) -/
def filtIface (c : Ctx) (t : TagInfo) (addr : Bool) : V → Option V
  | .ptr v => (filtV c t true v).map .ptr
  | .leaf l => (filterStr c (action t) addr l).map .leaf
  | .struct fs => (filtFields c addr fs).map .struct
  | .leaves ls => (filterStrs c t ls).map .leaves           -- slice elements stay settable
  | .slice vs => (filtElems c t vs).map .slice
  | .map es => (filtEntries c es).map .map
  | .nilPtr => some .nilPtr
  | .iface v => some (.iface v)
/-- `filterField`: every exported field, by kind -/
def filtFields (c : Ctx) (addr : Bool) : Items → Option Items
  | .nil => some .nil
  | .cons (.field ex tag) v rest =>
    if !ex then (filtFields c addr rest).map (.cons (.field ex tag) v)
    else match filtV c (fromTag tag c.ov) addr v, filtFields c addr rest with
      | some v', some r => some (.cons (.field ex tag) v' r)
      | _, _ => none
  | .cons .elem v rest => (filtFields c addr rest).map (.cons .elem v)        -- not a field: not produced by the generator
  | .cons (.key k) v rest => (filtFields c addr rest).map (.cons (.key k) v)
/-- the element loops (Process's, filterField's, filterSliceElements); `t`: the tag strings found in
the slice are filtered under (the field's tag; secret for a payload slice; unclassified in a map) -/
def filtElems (c : Ctx) (t : TagInfo) : Items → Option Items
  | .nil => some .nil
  | .cons h v rest =>
    match filtElem c t v, filtElems c t rest with
    | some v', some rs => some (.cons h v' rs)
    | _, _ => none
/-- one element: interfaces and pointers are looked through (nil skipped), maps tracked, structs
filtered (slice elements are addressable), inner slices walked, strings filtered under `t` -/
def filtElem (c : Ctx) (t : TagInfo) : V → Option V
  | .ptr w => (filtElemTarget c t w).map .ptr
  | .struct fs => (filtFields c true fs).map .struct
  | .map es => (filtEntries c es).map .map
  | .slice vs => (filtElems c t vs).map .slice
  | .leaf l => (filterStr c (action t) true l).map .leaf
  | .leaves ls => (filterStrs c t ls).map .leaves
  | .nilPtr => some .nilPtr
  | .iface v => (filtElemIface c t v).map .iface
/-- what an interface element holds: a value held directly is filtered on a settable copy that is
stored back in the element (fix 0954877) -/
def filtElemIface (c : Ctx) (t : TagInfo) : V → Option V
  | .ptr w => (filtElemTarget c t w).map .ptr
  | .struct fs => (filtFields c true fs).map .struct
  | .map es => (filtEntries c es).map .map
  | .slice vs => (filtElems c t vs).map .slice
  | .leaf l => (filterStr c (action t) true l).map .leaf
  | .leaves ls => (filterStrs c t ls).map .leaves
  | .nilPtr => some .nilPtr
  | .iface v => some (.iface v)
/-- what a pointer element points at -/
def filtElemTarget (c : Ctx) (t : TagInfo) : V → Option V
  | .struct fs => (filtFields c true fs).map .struct
  | .map es => (filtEntries c es).map .map
  | .slice vs => (filtElems c t vs).map .slice
  | .leaf l => (filterStr c (action t) true l).map .leaf
  | .leaves ls => (filterStrs c t ls).map .leaves
  | .nilPtr => some .nilPtr
  | .ptr v => some (.ptr v)
  | .iface v => some (.iface v)
/-- `processUnfiltered` on one untagged map: every value, by kind -/
def filtEntries (c : Ctx) : Items → Option Items
  | .nil => some .nil
  | .cons h v rest =>
    match filtEntry c v, filtEntries c rest with
    | some v', some rs => some (.cons h v' rs)
    | _, _ => none
/-- one map value: interface and pointer in front of it are looked through -/
def filtEntry (c : Ctx) : V → Option V
  | .leaf l => (filterStr c (action mapTag) true l).map .leaf       -- filtered on an addressable copy, stored back
  | .leaves ls => (filterStrs c mapTag ls).map .leaves
  | .struct fs => (filtFields c true fs).map .struct                -- addressable copy (fix 2c20777)
  | .map es => (filtEntries c es).map .map
  | .slice vs => (filtMapSlice c vs).map .slice
  | .ptr w => (filtEntryTarget c w).map .ptr
  | .iface v => (filtEntry c v).map .iface
  | .nilPtr => some .nilPtr
/-- what a pointer held in a map points at -/
def filtEntryTarget (c : Ctx) : V → Option V
  | .struct fs => (filtFields c true fs).map .struct
  | .leaf l => (filterStr c (action mapTag) true l).map .leaf
  | .map es => (filtEntries c es).map .map
  | .leaves ls => (filterStrs c mapTag ls).map .leaves      -- a pointer to a slice: as the slice itself
  | .slice vs => (filtMapSlice c vs).map .slice
  | .nilPtr => some .nilPtr
  | .ptr v => some (.ptr v)
  | .iface v => some (.iface v)
/-- a slice held in a map -/
def filtMapSlice (c : Ctx) : Items → Option Items
  | .nil => some .nil
  | .cons h v rest =>
    match filtMapElem c v, filtMapSlice c rest with
    | some v', some rs => some (.cons h v' rs)
    | _, _ => none
/-- its elements are looked through interface and pointer; structs are filtered in place (one held
directly by an interface element on a settable copy), strings are unclassified data: redacted -/
def filtMapElem (c : Ctx) : V → Option V
  | .struct fs => (filtFields c true fs).map .struct
  | .ptr w => (filtMapElemPtr c w).map .ptr
  | .iface w => (filtMapElemIface c w).map .iface
  | .map es => (filtEntries c es).map .map
  | .slice vs => (filtElems c mapTag vs).map .slice
  | .leaf l => (filterStr c (action mapTag) true l).map .leaf
  | .leaves ls => (filterStrs c mapTag ls).map .leaves
  | .nilPtr => some .nilPtr
def filtMapElemPtr (c : Ctx) : V → Option V
  | .struct fs => (filtFields c true fs).map .struct
  | .leaf l => (filterStr c (action mapTag) true l).map .leaf
  | .leaves ls => (filterStrs c mapTag ls).map .leaves
  | .slice vs => (filtElems c mapTag vs).map .slice
  | .map es => (filtEntries c es).map .map
  | .nilPtr => some .nilPtr
  | .ptr v => some (.ptr v)
  | .iface v => some (.iface v)
def filtMapElemIface (c : Ctx) : V → Option V
  | .struct fs => (filtFields c true fs).map .struct
  | .ptr w => (filtMapElemPtr c w).map .ptr
  | .map es => (filtEntries c es).map .map
  | .leaf l => (filterStr c (action mapTag) true l).map .leaf
  | .leaves ls => (filterStrs c mapTag ls).map .leaves
  | .slice vs => (filtElems c mapTag vs).map .slice
  | .nilPtr => some .nilPtr
  | .iface v => some (.iface v)
end

/-- the tag the payload itself is filtered under when it is a string / []byte / []string: secret -/
def payloadTag (c : Ctx) : TagInfo := fromTagString sSecret c.ov

/-- what a pointer payload points at (addressable) -/
def filtPayloadTarget (c : Ctx) : V → Option V
  | .leaf l => (filterStr c (action (payloadTag c)) true l).map .leaf
  | .leaves ls => (filterStrs c (payloadTag c) ls).map .leaves
  | .struct fs => (filtFields c true fs).map .struct
  | .slice vs => (filtElems c (payloadTag c) vs).map .slice
  | .map es => (filtEntries c es).map .map
  | .nilPtr => some .nilPtr
  | .ptr v => some (.ptr v)
  | .iface v => some (.iface v)

/-- the payload (an interface value): a struct BY VALUE has no settable fields (known finding F6c), a
string by value cannot be redacted at all ("not setable": an error) -/
def filtPayload (c : Ctx) : V → Option V
  | .ptr w => (filtPayloadTarget c w).map .ptr
  | .leaf l => if (leafPlain l).isEmpty then some (.leaf l) else none
  | .leaves ls => (filterStrs c (payloadTag c) ls).map .leaves
  | .struct fs => (filtFields c false fs).map .struct
  | .slice vs => (filtElems c (payloadTag c) vs).map .slice
  | .map es => (filtEntries c es).map .map
  | .nilPtr => some .nilPtr
  | .iface v => some (.iface v)

inductive Res
  | same                    -- the very same event is forwarded
  | filtered (v : V)        -- a filtered copy is forwarded
  | error
  deriving Inhabited

/-- `Process` on a non-nil, non-zero payload -/
def process (c : Ctx) (ewiFails : Bool) (payload : V) : Res :=
  if (effOps c.ov).all (· = .none) then .same
  else if ewiFails then .error
  else if (keyFor c.k c.ek).isNone ∧ (effOps c.ov).any (fun o => o = .encrypt ∨ o = .hmac) then .error
  else match filtPayload c payload with
    | some v => .filtered v
    | none => .error

end Evl.EncryptTree
