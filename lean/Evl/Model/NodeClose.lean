/-
M1c `NodeClose` — `NodeController.Close` (node.go): the loop over a type switch that decides which
`Close` the Broker calls for a registered node.  A node is described by the interfaces it implements
and, for a `NodeUnwrapper`, by what `Unwrap` returns (`none`: nil).
-/
namespace Evl.NodeClose

inductive Shape
  | plain                                             -- neither Closer nor NodeUnwrapper
  | closer (id : Nat)                                 -- a Closer; `id` names the node whose Close it is
  | wrapper (inner : Option Shape)                    -- a NodeUnwrapper that is no Closer
  | closerWrapper (id : Nat) (inner : Option Shape)   -- a decorator: Closer and NodeUnwrapper
  deriving Repr

/-- the interfaces a node satisfies, as the type switch sees them -/
def isCloser : Shape → Bool
  | .closer _ | .closerWrapper _ _ => true
  | _ => false
def isUnwrapper : Shape → Bool
  | .wrapper _ | .closerWrapper _ _ => true
  | _ => false

/-- one action of a case clause -/
inductive Act | close | unwrap | stop | other
  deriving DecidableEq, Repr

/-- the loop, driven by the list of (interface, action) cases in source order; `fuel` bounds the
iterations (a run that exhausts it does not return: `none`).  Result: `some (some id)` — the Close of
node `id` was called; `some none` — returned without closing anything. -/
def closeLoop (cases : List (String × Act)) : Nat → Option Shape → Option (Option Nat)
  | 0, _ => none
  | _ + 1, none => some none                               -- nil matches no interface: default
  | fuel + 1, some s =>
    let hit := cases.find? (fun c =>
      (c.1 == "Closer" && isCloser s) || (c.1 == "NodeUnwrapper" && isUnwrapper s) || c.1 == "default")
    match hit with
    | none => some none
    | some (_, .close) =>
      (match s with
       | .closer id | .closerWrapper id _ => some (some id)
       | _ => some none)
    | some (_, .unwrap) =>
      (match s with
       | .wrapper inner | .closerWrapper _ inner => closeLoop cases fuel inner
       | _ => some none)
    | some (_, .stop) => some none
    | some (_, .other) => none          -- anything else (e.g. a `break` that only leaves the switch): not modelled as returning

/-- the cases as the source has them -/
def sourceCases : List (String × Act) := [("Closer", .close), ("NodeUnwrapper", .unwrap), ("default", .stop)]

/-- nesting depth: the number of loop iterations needed -/
def depth : Shape → Nat
  | .wrapper (some s) => depth s + 1
  | .closerWrapper _ (some s) => depth s + 1
  | _ => 1

/-- the specification: the registered node's own Close if it is a Closer, otherwise that of the first
Closer found by unwrapping, otherwise nothing -/
def target : Shape → Option Nat
  | .plain => none
  | .closer id => some id
  | .closerWrapper id _ => some id
  | .wrapper none => none
  | .wrapper (some s) => target s

end Evl.NodeClose
