import Evl.Model.Json
/-
M8b `CloudEvents` — formatter_filters/cloudevents/formatter_filter.go (validate, Process, sign) and
format.go, as the code stands after the `fix:` commit that returns the signer's error.

The document is the token stream `encoding/json` walks for `cloudevents.Event` (field order and
`omitempty` as declared), rendered compactly (cloudevents-json) or indented (cloudevents-text).
The Signer is a parameter; base64url (raw, unpadded) is implemented.
-/
namespace Evl.CloudEvents
open Evl.Json

inductive Format | unspecified | json | text | invalid
  deriving DecidableEq, Repr, Inhabited

structure Cfg where
  nilFilter : Bool := false
  source : Option Bytes        -- Source.String(); none: nil URL
  schema : Option Bytes        -- none: nil URL
  format : Format
  hasSigner : Bool
  signTypes : List Bytes
  deriving Repr, Inhabited

structure Ev where
  ty : Bytes
  timeTok : Bytes              -- the RFC 3339 token, quoted
  data : Option (List Tok)     -- none: nil data (omitted by omitempty)
  idIface : Option Bytes       -- payload implements ID(): the returned id
  freshId : Bytes              -- the id generated otherwise
  deriving Repr, Inhabited

inductive Pred | absent | ret (keep : Bool) | err
  deriving DecidableEq, Repr, Inhabited

inductive Err | nilFilter | missingSource | badFormat | emptySchema | emptyId | encode | sign | predicate
  deriving DecidableEq, Repr, Inhabited

inductive Out
  | forward (fmtName : Nat) (stored : Bytes)   -- 2: cloudevents-json, 3: cloudevents-text
  | dropped (fmtName : Nat) (stored : Bytes)
  | error (e : Err)
  deriving DecidableEq, Repr, Inhabited

def validate (c : Cfg) : Option Err :=
  if c.nilFilter then some .nilFilter
  else match c.source with
    | none => some .missingSource
    | some s =>
      if s.isEmpty then some .missingSource
      else if c.format == .invalid then some .badFormat
      else match c.schema with
        | some sc => if sc.isEmpty then some .emptySchema else none
        | none => none

def str (s : String) : Bytes := s.toUTF8.toList.map (·.toNat)

def ctJSON : Bytes := str "application/cloudevents"
def ctText : Bytes := str "text/plain"

/-- the token stream of `cloudevents.Event` -/
def docToks (id source ty : Bytes) (data : Option (List Tok)) (contentType : Bytes) (schema : Bytes) (timeTok : Bytes)
    (sig : Option (Bytes × Bytes)) : List Tok :=
  [.beginObj, .key (str "id"), .str id, .key (str "source"), .str source, .key (str "specversion"), .str (str "1.0"),
   .key (str "type"), .str ty] ++
  (match data with | some d => .key (str "data") :: d | none => []) ++
  -- sic: the struct tag in the source is `json:"datacontentype,omitempty"` (one t short of the spec's
  -- attribute name `datacontenttype`): known finding F8, the model follows the code
  [.key (str "datacontentype"), .str contentType] ++
  (if schema.isEmpty then [] else [.key (str "dataschema"), .str schema]) ++
  [.key (str "time"), .num timeTok] ++
  (match sig with
   | some (ser, mac) =>
     (if ser.isEmpty then [] else [.key (str "serialized"), .str ser]) ++
     (if mac.isEmpty then [] else [.key (str "serialized_hmac"), .str mac])
   | none => []) ++
  [.endObj]

/-! ### indentation (`Encoder.SetIndent("", "  ")`) -/

def indentOf (d : Nat) : Bytes := (List.replicate (2 * d) 32)
def nl (d : Nat) : Bytes := 10 :: indentOf d

/-- indented rendering of a token stream; the stack holds, per open container, whether an element was written -/
def renderIndent : List Tok → Stack → Bool → Option Bytes
  | [], _, _ => some []
  | t :: ts, st, afterKey =>
    let pre : Bytes × Stack :=
      if afterKey then ([], st)
      else match st with
        | [] => ([], [])
        | true :: r => (44 :: nl (r.length + 1), true :: r)
        | false :: r => (nl (r.length + 1), true :: r)
    match t with
    | .unsupported => none
    | .null => (renderIndent ts pre.2 false).map (pre.1 ++ [110, 117, 108, 108] ++ ·)
    | .bool true => (renderIndent ts pre.2 false).map (pre.1 ++ [116, 114, 117, 101] ++ ·)
    | .bool false => (renderIndent ts pre.2 false).map (pre.1 ++ [102, 97, 108, 115, 101] ++ ·)
    | .num tok => (renderIndent ts pre.2 false).map (pre.1 ++ tok ++ ·)
    | .str s => (renderIndent ts pre.2 false).map (pre.1 ++ quote s ++ ·)
    | .key s =>
      let pk : Bytes × Stack := match st with
        | [] => ([], [])
        | true :: r => (44 :: nl (r.length + 1), true :: r)
        | false :: r => (nl (r.length + 1), true :: r)
      (renderIndent ts pk.2 true).map (pk.1 ++ quote s ++ [58, 32] ++ ·)
    | .beginObj => (renderIndent ts (false :: pre.2) false).map (pre.1 ++ [123] ++ ·)
    | .beginArr => (renderIndent ts (false :: pre.2) false).map (pre.1 ++ [91] ++ ·)
    | .endObj =>
      match st with
      | true :: r => (renderIndent ts r false).map (nl r.length ++ [125] ++ ·)
      | _ => (renderIndent ts st.tail false).map ([125] ++ ·)
    | .endArr =>
      match st with
      | true :: r => (renderIndent ts r false).map (nl r.length ++ [93] ++ ·)
      | _ => (renderIndent ts st.tail false).map ([93] ++ ·)

/-! ### base64url, raw (unpadded) -/
def b64char (n : Nat) : Nat :=
  if n < 26 then 65 + n else if n < 52 then 97 + (n - 26) else if n < 62 then 48 + (n - 52) else if n == 62 then 45 else 95

def b64 : Bytes → Bytes
  | a :: b :: c :: rest =>
    b64char (a / 4) :: b64char ((a % 4) * 16 + b / 16) :: b64char ((b % 16) * 4 + c / 64) :: b64char (c % 64) :: b64 rest
  | [a, b] => [b64char (a / 4), b64char ((a % 4) * 16 + b / 16), b64char ((b % 16) * 4)]
  | [a] => [b64char (a / 4), b64char ((a % 4) * 16)]
  | [] => []

/-- encode the document in the configured format (with the trailing newline of `Encode`) -/
def encode (text : Bool) (toks : List Tok) : Option Bytes :=
  ((if text then renderIndent toks [] false else render toks)).map (· ++ [10])

/-- `FormatterFilter.Process`; `signer` returns the signature or fails -/
def process (c : Cfg) (e : Ev) (signer : Bytes → Option Bytes) (p : Pred) : Out :=
  match validate c with
  | some err => .error err
  | none =>
    let idr : Option Bytes := match e.idIface with
      | some i => if i.isEmpty then none else some i
      | none => some e.freshId
    match idr with
    | none => .error .emptyId
    | some id =>
      let text := c.format == .text
      let fmtName := if text then 3 else 2
      let ct := if text then ctText else ctJSON
      let source := c.source.getD []
      let schema := c.schema.getD []
      match encode text (docToks id source e.ty e.data ct schema e.timeTok none) with
      | none => .error .encode
      | some unsigned =>
        let signedR : Option (Option Bytes) :=          -- outer none: signing failed
          if c.hasSigner && c.signTypes.contains e.ty then
            match signer unsigned with
            | none => none
            | some mac => some (encode text (docToks id source e.ty e.data ct schema e.timeTok (some (b64 unsigned, mac))))
          else some (some unsigned)
        match signedR with
        | none => .error .sign
        | some none => .error .encode
        | some (some stored) =>
          match p with
          | .absent => .forward fmtName stored
          | .ret true => .forward fmtName stored
          | .ret false => .dropped fmtName stored
          | .err => .error .predicate

end Evl.CloudEvents
