/-
M1 `Registry` — executable model of broker.go / graphmap.go / node.go (linkNodes, flatten) /
graph.go (doValidate, reopen) of hashicorp/go-eventlogger, as the code stands in /repo.

All identifiers are natural numbers; `0` stands for the empty string (the harness maps the
strings it uses to small integers, the empty string to 0).  Node types follow node.go:
1 filter, 2 formatter, 3 sink, 4 formatter-filter, anything else is an unknown type.

The model follows the code's order of checks, including behaviour one would not write in a
spec: the graph of an event type is created before validation and survives a failed
RegisterPipeline; a pipeline stays bound to the node *instances* registered when it was
registered; RemoveNode / RemovePipelineAndNodes close the instance currently registered under
the id.
-/
namespace Evl.Registry

/-- Behaviour of a harness node's `Process`: what it returns. -/
inductive Beh | pass | replace | drop | err
  deriving DecidableEq, Repr, Inhabited

structure NodeEntry where
  inst : Nat            -- registration instance (fresh per successful RegisterNode)
  ty : Nat              -- NodeType code
  beh : Beh
  closeFails : Bool     -- the instance's Close returns an error
  refs : Nat            -- nodeUsage.referenceCount
  deny : Bool           -- registered with DenyOverwrite
  deriving DecidableEq, Repr, Inhabited

/-- A node as bound into a pipeline at registration time (`linkedNode`). -/
structure Bound where
  id : Nat
  inst : Nat
  ty : Nat
  beh : Beh
  deriving DecidableEq, Repr, Inhabited

structure Pipe where
  ty : Nat              -- event type (which graph it lives in)
  pid : Nat
  nodes : List Bound
  deny : Bool
  deriving DecidableEq, Repr, Inhabited

structure Graph where
  ty : Nat
  thr : Nat
  thrSinks : Nat
  deriving DecidableEq, Repr, Inhabited

structure Broker where
  nodes : List (Nat × NodeEntry) := []
  graphs : List Graph := []
  pipes : List Pipe := []
  nextInst : Nat := 1
  deriving Repr, Inhabited

/-- Registration policy argument: the option may be absent, valid or invalid. -/
inductive Pol | dflt | allow | deny | invalid
  deriving DecidableEq, Repr, Inhabited

inductive Op
  | regNode (id ty : Nat) (beh : Beh) (closeFails : Bool) (pol : Pol)
  | removeNode (id : Nat)
  | regPipe (ty pid : Nat) (ids : List Nat) (pol : Pol)
  | removePipe (ty pid : Nat)
  | rpan (ty pid : Nat)
  | setThr (ty : Nat) (n : Int)
  | setThrSinks (ty : Nat) (n : Int)
  | getThr (ty : Nat)
  | getThrSinks (ty : Nat)
  | isAny (ty : Nat)
  | send (ty : Nat)
  | reopen (failInst : Nat)      -- 0: no node fails
  deriving Repr, Inhabited

inductive Err
  | emptyId | badPolicy | deny | notFound | inUse | closeErr
  | invalid | notRegistered | noChildren | sinkAtRoot | sinkNoFormatter
  | emptyType | emptyPid | noGraph | noPipeline | negative | threshold | thresholdSinks
  | reopenErr
  deriving DecidableEq, Repr, Inhabited

/-- One traversal of one pipeline, sequentially (see `Dispatch.summary`). -/
structure Trav where
  pid : Nat
  calls : List (Nat × Nat × Nat)   -- (node id, instance, event marker): marker 0 = the sent event,
                                   -- otherwise the instance of the node that last replaced it
  complete : Option Nat            -- node id reported complete
  sink : Bool                      -- ... and it is a sink
  warn : Option Nat                -- instance whose error became a warning
  deriving DecidableEq, Repr, Inhabited

inductive Res
  | ok
  | err (e : Err)
  | closed (insts : List Nat) (e : Option Err)        -- RemoveNode: closed instance(s)
  | rpan (removed : Bool) (insts : List Nat) (anyErr : Bool)
  | thr (n : Nat) (found : Bool)
  | bool (b : Bool)
  | sent (travs : List Trav) (e : Option Err)
  | reopened (calls : List Nat) (failed : Bool)
  deriving DecidableEq, Repr, Inhabited

/-! ### association-list helpers -/

def lookupNode (ns : List (Nat × NodeEntry)) (id : Nat) : Option NodeEntry :=
  (ns.find? (fun x => x.1 == id)).map (·.2)

def eraseNode (ns : List (Nat × NodeEntry)) (id : Nat) : List (Nat × NodeEntry) :=
  ns.filter (fun x => x.1 != id)

def putNode (ns : List (Nat × NodeEntry)) (id : Nat) (e : NodeEntry) : List (Nat × NodeEntry) :=
  eraseNode ns id ++ [(id, e)]

def lookupGraph (gs : List Graph) (ty : Nat) : Option Graph := gs.find? (fun g => g.ty == ty)

def putGraph (gs : List Graph) (g : Graph) : List Graph :=
  gs.filter (fun x => x.ty != g.ty) ++ [g]

/-- `b.graphs[ty]`, created empty when missing (RegisterPipeline, the threshold setters). -/
def ensureGraph (gs : List Graph) (ty : Nat) : List Graph :=
  match lookupGraph gs ty with
  | some _ => gs
  | none => gs ++ [{ ty := ty, thr := 0, thrSinks := 0 }]

def lookupPipe (ps : List Pipe) (ty pid : Nat) : Option Pipe :=
  ps.find? (fun p => p.ty == ty && p.pid == pid)

def erasePipe (ps : List Pipe) (ty pid : Nat) : List Pipe :=
  ps.filter (fun p => !(p.ty == ty && p.pid == pid))

def Pipe.ids (p : Pipe) : List Nat := p.nodes.map (·.id)

/-- `releaseNodes`: every distinct node id of the pipeline loses one reference (never below 0). -/
def release (ns : List (Nat × NodeEntry)) (ids : List Nat) : List (Nat × NodeEntry) :=
  ns.map (fun x => if ids.contains x.1 && x.2.refs > 0 then (x.1, { x.2 with refs := x.2.refs - 1 }) else x)

/-- `releaseNodes` for the pipeline currently registered under the key, if any. -/
def releaseOld (ns : List (Nat × NodeEntry)) : Option Pipe → List (Nat × NodeEntry)
  | some o => release ns o.ids
  | none => ns

/-- the increment loop of RegisterPipeline over `root.flatten()` (distinct ids). -/
def acquire (ns : List (Nat × NodeEntry)) (ids : List Nat) : List (Nat × NodeEntry) :=
  ns.map (fun x => if ids.contains x.1 then (x.1, { x.2 with refs := x.2.refs + 1 }) else x)

/-- `detachNode(id, force=true)` for every distinct id of the removed pipeline:
entries with at most one reference are removed (and returned for closing), the others lose one. -/
def detachAll (ns : List (Nat × NodeEntry)) (ids : List Nat) : List (Nat × NodeEntry) × List (Nat × NodeEntry) :=
  let gone := ns.filter (fun x => ids.contains x.1 && x.2.refs ≤ 1)
  let kept := (ns.filter (fun x => !(ids.contains x.1 && x.2.refs ≤ 1))).map
    (fun x => if ids.contains x.1 then (x.1, { x.2 with refs := x.2.refs - 1 }) else x)
  (kept, gone)

/-- one `Option` of a registration call: a registration-policy option for the call's own kind (node
option to RegisterNode, pipeline option to RegisterPipeline; `own = true`) or for the other kind;
`pol = .dflt` stands for a nil Option, which `getOpts` skips -/
structure PolOpt where
  own : Bool
  pol : Pol
  deriving DecidableEq, Repr

/-- `getOpts`: the options are applied in order; the first invalid one fails the whole call, whatever
follows it; otherwise the last option of the call's own kind decides (none: the default policy) -/
def effPol : List PolOpt → Pol
  | [] => .dflt
  | o :: rest =>
    if o.pol = .invalid then .invalid
    else match effPol rest with
      | .invalid => .invalid
      | .dflt => if o.own then o.pol else .dflt
      | p => p

def polValid : Pol → Bool
  | .invalid => false
  | _ => true

def polDeny : Pol → Bool
  | .deny => true
  | _ => false

/-- `graph.doValidate` on the linked list built by `linkNodes`: only the leaf is constrained. -/
def validateChain : Option Nat → List Nat → Option Err
  | _, [] => none                                     -- unreachable: linkNodes needs ≥ 1 node
  | parent, [t] =>
      if t != 3 then some .noChildren
      else match parent with
        | none => some .sinkAtRoot
        | some pt => if pt != 2 && pt != 4 then some .sinkNoFormatter else none
  | _, t :: rest => validateChain (some t) rest

/-- Resolve node ids against the registry (`b.nodes[n]`), failing on the first missing one. -/
def resolve (ns : List (Nat × NodeEntry)) : List Nat → Option (List Bound)
  | [] => some []
  | id :: rest =>
    match lookupNode ns id with
    | none => none
    | some e =>
      match resolve ns rest with
      | none => none
      | some bs => some ({ id := id, inst := e.inst, ty := e.ty, beh := e.beh } :: bs)

/-! ### Send, sequential meaning of one traversal -/

/-- Walk the chain: `marker` identifies the event handed to the current node. -/
def walk (pid : Nat) : List Bound → Nat → List (Nat × Nat × Nat) → Trav
  | [], _, acc => { pid := pid, calls := acc.reverse, complete := none, sink := false, warn := none }
  | n :: rest, marker, acc =>
    let acc' := (n.id, n.inst, marker) :: acc
    match n.beh with
    | .err => { pid := pid, calls := acc'.reverse, complete := none, sink := false, warn := some n.inst }
    | .drop => { pid := pid, calls := acc'.reverse, complete := some n.id, sink := n.ty == 3, warn := none }
    | .pass =>
      match rest with
      | [] => { pid := pid, calls := acc'.reverse, complete := some n.id, sink := n.ty == 3, warn := none }
      | _ => walk pid rest marker acc'
    | .replace =>
      match rest with
      | [] => { pid := pid, calls := acc'.reverse, complete := some n.id, sink := n.ty == 3, warn := none }
      | _ => walk pid rest n.inst acc'

def traverse (p : Pipe) : Trav := walk p.pid p.nodes 0 []

def pipesOf (b : Broker) (ty : Nat) : List Pipe := b.pipes.filter (fun p => p.ty == ty)

/-- `Status.getError` with no context error. -/
def sendErr (nComplete nSinks thr thrSinks : Nat) : Option Err :=
  if nComplete < thr then some .threshold
  else if nSinks < thrSinks then some .thresholdSinks
  else none

/-! ### Reopen: `doReopen` stops a pipeline at its first failing node -/
def reopenChain (failInst : Nat) : List Bound → List Nat × Bool
  | [] => ([], false)
  | n :: rest =>
    if failInst != 0 && n.inst == failInst then ([n.inst], true)
    else
      let (c, f) := reopenChain failInst rest
      (n.inst :: c, f)

/-! ### the step function -/

def stepRegNode (b : Broker) (id ty : Nat) (beh : Beh) (closeFails : Bool) (pol : Pol) : Broker × Res :=
  if id == 0 then (b, .err .emptyId)
  else if !polValid pol then (b, .err .badPolicy)
  else
    let carried : Option Nat :=
      match lookupNode b.nodes id with
      | none => some 0
      | some old => if old.deny then none else some old.refs
    match carried with
    | none => (b, .err .deny)
    | some refs =>
      let e : NodeEntry := { inst := b.nextInst, ty := ty, beh := beh, closeFails := closeFails,
                             refs := refs, deny := polDeny pol }
      ({ b with nodes := putNode b.nodes id e, nextInst := b.nextInst + 1 }, .ok)

def stepRemoveNode (b : Broker) (id : Nat) : Broker × Res :=
  if id == 0 then (b, .err .emptyId)
  else match lookupNode b.nodes id with
    | none => (b, .err .notFound)
    | some e =>
      if e.refs > 0 then (b, .err .inUse)
      else ({ b with nodes := eraseNode b.nodes id },
            .closed [e.inst] (if e.closeFails then some .closeErr else none))

def stepRegPipe (b : Broker) (ty pid : Nat) (ids : List Nat) (pol : Pol) : Broker × Res :=
  if pid == 0 || ty == 0 || ids.isEmpty || ids.contains 0 then (b, .err .invalid)
  else if !polValid pol then (b, .err .badPolicy)
  else
    -- from here on the graph exists, whatever happens next
    let b1 := { b with graphs := ensureGraph b.graphs ty }
    let old := lookupPipe b1.pipes ty pid
    if (old.map (·.deny)).getD false then (b1, .err .deny)
    else match resolve b1.nodes ids with
      | none => (b1, .err .notRegistered)
      | some bound =>
        match validateChain none (bound.map (·.ty)) with
        | some e => (b1, .err e)
        | none =>
          let ns1 := releaseOld b1.nodes old
          let p : Pipe := { ty := ty, pid := pid, nodes := bound, deny := polDeny pol }
          ({ b1 with nodes := acquire ns1 ids, pipes := erasePipe b1.pipes ty pid ++ [p] }, .ok)

def stepRemovePipe (b : Broker) (ty pid : Nat) : Broker × Res :=
  if ty == 0 then (b, .err .emptyType)
  else if pid == 0 then (b, .err .emptyPid)
  else match lookupGraph b.graphs ty with
    | none => (b, .err .noGraph)
    | some _ =>
      let ns1 := releaseOld b.nodes (lookupPipe b.pipes ty pid)
      ({ b with nodes := ns1, pipes := erasePipe b.pipes ty pid }, .ok)

def stepRpan (b : Broker) (ty pid : Nat) : Broker × Res :=
  if ty == 0 then (b, .err .emptyType)
  else if pid == 0 then (b, .err .emptyPid)
  else match lookupGraph b.graphs ty with
    | none => (b, .err .noGraph)
    | some _ =>
      match lookupPipe b.pipes ty pid with
      | none => (b, .err .noPipeline)
      | some o =>
        let (kept, gone) := detachAll b.nodes o.ids
        let missing := o.ids.any (fun id => (lookupNode b.nodes id).isNone)
        ({ b with nodes := kept, pipes := erasePipe b.pipes ty pid },
         .rpan true (gone.map (·.2.inst)) (missing || gone.any (·.2.closeFails)))

def stepSetThr (b : Broker) (ty : Nat) (n : Int) : Broker × Res :=
  if ty == 0 then (b, .err .emptyType)
  else if n < 0 then (b, .err .negative)
  else
    let gs := ensureGraph b.graphs ty
    ({ b with graphs := gs.map (fun g => if g.ty == ty then { g with thr := n.toNat } else g) }, .ok)

def stepSetThrSinks (b : Broker) (ty : Nat) (n : Int) : Broker × Res :=
  if ty == 0 then (b, .err .emptyType)
  else if n < 0 then (b, .err .negative)
  else
    let gs := ensureGraph b.graphs ty
    ({ b with graphs := gs.map (fun g => if g.ty == ty then { g with thrSinks := n.toNat } else g) }, .ok)

def stepGetThr (b : Broker) (ty : Nat) : Broker × Res :=
  match lookupGraph b.graphs ty with
  | some g => (b, .thr g.thr true)
  | none => (b, .thr 0 false)

def stepGetThrSinks (b : Broker) (ty : Nat) : Broker × Res :=
  match lookupGraph b.graphs ty with
  | some g => (b, .thr g.thrSinks true)
  | none => (b, .thr 0 false)

def stepIsAny (b : Broker) (ty : Nat) : Broker × Res :=
  (b, .bool (!(pipesOf b ty).isEmpty))


def stepSend (b : Broker) (ty : Nat) : Broker × Res :=
  match lookupGraph b.graphs ty with
  | none => (b, .err .noGraph)
  | some g =>
    let travs := (pipesOf b ty).map traverse
    let nC := (travs.filter (fun t => t.complete.isSome)).length
    let nS := (travs.filter (fun t => t.complete.isSome && t.sink)).length
    (b, .sent travs (sendErr nC nS g.thr g.thrSinks))

def stepReopen (b : Broker) (failInst : Nat) : Broker × Res :=
  let rs := b.pipes.map (fun p => reopenChain failInst p.nodes)
  (b, .reopened (rs.flatMap (·.1)) (rs.any (·.2)))

def step (b : Broker) : Op → Broker × Res
  | .regNode id ty beh closeFails pol => stepRegNode b id ty beh closeFails pol
  | .removeNode id => stepRemoveNode b id
  | .regPipe ty pid ids pol => stepRegPipe b ty pid ids pol
  | .removePipe ty pid => stepRemovePipe b ty pid
  | .rpan ty pid => stepRpan b ty pid
  | .setThr ty n => stepSetThr b ty n
  | .setThrSinks ty n => stepSetThrSinks b ty n
  | .getThr ty => stepGetThr b ty
  | .getThrSinks ty => stepGetThrSinks b ty
  | .isAny ty => stepIsAny b ty
  | .send ty => stepSend b ty
  | .reopen failInst => stepReopen b failInst

def run (b : Broker) (ops : List Op) : Broker := ops.foldl (fun s o => (step s o).1) b

def init : Broker := {}

end Evl.Registry
