import Evl.Model.CloudEvents
import Evl.Model.JsonParse
/-
M8v `CloudEventsVerify` — what a consumer of a signed cloudevents-json document does: parse the
document (M8r's strict parser), take the members `serialized` and `serialized_hmac`, base64url-decode
the first and ask the signer for the signature of exactly those bytes.  The driver runs it on the
documents the real formatter stored (`verify` in the `ce` run) next to the harness's own verifier.
-/
namespace Evl.CloudEvents
open Evl.Json

def b64val (c : Nat) : Option Nat :=
  if 65 ≤ c ∧ c ≤ 90 then some (c - 65)
  else if 97 ≤ c ∧ c ≤ 122 then some (c - 71)
  else if 48 ≤ c ∧ c ≤ 57 then some (c + 4)
  else if c = 45 then some 62
  else if c = 95 then some 63
  else none

/-- base64url (raw, unpadded) decoder; strict: stray characters, a lone trailing character and
non-zero padding bits are rejected -/
def b64dec : Bytes → Option Bytes
  | c0 :: c1 :: c2 :: c3 :: rest =>
    match b64val c0, b64val c1, b64val c2, b64val c3, b64dec rest with
    | some v0, some v1, some v2, some v3, some r =>
      some ((v0 * 4 + v1 / 16) :: ((v1 % 16) * 16 + v2 / 4) :: ((v2 % 4) * 64 + v3) :: r)
    | _, _, _, _, _ => none
  | [c0, c1, c2] =>
    match b64val c0, b64val c1, b64val c2 with
    | some v0, some v1, some v2 => if v2 % 4 = 0 then some [v0 * 4 + v1 / 16, (v1 % 16) * 16 + v2 / 4] else none
    | _, _, _ => none
  | [c0, c1] =>
    match b64val c0, b64val c1 with
    | some v0, some v1 => if v1 % 16 = 0 then some [v0 * 4 + v1 / 16] else none
    | _, _ => none
  | [_] => none
  | [] => some []

/-- the value of the first member called `k` -/
def member (k : Bytes) : JM → Option J
  | .nil => none
  | .cons k' v r => if k' == k then some v else member k r

def kSerialized : Bytes := [115, 101, 114, 105, 97, 108, 105, 122, 101, 100]
def kSerializedHmac : Bytes := [115, 101, 114, 105, 97, 108, 105, 122, 101, 100, 95, 104, 109, 97, 99]

inductive Verdict | verified | notSigned | malformed | mismatch
  deriving DecidableEq, Repr

/-- verification of a document given without its trailing newline -/
def verifyDoc (signer : Bytes → Option Bytes) (doc : Bytes) : Verdict :=
  match parseDoc doc with
  | some (.obj ms) =>
    match member kSerialized ms, member kSerializedHmac ms with
    | some (.str ser), some (.str mac) =>
      match b64dec ser with
      | some u => if signer u == some mac then .verified else .mismatch
      | none => .malformed
    | none, none => .notSigned
    | _, _ => .malformed
  | _ => .malformed

/-- verification of a stored cloudevents-json document (with its trailing newline) -/
def verify (signer : Bytes → Option Bytes) (stored : Bytes) : Verdict := verifyDoc signer stored.dropLast

/-- a consumer of cloudevents-text: compact the stored document (`json.Compact`), then as for
cloudevents-json -/
def verifyText (signer : Bytes → Option Bytes) (stored : Bytes) : Verdict := verifyDoc signer (compact stored)

end Evl.CloudEvents
