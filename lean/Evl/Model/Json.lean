/-
M8 `Json` — the bytes JSONFormatter / JSONFormatterFilter store: `encoding/json`'s compact encoder
with HTML escaping, applied to the anonymous struct {created_at, event_type, payload}, plus the
trailing newline `Encoder.Encode` adds.

The payload is given as the *token stream* `encoding/json` walks (the harness flattens the Go value
in the encoder's order: map keys sorted, struct fields in declaration order), so the model is a fold
over a list and needs no nested inductive type.  Number and time tokens are passed verbatim (the
formatting of floats and of time.Time is trusted, see DESIGN.md §8).
-/
namespace Evl.Json

abbrev Bytes := List Nat

inductive Tok
  | null
  | bool (b : Bool)
  | num (tok : Bytes)          -- the bytes strconv produced
  | str (s : Bytes)            -- a Go string, arbitrary bytes
  | key (s : Bytes)            -- an object member name
  | beginObj | endObj | beginArr | endArr
  | unsupported                -- chan, func, complex, NaN/Inf float, ... : json.UnsupportedTypeError / ValueError
  deriving DecidableEq, Repr, Inhabited

def hexDigit (n : Nat) : Nat := if n < 10 then 48 + n else 87 + n   -- '0'.. / 'a'..

/-- `\u00XX` -/
def u00 (b : Nat) : Bytes := [92, 117, 48, 48, hexDigit (b / 16), hexDigit (b % 16)]

def isCont (b : Nat) : Bool := 0x80 ≤ b && b ≤ 0xBF

/-- length (2, 3 or 4) of the valid UTF-8 sequence at the head of the list, 0 when invalid
(Go's utf8.DecodeRune acceptance ranges) -/
def utf8Len : Bytes → Nat
  | b :: b1 :: r1 =>
    if 0xC2 ≤ b && b ≤ 0xDF && isCont b1 then 2
    else match r1 with
      | b2 :: r2 =>
        if ((b == 0xE0 && 0xA0 ≤ b1 && b1 ≤ 0xBF) || (0xE1 ≤ b && b ≤ 0xEC && isCont b1) ||
            (b == 0xED && 0x80 ≤ b1 && b1 ≤ 0x9F) || (0xEE ≤ b && b ≤ 0xEF && isCont b1)) && isCont b2 then 3
        else match r2 with
          | b3 :: _ =>
            if ((b == 0xF0 && 0x90 ≤ b1 && b1 ≤ 0xBF) || (0xF1 ≤ b && b ≤ 0xF3 && isCont b1) ||
                (b == 0xF4 && 0x80 ≤ b1 && b1 ≤ 0x8F)) && isCont b2 && isCont b3 then 4
            else 0
          | [] => 0
      | [] => 0
  | _ => 0

/-- one ASCII byte, escaped the way `encoding/json` does with EscapeHTML on -/
def escAscii (b : Nat) : Bytes :=
  if b == 34 then [92, 34]                 -- "
  else if b == 92 then [92, 92]            -- \
  else if b == 10 then [92, 110]           -- \n
  else if b == 13 then [92, 114]           -- \r
  else if b == 9 then [92, 116]            -- \t
  else if b == 8 then [92, 98]             -- \b
  else if b == 12 then [92, 102]           -- \f
  else if b < 0x20 || b == 60 || b == 62 || b == 38 then u00 b   -- other control characters, < > &
  else [b]

/-- a valid multi-byte sequence: U+2028 / U+2029 are escaped, everything else is copied -/
def escSeq (seq : Bytes) : Bytes :=
  if seq == [0xE2, 0x80, 0xA8] then [92, 117, 50, 48, 50, 56]
  else if seq == [0xE2, 0x80, 0xA9] then [92, 117, 50, 48, 50, 57]
  else seq

/-- escape the bytes of a Go string; invalid UTF-8 becomes \ufffd, one byte at a time -/
def escBytes : Bytes → Bytes
  | [] => []
  | b :: rest =>
    if b < 0x80 then escAscii b ++ escBytes rest
    else
      let n := utf8Len (b :: rest)
      if n == 0 then [92, 117, 102, 102, 102, 100] ++ escBytes rest
      else escSeq ((b :: rest).take n) ++ escBytes (rest.drop (n - 1))
termination_by s => s.length
decreasing_by all_goals (simp only [List.length_cons, List.length_drop]; omega)

def quote (s : Bytes) : Bytes := [34] ++ escBytes s ++ [34]

/-- encoder state: for every open container, whether an element has already been written -/
abbrev Stack := List Bool

/-- write the separating comma before an element, when needed; the member name's colon is written with the key -/
def sep (st : Stack) (afterKey : Bool) : Bytes × Stack :=
  if afterKey then ([], st)
  else match st with
    | [] => ([], [])
    | true :: r => ([44], true :: r)
    | false :: r => ([], true :: r)

/-- render a token stream; `none` when an unsupported value occurs anywhere -/
def renderToks : List Tok → Stack → Bool → Option Bytes
  | [], _, _ => some []
  | t :: ts, st, afterKey =>
    match t with
    | .unsupported => none
    | .null => let (c, st') := sep st afterKey; (renderToks ts st' false).map (c ++ [110, 117, 108, 108] ++ ·)
    | .bool true => let (c, st') := sep st afterKey; (renderToks ts st' false).map (c ++ [116, 114, 117, 101] ++ ·)
    | .bool false => let (c, st') := sep st afterKey; (renderToks ts st' false).map (c ++ [102, 97, 108, 115, 101] ++ ·)
    | .num tok => let (c, st') := sep st afterKey; (renderToks ts st' false).map (c ++ tok ++ ·)
    | .str s => let (c, st') := sep st afterKey; (renderToks ts st' false).map (c ++ quote s ++ ·)
    | .key s => let (c, st') := sep st false; (renderToks ts st' true).map (c ++ quote s ++ [58] ++ ·)
    | .beginObj => let (c, st') := sep st afterKey; (renderToks ts (false :: st') false).map (c ++ [123] ++ ·)
    | .beginArr => let (c, st') := sep st afterKey; (renderToks ts (false :: st') false).map (c ++ [91] ++ ·)
    | .endObj => (renderToks ts st.tail false).map ([125] ++ ·)
    | .endArr => (renderToks ts st.tail false).map ([93] ++ ·)

def render (ts : List Tok) : Option Bytes := renderToks ts [] false

/-- `{"created_at":` … -/
def kCreated : Bytes := [123, 34, 99, 114, 101, 97, 116, 101, 100, 95, 97, 116, 34, 58]
def kType : Bytes := [44, 34, 101, 118, 101, 110, 116, 95, 116, 121, 112, 101, 34, 58]
def kPayload : Bytes := [44, 34, 112, 97, 121, 108, 111, 97, 100, 34, 58]

/-- the bytes stored under the "json" format: one line -/
def formatEvent (createdTok : Bytes) (evType : Bytes) (payload : List Tok) : Option Bytes :=
  (render payload).map (fun p => kCreated ++ createdTok ++ kType ++ quote evType ++ kPayload ++ p ++ [125, 10])

/-- outcome of a formatter node's Process -/
inductive Out
  | forward (stored : Bytes)        -- the event continues, with these bytes stored under "json"
  | dropped (stored : Bytes)        -- stored, but the predicate filtered the event out: (nil, nil)
  | error                           -- nothing stored, nothing forwarded
  deriving DecidableEq, Repr, Inhabited

/-- predicate of JSONFormatterFilter: absent, or returns (keep, err) -/
inductive Pred | absent | ret (keep : Bool) | err
  deriving DecidableEq, Repr, Inhabited

def jsonFormatter (created evType : Bytes) (payload : List Tok) : Out :=
  match formatEvent created evType payload with
  | none => .error
  | some b => .forward b

def jsonFormatterFilter (created evType : Bytes) (payload : List Tok) (p : Pred) : Out :=
  match formatEvent created evType payload with
  | none => .error
  | some b =>
    match p with
    | .absent => .forward b
    | .ret true => .forward b
    | .ret false => .dropped b
    | .err => .error      -- note: the bytes were already stored by FormattedAs; the event is not forwarded

/-- eventlogger.Filter -/
inductive FOut | forward | dropped | error
  deriving DecidableEq, Repr
def filterNode : Pred → FOut
  | .ret true => .forward
  | .ret false => .dropped
  | .err => .error
  | .absent => .error   -- a nil Predicate panics in the source; not a supported configuration

end Evl.Json
