/-
M6 `Gated` — executable model of filters/gated/gated.go (Process, processExpiredEvents, FlushAll,
Close, openGate), as the code stands in /repo (after the `fix:` commit that makes the list walks
survive `list.Remove`).

Event ids (`uid`) and group ids are natural numbers; group id 0 is the empty string.  Times are
integers (the harness injects `NowFunc`); a group expires when `now > exp` (`time.After`).
Failure injection is an input of every operation: the group id whose composition fails, whose
composite is itself Gateable, whose Send fails (0 = none).
-/
namespace Evl.Gated

structure Group where
  id : Nat
  evs : List Nat          -- uids, arrival order
  exp : Int
  deriving DecidableEq, Repr, Inhabited

structure Cfg where
  broker : Bool           -- Filter.Broker != nil
  expiration : Nat        -- Filter.Expiration (> 0)
  deriving DecidableEq, Repr, Inhabited

structure Fail where
  cf : Nat := 0           -- ComposeFrom returns an error for this group id
  cg : Nat := 0           -- ComposeFrom returns a Gateable payload for this group id
  sf : Nat := 0           -- Broker.Send returns an error for this group id
  deriving DecidableEq, Repr, Inhabited

/-- What happened to a group that left the gate. `composed` tells whether ComposeFrom was called. -/
inductive Fate | sent | noBroker | composeErr | gateableErr | sendErr | droppedUncomposed | flushed | flushComposeErr
  deriving DecidableEq, Repr, Inhabited

structure Emit where
  id : Nat
  evs : List Nat
  fate : Fate
  deriving DecidableEq, Repr, Inhabited

def Fate.composed : Fate → Bool
  | .droppedUncomposed => false
  | _ => true

/-- `openGate`: the group is removed whatever happens; returns its fate and whether it succeeded. -/
def openGate (c : Cfg) (f : Fail) (g : Group) : Emit × Bool :=
  if f.cf != 0 && g.id == f.cf then (⟨g.id, g.evs, .composeErr⟩, false)
  else if f.cg != 0 && g.id == f.cg then (⟨g.id, g.evs, .gateableErr⟩, false)
  else if !c.broker then (⟨g.id, g.evs, .noBroker⟩, true)
  else if f.sf != 0 && g.id == f.sf then (⟨g.id, g.evs, .sendErr⟩, false)
  else (⟨g.id, g.evs, .sent⟩, true)

/-- `processExpiredEvents`: walk the list oldest first, open every expired gate, stop at the first
failure (the failing group is gone, the rest of the list is untouched). -/
def openExpired (c : Cfg) (f : Fail) (now : Int) : List Group → List Group × List Emit × Bool
  | [] => ([], [], true)
  | g :: rest =>
    if now > g.exp then
      let (e, ok) := openGate c f g
      if ok then
        let (r, es, ok') := openExpired c f now rest
        (r, e :: es, ok')
      else (rest, [e], false)
    else
      let (r, es, ok') := openExpired c f now rest
      (g :: r, es, ok')

/-- `FlushAll` with a Broker: open every gate in order, stop at the first failure. -/
def openAll (c : Cfg) (f : Fail) : List Group → List Group × List Emit × Bool
  | [] => ([], [], true)
  | g :: rest =>
    let (e, ok) := openGate c f g
    if ok then
      let (r, es, ok') := openAll c f rest
      (r, e :: es, ok')
    else (rest, [e], false)

/-- append the event to its id's group, opening a new group at the back when there is none -/
def addEvent : List Group → Nat → Nat → Int → List Group
  | [], id, uid, exp => [{ id := id, evs := [uid], exp := exp }]
  | g :: rest, id, uid, exp =>
    if g.id == id then { g with evs := g.evs ++ [uid] } :: rest
    else g :: addEvent rest id uid exp

/-- remove the id's group from the list (`delete(w.gated, id)` + `orderedGated.Remove`) -/
def takeGroup : List Group → Nat → Option (Group × List Group)
  | [], _ => none
  | g :: rest, id =>
    if g.id == id then some (g, rest)
    else match takeGroup rest id with
      | none => none
      | some (x, r) => some (x, g :: r)

inductive Op
  | ev (uid id : Nat) (flush : Bool) (now : Int) (f : Fail)    -- Gateable event
  | ng (uid : Nat)                                              -- non-Gateable event
  | flushAll (f : Fail)
  | close (f : Fail)
  deriving Repr, Inhabited

inductive Ret
  | gated                       -- (nil, nil): withheld
  | pass                        -- the same event is returned
  | flushed (evs : List Nat)    -- the composite of these events continues down the pipeline
  | ok                          -- FlushAll / Close returned nil
  | errNoId | errCompose | errGateable | errSend
  deriving DecidableEq, Repr, Inhabited

structure Out where
  ret : Ret
  emits : List Emit
  deriving DecidableEq, Repr, Inhabited

def fateErr : Fate → Ret
  | .composeErr => .errCompose
  | .gateableErr => .errGateable
  | .sendErr => .errSend
  | _ => .ok

def lastErr (es : List Emit) : Ret :=
  match es.getLast? with
  | some e => fateErr e.fate
  | none => .ok

def flushAllStep (c : Cfg) (gs : List Group) (f : Fail) : List Group × Out :=
  if gs.isEmpty then (gs, ⟨.ok, []⟩)
  else if !c.broker then ([], ⟨.ok, gs.map (fun g => ⟨g.id, g.evs, .droppedUncomposed⟩)⟩)
  else
    let (r, es, ok) := openAll c f gs
    (r, ⟨if ok then .ok else lastErr es, es⟩)

def step (c : Cfg) (gs : List Group) : Op → List Group × Out
  | .ng _ => (gs, ⟨.pass, []⟩)
  | .ev uid id flush now f =>
    if id == 0 then (gs, ⟨.errNoId, []⟩)
    else
      let (gs1, es, ok) := openExpired c f now gs
      if !ok then (gs1, ⟨lastErr es, es⟩)
      else
        let gs2 := addEvent gs1 id uid (now + c.expiration)
        if flush then
          match takeGroup gs2 id with
          | none => (gs2, ⟨.gated, es⟩)     -- unreachable: addEvent guarantees the group
          | some (g, gs3) =>
            if f.cf != 0 && id == f.cf then (gs3, ⟨.errCompose, es ++ [⟨id, g.evs, .flushComposeErr⟩]⟩)
            else (gs3, ⟨.flushed g.evs, es ++ [⟨id, g.evs, .flushed⟩]⟩)
        else (gs2, ⟨.gated, es⟩)
  | .flushAll f => flushAllStep c gs f
  | .close f => flushAllStep c gs f

/-- run a history, collecting the outputs -/
def run (c : Cfg) : List Group → List Op → List Group × List Out
  | gs, [] => (gs, [])
  | gs, op :: rest =>
    let (gs', o) := step c gs op
    let (gs'', os) := run c gs' rest
    (gs'', o :: os)

end Evl.Gated
