import Evl.Model.Json
/-
M8r `JsonParse` — the reading side of M8: a JSON string reader (`readStr`), JSON values (`J`), the
token stream `encoding/json` walks for a value (`toks`, M8's input), the compact text of a value
(`renderJ`) and a strict recursive-descent parser for compact JSON documents (`parseV`, `parseDoc`).
The parser is compared with `encoding/json` (`json.Valid` on documents without insignificant white
space) by the `json` correspondence run, operation `parse`.
-/
namespace Evl.Json

def hexVal (c : Nat) : Option Nat :=
  if 48 ≤ c ∧ c ≤ 57 then some (c - 48)
  else if 97 ≤ c ∧ c ≤ 102 then some (c - 87)
  else if 65 ≤ c ∧ c ≤ 70 then some (c - 55)
  else none

/-- UTF-8 of a code point of the basic multilingual plane -/
def utf8Enc (cp : Nat) : Bytes :=
  if cp < 0x80 then [cp]
  else if cp < 0x800 then [0xC0 + cp / 64, 0x80 + cp % 64]
  else [0xE0 + cp / 4096, 0x80 + cp / 64 % 64, 0x80 + cp % 64]

def simpleEsc (e : Nat) : Option Nat :=
  if e = 34 then some 34 else if e = 92 then some 92 else if e = 47 then some 47
  else if e = 98 then some 8 else if e = 102 then some 12 else if e = 110 then some 10
  else if e = 114 then some 13 else if e = 116 then some 9 else none

/-- reader state: inside the string; after a backslash; inside `\uXXXX` with `k` digits to go -/
inductive RS | normal | esc | hex (k acc : Nat)

def pre (p : Bytes) : Option (Bytes × Bytes) → Option (Bytes × Bytes)
  | some (s, rest) => some (p ++ s, rest)
  | none => none

/-- a JSON string reader, started after the opening quote: the decoded bytes and what follows the
closing quote; `none` on malformed input (raw control character, bad escape, unterminated) -/
def readStr : RS → Bytes → Option (Bytes × Bytes)
  | _, [] => none
  | .normal, b :: r =>
    if b = 34 then some ([], r)
    else if b = 92 then readStr .esc r
    else if b < 0x20 then none
    else pre [b] (readStr .normal r)
  | .esc, e :: r =>
    if e = 117 then readStr (.hex 4 0) r
    else match simpleEsc e with
      | some x => pre [x] (readStr .normal r)
      | none => none
  | .hex k acc, c :: r =>
    match hexVal c with
    | none => none
    | some v => if k = 1 then pre (utf8Enc (acc * 16 + v)) (readStr .normal r) else readStr (.hex (k - 1) (acc * 16 + v)) r

/-- what a reader gets back: the string with every invalid UTF-8 byte replaced by U+FFFD -/
def sanitize : Bytes → Bytes
  | [] => []
  | b :: rest =>
    if b < 0x80 then b :: sanitize rest
    else
      let n := utf8Len (b :: rest)
      if n == 0 then [0xEF, 0xBF, 0xBD] ++ sanitize rest
      else (b :: rest).take n ++ sanitize (rest.drop (n - 1))
termination_by s => s.length
decreasing_by all_goals (simp only [List.length_cons, List.length_drop]; omega)


mutual
inductive J
  | null
  | bool (b : Bool)
  | num (lit : Bytes)
  | str (s : Bytes)
  | arr (es : JL)
  | obj (ms : JM)
inductive JL
  | nil
  | cons (v : J) (r : JL)
inductive JM
  | nil
  | cons (k : Bytes) (v : J) (r : JM)
end

/-! ## number literals (RFC 8259 §6) -/

def isDigit (c : Nat) : Bool := 48 ≤ c && c ≤ 57
def isNumChar (c : Nat) : Bool := isDigit c || c == 45 || c == 43 || c == 46 || c == 101 || c == 69

/-- states of the number grammar -/
inductive NS | start | minus | zero | int | dot | frac | e | esign | exp | bad
  deriving DecidableEq

def numStep : NS → Nat → NS
  | .start, c => if c == 45 then .minus else if c == 48 then .zero else if isDigit c then .int else .bad
  | .minus, c => if c == 48 then .zero else if isDigit c then .int else .bad
  | .zero, c => if c == 46 then .dot else if c == 101 || c == 69 then .e else .bad
  | .int, c => if isDigit c then .int else if c == 46 then .dot else if c == 101 || c == 69 then .e else .bad
  | .dot, c => if isDigit c then .frac else .bad
  | .frac, c => if isDigit c then .frac else if c == 101 || c == 69 then .e else .bad
  | .e, c => if c == 45 || c == 43 then .esign else if isDigit c then .exp else .bad
  | .esign, c => if isDigit c then .exp else .bad
  | .exp, c => if isDigit c then .exp else .bad
  | .bad, _ => .bad

def numFinal : NS → Bool
  | .zero | .int | .frac | .exp => true
  | _ => false

/-- `-?(0|[1-9][0-9]*)(\.[0-9]+)?([eE][+-]?[0-9]+)?` -/
def validNum (lit : Bytes) : Bool := numFinal (lit.foldl numStep .start)

/-- the longest prefix of number characters, and what follows it -/
def spanNum : Bytes → Bytes × Bytes
  | [] => ([], [])
  | c :: r => if isNumChar c then let (a, b) := spanNum r; (c :: a, b) else ([], c :: r)

/-! ## values, their token streams and their compact rendering -/

mutual
def toks : J → List Tok
  | .null => [.null]
  | .bool b => [.bool b]
  | .num lit => [.num lit]
  | .str s => [.str s]
  | .arr es => [.beginArr] ++ toksL es ++ [.endArr]
  | .obj ms => [.beginObj] ++ toksM ms ++ [.endObj]
def toksL : JL → List Tok
  | .nil => []
  | .cons v r => toks v ++ toksL r
def toksM : JM → List Tok
  | .nil => []
  | .cons k v r => [.key k] ++ toks v ++ toksM r
end

mutual
/-- compact JSON text of a value (what `encoding/json` writes: HTML-escaping string encoder) -/
def renderJ : J → Bytes
  | .null => [110, 117, 108, 108]
  | .bool true => [116, 114, 117, 101]
  | .bool false => [102, 97, 108, 115, 101]
  | .num lit => lit
  | .str s => quote s
  | .arr es => [91] ++ renderL false es ++ [93]
  | .obj ms => [123] ++ renderM false ms ++ [125]
/-- elements; `c` says whether a comma goes before the first one -/
def renderL (c : Bool) : JL → Bytes
  | .nil => []
  | .cons v r => (if c then [44] else []) ++ renderJ v ++ renderL true r
def renderM (c : Bool) : JM → Bytes
  | .nil => []
  | .cons k v r => (if c then [44] else []) ++ quote k ++ [58] ++ renderJ v ++ renderM true r
end

mutual
/-- what a reader gets back: strings and member names sanitised, everything else as it is -/
def image : J → J
  | .null => .null
  | .bool b => .bool b
  | .num lit => .num lit
  | .str s => .str (sanitize s)
  | .arr es => .arr (imageL es)
  | .obj ms => .obj (imageM ms)
def imageL : JL → JL
  | .nil => .nil
  | .cons v r => .cons (image v) (imageL r)
def imageM : JM → JM
  | .nil => .nil
  | .cons k v r => .cons (sanitize k) (image v) (imageM r)
end

mutual
/-- number literals are non-empty, made of number characters and match the JSON grammar -/
def wf : J → Bool
  | .num lit => !lit.isEmpty && lit.all isNumChar && validNum lit
  | .arr es => wfL es
  | .obj ms => wfM ms
  | _ => true
def wfL : JL → Bool
  | .nil => true
  | .cons v r => wf v && wfL r
def wfM : JM → Bool
  | .nil => true
  | .cons _ v r => wf v && wfM r
end

mutual
def sz : J → Nat
  | .arr es => 1 + szL es
  | .obj ms => 1 + szM ms
  | _ => 1
def szL : JL → Nat
  | .nil => 0
  | .cons v r => 1 + sz v + szL r
def szM : JM → Nat
  | .nil => 0
  | .cons _ v r => 1 + sz v + szM r
end

/-! ## a strict parser for compact JSON -/

mutual
/-- one value at the head of the input; what follows it is returned.  `none`: not a JSON value. -/
def parseV : Nat → Bytes → Option (J × Bytes)
  | 0, _ => none
  | _ + 1, [] => none
  | fuel + 1, c :: r =>
    if c = 34 then
      match readStr .normal r with
      | some (s, r') => some (.str s, r')
      | none => none
    else if c = 91 then
      match r with
      | 93 :: r' => some (.arr .nil, r')
      | _ => match parseL fuel r with
        | some (es, r') => some (.arr es, r')
        | none => none
    else if c = 123 then
      match r with
      | 125 :: r' => some (.obj .nil, r')
      | _ => match parseM fuel r with
        | some (ms, r') => some (.obj ms, r')
        | none => none
    else if c = 110 then (if r.take 3 = [117, 108, 108] then some (.null, r.drop 3) else none)
    else if c = 116 then (if r.take 3 = [114, 117, 101] then some (.bool true, r.drop 3) else none)
    else if c = 102 then (if r.take 4 = [97, 108, 115, 101] then some (.bool false, r.drop 4) else none)
    else
      let p := spanNum (c :: r)
      if validNum p.1 then some (.num p.1, p.2) else none
/-- one or more elements, then `]` -/
def parseL : Nat → Bytes → Option (JL × Bytes)
  | 0, _ => none
  | fuel + 1, inp =>
    match parseV fuel inp with
    | none => none
    | some (v, r) =>
      match r with
      | 93 :: r' => some (.cons v .nil, r')
      | 44 :: r' =>
        match parseL fuel r' with
        | some (es, r'') => some (.cons v es, r'')
        | none => none
      | _ => none
/-- one or more members `"name":value`, then `}` -/
def parseM : Nat → Bytes → Option (JM × Bytes)
  | 0, _ => none
  | fuel + 1, inp =>
    match inp with
    | 34 :: r0 =>
      match readStr .normal r0 with
      | none => none
      | some (k, r1) =>
        match r1 with
        | 58 :: r2 =>
          match parseV fuel r2 with
          | none => none
          | some (v, r) =>
            match r with
            | 125 :: r' => some (.cons k v .nil, r')
            | 44 :: r' =>
              match parseM fuel r' with
              | some (ms, r'') => some (.cons k v ms, r'')
              | none => none
            | _ => none
        | _ => none
    | _ => none
end

/-- a whole document: one value and nothing after it -/
def parseDoc (b : Bytes) : Option J :=
  match parseV (b.length + 1) b with
  | some (v, []) => some v
  | _ => none

/-! ## `json.Compact` -/

def isWs (c : Nat) : Bool := c == 32 || c == 10 || c == 13 || c == 9

/-- `json.Compact` on a valid document: insignificant white space (outside strings) is dropped.
State: inside a string; after a backslash inside a string. -/
def compactS : Bool → Bool → Bytes → Bytes
  | _, _, [] => []
  | false, _, c :: r => if isWs c then compactS false false r else c :: compactS (c == 34) false r
  | true, true, c :: r => c :: compactS true false r
  | true, false, c :: r =>
    c :: (if c == 92 then compactS true true r else if c == 34 then compactS false false r else compactS true false r)

def compact (b : Bytes) : Bytes := compactS false false b

end Evl.Json
