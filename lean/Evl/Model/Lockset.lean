/-
M4 `Lockset` — Eraser-style lock-set discipline over the access table regenerated from the source
(`Evl.Generated.accesses`), and the trace semantics of one reader/writer lock guarding one location
used by the soundness theorem (`Evl.Lemmas.Lockset`).
-/
namespace Evl.Lockset

inductive Mode | r | w
  deriving DecidableEq, Repr, Inhabited

/-- one read or write of a shared location, with the locks held there (lock code, mode) -/
structure Access where
  loc : Nat
  write : Bool
  held : List (Nat × Mode)
  escape : Bool := false     -- derived from the hand-written escape summary of an external call
  deriving DecidableEq, Repr, Inhabited

/-- the access holds lock `l` in a mode sufficient for it (write mode for writes) -/
def guards (a : Access) (l : Nat) : Bool := a.held.any (fun h => h.1 == l && (h.2 == .w || !a.write))

def locksOf (as : List Access) : List Nat := (as.flatMap (fun a => a.held.map (·.1))).eraseDups

def locsOf (as : List Access) : List Nat := (as.map (·.loc)).eraseDups

/-- location `loc` is disciplined: some single lock guards every access to it -/
def locOK (as : List Access) (loc : Nat) : Bool :=
  let mine := as.filter (·.loc == loc)
  (locksOf mine).any (fun l => mine.all (guards · l))

/-- every location of the table is disciplined -/
def disciplineOK (as : List Access) : Bool := (locsOf as).all (locOK as)

/-- the undisciplined locations (for diagnostics) -/
def violations (as : List Access) : List Nat := (locsOf as).filter (fun l => !locOK as l)

/-! ### trace semantics of one lock and the location it guards -/

inductive Ev
  | acq (t : Nat) (m : Mode)
  | rel (t : Nat)
  | acc (t : Nat) (isWrite : Bool)
  | other
  deriving DecidableEq, Repr

abbrev Holders := List (Nat × Mode)

def holds (h : Holders) (t : Nat) : Option Mode := (h.find? (·.1 = t)).map (·.2)

/-- a well-formed, disciplined step; `none`: the runtime would not allow it (exclusion) or the access
does not hold the lock in a sufficient mode -/
def lstep (h : Holders) : Ev → Option Holders
  | .acq t .w => if h = [] then some [(t, .w)] else none
  | .acq t .r => if h.all (fun x => x.2 = .r ∧ x.1 ≠ t) then some ((t, .r) :: h) else none
  | .rel t => if (holds h t).isSome then some (h.filter (·.1 ≠ t)) else none
  | .acc t wr =>
      match holds h t, wr with
      | some .w, _ => some h
      | some .r, false => some h
      | _, _ => none
  | .other => some h

def run (h : Holders) : List Ev → Option Holders
  | [] => some h
  | e :: es => (lstep h e).bind (run · es)

end Evl.Lockset
