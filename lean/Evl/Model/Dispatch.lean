/-
M2 `Dispatch` — the fan-out / collection protocol of graph.go (`process`, `doProcess`) as a labelled
transition system.  One `Send` over `n` pipelines; pipeline `p` is a linear chain of `len p ≥ 1`
nodes (that is what `linkNodes` builds) and node `k` of pipeline `p` returns `out p k`.

Goroutines and their synchronisation, exactly as in the source:
* the *collector* (the goroutine that called `process`) loops on
  `select { <-ctx.Done() ; s, ok := <-statusChan }`;
* the *ranger* goroutine ranges over the roots, runs each root's `doProcess` **inline**, then
  `wg.Wait()`, then `close(statusChan)`;
* every non-root node runs in its own goroutine (`go g.doProcess(child …)`), each `doProcess`
  owes one `wg.Done()` (deferred) for the `wg.Add(1)` done before it was called / spawned;
* every status send is `select { <-ctx.Done() ; statusChan <- st }` on an unbuffered channel.

A step is identified by a label, so the relation is a partial function `fire`.
`rangeStart` is *not* guarded by `ctxDone = false`: the real code tests the context and then starts
the root non-atomically, so a cancel may fall in between; the model therefore allows a superset of
the implementation's behaviours and every theorem is proved for that superset.
-/
namespace Evl.Dispatch

inductive Outcome | pass | replace | drop | err
  deriving DecidableEq, Repr, Inhabited

inductive Phase
  | idle                      -- traversal not started
  | calling                   -- inside node.Process
  | decided (o : Outcome)     -- Process returned
  | sending                   -- blocked in the status select
  | finishing                 -- select done, deferred wg.Done not yet executed
  | finished
  deriving DecidableEq, Repr, Inhabited

structure PS where
  ph : Phase := .idle
  k : Nat := 0                -- index of the node the traversal is at
  owing : Nat := 0            -- non-root doProcess goroutines that spawned their child and still owe wg.Done
  rootOwes : Bool := false    -- the root's doProcess spawned its child and still owes wg.Done
  deriving DecidableEq, Repr, Inhabited

inductive Ranger
  | idle                      -- inside Range, between two roots
  | inRoot (p : Nat)          -- inside the inline doProcess of pipeline p's root
  | waiting                   -- Range returned, in wg.Wait()
  | waited                    -- Wait returned, channel not yet closed
  | closed                    -- close(statusChan) done, goroutine gone
  deriving DecidableEq, Repr, Inhabited

structure Cfg where
  n : Nat
  len : Nat → Nat
  out : Nat → Nat → Outcome
  sink : Nat → Nat → Bool

structure S where
  ps : Nat → PS
  rg : Ranger := .idle
  collExited : Bool := false
  ctxDone : Bool := false
  /-- ghost: node invocations in order, `(pipeline, index)` -/
  inv : List (Nat × Nat) := []
  /-- ghost: statuses the collector merged, `(pipeline, index, isWarning)` -/
  got : List (Nat × Nat × Bool) := []

def upd (f : Nat → PS) (p : Nat) (x : PS) : Nat → PS := fun q => if q = p then x else f q

@[simp] theorem upd_same (f : Nat → PS) (p : Nat) (x : PS) : upd f p x p = x := by simp [upd]
@[simp] theorem upd_other (f : Nat → PS) (p : Nat) (x : PS) (q : Nat) (h : q ≠ p) : upd f p x q = f q := by simp [upd, h]

def init : S := { ps := fun _ => {} }

/-- the traversal still has a goroutine that has not executed its `wg.Done` -/
def PS.busy (x : PS) : Bool :=
  (match x.ph with
   | .idle => false
   | .finished => false
   | _ => true) || x.owing > 0 || x.rootOwes

/-- `WaitGroup` counter contribution of one pipeline -/
def PS.wg (x : PS) : Nat :=
  (match x.ph with
   | .idle => 0
   | .finished => 0
   | _ => 1) + x.owing + (if x.rootOwes then 1 else 0)

def allBelow (n : Nat) (f : Nat → Bool) : Bool := (List.range n).all f
def anyBelow (n : Nat) (f : Nat → Bool) : Bool := (List.range n).any f

inductive Label
  | cancel
  | rangeStart (p : Nat)
  | rangeStop
  | rangeEnd
  | ret (p : Nat)            -- node.Process returned
  | sendTry (p : Nat)        -- the traversal ends here: enter the status select
  | spawn (p : Nat)          -- wg.Add(1); go doProcess(child)
  | rendezvous (p : Nat)     -- the send arm met the collector's receive arm
  | sendAbort (p : Nat)      -- the ctx.Done() arm of the sender's select
  | doneCur (p : Nat)        -- deferred wg.Done of the doProcess that ended the traversal
  | doneOwing (p : Nat)      -- deferred wg.Done of a non-root doProcess that spawned its child
  | doneRoot (p : Nat)       -- deferred wg.Done of a root doProcess that spawned its child
  | waitEnd                  -- wg.Wait() returns
  | close                    -- close(statusChan)
  | collectCtx               -- collector takes its ctx.Done() arm
  | collectClosed            -- collector sees the channel closed
  deriving DecidableEq, Repr, Inhabited

def stops (c : Cfg) (p k : Nat) (o : Outcome) : Bool :=
  o == .err || o == .drop || k + 1 == c.len p

def fire (c : Cfg) (s : S) : Label → Option S
  | .cancel => if s.ctxDone then none else some { s with ctxDone := true }
  | .rangeStart p =>
    if s.rg = .idle ∧ p < c.n ∧ (s.ps p).ph = .idle then
      some { s with rg := .inRoot p, ps := upd s.ps p { s.ps p with ph := .calling, k := 0 }, inv := s.inv ++ [(p, 0)] }
    else none
  | .rangeStop =>
    if s.rg = .idle ∧ s.ctxDone = true ∧ anyBelow c.n (fun p => (s.ps p).ph == .idle) = true then
      some { s with rg := .waiting }
    else none
  | .rangeEnd =>
    if s.rg = .idle ∧ allBelow c.n (fun p => (s.ps p).ph != .idle) = true then some { s with rg := .waiting }
    else none
  | .ret p =>
    if p < c.n ∧ (s.ps p).ph = .calling then
      some { s with ps := upd s.ps p { s.ps p with ph := .decided (c.out p (s.ps p).k) } }
    else none
  | .sendTry p =>
    match (s.ps p).ph with
    | .decided o =>
      if p < c.n ∧ stops c p (s.ps p).k o = true then some { s with ps := upd s.ps p { s.ps p with ph := .sending } }
      else none
    | _ => none
  | .spawn p =>
    match (s.ps p).ph with
    | .decided o =>
      if p < c.n ∧ stops c p (s.ps p).k o = false then
        some { s with
          ps := upd s.ps p
            (if (s.ps p).k = 0 then { s.ps p with ph := .calling, k := 1, rootOwes := true }
             else { s.ps p with ph := .calling, k := (s.ps p).k + 1, owing := (s.ps p).owing + 1 }),
          inv := s.inv ++ [(p, (s.ps p).k + 1)] }
      else none
    | _ => none
  | .rendezvous p =>
    if p < c.n ∧ (s.ps p).ph = .sending ∧ s.collExited = false then
      some { s with ps := upd s.ps p { s.ps p with ph := .finishing },
                    got := s.got ++ [(p, (s.ps p).k, c.out p (s.ps p).k == .err)] }
    else none
  | .sendAbort p =>
    if p < c.n ∧ (s.ps p).ph = .sending ∧ s.ctxDone = true then
      some { s with ps := upd s.ps p { s.ps p with ph := .finishing } }
    else none
  | .doneCur p =>
    if p < c.n ∧ (s.ps p).ph = .finishing then
      if (s.ps p).k = 0 then
        (if s.rg = .inRoot p then some { s with rg := .idle, ps := upd s.ps p { s.ps p with ph := .finished } } else none)
      else some { s with ps := upd s.ps p { s.ps p with ph := .finished } }
    else none
  | .doneOwing p =>
    if p < c.n ∧ (s.ps p).owing > 0 then some { s with ps := upd s.ps p { s.ps p with owing := (s.ps p).owing - 1 } }
    else none
  | .doneRoot p =>
    if p < c.n ∧ (s.ps p).rootOwes = true ∧ s.rg = .inRoot p then
      some { s with rg := .idle, ps := upd s.ps p { s.ps p with rootOwes := false } }
    else none
  | .waitEnd =>
    if s.rg = .waiting ∧ allBelow c.n (fun p => !(s.ps p).busy) = true then some { s with rg := .waited } else none
  | .close => if s.rg = .waited then some { s with rg := .closed } else none
  | .collectCtx => if s.collExited = false ∧ s.ctxDone = true then some { s with collExited := true } else none
  | .collectClosed => if s.collExited = false ∧ s.rg = .closed then some { s with collExited := true } else none

def Step (c : Cfg) (s s' : S) : Prop := ∃ l, fire c s l = some s'

inductive Reach (c : Cfg) : S → Prop
  | init : Reach c init
  | step {s s' : S} (l : Label) : Reach c s → fire c s l = some s' → Reach c s'

/-- `Send` has returned and every goroutine it created is gone. -/
def Terminal (s : S) : Prop := s.collExited = true ∧ s.rg = .closed

/-! ### sequential meaning of one traversal (shared with M1 `Registry.walk`) -/

/-- index of the node at which the traversal of pipeline `p` ends, searching from `k` with `fuel` nodes left -/
def stopIndex (c : Cfg) (p : Nat) : Nat → Nat → Nat
  | 0, k => k
  | fuel + 1, k => if stops c p k (c.out p k) then k else stopIndex c p fuel (k + 1)

def summaryStop (c : Cfg) (p : Nat) : Nat := stopIndex c p (c.len p) 0

end Evl.Dispatch
