import Evl.Model.EncryptTree
/-
M7g `EncryptTag` — encrypt.Filter on a *Taggable map* payload (`map[string]interface{}` with a
`Tags()` method): filter.go `filterTaggable` (every pointer tag in turn: `pointerstructure.Get`,
`filterValue` with pointer-structure info, `pointerstructure.Set`, `trackTaggable`) followed by
map.go `processUnfiltered` over the tracked maps (the Taggable itself, and every nested map a pointer
tag marked a key of), which skips the marked keys and redacts every other string.

Values are M7t's trees (`Evl.EncryptTree.V`); a pointer is a list of map keys (`/k1/k2/k3`), followed
through maps and pointers to maps.  What is *not* modelled: pointers through slices and structs
(`/list/0/name`, `/st/M/c`: exercised on the implementation by the deep-shape harness), and a
protecting tag (redact / encrypt / hmac) pointing at anything but a string, a pointer to a string or a
nil value — the real code formats such a value with `%s` and replaces it by a string, changing the
shape; the model answers `none` there and the generator never produces it.
-/
namespace Evl.EncryptTag
open Evl.Encrypt Evl.EncryptTree

/-- one `PointerTag` -/
structure PTag where
  path : List Nat      -- the keys of the pointer, outermost first
  cls : Bytes          -- Classification
  op : Bytes           -- Filter
  deriving DecidableEq, Repr, Inhabited

/-- `fmt.Sprintf("%s,%s", pt.Classification, pt.Filter)` -/
def PTag.tagString (t : PTag) : Bytes := t.cls ++ [44] ++ t.op

/-- what `filterValue` does to a value reached through a pointer tag: as `action`, except that a value
whose classification is none of public / sensitive / secret cannot be redacted where it is (what
`pointerstructure.Get` returned is not settable): an error, so Process fails as a whole -/
def tagAction (t : TagInfo) : Action :=
  if t.cls = .pub ∨ t.op = .none then .keep
  else match t.cls with
    | .secret | .sensitive =>
      match t.op with
      | .encrypt => .encrypt
      | .hmac => .hmac
      | .redact => .redact
      | _ => .error
    | _ => .error

/-- the value under a key of a map -/
def find (k : Nat) : Items → Option V
  | .nil => none
  | .cons (.key k') v rest => if k' = k then some v else find k rest
  | .cons _ _ rest => find k rest

/-- the map a pointer continues through: a map, or a pointer to one -/
def asMap : V → Option Items
  | .map es => some es
  | .ptr (.map es) => some es
  | _ => none

/-- a struct (or a pointer to one) on the way: `pointerstructure` looks the segment up as a field
name; the model's map keys (`k<n>`) never name a field, so the pointer is "not found" -/
def isStruct : V → Bool
  | .struct _ => true
  | .ptr (.struct _) => true
  | _ => false

inductive Got
  | found (v : V)
  | notFound          -- `pointerstructure.ErrNotFound`: the tag is skipped
  | error             -- any other failure: Process fails
  deriving Inhabited

/-- `pointerstructure.Get` -/
def getPath : List Nat → Items → Got
  | [], _ => .error                       -- the empty pointer: `trackTaggable` rejects it
  | [k], es => match find k es with
    | some v => .found v
    | none => .notFound
  | k :: k2 :: rest, es => match find k es with
    | none => .notFound
    | some v => match asMap v with
      | some es' => getPath (k2 :: rest) es'
      | none => if isStruct v then .notFound else .error   -- "invalid value kind": on through a non-container

/-- replace the value under a key -/
def setIn (k : Nat) (f : V → V) : Items → Items
  | .nil => .nil
  | .cons (.key k') v rest => if k' = k then .cons (.key k') (f v) rest else .cons (.key k') v (setIn k f rest)
  | .cons h v rest => .cons h v (setIn k f rest)

def onMap (f : Items → Items) : V → V
  | .map es => .map (f es)
  | .ptr (.map es) => .ptr (.map (f es))
  | v => v

/-- `pointerstructure.Set` -/
def setPath : List Nat → V → Items → Items
  | [], _, es => es
  | [k], v', es => setIn k (fun _ => v') es
  | k :: k2 :: rest, v', es => setIn k (onMap (fun es' => setPath (k2 :: rest) v' es')) es

/-- `filterValue` with pointer-structure info, on the value found at the pointer; `none` = error.
A string is filtered as its tag dictates (`tagAction`: it is not settable, an unusable classification is
an error); a string held *through a pointer* is settable (`reflect.Indirect`), so it is filtered in
place like a struct field (`action`: an unusable classification redacts it) and the pointer stays
(fix d474601); nil values are left alone whatever the tag says. -/
def filterTagged (c : Ctx) (t : TagInfo) : V → Option V
  | .leaf (.plain m) => (filterLeaf c.k c.ek (tagAction t) m).map .leaf
  | .ptr (.leaf (.plain m)) => (filterLeaf c.k c.ek (action t) m).map (fun l => .ptr (.leaf l))
  | .nilPtr => some .nilPtr
  | .leaf .nilBytes => some (.leaf .nilBytes)
  | v => if tagAction t = .keep then some v else none      -- see the header: not modelled beyond `keep`

/-- the payload while its tags are applied, and the pointers filtered so far -/
structure TS where
  es : Items
  marks : List (List Nat)
  deriving Inhabited

/-- one pointer tag: not found → skipped; found → filtered, stored back, and its key marked as
filtered in the map that holds it (`trackTaggable`) -/
def applyTag (c : Ctx) (s : TS) (t : PTag) : Option TS :=
  match getPath t.path s.es with
  | .notFound => some s
  | .error => none
  | .found v =>
    match filterTagged c (fromTagString t.tagString c.ov) v with
    | none => none
    | some v' => some { es := setPath t.path v' s.es, marks := s.marks ++ [t.path] }

/-- `filterTaggable`: the tags in the order `Tags()` returned them, each on the result of the previous -/
def applyTags (c : Ctx) : List PTag → TS → Option TS
  | [], s => some s
  | t :: ts, s =>
    match applyTag c s t with
    | none => none
    | some s' => applyTags c ts s'

/-- the marks that lie below key `k`, relative to the map under `k` -/
def subMarks (k : Nat) (marks : List (List Nat)) : List (List Nat) :=
  marks.filterMap (fun p => match p with
    | k' :: k2 :: q => if k' = k then some (k2 :: q) else none
    | _ => none)

/-- a key of the map itself is marked: the map is tracked (`trackTaggable` tracks the map that holds
the pointer's last segment, not the maps on the way to it) -/
def direct (marks : List (List Nat)) : Bool := marks.any (fun p => p.length == 1)

mutual
/-- `processUnfiltered` over a map with the marks below it.  `skip`: the map is not walked at all (the
key it sits under is marked and none of its own keys is): only the tracked maps further down are
filtered, on their own turn.  Otherwise marked keys are skipped and everything else is filtered as a
value of an untagged map (M7t `filtEntry`). -/
def filtT (c : Ctx) (marks : List (List Nat)) (skip : Bool) : Items → Option Items
  | .nil => some .nil
  | .cons (.key k) v rest =>
    match filtTV c (subMarks k marks) (skip || marks.contains [k]) v, filtT c marks skip rest with
    | some v', some r => some (.cons (.key k) v' r)
    | _, _ => none
  | .cons h v rest => (filtT c marks skip rest).map (.cons h v)
/-- one value: `sub` the marks below it, `marked` whether its own key is skipped by the walk above -/
def filtTV (c : Ctx) (sub : List (List Nat)) (marked : Bool) : V → Option V
  | .map es =>
    if sub.isEmpty then (if marked then some (.map es) else (filtEntries c es).map .map)
    else (filtT c sub (marked && !direct sub) es).map .map
  | .ptr w =>
    if sub.isEmpty then (if marked then some (.ptr w) else (filtEntryTarget c w).map .ptr)
    else (filtTP c sub marked w).map .ptr
  | .leaf l => if marked then some (.leaf l) else (filterStr c (action mapTag) true l).map .leaf
  | .leaves ls => if marked then some (.leaves ls) else (filterStrs c mapTag ls).map .leaves
  | .struct fs => if marked then some (.struct fs) else (filtFields c true fs).map .struct
  | .slice vs => if marked then some (.slice vs) else (filtMapSlice c vs).map .slice
  | .iface v => if marked then some (.iface v) else (filtEntry c v).map .iface
  | .nilPtr => some .nilPtr
def filtTP (c : Ctx) (sub : List (List Nat)) (marked : Bool) : V → Option V
  | .map es => (filtT c sub (marked && !direct sub) es).map .map
  | w => if marked then some w else filtEntryTarget c w   -- marks below something that is no map: do not arise from `applyTags`
end

/-- `Process` on a non-nil, non-empty Taggable map payload -/
def processTagged (c : Ctx) (ewiFails : Bool) (tags : List PTag) (es : Items) : EncryptTree.Res :=
  if (effOps c.ov).all (· = .none) then .same
  else if ewiFails then .error
  else if (keyFor c.k c.ek).isNone ∧ (effOps c.ov).any (fun o => o = .encrypt ∨ o = .hmac) then .error
  else match applyTags c tags { es := es, marks := [] } with
    | none => .error
    | some s =>
      match filtT c s.marks false s.es with
      | some es' => .filtered (.map es')
      | none => .error

end Evl.EncryptTag
