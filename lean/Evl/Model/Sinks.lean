/-
M9 `Sinks` — event.go (FormattedAs / Format: a last-writer-wins table), sinks/writer/writer.go,
the special paths of file_sink.go, sinks/channel/channel_sink.go.
Bytes are lists of natural numbers; format names are numbers (0 is the empty string, 1 is "json").
-/
namespace Evl.Sinks

abbrev Bytes := List Nat
abbrev Table := List (Nat × Bytes)

/-- `Event.FormattedAs`: any existing value for the format is overwritten -/
def formattedAs (t : Table) (fmt : Nat) (v : Bytes) : Table := t.filter (fun x => x.1 != fmt) ++ [(fmt, v)]

/-- `Event.Format` -/
def format (t : Table) (fmt : Nat) : Option Bytes := (t.find? (fun x => x.1 == fmt)).map (·.2)

def jsonFormat : Nat := 1

/-- the configured format, JSON when unset -/
def effFormat (cfg : Nat) : Nat := if cfg == 0 then jsonFormat else cfg

/-- how the underlying io.Writer behaves for one Write call -/
inductive WBeh | ok | fail | short (n : Nat)
  deriving DecidableEq, Repr, Inhabited

inductive SinkRes
  | wrote (bytes : Bytes)      -- success: exactly these bytes were handed to the writer, in one Write
  | errNilWriter | errNilEvent | errNotMarshaled | errWrite
  | nothing                    -- success without looking at the event (/dev/null)
  deriving DecidableEq, Repr, Inhabited

/-- `writer.Sink.Process` -/
def writerProcess (writerNil eventNil : Bool) (cfgFormat : Nat) (t : Table) (w : WBeh) : SinkRes :=
  if writerNil then .errNilWriter
  else if eventNil then .errNilEvent
  else
    match format t (effFormat cfgFormat) with
    | none => .errNotMarshaled
    | some v =>
      -- bytes.Reader.WriteTo does not call Write at all for an empty value
      if v.isEmpty then .wrote [] else
      match w with
      | .ok => .wrote v
      | .fail => .errWrite
      | .short n => if n < v.length then .errWrite else .wrote v   -- bytes.Reader.WriteTo: io.ErrShortWrite

/-- FileSink.Process on the special paths: 0 regular, 1 /dev/null, 2 stdout/stderr -/
def fileSinkSpecial (path : Nat) (cfgFormat : Nat) (t : Table) : Option SinkRes :=
  if path == 1 then some .nothing
  else if path == 2 then
    match format t (effFormat cfgFormat) with
    | none => some .errNotMarshaled
    | some v => some (.wrote v)
  else none

/-- ChannelSink.Process: one select over three arms -/
inductive ChanOut | sent | ctxErr | timeoutErr
  deriving DecidableEq, Repr, Inhabited

/-- the outcomes the select may produce, given which arms are ready when it is evaluated -/
def chanOutcomes (chanReady ctxDone timedOut : Bool) : List ChanOut :=
  (if chanReady then [.sent] else []) ++ (if ctxDone then [.ctxErr] else []) ++ (if timedOut then [.timeoutErr] else [])

end Evl.Sinks
