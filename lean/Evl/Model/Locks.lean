/-
M3 `Locks` — Go's writer-preferring `sync.RWMutex` (Broker.lock) and threads that use it.

A thread is a status plus the list of instructions it still has to run.  The lock has no state of
its own: it is *derived* from the threads' statuses, exactly as the runtime's counters are —
`RLock` is admitted iff no thread holds or waits for the write lock (writer preference), a waiting
writer is admitted iff nobody holds the lock.  `work` stands for everything else, including calls
into user code (node Process / Reopen / Close), which may contain further lock instructions when
the user code calls back into the Broker.
-/
namespace Evl.Locks

inductive Instr | rlock | runlock | lock | unlock | work
  deriving DecidableEq, Repr, Inhabited

inductive Status | idle | holdR | holdW | waitW
  deriving DecidableEq, Repr, Inhabited

structure Thread where
  st : Status := .idle
  prog : List Instr := []
  deriving DecidableEq, Repr, Inhabited

abbrev Sys := List Thread

def anyWriter (s : Sys) : Bool := s.any (fun t => t.st == .holdW || t.st == .waitW)
def anyHolder (s : Sys) : Bool := s.any (fun t => t.st == .holdW || t.st == .holdR)

/-- what thread `t` can do next in system `s` (none: blocked or finished) -/
def next (s : Sys) (t : Thread) : Option Thread :=
  match t.st, t.prog with
  | _, [] => none
  | st, .work :: p => some { st := st, prog := p }
  | .idle, .rlock :: p => if anyWriter s then none else some { st := .holdR, prog := p }
  | .idle, .lock :: p => some { st := .waitW, prog := .lock :: p }      -- announce: readers are now held off
  | .waitW, .lock :: p => if anyHolder s then none else some { st := .holdW, prog := p }
  | .holdR, .runlock :: p => some { st := .idle, prog := p }
  | .holdW, .unlock :: p => some { st := .idle, prog := p }
  -- acquiring while holding: sync.RWMutex is not re-entrant
  | .holdW, .rlock :: _ => none
  | .holdW, .lock :: _ => none
  | .holdR, .lock :: _ => none                                           -- waits for itself
  | .holdR, .rlock :: p => if anyWriter s then none else some { st := .holdR, prog := p }  -- recursive RLock
  | _, _ => none

/-- a thread that never acquires while holding and releases what it holds -/
def flat : Status → List Instr → Bool
  | .idle, [] => true
  | .idle, .work :: p => flat .idle p
  | .idle, .rlock :: p => flat .holdR p
  | .idle, .lock :: p => flat .holdW p
  | .waitW, .lock :: p => flat .holdW p
  | .holdR, .work :: p => flat .holdR p
  | .holdR, .runlock :: p => flat .idle p
  | .holdW, .work :: p => flat .holdW p
  | .holdW, .unlock :: p => flat .idle p
  | _, _ => false

def Thread.flat (t : Thread) : Bool := Evl.Locks.flat t.st t.prog

def finished (s : Sys) : Bool := s.all (fun t => t.prog.isEmpty)

end Evl.Locks
