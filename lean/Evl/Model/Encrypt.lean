/-
M7 `Encrypt` — filters/encrypt: tag.go (getClassificationFromTag(String), convertToOperation),
filter.go (filterValue's decision, the key material used by encrypt / hmacSha256, Rotate and rotation
payloads, per-event wrappers), for payloads that are (pointers to) flat structs of string / []byte
fields.  Strings are byte lists; plaintexts, keys, salts and infos are opaque numbers.

Deeper payload shapes (nested structs, slices, maps, Taggable) are *not* in this model; they are
exercised on the implementation by the harness's canary oracle (see DESIGN.md §6 C09/C10).
-/
namespace Evl.Encrypt

abbrev Bytes := List Nat

inductive Op | none | unknown | redact | encrypt | hmac | other
  deriving DecidableEq, Repr, Inhabited

def lower (b : Nat) : Nat := if 65 ≤ b ∧ b ≤ 90 then b + 32 else b

def sRedact : Bytes := [114, 101, 100, 97, 99, 116]
def sEncrypt : Bytes := [101, 110, 99, 114, 121, 112, 116]
def sHmac : Bytes := [104, 109, 97, 99, 45, 115, 104, 97, 50, 53, 54]
def sPublic : Bytes := [112, 117, 98, 108, 105, 99]
def sSensitive : Bytes := [115, 101, 110, 115, 105, 116, 105, 118, 101]
def sSecret : Bytes := [115, 101, 99, 114, 101, 116]

/-- `convertToOperation`: case-insensitive -/
def convertToOperation (seg : Bytes) : Op :=
  let s := seg.map lower
  if s = [] then .none
  else if s = sHmac then .hmac
  else if s = sEncrypt then .encrypt
  else if s = sRedact then .redact
  else .unknown

/-- split at the first comma, and the second segment up to the next comma (`strings.Split(tag, ",")[0..1]`) -/
def splitComma : Bytes → Bytes × Option Bytes
  | [] => ([], Option.none)
  | b :: rest =>
    if b = 44 then ([], some (rest.takeWhile (· ≠ 44)))
    else let (a, r) := splitComma rest; (b :: a, r)

/-- data classification as the code sees it: the raw first segment -/
inductive Cls | pub | sensitive | secret | unknown | raw (s : Bytes)
  deriving DecidableEq, Repr, Inhabited

structure TagInfo where
  cls : Cls
  op : Op
  deriving DecidableEq, Repr, Inhabited

abbrev Overrides := List (Bytes × Op)

def lookupOv (ov : Overrides) (k : Bytes) : Option Op := (ov.find? (fun x => x.1 == k)).map (·.2)

/-- the operation named by the tag's second segment; unknown spellings count as "not given" -/
def tagOp (o : Option Bytes) : Op :=
  match o with
  | Option.none => Op.none
  | some seg => if convertToOperation seg = .unknown then Op.none else convertToOperation seg

/-- the tag's operation, or the classification's default when none is given -/
def defaulted (d op : Op) : Op := if op = .none then d else op

/-- `getClassificationFromTagString` -/
def fromTagString (tag : Bytes) (ov : Overrides) : TagInfo :=
  let c := (splitComma tag).1
  match lookupOv ov c with
  | some ovOp =>
    { cls := if c = sPublic then .pub else if c = sSensitive then .sensitive else if c = sSecret then .secret else .raw c, op := ovOp }
  | Option.none =>
    if c = sPublic then { cls := .pub, op := .none }
    else if c = sSensitive then { cls := .sensitive, op := defaulted .encrypt (tagOp (splitComma tag).2) }
    else if c = sSecret then { cls := .secret, op := defaulted .redact (tagOp (splitComma tag).2) }
    else { cls := .unknown, op := .unknown }

/-- `getClassificationFromTag`: no `class` key in the struct tag -/
def fromTag (tag : Option Bytes) (ov : Overrides) : TagInfo :=
  match tag with
  | Option.none => { cls := .unknown, op := .unknown }
  | some t => fromTagString t ov

/-- what `filterValue` does with a settable string / []byte leaf -/
inductive Action | keep | redact | encrypt | hmac | error
  deriving DecidableEq, Repr, Inhabited

def action (t : TagInfo) : Action :=
  if t.cls = .pub ∨ t.op = .none then .keep
  else match t.cls with
    | .secret | .sensitive =>
      match t.op with
      | .encrypt => .encrypt
      | .hmac => .hmac
      | .redact => .redact
      | _ => .error
    | _ => .redact

/-! ### key material -/

structure Keys where
  wrapper : Option Nat        -- key id of the filter's wrapper
  salt : Option Nat
  info : Option Nat
  deriving DecidableEq, Repr, Inhabited

/-- `Rotate(opts…)` and rotation payloads: only the supplied (non-nil) components are replaced -/
def rotate (k : Keys) (w s i : Option Nat) : Keys :=
  { wrapper := match w with | some x => some x | Option.none => k.wrapper
    salt := match s with | some x => some x | Option.none => k.salt
    info := match i with | some x => some x | Option.none => k.info }

/-- per-event key material: `EventWrapperInfo` payloads derive a wrapper from the filter's wrapper and
the event id; salt / info of the event take precedence when non-nil -/
structure EventKeys where
  derivedFrom : Option (Nat × Nat)   -- (base wrapper, event id): the derived per-event wrapper
  salt : Option Nat
  info : Option Nat
  deriving DecidableEq, Repr, Inhabited

inductive Leaf
  | plain (m : Nat)
  | nilBytes
  | redacted
  | enc (key : Nat × Option Nat) (m : Nat)                         -- (wrapper, derived-for event id)
  | mac (key : Nat × Option Nat) (salt info : Option Nat) (m : Nat)
  | other
  deriving DecidableEq, Repr, Inhabited

/-- what one field comes out as: one value, or the elements of a []string / [][]byte -/
inductive FOut | one (l : Leaf) | many (ls : List Leaf)
  deriving DecidableEq, Repr, Inhabited

def keyFor (k : Keys) (ek : Option EventKeys) : Option (Nat × Option Nat) :=
  match ek with
  | some e => match e.derivedFrom with
    | some (w, id) => some (w, some id)
    | Option.none => k.wrapper.map (·, Option.none)
  | Option.none => k.wrapper.map (·, Option.none)

def saltFor (k : Keys) (ek : Option EventKeys) : Option Nat :=
  match ek with
  | some e => match e.salt with | some s => some s | Option.none => k.salt
  | Option.none => k.salt

def infoFor (k : Keys) (ek : Option EventKeys) : Option Nat :=
  match ek with
  | some e => match e.info with | some s => some s | Option.none => k.info
  | Option.none => k.info

/-! ### flat struct payloads -/

inductive FKind
  | str (m : Nat) | bytes (m : Option Nat) | other
  | strs (ms : List Nat)              -- []string
  | bss (ms : List (Option Nat))      -- [][]byte, none = nil element
  deriving DecidableEq, Repr, Inhabited

structure Field where
  exported : Bool
  tag : Option Bytes
  kind : FKind
  deriving DecidableEq, Repr, Inhabited

/-- one settable string / []byte value through `filterValue`; `none` = error -/
def filterLeaf (k : Keys) (ek : Option EventKeys) (a : Action) (m : Nat) : Option Leaf :=
  match a with
  | .keep => some (.plain m)
  | .redact => some .redacted
  | .encrypt => (keyFor k ek).map (fun key => .enc key m)
  | .hmac => (keyFor k ek).map (fun key => .mac key (saltFor k ek) (infoFor k ek) m)
  | .error => Option.none

/-- `filterSlice`: every element in turn, the first error aborts; nil []byte elements are skipped -/
def filterElems (k : Keys) (ek : Option EventKeys) (a : Action) : List (Option Nat) → Option (List Leaf)
  | [] => some []
  | Option.none :: rest => (filterElems k ek a rest).map (Leaf.nilBytes :: ·)
  | some m :: rest =>
    match filterLeaf k ek a m with
    | Option.none => Option.none
    | some l => (filterElems k ek a rest).map (l :: ·)

def rawElem : Option Nat → Leaf
  | some m => .plain m
  | Option.none => .nilBytes

/-- the field as it is, unfiltered -/
def rawField : FKind → FOut
  | .str m => .one (.plain m)
  | .bytes (some m) => .one (.plain m)
  | .bytes Option.none => .one .nilBytes
  | .other => .one .other
  | .strs ms => .many (ms.map .plain)
  | .bss ms => .many (ms.map rawElem)

/-- one field through `filterField` / `filterValue` / `filterSlice`; `none` = Process fails -/
def filterOne (k : Keys) (ek : Option EventKeys) (ov : Overrides) (f : Field) : Option FOut :=
  if !f.exported then some (rawField f.kind)
  else match f.kind with
    | .other => some (.one .other)
    | .bytes Option.none => some (.one .nilBytes)
    | .str m => (filterLeaf k ek (action (fromTag f.tag ov)) m).map .one
    | .bytes (some m) => (filterLeaf k ek (action (fromTag f.tag ov)) m).map .one
    | .strs ms =>
      if (fromTag f.tag ov).cls = .pub then some (rawField f.kind)
      else (filterElems k ek (action (fromTag f.tag ov)) (ms.map some)).map .many
    | .bss ms =>
      if (fromTag f.tag ov).cls = .pub then some (rawField f.kind)
      else (filterElems k ek (action (fromTag f.tag ov)) ms).map .many

def filterFields (k : Keys) (ek : Option EventKeys) (ov : Overrides) : List Field → Option (List FOut)
  | [] => some []
  | f :: fs =>
    match filterOne k ek ov f, filterFields k ek ov fs with
    | some l, some ls => some (l :: ls)
    | _, _ => Option.none

/-- the effective operation per known classification: defaults with overrides applied -/
def effOps (ov : Overrides) : List Op :=
  [(lookupOv ov sPublic).getD .none, (lookupOv ov sSensitive).getD .encrypt, (lookupOv ov sSecret).getD .redact]

inductive Res
  | same                          -- the very same event is forwarded (nothing to do)
  | filtered (ls : List FOut)     -- a filtered copy is forwarded
  | error
  deriving DecidableEq, Repr, Inhabited

/-- `Process` on a pointer to a non-zero flat struct -/
def processFlat (k : Keys) (ek : Option EventKeys) (ewiFails : Bool) (ov : Overrides) (fs : List Field) : Res :=
  if (effOps ov).all (· = .none) then .same
  else if ewiFails then .error                      -- NewEventWrapper failed (no wrapper / empty event id)
  else if (keyFor k ek).isNone ∧ (effOps ov).any (fun o => o = .encrypt ∨ o = .hmac) then .error
  else match filterFields k ek ov fs with
    | some ls => .filtered ls
    | Option.none => .error

end Evl.Encrypt
