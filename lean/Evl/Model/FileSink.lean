/-
M5 `FileSink` — executable model of file_sink.go (Process / open / rotate / pruneFiles / reopen /
Reopen) over an inode-level file system: the open descriptor refers to an inode, so a file renamed
by somebody else keeps receiving the sink's writes until Reopen, as on Linux.

Events are numbered; an acknowledged write appends the whole event to the inode in one step (one
`write(2)` on an `O_APPEND` descriptor).  Clock readings are abstracted: file-name timestamps come
from a strictly increasing counter (`stamp`), and the time condition of `rotate()` is an input of
the write operation (`elapsed`), so the model is parametric in real time.
The special paths (/dev/null, stdout, stderr) are not part of this model (see C13).
-/
namespace Evl.FileSink

inductive Name
  | plain                 -- the configured FileName
  | ts (n : Nat)          -- FileName with a timestamp: base-<n>.ext (the sink's own name space)
  | foreign (k : Nat)     -- a name outside the sink's name space (external rename target)
  deriving DecidableEq, Repr, Inhabited

structure Inode where
  id : Nat
  evs : List Nat          -- acknowledged events written to it, in order
  bytes : Nat
  mode : Nat
  deriving DecidableEq, Repr, Inhabited

structure Cfg where
  maxBytes : Nat
  maxFiles : Nat
  maxDuration : Int   -- a time.Duration: may be negative (then: a timestamped name, but no rotation by age)
  tsOnly : Bool           -- TimestampOnlyOnRotate
  mode : Nat              -- 0: unset (0600)
  deriving DecidableEq, Repr, Inhabited

structure St where
  inodes : List Inode := []              -- linked inodes, in creation order
  dir : List (Name × Nat) := []          -- directory: name ↦ inode id
  fd : Option Nat := none                -- FileSink.f (inode it refers to)
  fdName : Option Name := none           -- f.Name()
  bytesWritten : Nat := 0
  stamp : Nat := 1                       -- next timestamp / inode id
  acked : List Nat := []                 -- ghost: acknowledged events in order
  removed : List Inode := []             -- ghost: inodes unlinked by pruneFiles, in removal order
  dirMade : Bool := false
  deriving Repr, Inhabited

def rotateEnabled (c : Cfg) : Bool := c.maxBytes > 0 || c.maxDuration != 0

def lookup (d : List (Name × Nat)) (n : Name) : Option Nat := (d.find? (fun x => x.1 == n)).map (·.2)

def fileMode (c : Cfg) : Nat := if c.mode == 0 then 0o600 else c.mode

/-- `newFileName`: the plain name with TimestampOnlyOnRotate or without rotation limits, else a fresh timestamp -/
def openName (c : Cfg) (s : St) : Name := if c.tsOnly || !rotateEnabled c then Name.plain else Name.ts s.stamp

/-- `open()`: create (or re-open for append) the file named by `newFileName`, reset the counters -/
def openFile (c : Cfg) (s : St) : St :=
  match s.fd with
  | some _ => s
  | none =>
    let name := openName c s
    match lookup s.dir name with
    | some i =>
      -- O_APPEND|O_CREATE on an existing file; Chmod only when Mode is set
      let inodes := if c.mode != 0 then s.inodes.map (fun x => if x.id == i then { x with mode := c.mode } else x) else s.inodes
      { s with inodes := inodes, fd := some i, fdName := some name, bytesWritten := 0, stamp := s.stamp + 1, dirMade := true }
    | none =>
      let i := s.stamp
      { s with inodes := s.inodes ++ [{ id := i, evs := [], bytes := 0, mode := fileMode c }],
               dir := s.dir ++ [(name, i)], fd := some i, fdName := some name, bytesWritten := 0,
               stamp := s.stamp + 1, dirMade := true }

def insertTs (x : Nat × Nat) : List (Nat × Nat) → List (Nat × Nat)
  | [] => [x]
  | y :: ys => if x.1 ≤ y.1 then x :: y :: ys else y :: insertTs x ys

def sortTs : List (Nat × Nat) → List (Nat × Nat)
  | [] => []
  | x :: xs => insertTs x (sortTs xs)

/-- a directory entry of the sink's own timestamped name space: (timestamp, inode) -/
def tsOf (x : Name × Nat) : Option (Nat × Nat) := match x.1 with | .ts n => some (n, x.2) | _ => none

def isTs (n : Name) : Bool := match n with | .ts _ => true | _ => false

/-- names of the sink's own timestamped files, oldest first (the sorted glob of `pruneFiles`) -/
def tsFiles (d : List (Name × Nat)) : List (Nat × Nat) := sortTs (d.filterMap tsOf)

/-- `pruneFiles()`: remove the oldest timestamped files beyond MaxFiles -/
def prune (c : Cfg) (s : St) : St :=
  if c.maxFiles == 0 then s
  else
    let files := tsFiles s.dir
    let stale := files.take (files.length - c.maxFiles)
    let gone := stale.map (·.2)
    { s with dir := s.dir.filter (fun x => !(gone.contains x.2 && isTs x.1)),
             inodes := s.inodes.filter (fun x => !gone.contains x.id),
             removed := s.removed ++ s.inodes.filter (fun x => gone.contains x.id) }

/-- the condition of `rotate()`, over the counters and the elapsed time -/
def needRotate (c : Cfg) (bytesWritten elapsed : Nat) : Bool :=
  (bytesWritten ≥ c.maxBytes && c.maxBytes > 0) || ((elapsed : Int) > c.maxDuration && c.maxDuration > 0)

inductive Res | ok | errRotate | errFormat
  deriving DecidableEq, Repr, Inhabited

def closeFd (s : St) : St := { s with fd := none, fdName := none }

/-- `os.Rename(plain, base-<now>.ext)` of TimestampOnlyOnRotate -/
def renamePlain (s : St) (i : Nat) : St :=
  { s with dir := s.dir.map (fun x => if x.1 == Name.plain then (Name.ts s.stamp, i) else x), stamp := s.stamp + 1 }

/-- `rotate()` (called with the file open) -/
def rotate (c : Cfg) (s : St) (elapsed : Nat) : St × Res :=
  if needRotate c s.bytesWritten elapsed then
    if c.tsOnly then
      match lookup (closeFd s).dir .plain with
      | none => (closeFd s, .errRotate)          -- os.Rename fails: the plain file was moved away
      | some i => (openFile c (prune c (renamePlain (closeFd s) i)), .ok)
    else (openFile c (prune c (closeFd s)), .ok)
  else (s, .ok)

inductive Op
  | write (ev size elapsed : Nat)   -- Process of an event of `size` bytes, `elapsed` since LastCreated
  | reopen
  | extRename (k : Nat)             -- somebody renames the active file to a foreign name
  | noFormat                        -- Process of an event that has no bytes for the sink's format
  deriving Repr, Inhabited

def appendTo (s : St) (i ev size : Nat) : St :=
  { s with inodes := s.inodes.map (fun x => if x.id == i then { x with evs := x.evs ++ [ev], bytes := x.bytes + size } else x),
           bytesWritten := s.bytesWritten + size, acked := s.acked ++ [ev] }

def step (c : Cfg) (s : St) : Op → St × Res
  | .write ev size elapsed =>
    let s1 := openFile c s
    -- a file opened by this very call has (practically) no age yet
    let el := if s.fd.isNone then 0 else elapsed
    let (s2, r) := rotate c s1 el
    match r, s2.fd with
    | .ok, some i => (appendTo s2 i ev size, .ok)
    | _, _ => (s2, .errRotate)
  | .reopen =>
    -- the descriptor's name no longer exists: forget the descriptor; then (re)open
    let s1 := match s.fd, s.fdName with
      | some _, some n => if (lookup s.dir n).isNone then { s with fd := none, fdName := none } else s
      | _, _ => s
    (openFile c (closeFd s1), .ok)
  | .extRename k =>
    match s.fdName with
    | some n =>
      if (lookup s.dir n).isSome && (lookup s.dir (.foreign k)).isNone then
        ({ s with dir := s.dir.map (fun x => if x.1 == n then (Name.foreign k, x.2) else x) }, .ok)
      else (s, .ok)
    | none => (s, .ok)
  | .noFormat => (s, .errFormat)    -- "event was not marshaled": decided before the file is looked at, nothing changes

def run (c : Cfg) (s : St) (ops : List Op) : St := ops.foldl (fun s o => (step c s o).1) s

/-- what a reader finds: the contents of the linked files, oldest inode first -/
def contents (s : St) : List Nat := s.inodes.flatMap (·.evs)

end Evl.FileSink
