import Evl.Model.EncryptTree
/-! Lemmas about M7t `EncryptTree`: the shape skeleton is preserved; a *guarded* value comes out with nothing readable.
The thirteen mutually recursive functions of the model get thirteen mutually recursive lemmas each. -/
namespace Evl.EncryptTree
open Evl.Encrypt

/-- leaf skeleton: what C10 says is preserved of a string / []byte position -/
def skelLeaf : Leaf → Leaf
  | .nilBytes => .nilBytes
  | .other => .other
  | _ => .redacted

mutual
def skel : V → V
  | .leaf l => .leaf (skelLeaf l)
  | .leaves ls => .leaves (ls.map skelLeaf)
  | .nilPtr => .nilPtr
  | .ptr v => .ptr (skel v)
  | .iface v => .iface (skel v)
  | .struct fs => .struct (skelI fs)
  | .slice vs => .slice (skelI vs)
  | .map es => .map (skelI es)
def skelI : Items → Items
  | .nil => .nil
  | .cons h v rest => .cons h (skel v) (skelI rest)
end

theorem filterLeaf_cases {k : Keys} {ek : Option EventKeys} {a : Action} {m : Nat} {l : Leaf}
    (h : filterLeaf k ek a m = some l) :
    (a = .keep ∧ l = .plain m) ∨ (a ≠ .keep ∧ leafPlain l = [] ∧ skelLeaf l = .redacted) := by
  unfold filterLeaf at h
  cases a with
  | keep => left; simp at h; exact ⟨rfl, h.symm⟩
  | redact => right; simp at h; subst h; exact ⟨by simp, rfl, rfl⟩
  | encrypt =>
    right
    simp only [Option.map_eq_some_iff] at h
    obtain ⟨key, _, rfl⟩ := h
    exact ⟨by simp, rfl, rfl⟩
  | hmac =>
    right
    simp only [Option.map_eq_some_iff] at h
    obtain ⟨key, _, rfl⟩ := h
    exact ⟨by simp, rfl, rfl⟩
  | error => simp at h

theorem filterStr_skel {c : Ctx} {a : Action} {s : Bool} {l l' : Leaf} (h : filterStr c a s l = some l') :
    skelLeaf l' = skelLeaf l := by
  unfold filterStr at h
  cases l with
  | plain m =>
    simp only at h
    split at h
    · cases h; rfl
    · split at h
      · cases h; rfl
      · rcases filterLeaf_cases h with ⟨_, rfl⟩ | ⟨_, _, h3⟩
        · rfl
        · rw [h3]; rfl
  | nilBytes => cases h; rfl
  | redacted => cases h; rfl
  | enc _ _ => cases h; rfl
  | mac _ _ _ _ => cases h; rfl
  | other => cases h; rfl

theorem mapM_skel {c : Ctx} {a : Action} (ls : List Leaf) :
    ∀ ls', ls.mapM (filterStr c a true) = some ls' → ls'.map skelLeaf = ls.map skelLeaf := by
  induction ls with
  | nil => intro ls' h; simp at h; subst h; rfl
  | cons x xs ih =>
    intro ls' h
    simp only [List.mapM_cons, Option.bind_eq_bind, Option.bind_eq_some_iff, Option.pure_def, Option.some.injEq] at h
    obtain ⟨y, hy, ys, hys, rfl⟩ := h
    simp only [List.map_cons, filterStr_skel hy, ih ys hys]

theorem filterStrs_skel {c : Ctx} {t : TagInfo} {ls ls' : List Leaf} (h : filterStrs c t ls = some ls') :
    ls'.map skelLeaf = ls.map skelLeaf := by
  unfold filterStrs at h
  split at h
  · cases h; rfl
  · exact mapM_skel ls ls' h

end Evl.EncryptTree

namespace Evl.EncryptTree
open Evl.Encrypt

/-- helper: the shape of every `(f x).map C = some v'` hypothesis -/
theorem map_some {α β : Type} {f : α → β} {o : Option α} {b : β} (h : o.map f = some b) : ∃ a, o = some a ∧ f a = b := by
  cases o with
  | none => simp at h
  | some a => exact ⟨a, rfl, by simpa using h⟩

mutual
theorem filtV_skel (c : Ctx) (t : TagInfo) (a : Bool) : (v v' : V) → filtV c t a v = some v' → skel v' = skel v
  | .leaf l, v', h => by
    simp only [filtV] at h
    obtain ⟨l', hl, rfl⟩ := map_some h
    simp only [skel, filterStr_skel hl]
  | .leaves ls, v', h => by
    simp only [filtV] at h
    obtain ⟨l', hl, rfl⟩ := map_some h
    simp only [skel, filterStrs_skel hl]
  | .nilPtr, v', h => by
    simp only [filtV, Option.some.injEq] at h
    subst h; rfl
  | .ptr v, v', h => by
    simp only [filtV] at h
    obtain ⟨w, hw, rfl⟩ := map_some h
    simp only [skel, filtV_skel c t true v w hw]
  | .iface v, v', h => by
    simp only [filtV] at h
    obtain ⟨w, hw, rfl⟩ := map_some h
    simp only [skel, filtIface_skel c t a v w hw]
  | .struct fs, v', h => by
    simp only [filtV] at h
    obtain ⟨w, hw, rfl⟩ := map_some h
    simp only [skel, filtFields_skel c a fs w hw]
  | .slice vs, v', h => by
    simp only [filtV] at h
    obtain ⟨w, hw, rfl⟩ := map_some h
    simp only [skel, filtElems_skel c t vs w hw]
  | .map es, v', h => by
    simp only [filtV] at h
    obtain ⟨w, hw, rfl⟩ := map_some h
    simp only [skel, filtEntries_skel c es w hw]
termination_by structural x _ _ => x

theorem filtIface_skel (c : Ctx) (t : TagInfo) (a : Bool) : (v v' : V) → filtIface c t a v = some v' → skel v' = skel v
  | .ptr v, v', h => by
    simp only [filtIface] at h
    obtain ⟨w, hw, rfl⟩ := map_some h
    simp only [skel, filtV_skel c t true v w hw]
  | .leaf l, v', h => by
    simp only [filtIface] at h
    obtain ⟨l', hl, rfl⟩ := map_some h
    simp only [skel, filterStr_skel hl]
  | .struct fs, v', h => by
    simp only [filtIface] at h
    obtain ⟨w, hw, rfl⟩ := map_some h
    simp only [skel, filtFields_skel c a fs w hw]
  | .leaves ls, v', h => by
    simp only [filtIface] at h
    obtain ⟨l', hl, rfl⟩ := map_some h
    simp only [skel, filterStrs_skel hl]
  | .slice vs, v', h => by
    simp only [filtIface] at h
    obtain ⟨w, hw, rfl⟩ := map_some h
    simp only [skel, filtElems_skel c t vs w hw]
  | .map es, v', h => by
    simp only [filtIface] at h
    obtain ⟨w, hw, rfl⟩ := map_some h
    simp only [skel, filtEntries_skel c es w hw]
  | .nilPtr, v', h => by
    simp only [filtIface, Option.some.injEq] at h
    subst h; rfl
  | .iface v, v', h => by
    simp only [filtIface, Option.some.injEq] at h
    subst h; rfl
termination_by structural x _ _ => x

theorem filtFields_skel (c : Ctx) (a : Bool) : (fs fs' : Items) → filtFields c a fs = some fs' → skelI fs' = skelI fs
  | .nil, fs', h => by
    simp only [filtFields, Option.some.injEq] at h
    subst h; rfl
  | .cons (.field ex tag) v rest, fs', h => by
    simp only [filtFields] at h
    split at h
    · obtain ⟨r, hr, rfl⟩ := map_some h
      simp only [skelI, filtFields_skel c a rest r hr]
    · split at h
      · rename_i v' r hv hr
        cases h
        simp only [skelI, filtV_skel c _ a v v' hv, filtFields_skel c a rest r hr]
      · cases h
  | .cons .elem v rest, fs', h => by
    simp only [filtFields] at h
    obtain ⟨r, hr, rfl⟩ := map_some h
    simp only [skelI, filtFields_skel c a rest r hr]
  | .cons (.key k) v rest, fs', h => by
    simp only [filtFields] at h
    obtain ⟨r, hr, rfl⟩ := map_some h
    simp only [skelI, filtFields_skel c a rest r hr]
termination_by structural x _ _ => x

theorem filtElems_skel (c : Ctx) (t : TagInfo) : (vs vs' : Items) → filtElems c t vs = some vs' → skelI vs' = skelI vs
  | .nil, vs', h => by
    simp only [filtElems, Option.some.injEq] at h
    subst h; rfl
  | .cons hd v rest, vs', h => by
    simp only [filtElems] at h
    split at h
    · rename_i v' r hv hr
      cases h
      simp only [skelI, filtElem_skel c t v v' hv, filtElems_skel c t rest r hr]
    · cases h
termination_by structural x _ _ => x

theorem filtElem_skel (c : Ctx) (t : TagInfo) : (v v' : V) → filtElem c t v = some v' → skel v' = skel v
  | .ptr w, v', h => by
    simp only [filtElem] at h
    obtain ⟨x, hx, rfl⟩ := map_some h
    simp only [skel, filtElemTarget_skel c t w x hx]
  | .struct fs, v', h => by
    simp only [filtElem] at h
    obtain ⟨x, hx, rfl⟩ := map_some h
    simp only [skel, filtFields_skel c true fs x hx]
  | .map es, v', h => by
    simp only [filtElem] at h
    obtain ⟨x, hx, rfl⟩ := map_some h
    simp only [skel, filtEntries_skel c es x hx]
  | .slice vs, v', h => by
    simp only [filtElem] at h
    obtain ⟨x, hx, rfl⟩ := map_some h
    simp only [skel, filtElems_skel c t vs x hx]
  | .leaf l, v', h => by
    simp only [filtElem] at h
    obtain ⟨l', hl, rfl⟩ := map_some h
    simp only [skel, filterStr_skel hl]
  | .leaves ls, v', h => by
    simp only [filtElem] at h
    obtain ⟨l', hl, rfl⟩ := map_some h
    simp only [skel, filterStrs_skel hl]
  | .nilPtr, v', h => by simp only [filtElem, Option.some.injEq] at h; subst h; rfl
  | .iface v, v', h => by
    simp only [filtElem] at h
    obtain ⟨x, hx, rfl⟩ := map_some h
    simp only [skel, filtElemIface_skel c t v x hx]
termination_by structural x _ _ => x

theorem filtElemIface_skel (c : Ctx) (t : TagInfo) : (v v' : V) → filtElemIface c t v = some v' → skel v' = skel v
  | .ptr w, v', h => by
    simp only [filtElemIface] at h
    obtain ⟨x, hx, rfl⟩ := map_some h
    simp only [skel, filtElemTarget_skel c t w x hx]
  | .struct fs, v', h => by
    simp only [filtElemIface] at h
    obtain ⟨x, hx, rfl⟩ := map_some h
    simp only [skel, filtFields_skel c true fs x hx]
  | .map es, v', h => by
    simp only [filtElemIface] at h
    obtain ⟨x, hx, rfl⟩ := map_some h
    simp only [skel, filtEntries_skel c es x hx]
  | .slice vs, v', h => by
    simp only [filtElemIface] at h
    obtain ⟨x, hx, rfl⟩ := map_some h
    simp only [skel, filtElems_skel c t vs x hx]
  | .leaf l, v', h => by
    simp only [filtElemIface] at h
    obtain ⟨l', hl, rfl⟩ := map_some h
    simp only [skel, filterStr_skel hl]
  | .leaves ls, v', h => by
    simp only [filtElemIface] at h
    obtain ⟨l', hl, rfl⟩ := map_some h
    simp only [skel, filterStrs_skel hl]
  | .nilPtr, v', h => by simp only [filtElemIface, Option.some.injEq] at h; subst h; rfl
  | .iface v, v', h => by simp only [filtElemIface, Option.some.injEq] at h; subst h; rfl
termination_by structural x _ _ => x

theorem filtElemTarget_skel (c : Ctx) (t : TagInfo) : (v v' : V) → filtElemTarget c t v = some v' → skel v' = skel v
  | .struct fs, v', h => by
    simp only [filtElemTarget] at h
    obtain ⟨x, hx, rfl⟩ := map_some h
    simp only [skel, filtFields_skel c true fs x hx]
  | .map es, v', h => by
    simp only [filtElemTarget] at h
    obtain ⟨x, hx, rfl⟩ := map_some h
    simp only [skel, filtEntries_skel c es x hx]
  | .slice vs, v', h => by
    simp only [filtElemTarget] at h
    obtain ⟨x, hx, rfl⟩ := map_some h
    simp only [skel, filtElems_skel c t vs x hx]
  | .leaf l, v', h => by
    simp only [filtElemTarget] at h
    obtain ⟨l', hl, rfl⟩ := map_some h
    simp only [skel, filterStr_skel hl]
  | .leaves ls, v', h => by
    simp only [filtElemTarget] at h
    obtain ⟨l', hl, rfl⟩ := map_some h
    simp only [skel, filterStrs_skel hl]
  | .nilPtr, v', h => by simp only [filtElemTarget, Option.some.injEq] at h; subst h; rfl
  | .ptr v, v', h => by simp only [filtElemTarget, Option.some.injEq] at h; subst h; rfl
  | .iface v, v', h => by simp only [filtElemTarget, Option.some.injEq] at h; subst h; rfl
termination_by structural x _ _ => x

theorem filtEntries_skel (c : Ctx) : (es es' : Items) → filtEntries c es = some es' → skelI es' = skelI es
  | .nil, es', h => by
    simp only [filtEntries, Option.some.injEq] at h
    subst h; rfl
  | .cons hd v rest, es', h => by
    simp only [filtEntries] at h
    split at h
    · rename_i v' r hv hr
      cases h
      simp only [skelI, filtEntry_skel c v v' hv, filtEntries_skel c rest r hr]
    · cases h
termination_by structural x _ _ => x

theorem filtEntry_skel (c : Ctx) : (v v' : V) → filtEntry c v = some v' → skel v' = skel v
  | .leaf l, v', h => by
    simp only [filtEntry] at h
    obtain ⟨l', hl, rfl⟩ := map_some h
    simp only [skel, filterStr_skel hl]
  | .leaves ls, v', h => by
    simp only [filtEntry] at h
    obtain ⟨l', hl, rfl⟩ := map_some h
    simp only [skel, filterStrs_skel hl]
  | .struct fs, v', h => by
    simp only [filtEntry] at h
    obtain ⟨x, hx, rfl⟩ := map_some h
    simp only [skel, filtFields_skel c true fs x hx]
  | .map es, v', h => by
    simp only [filtEntry] at h
    obtain ⟨x, hx, rfl⟩ := map_some h
    simp only [skel, filtEntries_skel c es x hx]
  | .slice vs, v', h => by
    simp only [filtEntry] at h
    obtain ⟨x, hx, rfl⟩ := map_some h
    simp only [skel, filtMapSlice_skel c vs x hx]
  | .ptr w, v', h => by
    simp only [filtEntry] at h
    obtain ⟨x, hx, rfl⟩ := map_some h
    simp only [skel, filtEntryTarget_skel c w x hx]
  | .iface v, v', h => by
    simp only [filtEntry] at h
    obtain ⟨x, hx, rfl⟩ := map_some h
    simp only [skel, filtEntry_skel c v x hx]
  | .nilPtr, v', h => by simp only [filtEntry, Option.some.injEq] at h; subst h; rfl
termination_by structural x _ _ => x

theorem filtEntryTarget_skel (c : Ctx) : (v v' : V) → filtEntryTarget c v = some v' → skel v' = skel v
  | .struct fs, v', h => by
    simp only [filtEntryTarget] at h
    obtain ⟨x, hx, rfl⟩ := map_some h
    simp only [skel, filtFields_skel c true fs x hx]
  | .leaf l, v', h => by
    simp only [filtEntryTarget] at h
    obtain ⟨l', hl, rfl⟩ := map_some h
    simp only [skel, filterStr_skel hl]
  | .map es, v', h => by
    simp only [filtEntryTarget] at h
    obtain ⟨x, hx, rfl⟩ := map_some h
    simp only [skel, filtEntries_skel c es x hx]
  | .leaves ls, v', h => by
    simp only [filtEntryTarget] at h
    obtain ⟨l', hl, rfl⟩ := map_some h
    simp only [skel, filterStrs_skel hl]
  | .slice vs, v', h => by
    simp only [filtEntryTarget] at h
    obtain ⟨x, hx, rfl⟩ := map_some h
    simp only [skel, filtMapSlice_skel c vs x hx]
  | .nilPtr, v', h => by simp only [filtEntryTarget, Option.some.injEq] at h; subst h; rfl
  | .ptr v, v', h => by simp only [filtEntryTarget, Option.some.injEq] at h; subst h; rfl
  | .iface v, v', h => by simp only [filtEntryTarget, Option.some.injEq] at h; subst h; rfl
termination_by structural x _ _ => x

theorem filtMapSlice_skel (c : Ctx) : (vs vs' : Items) → filtMapSlice c vs = some vs' → skelI vs' = skelI vs
  | .nil, vs', h => by
    simp only [filtMapSlice, Option.some.injEq] at h
    subst h; rfl
  | .cons hd v rest, vs', h => by
    simp only [filtMapSlice] at h
    split at h
    · rename_i v' r hv hr
      cases h
      simp only [skelI, filtMapElem_skel c v v' hv, filtMapSlice_skel c rest r hr]
    · cases h
termination_by structural x _ _ => x

theorem filtMapElem_skel (c : Ctx) : (v v' : V) → filtMapElem c v = some v' → skel v' = skel v
  | .struct fs, v', h => by
    simp only [filtMapElem] at h
    obtain ⟨x, hx, rfl⟩ := map_some h
    simp only [skel, filtFields_skel c true fs x hx]
  | .ptr w, v', h => by
    simp only [filtMapElem] at h
    obtain ⟨x, hx, rfl⟩ := map_some h
    simp only [skel, filtMapElemPtr_skel c w x hx]
  | .iface w, v', h => by
    simp only [filtMapElem] at h
    obtain ⟨x, hx, rfl⟩ := map_some h
    simp only [skel, filtMapElemIface_skel c w x hx]
  | .map es, v', h => by
    simp only [filtMapElem] at h
    obtain ⟨x, hx, rfl⟩ := map_some h
    simp only [skel, filtEntries_skel c es x hx]
  | .slice vs, v', h => by
    simp only [filtMapElem] at h
    obtain ⟨x, hx, rfl⟩ := map_some h
    simp only [skel, filtElems_skel c mapTag vs x hx]
  | .leaf l, v', h => by
    simp only [filtMapElem] at h
    obtain ⟨l', hl, rfl⟩ := map_some h
    simp only [skel, filterStr_skel hl]
  | .leaves ls, v', h => by
    simp only [filtMapElem] at h
    obtain ⟨l', hl, rfl⟩ := map_some h
    simp only [skel, filterStrs_skel hl]
  | .nilPtr, v', h => by simp only [filtMapElem, Option.some.injEq] at h; subst h; rfl
termination_by structural x _ _ => x

theorem filtMapElemPtr_skel (c : Ctx) : (v v' : V) → filtMapElemPtr c v = some v' → skel v' = skel v
  | .struct fs, v', h => by
    simp only [filtMapElemPtr] at h
    obtain ⟨x, hx, rfl⟩ := map_some h
    simp only [skel, filtFields_skel c true fs x hx]
  | .leaf l, v', h => by
    simp only [filtMapElemPtr] at h
    obtain ⟨l', hl, rfl⟩ := map_some h
    simp only [skel, filterStr_skel hl]
  | .leaves ls, v', h => by
    simp only [filtMapElemPtr] at h
    obtain ⟨l', hl, rfl⟩ := map_some h
    simp only [skel, filterStrs_skel hl]
  | .slice vs, v', h => by
    simp only [filtMapElemPtr] at h
    obtain ⟨x, hx, rfl⟩ := map_some h
    simp only [skel, filtElems_skel c mapTag vs x hx]
  | .map es, v', h => by
    simp only [filtMapElemPtr] at h
    obtain ⟨x, hx, rfl⟩ := map_some h
    simp only [skel, filtEntries_skel c es x hx]
  | .nilPtr, v', h => by simp only [filtMapElemPtr, Option.some.injEq] at h; subst h; rfl
  | .ptr v, v', h => by simp only [filtMapElemPtr, Option.some.injEq] at h; subst h; rfl
  | .iface v, v', h => by simp only [filtMapElemPtr, Option.some.injEq] at h; subst h; rfl
termination_by structural x _ _ => x

theorem filtMapElemIface_skel (c : Ctx) : (v v' : V) → filtMapElemIface c v = some v' → skel v' = skel v
  | .struct fs, v', h => by
    simp only [filtMapElemIface] at h
    obtain ⟨x, hx, rfl⟩ := map_some h
    simp only [skel, filtFields_skel c true fs x hx]
  | .ptr w, v', h => by
    simp only [filtMapElemIface] at h
    obtain ⟨x, hx, rfl⟩ := map_some h
    simp only [skel, filtMapElemPtr_skel c w x hx]
  | .map es, v', h => by
    simp only [filtMapElemIface] at h
    obtain ⟨x, hx, rfl⟩ := map_some h
    simp only [skel, filtEntries_skel c es x hx]
  | .leaf l, v', h => by
    simp only [filtMapElemIface] at h
    obtain ⟨l', hl, rfl⟩ := map_some h
    simp only [skel, filterStr_skel hl]
  | .leaves ls, v', h => by
    simp only [filtMapElemIface] at h
    obtain ⟨l', hl, rfl⟩ := map_some h
    simp only [skel, filterStrs_skel hl]
  | .slice vs, v', h => by
    simp only [filtMapElemIface] at h
    obtain ⟨x, hx, rfl⟩ := map_some h
    simp only [skel, filtElems_skel c mapTag vs x hx]
  | .nilPtr, v', h => by simp only [filtMapElemIface, Option.some.injEq] at h; subst h; rfl
  | .iface v, v', h => by simp only [filtMapElemIface, Option.some.injEq] at h; subst h; rfl
termination_by structural x _ _ => x

end

end Evl.EncryptTree


namespace Evl.EncryptTree
open Evl.Encrypt

mutual
/-- the plaintexts readable in a value -/
def plains : V → List Nat
  | .leaf l => leafPlain l
  | .leaves ls => ls.flatMap leafPlain
  | .nilPtr => []
  | .ptr v => plains v
  | .iface v => plains v
  | .struct fs => plainsI fs
  | .slice vs => plainsI vs
  | .map es => plainsI es
def plainsI : Items → List Nat
  | .nil => []
  | .cons _ v rest => plains v ++ plainsI rest
end

/-- nothing readable in it -/
def clean (v : V) : Bool := (plains v).isEmpty
def cleanLeaf (l : Leaf) : Bool := (leafPlain l).isEmpty

theorem clean_iff {v : V} : clean v = true ↔ plains v = [] := by simp [clean]
theorem cleanLeaf_iff {l : Leaf} : cleanLeaf l = true ↔ leafPlain l = [] := by simp [cleanLeaf]

/-- the tag protects: the value is not kept as it is -/
def protects (t : TagInfo) : Bool := action t != .keep

mutual
/-- *Guarded*: every string / []byte position of the value is reached addressably and under a
protecting tag (or holds nothing readable) — mirrors the traversal of `filtV` -/
def guardedV (c : Ctx) (t : TagInfo) (addr : Bool) : V → Bool
  | .leaf l => cleanLeaf l || (protects t && addr)
  | .leaves ls => ls.all cleanLeaf || protects t
  | .nilPtr => true
  | .ptr v => guardedV c t true v
  | .iface v => guardedIface c t addr v
  | .struct fs => guardedFields c addr fs
  | .slice vs => guardedElems c t vs
  | .map es => guardedEntries c es
def guardedIface (c : Ctx) (t : TagInfo) (addr : Bool) : V → Bool
  | .ptr v => guardedV c t true v
  | .leaf l => cleanLeaf l || (protects t && addr)
  | .struct fs => guardedFields c addr fs
  | .leaves ls => ls.all cleanLeaf || protects t
  | .slice vs => guardedElems c t vs
  | .map es => guardedEntries c es
  | .nilPtr => true
  | .iface v => clean v
def guardedFields (c : Ctx) (addr : Bool) : Items → Bool
  | .nil => true
  | .cons (.field ex tag) v rest =>
    (if !ex then clean v else guardedV c (fromTag tag c.ov) addr v) && guardedFields c addr rest
  | .cons .elem v rest => clean v && guardedFields c addr rest
  | .cons (.key _) v rest => clean v && guardedFields c addr rest
def guardedElems (c : Ctx) (t : TagInfo) : Items → Bool
  | .nil => true
  | .cons _ v rest => guardedElem c t v && guardedElems c t rest
def guardedElem (c : Ctx) (t : TagInfo) : V → Bool
  | .ptr w => guardedElemTarget c t w
  | .struct fs => guardedFields c true fs
  | .map es => guardedEntries c es
  | .slice vs => guardedElems c t vs
  | .leaf l => cleanLeaf l || (protects t && true)
  | .leaves ls => ls.all cleanLeaf || protects t
  | .nilPtr => true
  | .iface v => guardedElemIface c t v
def guardedElemIface (c : Ctx) (t : TagInfo) : V → Bool
  | .ptr w => guardedElemTarget c t w
  | .struct fs => guardedFields c true fs
  | .map es => guardedEntries c es
  | .slice vs => guardedElems c t vs
  | .leaf l => cleanLeaf l || (protects t && true)
  | .leaves ls => ls.all cleanLeaf || protects t
  | .nilPtr => true
  | .iface v => clean v
def guardedElemTarget (c : Ctx) (t : TagInfo) : V → Bool
  | .struct fs => guardedFields c true fs
  | .map es => guardedEntries c es
  | .slice vs => guardedElems c t vs
  | .leaf l => cleanLeaf l || (protects t && true)
  | .leaves ls => ls.all cleanLeaf || protects t
  | .nilPtr => true
  | .ptr v => clean v
  | .iface v => clean v
def guardedEntries (c : Ctx) : Items → Bool
  | .nil => true
  | .cons _ v rest => guardedEntry c v && guardedEntries c rest
def guardedEntry (c : Ctx) : V → Bool
  | .leaf _ => true                     -- unclassified: always redacted
  | .leaves _ => true
  | .struct fs => guardedFields c true fs
  | .map es => guardedEntries c es
  | .slice vs => guardedMapSlice c vs
  | .ptr w => guardedEntryTarget c w
  | .iface v => guardedEntry c v
  | .nilPtr => true
def guardedEntryTarget (c : Ctx) : V → Bool
  | .struct fs => guardedFields c true fs
  | .leaf _ => true
  | .map es => guardedEntries c es
  | .leaves _ => true
  | .slice vs => guardedMapSlice c vs
  | .nilPtr => true
  | .ptr v => clean v
  | .iface v => clean v
def guardedMapSlice (c : Ctx) : Items → Bool
  | .nil => true
  | .cons _ v rest => guardedMapElem c v && guardedMapSlice c rest
def guardedMapElem (c : Ctx) : V → Bool
  | .struct fs => guardedFields c true fs
  | .ptr w => guardedMapElemPtr c w
  | .iface w => guardedMapElemIface c w
  | .map es => guardedEntries c es
  | .slice vs => guardedElems c mapTag vs
  | .leaf l => cleanLeaf l || (protects mapTag && true)
  | .leaves ls => ls.all cleanLeaf || protects mapTag
  | .nilPtr => true
def guardedMapElemPtr (c : Ctx) : V → Bool
  | .struct fs => guardedFields c true fs
  | .leaf l => cleanLeaf l || (protects mapTag && true)
  | .leaves ls => ls.all cleanLeaf || protects mapTag
  | .slice vs => guardedElems c mapTag vs
  | .map es => guardedEntries c es
  | .nilPtr => true
  | .ptr v => clean v
  | .iface v => clean v
def guardedMapElemIface (c : Ctx) : V → Bool
  | .struct fs => guardedFields c true fs
  | .ptr w => guardedMapElemPtr c w
  | .map es => guardedEntries c es
  | .leaf l => cleanLeaf l || (protects mapTag && true)
  | .leaves ls => ls.all cleanLeaf || protects mapTag
  | .slice vs => guardedElems c mapTag vs
  | .nilPtr => true
  | .iface v => clean v
end

/-! leaf level -/

theorem filterStr_clean {c : Ctx} {a : Action} {s : Bool} {l l' : Leaf} (h : filterStr c a s l = some l')
    (g : leafPlain l = [] ∨ (a ≠ .keep ∧ s = true)) : leafPlain l' = [] := by
  unfold filterStr at h
  cases l with
  | plain m =>
    simp only at h
    rcases g with g | ⟨g1, g2⟩
    · simp [leafPlain] at g
    · simp only [g1, if_false, g2, Bool.not_true, Bool.false_eq_true] at h
      rcases filterLeaf_cases h with ⟨hk, _⟩ | ⟨_, h2, _⟩
      · exact absurd hk g1
      · exact h2
  | nilBytes => cases h; rfl
  | redacted => cases h; rfl
  | enc _ _ => cases h; rfl
  | mac _ _ _ _ => cases h; rfl
  | other => cases h; rfl

theorem mapM_clean {c : Ctx} {a : Action} (ha : a ≠ .keep) (ls : List Leaf) :
    ∀ ls', ls.mapM (filterStr c a true) = some ls' → ls'.flatMap leafPlain = [] := by
  induction ls with
  | nil => intro ls' h; simp at h; subst h; rfl
  | cons x xs ih =>
    intro ls' h
    simp only [List.mapM_cons, Option.bind_eq_bind, Option.bind_eq_some_iff, Option.pure_def, Option.some.injEq] at h
    obtain ⟨y, hy, ys, hys, rfl⟩ := h
    simp only [List.flatMap_cons, filterStr_clean hy (Or.inr ⟨ha, rfl⟩), ih ys hys, List.append_nil]

theorem mapM_all_clean {c : Ctx} {a : Action} (ls : List Leaf) :
    ∀ ls', ls.mapM (filterStr c a true) = some ls' → ls.all cleanLeaf = true → ls'.flatMap leafPlain = [] := by
  induction ls with
  | nil => intro ls' h _; simp at h; subst h; rfl
  | cons x xs ih =>
    intro ls' h g
    simp only [List.mapM_cons, Option.bind_eq_bind, Option.bind_eq_some_iff, Option.pure_def, Option.some.injEq] at h
    obtain ⟨y, hy, ys, hys, rfl⟩ := h
    simp only [List.all_cons, Bool.and_eq_true] at g
    simp only [List.flatMap_cons, filterStr_clean hy (Or.inl (cleanLeaf_iff.mp g.1)), ih ys hys g.2, List.append_nil]

theorem action_pub {t : TagInfo} (h : t.cls = .pub) : action t = .keep := by
  unfold action; simp [h]

theorem all_clean_flatMap {ls : List Leaf} (h : ls.all cleanLeaf = true) : ls.flatMap leafPlain = [] := by
  induction ls with
  | nil => rfl
  | cons x xs ih =>
    simp only [List.all_cons, Bool.and_eq_true] at h
    simp only [List.flatMap_cons, cleanLeaf_iff.mp h.1, ih h.2, List.append_nil]

theorem filterStrs_clean {c : Ctx} {t : TagInfo} {ls ls' : List Leaf} (h : filterStrs c t ls = some ls')
    (g : (ls.all cleanLeaf || protects t) = true) : ls'.flatMap leafPlain = [] := by
  unfold filterStrs at h
  simp only [Bool.or_eq_true] at g
  split at h
  · rename_i hp
    cases h
    rcases g with g | g
    · exact all_clean_flatMap g
    · simp [protects, action_pub hp] at g
  · rcases g with g | g
    · exact mapM_all_clean ls ls' h g
    · exact mapM_clean (by simpa [protects] using g) ls ls' h

theorem mapTag_protects : action mapTag ≠ .keep := by decide

mutual
theorem filtV_clean (c : Ctx) (t : TagInfo) (a : Bool) : (v v' : V) → filtV c t a v = some v' → guardedV c t a v = true → plains v' = []
  | .leaf l, v', h, g => by
    simp only [filtV] at h
    obtain ⟨l', hl, rfl⟩ := map_some h
    simp only [guardedV, Bool.or_eq_true, Bool.and_eq_true] at g
    simp only [plains]
    rcases g with g | ⟨g1, g2⟩
    · exact filterStr_clean hl (Or.inl (cleanLeaf_iff.mp g))
    · exact filterStr_clean hl (Or.inr ⟨by simpa [protects] using g1, g2⟩)
  | .leaves ls, v', h, g => by
    simp only [filtV] at h
    obtain ⟨l', hl, rfl⟩ := map_some h
    simp only [guardedV] at g
    simp only [plains]
    exact filterStrs_clean hl g
  | .nilPtr, v', h, _ => by
    simp only [filtV, Option.some.injEq] at h
    subst h; rfl
  | .ptr v, v', h, g => by
    simp only [filtV] at h
    obtain ⟨x, hx, rfl⟩ := map_some h
    simp only [guardedV] at g
    simp only [plains, filtV_clean c t true v x hx g]
  | .iface v, v', h, g => by
    simp only [filtV] at h
    obtain ⟨x, hx, rfl⟩ := map_some h
    simp only [guardedV] at g
    simp only [plains, filtIface_clean c t a v x hx g]
  | .struct fs, v', h, g => by
    simp only [filtV] at h
    obtain ⟨x, hx, rfl⟩ := map_some h
    simp only [guardedV] at g
    simp only [plains, filtFields_clean c a fs x hx g]
  | .slice vs, v', h, g => by
    simp only [filtV] at h
    obtain ⟨x, hx, rfl⟩ := map_some h
    simp only [guardedV] at g
    simp only [plains, filtElems_clean c t vs x hx g]
  | .map es, v', h, g => by
    simp only [filtV] at h
    obtain ⟨x, hx, rfl⟩ := map_some h
    simp only [guardedV] at g
    simp only [plains, filtEntries_clean c es x hx g]
termination_by structural x _ _ _ => x
theorem filtIface_clean (c : Ctx) (t : TagInfo) (a : Bool) : (v v' : V) → filtIface c t a v = some v' → guardedIface c t a v = true → plains v' = []
  | .ptr v, v', h, g => by
    simp only [filtIface] at h
    obtain ⟨x, hx, rfl⟩ := map_some h
    simp only [guardedIface] at g
    simp only [plains, filtV_clean c t true v x hx g]
  | .leaf l, v', h, g => by
    simp only [filtIface] at h
    obtain ⟨l', hl, rfl⟩ := map_some h
    simp only [guardedIface, Bool.or_eq_true, Bool.and_eq_true] at g
    simp only [plains]
    rcases g with g | ⟨g1, g2⟩
    · exact filterStr_clean hl (Or.inl (cleanLeaf_iff.mp g))
    · exact filterStr_clean hl (Or.inr ⟨by simpa [protects] using g1, g2⟩)
  | .struct fs, v', h, g => by
    simp only [filtIface] at h
    obtain ⟨x, hx, rfl⟩ := map_some h
    simp only [guardedIface] at g
    simp only [plains, filtFields_clean c a fs x hx g]
  | .leaves ls, v', h, g => by
    simp only [filtIface] at h
    obtain ⟨l', hl, rfl⟩ := map_some h
    simp only [guardedIface] at g
    simp only [plains]
    exact filterStrs_clean hl g
  | .slice vs, v', h, g => by
    simp only [filtIface] at h
    obtain ⟨x, hx, rfl⟩ := map_some h
    simp only [guardedIface] at g
    simp only [plains, filtElems_clean c t vs x hx g]
  | .map es, v', h, g => by
    simp only [filtIface] at h
    obtain ⟨x, hx, rfl⟩ := map_some h
    simp only [guardedIface] at g
    simp only [plains, filtEntries_clean c es x hx g]
  | .nilPtr, v', h, _ => by
    simp only [filtIface, Option.some.injEq] at h
    subst h; rfl
  | .iface v, v', h, g => by
    simp only [filtIface, Option.some.injEq] at h
    subst h
    simp only [guardedIface] at g
    simpa [plains] using clean_iff.mp g
termination_by structural x _ _ _ => x
theorem filtFields_clean (c : Ctx) (a : Bool) : (fs fs' : Items) → filtFields c a fs = some fs' → guardedFields c a fs = true → plainsI fs' = []
  | .nil, fs', h, _ => by
    simp only [filtFields, Option.some.injEq] at h
    subst h; rfl
  | .cons (.field ex tag) v rest, fs', h, g => by
    simp only [filtFields] at h
    simp only [guardedFields, Bool.and_eq_true] at g
    split at h
    · rename_i hex
      obtain ⟨r, hr, rfl⟩ := map_some h
      simp only [hex, if_true] at g
      simp only [plainsI, clean_iff.mp g.1, filtFields_clean c a rest r hr g.2, List.append_nil]
    · rename_i hex
      split at h
      · rename_i v' r hv hr
        cases h
        simp only [hex, if_false] at g
        simp only [plainsI, filtV_clean c _ a v v' hv g.1, filtFields_clean c a rest r hr g.2, List.append_nil]
      · cases h
  | .cons .elem v rest, fs', h, g => by
    simp only [filtFields] at h
    obtain ⟨r, hr, rfl⟩ := map_some h
    simp only [guardedFields, Bool.and_eq_true] at g
    simp only [plainsI, clean_iff.mp g.1, filtFields_clean c a rest r hr g.2, List.append_nil]
  | .cons (.key k) v rest, fs', h, g => by
    simp only [filtFields] at h
    obtain ⟨r, hr, rfl⟩ := map_some h
    simp only [guardedFields, Bool.and_eq_true] at g
    simp only [plainsI, clean_iff.mp g.1, filtFields_clean c a rest r hr g.2, List.append_nil]
termination_by structural x _ _ _ => x
theorem filtElems_clean (c : Ctx) (t : TagInfo) : (vs vs' : Items) → filtElems c t vs = some vs' → guardedElems c t vs = true → plainsI vs' = []
  | .nil, vs', h, _ => by
    simp only [filtElems, Option.some.injEq] at h
    subst h; rfl
  | .cons hd v rest, vs', h, g => by
    simp only [filtElems] at h
    simp only [guardedElems, Bool.and_eq_true] at g
    split at h
    · rename_i v' r hv hr
      cases h
      simp only [plainsI, filtElem_clean c t v v' hv g.1, filtElems_clean c t rest r hr g.2, List.append_nil]
    · cases h
termination_by structural x _ _ _ => x
theorem filtElem_clean (c : Ctx) (t : TagInfo) : (v v' : V) → filtElem c t v = some v' → guardedElem c t v = true → plains v' = []
  | .ptr w, v', h, g => by
    simp only [filtElem] at h
    obtain ⟨x, hx, rfl⟩ := map_some h
    simp only [guardedElem] at g
    simp only [plains, filtElemTarget_clean c t w x hx g]
  | .struct fs, v', h, g => by
    simp only [filtElem] at h
    obtain ⟨x, hx, rfl⟩ := map_some h
    simp only [guardedElem] at g
    simp only [plains, filtFields_clean c true fs x hx g]
  | .map es, v', h, g => by
    simp only [filtElem] at h
    obtain ⟨x, hx, rfl⟩ := map_some h
    simp only [guardedElem] at g
    simp only [plains, filtEntries_clean c es x hx g]
  | .slice vs, v', h, g => by
    simp only [filtElem] at h
    obtain ⟨x, hx, rfl⟩ := map_some h
    simp only [guardedElem] at g
    simp only [plains, filtElems_clean c t vs x hx g]
  | .leaf l, v', h, g => by
    simp only [filtElem] at h
    obtain ⟨l', hl, rfl⟩ := map_some h
    simp only [guardedElem, Bool.or_eq_true, Bool.and_eq_true] at g
    simp only [plains]
    rcases g with g | ⟨g1, g2⟩
    · exact filterStr_clean hl (Or.inl (cleanLeaf_iff.mp g))
    · exact filterStr_clean hl (Or.inr ⟨by simpa [protects] using g1, rfl⟩)
  | .leaves ls, v', h, g => by
    simp only [filtElem] at h
    obtain ⟨l', hl, rfl⟩ := map_some h
    simp only [guardedElem] at g
    simp only [plains]
    exact filterStrs_clean hl g
  | .nilPtr, v', h, _ => by
    simp only [filtElem, Option.some.injEq] at h
    subst h; rfl
  | .iface v, v', h, g => by
    simp only [filtElem] at h
    obtain ⟨x, hx, rfl⟩ := map_some h
    simp only [guardedElem] at g
    simp only [plains, filtElemIface_clean c t v x hx g]
termination_by structural x _ _ _ => x
theorem filtElemIface_clean (c : Ctx) (t : TagInfo) : (v v' : V) → filtElemIface c t v = some v' → guardedElemIface c t v = true → plains v' = []
  | .ptr w, v', h, g => by
    simp only [filtElemIface] at h
    obtain ⟨x, hx, rfl⟩ := map_some h
    simp only [guardedElemIface] at g
    simp only [plains, filtElemTarget_clean c t w x hx g]
  | .struct fs, v', h, g => by
    simp only [filtElemIface] at h
    obtain ⟨x, hx, rfl⟩ := map_some h
    simp only [guardedElemIface] at g
    simp only [plains, filtFields_clean c true fs x hx g]
  | .map es, v', h, g => by
    simp only [filtElemIface] at h
    obtain ⟨x, hx, rfl⟩ := map_some h
    simp only [guardedElemIface] at g
    simp only [plains, filtEntries_clean c es x hx g]
  | .slice vs, v', h, g => by
    simp only [filtElemIface] at h
    obtain ⟨x, hx, rfl⟩ := map_some h
    simp only [guardedElemIface] at g
    simp only [plains, filtElems_clean c t vs x hx g]
  | .leaf l, v', h, g => by
    simp only [filtElemIface] at h
    obtain ⟨l', hl, rfl⟩ := map_some h
    simp only [guardedElemIface, Bool.or_eq_true, Bool.and_eq_true] at g
    simp only [plains]
    rcases g with g | ⟨g1, g2⟩
    · exact filterStr_clean hl (Or.inl (cleanLeaf_iff.mp g))
    · exact filterStr_clean hl (Or.inr ⟨by simpa [protects] using g1, rfl⟩)
  | .leaves ls, v', h, g => by
    simp only [filtElemIface] at h
    obtain ⟨l', hl, rfl⟩ := map_some h
    simp only [guardedElemIface] at g
    simp only [plains]
    exact filterStrs_clean hl g
  | .nilPtr, v', h, _ => by
    simp only [filtElemIface, Option.some.injEq] at h
    subst h; rfl
  | .iface v, v', h, g => by
    simp only [filtElemIface, Option.some.injEq] at h
    subst h
    simp only [guardedElemIface] at g
    simpa [plains] using clean_iff.mp g
termination_by structural x _ _ _ => x
theorem filtElemTarget_clean (c : Ctx) (t : TagInfo) : (v v' : V) → filtElemTarget c t v = some v' → guardedElemTarget c t v = true → plains v' = []
  | .struct fs, v', h, g => by
    simp only [filtElemTarget] at h
    obtain ⟨x, hx, rfl⟩ := map_some h
    simp only [guardedElemTarget] at g
    simp only [plains, filtFields_clean c true fs x hx g]
  | .map es, v', h, g => by
    simp only [filtElemTarget] at h
    obtain ⟨x, hx, rfl⟩ := map_some h
    simp only [guardedElemTarget] at g
    simp only [plains, filtEntries_clean c es x hx g]
  | .slice vs, v', h, g => by
    simp only [filtElemTarget] at h
    obtain ⟨x, hx, rfl⟩ := map_some h
    simp only [guardedElemTarget] at g
    simp only [plains, filtElems_clean c t vs x hx g]
  | .leaf l, v', h, g => by
    simp only [filtElemTarget] at h
    obtain ⟨l', hl, rfl⟩ := map_some h
    simp only [guardedElemTarget, Bool.or_eq_true, Bool.and_eq_true] at g
    simp only [plains]
    rcases g with g | ⟨g1, g2⟩
    · exact filterStr_clean hl (Or.inl (cleanLeaf_iff.mp g))
    · exact filterStr_clean hl (Or.inr ⟨by simpa [protects] using g1, rfl⟩)
  | .leaves ls, v', h, g => by
    simp only [filtElemTarget] at h
    obtain ⟨l', hl, rfl⟩ := map_some h
    simp only [guardedElemTarget] at g
    simp only [plains]
    exact filterStrs_clean hl g
  | .nilPtr, v', h, _ => by
    simp only [filtElemTarget, Option.some.injEq] at h
    subst h; rfl
  | .ptr v, v', h, g => by
    simp only [filtElemTarget, Option.some.injEq] at h
    subst h
    simp only [guardedElemTarget] at g
    simpa [plains] using clean_iff.mp g
  | .iface v, v', h, g => by
    simp only [filtElemTarget, Option.some.injEq] at h
    subst h
    simp only [guardedElemTarget] at g
    simpa [plains] using clean_iff.mp g
termination_by structural x _ _ _ => x
theorem filtEntries_clean (c : Ctx) : (vs vs' : Items) → filtEntries c vs = some vs' → guardedEntries c vs = true → plainsI vs' = []
  | .nil, vs', h, _ => by
    simp only [filtEntries, Option.some.injEq] at h
    subst h; rfl
  | .cons hd v rest, vs', h, g => by
    simp only [filtEntries] at h
    simp only [guardedEntries, Bool.and_eq_true] at g
    split at h
    · rename_i v' r hv hr
      cases h
      simp only [plainsI, filtEntry_clean c v v' hv g.1, filtEntries_clean c rest r hr g.2, List.append_nil]
    · cases h
termination_by structural x _ _ _ => x
theorem filtEntry_clean (c : Ctx) : (v v' : V) → filtEntry c v = some v' → guardedEntry c v = true → plains v' = []
  | .leaf l, v', h, g => by
    simp only [filtEntry] at h
    obtain ⟨l', hl, rfl⟩ := map_some h
    simp only [guardedEntry] at g
    simp only [plains]
    exact filterStr_clean hl (Or.inr ⟨mapTag_protects, rfl⟩)
  | .leaves ls, v', h, g => by
    simp only [filtEntry] at h
    obtain ⟨l', hl, rfl⟩ := map_some h
    simp only [guardedEntry] at g
    simp only [plains]
    exact filterStrs_clean hl (by simp [protects, mapTag_protects])
  | .struct fs, v', h, g => by
    simp only [filtEntry] at h
    obtain ⟨x, hx, rfl⟩ := map_some h
    simp only [guardedEntry] at g
    simp only [plains, filtFields_clean c true fs x hx g]
  | .map es, v', h, g => by
    simp only [filtEntry] at h
    obtain ⟨x, hx, rfl⟩ := map_some h
    simp only [guardedEntry] at g
    simp only [plains, filtEntries_clean c es x hx g]
  | .slice vs, v', h, g => by
    simp only [filtEntry] at h
    obtain ⟨x, hx, rfl⟩ := map_some h
    simp only [guardedEntry] at g
    simp only [plains, filtMapSlice_clean c vs x hx g]
  | .ptr w, v', h, g => by
    simp only [filtEntry] at h
    obtain ⟨x, hx, rfl⟩ := map_some h
    simp only [guardedEntry] at g
    simp only [plains, filtEntryTarget_clean c w x hx g]
  | .iface v, v', h, g => by
    simp only [filtEntry] at h
    obtain ⟨x, hx, rfl⟩ := map_some h
    simp only [guardedEntry] at g
    simp only [plains, filtEntry_clean c v x hx g]
  | .nilPtr, v', h, _ => by
    simp only [filtEntry, Option.some.injEq] at h
    subst h; rfl
termination_by structural x _ _ _ => x
theorem filtEntryTarget_clean (c : Ctx) : (v v' : V) → filtEntryTarget c v = some v' → guardedEntryTarget c v = true → plains v' = []
  | .struct fs, v', h, g => by
    simp only [filtEntryTarget] at h
    obtain ⟨x, hx, rfl⟩ := map_some h
    simp only [guardedEntryTarget] at g
    simp only [plains, filtFields_clean c true fs x hx g]
  | .leaf l, v', h, g => by
    simp only [filtEntryTarget] at h
    obtain ⟨l', hl, rfl⟩ := map_some h
    simp only [guardedEntryTarget] at g
    simp only [plains]
    exact filterStr_clean hl (Or.inr ⟨mapTag_protects, rfl⟩)
  | .map es, v', h, g => by
    simp only [filtEntryTarget] at h
    obtain ⟨x, hx, rfl⟩ := map_some h
    simp only [guardedEntryTarget] at g
    simp only [plains, filtEntries_clean c es x hx g]
  | .leaves ls, v', h, _ => by
    simp only [filtEntryTarget] at h
    obtain ⟨l', hl, rfl⟩ := map_some h
    simp only [plains]
    exact filterStrs_clean hl (by simp [protects, mapTag_protects])
  | .slice vs, v', h, g => by
    simp only [filtEntryTarget] at h
    obtain ⟨x, hx, rfl⟩ := map_some h
    simp only [guardedEntryTarget] at g
    simp only [plains, filtMapSlice_clean c vs x hx g]
  | .nilPtr, v', h, _ => by
    simp only [filtEntryTarget, Option.some.injEq] at h
    subst h; rfl
  | .ptr v, v', h, g => by
    simp only [filtEntryTarget, Option.some.injEq] at h
    subst h
    simp only [guardedEntryTarget] at g
    simpa [plains] using clean_iff.mp g
  | .iface v, v', h, g => by
    simp only [filtEntryTarget, Option.some.injEq] at h
    subst h
    simp only [guardedEntryTarget] at g
    simpa [plains] using clean_iff.mp g
termination_by structural x _ _ _ => x
theorem filtMapSlice_clean (c : Ctx) : (vs vs' : Items) → filtMapSlice c vs = some vs' → guardedMapSlice c vs = true → plainsI vs' = []
  | .nil, vs', h, _ => by
    simp only [filtMapSlice, Option.some.injEq] at h
    subst h; rfl
  | .cons hd v rest, vs', h, g => by
    simp only [filtMapSlice] at h
    simp only [guardedMapSlice, Bool.and_eq_true] at g
    split at h
    · rename_i v' r hv hr
      cases h
      simp only [plainsI, filtMapElem_clean c v v' hv g.1, filtMapSlice_clean c rest r hr g.2, List.append_nil]
    · cases h
termination_by structural x _ _ _ => x
theorem filtMapElem_clean (c : Ctx) : (v v' : V) → filtMapElem c v = some v' → guardedMapElem c v = true → plains v' = []
  | .struct fs, v', h, g => by
    simp only [filtMapElem] at h
    obtain ⟨x, hx, rfl⟩ := map_some h
    simp only [guardedMapElem] at g
    simp only [plains, filtFields_clean c true fs x hx g]
  | .ptr w, v', h, g => by
    simp only [filtMapElem] at h
    obtain ⟨x, hx, rfl⟩ := map_some h
    simp only [guardedMapElem] at g
    simp only [plains, filtMapElemPtr_clean c w x hx g]
  | .iface w, v', h, g => by
    simp only [filtMapElem] at h
    obtain ⟨x, hx, rfl⟩ := map_some h
    simp only [guardedMapElem] at g
    simp only [plains, filtMapElemIface_clean c w x hx g]
  | .map es, v', h, g => by
    simp only [filtMapElem] at h
    obtain ⟨x, hx, rfl⟩ := map_some h
    simp only [guardedMapElem] at g
    simp only [plains, filtEntries_clean c es x hx g]
  | .slice vs, v', h, g => by
    simp only [filtMapElem] at h
    obtain ⟨x, hx, rfl⟩ := map_some h
    simp only [guardedMapElem] at g
    simp only [plains, filtElems_clean c mapTag vs x hx g]
  | .leaf l, v', h, g => by
    simp only [filtMapElem] at h
    obtain ⟨l', hl, rfl⟩ := map_some h
    simp only [guardedMapElem, Bool.or_eq_true, Bool.and_eq_true] at g
    simp only [plains]
    rcases g with g | ⟨g1, g2⟩
    · exact filterStr_clean hl (Or.inl (cleanLeaf_iff.mp g))
    · exact filterStr_clean hl (Or.inr ⟨by simpa [protects] using g1, rfl⟩)
  | .leaves ls, v', h, g => by
    simp only [filtMapElem] at h
    obtain ⟨l', hl, rfl⟩ := map_some h
    simp only [guardedMapElem] at g
    simp only [plains]
    exact filterStrs_clean hl g
  | .nilPtr, v', h, _ => by
    simp only [filtMapElem, Option.some.injEq] at h
    subst h; rfl
termination_by structural x _ _ _ => x
theorem filtMapElemPtr_clean (c : Ctx) : (v v' : V) → filtMapElemPtr c v = some v' → guardedMapElemPtr c v = true → plains v' = []
  | .struct fs, v', h, g => by
    simp only [filtMapElemPtr] at h
    obtain ⟨x, hx, rfl⟩ := map_some h
    simp only [guardedMapElemPtr] at g
    simp only [plains, filtFields_clean c true fs x hx g]
  | .leaf l, v', h, g => by
    simp only [filtMapElemPtr] at h
    obtain ⟨l', hl, rfl⟩ := map_some h
    simp only [guardedMapElemPtr, Bool.or_eq_true, Bool.and_eq_true] at g
    simp only [plains]
    rcases g with g | ⟨g1, g2⟩
    · exact filterStr_clean hl (Or.inl (cleanLeaf_iff.mp g))
    · exact filterStr_clean hl (Or.inr ⟨by simpa [protects] using g1, rfl⟩)
  | .leaves ls, v', h, g => by
    simp only [filtMapElemPtr] at h
    obtain ⟨l', hl, rfl⟩ := map_some h
    simp only [guardedMapElemPtr] at g
    simp only [plains]
    exact filterStrs_clean hl g
  | .slice vs, v', h, g => by
    simp only [filtMapElemPtr] at h
    obtain ⟨x, hx, rfl⟩ := map_some h
    simp only [guardedMapElemPtr] at g
    simp only [plains, filtElems_clean c mapTag vs x hx g]
  | .map es, v', h, g => by
    simp only [filtMapElemPtr] at h
    obtain ⟨x, hx, rfl⟩ := map_some h
    simp only [guardedMapElemPtr] at g
    simp only [plains, filtEntries_clean c es x hx g]
  | .nilPtr, v', h, _ => by
    simp only [filtMapElemPtr, Option.some.injEq] at h
    subst h; rfl
  | .ptr v, v', h, g => by
    simp only [filtMapElemPtr, Option.some.injEq] at h
    subst h
    simp only [guardedMapElemPtr] at g
    simpa [plains] using clean_iff.mp g
  | .iface v, v', h, g => by
    simp only [filtMapElemPtr, Option.some.injEq] at h
    subst h
    simp only [guardedMapElemPtr] at g
    simpa [plains] using clean_iff.mp g
termination_by structural x _ _ _ => x
theorem filtMapElemIface_clean (c : Ctx) : (v v' : V) → filtMapElemIface c v = some v' → guardedMapElemIface c v = true → plains v' = []
  | .struct fs, v', h, g => by
    simp only [filtMapElemIface] at h
    obtain ⟨x, hx, rfl⟩ := map_some h
    simp only [guardedMapElemIface] at g
    simp only [plains, filtFields_clean c true fs x hx g]
  | .ptr w, v', h, g => by
    simp only [filtMapElemIface] at h
    obtain ⟨x, hx, rfl⟩ := map_some h
    simp only [guardedMapElemIface] at g
    simp only [plains, filtMapElemPtr_clean c w x hx g]
  | .map es, v', h, g => by
    simp only [filtMapElemIface] at h
    obtain ⟨x, hx, rfl⟩ := map_some h
    simp only [guardedMapElemIface] at g
    simp only [plains, filtEntries_clean c es x hx g]
  | .leaf l, v', h, g => by
    simp only [filtMapElemIface] at h
    obtain ⟨l', hl, rfl⟩ := map_some h
    simp only [guardedMapElemIface, Bool.or_eq_true, Bool.and_eq_true] at g
    simp only [plains]
    rcases g with g | ⟨g1, g2⟩
    · exact filterStr_clean hl (Or.inl (cleanLeaf_iff.mp g))
    · exact filterStr_clean hl (Or.inr ⟨by simpa [protects] using g1, rfl⟩)
  | .leaves ls, v', h, g => by
    simp only [filtMapElemIface] at h
    obtain ⟨l', hl, rfl⟩ := map_some h
    simp only [guardedMapElemIface] at g
    simp only [plains]
    exact filterStrs_clean hl g
  | .slice vs, v', h, g => by
    simp only [filtMapElemIface] at h
    obtain ⟨x, hx, rfl⟩ := map_some h
    simp only [guardedMapElemIface] at g
    simp only [plains, filtElems_clean c mapTag vs x hx g]
  | .nilPtr, v', h, _ => by
    simp only [filtMapElemIface, Option.some.injEq] at h
    subst h; rfl
  | .iface v, v', h, g => by
    simp only [filtMapElemIface, Option.some.injEq] at h
    subst h
    simp only [guardedMapElemIface] at g
    simpa [plains] using clean_iff.mp g
termination_by structural x _ _ _ => x
end

/-! ### the payload level -/

def guardedTarget (c : Ctx) : V → Bool
  | .leaf l => cleanLeaf l || protects (payloadTag c)
  | .leaves ls => ls.all cleanLeaf || protects (payloadTag c)
  | .struct fs => guardedFields c true fs
  | .slice vs => guardedElems c (payloadTag c) vs
  | .map es => guardedEntries c es
  | .nilPtr => true
  | .ptr v => clean v
  | .iface v => clean v

/-- the payload is *guarded*: every string / []byte in it is reached addressably under a protecting
tag.  A struct passed by value is guarded only if it holds nothing to protect. -/
def guardedPayload (c : Ctx) : V → Bool
  | .ptr w => guardedTarget c w
  | .leaf _ => true
  | .leaves ls => ls.all cleanLeaf || protects (payloadTag c)
  | .struct fs => guardedFields c false fs
  | .slice vs => guardedElems c (payloadTag c) vs
  | .map es => guardedEntries c es
  | .nilPtr => true
  | .iface v => clean v

theorem filtPayloadTarget_clean (c : Ctx) (v v' : V) (h : filtPayloadTarget c v = some v') (g : guardedTarget c v = true) :
    plains v' = [] := by
  cases v with
  | leaf l =>
    simp only [filtPayloadTarget] at h
    obtain ⟨l', hl, rfl⟩ := map_some h
    simp only [guardedTarget, Bool.or_eq_true] at g
    simp only [plains]
    rcases g with g | g
    · exact filterStr_clean hl (Or.inl (cleanLeaf_iff.mp g))
    · exact filterStr_clean hl (Or.inr ⟨by simpa [protects] using g, rfl⟩)
  | leaves ls =>
    simp only [filtPayloadTarget] at h
    obtain ⟨l', hl, rfl⟩ := map_some h
    simp only [guardedTarget] at g
    simp only [plains]
    exact filterStrs_clean hl g
  | struct fs =>
    simp only [filtPayloadTarget] at h
    obtain ⟨x, hx, rfl⟩ := map_some h
    simp only [guardedTarget] at g
    simp only [plains, filtFields_clean c true fs x hx g]
  | slice vs =>
    simp only [filtPayloadTarget] at h
    obtain ⟨x, hx, rfl⟩ := map_some h
    simp only [guardedTarget] at g
    simp only [plains, filtElems_clean c (payloadTag c) vs x hx g]
  | map es =>
    simp only [filtPayloadTarget] at h
    obtain ⟨x, hx, rfl⟩ := map_some h
    simp only [guardedTarget] at g
    simp only [plains, filtEntries_clean c es x hx g]
  | nilPtr => simp only [filtPayloadTarget, Option.some.injEq] at h; subst h; rfl
  | ptr v =>
    simp only [filtPayloadTarget, Option.some.injEq] at h; subst h
    simp only [guardedTarget] at g
    simpa [plains] using clean_iff.mp g
  | iface v =>
    simp only [filtPayloadTarget, Option.some.injEq] at h; subst h
    simp only [guardedTarget] at g
    simpa [plains] using clean_iff.mp g

theorem filtPayload_clean (c : Ctx) (v v' : V) (h : filtPayload c v = some v') (g : guardedPayload c v = true) :
    plains v' = [] := by
  cases v with
  | ptr w =>
    simp only [filtPayload] at h
    obtain ⟨x, hx, rfl⟩ := map_some h
    simp only [guardedPayload] at g
    simp only [plains, filtPayloadTarget_clean c w x hx g]
  | leaf l =>
    simp only [filtPayload] at h
    split at h
    · rename_i hl
      cases h
      simpa [plains] using hl
    · cases h
  | leaves ls =>
    simp only [filtPayload] at h
    obtain ⟨l', hl, rfl⟩ := map_some h
    simp only [guardedPayload] at g
    simp only [plains]
    exact filterStrs_clean hl g
  | struct fs =>
    simp only [filtPayload] at h
    obtain ⟨x, hx, rfl⟩ := map_some h
    simp only [guardedPayload] at g
    simp only [plains, filtFields_clean c false fs x hx g]
  | slice vs =>
    simp only [filtPayload] at h
    obtain ⟨x, hx, rfl⟩ := map_some h
    simp only [guardedPayload] at g
    simp only [plains, filtElems_clean c (payloadTag c) vs x hx g]
  | map es =>
    simp only [filtPayload] at h
    obtain ⟨x, hx, rfl⟩ := map_some h
    simp only [guardedPayload] at g
    simp only [plains, filtEntries_clean c es x hx g]
  | nilPtr => simp only [filtPayload, Option.some.injEq] at h; subst h; rfl
  | iface v =>
    simp only [filtPayload, Option.some.injEq] at h; subst h
    simp only [guardedPayload] at g
    simpa [plains] using clean_iff.mp g

theorem filtPayloadTarget_skel (c : Ctx) (v v' : V) (h : filtPayloadTarget c v = some v') : skel v' = skel v := by
  cases v with
  | leaf l =>
    simp only [filtPayloadTarget] at h
    obtain ⟨l', hl, rfl⟩ := map_some h
    simp only [skel, filterStr_skel hl]
  | leaves ls =>
    simp only [filtPayloadTarget] at h
    obtain ⟨l', hl, rfl⟩ := map_some h
    simp only [skel, filterStrs_skel hl]
  | struct fs =>
    simp only [filtPayloadTarget] at h
    obtain ⟨x, hx, rfl⟩ := map_some h
    simp only [skel, filtFields_skel c true fs x hx]
  | slice vs =>
    simp only [filtPayloadTarget] at h
    obtain ⟨x, hx, rfl⟩ := map_some h
    simp only [skel, filtElems_skel c (payloadTag c) vs x hx]
  | map es =>
    simp only [filtPayloadTarget] at h
    obtain ⟨x, hx, rfl⟩ := map_some h
    simp only [skel, filtEntries_skel c es x hx]
  | nilPtr => simp only [filtPayloadTarget, Option.some.injEq] at h; subst h; rfl
  | ptr v => simp only [filtPayloadTarget, Option.some.injEq] at h; subst h; rfl
  | iface v => simp only [filtPayloadTarget, Option.some.injEq] at h; subst h; rfl

theorem filtPayload_skel (c : Ctx) (v v' : V) (h : filtPayload c v = some v') : skel v' = skel v := by
  cases v with
  | ptr w =>
    simp only [filtPayload] at h
    obtain ⟨x, hx, rfl⟩ := map_some h
    simp only [skel, filtPayloadTarget_skel c w x hx]
  | leaf l =>
    simp only [filtPayload] at h
    split at h
    · cases h; rfl
    · cases h
  | leaves ls =>
    simp only [filtPayload] at h
    obtain ⟨l', hl, rfl⟩ := map_some h
    simp only [skel, filterStrs_skel hl]
  | struct fs =>
    simp only [filtPayload] at h
    obtain ⟨x, hx, rfl⟩ := map_some h
    simp only [skel, filtFields_skel c false fs x hx]
  | slice vs =>
    simp only [filtPayload] at h
    obtain ⟨x, hx, rfl⟩ := map_some h
    simp only [skel, filtElems_skel c (payloadTag c) vs x hx]
  | map es =>
    simp only [filtPayload] at h
    obtain ⟨x, hx, rfl⟩ := map_some h
    simp only [skel, filtEntries_skel c es x hx]
  | nilPtr => simp only [filtPayload, Option.some.injEq] at h; subst h; rfl
  | iface v => simp only [filtPayload, Option.some.injEq] at h; subst h; rfl

theorem process_filtered {c : Ctx} {ewi : Bool} {v v' : V} (h : process c ewi v = .filtered v') :
    filtPayload c v = some v' := by
  unfold process at h
  split at h
  · cases h
  · split at h
    · cases h
    · split at h
      · cases h
      · split at h
        · rename_i x hx
          cases h; exact hx
        · cases h

end Evl.EncryptTree
