import Evl.Lemmas.Gated
/-!
The per-id queue specification of the gate, and the lemmas that relate M6 `Gated` to it.

Specification state: for every id, the uids received since that id's group was opened, in arrival
order (`Spec = Nat → List Nat`).  Two actions: `arrive id uid` appends; `release id evs` is *enabled
only if* `evs` is exactly what is pending for the id (and is not empty), and empties the id.
A list of actions that the specification can run (`specRun … = some _`) is therefore a history in
which every composition received exactly the events of one id received since the id's group was
opened, in arrival order, each once.
-/
namespace Evl.Gated

abbrev Spec := Nat → List Nat

inductive Act
  | arrive (id uid : Nat)
  | release (id : Nat) (evs : List Nat)
  deriving DecidableEq, Repr, Inhabited

def specStep (p : Spec) : Act → Option Spec
  | .arrive id uid => some (fun j => if j = id then p j ++ [uid] else p j)
  | .release id evs => if p id = evs ∧ evs ≠ [] then some (fun j => if j = id then [] else p j) else none

def specRun : Spec → List Act → Option Spec
  | p, [] => some p
  | p, a :: rest => match specStep p a with
    | some p' => specRun p' rest
    | none => none

theorem specRun_append (p : Spec) (a b : List Act) :
    specRun p (a ++ b) = (specRun p a).bind (fun q => specRun q b) := by
  induction a generalizing p with
  | nil => simp [specRun]
  | cons x rest ih =>
    simp only [List.cons_append, specRun]
    cases specStep p x with
    | none => simp
    | some q => exact ih q

/-- abstraction map: what the gate holds for id `j` -/
def pend (gs : List Group) (j : Nat) : List Nat := (gs.filter (fun g => g.id == j)).flatMap (·.evs)

structure Wf (gs : List Group) : Prop where
  nodup : (gs.map (·.id)).Nodup
  nonempty : ∀ g ∈ gs, g.evs ≠ []

theorem wf_nil : Wf [] := ⟨by simp, by simp⟩

@[simp] theorem pend_nil (j : Nat) : pend [] j = [] := rfl

theorem pend_append (a b : List Group) (j : Nat) : pend (a ++ b) j = pend a j ++ pend b j := by
  simp [pend, List.filter_append, List.flatMap_append]

theorem pend_cons (g : Group) (gs : List Group) (j : Nat) :
    pend (g :: gs) j = (if g.id = j then g.evs else []) ++ pend gs j := by
  unfold pend
  by_cases h : g.id = j
  · simp [List.filter_cons, h]
  · simp [List.filter_cons, h]

theorem pend_not_mem {gs : List Group} {j : Nat} (h : j ∉ gs.map (·.id)) : pend gs j = [] := by
  induction gs with
  | nil => rfl
  | cons g rest ih =>
    simp only [List.map_cons, List.mem_cons, not_or] at h
    rw [pend_cons, ih h.2]
    have : ¬ g.id = j := fun e => h.1 e.symm
    simp [this]

/-- removing the one group of an id from a well-formed gate: the group held exactly what was pending
for its id, and the rest is the specification state with that id emptied -/
theorem pend_remove {pre rest : List Group} {g : Group} (h : Wf (pre ++ g :: rest)) :
    pend (pre ++ g :: rest) g.id = g.evs ∧ g.evs ≠ [] ∧
    (fun j => if j = g.id then [] else pend (pre ++ g :: rest) j) = pend (pre ++ rest) ∧
    Wf (pre ++ rest) := by
  have hnd := h.nodup
  simp only [List.map_append, List.map_cons] at hnd
  have hnd' := List.nodup_append.mp hnd
  obtain ⟨hpre, hgr, hdisj⟩ := hnd'
  have hg_rest : g.id ∉ rest.map (·.id) := (List.nodup_cons.mp hgr).1
  have hg_pre : g.id ∉ pre.map (·.id) := by
    intro hm
    exact hdisj _ hm _ (List.mem_cons_self) rfl
  refine ⟨?_, ?_, ?_, ?_⟩
  · rw [pend_append, pend_cons, pend_not_mem hg_pre, pend_not_mem hg_rest]; simp
  · exact h.nonempty g (by simp)
  · funext j
    by_cases hj : j = g.id
    · subst hj
      simp only [if_true]
      rw [pend_append, pend_not_mem hg_pre, pend_not_mem hg_rest]; rfl
    · simp only [hj, if_false]
      rw [pend_append, pend_append, pend_cons]
      have : ¬ g.id = j := fun e => hj e.symm
      simp [this]
  · refine ⟨?_, ?_⟩
    · simp only [List.map_append]
      refine List.nodup_append.mpr ⟨hpre, (List.nodup_cons.mp hgr).2, ?_⟩
      intro a ha b hb
      exact hdisj a ha b (List.mem_cons_of_mem _ hb)
    · intro x hx
      refine h.nonempty x ?_
      rcases List.mem_append.mp hx with hx | hx
      · exact List.mem_append_left _ hx
      · exact List.mem_append_right _ (List.mem_cons_of_mem _ hx)

def relOf (e : Emit) : Act := .release e.id e.evs

theorem relOf_openGate (c : Cfg) (f : Fail) (g : Group) : relOf (openGate c f g).1 = .release g.id g.evs := by
  unfold relOf
  rw [(openGate_emit c f g).1, (openGate_emit c f g).2]

/-- releasing one member group is a step of the specification -/
theorem spec_release {pre rest : List Group} {g : Group} (h : Wf (pre ++ g :: rest)) :
    specStep (pend (pre ++ g :: rest)) (.release g.id g.evs) = some (pend (pre ++ rest)) := by
  obtain ⟨h1, h2, h3, _⟩ := pend_remove h
  simp only [specStep, h1, h2, ne_eq, not_false_eq_true, and_self, if_true]
  rw [h3]

/-- `processExpiredEvents` refines the specification: every opened gate is a `release` of exactly
what was pending for its id -/
theorem openExpired_refines (c : Cfg) (f : Fail) (now : Int) (gs : List Group) :
    ∀ pre, Wf (pre ++ gs) →
      specRun (pend (pre ++ gs)) ((openExpired c f now gs).2.1.map relOf) =
        some (pend (pre ++ (openExpired c f now gs).1)) ∧
      Wf (pre ++ (openExpired c f now gs).1) := by
  induction gs with
  | nil => intro pre h; simpa [openExpired, specRun] using h
  | cons g rest ih =>
    intro pre h
    unfold openExpired
    by_cases hx : now > g.exp
    · simp only [hx, if_true]
      have hrel := spec_release h
      have hwf := (pend_remove h).2.2.2
      cases hg : (openGate c f g).2 with
      | false =>
        simp only [Bool.false_eq_true, if_false, List.map_cons, List.map_nil, specRun, relOf_openGate, hrel]
        exact ⟨trivial, hwf⟩
      | true =>
        simp only [if_true, List.map_cons, specRun, relOf_openGate, hrel]
        exact ih pre hwf
    · simp only [hx, if_false]
      have e : pre ++ g :: rest = (pre ++ [g]) ++ rest := by simp
      have := ih (pre ++ [g]) (e ▸ h)
      simpa [List.append_assoc] using this

theorem openAll_refines (c : Cfg) (f : Fail) (gs : List Group) :
    Wf gs →
      specRun (pend gs) ((openAll c f gs).2.1.map relOf) = some (pend (openAll c f gs).1) ∧
      Wf (openAll c f gs).1 := by
  induction gs with
  | nil => intro h; simpa [openAll, specRun] using h
  | cons g rest ih =>
    intro h
    unfold openAll
    have hrel := spec_release (pre := []) h
    have hwf := (pend_remove (pre := []) h).2.2.2
    simp only [List.nil_append] at hrel hwf
    cases hg : (openGate c f g).2 with
    | false =>
      simp only [hg, Bool.false_eq_true, if_false, List.map_cons, List.map_nil, specRun, relOf_openGate, hrel]
      exact ⟨trivial, hwf⟩
    | true =>
      simp only [hg, if_true, List.map_cons, specRun, relOf_openGate, hrel]
      exact ih hwf

/-- dropping every group uncomposed (FlushAll without a Broker) releases each id's pending events -/
theorem dropAll_refines (gs : List Group) :
    Wf gs → specRun (pend gs) (gs.map (fun g => Act.release g.id g.evs)) = some (pend []) := by
  induction gs with
  | nil => intro _; rfl
  | cons g rest ih =>
    intro h
    have hrel := spec_release (pre := []) h
    have hwf := (pend_remove (pre := []) h).2.2.2
    simp only [List.nil_append] at hrel hwf
    simp only [List.map_cons, specRun, hrel]
    exact ih hwf

/-! ### addEvent / takeGroup -/

theorem addEvent_ids (gs : List Group) (id uid : Nat) (exp : Int) :
    (addEvent gs id uid exp).map (·.id) =
      if id ∈ gs.map (·.id) then gs.map (·.id) else gs.map (·.id) ++ [id] := by
  induction gs with
  | nil => simp [addEvent]
  | cons g rest ih =>
    unfold addEvent
    by_cases hg : g.id = id
    · simp [hg]
    · have hg' : ¬ id = g.id := fun e => hg e.symm
      simp only [beq_iff_eq, hg, if_false, List.map_cons, List.mem_cons, hg', false_or, ih]
      split <;> simp

theorem addEvent_refines (gs : List Group) (id uid : Nat) (exp : Int) (h : Wf gs) :
    pend (addEvent gs id uid exp) = (fun j => if j = id then pend gs j ++ [uid] else pend gs j) ∧
    Wf (addEvent gs id uid exp) := by
  induction gs with
  | nil =>
    refine ⟨?_, ⟨by simp [addEvent], by simp [addEvent]⟩⟩
    funext j
    by_cases hj : j = id
    · subst hj; simp [addEvent, pend]
    · have : ¬ id = j := fun e => hj e.symm
      simp [addEvent, pend, hj, this]
  | cons g rest ih =>
    have hwf : Wf rest := ⟨(List.nodup_cons.mp h.nodup).2, fun x hx => h.nonempty x (List.mem_cons_of_mem _ hx)⟩
    have hg_rest : g.id ∉ rest.map (·.id) := (List.nodup_cons.mp h.nodup).1
    obtain ⟨ih1, ih2⟩ := ih hwf
    unfold addEvent
    by_cases hg : g.id = id
    · simp only [beq_iff_eq, hg, if_true]
      refine ⟨?_, ⟨?_, ?_⟩⟩
      · funext j
        rw [pend_cons, pend_cons]
        by_cases hj : j = id
        · subst hj
          have : pend rest j = [] := pend_not_mem (hg ▸ hg_rest)
          simp [hg, this]
        · have : ¬ id = j := fun e => hj e.symm
          simp [hg, hj, this]
      · simpa [hg] using h.nodup
      · intro x hx
        rcases List.mem_cons.mp hx with hx | hx
        · subst hx; simp
        · exact h.nonempty x (List.mem_cons_of_mem _ hx)
    · simp only [beq_iff_eq, hg, if_false]
      refine ⟨?_, ⟨?_, ?_⟩⟩
      · funext j
        rw [pend_cons, pend_cons, ih1]
        by_cases hj : j = id
        · subst hj
          simp [hg]
        · simp [hj]
      · simp only [List.map_cons]
        refine List.nodup_cons.mpr ⟨?_, ih2.nodup⟩
        rw [addEvent_ids]
        split
        · exact hg_rest
        · simp only [List.mem_append, List.mem_singleton, not_or]
          exact ⟨hg_rest, hg⟩
      · intro x hx
        rcases List.mem_cons.mp hx with hx | hx
        · subst hx; exact h.nonempty _ (by simp)
        · exact ih2.nonempty x hx

theorem takeGroup_split {gs : List Group} {id : Nat} {g : Group} {r : List Group}
    (h : takeGroup gs id = some (g, r)) :
    ∃ pre post, gs = pre ++ g :: post ∧ r = pre ++ post ∧ g.id = id := by
  induction gs generalizing g r with
  | nil => simp [takeGroup] at h
  | cons x rest ih =>
    unfold takeGroup at h
    by_cases hx : x.id = id
    · simp only [beq_iff_eq, hx, if_true, Option.some.injEq, Prod.mk.injEq] at h
      obtain ⟨h1, h2⟩ := h
      subst h1 h2
      exact ⟨[], rest, rfl, rfl, hx⟩
    · simp only [beq_iff_eq, hx, if_false] at h
      cases ht : takeGroup rest id with
      | none => simp [ht] at h
      | some v =>
        obtain ⟨y, r'⟩ := v
        simp only [ht, Option.some.injEq, Prod.mk.injEq] at h
        obtain ⟨h1, h2⟩ := h
        subst h1 h2
        obtain ⟨pre, post, e1, e2, e3⟩ := ih ht
        exact ⟨x :: pre, post, by simp [e1], by simp [e2], e3⟩

/-- taking the id's group out of a well-formed gate is a `release` of exactly what was pending -/
theorem takeGroup_refines {gs : List Group} {id : Nat} {g : Group} {r : List Group} (hw : Wf gs)
    (h : takeGroup gs id = some (g, r)) :
    specStep (pend gs) (.release id g.evs) = some (pend r) ∧ Wf r := by
  obtain ⟨pre, post, e1, e2, e3⟩ := takeGroup_split h
  subst e1 e2 e3
  exact ⟨spec_release hw, (pend_remove hw).2.2.2⟩

end Evl.Gated
