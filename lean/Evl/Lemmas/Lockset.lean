import Evl.Model.Lockset
/-! Lock-set soundness: in a well-formed trace in which every access to the location holds its guard
(write mode for writes), two conflicting accesses by different threads are separated by a release by
the first and a later acquire by the second — they are ordered by happens-before in every schedule. -/
namespace Evl.Lockset

/-- exclusion invariant -/
def Excl (h : Holders) : Prop :=
  (∀ t, (t, Mode.w) ∈ h → h = [(t, .w)]) ∧ h.Pairwise (fun a b => a.1 ≠ b.1)

theorem excl_nil : Excl [] := by simp [Excl]

theorem holds_some_mem {h : Holders} {t m} (hh : holds h t = some m) : (t, m) ∈ h := by
  unfold holds at hh
  cases hf : h.find? (·.1 = t) with
  | none => simp [hf] at hh
  | some x =>
    simp [hf] at hh
    have := List.find?_some hf
    have hm := List.mem_of_find?_eq_some hf
    simp at this
    cases x; simp_all

theorem mem_holds {h : Holders} (he : Excl h) {t m} (hm : (t, m) ∈ h) : holds h t = some m := by
  unfold holds
  induction h with
  | nil => simp at hm
  | cons a as ih =>
    simp [List.find?]
    by_cases ha : a.1 = t
    · simp [ha]
      rcases List.mem_cons.mp hm with h1 | h1
      · simp [← h1]
      · have := (List.pairwise_cons.mp he.2).1 _ h1
        simp [ha] at this
    · simp [ha]
      rcases List.mem_cons.mp hm with h1 | h1
      · simp [← h1] at ha
      · have he' : Excl as := by
          refine ⟨?_, (List.pairwise_cons.mp he.2).2⟩
          intro t' ht'
          have := he.1 t' (List.mem_cons_of_mem _ ht')
          simp at this
          cases as <;> simp_all
        simpa [holds] using ih he' h1


theorem excl_step {h h' : Holders} {e : Ev} (he : Excl h) (hs : lstep h e = some h') : Excl h' := by
  cases e with
  | acq t m =>
    cases m with
    | w =>
      simp [lstep] at hs
      obtain ⟨_, rfl⟩ := hs
      simp [Excl]
    | r =>
      simp [lstep] at hs
      obtain ⟨hall, rfl⟩ := hs
      refine ⟨?_, ?_⟩
      · intro t' ht'
        rcases List.mem_cons.mp ht' with h1 | h1
        · simp at h1
        · have := (hall _ _ h1).1; simp at this
      · refine List.pairwise_cons.mpr ⟨?_, he.2⟩
        intro a ha
        exact fun e => (hall a.1 a.2 ha).2 e.symm
  | rel t =>
    simp [lstep] at hs
    obtain ⟨_, rfl⟩ := hs
    refine ⟨?_, he.2.sublist List.filter_sublist⟩
    intro t' ht'
    have hm := List.mem_filter.mp ht'
    have := he.1 t' hm.1
    rw [this] at ht' ⊢
    simp at ht' ⊢
    exact ht'
  | acc t wr =>
    simp only [lstep] at hs
    split at hs <;> simp_all
  | other => simp [lstep] at hs; subst hs; exact he

/-- a holder persists while it does not release -/
theorem persists {t : Nat} {m : Mode} : ∀ (τ : List Ev) {h h' : Holders}, Excl h → run h τ = some h' →
    (t, m) ∈ h → (∀ e ∈ τ, e ≠ .rel t) → (t, m) ∈ h'
  | [], h, h', _, hr, hm, _ => by simp [run] at hr; subst hr; exact hm
  | e :: es, h, h', he, hr, hm, hn => by
    simp only [run] at hr
    cases hs : lstep h e with
    | none => simp [hs] at hr
    | some h1 =>
      simp [hs] at hr
      have he1 := excl_step he hs
      have hm1 : (t, m) ∈ h1 := by
        cases e with
        | acq t' m' =>
          cases m' with
          | w =>
            simp [lstep] at hs; obtain ⟨hnil, _⟩ := hs; simp [hnil] at hm
          | r =>
            simp [lstep] at hs; obtain ⟨_, rfl⟩ := hs; exact List.mem_cons_of_mem _ hm
        | rel t' =>
          simp [lstep] at hs; obtain ⟨_, rfl⟩ := hs
          refine List.mem_filter.mpr ⟨hm, ?_⟩
          have : Ev.rel t' ≠ Ev.rel t := hn _ (List.mem_cons_self)
          simp at this ⊢
          exact fun e => this e.symm
        | acc t' wr => simp only [lstep] at hs; split at hs <;> simp_all
        | other => simp [lstep] at hs; subst hs; exact hm
      exact persists es he1 hr hm1 (fun e he' => hn e (List.mem_cons_of_mem _ he'))

/-- a holder at the end that never acquired during τ held from the start -/
theorem held_before {t : Nat} {m : Mode} : ∀ (τ : List Ev) {h h' : Holders}, run h τ = some h' →
    (t, m) ∈ h' → (∀ e ∈ τ, ∀ m', e ≠ .acq t m') → (t, m) ∈ h
  | [], h, h', hr, hm, _ => by simp [run] at hr; subst hr; exact hm
  | e :: es, h, h', hr, hm, hn => by
    simp only [run] at hr
    cases hs : lstep h e with
    | none => simp [hs] at hr
    | some h1 =>
      simp [hs] at hr
      have hm1 : (t, m) ∈ h1 := held_before es hr hm (fun e he' => hn e (List.mem_cons_of_mem _ he'))
      cases e with
      | acq t' m' =>
        have hne : t' ≠ t := by
          intro e; subst e
          exact hn _ List.mem_cons_self m' rfl
        cases m' with
        | w =>
          simp [lstep] at hs; obtain ⟨_, rfl⟩ := hs; simp at hm1; exact absurd hm1.1.symm hne
        | r =>
          simp [lstep] at hs; obtain ⟨_, rfl⟩ := hs
          rcases List.mem_cons.mp hm1 with h2 | h2
          · simp at h2; exact absurd h2.1.symm hne
          · exact h2
      | rel t' => simp [lstep] at hs; obtain ⟨_, rfl⟩ := hs; exact (List.mem_filter.mp hm1).1
      | acc t' wr => simp only [lstep] at hs; split at hs <;> simp_all
      | other => simp [lstep] at hs; subst hs; exact hm1

theorem run_append : ∀ (a b : List Ev) (h : Holders), run h (a ++ b) = (run h a).bind (run · b)
  | [], b, h => by simp [run]
  | e :: a, b, h => by
    simp only [List.cons_append, run]
    cases lstep h e with
    | none => simp
    | some h1 => simp [run_append a b h1]

theorem excl_run : ∀ (τ : List Ev) {h h' : Holders}, Excl h → run h τ = some h' → Excl h'
  | [], h, h', he, hr => by simp [run] at hr; subst hr; exact he
  | e :: es, h, h', he, hr => by
    simp only [run] at hr
    cases hs : lstep h e with
    | none => simp [hs] at hr
    | some h1 => simp [hs] at hr; exact excl_run es (excl_step he hs) hr

/-- two holders, one of them in write mode, cannot coexist -/
theorem no_coexist {h : Holders} (he : Excl h) {t1 t2 m1 m2} (hne : t1 ≠ t2)
    (h1 : (t1, m1) ∈ h) (h2 : (t2, m2) ∈ h) (hw : m1 = .w ∨ m2 = .w) : False := by
  rcases hw with rfl | rfl
  · have := he.1 t1 h1; rw [this] at h2; simp at h2; exact hne h2.1.symm
  · have := he.1 t2 h2; rw [this] at h1; simp at h1; exact hne h1.1


/-- mode required by an access -/
def need (wr : Bool) (m : Mode) : Prop := wr = true → m = .w

theorem acc_holds {h h' : Holders} {t wr} (hs : lstep h (.acc t wr) = some h') :
    h' = h ∧ ∃ m, holds h t = some m ∧ need wr m := by
  simp only [lstep] at hs
  split at hs
  · next hm => simp at hs; exact ⟨hs.symm, .w, hm, fun _ => rfl⟩
  · next hm => simp at hs; exact ⟨hs.symm, .r, hm, by simp [need]⟩
  · simp at hs

/-- split a list at the first element satisfying p -/
theorem split_first {α} (p : α → Prop) [DecidablePred p] : ∀ (l : List α), (∃ x ∈ l, p x) →
    ∃ a x b, l = a ++ x :: b ∧ p x ∧ ∀ y ∈ a, ¬ p y
  | [], h => by simp at h
  | y :: ys, h => by
    by_cases hy : p y
    · exact ⟨[], y, ys, rfl, hy, by simp⟩
    · have : ∃ x ∈ ys, p x := by
        obtain ⟨x, hx, hpx⟩ := h
        rcases List.mem_cons.mp hx with rfl | hx'
        · exact absurd hpx hy
        · exact ⟨x, hx', hpx⟩
      obtain ⟨a, x, b, rfl, hpx, hna⟩ := split_first p ys this
      refine ⟨y :: a, x, b, rfl, hpx, ?_⟩
      intro z hz
      rcases List.mem_cons.mp hz with rfl | hz'
      · exact hy
      · exact hna z hz'

/-- Lock-set soundness: two conflicting accesses by different threads in a well-formed,
    disciplined trace are separated by a release by the first and a later acquire by the second. -/
theorem lockset_sound (τ1 τ2 τ3 : List Ev) (t1 t2 : Nat) (w1 w2 : Bool) (hfin : Holders)
    (hrun : run [] (τ1 ++ .acc t1 w1 :: (τ2 ++ .acc t2 w2 :: τ3)) = some hfin)
    (hne : t1 ≠ t2) (hconf : w1 = true ∨ w2 = true) :
    ∃ a b, τ2 = a ++ .rel t1 :: b ∧ ∃ m, .acq t2 m ∈ b := by
  -- state before access 1
  rw [run_append] at hrun
  cases h1eq : run [] τ1 with
  | none => simp [h1eq] at hrun
  | some h1 =>
    simp only [h1eq, Option.bind] at hrun
    have he1 : Excl h1 := excl_run τ1 excl_nil h1eq
    simp only [run] at hrun
    cases hs1 : lstep h1 (.acc t1 w1) with
    | none => simp [hs1] at hrun
    | some h1' =>
      simp only [hs1, Option.bind] at hrun
      obtain ⟨rfl, m1, hh1, hn1⟩ := acc_holds hs1
      have hm1 : (t1, m1) ∈ h1' := holds_some_mem hh1
      rw [run_append] at hrun
      cases h2eq : run h1' τ2 with
      | none => simp [h2eq] at hrun
      | some h2 =>
        simp only [h2eq, Option.bind] at hrun
        have he2 : Excl h2 := excl_run τ2 he1 h2eq
        simp only [run] at hrun
        cases hs2 : lstep h2 (.acc t2 w2) with
        | none => simp [hs2] at hrun
        | some h2' =>
          obtain ⟨rfl, m2, hh2, hn2⟩ := acc_holds hs2
          have hm2 : (t2, m2) ∈ h2' := holds_some_mem hh2
          have hw : m1 = .w ∨ m2 = .w := by
            rcases hconf with h | h
            · exact Or.inl (hn1 h)
            · exact Or.inr (hn2 h)
          -- t1 must release within τ2
          have hrel : ∃ x ∈ τ2, x = Ev.rel t1 := by
            by_cases hex : ∃ x ∈ τ2, x = Ev.rel t1
            · exact hex
            · exfalso
              have : (t1, m1) ∈ h2' := persists τ2 he1 h2eq hm1 (fun e he heq => hex ⟨e, he, heq⟩)
              exact no_coexist he2 hne this hm2 hw
          obtain ⟨a, x, b, rfl, rfl, hna⟩ := split_first (fun e => e = Ev.rel t1) τ2 hrel
          refine ⟨a, b, rfl, ?_⟩
          -- t2 must acquire after that release
          by_cases hacq : ∃ m, Ev.acq t2 m ∈ b
          · exact hacq
          · exfalso
            rw [run_append] at h2eq
            cases haeq : run h1' a with
            | none => simp [haeq] at h2eq
            | some ha =>
              simp only [haeq, Option.bind, run] at h2eq
              cases hsr : lstep ha (.rel t1) with
              | none => simp [hsr] at h2eq
              | some hr =>
                simp only [hsr, Option.bind] at h2eq
                have hea : Excl ha := excl_run a he1 haeq
                -- t1 still holds before the release
                have h1a : (t1, m1) ∈ ha := persists a he1 haeq hm1 (fun e he heq => hna e he heq)
                -- t2 held since just after the release
                have h2r : (t2, m2) ∈ hr := held_before b h2eq hm2 (fun e he m' heq => hacq ⟨m', heq ▸ he⟩)
                have h2a : (t2, m2) ∈ ha := by
                  simp [lstep] at hsr; obtain ⟨_, rfl⟩ := hsr
                  exact (List.mem_filter.mp h2r).1
                exact no_coexist hea hne h1a h2a hw



end Evl.Lockset
