import Evl.Model.Gated
/-! Helper lemmas about M6 `Gated`. -/
namespace Evl.Gated

def expired (now : Int) (g : Group) : Bool := now > g.exp

def gatedEvents (gs : List Group) : List Nat := gs.flatMap (·.evs)

def leaving (es : List Emit) : List Nat := es.flatMap (·.evs)

theorem openGate_emit (c : Cfg) (f : Fail) (g : Group) :
    (openGate c f g).1.id = g.id ∧ (openGate c f g).1.evs = g.evs := by
  unfold openGate
  split
  · exact ⟨rfl, rfl⟩
  split
  · exact ⟨rfl, rfl⟩
  split
  · exact ⟨rfl, rfl⟩
  split <;> exact ⟨rfl, rfl⟩

theorem openGate_ok_fate (c : Cfg) (f : Fail) (g : Group) (h : (openGate c f g).2 = true) :
    (openGate c f g).1.fate = (if c.broker then .sent else .noBroker) := by
  unfold openGate at h ⊢
  split
  · simp_all
  split
  · simp_all
  split
  · rename_i hb; simp at hb; simp [hb]
  split
  · simp_all
  · rename_i hb _; simp at hb; simp [hb]

theorem openGate_fail_fate (c : Cfg) (f : Fail) (g : Group) (h : (openGate c f g).2 = false) :
    fateErr (openGate c f g).1.fate ≠ .ok := by
  unfold openGate at h ⊢
  by_cases h1 : (f.cf != 0 && g.id == f.cf) = true
  · simp [h1, fateErr]
  · by_cases h2 : (f.cg != 0 && g.id == f.cg) = true
    · simp [h1, h2, fateErr]
    · by_cases h3 : (!c.broker) = true
      · simp [h1, h2, h3] at h
      · by_cases h4 : (f.sf != 0 && g.id == f.sf) = true
        · simp [h1, h2, h3, h4, fateErr]
        · simp [h1, h2, h3, h4] at h

/-! ### openExpired -/

/-- shape of `openExpired` when everything succeeded -/
theorem openExpired_ok (c : Cfg) (f : Fail) (now : Int) (gs : List Group)
    (h : (openExpired c f now gs).2.2 = true) :
    (openExpired c f now gs).1 = gs.filter (fun g => !expired now g) ∧
    (openExpired c f now gs).2.1.map (fun e => (e.id, e.evs)) = (gs.filter (expired now)).map (fun g => (g.id, g.evs)) ∧
    ∀ e ∈ (openExpired c f now gs).2.1, e.fate = (if c.broker then .sent else .noBroker) := by
  induction gs with
  | nil => simp [openExpired]
  | cons g rest ih =>
    unfold openExpired at h ⊢
    by_cases hx : now > g.exp
    · simp only [hx, if_true] at h ⊢
      cases hg : (openGate c f g).2 with
      | false => simp [hg] at h
      | true =>
        simp only [hg, if_true] at h ⊢
        obtain ⟨h1, h2, h3⟩ := ih h
        have hexp : expired now g = true := by simp [expired, hx]
        refine ⟨?_, ?_, ?_⟩
        · simp [List.filter_cons, hexp, h1]
        · simp only [List.map_cons, List.filter_cons, hexp, if_true, h2]
          rw [(openGate_emit c f g).1, (openGate_emit c f g).2]
        · intro e he
          rw [List.mem_cons] at he
          rcases he with he | he
          · subst he; exact openGate_ok_fate c f g hg
          · exact h3 e he
    · simp only [hx, if_false] at h ⊢
      obtain ⟨h1, h2, h3⟩ := ih h
      have hexp : expired now g = false := by simp [expired, hx]
      exact ⟨by simp [List.filter_cons, hexp, h1], by simp [List.filter_cons, hexp, h2], h3⟩

/-- whatever happens, events are conserved by `openExpired`: what was gated = what stays ++ what left
(as multisets) -/
theorem openExpired_perm (c : Cfg) (f : Fail) (now : Int) (gs : List Group) :
    (gatedEvents gs).Perm (gatedEvents (openExpired c f now gs).1 ++ leaving (openExpired c f now gs).2.1) := by
  induction gs with
  | nil => simp [openExpired, gatedEvents, leaving]
  | cons g rest ih =>
    unfold openExpired
    by_cases hx : now > g.exp
    · simp only [hx, if_true]
      cases hg : (openGate c f g).2 with
      | false =>
        simp only [Bool.false_eq_true, if_false, gatedEvents, leaving, List.flatMap_cons, List.flatMap_nil,
          List.append_nil, (openGate_emit c f g).2]
        exact List.perm_append_comm
      | true =>
        simp only [if_true, gatedEvents, leaving, List.flatMap_cons, (openGate_emit c f g).2]
        have := ih
        simp only [gatedEvents, leaving] at this
        -- g.evs ++ R ~ K ++ (g.evs ++ L)  from R ~ K ++ L
        refine (List.Perm.append_left g.evs this).trans ?_
        rw [← List.append_assoc, ← List.append_assoc]
        exact List.Perm.append_right _ List.perm_append_comm
    · simp only [hx, if_false, gatedEvents, leaving, List.flatMap_cons]
      have := ih
      simp only [gatedEvents, leaving] at this
      rw [List.append_assoc]
      exact List.Perm.append_left g.evs this

/-- the groups that remain after `openExpired` are among the original ones, in order -/
theorem openExpired_sublist (c : Cfg) (f : Fail) (now : Int) (gs : List Group) :
    (openExpired c f now gs).1.Sublist gs := by
  induction gs with
  | nil => simp [openExpired]
  | cons g rest ih =>
    unfold openExpired
    by_cases hx : now > g.exp
    · simp only [hx, if_true]
      cases hg : (openGate c f g).2 with
      | false => simp only [Bool.false_eq_true, if_false]; exact List.sublist_cons_self g rest
      | true => simp only [if_true]; exact List.Sublist.cons g ih
    · simp only [hx, if_false]
      exact List.Sublist.cons_cons g ih

/-! ### openAll -/

theorem openAll_ok (c : Cfg) (f : Fail) (gs : List Group) (h : (openAll c f gs).2.2 = true) :
    (openAll c f gs).1 = [] ∧
    (openAll c f gs).2.1.map (fun e => (e.id, e.evs)) = gs.map (fun g => (g.id, g.evs)) ∧
    ∀ e ∈ (openAll c f gs).2.1, e.fate = (if c.broker then .sent else .noBroker) := by
  induction gs with
  | nil => simp [openAll]
  | cons g rest ih =>
    unfold openAll at h ⊢
    cases hg : (openGate c f g).2 with
    | false => simp [hg] at h
    | true =>
      simp only [hg, if_true] at h ⊢
      obtain ⟨h1, h2, h3⟩ := ih h
      refine ⟨h1, ?_, ?_⟩
      · simp only [List.map_cons, h2]
        rw [(openGate_emit c f g).1, (openGate_emit c f g).2]
      · intro e he
        rw [List.mem_cons] at he
        rcases he with he | he
        · subst he; exact openGate_ok_fate c f g hg
        · exact h3 e he

theorem openAll_perm (c : Cfg) (f : Fail) (gs : List Group) :
    (gatedEvents gs).Perm (gatedEvents (openAll c f gs).1 ++ leaving (openAll c f gs).2.1) := by
  induction gs with
  | nil => simp [openAll, gatedEvents, leaving]
  | cons g rest ih =>
    unfold openAll
    cases hg : (openGate c f g).2 with
    | false =>
      simp only [hg, Bool.false_eq_true, if_false, gatedEvents, leaving, List.flatMap_cons, List.flatMap_nil,
        List.append_nil, (openGate_emit c f g).2]
      exact List.perm_append_comm
    | true =>
      simp only [hg, if_true, gatedEvents, leaving, List.flatMap_cons, (openGate_emit c f g).2]
      have := ih
      simp only [gatedEvents, leaving] at this
      refine (List.Perm.append_left g.evs this).trans ?_
      rw [← List.append_assoc, ← List.append_assoc]
      exact List.Perm.append_right _ List.perm_append_comm

theorem openAll_sublist (c : Cfg) (f : Fail) (gs : List Group) : (openAll c f gs).1.Sublist gs := by
  induction gs with
  | nil => simp [openAll]
  | cons g rest ih =>
    unfold openAll
    cases hg : (openGate c f g).2 with
    | false => simp only [hg, Bool.false_eq_true, if_false]; exact List.sublist_cons_self g rest
    | true => simp only [hg, if_true]; exact List.Sublist.cons g ih

/-! ### addEvent / takeGroup -/

theorem addEvent_perm (gs : List Group) (id uid : Nat) (exp : Int) :
    (gatedEvents (addEvent gs id uid exp)).Perm (gatedEvents gs ++ [uid]) := by
  induction gs with
  | nil => simp [addEvent, gatedEvents]
  | cons g rest ih =>
    unfold addEvent
    split
    · simp only [gatedEvents, List.flatMap_cons]
      rw [List.append_assoc, List.append_assoc]
      exact List.Perm.append_left g.evs List.perm_append_comm
    · simp only [gatedEvents, List.flatMap_cons] at ih ⊢
      rw [List.append_assoc]
      exact List.Perm.append_left g.evs ih

theorem takeGroup_perm {gs : List Group} {id : Nat} {g : Group} {r : List Group}
    (h : takeGroup gs id = some (g, r)) : (gatedEvents gs).Perm (gatedEvents r ++ g.evs) ∧ g.id = id := by
  induction gs generalizing r with
  | nil => simp [takeGroup] at h
  | cons x rest ih =>
    unfold takeGroup at h
    split at h
    · rename_i hx
      injection h with h
      injection h with h1 h2
      subst h1; subst h2
      simp only [gatedEvents, List.flatMap_cons]
      exact ⟨List.perm_append_comm, by simpa using hx⟩
    · cases ht : takeGroup rest id with
      | none => simp [ht] at h
      | some y =>
        obtain ⟨y1, y2⟩ := y
        simp only [ht] at h
        injection h with h
        injection h with h1 h2
        subst h1; subst h2
        obtain ⟨hp, hid⟩ := ih ht
        simp only [gatedEvents, List.flatMap_cons] at hp ⊢
        rw [List.append_assoc]
        exact ⟨List.Perm.append_left x.evs hp, hid⟩

end Evl.Gated

namespace Evl.Gated

theorem addEvent_exp (gs : List Group) (id uid : Nat) (exp : Int) :
    ∀ g ∈ addEvent gs id uid exp, (∃ g0 ∈ gs, g.exp = g0.exp ∧ g.id = g0.id) ∨ (g.exp = exp ∧ g.id = id) := by
  induction gs with
  | nil => intro g hg; simp [addEvent] at hg; subst hg; exact Or.inr ⟨rfl, rfl⟩
  | cons x rest ih =>
    intro g hg
    unfold addEvent at hg
    split at hg
    · rw [List.mem_cons] at hg
      rcases hg with hg | hg
      · subst hg; exact Or.inl ⟨x, by simp, rfl, rfl⟩
      · exact Or.inl ⟨g, by simp [hg], rfl, rfl⟩
    · rw [List.mem_cons] at hg
      rcases hg with hg | hg
      · subst hg; exact Or.inl ⟨g, by simp, rfl, rfl⟩
      · rcases ih g hg with ⟨g0, h0, h1⟩ | h
        · exact Or.inl ⟨g0, by simp [h0], h1⟩
        · exact Or.inr h

theorem takeGroup_sublist {gs : List Group} {id : Nat} {g : Group} {r : List Group}
    (h : takeGroup gs id = some (g, r)) : r.Sublist gs ∧ g ∈ gs := by
  induction gs generalizing r with
  | nil => simp [takeGroup] at h
  | cons x rest ih =>
    unfold takeGroup at h
    split at h
    · injection h with h
      injection h with h1 h2
      subst h1; subst h2
      exact ⟨List.sublist_cons_self _ _, by simp⟩
    · cases ht : takeGroup rest id with
      | none => simp [ht] at h
      | some y =>
        obtain ⟨y1, y2⟩ := y
        simp only [ht] at h
        injection h with h
        injection h with h1 h2
        subst h1; subst h2
        obtain ⟨hs, hm⟩ := ih ht
        exact ⟨List.Sublist.cons_cons x hs, by simp [hm]⟩

end Evl.Gated
