import Evl.Lemmas.DispatchStep
/-! The protocol invariant of M2 `Dispatch` and its preservation by every step. -/
namespace Evl.Dispatch

structure PInv (c : Cfg) (s : S) : Prop where
  outside : ∀ p, c.n ≤ p → s.ps p = {}
  idleDef : ∀ p, (s.ps p).ph = .idle → s.ps p = {}
  kbound : ∀ p, p < c.n → (s.ps p).ph ≠ .idle → (s.ps p).k < c.len p
  rootCur : ∀ p, ((s.ps p).rootOwes = true ∨ ((s.ps p).k = 0 ∧ (s.ps p).live = true)) → s.rg = .inRoot p
  inRoot : ∀ p, s.rg = .inRoot p → p < c.n ∧ ((s.ps p).rootOwes = true ∨ ((s.ps p).k = 0 ∧ (s.ps p).live = true))
  owesK : ∀ p, (s.ps p).rootOwes = true → (s.ps p).k ≠ 0
  quiet : (s.rg = .waited ∨ s.rg = .closed) → ∀ p, p < c.n → (s.ps p).busy = false
  coll : s.collExited = true → s.ctxDone = true ∨ s.rg = .closed
  stopsAt : ∀ p, ((s.ps p).ph = .sending ∨ (s.ps p).ph = .finishing ∨ (s.ps p).ph = .finished) →
      stops c p (s.ps p).k (c.out p (s.ps p).k) = true
  decidedOut : ∀ p o, (s.ps p).ph = .decided o → o = c.out p (s.ps p).k

theorem pinv_init (c : Cfg) : PInv c init := by
  constructor <;> simp [init, PS.live, PS.busy]

theorem live_calling {x : PS} (h : x.ph = .calling) : x.live = true := by simp [PS.live, h]
theorem live_decided {x : PS} {o : Outcome} (h : x.ph = .decided o) : x.live = true := by simp [PS.live, h]
theorem live_sending {x : PS} (h : x.ph = .sending) : x.live = true := by simp [PS.live, h]
theorem live_finishing {x : PS} (h : x.ph = .finishing) : x.live = true := by simp [PS.live, h]

theorem not_busy {x : PS} (h : x.busy = false) : x.live = false ∧ x.owing = 0 ∧ x.rootOwes = false := by
  rw [busy_eq] at h
  simp at h
  exact ⟨h.1.1, h.1.2, h.2⟩

theorem busy_of_live {x : PS} (h : x.live = true) : x.busy = true := by rw [busy_eq]; simp [h]

/-- stops is false ⇒ there is a next node -/
theorem next_of_not_stops {c : Cfg} {p k : Nat} {o : Outcome} (h : stops c p k o = false) (hk : k < c.len p) :
    k + 1 < c.len p := by
  simp [stops] at h
  omega

theorem pinv_step {c : Cfg} (hlen : ∀ p, p < c.n → 0 < c.len p) {s s' : S} (hi : PInv c s) (hs : StepI c s s') :
    PInv c s' := by
  cases hs with
  | cancel hc =>
    exact ⟨hi.outside, hi.idleDef, hi.kbound, hi.rootCur, hi.inRoot, hi.owesK, hi.quiet,
      fun _ => Or.inl rfl, hi.stopsAt, hi.decidedOut⟩
  | rangeStart p h1 h2 h3 =>
    have hdef := hi.idleDef p h3
    refine ⟨?_, ?_, ?_, ?_, ?_, ?_, ?_, (fun hc => Or.inl ((hi.coll hc).resolve_right (by rw [h1]; simp))), ?_, ?_⟩
    · intro q hq
      have : q ≠ p := by omega
      simp [upd_other _ _ _ _ this, hi.outside q hq]
    · intro q hq
      by_cases hqp : q = p
      · subst hqp; simp at hq
      · simp only [upd_other _ _ _ _ hqp] at hq ⊢; exact hi.idleDef q hq
    · intro q hq hne
      by_cases hqp : q = p
      · subst hqp; simp; exact hlen q hq
      · simp only [upd_other _ _ _ _ hqp] at hne ⊢; exact hi.kbound q hq hne
    · intro q hq
      by_cases hqp : q = p
      · subst hqp; rfl
      · simp only [upd_other _ _ _ _ hqp] at hq
        have := hi.rootCur q hq
        rw [h1] at this; cases this
    · intro q hq
      simp only at hq
      injection hq with hq
      subst hq
      refine ⟨h2, Or.inr ?_⟩
      simp [PS.live]
    · intro q hq
      by_cases hqp : q = p
      · subst hqp; simp [hdef] at hq
      · simp only [upd_other _ _ _ _ hqp] at hq ⊢; exact hi.owesK q hq
    · intro h; simp at h
    · intro q hq
      by_cases hqp : q = p
      · subst hqp; simp at hq
      · simp only [upd_other _ _ _ _ hqp] at hq ⊢; exact hi.stopsAt q hq
    · intro q o hq
      by_cases hqp : q = p
      · subst hqp; simp at hq
      · simp only [upd_other _ _ _ _ hqp] at hq ⊢; exact hi.decidedOut q o hq
  | rangeStop q h1 h2 h3 h4 =>
    refine ⟨hi.outside, hi.idleDef, hi.kbound, ?_, ?_, hi.owesK, ?_, (fun hc => Or.inl ((hi.coll hc).resolve_right (by rw [h1]; simp))), hi.stopsAt, hi.decidedOut⟩
    · intro p hp; have := hi.rootCur p hp; rw [h1] at this; cases this
    · intro p hp; simp at hp
    · intro h; simp at h
  | rangeEnd h1 h2 =>
    refine ⟨hi.outside, hi.idleDef, hi.kbound, ?_, ?_, hi.owesK, ?_, (fun hc => Or.inl ((hi.coll hc).resolve_right (by rw [h1]; simp))), hi.stopsAt, hi.decidedOut⟩
    · intro p hp; have := hi.rootCur p hp; rw [h1] at this; cases this
    · intro p hp; simp at hp
    · intro h; simp at h
  | ret p h1 h2 =>
    have hl := live_calling h2
    refine ⟨?_, ?_, ?_, ?_, ?_, ?_, ?_, hi.coll, ?_, ?_⟩
    · intro q hq
      have : q ≠ p := by omega
      simp [upd_other _ _ _ _ this, hi.outside q hq]
    · intro q hq
      by_cases hqp : q = p
      · subst hqp; simp at hq
      · simp only [upd_other _ _ _ _ hqp] at hq ⊢; exact hi.idleDef q hq
    · intro q hq hne
      by_cases hqp : q = p
      · subst hqp; simp; exact hi.kbound q hq (by simp [h2])
      · simp only [upd_other _ _ _ _ hqp] at hne ⊢; exact hi.kbound q hq hne
    · intro q hq
      by_cases hqp : q = p
      · subst hqp
        apply hi.rootCur q
        simp only [upd_same] at hq
        rcases hq with hq | ⟨hq, _⟩
        · exact Or.inl hq
        · exact Or.inr ⟨hq, hl⟩
      · simp only [upd_other _ _ _ _ hqp] at hq; exact hi.rootCur q hq
    · intro q hq
      obtain ⟨hlt, hc⟩ := hi.inRoot q hq
      refine ⟨hlt, ?_⟩
      by_cases hqp : q = p
      · subst hqp
        simp only [upd_same]
        rcases hc with hc | ⟨hc, _⟩
        · exact Or.inl hc
        · exact Or.inr ⟨hc, by simp [PS.live]⟩
      · simp only [upd_other _ _ _ _ hqp]; exact hc
    · intro q hq
      by_cases hqp : q = p
      · subst hqp; simp only [upd_same] at hq ⊢; exact hi.owesK q hq
      · simp only [upd_other _ _ _ _ hqp] at hq ⊢; exact hi.owesK q hq
    · intro h q hq
      have := hi.quiet h p h1
      rw [busy_of_live hl] at this; cases this
    · intro q hq
      by_cases hqp : q = p
      · subst hqp; simp at hq
      · simp only [upd_other _ _ _ _ hqp] at hq ⊢; exact hi.stopsAt q hq
    · intro q o hq
      by_cases hqp : q = p
      · subst hqp; simp only [upd_same] at hq ⊢; injection hq with hq; exact hq.symm
      · simp only [upd_other _ _ _ _ hqp] at hq ⊢; exact hi.decidedOut q o hq
  | sendTry p o h1 h2 h3 =>
    have hl := live_decided h2
    have ho := hi.decidedOut p o h2
    refine ⟨?_, ?_, ?_, ?_, ?_, ?_, ?_, hi.coll, ?_, ?_⟩
    · intro q hq
      have : q ≠ p := by omega
      simp [upd_other _ _ _ _ this, hi.outside q hq]
    · intro q hq
      by_cases hqp : q = p
      · subst hqp; simp at hq
      · simp only [upd_other _ _ _ _ hqp] at hq ⊢; exact hi.idleDef q hq
    · intro q hq hne
      by_cases hqp : q = p
      · subst hqp; simp; exact hi.kbound q hq (by simp [h2])
      · simp only [upd_other _ _ _ _ hqp] at hne ⊢; exact hi.kbound q hq hne
    · intro q hq
      by_cases hqp : q = p
      · subst hqp
        apply hi.rootCur q
        simp only [upd_same] at hq
        rcases hq with hq | ⟨hq, _⟩
        · exact Or.inl hq
        · exact Or.inr ⟨hq, hl⟩
      · simp only [upd_other _ _ _ _ hqp] at hq; exact hi.rootCur q hq
    · intro q hq
      obtain ⟨hlt, hc⟩ := hi.inRoot q hq
      refine ⟨hlt, ?_⟩
      by_cases hqp : q = p
      · subst hqp
        simp only [upd_same]
        rcases hc with hc | ⟨hc, _⟩
        · exact Or.inl hc
        · exact Or.inr ⟨hc, by simp [PS.live]⟩
      · simp only [upd_other _ _ _ _ hqp]; exact hc
    · intro q hq
      by_cases hqp : q = p
      · subst hqp; simp only [upd_same] at hq ⊢; exact hi.owesK q hq
      · simp only [upd_other _ _ _ _ hqp] at hq ⊢; exact hi.owesK q hq
    · intro h q hq
      have := hi.quiet h p h1
      rw [busy_of_live hl] at this; cases this
    · intro q hq
      by_cases hqp : q = p
      · subst hqp; simp only [upd_same]; rw [← ho]; exact h3
      · simp only [upd_other _ _ _ _ hqp] at hq ⊢; exact hi.stopsAt q hq
    · intro q o' hq
      by_cases hqp : q = p
      · subst hqp; simp at hq
      · simp only [upd_other _ _ _ _ hqp] at hq ⊢; exact hi.decidedOut q o' hq
  | spawnRoot p o h1 h2 h3 h4 =>
    have hl := live_decided h2
    have hcur := hi.rootCur p (Or.inr ⟨h4, hl⟩)
    have hkb := hi.kbound p h1 (by simp [h2])
    refine ⟨?_, ?_, ?_, ?_, ?_, ?_, ?_, hi.coll, ?_, ?_⟩
    · intro q hq
      have : q ≠ p := by omega
      simp [upd_other _ _ _ _ this, hi.outside q hq]
    · intro q hq
      by_cases hqp : q = p
      · subst hqp; simp at hq
      · simp only [upd_other _ _ _ _ hqp] at hq ⊢; exact hi.idleDef q hq
    · intro q hq hne
      by_cases hqp : q = p
      · subst hqp; simp
        have := next_of_not_stops h3 hkb
        omega
      · simp only [upd_other _ _ _ _ hqp] at hne ⊢; exact hi.kbound q hq hne
    · intro q hq
      by_cases hqp : q = p
      · subst hqp; exact hcur
      · simp only [upd_other _ _ _ _ hqp] at hq; exact hi.rootCur q hq
    · intro q hq
      obtain ⟨hlt, hc⟩ := hi.inRoot q hq
      refine ⟨hlt, ?_⟩
      by_cases hqp : q = p
      · subst hqp; simp
      · simp only [upd_other _ _ _ _ hqp]; exact hc
    · intro q hq
      by_cases hqp : q = p
      · subst hqp; simp
      · simp only [upd_other _ _ _ _ hqp] at hq ⊢; exact hi.owesK q hq
    · intro h q hq
      have := hi.quiet h p h1
      rw [busy_of_live hl] at this; cases this
    · intro q hq
      by_cases hqp : q = p
      · subst hqp; simp at hq
      · simp only [upd_other _ _ _ _ hqp] at hq ⊢; exact hi.stopsAt q hq
    · intro q o' hq
      by_cases hqp : q = p
      · subst hqp; simp at hq
      · simp only [upd_other _ _ _ _ hqp] at hq ⊢; exact hi.decidedOut q o' hq
  | spawn p o h1 h2 h3 h4 =>
    have hl := live_decided h2
    have hkb := hi.kbound p h1 (by simp [h2])
    refine ⟨?_, ?_, ?_, ?_, ?_, ?_, ?_, hi.coll, ?_, ?_⟩
    · intro q hq
      have : q ≠ p := by omega
      simp [upd_other _ _ _ _ this, hi.outside q hq]
    · intro q hq
      by_cases hqp : q = p
      · subst hqp; simp at hq
      · simp only [upd_other _ _ _ _ hqp] at hq ⊢; exact hi.idleDef q hq
    · intro q hq hne
      by_cases hqp : q = p
      · subst hqp; simp; exact next_of_not_stops h3 hkb
      · simp only [upd_other _ _ _ _ hqp] at hne ⊢; exact hi.kbound q hq hne
    · intro q hq
      by_cases hqp : q = p
      · subst hqp
        simp only [upd_same] at hq
        rcases hq with hq | ⟨hq, _⟩
        · exact hi.rootCur q (Or.inl hq)
        · omega
      · simp only [upd_other _ _ _ _ hqp] at hq; exact hi.rootCur q hq
    · intro q hq
      obtain ⟨hlt, hc⟩ := hi.inRoot q hq
      refine ⟨hlt, ?_⟩
      by_cases hqp : q = p
      · subst hqp
        simp only [upd_same]
        rcases hc with hc | ⟨hc, _⟩
        · exact Or.inl hc
        · exact absurd hc h4
      · simp only [upd_other _ _ _ _ hqp]; exact hc
    · intro q hq
      by_cases hqp : q = p
      · subst hqp; simp
      · simp only [upd_other _ _ _ _ hqp] at hq ⊢; exact hi.owesK q hq
    · intro h q hq
      have := hi.quiet h p h1
      rw [busy_of_live hl] at this; cases this
    · intro q hq
      by_cases hqp : q = p
      · subst hqp; simp at hq
      · simp only [upd_other _ _ _ _ hqp] at hq ⊢; exact hi.stopsAt q hq
    · intro q o' hq
      by_cases hqp : q = p
      · subst hqp; simp at hq
      · simp only [upd_other _ _ _ _ hqp] at hq ⊢; exact hi.decidedOut q o' hq
  | rendezvous p h1 h2 h3 =>
    have hl := live_sending h2
    refine ⟨?_, ?_, ?_, ?_, ?_, ?_, ?_, hi.coll, ?_, ?_⟩
    · intro q hq
      have : q ≠ p := by omega
      simp [upd_other _ _ _ _ this, hi.outside q hq]
    · intro q hq
      by_cases hqp : q = p
      · subst hqp; simp at hq
      · simp only [upd_other _ _ _ _ hqp] at hq ⊢; exact hi.idleDef q hq
    · intro q hq hne
      by_cases hqp : q = p
      · subst hqp; simp; exact hi.kbound q hq (by simp [h2])
      · simp only [upd_other _ _ _ _ hqp] at hne ⊢; exact hi.kbound q hq hne
    · intro q hq
      by_cases hqp : q = p
      · subst hqp
        apply hi.rootCur q
        simp only [upd_same] at hq
        rcases hq with hq | ⟨hq, _⟩
        · exact Or.inl hq
        · exact Or.inr ⟨hq, hl⟩
      · simp only [upd_other _ _ _ _ hqp] at hq; exact hi.rootCur q hq
    · intro q hq
      obtain ⟨hlt, hc⟩ := hi.inRoot q hq
      refine ⟨hlt, ?_⟩
      by_cases hqp : q = p
      · subst hqp
        simp only [upd_same]
        rcases hc with hc | ⟨hc, _⟩
        · exact Or.inl hc
        · exact Or.inr ⟨hc, by simp [PS.live]⟩
      · simp only [upd_other _ _ _ _ hqp]; exact hc
    · intro q hq
      by_cases hqp : q = p
      · subst hqp; simp only [upd_same] at hq ⊢; exact hi.owesK q hq
      · simp only [upd_other _ _ _ _ hqp] at hq ⊢; exact hi.owesK q hq
    · intro h q hq
      have := hi.quiet h p h1
      rw [busy_of_live hl] at this; cases this
    · intro q hq
      by_cases hqp : q = p
      · subst hqp; simp only [upd_same]; exact hi.stopsAt q (Or.inl h2)
      · simp only [upd_other _ _ _ _ hqp] at hq ⊢; exact hi.stopsAt q hq
    · intro q o' hq
      by_cases hqp : q = p
      · subst hqp; simp at hq
      · simp only [upd_other _ _ _ _ hqp] at hq ⊢; exact hi.decidedOut q o' hq
  | sendAbort p h1 h2 h3 =>
    have hl := live_sending h2
    refine ⟨?_, ?_, ?_, ?_, ?_, ?_, ?_, hi.coll, ?_, ?_⟩
    · intro q hq
      have : q ≠ p := by omega
      simp [upd_other _ _ _ _ this, hi.outside q hq]
    · intro q hq
      by_cases hqp : q = p
      · subst hqp; simp at hq
      · simp only [upd_other _ _ _ _ hqp] at hq ⊢; exact hi.idleDef q hq
    · intro q hq hne
      by_cases hqp : q = p
      · subst hqp; simp; exact hi.kbound q hq (by simp [h2])
      · simp only [upd_other _ _ _ _ hqp] at hne ⊢; exact hi.kbound q hq hne
    · intro q hq
      by_cases hqp : q = p
      · subst hqp
        apply hi.rootCur q
        simp only [upd_same] at hq
        rcases hq with hq | ⟨hq, _⟩
        · exact Or.inl hq
        · exact Or.inr ⟨hq, hl⟩
      · simp only [upd_other _ _ _ _ hqp] at hq; exact hi.rootCur q hq
    · intro q hq
      obtain ⟨hlt, hc⟩ := hi.inRoot q hq
      refine ⟨hlt, ?_⟩
      by_cases hqp : q = p
      · subst hqp
        simp only [upd_same]
        rcases hc with hc | ⟨hc, _⟩
        · exact Or.inl hc
        · exact Or.inr ⟨hc, by simp [PS.live]⟩
      · simp only [upd_other _ _ _ _ hqp]; exact hc
    · intro q hq
      by_cases hqp : q = p
      · subst hqp; simp only [upd_same] at hq ⊢; exact hi.owesK q hq
      · simp only [upd_other _ _ _ _ hqp] at hq ⊢; exact hi.owesK q hq
    · intro h q hq
      have := hi.quiet h p h1
      rw [busy_of_live hl] at this; cases this
    · intro q hq
      by_cases hqp : q = p
      · subst hqp; simp only [upd_same]; exact hi.stopsAt q (Or.inl h2)
      · simp only [upd_other _ _ _ _ hqp] at hq ⊢; exact hi.stopsAt q hq
    · intro q o' hq
      by_cases hqp : q = p
      · subst hqp; simp at hq
      · simp only [upd_other _ _ _ _ hqp] at hq ⊢; exact hi.decidedOut q o' hq
  | doneCurRoot p h1 h2 h3 h4 =>
    have hl := live_finishing h2
    have hno : (s.ps p).rootOwes = false := by
      cases hr : (s.ps p).rootOwes with
      | false => rfl
      | true => exact absurd h3 (hi.owesK p hr)
    refine ⟨?_, ?_, ?_, ?_, ?_, ?_, ?_, (fun hc => Or.inl ((hi.coll hc).resolve_right (by rw [h4]; simp))), ?_, ?_⟩
    · intro q hq
      have : q ≠ p := by omega
      simp [upd_other _ _ _ _ this, hi.outside q hq]
    · intro q hq
      by_cases hqp : q = p
      · subst hqp; simp at hq
      · simp only [upd_other _ _ _ _ hqp] at hq ⊢; exact hi.idleDef q hq
    · intro q hq hne
      by_cases hqp : q = p
      · subst hqp; simp; exact hi.kbound q hq (by simp [h2])
      · simp only [upd_other _ _ _ _ hqp] at hne ⊢; exact hi.kbound q hq hne
    · intro q hq
      exfalso
      by_cases hqp : q = p
      · subst hqp
        simp only [upd_same] at hq
        rcases hq with hq | ⟨_, hq⟩
        · rw [hno] at hq; cases hq
        · simp [PS.live] at hq
      · simp only [upd_other _ _ _ _ hqp] at hq
        have := hi.rootCur q hq
        rw [h4] at this
        injection this with this
        exact hqp this.symm
    · intro q hq; simp at hq
    · intro q hq
      by_cases hqp : q = p
      · subst hqp; simp only [upd_same] at hq ⊢; exact hi.owesK q hq
      · simp only [upd_other _ _ _ _ hqp] at hq ⊢; exact hi.owesK q hq
    · intro h; simp at h
    · intro q hq
      by_cases hqp : q = p
      · subst hqp; simp only [upd_same]; exact hi.stopsAt q (Or.inr (Or.inl h2))
      · simp only [upd_other _ _ _ _ hqp] at hq ⊢; exact hi.stopsAt q hq
    · intro q o' hq
      by_cases hqp : q = p
      · subst hqp; simp at hq
      · simp only [upd_other _ _ _ _ hqp] at hq ⊢; exact hi.decidedOut q o' hq
  | doneCur p h1 h2 h3 =>
    have hl := live_finishing h2
    refine ⟨?_, ?_, ?_, ?_, ?_, ?_, ?_, hi.coll, ?_, ?_⟩
    · intro q hq
      have : q ≠ p := by omega
      simp [upd_other _ _ _ _ this, hi.outside q hq]
    · intro q hq
      by_cases hqp : q = p
      · subst hqp; simp at hq
      · simp only [upd_other _ _ _ _ hqp] at hq ⊢; exact hi.idleDef q hq
    · intro q hq hne
      by_cases hqp : q = p
      · subst hqp; simp; exact hi.kbound q hq (by simp [h2])
      · simp only [upd_other _ _ _ _ hqp] at hne ⊢; exact hi.kbound q hq hne
    · intro q hq
      by_cases hqp : q = p
      · subst hqp
        simp only [upd_same] at hq
        rcases hq with hq | ⟨hq, _⟩
        · exact hi.rootCur q (Or.inl hq)
        · exact absurd hq h3
      · simp only [upd_other _ _ _ _ hqp] at hq; exact hi.rootCur q hq
    · intro q hq
      obtain ⟨hlt, hc⟩ := hi.inRoot q hq
      refine ⟨hlt, ?_⟩
      by_cases hqp : q = p
      · subst hqp
        simp only [upd_same]
        rcases hc with hc | ⟨hc, _⟩
        · exact Or.inl hc
        · exact absurd hc h3
      · simp only [upd_other _ _ _ _ hqp]; exact hc
    · intro q hq
      by_cases hqp : q = p
      · subst hqp; simp only [upd_same] at hq ⊢; exact hi.owesK q hq
      · simp only [upd_other _ _ _ _ hqp] at hq ⊢; exact hi.owesK q hq
    · intro h q hq
      have := hi.quiet h p h1
      rw [busy_of_live hl] at this; cases this
    · intro q hq
      by_cases hqp : q = p
      · subst hqp; simp only [upd_same]; exact hi.stopsAt q (Or.inr (Or.inl h2))
      · simp only [upd_other _ _ _ _ hqp] at hq ⊢; exact hi.stopsAt q hq
    · intro q o' hq
      by_cases hqp : q = p
      · subst hqp; simp at hq
      · simp only [upd_other _ _ _ _ hqp] at hq ⊢; exact hi.decidedOut q o' hq
  | doneOwing p h1 h2 =>
    have hb : (s.ps p).busy = true := by rw [busy_eq]; simp [h2]
    refine ⟨?_, ?_, ?_, ?_, ?_, ?_, ?_, hi.coll, ?_, ?_⟩
    · intro q hq
      have : q ≠ p := by omega
      simp [upd_other _ _ _ _ this, hi.outside q hq]
    · intro q hq
      by_cases hqp : q = p
      · subst hqp
        simp only [upd_same] at hq
        have := hi.idleDef q hq
        rw [this] at h2; simp at h2
      · simp only [upd_other _ _ _ _ hqp] at hq ⊢; exact hi.idleDef q hq
    · intro q hq hne
      by_cases hqp : q = p
      · subst hqp; simp only [upd_same] at hne ⊢; exact hi.kbound q hq hne
      · simp only [upd_other _ _ _ _ hqp] at hne ⊢; exact hi.kbound q hq hne
    · intro q hq
      by_cases hqp : q = p
      · subst hqp; simp only [upd_same] at hq; exact hi.rootCur q hq
      · simp only [upd_other _ _ _ _ hqp] at hq; exact hi.rootCur q hq
    · intro q hq
      obtain ⟨hlt, hc⟩ := hi.inRoot q hq
      refine ⟨hlt, ?_⟩
      by_cases hqp : q = p
      · subst hqp; simp only [upd_same]; exact hc
      · simp only [upd_other _ _ _ _ hqp]; exact hc
    · intro q hq
      by_cases hqp : q = p
      · subst hqp; simp only [upd_same] at hq ⊢; exact hi.owesK q hq
      · simp only [upd_other _ _ _ _ hqp] at hq ⊢; exact hi.owesK q hq
    · intro h q hq
      have := hi.quiet h p h1
      rw [hb] at this; cases this
    · intro q hq
      by_cases hqp : q = p
      · subst hqp; simp only [upd_same] at hq ⊢; exact hi.stopsAt q hq
      · simp only [upd_other _ _ _ _ hqp] at hq ⊢; exact hi.stopsAt q hq
    · intro q o' hq
      by_cases hqp : q = p
      · subst hqp; simp only [upd_same] at hq ⊢; exact hi.decidedOut q o' hq
      · simp only [upd_other _ _ _ _ hqp] at hq ⊢; exact hi.decidedOut q o' hq
  | doneRoot p h1 h2 h3 =>
    have hk := hi.owesK p h2
    refine ⟨?_, ?_, ?_, ?_, ?_, ?_, ?_, (fun hc => Or.inl ((hi.coll hc).resolve_right (by rw [h3]; simp))), ?_, ?_⟩
    · intro q hq
      have : q ≠ p := by omega
      simp [upd_other _ _ _ _ this, hi.outside q hq]
    · intro q hq
      by_cases hqp : q = p
      · subst hqp
        simp only [upd_same] at hq
        have := hi.idleDef q hq
        rw [this] at h2; simp at h2
      · simp only [upd_other _ _ _ _ hqp] at hq ⊢; exact hi.idleDef q hq
    · intro q hq hne
      by_cases hqp : q = p
      · subst hqp; simp only [upd_same] at hne ⊢; exact hi.kbound q hq hne
      · simp only [upd_other _ _ _ _ hqp] at hne ⊢; exact hi.kbound q hq hne
    · intro q hq
      exfalso
      by_cases hqp : q = p
      · subst hqp
        simp only [upd_same] at hq
        rcases hq with hq | ⟨hq, _⟩
        · cases hq
        · exact hk hq
      · simp only [upd_other _ _ _ _ hqp] at hq
        have := hi.rootCur q hq
        rw [h3] at this
        injection this with this
        exact hqp this.symm
    · intro q hq; simp at hq
    · intro q hq
      by_cases hqp : q = p
      · subst hqp; simp at hq
      · simp only [upd_other _ _ _ _ hqp] at hq ⊢; exact hi.owesK q hq
    · intro h; simp at h
    · intro q hq
      by_cases hqp : q = p
      · subst hqp; simp only [upd_same] at hq ⊢; exact hi.stopsAt q hq
      · simp only [upd_other _ _ _ _ hqp] at hq ⊢; exact hi.stopsAt q hq
    · intro q o' hq
      by_cases hqp : q = p
      · subst hqp; simp only [upd_same] at hq ⊢; exact hi.decidedOut q o' hq
      · simp only [upd_other _ _ _ _ hqp] at hq ⊢; exact hi.decidedOut q o' hq
  | waitEnd h1 h2 =>
    refine ⟨hi.outside, hi.idleDef, hi.kbound, ?_, ?_, hi.owesK, fun _ => h2, (fun hc => Or.inl ((hi.coll hc).resolve_right (by rw [h1]; simp))), hi.stopsAt, hi.decidedOut⟩
    · intro p hp; have := hi.rootCur p hp; rw [h1] at this; cases this
    · intro p hp; simp at hp
  | close h1 =>
    refine ⟨hi.outside, hi.idleDef, hi.kbound, ?_, ?_, hi.owesK, fun _ => hi.quiet (Or.inl h1), ?_, hi.stopsAt, hi.decidedOut⟩
    · intro p hp; have := hi.rootCur p hp; rw [h1] at this; cases this
    · intro p hp; simp at hp
    · intro _; exact Or.inr rfl
  | collectCtx h1 h2 =>
    exact ⟨hi.outside, hi.idleDef, hi.kbound, hi.rootCur, hi.inRoot, hi.owesK, hi.quiet, fun _ => Or.inl h2, hi.stopsAt, hi.decidedOut⟩
  | collectClosed h1 h2 =>
    exact ⟨hi.outside, hi.idleDef, hi.kbound, hi.rootCur, hi.inRoot, hi.owesK, hi.quiet, fun _ => Or.inr h2, hi.stopsAt, hi.decidedOut⟩

theorem pinv_reach {c : Cfg} (hlen : ∀ p, p < c.n → 0 < c.len p) {s : S} (h : Reach c s) : PInv c s := by
  induction h with
  | init => exact pinv_init c
  | step l _ hf ih => exact pinv_step hlen ih (fire_sound hf)

end Evl.Dispatch
