import Evl.Lemmas.Registry
/-! The registry invariant and its preservation by every operation (used by C05, C06, C07, C20). -/
namespace Evl.Registry

structure Inv (b : Broker) : Prop where
  nkeys : (b.nodes.map (·.1)).Nodup
  pkeys : (b.pipes.map key).Nodup
  /-- reference count = number of registered pipelines listing the node -/
  refs : ∀ id e, (id, e) ∈ b.nodes → e.refs = listing b.pipes id
  /-- every node a registered pipeline lists is registered -/
  listed : ∀ p ∈ b.pipes, ∀ id, p.ids.contains id = true → ∃ e, (id, e) ∈ b.nodes
  /-- every pipeline lives in an existing graph -/
  graphs : ∀ p ∈ b.pipes, (lookupGraph b.graphs p.ty).isSome = true

theorem inv_init : Inv init := by
  constructor <;> simp [init, listing]

/-! ### graphs -/

theorem lookupGraph_ensure_self (gs : List Graph) (ty : Nat) :
    (lookupGraph (ensureGraph gs ty) ty).isSome = true := by
  unfold ensureGraph
  cases h : lookupGraph gs ty with
  | some g => simp [h]
  | none =>
    simp only
    unfold lookupGraph at h ⊢
    rw [List.find?_append, h]
    simp [List.find?]

theorem lookupGraph_ensure_mono (gs : List Graph) (ty t : Nat) (h : (lookupGraph gs t).isSome = true) :
    (lookupGraph (ensureGraph gs ty) t).isSome = true := by
  unfold ensureGraph
  cases h2 : lookupGraph gs ty with
  | some g => simpa [h2] using h
  | none =>
    simp only
    unfold lookupGraph at h ⊢
    rw [List.find?_append]
    cases h3 : List.find? (fun g => g.ty == t) gs with
    | some g => simp
    | none => simp [h3] at h

theorem lookupGraph_map_isSome (gs : List Graph) (f : Graph → Graph) (hf : ∀ g, (f g).ty = g.ty) (t : Nat) :
    (lookupGraph (gs.map f) t).isSome = (lookupGraph gs t).isSome := by
  unfold lookupGraph
  induction gs with
  | nil => rfl
  | cons g gs ih =>
    rw [List.map_cons, List.find?_cons, List.find?_cons, hf]
    cases (g.ty == t)
    · exact ih
    · rfl

/-! ### resolve -/

theorem resolve_ids {ns : List (Nat × NodeEntry)} {ids : List Nat} {bs : List Bound}
    (h : resolve ns ids = some bs) : bs.map (·.id) = ids := by
  induction ids generalizing bs with
  | nil => simp [resolve] at h; subst h; rfl
  | cons id rest ih =>
    unfold resolve at h
    cases hl : lookupNode ns id with
    | none => simp [hl] at h
    | some e =>
      simp only [hl] at h
      cases hr : resolve ns rest with
      | none => simp [hr] at h
      | some bs' =>
        simp only [hr] at h
        injection h with h
        subst h
        simp [ih hr]

theorem resolve_registered {ns : List (Nat × NodeEntry)} {ids : List Nat} {bs : List Bound}
    (h : resolve ns ids = some bs) : ∀ id ∈ ids, ∃ e, (id, e) ∈ ns := by
  induction ids generalizing bs with
  | nil => simp
  | cons id rest ih =>
    unfold resolve at h
    cases hl : lookupNode ns id with
    | none => simp [hl] at h
    | some e =>
      simp only [hl] at h
      cases hr : resolve ns rest with
      | none => simp [hr] at h
      | some bs' =>
        intro i hi
        rw [List.mem_cons] at hi
        rcases hi with hi | hi
        · subst hi; exact ⟨e, lookupNode_eq_some hl⟩
        · exact ih hr i hi

theorem resolve_isSome_iff {ns : List (Nat × NodeEntry)} {ids : List Nat} :
    (resolve ns ids).isSome = true ↔ ∀ id ∈ ids, (lookupNode ns id).isSome = true := by
  induction ids with
  | nil => simp [resolve]
  | cons id rest ih =>
    unfold resolve
    cases hl : lookupNode ns id with
    | none => simp [hl]
    | some e =>
      simp only [hl]
      cases hr : resolve ns rest with
      | none =>
        simp only [hr] at ih
        simp only [Option.isSome_none, Bool.false_eq_true, List.mem_cons, forall_eq_or_imp, hl,
          Option.isSome_some, true_and, false_iff]
        intro h
        exact absurd (ih.mpr h) (by simp)
      | some bs =>
        simp only [hr] at ih
        simp only [Option.isSome_some, List.mem_cons, forall_eq_or_imp, hl, true_and, true_iff]
        exact ih.mp rfl

/-! ### counting -/

theorem listing_pos_of_mem {ps : List Pipe} {p : Pipe} (hp : p ∈ ps) {id : Nat} (h : p.ids.contains id = true) :
    0 < listing ps id := by
  unfold listing
  exact List.countP_pos_iff.mpr ⟨p, hp, h⟩

theorem listing_zero_iff {ps : List Pipe} {id : Nat} :
    listing ps id = 0 ↔ ∀ p ∈ ps, p.ids.contains id = false := by
  unfold listing
  rw [List.countP_eq_zero]
  constructor
  · intro h p hp
    have := h p hp
    simpa using this
  · intro h p hp
    have := h p hp
    simpa using this

/-! ### preservation, one operation at a time -/

theorem inv_regNode {b : Broker} (hi : Inv b) (id ty : Nat) (beh : Beh) (cf : Bool) (pol : Pol) :
    Inv (step b (.regNode id ty beh cf pol)).1 := by
  show Inv (stepRegNode b id ty beh cf pol).1
  unfold stepRegNode
  split
  · exact hi
  split
  · exact hi
  cases hl : lookupNode b.nodes id with
  | none =>
    simp only
    refine ⟨keys_putNode_nodup hi.nkeys _ _, hi.pkeys, ?_, ?_, hi.graphs⟩
    · intro i e hm
      rcases mem_putNode.mp hm with ⟨hm, _⟩ | heq
      · exact hi.refs i e hm
      · injection heq with h1 h2
        subst h1; subst h2
        simp only
        symm
        apply listing_zero_iff.mpr
        intro p hp
        cases hc : p.ids.contains i with
        | false => rfl
        | true =>
          obtain ⟨e, he⟩ := hi.listed p hp i hc
          exact absurd he (lookupNode_none hl e)
    · intro p hp i hc
      obtain ⟨e, he⟩ := hi.listed p hp i hc
      by_cases hii : i = id
      · exact ⟨_, mem_putNode.mpr (Or.inr (by rw [hii]))⟩
      · exact ⟨e, mem_putNode.mpr (Or.inl ⟨he, hii⟩)⟩
  | some old =>
    simp only
    split
    · exact hi
    · rename_i refs hc
      have hrefs : refs = old.refs := by
        split at hc
        · simp at hc
        · injection hc with hc; exact hc.symm
      refine ⟨keys_putNode_nodup hi.nkeys _ _, hi.pkeys, ?_, ?_, hi.graphs⟩
      · intro i e hm
        rcases mem_putNode.mp hm with ⟨hm, _⟩ | heq
        · exact hi.refs i e hm
        · injection heq with h1 h2
          subst h1; subst h2
          simp only
          rw [hrefs]
          exact hi.refs _ _ (lookupNode_eq_some hl)
      · intro p hp i hc
        obtain ⟨e, he⟩ := hi.listed p hp i hc
        by_cases hii : i = id
        · exact ⟨_, mem_putNode.mpr (Or.inr (by rw [hii]))⟩
        · exact ⟨e, mem_putNode.mpr (Or.inl ⟨he, hii⟩)⟩

theorem inv_removeNode {b : Broker} (hi : Inv b) (id : Nat) : Inv (step b (.removeNode id)).1 := by
  show Inv (stepRemoveNode b id).1
  unfold stepRemoveNode
  split
  · exact hi
  cases hl : lookupNode b.nodes id with
  | none => exact hi
  | some e =>
    simp only
    split
    · exact hi
    · rename_i hz
      have hz' : e.refs = 0 := by omega
      have hl0 : listing b.pipes id = 0 := by
        rw [← hi.refs id e (lookupNode_eq_some hl)]; exact hz'
      refine ⟨keys_eraseNode_nodup hi.nkeys _, hi.pkeys, ?_, ?_, hi.graphs⟩
      · intro i e' hm
        exact hi.refs i e' (mem_eraseNode.mp hm).1
      · intro p hp i hc
        obtain ⟨e', he'⟩ := hi.listed p hp i hc
        refine ⟨e', mem_eraseNode.mpr ⟨he', ?_⟩⟩
        intro hii
        simp only at hii
        subst hii
        have := listing_zero_iff.mp hl0 p hp
        rw [this] at hc
        exact absurd hc (by simp)

/-- effect of releasing an existing pipeline and acquiring a new id list, on one entry -/
theorem refs_after_swap {ps : List Pipe} (hnd : (ps.map key).Nodup) {ty pid : Nat} (old : Option Pipe)
    (hold : lookupPipe ps ty pid = old) (p : Pipe) (hp : key p = (ty, pid))
    (ns : List (Nat × NodeEntry)) (hrefs : ∀ id e, (id, e) ∈ ns → e.refs = listing ps id)
    (id : Nat) (e : NodeEntry)
    (hm : (id, e) ∈ acquire (releaseOld ns old) p.ids) :
    e.refs = listing (erasePipe ps ty pid ++ [p]) id := by
  obtain ⟨e1, hm1, he⟩ := mem_acquire.mp hm
  rw [listing_append]
  have hlast : listing [p] id = if p.ids.contains id then 1 else 0 := by
    simp [listing, List.countP_cons]
  rw [hlast]
  cases old with
  | none =>
    simp only [releaseOld] at hm1
    rw [erasePipe_of_none hold]
    have := hrefs id e1 hm1
    rw [he]
    split <;> simp [this]
  | some o =>
    simp only [releaseOld] at hm1
    obtain ⟨e0, hm0, he1⟩ := mem_release.mp hm1
    have h0 := hrefs id e0 hm0
    have hcount := listing_erasePipe hnd hold id
    have hom := (lookupPipe_some hold).1
    rw [he, he1]
    by_cases hc : o.ids.contains id = true
    · have hpos : 0 < listing ps id := listing_pos_of_mem hom hc
      have hpos' : decide (e0.refs > 0) = true := by simp; omega
      simp only [hc, hpos', Bool.and_self, if_true] at hcount ⊢
      split <;> simp <;> omega
    · have hc' : o.ids.contains id = false := by simpa using hc
      simp only [hc', Bool.false_and, Bool.false_eq_true, if_false] at hcount ⊢
      split <;> simp <;> omega

theorem mem_keys_acquire {ns : List (Nat × NodeEntry)} {ids : List Nat} {id : Nat} :
    (∃ e, (id, e) ∈ acquire ns ids) ↔ ∃ e, (id, e) ∈ ns := by
  constructor
  · rintro ⟨e, he⟩; obtain ⟨e0, h0, _⟩ := mem_acquire.mp he; exact ⟨e0, h0⟩
  · rintro ⟨e, he⟩; exact ⟨_, mem_acquire.mpr ⟨e, he, rfl⟩⟩

theorem mem_keys_release {ns : List (Nat × NodeEntry)} {ids : List Nat} {id : Nat} :
    (∃ e, (id, e) ∈ release ns ids) ↔ ∃ e, (id, e) ∈ ns := by
  constructor
  · rintro ⟨e, he⟩; obtain ⟨e0, h0, _⟩ := mem_release.mp he; exact ⟨e0, h0⟩
  · rintro ⟨e, he⟩; exact ⟨_, mem_release.mpr ⟨e, he, rfl⟩⟩

theorem inv_with_graphs {b : Broker} (hi : Inv b) (gs : List Graph)
    (hg : ∀ t, (lookupGraph b.graphs t).isSome = true → (lookupGraph gs t).isSome = true) :
    Inv { b with graphs := gs } :=
  ⟨hi.nkeys, hi.pkeys, hi.refs, hi.listed, fun p hp => hg _ (hi.graphs p hp)⟩

theorem inv_regPipe {b : Broker} (hi : Inv b) (ty pid : Nat) (ids : List Nat) (pol : Pol) :
    Inv (step b (.regPipe ty pid ids pol)).1 := by
  show Inv (stepRegPipe b ty pid ids pol).1
  unfold stepRegPipe
  split
  · exact hi
  split
  · exact hi
  have hi1 : Inv { b with graphs := ensureGraph b.graphs ty } :=
    inv_with_graphs hi _ (fun t h => lookupGraph_ensure_mono _ _ _ h)
  simp only
  split
  · exact hi1
  cases hr : resolve b.nodes ids with
  | none => exact hi1
  | some bound =>
    simp only
    cases hv : validateChain none (bound.map (·.ty)) with
    | some e => exact hi1
    | none =>
      simp only
      have hids : (bound.map (·.id)) = ids := resolve_ids hr
      let p : Pipe := { ty := ty, pid := pid, nodes := bound, deny := polDeny pol }
      have hpids : p.ids = ids := hids
      refine ⟨?_, keys_erasePipe_append_nodup hi.pkeys p, ?_, ?_, ?_⟩
      · simp only
        rw [keys_acquire]
        cases lookupPipe b.pipes ty pid with
        | none => exact hi.nkeys
        | some o => simp only [releaseOld]; rw [keys_release]; exact hi.nkeys
      · intro id e hm
        have := refs_after_swap hi.pkeys (lookupPipe b.pipes ty pid) rfl p rfl b.nodes hi.refs id e
        rw [hpids] at this
        exact this hm
      · intro q hq id hc
        simp only at hq
        rw [List.mem_append] at hq
        apply mem_keys_acquire.mpr
        have hbase : ∃ e, (id, e) ∈ b.nodes := by
          rcases hq with hq | hq
          · exact hi.listed q (mem_erasePipe.mp hq).1 id hc
          · simp at hq
            subst hq
            have : id ∈ ids := by
              have : id ∈ p.ids := by simpa using hc
              rwa [hpids] at this
            exact resolve_registered hr id this
        cases lookupPipe b.pipes ty pid with
        | none => exact hbase
        | some o => simp only [releaseOld]; exact mem_keys_release.mpr hbase
      · intro q hq
        simp only at hq
        rw [List.mem_append] at hq
        rcases hq with hq | hq
        · exact lookupGraph_ensure_mono _ _ _ (hi.graphs q (mem_erasePipe.mp hq).1)
        · simp at hq
          subst hq
          exact lookupGraph_ensure_self _ _

theorem inv_removePipe {b : Broker} (hi : Inv b) (ty pid : Nat) : Inv (step b (.removePipe ty pid)).1 := by
  show Inv (stepRemovePipe b ty pid).1
  unfold stepRemovePipe
  split
  · exact hi
  split
  · exact hi
  cases hg : lookupGraph b.graphs ty with
  | none => exact hi
  | some g =>
    simp only
    cases ho : lookupPipe b.pipes ty pid with
    | none =>
      simp only [releaseOld]
      rw [erasePipe_of_none ho]
      exact hi
    | some o =>
      simp only [releaseOld]
      have hom := (lookupPipe_some ho).1
      refine ⟨by rw [keys_release]; exact hi.nkeys, keys_erasePipe_nodup hi.pkeys _ _, ?_, ?_, ?_⟩
      · intro id e hm
        obtain ⟨e0, hm0, he⟩ := mem_release.mp hm
        have h0 := hi.refs id e0 hm0
        have hcount := listing_erasePipe hi.pkeys ho id
        rw [he]
        by_cases hc : o.ids.contains id = true
        · have hpos : 0 < listing b.pipes id := listing_pos_of_mem hom hc
          have hpos' : decide (e0.refs > 0) = true := by simp; omega
          simp only [hc, hpos', Bool.and_self, if_true] at hcount ⊢
          omega
        · have hc' : o.ids.contains id = false := by simpa using hc
          simp only [hc', Bool.false_and, Bool.false_eq_true, if_false] at hcount ⊢
          omega
      · intro q hq id hc
        exact mem_keys_release.mpr (hi.listed q (mem_erasePipe.mp hq).1 id hc)
      · intro q hq
        exact hi.graphs q (mem_erasePipe.mp hq).1

theorem detach_keep_iff (ids : List Nat) (x : Nat × NodeEntry) :
    (!(ids.contains x.1 && decide (x.2.refs ≤ 1))) = true ↔ ¬ (ids.contains x.1 = true ∧ x.2.refs ≤ 1) := by
  simp only [Bool.not_eq_true', Bool.and_eq_false_iff, decide_eq_false_iff_not, not_and]
  constructor
  · intro h h1 h2; rcases h with h | h
    · rw [h1] at h; exact absurd h (by simp)
    · exact h h2
  · intro h
    by_cases h1 : ids.contains x.1 = true
    · right; exact h h1
    · left; simpa using h1

theorem mem_detach_kept {ns : List (Nat × NodeEntry)} {ids : List Nat} {id : Nat} {e : NodeEntry} :
    (id, e) ∈ (detachAll ns ids).1 ↔
      ∃ e0, (id, e0) ∈ ns ∧ ¬ (ids.contains id = true ∧ e0.refs ≤ 1) ∧
        e = (if ids.contains id then { e0 with refs := e0.refs - 1 } else e0) := by
  unfold detachAll
  simp only [List.mem_map, List.mem_filter]
  constructor
  · rintro ⟨⟨i0, e0⟩, ⟨hm, hk⟩, heq⟩
    have hk' := (detach_keep_iff ids (i0, e0)).mp hk
    by_cases hc : ids.contains i0 = true
    · rw [if_pos hc] at heq
      injection heq with h1 h2
      subst h1
      exact ⟨e0, hm, hk', by rw [if_pos hc]; exact h2.symm⟩
    · rw [if_neg hc] at heq
      injection heq with h1 h2
      subst h1
      exact ⟨e0, hm, hk', by rw [if_neg hc]; exact h2.symm⟩
  · rintro ⟨e0, hm, hk, heq⟩
    refine ⟨(id, e0), ⟨hm, (detach_keep_iff ids (id, e0)).mpr hk⟩, ?_⟩
    by_cases hc : ids.contains id = true
    · rw [if_pos hc] at heq ⊢; rw [heq]
    · rw [if_neg hc] at heq ⊢; rw [heq]

theorem keys_detach_kept_nodup {ns : List (Nat × NodeEntry)} (h : (ns.map (·.1)).Nodup) (ids : List Nat) :
    ((detachAll ns ids).1.map (·.1)).Nodup := by
  unfold detachAll
  simp only
  rw [List.map_map]
  have : ((fun x : Nat × NodeEntry => x.1) ∘ fun x : Nat × NodeEntry =>
      if ids.contains x.1 = true then (x.1, { x.2 with refs := x.2.refs - 1 }) else x) = (fun x => x.1) := by
    funext x
    simp only [Function.comp]
    split <;> rfl
  rw [this]
  exact List.Nodup.sublist (List.Sublist.map _ List.filter_sublist) h

theorem inv_rpan {b : Broker} (hi : Inv b) (ty pid : Nat) : Inv (step b (.rpan ty pid)).1 := by
  show Inv (stepRpan b ty pid).1
  unfold stepRpan
  split
  · exact hi
  split
  · exact hi
  cases hg : lookupGraph b.graphs ty with
  | none => exact hi
  | some g =>
    simp only
    cases ho : lookupPipe b.pipes ty pid with
    | none => exact hi
    | some o =>
      simp only
      have hom := (lookupPipe_some ho).1
      refine ⟨keys_detach_kept_nodup hi.nkeys _, keys_erasePipe_nodup hi.pkeys _ _, ?_, ?_, ?_⟩
      · intro id e hm
        obtain ⟨e0, hm0, hk, he⟩ := mem_detach_kept.mp hm
        have h0 := hi.refs id e0 hm0
        have hcount := listing_erasePipe hi.pkeys ho id
        rw [he]
        by_cases hc : o.ids.contains id = true
        · simp only [hc, if_true] at hcount ⊢
          omega
        · have hc' : o.ids.contains id = false := by simpa using hc
          simp only [hc', Bool.false_eq_true, if_false] at hcount ⊢
          omega
      · intro q hq id hc
        have hq' := mem_erasePipe.mp hq
        obtain ⟨e0, he0⟩ := hi.listed q hq'.1 id hc
        refine ⟨_, mem_detach_kept.mpr ⟨e0, he0, ?_, rfl⟩⟩
        rintro ⟨hoc, hle⟩
        have h0 := hi.refs id e0 he0
        have hcount := listing_erasePipe hi.pkeys ho id
        have hpos : 0 < listing (erasePipe b.pipes ty pid) id := listing_pos_of_mem hq hc
        simp only [hoc, if_true] at hcount
        omega
      · intro q hq
        exact hi.graphs q (mem_erasePipe.mp hq).1

theorem inv_step {b : Broker} (hi : Inv b) (op : Op) : Inv (step b op).1 := by
  cases op with
  | regNode id ty beh cf pol => exact inv_regNode hi id ty beh cf pol
  | removeNode id => exact inv_removeNode hi id
  | regPipe ty pid ids pol => exact inv_regPipe hi ty pid ids pol
  | removePipe ty pid => exact inv_removePipe hi ty pid
  | rpan ty pid => exact inv_rpan hi ty pid
  | setThr ty n =>
    show Inv (stepSetThr b ty n).1
    unfold stepSetThr
    split
    · exact hi
    split
    · exact hi
    exact inv_with_graphs hi _ (fun t h => by
      rw [lookupGraph_map_isSome _ _ (by intro g; split <;> rfl)]
      exact lookupGraph_ensure_mono _ _ _ h)
  | setThrSinks ty n =>
    show Inv (stepSetThrSinks b ty n).1
    unfold stepSetThrSinks
    split
    · exact hi
    split
    · exact hi
    exact inv_with_graphs hi _ (fun t h => by
      rw [lookupGraph_map_isSome _ _ (by intro g; split <;> rfl)]
      exact lookupGraph_ensure_mono _ _ _ h)
  | getThr ty => show Inv (stepGetThr b ty).1; unfold stepGetThr; split <;> exact hi
  | getThrSinks ty => show Inv (stepGetThrSinks b ty).1; unfold stepGetThrSinks; split <;> exact hi
  | isAny ty => exact hi
  | send ty => show Inv (stepSend b ty).1; unfold stepSend; split <;> exact hi
  | reopen f => exact hi

theorem inv_run (ops : List Op) {b : Broker} (hi : Inv b) : Inv (run b ops) := by
  induction ops generalizing b with
  | nil => exact hi
  | cons op rest ih => exact ih (inv_step hi op)

end Evl.Registry
