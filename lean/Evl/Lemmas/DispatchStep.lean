import Evl.Model.Dispatch
/-! Inductive presentation of `Dispatch.fire` (one constructor per label, hypotheses spelled out),
proved equivalent to `fire`; invariants are proved by case analysis on it. -/
namespace Evl.Dispatch

def PS.live (x : PS) : Bool :=
  match x.ph with
  | .idle => false
  | .finished => false
  | _ => true

theorem busy_eq (x : PS) : x.busy = (x.live || decide (x.owing > 0) || x.rootOwes) := by
  unfold PS.busy PS.live; rfl

inductive StepI (c : Cfg) : S → S → Prop
  | cancel {s} : s.ctxDone = false → StepI c s { s with ctxDone := true }
  | rangeStart {s} (p : Nat) : s.rg = .idle → p < c.n → (s.ps p).ph = .idle →
      StepI c s { s with rg := .inRoot p, ps := upd s.ps p { s.ps p with ph := .calling, k := 0 }, inv := s.inv ++ [(p, 0)] }
  | rangeStop {s} (q : Nat) : s.rg = .idle → s.ctxDone = true → q < c.n → (s.ps q).ph = .idle →
      StepI c s { s with rg := .waiting }
  | rangeEnd {s} : s.rg = .idle → (∀ p, p < c.n → (s.ps p).ph ≠ .idle) → StepI c s { s with rg := .waiting }
  | ret {s} (p : Nat) : p < c.n → (s.ps p).ph = .calling →
      StepI c s { s with ps := upd s.ps p { s.ps p with ph := .decided (c.out p (s.ps p).k) } }
  | sendTry {s} (p : Nat) (o : Outcome) : p < c.n → (s.ps p).ph = .decided o → stops c p (s.ps p).k o = true →
      StepI c s { s with ps := upd s.ps p { s.ps p with ph := .sending } }
  | spawnRoot {s} (p : Nat) (o : Outcome) : p < c.n → (s.ps p).ph = .decided o → stops c p (s.ps p).k o = false →
      (s.ps p).k = 0 →
      StepI c s { s with ps := upd s.ps p { s.ps p with ph := .calling, k := 1, rootOwes := true },
                         inv := s.inv ++ [(p, (s.ps p).k + 1)] }
  | spawn {s} (p : Nat) (o : Outcome) : p < c.n → (s.ps p).ph = .decided o → stops c p (s.ps p).k o = false →
      (s.ps p).k ≠ 0 →
      StepI c s { s with ps := upd s.ps p { s.ps p with ph := .calling, k := (s.ps p).k + 1, owing := (s.ps p).owing + 1 },
                         inv := s.inv ++ [(p, (s.ps p).k + 1)] }
  | rendezvous {s} (p : Nat) : p < c.n → (s.ps p).ph = .sending → s.collExited = false →
      StepI c s { s with ps := upd s.ps p { s.ps p with ph := .finishing },
                         got := s.got ++ [(p, (s.ps p).k, c.out p (s.ps p).k == .err)] }
  | sendAbort {s} (p : Nat) : p < c.n → (s.ps p).ph = .sending → s.ctxDone = true →
      StepI c s { s with ps := upd s.ps p { s.ps p with ph := .finishing } }
  | doneCurRoot {s} (p : Nat) : p < c.n → (s.ps p).ph = .finishing → (s.ps p).k = 0 → s.rg = .inRoot p →
      StepI c s { s with rg := .idle, ps := upd s.ps p { s.ps p with ph := .finished } }
  | doneCur {s} (p : Nat) : p < c.n → (s.ps p).ph = .finishing → (s.ps p).k ≠ 0 →
      StepI c s { s with ps := upd s.ps p { s.ps p with ph := .finished } }
  | doneOwing {s} (p : Nat) : p < c.n → (s.ps p).owing > 0 →
      StepI c s { s with ps := upd s.ps p { s.ps p with owing := (s.ps p).owing - 1 } }
  | doneRoot {s} (p : Nat) : p < c.n → (s.ps p).rootOwes = true → s.rg = .inRoot p →
      StepI c s { s with rg := .idle, ps := upd s.ps p { s.ps p with rootOwes := false } }
  | waitEnd {s} : s.rg = .waiting → (∀ p, p < c.n → (s.ps p).busy = false) → StepI c s { s with rg := .waited }
  | close {s} : s.rg = .waited → StepI c s { s with rg := .closed }
  | collectCtx {s} : s.collExited = false → s.ctxDone = true → StepI c s { s with collExited := true }
  | collectClosed {s} : s.collExited = false → s.rg = .closed → StepI c s { s with collExited := true }

theorem allBelow_iff (n : Nat) (f : Nat → Bool) : allBelow n f = true ↔ ∀ p, p < n → f p = true := by
  simp [allBelow, List.all_eq_true]

theorem anyBelow_iff (n : Nat) (f : Nat → Bool) : anyBelow n f = true ↔ ∃ p, p < n ∧ f p = true := by
  simp [anyBelow, List.any_eq_true]

theorem fire_sound {c : Cfg} {s s' : S} {l : Label} (h : fire c s l = some s') : StepI c s s' := by
  cases l with
  | cancel =>
    simp only [fire] at h
    split at h
    · cases h
    · rename_i hc; injection h with h; subst h; exact .cancel (by simpa using hc)
  | rangeStart p =>
    simp only [fire] at h
    split at h
    · rename_i hc; injection h with h; subst h; exact .rangeStart p hc.1 hc.2.1 hc.2.2
    · cases h
  | rangeStop =>
    simp only [fire] at h
    split at h
    · rename_i hc; injection h with h; subst h
      obtain ⟨q, hq, hidle⟩ := (anyBelow_iff _ _).mp hc.2.2
      exact .rangeStop q hc.1 hc.2.1 hq (by simpa using hidle)
    · cases h
  | rangeEnd =>
    simp only [fire] at h
    split at h
    · rename_i hc; injection h with h; subst h
      refine .rangeEnd hc.1 ?_
      intro p hp
      have := (allBelow_iff _ _).mp hc.2 p hp
      simpa using this
    · cases h
  | ret p =>
    simp only [fire] at h
    split at h
    · rename_i hc; injection h with h; subst h; exact .ret p hc.1 hc.2
    · cases h
  | sendTry p =>
    simp only [fire] at h
    split at h
    · rename_i o ho
      split at h
      · rename_i hc; injection h with h; subst h; exact .sendTry p o hc.1 ho hc.2
      · cases h
    · cases h
  | spawn p =>
    simp only [fire] at h
    split at h
    · rename_i o ho
      split at h
      · rename_i hc
        injection h with h; subst h
        by_cases hk : (s.ps p).k = 0
        · simp only [hk, if_true]
          have := StepI.spawnRoot (c := c) (s := s) p o hc.1 ho hc.2 hk
          simpa [hk] using this
        · simp only [hk, if_false]
          exact .spawn p o hc.1 ho hc.2 hk
      · cases h
    · cases h
  | rendezvous p =>
    simp only [fire] at h
    split at h
    · rename_i hc; injection h with h; subst h; exact .rendezvous p hc.1 hc.2.1 hc.2.2
    · cases h
  | sendAbort p =>
    simp only [fire] at h
    split at h
    · rename_i hc; injection h with h; subst h; exact .sendAbort p hc.1 hc.2.1 hc.2.2
    · cases h
  | doneCur p =>
    simp only [fire] at h
    split at h
    · rename_i hc
      split at h
      · rename_i hk
        split at h
        · rename_i hr; injection h with h; subst h; exact .doneCurRoot p hc.1 hc.2 hk hr
        · cases h
      · rename_i hk; injection h with h; subst h; exact .doneCur p hc.1 hc.2 hk
    · cases h
  | doneOwing p =>
    simp only [fire] at h
    split at h
    · rename_i hc; injection h with h; subst h; exact .doneOwing p hc.1 hc.2
    · cases h
  | doneRoot p =>
    simp only [fire] at h
    split at h
    · rename_i hc; injection h with h; subst h; exact .doneRoot p hc.1 hc.2.1 hc.2.2
    · cases h
  | waitEnd =>
    simp only [fire] at h
    split at h
    · rename_i hc; injection h with h; subst h
      refine .waitEnd hc.1 ?_
      intro p hp
      have := (allBelow_iff _ _).mp hc.2 p hp
      simpa using this
    · cases h
  | close =>
    simp only [fire] at h
    split at h
    · rename_i hc; injection h with h; subst h; exact .close hc
    · cases h
  | collectCtx =>
    simp only [fire] at h
    split at h
    · rename_i hc; injection h with h; subst h; exact .collectCtx hc.1 hc.2
    · cases h
  | collectClosed =>
    simp only [fire] at h
    split at h
    · rename_i hc; injection h with h; subst h; exact .collectClosed hc.1 hc.2
    · cases h

/-- every inductive step is a `fire` of some label -/
theorem fire_complete {c : Cfg} {s s' : S} (h : StepI c s s') : ∃ l, fire c s l = some s' := by
  cases h with
  | cancel hc => exact ⟨.cancel, by simp [fire, hc]⟩
  | rangeStart p h1 h2 h3 => exact ⟨.rangeStart p, by simp [fire, h1, h2, h3]⟩
  | rangeStop q h1 h2 h3 h4 =>
    refine ⟨.rangeStop, ?_⟩
    have : anyBelow c.n (fun p => (s.ps p).ph == .idle) = true := (anyBelow_iff _ _).mpr ⟨q, h3, by simp [h4]⟩
    simp [fire, h1, h2, this]
  | rangeEnd h1 h2 =>
    refine ⟨.rangeEnd, ?_⟩
    have : allBelow c.n (fun p => (s.ps p).ph != .idle) = true := (allBelow_iff _ _).mpr (fun p hp => by simpa using h2 p hp)
    simp [fire, h1, this]
  | ret p h1 h2 => exact ⟨.ret p, by simp [fire, h1, h2]⟩
  | sendTry p o h1 h2 h3 => exact ⟨.sendTry p, by simp [fire, h1, h2, h3]⟩
  | spawnRoot p o h1 h2 h3 h4 =>
    have h3' : stops c p 0 o = false := by rw [h4] at h3; exact h3
    exact ⟨.spawn p, by simp [fire, h1, h2, h3', h4]⟩
  | spawn p o h1 h2 h3 h4 => exact ⟨.spawn p, by simp [fire, h1, h2, h3, h4]⟩
  | rendezvous p h1 h2 h3 => exact ⟨.rendezvous p, by simp [fire, h1, h2, h3]⟩
  | sendAbort p h1 h2 h3 => exact ⟨.sendAbort p, by simp [fire, h1, h2, h3]⟩
  | doneCurRoot p h1 h2 h3 h4 => exact ⟨.doneCur p, by simp [fire, h1, h2, h3, h4]⟩
  | doneCur p h1 h2 h3 => exact ⟨.doneCur p, by simp [fire, h1, h2, h3]⟩
  | doneOwing p h1 h2 => exact ⟨.doneOwing p, by simp [fire, h1, h2]⟩
  | doneRoot p h1 h2 h3 => exact ⟨.doneRoot p, by simp [fire, h1, h2, h3]⟩
  | waitEnd h1 h2 =>
    refine ⟨.waitEnd, ?_⟩
    have : allBelow c.n (fun p => !(s.ps p).busy) = true := (allBelow_iff _ _).mpr (fun p hp => by simp [h2 p hp])
    simp [fire, h1, this]
  | close h1 => exact ⟨.close, by simp [fire, h1]⟩
  | collectCtx h1 h2 => exact ⟨.collectCtx, by simp [fire, h1, h2]⟩
  | collectClosed h1 h2 => exact ⟨.collectClosed, by simp [fire, h1, h2]⟩

theorem step_iff {c : Cfg} {s s' : S} : Step c s s' ↔ StepI c s s' :=
  ⟨fun ⟨_, h⟩ => fire_sound h, fire_complete⟩

end Evl.Dispatch
