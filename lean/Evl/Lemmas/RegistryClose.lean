import Evl.Lemmas.RegistryInv
/-! Close-once: over any history no registration instance is closed twice. -/
namespace Evl.Registry

/-- instances whose `Close` an operation's result reports -/
def closedOf : Res → List Nat
  | .closed is _ => is
  | .rpan _ is _ => is
  | _ => []

/-- all instances closed along a history, in order -/
def runClosed (b : Broker) : List Op → List Nat
  | [] => []
  | op :: rest => closedOf (step b op).2 ++ runClosed (step b op).1 rest

def insts (ns : List (Nat × NodeEntry)) : List Nat := ns.map (·.2.inst)

structure CInv (b : Broker) (cl : List Nat) : Prop where
  nd : (insts b.nodes).Nodup
  lt : ∀ i ∈ insts b.nodes, i < b.nextInst
  clt : ∀ c ∈ cl, c < b.nextInst
  disj : ∀ c ∈ cl, c ∉ insts b.nodes
  cnd : cl.Nodup

theorem cinv_init : CInv init [] := by
  constructor <;> simp [init, insts]

theorem insts_eraseNode_sub (ns : List (Nat × NodeEntry)) (id : Nat) :
    (insts (eraseNode ns id)).Sublist (insts ns) := by
  unfold insts eraseNode
  exact List.Sublist.map _ List.filter_sublist

theorem insts_release (ns : List (Nat × NodeEntry)) (ids : List Nat) : insts (release ns ids) = insts ns := by
  unfold insts release
  rw [List.map_map]
  apply List.map_congr_left
  intro x _
  simp only [Function.comp]
  split <;> rfl

theorem insts_releaseOld (ns : List (Nat × NodeEntry)) (o : Option Pipe) : insts (releaseOld ns o) = insts ns := by
  cases o with
  | none => rfl
  | some o => exact insts_release ns o.ids

theorem insts_acquire (ns : List (Nat × NodeEntry)) (ids : List Nat) : insts (acquire ns ids) = insts ns := by
  unfold insts acquire
  rw [List.map_map]
  apply List.map_congr_left
  intro x _
  simp only [Function.comp]
  split <;> rfl

theorem insts_detach (ns : List (Nat × NodeEntry)) (ids : List Nat) :
    insts (detachAll ns ids).1 = insts (ns.filter (fun x => !(ids.contains x.1 && x.2.refs ≤ 1))) ∧
    insts (detachAll ns ids).2 = insts (ns.filter (fun x => ids.contains x.1 && x.2.refs ≤ 1)) := by
  unfold detachAll insts
  refine ⟨?_, rfl⟩
  simp only
  rw [List.map_map]
  apply List.map_congr_left
  intro x _
  simp only [Function.comp]
  split <;> rfl

/-- a filter and its complement split a nodup list into two disjoint nodup lists -/
theorem nodup_filter_split {α β : Type} (f : α → β) (l : List α) (p : α → Bool) (h : (l.map f).Nodup) :
    ((l.filter p).map f).Nodup ∧ ((l.filter (fun x => !p x)).map f).Nodup ∧
    ∀ y ∈ (l.filter p).map f, y ∉ (l.filter (fun x => !p x)).map f := by
  induction l with
  | nil => simp
  | cons a l ih =>
    rw [List.map_cons, List.nodup_cons] at h
    obtain ⟨ha, hl⟩ := h
    obtain ⟨h1, h2, h3⟩ := ih hl
    have hsub1 : ∀ y, y ∈ (l.filter p).map f → y ∈ l.map f := fun y hy =>
      (List.Sublist.map f List.filter_sublist).subset hy
    have hsub2 : ∀ y, y ∈ (l.filter (fun x => !p x)).map f → y ∈ l.map f := fun y hy =>
      (List.Sublist.map f List.filter_sublist).subset hy
    cases hp : p a with
    | true =>
      simp only [List.filter_cons, hp, if_true, Bool.not_true, Bool.false_eq_true, if_false, List.map_cons]
      refine ⟨List.nodup_cons.mpr ⟨fun hm => ha (hsub1 _ hm), h1⟩, h2, ?_⟩
      intro y hy
      rw [List.mem_cons] at hy
      rcases hy with hy | hy
      · subst hy; exact fun hm => ha (hsub2 _ hm)
      · exact h3 y hy
    | false =>
      simp only [List.filter_cons, hp, Bool.false_eq_true, if_false, Bool.not_false, if_true, List.map_cons]
      refine ⟨h1, List.nodup_cons.mpr ⟨fun hm => ha (hsub2 _ hm), h2⟩, ?_⟩
      intro y hy hm
      rw [List.mem_cons] at hm
      rcases hm with hm | hm
      · subst hm; exact ha (hsub1 _ hy)
      · exact h3 y hy hm

theorem cinv_same_nodes {b b' : Broker} {cl : List Nat} (h : CInv b cl)
    (hn : insts b'.nodes = insts b.nodes) (hx : b'.nextInst = b.nextInst) : CInv b' cl :=
  ⟨by rw [hn]; exact h.nd, by rw [hn, hx]; exact h.lt, by rw [hx]; exact h.clt, by rw [hn]; exact h.disj, h.cnd⟩

theorem cinv_step {b : Broker} {cl : List Nat} (h : CInv b cl) (op : Op) :
    CInv (step b op).1 (cl ++ closedOf (step b op).2) := by
  have same : ∀ b', insts b'.nodes = insts b.nodes → b'.nextInst = b.nextInst → CInv b' (cl ++ []) := by
    intro b' h1 h2; rw [List.append_nil]; exact cinv_same_nodes h h1 h2
  cases op with
  | regNode id ty beh cf pol =>
    show CInv (stepRegNode b id ty beh cf pol).1 (cl ++ closedOf (stepRegNode b id ty beh cf pol).2)
    unfold stepRegNode
    split
    · exact same b rfl rfl
    split
    · exact same b rfl rfl
    simp only
    split
    · exact same b rfl rfl
    · simp only [closedOf, List.append_nil]
      have hsub : (insts (eraseNode b.nodes id)).Sublist (insts b.nodes) := insts_eraseNode_sub _ _
      have hin : insts (putNode b.nodes id
          { inst := b.nextInst, ty := ty, beh := beh, closeFails := cf, refs := ‹Nat›, deny := polDeny pol }) =
          insts (eraseNode b.nodes id) ++ [b.nextInst] := by
        simp [insts, putNode]
      refine ⟨?_, ?_, ?_, ?_, h.cnd⟩
      · simp only; rw [hin]
        apply List.nodup_append.mpr
        refine ⟨List.Nodup.sublist hsub h.nd, by simp, ?_⟩
        intro a ha c hc
        simp at hc; subst hc
        have := h.lt a (hsub.subset ha)
        omega
      · simp only; rw [hin]
        intro i hi
        rw [List.mem_append] at hi
        rcases hi with hi | hi
        · have := h.lt i (hsub.subset hi); omega
        · simp at hi; omega
      · intro c hc; have := h.clt c hc; simp only; omega
      · simp only; rw [hin]
        intro c hc hm
        rw [List.mem_append] at hm
        rcases hm with hm | hm
        · exact h.disj c hc (hsub.subset hm)
        · simp at hm; have := h.clt c hc; omega
  | removeNode id =>
    show CInv (stepRemoveNode b id).1 (cl ++ closedOf (stepRemoveNode b id).2)
    unfold stepRemoveNode
    split
    · exact same b rfl rfl
    cases hl : lookupNode b.nodes id with
    | none => exact same b rfl rfl
    | some e =>
      simp only
      split
      · exact same b rfl rfl
      · simp only [closedOf]
        have hmem := lookupNode_eq_some hl
        -- split nodes by key = id
        have hsplit := nodup_filter_split (fun x : Nat × NodeEntry => x.2.inst) b.nodes (fun x => x.1 != id) h.nd
        have hsub : (insts (eraseNode b.nodes id)).Sublist (insts b.nodes) := insts_eraseNode_sub _ _
        have hgone : e.inst ∉ insts (eraseNode b.nodes id) := by
          intro hm
          have h1 : e.inst ∈ (b.nodes.filter (fun x => !(x.1 != id))).map (fun x => x.2.inst) := by
            apply List.mem_map.mpr
            exact ⟨(id, e), List.mem_filter.mpr ⟨hmem, by simp⟩, rfl⟩
          exact hsplit.2.2 e.inst hm h1
        have hein : e.inst ∈ insts b.nodes := List.mem_map.mpr ⟨(id, e), hmem, rfl⟩
        refine ⟨List.Nodup.sublist hsub h.nd, fun i hi => h.lt i (hsub.subset hi), ?_, ?_, ?_⟩
        · intro c hc
          rw [List.mem_append] at hc
          rcases hc with hc | hc
          · exact h.clt c hc
          · simp at hc; subst hc; exact h.lt _ hein
        · intro c hc hm
          rw [List.mem_append] at hc
          rcases hc with hc | hc
          · exact h.disj c hc (hsub.subset hm)
          · simp at hc; subst hc; exact hgone hm
        · apply List.nodup_append.mpr
          refine ⟨h.cnd, by simp, ?_⟩
          intro a ha c hc
          simp at hc; subst hc
          intro heq; subst heq
          exact h.disj _ ha hein
  | regPipe ty pid ids pol =>
    show CInv (stepRegPipe b ty pid ids pol).1 (cl ++ closedOf (stepRegPipe b ty pid ids pol).2)
    unfold stepRegPipe
    split
    · exact same b rfl rfl
    split
    · exact same b rfl rfl
    simp only
    split
    · exact same _ rfl rfl
    split
    · exact same _ rfl rfl
    split
    · exact same _ rfl rfl
    · exact same _ (by simp only; rw [insts_acquire, insts_releaseOld]) rfl
  | removePipe ty pid =>
    show CInv (stepRemovePipe b ty pid).1 (cl ++ closedOf (stepRemovePipe b ty pid).2)
    unfold stepRemovePipe
    split
    · exact same b rfl rfl
    split
    · exact same b rfl rfl
    split
    · exact same b rfl rfl
    · exact same _ (by simp only; rw [insts_releaseOld]) rfl
  | rpan ty pid =>
    show CInv (stepRpan b ty pid).1 (cl ++ closedOf (stepRpan b ty pid).2)
    unfold stepRpan
    split
    · exact same b rfl rfl
    split
    · exact same b rfl rfl
    split
    · exact same b rfl rfl
    split
    · exact same b rfl rfl
    · rename_i o _
      simp only [closedOf]
      obtain ⟨hk, hg⟩ := insts_detach b.nodes o.ids
      have hsplit := nodup_filter_split (fun x : Nat × NodeEntry => x.2.inst) b.nodes
        (fun x => o.ids.contains x.1 && decide (x.2.refs ≤ 1)) h.nd
      have hgl : (detachAll b.nodes o.ids).2.map (fun x => x.2.inst) = insts (detachAll b.nodes o.ids).2 := rfl
      rw [hgl, hg]
      have hsubk : ∀ y, y ∈ insts (b.nodes.filter (fun x => !(o.ids.contains x.1 && decide (x.2.refs ≤ 1)))) → y ∈ insts b.nodes :=
        fun y hy => (List.Sublist.map _ List.filter_sublist).subset hy
      have hsubg : ∀ y, y ∈ insts (b.nodes.filter (fun x => o.ids.contains x.1 && decide (x.2.refs ≤ 1))) → y ∈ insts b.nodes :=
        fun y hy => (List.Sublist.map _ List.filter_sublist).subset hy
      refine ⟨?_, ?_, ?_, ?_, ?_⟩
      · simp only; rw [hk]; exact hsplit.2.1
      · simp only; rw [hk]; intro i hi; exact h.lt i (hsubk i hi)
      · intro c hc
        rw [List.mem_append] at hc
        rcases hc with hc | hc
        · exact h.clt c hc
        · exact h.lt c (hsubg c hc)
      · simp only; rw [hk]
        intro c hc hm
        rw [List.mem_append] at hc
        rcases hc with hc | hc
        · exact h.disj c hc (hsubk c hm)
        · exact hsplit.2.2 c hc hm
      · apply List.nodup_append.mpr
        refine ⟨h.cnd, hsplit.1, ?_⟩
        intro a ha c hc heq
        subst heq
        exact h.disj a ha (hsubg a hc)
  | setThr ty n =>
    show CInv (stepSetThr b ty n).1 (cl ++ closedOf (stepSetThr b ty n).2)
    unfold stepSetThr
    split
    · exact same b rfl rfl
    split
    · exact same b rfl rfl
    · exact same _ rfl rfl
  | setThrSinks ty n =>
    show CInv (stepSetThrSinks b ty n).1 (cl ++ closedOf (stepSetThrSinks b ty n).2)
    unfold stepSetThrSinks
    split
    · exact same b rfl rfl
    split
    · exact same b rfl rfl
    · exact same _ rfl rfl
  | getThr ty =>
    show CInv (stepGetThr b ty).1 (cl ++ closedOf (stepGetThr b ty).2)
    unfold stepGetThr; split <;> exact same b rfl rfl
  | getThrSinks ty =>
    show CInv (stepGetThrSinks b ty).1 (cl ++ closedOf (stepGetThrSinks b ty).2)
    unfold stepGetThrSinks; split <;> exact same b rfl rfl
  | isAny ty => exact same b rfl rfl
  | send ty =>
    show CInv (stepSend b ty).1 (cl ++ closedOf (stepSend b ty).2)
    unfold stepSend; split <;> exact same b rfl rfl
  | reopen f => exact same b rfl rfl

theorem cinv_run (ops : List Op) {b : Broker} {cl : List Nat} (h : CInv b cl) :
    CInv (run b ops) (cl ++ runClosed b ops) := by
  induction ops generalizing b cl with
  | nil => simpa [run, runClosed] using h
  | cons op rest ih =>
    have := ih (cinv_step h op)
    simp only [run, List.foldl_cons, runClosed] at this ⊢
    rw [← List.append_assoc]
    exact this

end Evl.Registry
