import Evl.Lemmas.DispatchInv
/-! Ghost invariants of M2 `Dispatch`: the invocation log and the collected statuses (C01, C02). -/
namespace Evl.Dispatch

def ended (x : PS) : Prop := x.ph = .finishing ∨ x.ph = .finished

structure GInv (c : Cfg) (s : S) : Prop where
  /-- the invocations of pipeline `p` are nodes 0..k, in order, each once -/
  invP : ∀ p, s.inv.filter (fun e => e.1 == p) =
    if (s.ps p).ph = .idle then [] else (List.range ((s.ps p).k + 1)).map (fun j => (p, j))
  /-- every node before the current one returned an event and no error, and was not the leaf -/
  cont : ∀ p j, j < (s.ps p).k → stops c p j (c.out p j) = false
  /-- every collected status stands for a traversal that really ended there, with that outcome -/
  gotOk : ∀ e ∈ s.got, e.1 < c.n ∧ ended (s.ps e.1) ∧ e.2.1 = (s.ps e.1).k ∧ e.2.2 = (c.out e.1 e.2.1 == .err)
  /-- at most one status per pipeline -/
  gotNodup : (s.got.map (·.1)).Nodup
  /-- without cancellation no ended traversal's status is missing -/
  gotAll : s.ctxDone = false → ∀ p, ended (s.ps p) → p ∈ s.got.map (·.1)
  /-- without cancellation the ranger leaves the range only after starting every pipeline -/
  started : s.ctxDone = false → (s.rg = .waiting ∨ s.rg = .waited ∨ s.rg = .closed) → ∀ p, p < c.n → (s.ps p).ph ≠ .idle

theorem ginv_init (c : Cfg) : GInv c init := by
  constructor <;> simp [init, ended]

theorem filter_append_other {l : List (Nat × Nat)} {p q j : Nat} (h : q ≠ p) :
    (l ++ [(p, j)]).filter (fun e => e.1 == q) = l.filter (fun e => e.1 == q) := by
  rw [List.filter_append]
  have : ((p, j).1 == q) = false := by simp; exact fun h' => h h'.symm
  simp [List.filter_cons, this]

theorem filter_append_same {l : List (Nat × Nat)} {p j : Nat} :
    (l ++ [(p, j)]).filter (fun e => e.1 == p) = l.filter (fun e => e.1 == p) ++ [(p, j)] := by
  rw [List.filter_append]
  simp [List.filter_cons]

theorem ginv_step {c : Cfg} {s s' : S} (hp : PInv c s) (hi : GInv c s) (hs : StepI c s s') : GInv c s' := by
  -- steps that do not touch ps / inv / got and keep or set ctxDone
  have same_ps : ∀ (rg : Ranger) (ce cd : Bool), (cd = false → s.ctxDone = false) →
      (cd = false → (rg = .waiting ∨ rg = .waited ∨ rg = .closed) → ∀ p, p < c.n → (s.ps p).ph ≠ .idle) →
      GInv c { s with rg := rg, collExited := ce, ctxDone := cd } := by
    intro rg ce cd h1 h2
    exact ⟨hi.invP, hi.cont, hi.gotOk, hi.gotNodup, fun h => hi.gotAll (h1 h), h2⟩
  cases hs with
  | cancel hc => exact same_ps s.rg s.collExited true (by simp) (by simp)
  | rangeStop q h1 h2 h3 h4 => exact same_ps .waiting s.collExited s.ctxDone (fun h => h) (by intro h; rw [h2] at h; cases h)
  | rangeEnd h1 h2 => exact same_ps .waiting s.collExited s.ctxDone (fun h => h) (fun _ _ => h2)
  | waitEnd h1 h2 => exact same_ps .waited s.collExited s.ctxDone (fun h => h) (fun h _ => hi.started h (Or.inl h1))
  | close h1 => exact same_ps .closed s.collExited s.ctxDone (fun h => h) (fun h _ => hi.started h (Or.inr (Or.inl h1)))
  | collectCtx h1 h2 => exact same_ps s.rg true s.ctxDone (fun h => h) hi.started
  | collectClosed h1 h2 => exact same_ps s.rg true s.ctxDone (fun h => h) hi.started
  | rangeStart p h1 h2 h3 =>
    have hdef := hp.idleDef p h3
    refine ⟨?_, ?_, ?_, hi.gotNodup, ?_, ?_⟩
    · intro q
      by_cases hqp : q = p
      · subst hqp
        simp only [upd_same, filter_append_same]
        have := hi.invP q
        rw [h3] at this
        simp only [if_true] at this
        rw [this]
        simp
      · simp only [upd_other _ _ _ _ hqp, filter_append_other hqp]; exact hi.invP q
    · intro q j hj
      by_cases hqp : q = p
      · subst hqp; simp at hj
      · simp only [upd_other _ _ _ _ hqp] at hj; exact hi.cont q j hj
    · intro e he
      obtain ⟨a, b, d, f⟩ := hi.gotOk e he
      have hne : e.1 ≠ p := by intro h; rw [h] at b; unfold ended at b; rw [h3] at b; simp at b
      simp only [upd_other _ _ _ _ hne]; exact ⟨a, b, d, f⟩
    · intro h q hq
      by_cases hqp : q = p
      · subst hqp; simp [ended] at hq
      · simp only [upd_other _ _ _ _ hqp] at hq; exact hi.gotAll h q hq
    · intro h hr; simp at hr
  | ret p h1 h2 =>
    refine ⟨?_, ?_, ?_, hi.gotNodup, ?_, ?_⟩
    · intro q
      by_cases hqp : q = p
      · subst hqp; simp only [upd_same]; have := hi.invP q; simp [h2] at this ⊢; exact this
      · simp only [upd_other _ _ _ _ hqp]; exact hi.invP q
    · intro q j hj
      by_cases hqp : q = p
      · subst hqp; simp only [upd_same] at hj; exact hi.cont q j hj
      · simp only [upd_other _ _ _ _ hqp] at hj; exact hi.cont q j hj
    · intro e he
      obtain ⟨a, b, d, f⟩ := hi.gotOk e he
      have hne : e.1 ≠ p := by intro h; rw [h] at b; unfold ended at b; rw [h2] at b; simp at b
      simp only [upd_other _ _ _ _ hne]; exact ⟨a, b, d, f⟩
    · intro h q hq
      by_cases hqp : q = p
      · subst hqp; simp [ended] at hq
      · simp only [upd_other _ _ _ _ hqp] at hq; exact hi.gotAll h q hq
    · intro h hr q hq
      by_cases hqp : q = p
      · subst hqp; simp
      · simp only [upd_other _ _ _ _ hqp]; exact hi.started h hr q hq
  | sendTry p o h1 h2 h3 =>
    refine ⟨?_, ?_, ?_, hi.gotNodup, ?_, ?_⟩
    · intro q
      by_cases hqp : q = p
      · subst hqp; simp only [upd_same]; have := hi.invP q; simp [h2] at this ⊢; exact this
      · simp only [upd_other _ _ _ _ hqp]; exact hi.invP q
    · intro q j hj
      by_cases hqp : q = p
      · subst hqp; simp only [upd_same] at hj; exact hi.cont q j hj
      · simp only [upd_other _ _ _ _ hqp] at hj; exact hi.cont q j hj
    · intro e he
      obtain ⟨a, b, d, f⟩ := hi.gotOk e he
      have hne : e.1 ≠ p := by intro h; rw [h] at b; unfold ended at b; rw [h2] at b; simp at b
      simp only [upd_other _ _ _ _ hne]; exact ⟨a, b, d, f⟩
    · intro h q hq
      by_cases hqp : q = p
      · subst hqp; simp [ended] at hq
      · simp only [upd_other _ _ _ _ hqp] at hq; exact hi.gotAll h q hq
    · intro h hr q hq
      by_cases hqp : q = p
      · subst hqp; simp
      · simp only [upd_other _ _ _ _ hqp]; exact hi.started h hr q hq
  | spawnRoot p o h1 h2 h3 h4 =>
    have ho := hp.decidedOut p o h2
    refine ⟨?_, ?_, ?_, hi.gotNodup, ?_, ?_⟩
    · intro q
      by_cases hqp : q = p
      · subst hqp
        simp only [upd_same, filter_append_same]
        have := hi.invP q
        simp [h2, h4] at this
        simp [this, h4, List.range_succ]
      · simp only [upd_other _ _ _ _ hqp, filter_append_other hqp]; exact hi.invP q
    · intro q j hj
      by_cases hqp : q = p
      · subst hqp
        simp only [upd_same] at hj
        have : j = 0 := by omega
        subst this
        rw [← h4, ← ho]; exact h3
      · simp only [upd_other _ _ _ _ hqp] at hj; exact hi.cont q j hj
    · intro e he
      obtain ⟨a, b, d, f⟩ := hi.gotOk e he
      have hne : e.1 ≠ p := by intro h; rw [h] at b; unfold ended at b; rw [h2] at b; simp at b
      simp only [upd_other _ _ _ _ hne]; exact ⟨a, b, d, f⟩
    · intro h q hq
      by_cases hqp : q = p
      · subst hqp; simp [ended] at hq
      · simp only [upd_other _ _ _ _ hqp] at hq; exact hi.gotAll h q hq
    · intro h hr q hq
      by_cases hqp : q = p
      · subst hqp; simp
      · simp only [upd_other _ _ _ _ hqp]; exact hi.started h hr q hq
  | spawn p o h1 h2 h3 h4 =>
    have ho := hp.decidedOut p o h2
    refine ⟨?_, ?_, ?_, hi.gotNodup, ?_, ?_⟩
    · intro q
      by_cases hqp : q = p
      · subst hqp
        simp only [upd_same, filter_append_same]
        have := hi.invP q
        rw [h2] at this
        simp only [reduceCtorEq, if_false] at this
        rw [this]
        simp only [reduceCtorEq, if_false]
        rw [List.range_succ (n := (s.ps q).k + 1)]
        simp
      · simp only [upd_other _ _ _ _ hqp, filter_append_other hqp]; exact hi.invP q
    · intro q j hj
      by_cases hqp : q = p
      · subst hqp
        simp only [upd_same] at hj
        by_cases hjk : j = (s.ps q).k
        · subst hjk; rw [← ho]; exact h3
        · exact hi.cont q j (by omega)
      · simp only [upd_other _ _ _ _ hqp] at hj; exact hi.cont q j hj
    · intro e he
      obtain ⟨a, b, d, f⟩ := hi.gotOk e he
      have hne : e.1 ≠ p := by intro h; rw [h] at b; unfold ended at b; rw [h2] at b; simp at b
      simp only [upd_other _ _ _ _ hne]; exact ⟨a, b, d, f⟩
    · intro h q hq
      by_cases hqp : q = p
      · subst hqp; simp [ended] at hq
      · simp only [upd_other _ _ _ _ hqp] at hq; exact hi.gotAll h q hq
    · intro h hr q hq
      by_cases hqp : q = p
      · subst hqp; simp
      · simp only [upd_other _ _ _ _ hqp]; exact hi.started h hr q hq
  | rendezvous p h1 h2 h3 =>
    have hnot : p ∉ s.got.map (·.1) := by
      intro hm
      obtain ⟨e, he, hep⟩ := List.mem_map.mp hm
      obtain ⟨_, b, _, _⟩ := hi.gotOk e he
      rw [hep] at b; unfold ended at b; rw [h2] at b; simp at b
    refine ⟨?_, ?_, ?_, ?_, ?_, ?_⟩
    · intro q
      by_cases hqp : q = p
      · subst hqp; simp only [upd_same]; have := hi.invP q; simp [h2] at this ⊢; exact this
      · simp only [upd_other _ _ _ _ hqp]; exact hi.invP q
    · intro q j hj
      by_cases hqp : q = p
      · subst hqp; simp only [upd_same] at hj; exact hi.cont q j hj
      · simp only [upd_other _ _ _ _ hqp] at hj; exact hi.cont q j hj
    · intro e he
      rw [List.mem_append] at he
      rcases he with he | he
      · obtain ⟨a, b, d, f⟩ := hi.gotOk e he
        have hne : e.1 ≠ p := by intro h; rw [h] at b; unfold ended at b; rw [h2] at b; simp at b
        simp only [upd_other _ _ _ _ hne]; exact ⟨a, b, d, f⟩
      · simp at he; subst he
        simp only [upd_same]
        exact ⟨h1, Or.inl rfl, trivial, trivial⟩
    · rw [List.map_append]
      apply List.nodup_append.mpr
      refine ⟨hi.gotNodup, by simp, ?_⟩
      intro a ha b hb
      simp at hb; subst hb
      intro heq; subst heq; exact hnot ha
    · intro h q hq
      rw [List.map_append, List.mem_append]
      by_cases hqp : q = p
      · subst hqp; right; simp
      · simp only [upd_other _ _ _ _ hqp] at hq; exact Or.inl (hi.gotAll h q hq)
    · intro h hr q hq
      by_cases hqp : q = p
      · subst hqp; simp
      · simp only [upd_other _ _ _ _ hqp]; exact hi.started h hr q hq
  | sendAbort p h1 h2 h3 =>
    refine ⟨?_, ?_, ?_, hi.gotNodup, ?_, ?_⟩
    · intro q
      by_cases hqp : q = p
      · subst hqp; simp only [upd_same]; have := hi.invP q; simp [h2] at this ⊢; exact this
      · simp only [upd_other _ _ _ _ hqp]; exact hi.invP q
    · intro q j hj
      by_cases hqp : q = p
      · subst hqp; simp only [upd_same] at hj; exact hi.cont q j hj
      · simp only [upd_other _ _ _ _ hqp] at hj; exact hi.cont q j hj
    · intro e he
      obtain ⟨a, b, d, f⟩ := hi.gotOk e he
      have hne : e.1 ≠ p := by intro h; rw [h] at b; unfold ended at b; rw [h2] at b; simp at b
      simp only [upd_other _ _ _ _ hne]; exact ⟨a, b, d, f⟩
    · intro h; rw [h3] at h; cases h
    · intro h; rw [h3] at h; cases h
  | doneCurRoot p h1 h2 h3 h4 =>
    refine ⟨?_, ?_, ?_, hi.gotNodup, ?_, ?_⟩
    · intro q
      by_cases hqp : q = p
      · subst hqp; simp only [upd_same]; have := hi.invP q; simp [h2] at this ⊢; exact this
      · simp only [upd_other _ _ _ _ hqp]; exact hi.invP q
    · intro q j hj
      by_cases hqp : q = p
      · subst hqp; simp only [upd_same] at hj; exact hi.cont q j hj
      · simp only [upd_other _ _ _ _ hqp] at hj; exact hi.cont q j hj
    · intro e he
      obtain ⟨a, b, d, f⟩ := hi.gotOk e he
      by_cases hne : e.1 = p
      · rw [hne] at b d f ⊢; simp only [upd_same]; exact ⟨h1, Or.inr rfl, d, f⟩
      · simp only [upd_other _ _ _ _ hne]; exact ⟨a, b, d, f⟩
    · intro h q hq
      by_cases hqp : q = p
      · subst hqp; exact hi.gotAll h q (Or.inl h2)
      · simp only [upd_other _ _ _ _ hqp] at hq; exact hi.gotAll h q hq
    · intro h hr; simp at hr
  | doneCur p h1 h2 h3 =>
    refine ⟨?_, ?_, ?_, hi.gotNodup, ?_, ?_⟩
    · intro q
      by_cases hqp : q = p
      · subst hqp; simp only [upd_same]; have := hi.invP q; simp [h2] at this ⊢; exact this
      · simp only [upd_other _ _ _ _ hqp]; exact hi.invP q
    · intro q j hj
      by_cases hqp : q = p
      · subst hqp; simp only [upd_same] at hj; exact hi.cont q j hj
      · simp only [upd_other _ _ _ _ hqp] at hj; exact hi.cont q j hj
    · intro e he
      obtain ⟨a, b, d, f⟩ := hi.gotOk e he
      by_cases hne : e.1 = p
      · rw [hne] at b d f ⊢; simp only [upd_same]; exact ⟨h1, Or.inr rfl, d, f⟩
      · simp only [upd_other _ _ _ _ hne]; exact ⟨a, b, d, f⟩
    · intro h q hq
      by_cases hqp : q = p
      · subst hqp; exact hi.gotAll h q (Or.inl h2)
      · simp only [upd_other _ _ _ _ hqp] at hq; exact hi.gotAll h q hq
    · intro h hr q hq
      by_cases hqp : q = p
      · subst hqp; simp
      · simp only [upd_other _ _ _ _ hqp]; exact hi.started h hr q hq
  | doneOwing p h1 h2 =>
    refine ⟨?_, ?_, ?_, hi.gotNodup, ?_, ?_⟩
    · intro q
      by_cases hqp : q = p
      · subst hqp; simp only [upd_same]; exact hi.invP q
      · simp only [upd_other _ _ _ _ hqp]; exact hi.invP q
    · intro q j hj
      by_cases hqp : q = p
      · subst hqp; simp only [upd_same] at hj; exact hi.cont q j hj
      · simp only [upd_other _ _ _ _ hqp] at hj; exact hi.cont q j hj
    · intro e he
      obtain ⟨a, b, d, f⟩ := hi.gotOk e he
      by_cases hne : e.1 = p
      · rw [hne] at b d f ⊢; simp only [upd_same]; exact ⟨h1, b, d, f⟩
      · simp only [upd_other _ _ _ _ hne]; exact ⟨a, b, d, f⟩
    · intro h q hq
      by_cases hqp : q = p
      · subst hqp; simp only [upd_same] at hq; exact hi.gotAll h q hq
      · simp only [upd_other _ _ _ _ hqp] at hq; exact hi.gotAll h q hq
    · intro h hr q hq
      by_cases hqp : q = p
      · subst hqp; simp only [upd_same]; exact hi.started h hr q hq
      · simp only [upd_other _ _ _ _ hqp]; exact hi.started h hr q hq
  | doneRoot p h1 h2 h3 =>
    refine ⟨?_, ?_, ?_, hi.gotNodup, ?_, ?_⟩
    · intro q
      by_cases hqp : q = p
      · subst hqp; simp only [upd_same]; exact hi.invP q
      · simp only [upd_other _ _ _ _ hqp]; exact hi.invP q
    · intro q j hj
      by_cases hqp : q = p
      · subst hqp; simp only [upd_same] at hj; exact hi.cont q j hj
      · simp only [upd_other _ _ _ _ hqp] at hj; exact hi.cont q j hj
    · intro e he
      obtain ⟨a, b, d, f⟩ := hi.gotOk e he
      by_cases hne : e.1 = p
      · rw [hne] at b d f ⊢; simp only [upd_same]; exact ⟨h1, b, d, f⟩
      · simp only [upd_other _ _ _ _ hne]; exact ⟨a, b, d, f⟩
    · intro h q hq
      by_cases hqp : q = p
      · subst hqp; simp only [upd_same] at hq; exact hi.gotAll h q hq
      · simp only [upd_other _ _ _ _ hqp] at hq; exact hi.gotAll h q hq
    · intro h hr; simp at hr

theorem ginv_reach {c : Cfg} (hlen : ∀ p, p < c.n → 0 < c.len p) {s : S} (h : Reach c s) : GInv c s := by
  induction h with
  | init => exact ginv_init c
  | step l hr hf ih => exact ginv_step (pinv_reach hlen hr) ih (fire_sound hf)

end Evl.Dispatch
