import Evl.Model.FileSink
/-!
Ordering invariant of M5 `FileSink`: the open descriptor (and the plain-named file) is always the
*newest* inode, inode ids and file-name timestamps grow with creation order, and the directory lists
exactly the linked inodes in creation order.  From it: an acknowledged write lands at the very end of
"the files read oldest to newest", and retention removes a prefix.
-/
namespace Evl.FileSink

def usesPlain (c : Cfg) : Bool := c.tsOnly || !rotateEnabled c

theorem tsFiles_eq (d : List (Name × Nat)) : tsFiles d = sortTs (d.filterMap tsOf) := rfl

structure Ord (c : Cfg) (s : St) : Prop where
  fdLast : ∀ i, s.fd = some i → (s.inodes.map (·.id)).getLast? = some i
  plainLast : ∀ i, (Name.plain, i) ∈ s.dir → (s.inodes.map (·.id)).getLast? = some i
  sorted : (s.inodes.map (·.id)).Pairwise (· < ·)
  idFresh : ∀ x ∈ s.inodes, x.id < s.stamp
  tsFresh : ∀ n i, (Name.ts n, i) ∈ s.dir → n < s.stamp
  noPlain : usesPlain c = false → ∀ i, (Name.plain, i) ∉ s.dir
  dirInodes : s.dir.map (·.2) = s.inodes.map (·.id)
  tsSorted : (s.dir.filterMap tsOf).Pairwise (fun a b => a.1 < b.1)

theorem ord_init (c : Cfg) : Ord c {} :=
  ⟨by simp, by simp, by simp, by simp, by simp, by simp, by simp, by simp⟩

theorem ord_close {c : Cfg} {s : St} (h : Ord c s) : Ord c (closeFd s) :=
  ⟨by simp [closeFd], h.plainLast, h.sorted, h.idFresh, h.tsFresh, h.noPlain, h.dirInodes, h.tsSorted⟩

theorem lookup_mem' {d : List (Name × Nat)} {n : Name} {i : Nat} (h : lookup d n = some i) : (n, i) ∈ d := by
  unfold lookup at h
  cases hf : d.find? (fun x => x.1 == n) with
  | none => simp [hf] at h
  | some x =>
    simp [hf] at h
    have hm := List.mem_of_find?_eq_some hf
    have hp := List.find?_some hf
    simp at hp
    obtain ⟨a, b⟩ := x
    simp at h hp
    subst h; subst hp
    exact hm

theorem lookup_none_not_mem {d : List (Name × Nat)} {n : Name} (h : lookup d n = none) (i : Nat) : (n, i) ∉ d := by
  intro hm
  unfold lookup at h
  simp only [Option.map_eq_none_iff, List.find?_eq_none] at h
  have := h _ hm
  simp at this

theorem openName_cases (c : Cfg) (s : St) :
    (usesPlain c = true ∧ openName c s = Name.plain) ∨ (usesPlain c = false ∧ openName c s = Name.ts s.stamp) := by
  unfold openName usesPlain
  cases h : (c.tsOnly || !rotateEnabled c) with
  | true => exact Or.inl ⟨rfl, by simp⟩
  | false => exact Or.inr ⟨rfl, by simp⟩

theorem map_mode_ids (ins : List Inode) (i m : Nat) :
    (ins.map (fun x => if x.id == i then { x with mode := m } else x)).map (·.id) = ins.map (·.id) := by
  induction ins with
  | nil => rfl
  | cons x xs ih =>
    simp only [List.map_cons, ih]
    congr 1
    split <;> rfl

theorem ord_open {c : Cfg} {s : St} (h : Ord c s) : Ord c (openFile c s) := by
  unfold openFile
  cases hfd : s.fd with
  | some _ => exact h
  | none =>
    simp only
    cases hl : lookup s.dir (openName c s) with
    | some i =>
      have hmem := lookup_mem' hl
      have hlast : (s.inodes.map (·.id)).getLast? = some i := by
        rcases openName_cases c s with ⟨_, hn⟩ | ⟨_, hn⟩
        · rw [hn] at hmem; exact h.plainLast i hmem
        · rw [hn] at hmem; exact absurd (h.tsFresh _ _ hmem) (Nat.lt_irrefl _)
      have hids : (if c.mode != 0 then s.inodes.map (fun x => if x.id == i then { x with mode := c.mode } else x) else s.inodes).map (·.id)
          = s.inodes.map (·.id) := by
        split
        · exact map_mode_ids _ _ _
        · rfl
      refine ⟨?_, ?_, ?_, ?_, ?_, h.noPlain, ?_, h.tsSorted⟩
      · intro j hj
        simp only [Option.some.injEq] at hj
        subst hj
        simp only [hids]; exact hlast
      · intro j hj; simp only [hids]; exact h.plainLast j hj
      · simp only [hids]; exact h.sorted
      · intro x hx
        have : x.id ∈ s.inodes.map (·.id) := by
          rw [← hids]; exact List.mem_map.mpr ⟨x, hx, rfl⟩
        obtain ⟨y, hy, hyx⟩ := List.mem_map.mp this
        have := h.idFresh y hy
        simp only at hyx ⊢
        omega
      · intro n j hj
        have := h.tsFresh n j hj
        simp only; omega
      · simp only [hids]; exact h.dirInodes
    | none =>
      have hnm := lookup_none_not_mem hl
      refine ⟨?_, ?_, ?_, ?_, ?_, ?_, ?_, ?_⟩
      · intro j hj
        simp only [Option.some.injEq] at hj
        subst hj
        simp
      · intro j hj
        simp only [List.mem_append, List.mem_singleton, Prod.mk.injEq] at hj
        rcases hj with hj | ⟨_, hj⟩
        · exfalso
          rcases openName_cases c s with ⟨_, hn⟩ | ⟨hu, _⟩
          · rw [hn] at hnm; exact hnm j hj
          · exact h.noPlain hu j hj
        · subst hj; simp
      · simp only [List.map_append, List.map_cons, List.map_nil]
        refine List.pairwise_append.mpr ⟨h.sorted, by simp, ?_⟩
        intro a ha b hb
        simp only [List.mem_singleton] at hb
        subst hb
        obtain ⟨y, hy, hya⟩ := List.mem_map.mp ha
        have := h.idFresh y hy
        omega
      · intro x hx
        simp only [List.mem_append, List.mem_singleton] at hx
        rcases hx with hx | hx
        · have := h.idFresh x hx; simp only; omega
        · subst hx; simp
      · intro n j hj
        simp only [List.mem_append, List.mem_singleton, Prod.mk.injEq] at hj
        rcases hj with hj | ⟨hj, _⟩
        · have := h.tsFresh n j hj; simp only; omega
        · rcases openName_cases c s with ⟨_, hn⟩ | ⟨_, hn⟩
          · rw [hn] at hj; cases hj
          · rw [hn] at hj; injection hj with hj; simp only; omega
      · intro hu j hj
        simp only [List.mem_append, List.mem_singleton, Prod.mk.injEq] at hj
        rcases hj with hj | ⟨hj, _⟩
        · exact h.noPlain hu j hj
        · rcases openName_cases c s with ⟨hu', _⟩ | ⟨_, hn⟩
          · rw [hu] at hu'; cases hu'
          · rw [hn] at hj; cases hj
      · simp [h.dirInodes]
      · simp only [List.filterMap_append]
        refine List.pairwise_append.mpr ⟨h.tsSorted, ?_, ?_⟩
        · simp only [List.filterMap_cons, List.filterMap_nil]
          split <;> simp
        · intro a ha b hb
          simp only [List.filterMap_cons, List.filterMap_nil] at hb
          obtain ⟨x, hx, hxa⟩ := List.mem_filterMap.mp ha
          obtain ⟨xn, xi⟩ := x
          unfold tsOf at hxa
          cases xn with
          | plain => simp at hxa
          | foreign k => simp at hxa
          | ts n =>
            simp only [Option.some.injEq] at hxa
            subst hxa
            have hlt := h.tsFresh n xi hx
            rcases openName_cases c s with ⟨_, hn⟩ | ⟨_, hn⟩
            · rw [hn] at hb; simp [tsOf] at hb
            · rw [hn] at hb
              simp only [tsOf, List.mem_singleton] at hb
              subst hb
              exact hlt

/-- the plain-named entry, when there is one, is the last directory entry and the only plain one -/
theorem plain_is_last {c : Cfg} {s : St} (h : Ord c s) {i : Nat} (hm : (Name.plain, i) ∈ s.dir) :
    ∃ pre, s.dir = pre ++ [(Name.plain, i)] ∧ (∀ e ∈ pre, e.1 ≠ Name.plain) ∧
      s.inodes.map (·.id) = pre.map (·.2) ++ [i] := by
  have hne : s.dir ≠ [] := List.ne_nil_of_mem hm
  have hsplit := (List.dropLast_concat_getLast hne).symm
  generalize hpre : s.dir.dropLast = pre at hsplit
  generalize hlst : s.dir.getLast hne = lst at hsplit
  have hids : s.inodes.map (·.id) = pre.map (·.2) ++ [lst.2] := by
    rw [← h.dirInodes, hsplit]; simp
  have hlast := h.plainLast i hm
  rw [hids] at hlast
  simp only [List.getLast?_append, List.getLast?_singleton, Option.some_or, Option.some.injEq] at hlast
  have hsorted := h.sorted
  rw [hids] at hsorted
  have hlt : ∀ e ∈ pre, e.2 < lst.2 := by
    intro e he
    have := (List.pairwise_append.mp hsorted).2.2 e.2 (List.mem_map.mpr ⟨e, he, rfl⟩) lst.2 (by simp)
    exact this
  have hnp : ∀ e ∈ pre, e.1 ≠ Name.plain := by
    intro e he hp
    have hmem : (Name.plain, e.2) ∈ s.dir := by
      rw [hsplit]; apply List.mem_append_left
      have : e = (Name.plain, e.2) := by rw [← hp]
      rw [← this]; exact he
    have h1 := h.plainLast e.2 hmem
    rw [hids] at h1
    simp only [List.getLast?_append, List.getLast?_singleton, Option.some_or, Option.some.injEq] at h1
    have := hlt e he
    omega
  have hl : lst = (Name.plain, i) := by
    rw [hsplit] at hm
    rcases List.mem_append.mp hm with hm | hm
    · exact absurd rfl (hnp _ hm)
    · exact (List.mem_singleton.mp hm).symm
  subst hl
  exact ⟨pre, hsplit, hnp, hids⟩

theorem map_id_of_forall {α : Type} (f : α → α) (l : List α) (h : ∀ x ∈ l, f x = x) : l.map f = l := by
  induction l with
  | nil => rfl
  | cons x xs ih =>
    simp only [List.map_cons, h x (by simp), ih (fun y hy => h y (List.mem_cons_of_mem _ hy))]

theorem filterMap_tsOf_of_no_plain_map (pre : List (Name × Nat)) (n i : Nat) (h : ∀ e ∈ pre, e.1 ≠ Name.plain) :
    pre.map (fun x => if x.1 == Name.plain then (Name.ts n, i) else x) = pre := by
  apply map_id_of_forall
  intro x hx
  have := h x hx
  simp [this]

theorem ord_renamePlain {c : Cfg} {s : St} (h : Ord c s) (hfd : s.fd = none) {i : Nat} (hm : (Name.plain, i) ∈ s.dir) :
    Ord c (renamePlain s i) ∧ ∀ j, (Name.plain, j) ∉ (renamePlain s i).dir := by
  obtain ⟨pre, hd, hnp, hids⟩ := plain_is_last h hm
  have hdir : (renamePlain s i).dir = pre ++ [(Name.ts s.stamp, i)] := by
    simp only [renamePlain, hd, List.map_append, filterMap_tsOf_of_no_plain_map pre _ _ hnp]
    simp
  have hpre_sub : ∀ e ∈ pre, e ∈ s.dir := fun e he => by rw [hd]; exact List.mem_append_left _ he
  have hnoplain : ∀ j, (Name.plain, j) ∉ (renamePlain s i).dir := by
    intro j hj
    rw [hdir] at hj
    rcases List.mem_append.mp hj with hj | hj
    · exact hnp _ hj rfl
    · simp at hj
  refine ⟨⟨?_, ?_, ?_, ?_, ?_, ?_, ?_, ?_⟩, hnoplain⟩
  · intro j hj; simp [renamePlain, hfd] at hj
  · intro j hj; exact absurd hj (hnoplain j)
  · exact h.sorted
  · intro x hx
    have := h.idFresh x hx
    simp only [renamePlain]; omega
  · intro n j hj
    rw [hdir] at hj
    rcases List.mem_append.mp hj with hj | hj
    · have := h.tsFresh n j (hpre_sub _ hj); simp only [renamePlain]; omega
    · simp only [List.mem_singleton, Prod.mk.injEq] at hj
      injection hj.1 with hj1
      simp only [renamePlain]; omega
  · intro _ j hj; exact absurd hj (hnoplain j)
  · rw [hdir]
    show _ = s.inodes.map (·.id)
    rw [hids]; simp
  · rw [hdir]
    have hts := h.tsSorted
    rw [hd] at hts
    simp only [List.filterMap_append] at hts ⊢
    refine List.pairwise_append.mpr ⟨(List.pairwise_append.mp hts).1, by simp [tsOf], ?_⟩
    intro a ha b hb
    simp only [List.filterMap_cons, List.filterMap_nil, tsOf, List.mem_singleton] at hb
    subst hb
    obtain ⟨x, hx, hxa⟩ := List.mem_filterMap.mp ha
    obtain ⟨xn, xi⟩ := x
    unfold tsOf at hxa
    cases xn with
    | plain => simp at hxa
    | foreign k => simp at hxa
    | ts n =>
      simp only [Option.some.injEq] at hxa
      subst hxa
      exact h.tsFresh n xi (hpre_sub _ hx)

/-! ### pruneFiles -/

theorem lt_pairwise_nodup {l : List Nat} (h : l.Pairwise (· < ·)) : l.Nodup :=
  h.imp (fun hab => Nat.ne_of_lt hab)

theorem inj_of_nodup_map {α β : Type} {f : α → β} {l : List α} (h : (l.map f).Nodup) {x y : α}
    (hx : x ∈ l) (hy : y ∈ l) (hxy : f x = f y) : x = y := by
  induction l with
  | nil => cases hx
  | cons a as ih =>
    simp only [List.map_cons, List.nodup_cons, List.mem_map, not_exists, not_and] at h
    rcases List.mem_cons.mp hx with hx' | hx'
    · rcases List.mem_cons.mp hy with hy' | hy'
      · rw [hx', hy']
      · subst hx'; exact absurd hxy.symm (h.1 y hy')
    · rcases List.mem_cons.mp hy with hy' | hy'
      · subst hy'; exact absurd hxy (h.1 x hx')
      · exact ih h.2 hx' hy' 

/-- the ids `prune` removes are ids of timestamped directory entries -/
theorem gone_are_ts (d : List (Name × Nat)) (k : Nat) :
    ∀ j ∈ ((tsFiles d).take k).map (·.2), ∃ n, (Name.ts n, j) ∈ d := by
  intro j hj
  obtain ⟨e, he, hej⟩ := List.mem_map.mp hj
  have he' : e ∈ tsFiles d := List.mem_of_mem_take he
  have hperm : ∀ (l : List (Nat × Nat)) x, x ∈ sortTs l → x ∈ l := by
    intro l
    have hins : ∀ (y : Nat × Nat) (ys : List (Nat × Nat)) x, x ∈ insertTs y ys → x = y ∨ x ∈ ys := by
      intro y ys
      induction ys with
      | nil => intro x hx; simpa [insertTs] using hx
      | cons z zs ih =>
        intro x hx
        unfold insertTs at hx
        split at hx
        · simpa using hx
        · rcases List.mem_cons.mp hx with hx | hx
          · exact Or.inr (by simp [hx])
          · rcases ih x hx with h1 | h1
            · exact Or.inl h1
            · exact Or.inr (List.mem_cons_of_mem _ h1)
    induction l with
    | nil => intro x hx; simpa [sortTs] using hx
    | cons y ys ih =>
      intro x hx
      rcases hins y (sortTs ys) x hx with h1 | h1
      · simp [h1]
      · exact List.mem_cons_of_mem _ (ih x h1)
  have hm := hperm _ e he'
  obtain ⟨x, hx, hxe⟩ := List.mem_filterMap.mp hm
  obtain ⟨xn, xi⟩ := x
  cases xn with
  | plain => simp [tsOf] at hxe
  | foreign k => simp [tsOf] at hxe
  | ts n =>
    simp only [tsOf, Option.some.injEq] at hxe
    subst hxe
    simp only at hej
    subst hej
    exact ⟨n, hx⟩

theorem ord_prune {c : Cfg} {s : St} (h : Ord c s) (hfd : s.fd = none) (hnp : ∀ j, (Name.plain, j) ∉ s.dir) :
    Ord c (prune c s) ∧ (prune c s).fd = none ∧ ∀ j, (Name.plain, j) ∉ (prune c s).dir := by
  unfold prune
  by_cases hz : (c.maxFiles == 0) = true
  · simp only [hz, if_true]; exact ⟨h, hfd, hnp⟩
  simp only [hz, if_false, Bool.false_eq_true]
  generalize hgone : ((tsFiles s.dir).take ((tsFiles s.dir).length - c.maxFiles)).map (·.2) = gone
  have hg : ∀ j ∈ gone, ∃ n, (Name.ts n, j) ∈ s.dir := by
    rw [← hgone]; exact gone_are_ts s.dir _
  have hnodup : (s.dir.map (·.2)).Nodup := by rw [h.dirInodes]; exact lt_pairwise_nodup h.sorted
  -- on directory entries the filter only looks at the inode id
  have hfilter : s.dir.filter (fun x => !(gone.contains x.2 && isTs x.1))
      = s.dir.filter (fun x => !gone.contains x.2) := by
    apply List.filter_congr
    intro x hx
    cases hc : gone.contains x.2 with
    | false => simp
    | true =>
      have hxg : x.2 ∈ gone := by simpa using hc
      obtain ⟨n, hn⟩ := hg x.2 hxg
      have := inj_of_nodup_map hnodup hx hn rfl
      rw [this]
      simp [isTs]
  have hsubd : ∀ e, e ∈ s.dir.filter (fun x => !gone.contains x.2) → e ∈ s.dir := fun e he => (List.mem_filter.mp he).1
  have hsubi : ∀ e, e ∈ s.inodes.filter (fun x => !gone.contains x.id) → e ∈ s.inodes := fun e he => (List.mem_filter.mp he).1
  refine ⟨⟨?_, ?_, ?_, ?_, ?_, ?_, ?_, ?_⟩, hfd, ?_⟩
  · intro j hj; simp [hfd] at hj
  · intro j hj
    simp only [hfilter] at hj
    exact absurd (hsubd _ hj) (hnp j)
  · exact List.Pairwise.sublist (List.Sublist.map _ List.filter_sublist) h.sorted
  · intro x hx; exact h.idFresh x (hsubi x hx)
  · intro n j hj
    simp only [hfilter] at hj
    exact h.tsFresh n j (hsubd _ hj)
  · intro hu j hj
    simp only [hfilter] at hj
    exact h.noPlain hu j (hsubd _ hj)
  · simp only [hfilter]
    have e1 : (s.dir.filter (fun x => !gone.contains x.2)).map (·.2) = (s.dir.map (·.2)).filter (fun j => !gone.contains j) := by
      rw [List.filter_map]; rfl
    have e2 : (s.inodes.filter (fun x => !gone.contains x.id)).map (·.id) = (s.inodes.map (·.id)).filter (fun j => !gone.contains j) := by
      rw [List.filter_map]; rfl
    rw [e1, e2, h.dirInodes]
  · simp only [hfilter]
    exact List.Pairwise.sublist (List.Sublist.filterMap _ List.filter_sublist) h.tsSorted
  · intro j hj
    simp only [hfilter] at hj
    exact absurd (hsubd _ hj) (hnp j)

/-! ### rotate / step -/

theorem ord_rotate {c : Cfg} {s : St} (el : Nat) (h : Ord c s) : Ord c (rotate c s el).1 := by
  unfold rotate
  by_cases hn : needRotate c s.bytesWritten el = true
  · simp only [hn, if_true]
    by_cases ht : c.tsOnly = true
    · simp only [ht, if_true]
      cases hl : lookup (closeFd s).dir .plain with
      | none => exact ord_close h
      | some i =>
        simp only
        have hmem : (Name.plain, i) ∈ (closeFd s).dir := lookup_mem' hl
        obtain ⟨h1, h2⟩ := ord_renamePlain (ord_close h) rfl hmem
        obtain ⟨h3, _, _⟩ := ord_prune h1 rfl h2
        exact ord_open h3
    · simp only [ht, if_false, Bool.false_eq_true]
      -- rotation needed and not timestamp-only: the sink never uses the plain name
      have hu : usesPlain c = false := by
        unfold usesPlain rotateEnabled
        unfold needRotate at hn
        have ht' : c.tsOnly = false := by simpa using ht
        rw [ht']
        simp only [Bool.false_or, Bool.not_eq_false', Bool.or_eq_true, decide_eq_true_eq, bne_iff_ne, ne_eq]
        simp only [Bool.or_eq_true, Bool.and_eq_true, decide_eq_true_eq] at hn
        rcases hn with ⟨_, hn⟩ | ⟨_, hn⟩
        · exact Or.inl hn
        · exact Or.inr (by omega)
      obtain ⟨h3, _, _⟩ := ord_prune (ord_close h) rfl (fun j => (ord_close h).noPlain hu j)
      exact ord_open h3
  · simp only [hn, if_false, Bool.false_eq_true]
    exact h

theorem appendTo_ids (s : St) (i ev size : Nat) : (appendTo s i ev size).inodes.map (·.id) = s.inodes.map (·.id) := by
  unfold appendTo
  simp only [List.map_map]
  apply List.map_congr_left
  intro x _
  simp only [Function.comp]
  split <;> rfl

theorem ord_append {c : Cfg} {s : St} (i ev size : Nat) (h : Ord c s) : Ord c (appendTo s i ev size) := by
  have hids := appendTo_ids s i ev size
  refine ⟨?_, ?_, ?_, ?_, h.tsFresh, h.noPlain, ?_, h.tsSorted⟩
  · intro j hj; rw [hids]; exact h.fdLast j hj
  · intro j hj; rw [hids]; exact h.plainLast j hj
  · rw [hids]; exact h.sorted
  · intro x hx
    have : x.id ∈ (appendTo s i ev size).inodes.map (·.id) := List.mem_map.mpr ⟨x, hx, rfl⟩
    rw [hids] at this
    obtain ⟨y, hy, hyx⟩ := List.mem_map.mp this
    have := h.idFresh y hy
    show x.id < s.stamp
    omega
  · rw [hids]; exact h.dirInodes

theorem ord_forget {c : Cfg} {s : St} (h : Ord c s) : Ord c { s with fd := none, fdName := none } :=
  ⟨by simp, h.plainLast, h.sorted, h.idFresh, h.tsFresh, h.noPlain, h.dirInodes, h.tsSorted⟩

theorem ord_extRename {c : Cfg} {s : St} (n : Name) (k : Nat) (h : Ord c s) :
    Ord c { s with dir := s.dir.map (fun x => if x.1 == n then (Name.foreign k, x.2) else x) } := by
  have hsnd : (s.dir.map (fun x => if x.1 == n then (Name.foreign k, x.2) else x)).map (·.2) = s.dir.map (·.2) := by
    simp only [List.map_map]
    apply List.map_congr_left
    intro x _
    simp only [Function.comp]
    split <;> rfl
  have hmem : ∀ nm j, nm ≠ Name.foreign k →
      (nm, j) ∈ s.dir.map (fun x => if x.1 == n then (Name.foreign k, x.2) else x) → (nm, j) ∈ s.dir := by
    intro nm j hne hj
    obtain ⟨x, hx, hxe⟩ := List.mem_map.mp hj
    split at hxe
    · injection hxe with h1 _; exact absurd h1.symm hne
    · rw [← hxe]; exact hx
  refine ⟨h.fdLast, ?_, h.sorted, h.idFresh, ?_, ?_, ?_, ?_⟩
  · intro j hj; exact h.plainLast j (hmem _ _ (by simp) hj)
  · intro m j hj; exact h.tsFresh m j (hmem _ _ (by simp) hj)
  · intro hu j hj; exact h.noPlain hu j (hmem _ _ (by simp) hj)
  · simp only [hsnd]; exact h.dirInodes
  · have hsub : ((s.dir.map (fun x => if x.1 == n then (Name.foreign k, x.2) else x)).filterMap tsOf).Sublist (s.dir.filterMap tsOf) := by
      generalize s.dir = d
      induction d with
      | nil => simp
      | cons x xs ih =>
        simp only [List.map_cons, List.filterMap_cons]
        by_cases hx : (x.1 == n) = true
        · simp only [hx, if_true, tsOf]
          split
          · exact ih
          · exact List.Sublist.cons _ ih
        · simp only [hx, if_false, Bool.false_eq_true]
          split
          · exact ih
          · exact List.Sublist.cons_cons _ ih
    exact List.Pairwise.sublist hsub h.tsSorted

theorem ord_step {c : Cfg} {s : St} (op : Op) (h : Ord c s) : Ord c (step c s op).1 := by
  cases op with
  | write ev size elapsed =>
    simp only [step]
    generalize (if s.fd.isNone = true then 0 else elapsed) = el
    have h2 := ord_rotate el (ord_open (c := c) h)
    cases hr : (rotate c (openFile c s) el).2 with
    | errRotate => simp only; exact h2
    | errFormat => simp only; exact h2
    | ok =>
      cases hfd : (rotate c (openFile c s) el).1.fd with
      | none => simp only; exact h2
      | some i => simp only; exact ord_append i ev size h2
  | reopen =>
    simp only [step]
    apply ord_open
    apply ord_close
    split
    · split
      · exact ord_forget h
      · exact h
    · exact h
  | extRename k =>
    simp only [step]
    split
    · split
      · exact ord_extRename _ k h
      · exact h
    · exact h
  | noFormat => simp only [step]; exact h

theorem ord_run (c : Cfg) (ops : List Op) : ∀ s, Ord c s → Ord c (run c s ops) := by
  induction ops with
  | nil => intro s h; exact h
  | cons op rest ih => intro s h; exact ih _ (ord_step op h)

/-! ### where an acknowledged write lands -/

/-- with the descriptor on the newest inode, the write lands at the very end of "the files read
oldest to newest" -/
theorem append_at_end {c : Cfg} {s : St} (h : Ord c s) {i : Nat} (hfd : s.fd = some i) (ev size : Nat) :
    contents (appendTo s i ev size) = contents s ++ [ev] := by
  have hlast := h.fdLast i hfd
  have hne : s.inodes ≠ [] := by
    intro he; rw [he] at hlast; simp at hlast
  have hsplit := (List.dropLast_concat_getLast hne).symm
  generalize s.inodes.dropLast = pre at hsplit
  generalize s.inodes.getLast hne = x at hsplit
  have hsorted := h.sorted
  rw [hsplit] at hlast hsorted
  simp only [List.map_append, List.map_cons, List.map_nil, List.getLast?_append, List.getLast?_singleton,
    Option.some_or, Option.some.injEq] at hlast hsorted
  have hpre : ∀ y ∈ pre, (y.id == i) = false := by
    intro y hy
    have := (List.pairwise_append.mp hsorted).2.2 y.id (List.mem_map.mpr ⟨y, hy, rfl⟩) x.id (by simp)
    simp only [beq_eq_false_iff_ne, ne_eq]
    omega
  unfold appendTo contents
  simp only [hsplit, List.map_append, List.flatMap_append, List.map_cons, List.map_nil, List.flatMap_cons,
    List.flatMap_nil, List.append_nil]
  have hx : (x.id == i) = true := by simp [hlast]
  rw [map_id_of_forall _ pre (fun y hy => by simp [hpre y hy])]
  simp [hx]

end Evl.FileSink
