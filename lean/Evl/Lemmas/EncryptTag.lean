import Evl.Model.EncryptTag
import Evl.Lemmas.EncryptTree
/-! Lemmas about M7g `EncryptTag`: with protecting pointer tags only, whatever `filterTaggable` has
marked holds nothing readable (`Inv`), the invariant survives every tag (`applyTag_inv`), and the walk
of `processUnfiltered` over an invariant state leaves nothing readable (`filtT_clean`). -/
namespace Evl.EncryptTag
open Evl.Encrypt Evl.EncryptTree

/-- what a protecting pointer tag leaves at its pointer: nothing readable, and no container -/
def settled : V → Bool
  | .leaf l => cleanLeaf l
  | .ptr (.leaf l) => cleanLeaf l      -- a string held through a pointer, filtered in place
  | .nilPtr => true
  | _ => false

/-- what a marked pointer points at -/
def settledP : V → Bool
  | .leaf l => cleanLeaf l
  | _ => false

/-- a pointer tag keeps a value exactly when a struct tag would -/
theorem tagAction_keep_iff (t : TagInfo) : tagAction t = .keep ↔ action t = .keep := by
  unfold tagAction action
  by_cases h : t.cls = .pub ∨ t.op = .none
  · simp [h]
  · simp only [h, if_false]
    cases hc : t.cls <;> cases ho : t.op <;> simp

mutual
/-- the keys of a map are distinct (Go maps), also in the maps a pointer can go through -/
def keysOK (seen : List Nat) : Items → Bool
  | .nil => true
  | .cons (.key k) v rest => !seen.contains k && keysOKV v && keysOK (k :: seen) rest
  | .cons _ _ _ => false
def keysOKV : V → Bool
  | .map es => keysOK [] es
  | .ptr w => keysOKP w
  | _ => true
def keysOKP : V → Bool
  | .map es => keysOK [] es
  | _ => true
end

mutual
/-- the invariant of `filterTaggable` when every tag protects: a marked key holds a settled value,
everything else is guarded the way a value of an untagged map has to be (M7t) -/
def invI (c : Ctx) (marks : List (List Nat)) : Items → Bool
  | .nil => true
  | .cons (.key k) v rest => invV c (subMarks k marks) (marks.contains [k]) v && invI c marks rest
  | .cons _ _ _ => false
def invV (c : Ctx) (sub : List (List Nat)) (marked : Bool) : V → Bool
  | .map es => !marked && (if sub.isEmpty then guardedEntries c es else invI c sub es)
  | .ptr w => if marked then settledP w else (if sub.isEmpty then guardedEntryTarget c w else invP c sub w)
  | .leaf l => !marked || cleanLeaf l
  | .leaves _ => !marked
  | .struct fs => !marked && guardedFields c true fs
  | .slice vs => !marked && guardedMapSlice c vs
  | .iface v => !marked && guardedEntry c v
  | .nilPtr => true
def invP (c : Ctx) (sub : List (List Nat)) : V → Bool
  | .map es => invI c sub es
  | w => guardedEntryTarget c w
end

/-! ### marks -/

theorem subMarks_append (k : Nat) (a b : List (List Nat)) : subMarks k (a ++ b) = subMarks k a ++ subMarks k b := by
  simp [subMarks, List.filterMap_append]

theorem subMarks_single_one (j k : Nat) : subMarks j [[k]] = [] := by
  simp [subMarks]

theorem subMarks_single_other (j k k2 : Nat) (q : List Nat) (h : j ≠ k) : subMarks j [k :: k2 :: q] = [] := by
  simp [subMarks, Ne.symm h]

theorem subMarks_single_same (k k2 : Nat) (q : List Nat) : subMarks k [k :: k2 :: q] = [k2 :: q] := by
  simp [subMarks]

theorem contains_append_single (marks : List (List Nat)) (p q : List Nat) (h : p ≠ q) :
    (marks ++ [q]).contains p = marks.contains p := by
  simp [List.contains_eq_mem, List.mem_append, h]

theorem contains_append_self (marks : List (List Nat)) (p : List Nat) : (marks ++ [p]).contains p = true := by
  simp

/-! ### the generic step: rewriting the value under one key -/

/-- entries whose keys differ from `k` do not notice a change of marks that only concerns `k` -/
theorem invI_congr (c : Ctx) (marks marks' : List (List Nat)) (k : Nat)
    (h1 : ∀ j, j ≠ k → subMarks j marks' = subMarks j marks ∧ marks'.contains [j] = marks.contains [j]) :
    (es : Items) → (seen : List Nat) → k ∈ seen → keysOK seen es = true → invI c marks es = true → invI c marks' es = true
  | .nil, _, _, _, _ => by simp [invI]
  | .cons (.key k') v rest, seen, hk, ho, hi => by
    simp only [keysOK, Bool.and_eq_true, Bool.not_eq_true', List.contains_eq_mem, decide_eq_false_iff_not] at ho
    simp only [invI, Bool.and_eq_true] at hi ⊢
    have hne : k' ≠ k := fun e => ho.1.1 (e ▸ hk)
    obtain ⟨e1, e2⟩ := h1 k' hne
    rw [e1, e2]
    exact ⟨hi.1, invI_congr c marks marks' k h1 rest (k' :: seen) (List.mem_cons_of_mem _ hk) ho.2 hi.2⟩
  | .cons (.field _ _) _ _, _, _, ho, _ => by simp [keysOK] at ho
  | .cons .elem _ _, _, _, ho, _ => by simp [keysOK] at ho
termination_by structural x => x

/-- rewriting the value under key `k` -/
theorem setIn_inv (c : Ctx) (marks marks' : List (List Nat)) (k : Nat) (f : V → V) (v0 : V)
    (h1 : ∀ j, j ≠ k → subMarks j marks' = subMarks j marks ∧ marks'.contains [j] = marks.contains [j])
    (h2 : invV c (subMarks k marks) (marks.contains [k]) v0 = true → keysOKV v0 = true →
          invV c (subMarks k marks') (marks'.contains [k]) (f v0) = true ∧ keysOKV (f v0) = true) :
    (es : Items) → (seen : List Nat) → find k es = some v0 → keysOK seen es = true → invI c marks es = true →
      invI c marks' (setIn k f es) = true ∧ keysOK seen (setIn k f es) = true
  | .nil, _, hf, _, _ => by simp [find] at hf
  | .cons (.key k') v rest, seen, hf, ho, hi => by
    simp only [keysOK, Bool.and_eq_true] at ho
    simp only [invI, Bool.and_eq_true] at hi
    by_cases hk : k' = k
    · subst hk
      simp only [find, if_true, Option.some.injEq] at hf
      subst hf
      obtain ⟨g1, g2⟩ := h2 hi.1 ho.1.2
      have hr := invI_congr c marks marks' k' h1 rest (k' :: seen) (List.mem_cons_self ..) ho.2 hi.2
      simp only [setIn, if_true, invI, keysOK, Bool.and_eq_true]
      exact ⟨⟨g1, hr⟩, ⟨ho.1.1, g2⟩, ho.2⟩
    · simp only [find, hk, if_false] at hf
      obtain ⟨r1, r2⟩ := setIn_inv c marks marks' k f v0 h1 h2 rest (k' :: seen) hf ho.2 hi.2
      obtain ⟨e1, e2⟩ := h1 k' hk
      simp only [setIn, hk, if_false, invI, keysOK, Bool.and_eq_true, e1, e2]
      exact ⟨⟨hi.1, r1⟩, ho.1, r2⟩
  | .cons (.field _ _) _ _, _, _, ho, _ => by simp [keysOK] at ho
  | .cons .elem _ _, _, _, ho, _ => by simp [keysOK] at ho
termination_by structural x => x

/-- what the invariant says about the value under a key -/
theorem find_inv (c : Ctx) (marks : List (List Nat)) (k : Nat) (v0 : V) :
    (es : Items) → (seen : List Nat) → find k es = some v0 → keysOK seen es = true → invI c marks es = true →
      invV c (subMarks k marks) (marks.contains [k]) v0 = true ∧ keysOKV v0 = true
  | .nil, _, hf, _, _ => by simp [find] at hf
  | .cons (.key k') v rest, seen, hf, ho, hi => by
    simp only [keysOK, Bool.and_eq_true] at ho
    simp only [invI, Bool.and_eq_true] at hi
    by_cases hk : k' = k
    · subst hk
      simp only [find, if_true, Option.some.injEq] at hf
      subst hf
      exact ⟨hi.1, ho.1.2⟩
    · simp only [find, hk, if_false] at hf
      exact find_inv c marks k v0 rest (k' :: seen) hf ho.2 hi.2
  | .cons (.field _ _) _ _, _, _, ho, _ => by simp [keysOK] at ho
  | .cons .elem _ _, _, _, ho, _ => by simp [keysOK] at ho
termination_by structural x => x

theorem isEmpty_append_single {α : Type} (a : List α) (x : α) : (a ++ [x]).isEmpty = false := by
  cases a <;> rfl

theorem subMarks_nil (k : Nat) : subMarks k [] = [] := rfl

/-- before any tag was applied the invariant is: the values are guarded as those of an untagged map -/
theorem guarded_inv (c : Ctx) : (es : Items) → (seen : List Nat) → keysOK seen es = true → guardedEntries c es = true → invI c [] es = true
  | .nil, _, _, _ => by simp [invI]
  | .cons (.key k) v rest, seen, ho, hg => by
    simp only [keysOK, Bool.and_eq_true] at ho
    simp only [guardedEntries, Bool.and_eq_true] at hg
    simp only [invI, Bool.and_eq_true, subMarks_nil]
    refine ⟨?_, guarded_inv c rest (k :: seen) ho.2 hg.2⟩
    have hg1 := hg.1
    cases v <;> simp_all [invV, guardedEntry]
  | .cons (.field _ _) _ _, _, ho, _ => by simp [keysOK] at ho
  | .cons .elem _ _, _, ho, _ => by simp [keysOK] at ho
termination_by structural x => x

theorem settled_inv (c : Ctx) (sub : List (List Nat)) (v' : V) (hs : settled v' = true) :
    invV c sub true v' = true ∧ keysOKV v' = true := by
  cases v' with
  | ptr w => cases w <;> simp_all [settled, settledP, invV, keysOKV, keysOKP]
  | _ => simp_all [settled, invV, keysOKV]

/-- **`pointerstructure.Set` of a settled value at a found pointer keeps the invariant**, with the
pointer added to the marks -/
theorem setPath_inv (c : Ctx) (v' : V) (hs : settled v' = true) :
    (p : List Nat) → (es : Items) → (seen : List Nat) → (marks : List (List Nat)) → (v : V) →
      getPath p es = .found v → keysOK seen es = true → invI c marks es = true →
      invI c (marks ++ [p]) (setPath p v' es) = true ∧ keysOK seen (setPath p v' es) = true
  | [], _, _, _, _, hg, _, _ => by simp [getPath] at hg
  | [k], es, seen, marks, v, hg, ho, hi => by
    have hf : find k es = some v := by
      simp only [getPath] at hg
      split at hg
      · rename_i w hw; cases hg; exact hw
      · cases hg
    simp only [setPath]
    refine setIn_inv c marks (marks ++ [[k]]) k (fun _ => v') v ?_ ?_ es seen hf ho hi
    · intro j hj
      refine ⟨by rw [subMarks_append, subMarks_single_one, List.append_nil], ?_⟩
      exact contains_append_single marks [j] [k] (by simpa using hj)
    · intro _ _
      rw [contains_append_self]
      exact settled_inv c _ v' hs
  | k :: k2 :: q, es, seen, marks, v, hg, ho, hi => by
    simp only [getPath] at hg
    split at hg
    · cases hg
    · rename_i v0 hf
      split at hg
      · rename_i es0 hm
        simp only [setPath]
        refine setIn_inv c marks (marks ++ [k :: k2 :: q]) k _ v0 ?_ ?_ es seen hf ho hi
        · intro j hj
          refine ⟨by rw [subMarks_append, subMarks_single_other j k k2 q hj, List.append_nil], ?_⟩
          exact contains_append_single marks [j] (k :: k2 :: q) (by simp)
        · intro hv hkv
          rw [subMarks_append, subMarks_single_same, contains_append_single marks [k] (k :: k2 :: q) (by simp)]
          -- the value is a map, or a pointer to one
          cases v0 with
          | map es1 =>
            simp only [asMap, Option.some.injEq] at hm
            subst hm
            simp only [invV, Bool.and_eq_true, Bool.not_eq_true'] at hv
            simp only [keysOKV] at hkv
            have hi0 : invI c (subMarks k marks) es1 = true := by
              by_cases he : (subMarks k marks).isEmpty = true
              · have : subMarks k marks = [] := by simpa using he
                rw [this]
                simp only [he, if_true] at hv
                exact guarded_inv c es1 [] hkv hv.2
              · simp only [he, Bool.false_eq_true, if_false] at hv
                exact hv.2
            obtain ⟨r1, r2⟩ := setPath_inv c v' hs (k2 :: q) es1 [] (subMarks k marks) v hg hkv hi0
            simp only [onMap, invV, keysOKV, hv.1, Bool.not_false, Bool.true_and, isEmpty_append_single,
              Bool.false_eq_true, if_false]
            exact ⟨r1, r2⟩
          | ptr w =>
            cases w with
            | map es1 =>
              simp only [asMap, Option.some.injEq] at hm
              subst hm
              simp only [invV, invP] at hv
              have hm0 : marks.contains [k] = false := by
                cases hc : marks.contains [k] with
                | false => rfl
                | true =>
                  simp only [settledP] at hv
                  have hc' : [k] ∈ marks := by simpa using hc
                  simp [hc'] at hv
              simp only [hm0, Bool.false_eq_true, if_false] at hv
              simp only [keysOKV, keysOKP] at hkv
              have hi0 : invI c (subMarks k marks) es1 = true := by
                by_cases he : (subMarks k marks).isEmpty = true
                · have : subMarks k marks = [] := by simpa using he
                  rw [this]
                  simp only [he, if_true, guardedEntryTarget] at hv
                  exact guarded_inv c es1 [] hkv hv
                · simp only [he, Bool.false_eq_true, if_false] at hv
                  exact hv
              obtain ⟨r1, r2⟩ := setPath_inv c v' hs (k2 :: q) es1 [] (subMarks k marks) v hg hkv hi0
              simp only [onMap, invV, invP, keysOKV, keysOKP, hm0, isEmpty_append_single,
                Bool.false_eq_true, if_false]
              exact ⟨r1, r2⟩
            | _ => simp [asMap] at hm
          | _ => simp [asMap] at hm
      · split at hg <;> cases hg

/-- what `filterValue` stores at a pointer under a protecting tag is settled -/
theorem filterTagged_settled (c : Ctx) (t : TagInfo) (ha : tagAction t ≠ .keep) (v v' : V)
    (h : filterTagged c t v = some v') : settled v' = true := by
  have ha' : action t ≠ .keep := fun e => ha ((tagAction_keep_iff t).mpr e)
  cases v with
  | leaf l =>
    cases l with
    | plain m =>
      simp only [filterTagged] at h
      obtain ⟨l', hl, rfl⟩ := map_some h
      rcases filterLeaf_cases hl with ⟨hk, _⟩ | ⟨_, h2, _⟩
      · exact absurd hk ha
      · simp [settled, cleanLeaf, h2]
    | nilBytes => simp only [filterTagged, Option.some.injEq] at h; subst h; rfl
    | _ => simp [filterTagged, ha] at h
  | nilPtr => simp only [filterTagged, Option.some.injEq] at h; subst h; rfl
  | ptr w =>
    cases w with
    | leaf l =>
      cases l with
      | plain m =>
        simp only [filterTagged] at h
        obtain ⟨l', hl, rfl⟩ := map_some h
        rcases filterLeaf_cases hl with ⟨hk, _⟩ | ⟨_, h2, _⟩
        · exact absurd hk ha'
        · simp [settled, cleanLeaf, h2]
      | _ => simp [filterTagged, ha] at h
    | _ => simp [filterTagged, ha] at h
  | _ => simp [filterTagged, ha] at h

/-- one protecting tag keeps the invariant -/
theorem applyTag_inv (c : Ctx) (s s' : TS) (t : PTag)
    (hp : tagAction (fromTagString t.tagString c.ov) ≠ .keep)
    (h : applyTag c s t = some s') (ho : keysOK [] s.es = true) (hi : invI c s.marks s.es = true) :
    invI c s'.marks s'.es = true ∧ keysOK [] s'.es = true := by
  unfold applyTag at h
  split at h
  · cases h; exact ⟨hi, ho⟩
  · cases h
  · rename_i v hg
    split at h
    · cases h
    · rename_i v' hf
      cases h
      exact setPath_inv c v' (filterTagged_settled c _ hp v v' hf) t.path s.es [] s.marks v hg ho hi

/-- ... and so do all of them -/
theorem applyTags_inv (c : Ctx) : (tags : List PTag) → (s s' : TS) →
    (∀ t ∈ tags, tagAction (fromTagString t.tagString c.ov) ≠ .keep) →
    applyTags c tags s = some s' → keysOK [] s.es = true → invI c s.marks s.es = true →
    invI c s'.marks s'.es = true ∧ keysOK [] s'.es = true
  | [], s, s', _, h, ho, hi => by
    simp only [applyTags, Option.some.injEq] at h
    subst h; exact ⟨hi, ho⟩
  | t :: ts, s, s', hp, h, ho, hi => by
    simp only [applyTags] at h
    split at h
    · cases h
    · rename_i s1 h1
      obtain ⟨i1, o1⟩ := applyTag_inv c s s1 t (hp t (by simp)) h1 ho hi
      exact applyTags_inv c ts s1 s' (fun x hx => hp x (by simp [hx])) h o1 i1

theorem protects_mapTag : protects mapTag = true := by decide

mutual
/-- **the walk over an invariant state leaves nothing readable** -/
theorem filtT_clean (c : Ctx) (marks : List (List Nat)) : (es es' : Items) → filtT c marks false es = some es' →
    invI c marks es = true → plainsI es' = []
  | .nil, es', h, _ => by
    simp only [filtT, Option.some.injEq] at h
    subst h; rfl
  | .cons (.key k) v rest, es', h, hi => by
    simp only [filtT, Bool.false_or] at h
    simp only [invI, Bool.and_eq_true] at hi
    split at h
    · rename_i v' r hv hr
      cases h
      simp only [plainsI, filtTV_clean c (subMarks k marks) (marks.contains [k]) v v' hv hi.1,
        filtT_clean c marks rest r hr hi.2, List.append_nil]
    · cases h
  | .cons (.field _ _) _ _, _, _, hi => by simp [invI] at hi
  | .cons .elem _ _, _, _, hi => by simp [invI] at hi
termination_by structural x _ _ _ => x
theorem filtTV_clean (c : Ctx) (sub : List (List Nat)) (marked : Bool) : (v v' : V) → filtTV c sub marked v = some v' →
    invV c sub marked v = true → plains v' = []
  | .map es, v', h, hi => by
    simp only [invV, Bool.and_eq_true, Bool.not_eq_true'] at hi
    obtain ⟨hm, hi⟩ := hi
    subst hm
    simp only [filtTV, Bool.false_and, Bool.false_eq_true, if_false] at h
    split at h
    · rename_i he
      simp only [he, if_true] at hi
      obtain ⟨w, hw, rfl⟩ := map_some h
      simp only [plains, filtEntries_clean c es w hw hi]
    · rename_i he
      simp only [he, if_false] at hi
      obtain ⟨w, hw, rfl⟩ := map_some h
      simp only [plains, filtT_clean c sub es w hw hi]
  | .ptr w0, v', h, hi => by
    simp only [invV] at hi
    cases marked with
    | true =>
      simp only [if_true] at hi
      -- a marked pointer points at a settled string: it is kept as it is
      cases w0 with
      | leaf l =>
        simp only [settledP] at hi
        simp only [filtTV, filtTP, if_true] at h
        split at h
        · cases h; simpa [plains] using cleanLeaf_iff.mp hi
        · simp only [Option.map_some, Option.some.injEq] at h
          subst h; simpa [plains] using cleanLeaf_iff.mp hi
      | _ => simp [settledP] at hi
    | false =>
      simp only [Bool.false_eq_true, if_false] at hi
      simp only [filtTV, Bool.false_eq_true, if_false] at h
      split at h
      · rename_i he
        simp only [he, if_true] at hi
        obtain ⟨w, hw, rfl⟩ := map_some h
        simp only [plains, filtEntryTarget_clean c w0 w hw hi]
      · rename_i he
        simp only [he, if_false] at hi
        obtain ⟨w, hw, rfl⟩ := map_some h
        simp only [plains, filtTP_clean c sub w0 w hw hi]
  | .leaf l, v', h, hi => by
    simp only [invV, Bool.or_eq_true, Bool.not_eq_true'] at hi
    simp only [filtTV] at h
    split at h
    · rename_i hm
      cases h
      rcases hi with hi | hi
      · simp [hm] at hi
      · simpa [plains] using cleanLeaf_iff.mp hi
    · obtain ⟨l', hl, rfl⟩ := map_some h
      simp only [plains, filterStr_clean hl (Or.inr ⟨mapTag_protects, rfl⟩)]
  | .leaves ls, v', h, hi => by
    simp only [invV, Bool.not_eq_true'] at hi
    subst hi
    simp only [filtTV, Bool.false_eq_true, if_false] at h
    obtain ⟨l', hl, rfl⟩ := map_some h
    simp only [plains, filterStrs_clean hl (by simp [protects_mapTag])]
  | .struct fs, v', h, hi => by
    simp only [invV, Bool.and_eq_true, Bool.not_eq_true'] at hi
    obtain ⟨hm, hi⟩ := hi
    subst hm
    simp only [filtTV, Bool.false_eq_true, if_false] at h
    obtain ⟨w, hw, rfl⟩ := map_some h
    simp only [plains, filtFields_clean c true fs w hw hi]
  | .slice vs, v', h, hi => by
    simp only [invV, Bool.and_eq_true, Bool.not_eq_true'] at hi
    obtain ⟨hm, hi⟩ := hi
    subst hm
    simp only [filtTV, Bool.false_eq_true, if_false] at h
    obtain ⟨w, hw, rfl⟩ := map_some h
    simp only [plains, filtMapSlice_clean c vs w hw hi]
  | .iface v, v', h, hi => by
    simp only [invV, Bool.and_eq_true, Bool.not_eq_true'] at hi
    obtain ⟨hm, hi⟩ := hi
    subst hm
    simp only [filtTV, Bool.false_eq_true, if_false] at h
    obtain ⟨w, hw, rfl⟩ := map_some h
    simp only [plains, filtEntry_clean c v w hw hi]
  | .nilPtr, v', h, _ => by
    simp only [filtTV, Option.some.injEq] at h
    subst h; rfl
termination_by structural x _ _ _ => x
theorem filtTP_clean (c : Ctx) (sub : List (List Nat)) : (w w' : V) → filtTP c sub false w = some w' →
    invP c sub w = true → plains w' = []
  | .map es, w', h, hi => by
    simp only [invP] at hi
    simp only [filtTP, Bool.false_and] at h
    obtain ⟨r, hr, rfl⟩ := map_some h
    simp only [plains, filtT_clean c sub es r hr hi]
  | .struct fs, w', h, hi => by
    simp only [invP] at hi
    simp only [filtTP, Bool.false_eq_true, if_false] at h
    exact filtEntryTarget_clean c _ w' h hi
  | .leaf l, w', h, hi => by
    simp only [invP] at hi
    simp only [filtTP, Bool.false_eq_true, if_false] at h
    exact filtEntryTarget_clean c _ w' h hi
  | .leaves ls, w', h, hi => by
    simp only [invP] at hi
    simp only [filtTP, Bool.false_eq_true, if_false] at h
    exact filtEntryTarget_clean c _ w' h hi
  | .slice vs, w', h, hi => by
    simp only [invP] at hi
    simp only [filtTP, Bool.false_eq_true, if_false] at h
    exact filtEntryTarget_clean c _ w' h hi
  | .nilPtr, w', h, hi => by
    simp only [invP] at hi
    simp only [filtTP, Bool.false_eq_true, if_false] at h
    exact filtEntryTarget_clean c _ w' h hi
  | .ptr v, w', h, hi => by
    simp only [invP] at hi
    simp only [filtTP, Bool.false_eq_true, if_false] at h
    exact filtEntryTarget_clean c _ w' h hi
  | .iface v, w', h, hi => by
    simp only [invP] at hi
    simp only [filtTP, Bool.false_eq_true, if_false] at h
    exact filtEntryTarget_clean c _ w' h hi
termination_by structural x _ _ _ => x
end

/-- a successful `processTagged` went through both phases -/
theorem processTagged_filtered {c : Ctx} {ewi : Bool} {tags : List PTag} {es : Items} {v' : V}
    (h : processTagged c ewi tags es = .filtered v') :
    ∃ s es', applyTags c tags { es := es, marks := [] } = some s ∧ filtT c s.marks false s.es = some es' ∧ v' = .map es' := by
  unfold processTagged at h
  split at h
  · cases h
  split at h
  · cases h
  split at h
  · cases h
  split at h
  · cases h
  · rename_i s hs
    split at h
    · rename_i es' he
      injection h with h
      exact ⟨s, es', hs, he, h.symm⟩
    · cases h

/-! ### following one top-level key through both phases -/

theorem find_setIn_other (k k' : Nat) (f : V → V) (h : k ≠ k') : (es : Items) → find k (setIn k' f es) = find k es
  | .nil => rfl
  | .cons (.key j) v rest => by
    by_cases hj : j = k'
    · subst hj
      have : ¬ j = k := fun e => h e.symm
      simp [setIn, find, this]
    · by_cases hk : j = k
      · subst hk
        simp [setIn, find, hj]
      · simp [setIn, find, hj, hk, find_setIn_other k k' f h rest]
  | .cons (.field _ _) v rest => by simp [setIn, find, find_setIn_other k k' f h rest]
  | .cons .elem v rest => by simp [setIn, find, find_setIn_other k k' f h rest]
termination_by structural x => x

theorem find_setIn_same (k : Nat) (f : V → V) (v : V) : (es : Items) → find k es = some v → find k (setIn k f es) = some (f v)
  | .nil, h => by simp [find] at h
  | .cons (.key j) v0 rest, h => by
    by_cases hj : j = k
    · subst hj
      simp only [find, if_true, Option.some.injEq] at h
      subst h
      simp [setIn, find]
    · simp only [find, hj, if_false] at h
      simp [setIn, find, hj, find_setIn_same k f v rest h]
  | .cons (.field _ _) v0 rest, h => by
    simp only [find] at h
    simp [setIn, find, find_setIn_same k f v rest h]
  | .cons .elem v0 rest, h => by
    simp only [find] at h
    simp [setIn, find, find_setIn_same k f v rest h]
termination_by structural x => x

/-- a pointer that does not start with `k` leaves the value under `k` alone -/
theorem find_setPath_other (k : Nat) (v' : V) (es : Items) : (p : List Nat) → p.head? ≠ some k → find k (setPath p v' es) = find k es
  | [], _ => rfl
  | [k'], h => by
    simp only [List.head?_cons, ne_eq, Option.some.injEq] at h
    exact find_setIn_other k k' _ (fun e => h e.symm) es
  | k' :: _ :: _, h => by
    simp only [List.head?_cons, ne_eq, Option.some.injEq] at h
    exact find_setIn_other k k' _ (fun e => h e.symm) es

/-- the tags that concern key `k` all name exactly `/k` and keep what they find -/
def onlyKept (c : Ctx) (k : Nat) (tags : List PTag) : Prop :=
  ∀ t ∈ tags, t.path.head? = some k → t.path = [k] ∧ tagAction (fromTagString t.tagString c.ov) = .keep

theorem filterTagged_keep_plain (c : Ctx) (t : TagInfo) (m : Nat) (h : tagAction t = .keep) :
    filterTagged c t (.leaf (.plain m)) = some (.leaf (.plain m)) := by
  simp [filterTagged, filterLeaf, h]

/-- phase 1, seen from a top-level string under key `k` that only keeping tags name: the string
stays, no mark points below it, and it is marked exactly when one of the tags names it -/
theorem applyTags_key (c : Ctx) (k m : Nat) : (tags : List PTag) → (s s' : TS) → onlyKept c k tags →
    applyTags c tags s = some s' → find k s.es = some (.leaf (.plain m)) →
    (∀ p ∈ s.marks, p.head? = some k → p = [k]) →
    find k s'.es = some (.leaf (.plain m)) ∧ (∀ p ∈ s'.marks, p.head? = some k → p = [k]) ∧
      (s'.marks.contains [k] = true ↔ (s.marks.contains [k] = true ∨ ∃ t ∈ tags, t.path = [k]))
  | [], s, s', _, h, hf, hm => by
    simp only [applyTags, Option.some.injEq] at h
    subst h
    exact ⟨hf, hm, by simp⟩
  | t :: ts, s, s', hk, h, hf, hm => by
    simp only [applyTags] at h
    split at h
    · cases h
    · rename_i s1 h1
      have hk' : onlyKept c k ts := fun x hx => hk x (by simp [hx])
      -- what the first tag does
      have step : find k s1.es = some (.leaf (.plain m)) ∧ (∀ p ∈ s1.marks, p.head? = some k → p = [k]) ∧
          (s1.marks.contains [k] = true ↔ (s.marks.contains [k] = true ∨ t.path = [k])) := by
        unfold applyTag at h1
        by_cases hh : t.path.head? = some k
        · obtain ⟨hp, ha⟩ := hk t (by simp) hh
          rw [hp] at h1
          simp only [getPath, hf, filterTagged_keep_plain c _ m ha, Option.some.injEq] at h1
          subst h1
          refine ⟨?_, ?_, ?_⟩
          · simp only [setPath]
            rw [find_setIn_same k _ _ s.es hf]
          · intro p hpm
            simp only [List.mem_append, List.mem_singleton] at hpm
            rcases hpm with hpm | hpm
            · exact hm p hpm
            · intro _; exact hpm
          · simp [hp]
        · have hne : t.path ≠ [k] := fun e => hh (by simp [e])
          split at h1
          · cases h1; exact ⟨hf, hm, by simp [hne]⟩
          · cases h1
          · split at h1
            · cases h1
            · cases h1
              refine ⟨?_, ?_, ?_⟩
              · rw [find_setPath_other k _ s.es t.path hh]; exact hf
              · intro p hpm
                simp only [List.mem_append, List.mem_singleton] at hpm
                rcases hpm with hpm | hpm
                · exact hm p hpm
                · intro hx; exact absurd (hpm ▸ hx) hh
              · simp only [List.contains_eq_mem, List.mem_append, List.mem_singleton, decide_eq_true_eq]
                constructor
                · rintro (h | h)
                  · exact Or.inl h
                  · exact absurd h.symm hne
                · rintro (h | h)
                  · exact Or.inl h
                  · exact absurd h hne
      obtain ⟨f1, m1, c1⟩ := step
      obtain ⟨f2, m2, c2⟩ := applyTags_key c k m ts s1 s' hk' h f1 m1
      refine ⟨f2, m2, ?_⟩
      rw [c2, c1]
      constructor
      · rintro ((h | h) | ⟨x, hx, hxp⟩)
        · exact Or.inl h
        · exact Or.inr ⟨t, by simp, h⟩
        · exact Or.inr ⟨x, by simp [hx], hxp⟩
      · rintro (h | ⟨x, hx, hxp⟩)
        · exact Or.inl (Or.inl h)
        · simp only [List.mem_cons] at hx
          rcases hx with hx | hx
          · subst hx; exact Or.inl (Or.inr hxp)
          · exact Or.inr ⟨x, hx, hxp⟩

/-- phase 2 at one key -/
theorem filtT_find (c : Ctx) (marks : List (List Nat)) (k : Nat) (v : V) : (es es' : Items) →
    filtT c marks false es = some es' → find k es = some v →
    ∃ v', find k es' = some v' ∧ filtTV c (subMarks k marks) (marks.contains [k]) v = some v'
  | .nil, _, _, hf => by simp [find] at hf
  | .cons (.key j) v0 rest, es', h, hf => by
    simp only [filtT, Bool.false_or] at h
    split at h
    · rename_i w r hw hr
      cases h
      by_cases hj : j = k
      · subst hj
        simp only [find, if_true, Option.some.injEq] at hf
        subst hf
        exact ⟨w, by simp [find], hw⟩
      · simp only [find, hj, if_false] at hf
        obtain ⟨v', h1, h2⟩ := filtT_find c marks k v rest r hr hf
        exact ⟨v', by simp [find, hj, h1], h2⟩
    · cases h
  | .cons (.field _ _) v0 rest, es', h, hf => by
    simp only [filtT] at h
    simp only [find] at hf
    obtain ⟨r, hr, rfl⟩ := map_some h
    obtain ⟨v', h1, h2⟩ := filtT_find c marks k v rest r hr hf
    exact ⟨v', by simp [find, h1], h2⟩
  | .cons .elem v0 rest, es', h, hf => by
    simp only [filtT] at h
    simp only [find] at hf
    obtain ⟨r, hr, rfl⟩ := map_some h
    obtain ⟨v', h1, h2⟩ := filtT_find c marks k v rest r hr hf
    exact ⟨v', by simp [find, h1], h2⟩
termination_by structural x => x

theorem subMarks_of_heads (k : Nat) (marks : List (List Nat)) (h : ∀ p ∈ marks, p.head? = some k → p = [k]) :
    subMarks k marks = [] := by
  induction marks with
  | nil => rfl
  | cons p ps ih =>
    have ih' := ih (fun q hq => h q (by simp [hq]))
    have hp := h p (by simp)
    simp only [subMarks, List.filterMap_cons] at ih' ⊢
    match p, hp with
    | [], _ => simpa using ih'
    | [_], _ => simpa using ih'
    | k' :: k2 :: q, hp =>
      by_cases hk : k' = k
      · subst hk
        have := hp (by simp)
        simp at this
      · simpa [hk] using ih'

end Evl.EncryptTag

namespace Evl.EncryptTag
open Evl.Encrypt Evl.EncryptTree

/-! ### the shape of a Taggable map is preserved -/

theorem skelI_setIn (k : Nat) (f : V → V) (hf : ∀ v, skel (f v) = skel v) : (es : Items) → skelI (setIn k f es) = skelI es
  | .nil => rfl
  | .cons (.key j) v rest => by
    by_cases hj : j = k
    · simp [setIn, hj, skelI, hf]
    · simp [setIn, hj, skelI, skelI_setIn k f hf rest]
  | .cons (.field _ _) v rest => by simp [setIn, skelI, skelI_setIn k f hf rest]
  | .cons .elem v rest => by simp [setIn, skelI, skelI_setIn k f hf rest]
termination_by structural x => x

theorem skel_onMap (f : Items → Items) (hf : ∀ es, skelI (f es) = skelI es) (v : V) : skel (onMap f v) = skel v := by
  cases v with
  | map es => simp [onMap, skel, hf]
  | ptr w => cases w <;> simp [onMap, skel, hf]
  | _ => simp [onMap]

theorem skelI_setIn_found (k : Nat) (f : V → V) (v0 : V) (hs : skel (f v0) = skel v0) : (es : Items) → find k es = some v0 →
    skelI (setIn k f es) = skelI es
  | .nil, h => by simp [find] at h
  | .cons (.key j) w rest, h => by
    by_cases hj : j = k
    · subst hj
      simp only [find, if_true, Option.some.injEq] at h
      subst h
      simp [setIn, skelI, hs]
    · simp only [find, hj, if_false] at h
      simp [setIn, hj, skelI, skelI_setIn_found k f v0 hs rest h]
  | .cons (.field _ _) w rest, h => by
    simp only [find] at h
    simp [setIn, skelI, skelI_setIn_found k f v0 hs rest h]
  | .cons .elem w rest, h => by
    simp only [find] at h
    simp [setIn, skelI, skelI_setIn_found k f v0 hs rest h]
termination_by structural x => x

/-- storing a value of the same shape at a found pointer keeps the shape of the whole map -/
theorem skelI_setPath (v v' : V) (hs : skel v' = skel v) : (p : List Nat) → (es : Items) → getPath p es = .found v →
    skelI (setPath p v' es) = skelI es
  | [], _, h => by simp [getPath] at h
  | [k], es, h => by
    have hf : find k es = some v := by
      simp only [getPath] at h
      split at h
      · rename_i w hw; cases h; exact hw
      · cases h
    simp only [setPath]
    exact skelI_setIn_found k _ v hs es hf
  | k :: k2 :: q, es, h => by
    simp only [getPath] at h
    split at h
    · cases h
    · rename_i v0 hf
      split at h
      · rename_i es0 hm
        simp only [setPath]
        refine skelI_setIn_found k _ v0 ?_ es hf
        cases v0 with
        | map es1 =>
          simp only [asMap, Option.some.injEq] at hm
          subst hm
          simp [onMap, skel, skelI_setPath v v' hs (k2 :: q) es1 h]
        | ptr w1 =>
          cases w1 with
          | map es1 =>
            simp only [asMap, Option.some.injEq] at hm
            subst hm
            simp [onMap, skel, skelI_setPath v v' hs (k2 :: q) es1 h]
          | _ => simp [asMap] at hm
        | _ => simp [asMap] at hm
      · split at h <;> cases h

/-- what `filterValue` stores at a pointer has the shape of what it found there -/
theorem filterTagged_skel (c : Ctx) (t : TagInfo) (v v' : V) (h : filterTagged c t v = some v') : skel v' = skel v := by
  have leafCase : ∀ (a : Action) (m : Nat) (l : Leaf), filterLeaf c.k c.ek a m = some l → skelLeaf l = skelLeaf (.plain m) := by
    intro a m l hl
    rcases filterLeaf_cases hl with ⟨_, rfl⟩ | ⟨_, _, h3⟩
    · rfl
    · rw [h3]; rfl
  cases v with
  | leaf l =>
    cases l with
    | plain m =>
      simp only [filterTagged] at h
      obtain ⟨l', hl, rfl⟩ := map_some h
      simp [skel, leafCase _ m l' hl]
    | nilBytes => simp only [filterTagged, Option.some.injEq] at h; subst h; rfl
    | _ =>
      simp only [filterTagged] at h
      split at h
      · cases h; rfl
      · cases h
  | nilPtr => simp only [filterTagged, Option.some.injEq] at h; subst h; rfl
  | ptr w =>
    cases w with
    | leaf l =>
      cases l with
      | plain m =>
        simp only [filterTagged] at h
        obtain ⟨l', hl, rfl⟩ := map_some h
        simp [skel, leafCase _ m l' hl]
      | _ =>
        simp only [filterTagged] at h
        split at h
        · cases h; rfl
        · cases h
    | _ =>
      simp only [filterTagged] at h
      split at h
      · cases h; rfl
      · cases h
  | _ =>
    simp only [filterTagged] at h
    split at h
    · cases h; rfl
    · cases h

theorem applyTag_skel (c : Ctx) (s s' : TS) (t : PTag) (h : applyTag c s t = some s') : skelI s'.es = skelI s.es := by
  unfold applyTag at h
  split at h
  · cases h; rfl
  · cases h
  · rename_i v hg
    split at h
    · cases h
    · rename_i v' hf
      cases h
      exact skelI_setPath v v' (filterTagged_skel c _ v v' hf) t.path s.es hg

theorem applyTags_skel (c : Ctx) : (tags : List PTag) → (s s' : TS) → applyTags c tags s = some s' → skelI s'.es = skelI s.es
  | [], s, s', h => by
    simp only [applyTags, Option.some.injEq] at h
    subst h; rfl
  | t :: ts, s, s', h => by
    simp only [applyTags] at h
    split at h
    · cases h
    · rename_i s1 h1
      rw [applyTags_skel c ts s1 s' h, applyTag_skel c s s1 t h1]

mutual
theorem filtT_skel (c : Ctx) (marks : List (List Nat)) (skip : Bool) : (es es' : Items) → filtT c marks skip es = some es' →
    skelI es' = skelI es
  | .nil, es', h => by
    simp only [filtT, Option.some.injEq] at h
    subst h; rfl
  | .cons (.key k) v rest, es', h => by
    simp only [filtT] at h
    split at h
    · rename_i v' r hv hr
      cases h
      simp only [skelI, filtTV_skel c _ _ v v' hv, filtT_skel c marks skip rest r hr]
    · cases h
  | .cons (.field _ _) v rest, es', h => by
    simp only [filtT] at h
    obtain ⟨r, hr, rfl⟩ := map_some h
    simp only [skelI, filtT_skel c marks skip rest r hr]
  | .cons .elem v rest, es', h => by
    simp only [filtT] at h
    obtain ⟨r, hr, rfl⟩ := map_some h
    simp only [skelI, filtT_skel c marks skip rest r hr]
termination_by structural x _ _ => x
theorem filtTV_skel (c : Ctx) (sub : List (List Nat)) (marked : Bool) : (v v' : V) → filtTV c sub marked v = some v' →
    skel v' = skel v
  | .map es, v', h => by
    simp only [filtTV] at h
    split at h
    · split at h
      · cases h; rfl
      · obtain ⟨w, hw, rfl⟩ := map_some h
        simp only [skel, filtEntries_skel c es w hw]
    · obtain ⟨w, hw, rfl⟩ := map_some h
      simp only [skel, filtT_skel c sub _ es w hw]
  | .ptr w0, v', h => by
    simp only [filtTV] at h
    split at h
    · split at h
      · cases h; rfl
      · obtain ⟨w, hw, rfl⟩ := map_some h
        simp only [skel, filtEntryTarget_skel c w0 w hw]
    · obtain ⟨w, hw, rfl⟩ := map_some h
      simp only [skel, filtTP_skel c sub marked w0 w hw]
  | .leaf l, v', h => by
    simp only [filtTV] at h
    split at h
    · cases h; rfl
    · obtain ⟨l', hl, rfl⟩ := map_some h
      simp only [skel, filterStr_skel hl]
  | .leaves ls, v', h => by
    simp only [filtTV] at h
    split at h
    · cases h; rfl
    · obtain ⟨l', hl, rfl⟩ := map_some h
      simp only [skel, filterStrs_skel hl]
  | .struct fs, v', h => by
    simp only [filtTV] at h
    split at h
    · cases h; rfl
    · obtain ⟨w, hw, rfl⟩ := map_some h
      simp only [skel, filtFields_skel c true fs w hw]
  | .slice vs, v', h => by
    simp only [filtTV] at h
    split at h
    · cases h; rfl
    · obtain ⟨w, hw, rfl⟩ := map_some h
      simp only [skel, filtMapSlice_skel c vs w hw]
  | .iface v, v', h => by
    simp only [filtTV] at h
    split at h
    · cases h; rfl
    · obtain ⟨w, hw, rfl⟩ := map_some h
      simp only [skel, filtEntry_skel c v w hw]
  | .nilPtr, v', h => by
    simp only [filtTV, Option.some.injEq] at h
    subst h; rfl
termination_by structural x _ _ => x
theorem filtTP_skel (c : Ctx) (sub : List (List Nat)) (marked : Bool) : (w w' : V) → filtTP c sub marked w = some w' →
    skel w' = skel w
  | .map es, w', h => by
    simp only [filtTP] at h
    obtain ⟨r, hr, rfl⟩ := map_some h
    simp only [skel, filtT_skel c sub _ es r hr]
  | .struct fs, w', h => by
    simp only [filtTP] at h
    split at h
    · cases h; rfl
    · exact filtEntryTarget_skel c _ w' h
  | .leaf l, w', h => by
    simp only [filtTP] at h
    split at h
    · cases h; rfl
    · exact filtEntryTarget_skel c _ w' h
  | .leaves ls, w', h => by
    simp only [filtTP] at h
    split at h
    · cases h; rfl
    · exact filtEntryTarget_skel c _ w' h
  | .slice vs, w', h => by
    simp only [filtTP] at h
    split at h
    · cases h; rfl
    · exact filtEntryTarget_skel c _ w' h
  | .nilPtr, w', h => by
    simp only [filtTP] at h
    split at h
    · cases h; rfl
    · exact filtEntryTarget_skel c _ w' h
  | .ptr v, w', h => by
    simp only [filtTP] at h
    split at h
    · cases h; rfl
    · exact filtEntryTarget_skel c _ w' h
  | .iface v, w', h => by
    simp only [filtTP] at h
    split at h
    · cases h; rfl
    · exact filtEntryTarget_skel c _ w' h
termination_by structural x _ _ => x
end

end Evl.EncryptTag
