import Evl.Model.Registry
/-! Helper lemmas about M1 `Registry` (association lists, reference counting). -/
namespace Evl.Registry

/-! ### association lists -/

theorem lookupNode_eq_some {ns : List (Nat × NodeEntry)} {id : Nat} {e : NodeEntry}
    (h : lookupNode ns id = some e) : (id, e) ∈ ns := by
  unfold lookupNode at h
  cases hf : ns.find? (fun x => x.1 == id) with
  | none => simp [hf] at h
  | some x =>
    simp [hf] at h
    have hm := List.mem_of_find?_eq_some hf
    have hp := List.find?_some hf
    simp at hp
    obtain ⟨a, b⟩ := x
    simp at h hp
    subst h; subst hp
    exact hm

theorem lookupNode_none {ns : List (Nat × NodeEntry)} {id : Nat}
    (h : lookupNode ns id = none) : ∀ e, (id, e) ∉ ns := by
  intro e hm
  unfold lookupNode at h
  simp at h
  exact h id e hm rfl

theorem lookupNode_of_mem {ns : List (Nat × NodeEntry)} (hnd : (ns.map (·.1)).Nodup)
    {id : Nat} {e : NodeEntry} (h : (id, e) ∈ ns) : lookupNode ns id = some e := by
  induction ns with
  | nil => simp at h
  | cons x xs ih =>
    rw [List.map_cons, List.nodup_cons] at hnd
    obtain ⟨hx, hxs⟩ := hnd
    rw [List.mem_cons] at h
    unfold lookupNode
    rcases h with h | h
    · subst h; simp [List.find?]
    · have hne : x.1 ≠ id := by
        intro heq
        apply hx
        rw [heq]
        exact List.mem_map.mpr ⟨(id, e), h, rfl⟩
      have : (x.1 == id) = false := by simpa using hne
      simp only [List.find?, this]
      exact ih hxs h

theorem lookupNode_isSome_iff {ns : List (Nat × NodeEntry)} {id : Nat} :
    (lookupNode ns id).isSome ↔ ∃ e, (id, e) ∈ ns := by
  constructor
  · intro h
    cases hl : lookupNode ns id with
    | none => simp [hl] at h
    | some e => exact ⟨e, lookupNode_eq_some hl⟩
  · intro ⟨e, he⟩
    cases hl : lookupNode ns id with
    | none => exact absurd he (lookupNode_none hl e)
    | some e => simp

theorem mem_eraseNode {ns : List (Nat × NodeEntry)} {id : Nat} {x : Nat × NodeEntry} :
    x ∈ eraseNode ns id ↔ x ∈ ns ∧ x.1 ≠ id := by
  simp [eraseNode]

theorem keys_eraseNode_nodup {ns : List (Nat × NodeEntry)} (h : (ns.map (·.1)).Nodup) (id : Nat) :
    ((eraseNode ns id).map (·.1)).Nodup := by
  unfold eraseNode
  exact List.Nodup.sublist (List.Sublist.map _ List.filter_sublist) h

theorem keys_putNode_nodup {ns : List (Nat × NodeEntry)} (h : (ns.map (·.1)).Nodup) (id : Nat) (e : NodeEntry) :
    ((putNode ns id e).map (·.1)).Nodup := by
  unfold putNode
  rw [List.map_append]
  apply List.nodup_append.mpr
  refine ⟨keys_eraseNode_nodup h id, by simp, ?_⟩
  intro a ha b hb
  simp at hb
  subst hb
  simp at ha
  obtain ⟨e', he'⟩ := ha
  have := (mem_eraseNode.mp he').2
  intro heq
  exact this heq

theorem mem_putNode {ns : List (Nat × NodeEntry)} {id : Nat} {e : NodeEntry} {x : Nat × NodeEntry} :
    x ∈ putNode ns id e ↔ (x ∈ ns ∧ x.1 ≠ id) ∨ x = (id, e) := by
  simp [putNode, mem_eraseNode]

/-! ### keys are preserved by the reference-count maps -/

theorem keys_release (ns : List (Nat × NodeEntry)) (ids : List Nat) :
    (release ns ids).map (·.1) = ns.map (·.1) := by
  unfold release
  rw [List.map_map]
  apply List.map_congr_left
  intro x _
  simp only [Function.comp]
  split <;> rfl

theorem keys_acquire (ns : List (Nat × NodeEntry)) (ids : List Nat) :
    (acquire ns ids).map (·.1) = ns.map (·.1) := by
  unfold acquire
  rw [List.map_map]
  apply List.map_congr_left
  intro x _
  simp only [Function.comp]
  split <;> rfl

theorem mem_release {ns : List (Nat × NodeEntry)} {ids : List Nat} {id : Nat} {e : NodeEntry} :
    (id, e) ∈ release ns ids ↔
      ∃ e0, (id, e0) ∈ ns ∧ e = (if ids.contains id && e0.refs > 0 then { e0 with refs := e0.refs - 1 } else e0) := by
  unfold release
  simp only [List.mem_map]
  constructor
  · rintro ⟨⟨i0, e0⟩, hm, heq⟩
    by_cases hc : (ids.contains i0 && decide (e0.refs > 0)) = true
    · rw [if_pos hc] at heq
      injection heq with h1 h2
      subst h1
      exact ⟨e0, hm, by rw [if_pos hc]; exact h2.symm⟩
    · rw [if_neg hc] at heq
      injection heq with h1 h2
      subst h1
      exact ⟨e0, hm, by rw [if_neg hc]; exact h2.symm⟩
  · rintro ⟨e0, hm, heq⟩
    refine ⟨(id, e0), hm, ?_⟩
    by_cases hc : (ids.contains id && decide (e0.refs > 0)) = true
    · rw [if_pos hc] at heq ⊢; rw [heq]
    · rw [if_neg hc] at heq ⊢; rw [heq]

theorem mem_acquire {ns : List (Nat × NodeEntry)} {ids : List Nat} {id : Nat} {e : NodeEntry} :
    (id, e) ∈ acquire ns ids ↔
      ∃ e0, (id, e0) ∈ ns ∧ e = (if ids.contains id then { e0 with refs := e0.refs + 1 } else e0) := by
  unfold acquire
  simp only [List.mem_map]
  constructor
  · rintro ⟨⟨i0, e0⟩, hm, heq⟩
    by_cases hc : ids.contains i0 = true
    · rw [if_pos hc] at heq
      injection heq with h1 h2
      subst h1
      exact ⟨e0, hm, by rw [if_pos hc]; exact h2.symm⟩
    · rw [if_neg hc] at heq
      injection heq with h1 h2
      subst h1
      exact ⟨e0, hm, by rw [if_neg hc]; exact h2.symm⟩
  · rintro ⟨e0, hm, heq⟩
    refine ⟨(id, e0), hm, ?_⟩
    by_cases hc : ids.contains id = true
    · rw [if_pos hc] at heq ⊢; rw [heq]
    · rw [if_neg hc] at heq ⊢; rw [heq]

/-! ### pipes -/

def key (p : Pipe) : Nat × Nat := (p.ty, p.pid)

theorem key_ne_iff (p : Pipe) (ty pid : Nat) :
    (!(p.ty == ty && p.pid == pid)) = true ↔ key p ≠ (ty, pid) := by
  simp only [key, ne_eq, Prod.mk.injEq, Bool.not_eq_true', Bool.and_eq_false_iff, beq_eq_false_iff_ne]
  constructor
  · intro h ⟨h1, h2⟩; rcases h with h | h <;> contradiction
  · intro h
    by_cases h1 : p.ty = ty
    · right; intro h2; exact h ⟨h1, h2⟩
    · left; exact h1

theorem mem_erasePipe {ps : List Pipe} {ty pid : Nat} {p : Pipe} :
    p ∈ erasePipe ps ty pid ↔ p ∈ ps ∧ key p ≠ (ty, pid) := by
  unfold erasePipe
  rw [List.mem_filter, key_ne_iff]

theorem lookupPipe_some {ps : List Pipe} {ty pid : Nat} {p : Pipe} (h : lookupPipe ps ty pid = some p) :
    p ∈ ps ∧ key p = (ty, pid) := by
  unfold lookupPipe at h
  have hm := List.mem_of_find?_eq_some h
  have hp := List.find?_some h
  simp at hp
  exact ⟨hm, by simp [key, hp.1, hp.2]⟩

theorem lookupPipe_none {ps : List Pipe} {ty pid : Nat} (h : lookupPipe ps ty pid = none) :
    ∀ p ∈ ps, key p ≠ (ty, pid) := by
  intro p hp heq
  unfold lookupPipe at h
  simp at h
  simp [key] at heq
  exact h p hp heq.1 heq.2

/-- number of registered pipelines listing node `id` -/
def listing (ps : List Pipe) (id : Nat) : Nat := ps.countP (fun p => p.ids.contains id)

theorem listing_append (ps qs : List Pipe) (id : Nat) : listing (ps ++ qs) id = listing ps id + listing qs id := by
  simp [listing, List.countP_append]

theorem erasePipe_of_none {ps : List Pipe} {ty pid : Nat} (h : lookupPipe ps ty pid = none) :
    erasePipe ps ty pid = ps := by
  unfold erasePipe
  apply List.filter_eq_self.mpr
  intro p hp
  exact (key_ne_iff p ty pid).mpr (lookupPipe_none h p hp)

/-- with unique keys, erasing the pipeline found by lookup removes exactly that one from the count -/
theorem listing_erasePipe {ps : List Pipe} (hnd : (ps.map key).Nodup) {ty pid : Nat} {o : Pipe}
    (h : lookupPipe ps ty pid = some o) (id : Nat) :
    listing (erasePipe ps ty pid) id + (if o.ids.contains id then 1 else 0) = listing ps id := by
  induction ps with
  | nil => simp [lookupPipe] at h
  | cons x xs ih =>
    simp at hnd
    obtain ⟨hx, hxs⟩ := hnd
    unfold lookupPipe at h
    by_cases hk : (x.ty == ty && x.pid == pid) = true
    · -- x is the one
      simp only [List.find?, hk] at h
      injection h with h
      subst h
      have hkey : key x = (ty, pid) := by simp at hk; simp [key, hk.1, hk.2]
      have hrest : erasePipe xs ty pid = xs := by
        unfold erasePipe
        apply List.filter_eq_self.mpr
        intro p hp
        have : key p ≠ key x := fun heq => hx p hp heq
        rw [hkey] at this
        exact (key_ne_iff p ty pid).mpr this
      have : erasePipe (x :: xs) ty pid = xs := by
        unfold erasePipe at hrest ⊢
        simp only [List.filter, hk]
        exact hrest
      rw [this]
      simp only [listing, List.countP_cons]
    · have hk' : (x.ty == ty && x.pid == pid) = false := by simpa using hk
      simp only [List.find?, hk'] at h
      have ih' := ih hxs h
      have : erasePipe (x :: xs) ty pid = x :: erasePipe xs ty pid := by
        unfold erasePipe
        simp [List.filter, hk']
      rw [this]
      simp only [listing, List.countP_cons] at ih' ⊢
      omega

theorem keys_erasePipe_nodup {ps : List Pipe} (h : (ps.map key).Nodup) (ty pid : Nat) :
    ((erasePipe ps ty pid).map key).Nodup := by
  unfold erasePipe
  exact List.Nodup.sublist (List.Sublist.map _ List.filter_sublist) h

theorem keys_erasePipe_append_nodup {ps : List Pipe} (h : (ps.map key).Nodup) (p : Pipe) :
    ((erasePipe ps p.ty p.pid ++ [p]).map key).Nodup := by
  rw [List.map_append]
  apply List.nodup_append.mpr
  refine ⟨keys_erasePipe_nodup h _ _, by simp, ?_⟩
  intro a ha b hb
  simp at hb
  subst hb
  simp at ha
  obtain ⟨q, hq, hqa⟩ := ha
  have := (mem_erasePipe.mp hq).2
  intro heq
  apply this
  rw [hqa, heq]
  rfl

/-! ### validateChain: the flat acceptance rule -/

theorem validateChain_cons2 (par : Option Nat) (a b : Nat) (rest : List Nat) :
    validateChain par (a :: b :: rest) = validateChain (some a) (b :: rest) := by
  simp [validateChain]

/-- The chain is accepted iff it has ≥ 2 nodes, ends in a sink, preceded by a formatter(-filter). -/
theorem validateChain_none_iff (tys : List Nat) (par : Option Nat) (hne : tys ≠ []) :
    validateChain par tys = none ↔
      tys.getLast? = some 3 ∧
      (match (par :: tys.map some).reverse with
        | _ :: some pt :: _ => pt = 2 ∨ pt = 4
        | _ => False) := by
  induction tys generalizing par with
  | nil => exact absurd rfl hne
  | cons t rest ih =>
    cases rest with
    | nil =>
      simp only [validateChain, List.getLast?_singleton, List.map, List.reverse_cons, List.reverse_nil, List.nil_append, List.cons_append]
      by_cases ht : t = 3
      · subst ht
        cases par with
        | none => simp
        | some pt =>
          simp
          by_cases h2 : pt = 2
          · simp [h2]
          · by_cases h4 : pt = 4
            · simp [h4]
            · simp [h2, h4]
      · have : (t != 3) = true := by simpa using ht
        simp [this, ht]
    | cons u rest' =>
      rw [validateChain_cons2]
      rw [ih (some t) (by simp)]
      have h1 : (t :: u :: rest').getLast? = (u :: rest').getLast? := by simp [List.getLast?_cons_cons]
      rw [h1]
      have h2 : (par :: List.map some (t :: u :: rest')).reverse = (some t :: List.map some (u :: rest')).reverse ++ [par] := by
        simp
      rw [h2]
      -- the reversed list of (some t :: map some (u::rest')) has length ≥ 2, so the match only looks at it
      generalize hrev : (some t :: List.map some (u :: rest')).reverse = r
      have hlen : r.length ≥ 2 := by rw [← hrev]; simp
      match r, hlen with
      | a :: b :: r', _ => cases b <;> simp

end Evl.Registry

namespace Evl.Registry

theorem lookupPipe_of_mem {ps : List Pipe} (hnd : (ps.map key).Nodup) {p : Pipe} (h : p ∈ ps) :
    lookupPipe ps p.ty p.pid = some p := by
  induction ps with
  | nil => simp at h
  | cons x xs ih =>
    rw [List.map_cons, List.nodup_cons] at hnd
    obtain ⟨hx, hxs⟩ := hnd
    rw [List.mem_cons] at h
    unfold lookupPipe
    rw [List.find?_cons]
    rcases h with h | h
    · subst h; simp
    · have hne : key x ≠ key p := by
        intro heq
        apply hx
        rw [heq]
        exact List.mem_map.mpr ⟨p, h, rfl⟩
      have : (x.ty == p.ty && x.pid == p.pid) = false := by
        have h2 := (key_ne_iff x p.ty p.pid).mpr hne
        cases hb : (x.ty == p.ty && x.pid == p.pid)
        · rfl
        · rw [hb] at h2; cases h2
      simp only [this]
      exact ih hxs h

end Evl.Registry
