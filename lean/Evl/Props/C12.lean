import Evl.Model.Locks
import Evl.Props.NodeClose
import Evl.Generated.LockSites
/-!
# C12 — Broker calls terminate even when nodes call back into the Broker

Model: M3 `Locks` (writer-preferring RWMutex derived from thread statuses) + the call-back sites
regenerated from the source (`Evl.Generated.brokerCallbacks`, `nestedAcquisitions`).

* `flat_progress` (general, any number of threads and instructions): if no thread ever acquires
  while holding, every unfinished system has an enabled step — the Broker's lock cannot wedge.
* `w_reentry_deadlocks`, `r_reentry_deadlocks_with_writer` (general converses): a thread that
  re-enters under the write lock, or under the read lock while a writer waits, is stuck for ever —
  this is why the call-back sites matter.
* `on_source`: in the current source every call into user code reachable from an exported Broker
  method (Node.Process via Send, Node.Reopen via Reopen, Closer.Close via RemoveNode /
  RemovePipelineAndNodes) is made with Broker.lock *not* held, and no lock is acquired while it is
  already held; so a node that calls back into the Broker runs its own flat critical sections and
  `flat_progress` applies to the expanded threads.  (Before the `fix:` commit 10bf522 the table had
  `brokerLock := 2` for both Close sites and `brokerLock := 1` for Reopen, and `decide` failed.)
-/
namespace Evl.C12
open Evl.Locks

theorem flat_step {s : Sys} {t t' : Thread} (hf : t.flat = true) (hn : next s t = some t') : t'.flat = true := by
  obtain ⟨st, prog⟩ := t
  unfold Thread.flat at hf ⊢
  cases prog with
  | nil => cases st <;> simp [next] at hn
  | cons i p =>
    cases st <;> cases i <;> simp only [next] at hn <;> simp only [flat] at hf <;>
      (try split at hn) <;> (try cases hf) <;> (try cases hn) <;> (try exact hf)

/-- a flat thread that holds the lock can always move (its next instruction is work or the release) -/
theorem holder_moves (s : Sys) (st : Status) (prog : List Instr) (hst : st = .holdW ∨ st = .holdR)
    (hf : flat st prog = true) : (next s { st := st, prog := prog }).isSome = true := by
  rcases hst with h | h <;> subst h
  · cases prog with
    | nil => simp [flat] at hf
    | cons i p => cases i <;> simp only [flat] at hf <;> first | cases hf | simp [next]
  · cases prog with
    | nil => simp [flat] at hf
    | cons i p => cases i <;> simp only [flat] at hf <;> first | cases hf | simp [next]

/-- **No wedge.** If every thread is flat, an unfinished system always has a thread that can move. -/
theorem flat_progress (s : Sys) (hflat : ∀ t ∈ s, t.flat = true) (hnf : finished s = false) :
    ∃ t ∈ s, (next s t).isSome = true := by
  -- somebody holds the lock: a flat holder's next instruction is work or its release
  by_cases hh : anyHolder s = true
  · unfold anyHolder at hh
    rw [List.any_eq_true] at hh
    obtain ⟨t, ht, hst⟩ := hh
    refine ⟨t, ht, ?_⟩
    have hf := hflat t ht
    obtain ⟨st, prog⟩ := t
    unfold Thread.flat at hf
    simp only [Bool.or_eq_true, beq_iff_eq] at hst
    exact holder_moves s st prog hst hf
  · have hh' : anyHolder s = false := by simpa using hh
    -- nobody holds: a waiting writer gets in
    by_cases hw : ∃ t ∈ s, t.st = .waitW
    · obtain ⟨t, ht, hst⟩ := hw
      refine ⟨t, ht, ?_⟩
      have hf := hflat t ht
      obtain ⟨st, prog⟩ := t
      simp only at hst; subst hst
      unfold Thread.flat at hf
      cases prog with
      | nil => simp [flat] at hf
      | cons i p => cases i <;> simp only [flat] at hf <;> first | cases hf | simp [next, hh']
    · -- nobody holds or waits: every unfinished thread is idle and can take its next instruction
      have hnw : anyWriter s = false := by
        unfold anyWriter
        rw [List.any_eq_false]
        intro t ht
        have h1 : t.st ≠ .waitW := fun h => hw ⟨t, ht, h⟩
        have h2 : ¬ (t.st == .holdW || t.st == .holdR) = true := by
          unfold anyHolder at hh'
          rw [List.any_eq_false] at hh'
          exact hh' t ht
        simp only [Bool.or_eq_true, beq_iff_eq, not_or] at h2 ⊢
        exact ⟨h2.1, h1⟩
      unfold finished at hnf
      rw [List.all_eq_false] at hnf
      obtain ⟨t, ht, hp⟩ := hnf
      refine ⟨t, ht, ?_⟩
      have hf := hflat t ht
      have h1 : t.st ≠ .waitW := fun h => hw ⟨t, ht, h⟩
      have h2 : ¬ (t.st == .holdW || t.st == .holdR) = true := by
        unfold anyHolder at hh'
        rw [List.any_eq_false] at hh'
        exact hh' t ht
      obtain ⟨st, prog⟩ := t
      unfold Thread.flat at hf
      simp only [Bool.or_eq_true, beq_iff_eq, not_or] at h2
      cases st with
      | idle =>
        cases prog with
        | nil => simp at hp
        | cons i p => cases i <;> simp only [flat] at hf <;> first | cases hf | simp [next, hnw]
      | holdR => exact absurd rfl h2.2
      | holdW => exact absurd rfl h2.1
      | waitW => exact absurd rfl h1

/-- Re-entering the Broker under its write lock wedges the thread for ever, whatever the others do. -/
theorem w_reentry_deadlocks (s : Sys) (p : List Instr) (i : Instr) (hi : i = .rlock ∨ i = .lock) :
    next s { st := .holdW, prog := i :: p } = none := by
  rcases hi with h | h <;> subst h <;> simp [next]

/-- Re-entering under the read lock wedges as soon as a writer is waiting (writer preference): the
reader waits for the writer, the writer for the reader. -/
theorem r_reentry_deadlocks_with_writer (p q : List Instr) :
    let s : Sys := [{ st := .holdR, prog := .rlock :: p }, { st := .waitW, prog := .lock :: q }]
    ∀ t ∈ s, next s t = none := by
  intro s t ht
  simp only [s, List.mem_cons, List.mem_nil_iff, or_false] at ht
  rcases ht with h | h <;> subst h <;> simp [next, anyWriter, anyHolder, s]

/-- **The source is flat.** Every call into user code reachable from an exported Broker method is
made without Broker.lock and without any other lock of the library (a call-back handed to an inlined
helper such as the pipeline map's `Range` counts the helper's locks: a read lock held there would
wedge a re-entering root node against a waiting writer, `r_reentry_deadlocks_with_writer`), nowhere in
the library is a lock acquired while already held, and no exported function returns on any path with
a lock still held (no leaked lock). -/
theorem on_source :
    (Evl.Generated.brokerCallbacks.all (fun c => c.brokerLock == 0 && c.otherLocks == 0)) = true ∧
    Evl.Generated.nestedAcquisitions = 0 ∧
    -- no exported function of the library can return with one of its locks still held
    Evl.Generated.lockLeaks = 0 ∧
    -- the table is not vacuous: Process, Reopen and Close call-backs were all found
    (Evl.Generated.brokerCallbacks.any (fun c => c.kind == 0)) = true ∧
    (Evl.Generated.brokerCallbacks.any (fun c => c.kind == 1)) = true ∧
    (Evl.Generated.brokerCallbacks.any (fun c => c.kind == 2)) = true := by
  decide

/-- Non-vacuity: Send (read section, then the node's Process calling back into Send), a concurrent
RegisterPipeline (write section) and RemoveNode (write section, then Close calling back into Send). -/
def demoSys : Sys :=
  [ { prog := [.rlock, .work, .runlock, .work, .rlock, .work, .runlock] },
    { prog := [.lock, .work, .unlock] },
    { prog := [.lock, .work, .unlock, .rlock, .work, .runlock] } ]
example : ∀ t ∈ demoSys, t.flat = true := by decide
example : finished demoSys = false := by decide

end Evl.C12
