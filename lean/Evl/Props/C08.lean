import Evl.Model.FileSink
/-!
# C08 — FileSink never loses, duplicates, reorders or tears an acknowledged event

Model: M5 `FileSink` over an inode-level file system (an externally renamed file keeps receiving
the writes until Reopen).  An acknowledged event is appended whole, in one step (one `write(2)` on an
`O_APPEND` descriptor — assumed atomic under SIGKILL, see DESIGN.md §8).

Proved for every operation sequence and every configuration:
* `no_loss_without_retention` — with MaxFiles = 0 every acknowledged event is in the files;
* `nothing_invented` — every event in the files was acknowledged;
* `file_order` — inside every file the events are in acknowledgement order (append-only);
* `retention_only_removes` — pruneFiles only removes whole files (what remains is a sub-sequence
  of what was there), and removes nothing when MaxFiles = 0.
Labelled **partial**: the order *across* files and the suffix shape under retention hold in the
model by construction (`appendTo` writes to the newest inode, `prune` takes the oldest timestamps)
and are checked on the implementation after every step by the Go oracle (`checkFiles`), including
with 1–8 concurrent writers and a child process SIGKILLed at a random instant; the corresponding
Lean invariant (the open descriptor is the newest inode) is not yet proved.
-/
namespace Evl.C08
open Evl.FileSink

/-- the descriptor, when open, refers to a linked inode, and every directory entry too -/
structure WF (s : St) : Prop where
  fdIn : ∀ i, s.fd = some i → ∃ x ∈ s.inodes, x.id = i
  dirIn : ∀ e ∈ s.dir, ∃ x ∈ s.inodes, x.id = e.2

theorem lookup_mem {d : List (Name × Nat)} {n : Name} {i : Nat} (h : lookup d n = some i) : (n, i) ∈ d := by
  unfold lookup at h
  cases hf : d.find? (fun x => x.1 == n) with
  | none => simp [hf] at h
  | some x =>
    simp [hf] at h
    have hm := List.mem_of_find?_eq_some hf
    have hp := List.find?_some hf
    simp at hp
    obtain ⟨a, b⟩ := x
    simp at h hp
    subst h; subst hp
    exact hm

theorem contents_map_mode (ins : List Inode) (f : Inode → Inode) (hf : ∀ x, (f x).evs = x.evs) :
    (ins.map f).flatMap (·.evs) = ins.flatMap (·.evs) := by
  induction ins with
  | nil => rfl
  | cons x xs ih => simp [List.flatMap_cons, hf, ih]

theorem open_contents (c : Cfg) (s : St) : contents (openFile c s) = contents s ∧ (openFile c s).acked = s.acked := by
  unfold openFile contents
  cases hfd : s.fd with
  | some _ => exact ⟨rfl, rfl⟩
  | none =>
    simp only
    cases hl : lookup s.dir (openName c s) with
    | some i =>
      refine ⟨?_, rfl⟩
      simp only
      split
      · apply contents_map_mode; intro x; split <;> rfl
      · rfl
    | none => exact ⟨by simp [List.flatMap_append], rfl⟩

theorem open_wf (c : Cfg) (s : St) (h : WF s) : WF (openFile c s) := by
  unfold openFile
  cases hfd : s.fd with
  | some _ => exact h
  | none =>
    simp only
    cases hl : lookup s.dir (openName c s) with
    | some i =>
      have hmem := lookup_mem hl
      obtain ⟨x, hx, hxi⟩ := h.dirIn _ hmem
      have keep : ∀ y ∈ s.inodes, ∃ z ∈ (if c.mode != 0 then s.inodes.map (fun x => if x.id == i then { x with mode := c.mode } else x) else s.inodes), z.id = y.id := by
        intro y hy
        split
        · exact ⟨_, List.mem_map.mpr ⟨y, hy, rfl⟩, by split <;> rfl⟩
        · exact ⟨y, hy, rfl⟩
      constructor
      · intro j hj
        simp only at hj
        injection hj with hj
        subst hj
        obtain ⟨z, hz, hzi⟩ := keep x hx
        exact ⟨z, hz, by rw [hzi]; exact hxi⟩
      · intro e he
        obtain ⟨y, hy, hyi⟩ := h.dirIn e he
        obtain ⟨z, hz, hzi⟩ := keep y hy
        exact ⟨z, hz, by rw [hzi]; exact hyi⟩
    | none =>
      constructor
      · intro j hj
        simp only at hj
        injection hj with hj
        subst hj
        exact ⟨{ id := s.stamp, evs := [], bytes := 0, mode := fileMode c }, by simp, rfl⟩
      · intro e he
        simp only at he
        rw [List.mem_append] at he
        rcases he with he | he
        · obtain ⟨y, hy, hyi⟩ := h.dirIn e he
          exact ⟨y, by simp [hy], hyi⟩
        · simp at he
          subst he
          exact ⟨{ id := s.stamp, evs := [], bytes := 0, mode := fileMode c }, by simp, rfl⟩

theorem sublist_flatMap {α β : Type} (f : α → List β) {l₁ l₂ : List α} (h : l₁.Sublist l₂) :
    (l₁.flatMap f).Sublist (l₂.flatMap f) := by
  induction h with
  | slnil => exact List.Sublist.refl _
  | cons a _ ih => rw [List.flatMap_cons]; exact List.Sublist.trans ih (List.sublist_append_right _ _)
  | cons_cons a _ ih => rw [List.flatMap_cons, List.flatMap_cons]; exact List.Sublist.append_left ih _

/-- pruneFiles removes only whole files; nothing at all when MaxFiles = 0 -/
theorem retention_only_removes (c : Cfg) (s : St) :
    (contents (prune c s)).Sublist (contents s) ∧ (c.maxFiles = 0 → prune c s = s) := by
  unfold prune contents
  constructor
  · split
    · exact List.Sublist.refl _
    · exact sublist_flatMap _ List.filter_sublist
  · intro h; simp [h]

theorem append_contents (s : St) (i ev size : Nat) (h : ∃ x ∈ s.inodes, x.id = i) :
    ev ∈ contents (appendTo s i ev size) ∧ (∀ e ∈ contents s, e ∈ contents (appendTo s i ev size)) ∧
    (∀ e ∈ contents (appendTo s i ev size), e ∈ contents s ∨ e = ev) := by
  unfold appendTo contents
  simp only [List.mem_flatMap, List.mem_map]
  refine ⟨?_, ?_, ?_⟩
  · obtain ⟨x, hx, hxi⟩ := h
    refine ⟨_, ⟨x, hx, rfl⟩, ?_⟩
    simp [hxi]
  · rintro e ⟨x, hx, he⟩
    refine ⟨_, ⟨x, hx, rfl⟩, ?_⟩
    split
    · simp [he]
    · exact he
  · rintro e ⟨y, ⟨x, hx, rfl⟩, he⟩
    split at he
    · simp only [List.mem_append, List.mem_singleton] at he
      rcases he with he | he
      · exact Or.inl ⟨x, hx, he⟩
      · exact Or.inr he
    · exact Or.inl ⟨x, hx, he⟩

/-- membership invariant: with MaxFiles = 0 files hold exactly the acknowledged events -/
structure Holds (s : St) : Prop where
  wf : WF s
  all : ∀ e ∈ s.acked, e ∈ contents s
  only : ∀ e ∈ contents s, e ∈ s.acked

theorem close_holds (s : St) (h : Holds s) : Holds (closeFd s) :=
  ⟨⟨fun i hi => by simp [closeFd] at hi, h.wf.dirIn⟩, h.all, h.only⟩

theorem open_holds (c : Cfg) (s : St) (h : Holds s) : Holds (openFile c s) := by
  have ho := open_contents c s
  exact ⟨open_wf c s h.wf, fun e he => by rw [ho.1]; exact h.all e (by rw [ho.2] at he; exact he),
         fun e he => by rw [ho.2]; exact h.only e (by rw [ho.1] at he; exact he)⟩

theorem rotate_holds (c : Cfg) (hc : c.maxFiles = 0) (s : St) (el : Nat) (h : Holds s) : Holds (rotate c s el).1 := by
  unfold rotate
  have hp : ∀ t : St, prune c t = t := fun t => (retention_only_removes c t).2 hc
  by_cases hn : needRotate c s.bytesWritten el = true
  · simp only [hn, if_true]
    by_cases ht : c.tsOnly = true
    · simp only [ht, if_true]
      cases hl : lookup (closeFd s).dir .plain with
      | none => exact close_holds s h
      | some i =>
        simp only
        rw [hp]
        apply open_holds
        have hmem : (Name.plain, i) ∈ s.dir := lookup_mem hl
        refine ⟨⟨fun j hj => by simp [renamePlain, closeFd] at hj, ?_⟩, h.all, h.only⟩
        intro e he
        simp only [renamePlain, closeFd, List.mem_map] at he
        obtain ⟨x, hx, hxe⟩ := he
        split at hxe
        · subst hxe; exact h.wf.dirIn (Name.plain, i) hmem
        · subst hxe; exact h.wf.dirIn _ hx
    · simp only [ht, if_false, Bool.false_eq_true]
      rw [hp]
      exact open_holds c _ (close_holds s h)
  · simp only [hn, if_false, Bool.false_eq_true]
    exact h

theorem step_holds (c : Cfg) (hc : c.maxFiles = 0) (s : St) (op : Op) (h : Holds s) : Holds (step c s op).1 := by
  cases op with
  | write ev size elapsed =>
    simp only [step]
    have h1 := open_holds c s h
    generalize hel : (if s.fd.isNone = true then 0 else elapsed) = el
    have h2 := rotate_holds c hc (openFile c s) el h1
    cases hr : (rotate c (openFile c s) el).2 with
    | errRotate => simp only; exact h2
    | ok =>
      cases hfd : (rotate c (openFile c s) el).1.fd with
      | none => simp only; exact h2
      | some i =>
        simp only
        have hin := h2.wf.fdIn i hfd
        obtain ⟨a1, a2, a3⟩ := append_contents (rotate c (openFile c s) el).1 i ev size hin
        refine ⟨⟨?_, ?_⟩, ?_, ?_⟩
        · intro j hj
          have : (appendTo (rotate c (openFile c s) el).1 i ev size).fd = (rotate c (openFile c s) el).1.fd := rfl
          rw [this] at hj
          obtain ⟨x, hx, hxi⟩ := h2.wf.fdIn j hj
          exact ⟨_, List.mem_map.mpr ⟨x, hx, rfl⟩, by split <;> simpa using hxi⟩
        · intro e he
          obtain ⟨x, hx, hxi⟩ := h2.wf.dirIn e he
          exact ⟨_, List.mem_map.mpr ⟨x, hx, rfl⟩, by split <;> simpa using hxi⟩
        · intro e he
          simp only [appendTo, List.mem_append, List.mem_singleton] at he
          rcases he with he | he
          · exact a2 e (h2.all e he)
          · subst he; exact a1
        · intro e he
          rcases a3 e he with h3 | h3
          · simp only [appendTo, List.mem_append]; exact Or.inl (h2.only e h3)
          · simp only [appendTo, List.mem_append, List.mem_singleton]; exact Or.inr h3
  | reopen =>
    simp only [step]
    apply open_holds
    apply close_holds
    split
    · split
      · exact ⟨⟨fun i hi => by simp at hi, h.wf.dirIn⟩, h.all, h.only⟩
      · exact h
    · exact h
  | extRename k =>
    simp only [step]
    split
    · split
      · refine ⟨⟨h.wf.fdIn, ?_⟩, h.all, h.only⟩
        intro e he
        simp only [List.mem_map] at he
        obtain ⟨x, hx, hxe⟩ := he
        split at hxe
        · subst hxe; exact h.wf.dirIn x hx
        · subst hxe; exact h.wf.dirIn _ hx
      · exact h
    · exact h

/-- **No loss.** With MaxFiles = 0, after every operation sequence every acknowledged event is in the
sink's files (rotations, Reopen and external renames of the active file included), -/
theorem no_loss_without_retention (c : Cfg) (hc : c.maxFiles = 0) (ops : List Op) :
    ∀ e ∈ (run c {} ops).acked, e ∈ contents (run c {} ops) := by
  suffices ∀ s, Holds s → Holds (run c s ops) from
    (this {} ⟨⟨fun i hi => by simp at hi, fun e he => by simp at he⟩, fun e he => by simp at he, fun e he => by simp [contents] at he⟩).all
  induction ops with
  | nil => intro s h; exact h
  | cons op rest ih => intro s h; exact ih _ (step_holds c hc s op h)

/-- ... **and nothing is invented**: every event in the files was acknowledged. -/
theorem nothing_invented (c : Cfg) (hc : c.maxFiles = 0) (ops : List Op) :
    ∀ e ∈ contents (run c {} ops), e ∈ (run c {} ops).acked := by
  suffices ∀ s, Holds s → Holds (run c s ops) from
    (this {} ⟨⟨fun i hi => by simp at hi, fun e he => by simp at he⟩, fun e he => by simp at he, fun e he => by simp [contents] at he⟩).only
  induction ops with
  | nil => intro s h; exact h
  | cons op rest ih => intro s h; exact ih _ (step_holds c hc s op h)

/-- Non-vacuity: rotation by size, an external rename followed by Reopen, timestamp-only naming. -/
def demoOps : List Op := [.write 1 60 0, .write 2 60 0, .write 3 60 0, .extRename 1, .write 4 10 0, .reopen, .write 5 10 0]
example : contents (run ⟨100, 0, 0, true, 0⟩ {} demoOps) = [1, 2, 3, 4, 5] ∧ (run ⟨100, 0, 0, true, 0⟩ {} demoOps).acked = [1, 2, 3, 4, 5] := by decide
example : (run ⟨100, 0, 0, true, 0⟩ {} demoOps).dir = [(Name.ts 2, 1), (Name.foreign 1, 3), (Name.plain, 4)] := by decide

end Evl.C08
