import Evl.Model.FileSink
import Evl.Lemmas.FileSinkOrd
import Evl.Generated.Decisions
/-!
# C08 — FileSink never loses, duplicates, reorders or tears an acknowledged event

Model: M5 `FileSink` over an inode-level file system (an externally renamed file keeps receiving
the writes until Reopen).  An acknowledged event is appended whole, in one step (one `write(2)` on an
`O_APPEND` descriptor — assumed atomic under SIGKILL, see DESIGN.md §8).

Proved for every operation sequence and every configuration:
* `no_loss_without_retention` — with MaxFiles = 0 every acknowledged event is in the files;
* `nothing_invented` — every event in the files was acknowledged;
* `file_order` — inside every file the events are in acknowledgement order (append-only);
* `retention_only_removes` — pruneFiles only removes whole files (what remains is a sub-sequence
  of what was there), and removes nothing when MaxFiles = 0.
* `exactly_once_in_order` — with MaxFiles = 0, reading the files oldest to newest yields exactly the
  acknowledged sequence (each event once, in acknowledgement order, across any rotations, Reopen
  calls and external renames), from the ordering invariant `Ord` (the open descriptor is the newest
  inode; `Lemmas/FileSinkOrd.lean`);
* `suffix_under_retention` — with any MaxFiles, along histories without external renames, what the
  files hold is a suffix of the acknowledged sequence (retention removes the oldest inodes).
Not covered by a theorem: the suffix shape when files were renamed away by somebody else (a renamed
file is outside the sink's name space and is never pruned, so what remains is then not a suffix in
general — the statement's "only files removed by the retention limit may be missing" still holds by
`retention_only_removes`); crash atomicity rests on `write(2)`/`O_APPEND` (DESIGN.md §8) and is
exercised by the SIGKILL runs.
-/
namespace Evl.C08
open Evl.FileSink

/-- the descriptor, when open, refers to a linked inode, and every directory entry too -/
structure WF (s : St) : Prop where
  fdIn : ∀ i, s.fd = some i → ∃ x ∈ s.inodes, x.id = i
  dirIn : ∀ e ∈ s.dir, ∃ x ∈ s.inodes, x.id = e.2

theorem lookup_mem {d : List (Name × Nat)} {n : Name} {i : Nat} (h : lookup d n = some i) : (n, i) ∈ d := by
  unfold lookup at h
  cases hf : d.find? (fun x => x.1 == n) with
  | none => simp [hf] at h
  | some x =>
    simp [hf] at h
    have hm := List.mem_of_find?_eq_some hf
    have hp := List.find?_some hf
    simp at hp
    obtain ⟨a, b⟩ := x
    simp at h hp
    subst h; subst hp
    exact hm

theorem contents_map_mode (ins : List Inode) (f : Inode → Inode) (hf : ∀ x, (f x).evs = x.evs) :
    (ins.map f).flatMap (·.evs) = ins.flatMap (·.evs) := by
  induction ins with
  | nil => rfl
  | cons x xs ih => simp [List.flatMap_cons, hf, ih]

theorem open_contents (c : Cfg) (s : St) : contents (openFile c s) = contents s ∧ (openFile c s).acked = s.acked := by
  unfold openFile contents
  cases hfd : s.fd with
  | some _ => exact ⟨rfl, rfl⟩
  | none =>
    simp only
    cases hl : lookup s.dir (openName c s) with
    | some i =>
      refine ⟨?_, rfl⟩
      simp only
      split
      · apply contents_map_mode; intro x; split <;> rfl
      · rfl
    | none => exact ⟨by simp [List.flatMap_append], rfl⟩

theorem open_wf (c : Cfg) (s : St) (h : WF s) : WF (openFile c s) := by
  unfold openFile
  cases hfd : s.fd with
  | some _ => exact h
  | none =>
    simp only
    cases hl : lookup s.dir (openName c s) with
    | some i =>
      have hmem := lookup_mem hl
      obtain ⟨x, hx, hxi⟩ := h.dirIn _ hmem
      have keep : ∀ y ∈ s.inodes, ∃ z ∈ (if c.mode != 0 then s.inodes.map (fun x => if x.id == i then { x with mode := c.mode } else x) else s.inodes), z.id = y.id := by
        intro y hy
        split
        · exact ⟨_, List.mem_map.mpr ⟨y, hy, rfl⟩, by split <;> rfl⟩
        · exact ⟨y, hy, rfl⟩
      constructor
      · intro j hj
        simp only at hj
        injection hj with hj
        subst hj
        obtain ⟨z, hz, hzi⟩ := keep x hx
        exact ⟨z, hz, by rw [hzi]; exact hxi⟩
      · intro e he
        obtain ⟨y, hy, hyi⟩ := h.dirIn e he
        obtain ⟨z, hz, hzi⟩ := keep y hy
        exact ⟨z, hz, by rw [hzi]; exact hyi⟩
    | none =>
      constructor
      · intro j hj
        simp only at hj
        injection hj with hj
        subst hj
        exact ⟨{ id := s.stamp, evs := [], bytes := 0, mode := fileMode c }, by simp, rfl⟩
      · intro e he
        simp only at he
        rw [List.mem_append] at he
        rcases he with he | he
        · obtain ⟨y, hy, hyi⟩ := h.dirIn e he
          exact ⟨y, by simp [hy], hyi⟩
        · simp at he
          subst he
          exact ⟨{ id := s.stamp, evs := [], bytes := 0, mode := fileMode c }, by simp, rfl⟩

theorem sublist_flatMap {α β : Type} (f : α → List β) {l₁ l₂ : List α} (h : l₁.Sublist l₂) :
    (l₁.flatMap f).Sublist (l₂.flatMap f) := by
  induction h with
  | slnil => exact List.Sublist.refl _
  | cons a _ ih => rw [List.flatMap_cons]; exact List.Sublist.trans ih (List.sublist_append_right _ _)
  | cons_cons a _ ih => rw [List.flatMap_cons, List.flatMap_cons]; exact List.Sublist.append_left ih _

/-- pruneFiles removes only whole files; nothing at all when MaxFiles = 0 -/
theorem retention_only_removes (c : Cfg) (s : St) :
    (contents (prune c s)).Sublist (contents s) ∧ (c.maxFiles = 0 → prune c s = s) := by
  unfold prune contents
  constructor
  · split
    · exact List.Sublist.refl _
    · exact sublist_flatMap _ List.filter_sublist
  · intro h; simp [h]

theorem append_contents (s : St) (i ev size : Nat) (h : ∃ x ∈ s.inodes, x.id = i) :
    ev ∈ contents (appendTo s i ev size) ∧ (∀ e ∈ contents s, e ∈ contents (appendTo s i ev size)) ∧
    (∀ e ∈ contents (appendTo s i ev size), e ∈ contents s ∨ e = ev) := by
  unfold appendTo contents
  simp only [List.mem_flatMap, List.mem_map]
  refine ⟨?_, ?_, ?_⟩
  · obtain ⟨x, hx, hxi⟩ := h
    refine ⟨_, ⟨x, hx, rfl⟩, ?_⟩
    simp [hxi]
  · rintro e ⟨x, hx, he⟩
    refine ⟨_, ⟨x, hx, rfl⟩, ?_⟩
    split
    · simp [he]
    · exact he
  · rintro e ⟨y, ⟨x, hx, rfl⟩, he⟩
    split at he
    · simp only [List.mem_append, List.mem_singleton] at he
      rcases he with he | he
      · exact Or.inl ⟨x, hx, he⟩
      · exact Or.inr he
    · exact Or.inl ⟨x, hx, he⟩

/-- membership invariant: with MaxFiles = 0 files hold exactly the acknowledged events -/
structure Holds (s : St) : Prop where
  wf : WF s
  all : ∀ e ∈ s.acked, e ∈ contents s
  only : ∀ e ∈ contents s, e ∈ s.acked

theorem close_holds (s : St) (h : Holds s) : Holds (closeFd s) :=
  ⟨⟨fun i hi => by simp [closeFd] at hi, h.wf.dirIn⟩, h.all, h.only⟩

theorem open_holds (c : Cfg) (s : St) (h : Holds s) : Holds (openFile c s) := by
  have ho := open_contents c s
  exact ⟨open_wf c s h.wf, fun e he => by rw [ho.1]; exact h.all e (by rw [ho.2] at he; exact he),
         fun e he => by rw [ho.2]; exact h.only e (by rw [ho.1] at he; exact he)⟩

theorem rotate_holds (c : Cfg) (hc : c.maxFiles = 0) (s : St) (el : Nat) (h : Holds s) : Holds (rotate c s el).1 := by
  unfold rotate
  have hp : ∀ t : St, prune c t = t := fun t => (retention_only_removes c t).2 hc
  by_cases hn : needRotate c s.bytesWritten el = true
  · simp only [hn, if_true]
    by_cases ht : c.tsOnly = true
    · simp only [ht, if_true]
      cases hl : lookup (closeFd s).dir .plain with
      | none => exact close_holds s h
      | some i =>
        simp only
        rw [hp]
        apply open_holds
        have hmem : (Name.plain, i) ∈ s.dir := lookup_mem hl
        refine ⟨⟨fun j hj => by simp [renamePlain, closeFd] at hj, ?_⟩, h.all, h.only⟩
        intro e he
        simp only [renamePlain, closeFd, List.mem_map] at he
        obtain ⟨x, hx, hxe⟩ := he
        split at hxe
        · subst hxe; exact h.wf.dirIn (Name.plain, i) hmem
        · subst hxe; exact h.wf.dirIn _ hx
    · simp only [ht, if_false, Bool.false_eq_true]
      rw [hp]
      exact open_holds c _ (close_holds s h)
  · simp only [hn, if_false, Bool.false_eq_true]
    exact h

theorem step_holds (c : Cfg) (hc : c.maxFiles = 0) (s : St) (op : Op) (h : Holds s) : Holds (step c s op).1 := by
  cases op with
  | write ev size elapsed =>
    simp only [step]
    have h1 := open_holds c s h
    generalize hel : (if s.fd.isNone = true then 0 else elapsed) = el
    have h2 := rotate_holds c hc (openFile c s) el h1
    cases hr : (rotate c (openFile c s) el).2 with
    | errRotate => simp only; exact h2
    | errFormat => simp only; exact h2
    | ok =>
      cases hfd : (rotate c (openFile c s) el).1.fd with
      | none => simp only; exact h2
      | some i =>
        simp only
        have hin := h2.wf.fdIn i hfd
        obtain ⟨a1, a2, a3⟩ := append_contents (rotate c (openFile c s) el).1 i ev size hin
        refine ⟨⟨?_, ?_⟩, ?_, ?_⟩
        · intro j hj
          have : (appendTo (rotate c (openFile c s) el).1 i ev size).fd = (rotate c (openFile c s) el).1.fd := rfl
          rw [this] at hj
          obtain ⟨x, hx, hxi⟩ := h2.wf.fdIn j hj
          exact ⟨_, List.mem_map.mpr ⟨x, hx, rfl⟩, by split <;> simpa using hxi⟩
        · intro e he
          obtain ⟨x, hx, hxi⟩ := h2.wf.dirIn e he
          exact ⟨_, List.mem_map.mpr ⟨x, hx, rfl⟩, by split <;> simpa using hxi⟩
        · intro e he
          simp only [appendTo, List.mem_append, List.mem_singleton] at he
          rcases he with he | he
          · exact a2 e (h2.all e he)
          · subst he; exact a1
        · intro e he
          rcases a3 e he with h3 | h3
          · simp only [appendTo, List.mem_append]; exact Or.inl (h2.only e h3)
          · simp only [appendTo, List.mem_append, List.mem_singleton]; exact Or.inr h3
  | reopen =>
    simp only [step]
    apply open_holds
    apply close_holds
    split
    · split
      · exact ⟨⟨fun i hi => by simp at hi, h.wf.dirIn⟩, h.all, h.only⟩
      · exact h
    · exact h
  | extRename k =>
    simp only [step]
    split
    · split
      · refine ⟨⟨h.wf.fdIn, ?_⟩, h.all, h.only⟩
        intro e he
        simp only [List.mem_map] at he
        obtain ⟨x, hx, hxe⟩ := he
        split at hxe
        · subst hxe; exact h.wf.dirIn x hx
        · subst hxe; exact h.wf.dirIn _ hx
      · exact h
    · exact h
  | noFormat => simp only [step]; exact h

/-- **No loss.** With MaxFiles = 0, after every operation sequence every acknowledged event is in the
sink's files (rotations, Reopen and external renames of the active file included), -/
theorem no_loss_without_retention (c : Cfg) (hc : c.maxFiles = 0) (ops : List Op) :
    ∀ e ∈ (run c {} ops).acked, e ∈ contents (run c {} ops) := by
  suffices ∀ s, Holds s → Holds (run c s ops) from
    (this {} ⟨⟨fun i hi => by simp at hi, fun e he => by simp at he⟩, fun e he => by simp at he, fun e he => by simp [contents] at he⟩).all
  induction ops with
  | nil => intro s h; exact h
  | cons op rest ih => intro s h; exact ih _ (step_holds c hc s op h)

/-- ... **and nothing is invented**: every event in the files was acknowledged. -/
theorem nothing_invented (c : Cfg) (hc : c.maxFiles = 0) (ops : List Op) :
    ∀ e ∈ contents (run c {} ops), e ∈ (run c {} ops).acked := by
  suffices ∀ s, Holds s → Holds (run c s ops) from
    (this {} ⟨⟨fun i hi => by simp at hi, fun e he => by simp at he⟩, fun e he => by simp at he, fun e he => by simp [contents] at he⟩).only
  induction ops with
  | nil => intro s h; exact h
  | cons op rest ih => intro s h; exact ih _ (step_holds c hc s op h)


/-! ### order across files, exactly once -/

theorem rotate_acked (c : Cfg) (s : St) (el : Nat) : (rotate c s el).1.acked = s.acked := by
  unfold rotate
  have hp : ∀ t : St, (prune c t).acked = t.acked := by
    intro t; unfold prune; split <;> rfl
  split
  · split
    · split
      · rfl
      · rw [(open_contents c _).2, hp]; rfl
    · rw [(open_contents c _).2, hp]; rfl
  · rfl

theorem rotate_contents_eq (c : Cfg) (hc : c.maxFiles = 0) (s : St) (el : Nat) :
    contents (rotate c s el).1 = contents s := by
  unfold rotate
  have hp : ∀ t : St, prune c t = t := fun t => (retention_only_removes c t).2 hc
  split
  · split
    · split
      · rfl
      · rw [(open_contents c _).1, hp]; rfl
    · rw [(open_contents c _).1, hp]; rfl
  · rfl

/-- what one operation does to the acknowledged sequence and to the files, with MaxFiles = 0 -/
theorem step_in_order (c : Cfg) (hc : c.maxFiles = 0) (s : St) (op : Op) (ho : Ord c s)
    (h : contents s = s.acked) : contents (step c s op).1 = (step c s op).1.acked := by
  cases op with
  | write ev size elapsed =>
    simp only [step]
    generalize (if s.fd.isNone = true then 0 else elapsed) = el
    have h2 := ord_rotate el (ord_open (c := c) ho)
    have hcont : contents (rotate c (openFile c s) el).1 = (rotate c (openFile c s) el).1.acked := by
      rw [rotate_contents_eq c hc, rotate_acked, (open_contents c s).1, (open_contents c s).2, h]
    cases hr : (rotate c (openFile c s) el).2 with
    | errRotate => simp only; exact hcont
    | errFormat => simp only; exact hcont
    | ok =>
      cases hfd : (rotate c (openFile c s) el).1.fd with
      | none => simp only; exact hcont
      | some i =>
        simp only
        rw [append_at_end h2 hfd, hcont]
        rfl
  | reopen =>
    simp only [step]
    rw [(open_contents c _).1, (open_contents c _).2]
    split
    · split
      · exact h
      · exact h
    · exact h
  | extRename k =>
    simp only [step]
    split
    · split
      · exact h
      · exact h
    · exact h
  | noFormat => simp only [step]; exact h

/-- **Exactly once, in acknowledgement order, across files.**  With MaxFiles = 0, after every
operation sequence (size- or time-triggered rotations, Reopen, external renames of the active file)
reading the sink's files from the oldest to the newest yields exactly the acknowledged events, each
once, in acknowledgement order. -/
theorem exactly_once_in_order (c : Cfg) (hc : c.maxFiles = 0) (ops : List Op) :
    contents (run c {} ops) = (run c {} ops).acked := by
  suffices ∀ s, Ord c s → contents s = s.acked → contents (run c s ops) = (run c s ops).acked from
    this {} (ord_init c) rfl
  induction ops with
  | nil => intro s _ h; exact h
  | cons op rest ih => intro s ho h; exact ih _ (ord_step op ho) (step_in_order c hc s op ho h)

/-! ### retention removes a prefix -/

def NoForeign (s : St) : Prop := ∀ e ∈ s.dir, ∀ k, e.1 ≠ Name.foreign k

theorem sortTs_of_sorted (l : List (Nat × Nat)) (h : l.Pairwise (fun a b => a.1 < b.1)) : sortTs l = l := by
  induction l with
  | nil => rfl
  | cons x xs ih =>
    have hx := List.pairwise_cons.mp h
    rw [sortTs, ih hx.2]
    cases xs with
    | nil => rfl
    | cons y ys =>
      have := hx.1 y (by simp)
      simp only [insertTs]
      have hle : x.1 ≤ y.1 := Nat.le_of_lt this
      simp [hle]

theorem filterMap_tsOf_snd (d : List (Name × Nat)) (h : ∀ e ∈ d, isTs e.1 = true) :
    (d.filterMap tsOf).map (·.2) = d.map (·.2) := by
  induction d with
  | nil => rfl
  | cons x xs ih =>
    have hx := h x (by simp)
    obtain ⟨xn, xi⟩ := x
    cases xn with
    | plain => simp [isTs] at hx
    | foreign k => simp [isTs] at hx
    | ts n =>
      simp only [List.filterMap_cons, tsOf, List.map_cons]
      rw [ih (fun e he => h e (List.mem_cons_of_mem _ he))]

theorem filter_take_drop {α : Type} (f : α → Nat) (l : List α) (h : (l.map f).Nodup) (k : Nat) :
    l.filter (fun x => !((l.map f).take k).contains (f x)) = l.drop k := by
  induction l generalizing k with
  | nil => simp
  | cons x xs ih =>
    cases k with
    | zero => simp
    | succ k =>
      simp only [List.map_cons, List.take_succ_cons, List.drop_succ_cons]
      have hn := List.nodup_cons.mp h
      rw [List.filter_cons]
      simp only [List.contains_cons, beq_self_eq_true, Bool.true_or, Bool.not_true, Bool.false_eq_true, if_false]
      rw [← ih hn.2 k]
      apply List.filter_congr
      intro y hy
      have : (f y == f x) = false := by
        simp only [beq_eq_false_iff_ne, ne_eq]
        intro e
        exact hn.1 (e ▸ List.mem_map.mpr ⟨y, hy, rfl⟩)
      simp [this]

/-- when every directory entry is one of the sink's own timestamped files, `pruneFiles` removes the
oldest inodes: what the files hold afterwards is a suffix of what they held -/
theorem prune_suffix {c : Cfg} {s : St} (ho : Ord c s) (hts : ∀ e ∈ s.dir, isTs e.1 = true) :
    contents (prune c s) <:+ contents s := by
  unfold prune
  split
  · exact List.suffix_refl _
  · simp only
    have h1 : tsFiles s.dir = s.dir.filterMap tsOf := sortTs_of_sorted _ ho.tsSorted
    have h2 : (tsFiles s.dir).map (·.2) = s.inodes.map (·.id) := by
      rw [h1, filterMap_tsOf_snd _ hts, ho.dirInodes]
    generalize (tsFiles s.dir).length - c.maxFiles = k
    have h3 : ((tsFiles s.dir).take k).map (·.2) = (s.inodes.map (·.id)).take k := by
      rw [List.map_take, h2]
    unfold contents
    simp only [h3]
    rw [filter_take_drop (·.id) s.inodes (lt_pairwise_nodup ho.sorted) k]
    have : s.inodes = s.inodes.take k ++ s.inodes.drop k := (List.take_append_drop k s.inodes).symm
    refine ⟨(s.inodes.take k).flatMap (·.evs), ?_⟩
    rw [← List.flatMap_append, List.take_append_drop]

theorem prune_dir_sub (c : Cfg) (s : St) : ∀ e ∈ (prune c s).dir, e ∈ s.dir := by
  intro e he
  unfold prune at he
  split at he
  · exact he
  · exact (List.mem_filter.mp he).1

theorem open_noForeign (c : Cfg) (s : St) (h : NoForeign s) : NoForeign (openFile c s) := by
  unfold openFile
  cases hfd : s.fd with
  | some _ => exact h
  | none =>
    simp only
    cases hl : lookup s.dir (openName c s) with
    | some i => exact h
    | none =>
      intro e he k
      simp only [List.mem_append, List.mem_singleton] at he
      rcases he with he | he
      · exact h e he k
      · subst he
        rcases openName_cases c s with ⟨_, hn⟩ | ⟨_, hn⟩ <;> simp [hn]

/-- rotation keeps the acknowledged sequence and leaves a suffix of the files' contents, when nobody
renamed files away -/
theorem rotate_suffix (c : Cfg) (s : St) (el : Nat) (ho : Ord c s) (hf : NoForeign s) :
    contents (rotate c s el).1 <:+ contents s ∧ NoForeign (rotate c s el).1 := by
  unfold rotate
  by_cases hn : needRotate c s.bytesWritten el = true
  · simp only [hn, if_true]
    by_cases ht : c.tsOnly = true
    · simp only [ht, if_true]
      cases hl : lookup (closeFd s).dir .plain with
      | none => exact ⟨List.suffix_refl _, hf⟩
      | some i =>
        simp only
        have hmem : (Name.plain, i) ∈ (closeFd s).dir := lookup_mem' hl
        obtain ⟨h1, h2⟩ := ord_renamePlain (ord_close ho) rfl hmem
        have hnf : NoForeign (renamePlain (closeFd s) i) := by
          intro e he k
          simp only [renamePlain, closeFd, List.mem_map] at he
          obtain ⟨x, hx, hxe⟩ := he
          split at hxe
          · subst hxe; simp
          · subst hxe; exact hf x hx k
        have hts : ∀ e ∈ (renamePlain (closeFd s) i).dir, isTs e.1 = true := by
          intro e he
          obtain ⟨en, ei⟩ := e
          cases en with
          | plain => exact absurd he (h2 ei)
          | foreign k => exact absurd rfl (hnf _ he k)
          | ts n => rfl
        have hs := prune_suffix (c := c) h1 hts
        refine ⟨?_, ?_⟩
        · rw [(open_contents c _).1]
          exact hs
        · apply open_noForeign
          intro e he k
          exact hnf e (prune_dir_sub c _ e he) k
    · simp only [ht, if_false, Bool.false_eq_true]
      have hu : usesPlain c = false := by
        unfold usesPlain rotateEnabled
        unfold needRotate at hn
        have ht' : c.tsOnly = false := by simpa using ht
        rw [ht']
        simp only [Bool.false_or, Bool.not_eq_false', Bool.or_eq_true, decide_eq_true_eq, bne_iff_ne, ne_eq]
        simp only [Bool.or_eq_true, Bool.and_eq_true, decide_eq_true_eq] at hn
        rcases hn with ⟨_, hn⟩ | ⟨_, hn⟩
        · exact Or.inl hn
        · exact Or.inr (by omega)
      have hts : ∀ e ∈ (closeFd s).dir, isTs e.1 = true := by
        intro e he
        obtain ⟨en, ei⟩ := e
        cases en with
        | plain => exact absurd he (ho.noPlain hu ei)
        | foreign k => exact absurd rfl (hf _ he k)
        | ts n => rfl
      have hs := prune_suffix (c := c) (ord_close ho) hts
      refine ⟨?_, ?_⟩
      · rw [(open_contents c _).1]
        exact hs
      · apply open_noForeign
        intro e he k
        exact hf e (prune_dir_sub c (closeFd s) e he) k
  · simp only [hn, if_false, Bool.false_eq_true]
    exact ⟨List.suffix_refl _, hf⟩

def notRename : Op → Bool
  | .extRename _ => false
  | _ => true

theorem step_suffix (c : Cfg) (s : St) (op : Op) (hop : notRename op = true) (ho : Ord c s) (hf : NoForeign s)
    (h : contents s <:+ s.acked) :
    contents (step c s op).1 <:+ (step c s op).1.acked ∧ NoForeign (step c s op).1 := by
  cases op with
  | write ev size elapsed =>
    simp only [step]
    generalize (if s.fd.isNone = true then 0 else elapsed) = el
    have ho1 := ord_open (c := c) ho
    have h2 := ord_rotate el ho1
    obtain ⟨hs, hnf⟩ := rotate_suffix c (openFile c s) el ho1 (open_noForeign c s hf)
    have hcont : contents (rotate c (openFile c s) el).1 <:+ (rotate c (openFile c s) el).1.acked := by
      rw [rotate_acked, (open_contents c s).2]
      rw [(open_contents c s).1] at hs
      exact List.IsSuffix.trans hs h
    cases hr : (rotate c (openFile c s) el).2 with
    | errRotate => simp only; exact ⟨hcont, hnf⟩
    | errFormat => simp only; exact ⟨hcont, hnf⟩
    | ok =>
      cases hfd : (rotate c (openFile c s) el).1.fd with
      | none => simp only; exact ⟨hcont, hnf⟩
      | some i =>
        simp only
        refine ⟨?_, hnf⟩
        rw [append_at_end h2 hfd]
        obtain ⟨pre, hpre⟩ := hcont
        exact ⟨pre, by simp only [appendTo]; rw [← hpre]; simp⟩
  | reopen =>
    simp only [step]
    refine ⟨?_, ?_⟩
    · rw [(open_contents c _).1, (open_contents c _).2]
      split
      · split
        · exact h
        · exact h
      · exact h
    · apply open_noForeign
      split
      · split
        · exact hf
        · exact hf
      · exact hf
  | extRename k => cases hop
  | noFormat => simp only [step]; exact ⟨h, hf⟩

/-- **Retention leaves a suffix.**  For every configuration (any MaxFiles) and every operation
sequence in which nobody renames files away, what the sink's files hold — read oldest to newest — is
a suffix of the acknowledged sequence: only the oldest events can be missing, and those only through
`pruneFiles`. -/
theorem suffix_under_retention (c : Cfg) (ops : List Op) (hops : ops.all notRename = true) :
    contents (run c {} ops) <:+ (run c {} ops).acked := by
  suffices ∀ s, Ord c s → NoForeign s → contents s <:+ s.acked → contents (run c s ops) <:+ (run c s ops).acked from
    this {} (ord_init c) (fun e he => by simp at he) (List.suffix_refl _)
  induction ops with
  | nil => intro s _ _ h; exact h
  | cons op rest ih =>
    intro s ho hf h
    simp only [List.all_cons, Bool.and_eq_true] at hops
    obtain ⟨h1, h2⟩ := step_suffix c s op hops.1 ho hf h
    exact ih hops.2 _ (ord_step op ho) h2 h1

/-- Non-vacuity: rotation by size, an external rename followed by Reopen, timestamp-only naming. -/
def demoOps : List Op := [.write 1 60 0, .write 2 60 0, .write 3 60 0, .extRename 1, .write 4 10 0, .reopen, .write 5 10 0]
example : contents (run ⟨100, 0, 0, true, 0⟩ {} demoOps) = [1, 2, 3, 4, 5] ∧ (run ⟨100, 0, 0, true, 0⟩ {} demoOps).acked = [1, 2, 3, 4, 5] := by decide
example : (run ⟨100, 0, 0, true, 0⟩ {} demoOps).dir = [(Name.ts 2, 1), (Name.foreign 1, 3), (Name.plain, 4)] := by decide

/-- retention at work: three rotations with MaxFiles = 1, the two oldest files are gone -/
def demoRet : List Op := [.write 1 60 0, .write 2 60 0, .write 3 60 0, .write 4 60 0, .reopen, .write 5 60 0]
example : contents (run ⟨50, 1, 0, false, 0⟩ {} demoRet) = [3, 4, 5] ∧ (run ⟨50, 1, 0, false, 0⟩ {} demoRet).acked = [1, 2, 3, 4, 5] := by decide
example : demoRet.all notRename = true := by decide

/-- **A rotation is one atomic directory operation** (regenerated from file_sink.go on every run): the
only thing `rotate` itself does to the directory is a single `os.Rename` of the plain file to its
time-stamped name — the model's rotation step is one step, and a process killed at any moment leaves
either the old name or the new one, never both and never neither (the atomicity of rename(2) itself is
the operating system's, §8).  A rotation made of a link followed by an unlink shows here as two calls. -/
theorem rotation_is_one_rename : Evl.Generated.rotateOsCalls = ["Rename"] := by decide

end Evl.C08
