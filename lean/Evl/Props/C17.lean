import Evl.Lemmas.Gated
import Evl.Generated.LockSites
/-!
# C17 — gated events do not linger: expiry, FlushAll and Close empty the gate

Model: M6 `Gated` (filters/gated/gated.go as it stands after the `fix:` commit to the list walks).
Theorems hold for every gate content (any number of groups, ids, events), every clock value and
every failure injection; the gate content is arbitrary, hence in particular every reachable one.
-/
namespace Evl.C17
open Evl.Gated

/-- A `Process` call that did not report an error. -/
def Succeeded (o : Out) : Prop := o.ret = .gated ∨ ∃ evs, o.ret = .flushed evs

/-- After a successful Process at time `now`, no group whose expiry lies before `now` remains, and
the expired groups were emitted oldest first, each exactly once, through the Broker when one is
configured (otherwise composed and dropped). -/
theorem process_expiry (c : Cfg) (gs : List Group) (uid id : Nat) (flush : Bool) (now : Int) (f : Fail)
    (h : Succeeded (step c gs (.ev uid id flush now f)).2) :
    (∀ g ∈ (step c gs (.ev uid id flush now f)).1, ¬ now > g.exp) ∧
    ∃ es tail, (step c gs (.ev uid id flush now f)).2.emits = es ++ tail ∧
      es.map (fun e => (e.id, e.evs)) = (gs.filter (expired now)).map (fun g => (g.id, g.evs)) ∧
      (∀ e ∈ es, e.fate = (if c.broker then .sent else .noBroker)) ∧
      (tail = [] ∨ ∃ evs, tail = [⟨id, evs, .flushed⟩]) := by
  unfold step at h ⊢
  by_cases hid : (id == 0) = true
  · simp only [hid, if_true, Succeeded] at h
    rcases h with h | ⟨_, h⟩ <;> cases h
  simp only [hid, if_false, Bool.false_eq_true] at h ⊢
  cases hok : (openExpired c f now gs).2.2 with
  | false =>
    simp only [hok, Bool.not_false, if_true, Succeeded] at h
    -- an error: lastErr of a failing walk is an error value or `.ok`, never gated/flushed
    exfalso
    unfold lastErr at h
    rcases h with h | ⟨_, h⟩
    · split at h
      · unfold fateErr at h; split at h <;> cases h
      · cases h
    · split at h
      · unfold fateErr at h; split at h <;> cases h
      · cases h
  | true =>
    obtain ⟨h1, h2, h3⟩ := openExpired_ok c f now gs hok
    simp only [hok, Bool.not_true, Bool.false_eq_true, if_false] at h ⊢
    have hkeep : ∀ g ∈ addEvent (openExpired c f now gs).1 id uid (now + c.expiration), ¬ now > g.exp := by
      intro g hg
      rcases addEvent_exp _ _ _ _ g hg with ⟨g0, h0, he, _⟩ | ⟨he, _⟩
      · rw [h1, List.mem_filter] at h0
        have := h0.2
        simp [expired] at this
        rw [he]; omega
      · rw [he]; omega
    cases flush with
    | false =>
      simp only [Bool.false_eq_true, if_false]
      exact ⟨hkeep, _, [], by simp, h2, h3, Or.inl rfl⟩
    | true =>
      simp only [if_true] at h ⊢
      cases ht : takeGroup (addEvent (openExpired c f now gs).1 id uid (now + c.expiration)) id with
      | none =>
        simp only
        exact ⟨hkeep, _, [], by simp, h2, h3, Or.inl rfl⟩
      | some y =>
        obtain ⟨g, r⟩ := y
        simp only [ht] at h ⊢
        have hsub := (takeGroup_sublist ht).1
        by_cases hcf : (f.cf != 0 && id == f.cf) = true
        · simp only [hcf, if_true, Succeeded] at h
          rcases h with h | ⟨_, h⟩ <;> cases h
        · simp only [hcf, if_false, Bool.false_eq_true]
          exact ⟨fun x hx => hkeep x (hsub.subset hx), _, _, rfl, h2, h3, Or.inr ⟨_, rfl⟩⟩

/-- So the events the filter holds after a successful Process are those of unexpired groups only. -/
theorem bound (c : Cfg) (gs : List Group) (uid id : Nat) (flush : Bool) (now : Int) (f : Fail)
    (h : Succeeded (step c gs (.ev uid id flush now f)).2) :
    ∀ g ∈ (step c gs (.ev uid id flush now f)).1, expired now g = false := by
  intro g hg
  have := (process_expiry c gs uid id flush now f h).1 g hg
  simp [expired, this]

/-- After FlushAll (or Close) returns successfully nothing remains gated; with a Broker every
previously gated group was composed and sent exactly once, oldest first; without one every group
was dropped. -/
theorem flushAll_empties (c : Cfg) (gs : List Group) (f : Fail) (h : (flushAllStep c gs f).2.ret = .ok) :
    (flushAllStep c gs f).1 = [] ∧
    (flushAllStep c gs f).2.emits.map (fun e => (e.id, e.evs)) = gs.map (fun g => (g.id, g.evs)) ∧
    ∀ e ∈ (flushAllStep c gs f).2.emits, e.fate = (if c.broker then .sent else .droppedUncomposed) := by
  unfold flushAllStep at h ⊢
  by_cases hem : gs.isEmpty = true
  · have : gs = [] := by simpa using hem
    subst this
    simp
  simp only [hem, if_false, Bool.false_eq_true] at h ⊢
  cases hb : c.broker with
  | false => simp [hb]
  | true =>
    simp only [hb, Bool.not_true, Bool.false_eq_true, if_false] at h ⊢
    cases hok : (openAll c f gs).2.2 with
    | true =>
      obtain ⟨h1, h2, h3⟩ := openAll_ok c f gs hok
      simp only [hb, if_true] at h3
      exact ⟨h1, h2, h3⟩
    | false =>
      exfalso
      simp only [hok, Bool.false_eq_true, if_false] at h
      -- a failing walk ends with the failing emit, whose fate is an error
      have hlast : ∀ gs, (openAll c f gs).2.2 = false →
          ∃ e, (openAll c f gs).2.1.getLast? = some e ∧ fateErr e.fate ≠ .ok := by
        intro gs
        induction gs with
        | nil => intro h; simp [openAll] at h
        | cons g rest ih =>
          intro h
          unfold openAll at h ⊢
          cases hg : (openGate c f g).2 with
          | true =>
            simp only [hg, if_true] at h ⊢
            obtain ⟨e, he, hne⟩ := ih h
            refine ⟨e, ?_, hne⟩
            rw [List.getLast?_cons, he]; rfl
          | false =>
            simp only [hg, Bool.false_eq_true, if_false]
            exact ⟨_, rfl, openGate_fail_fate c f g hg⟩
      obtain ⟨e, he, hne⟩ := hlast gs hok
      unfold lastErr at h
      rw [he] at h
      exact hne h

/-- the walk of FlushAll never keeps the group it started with -/
theorem openAll_cons_sublist (c : Cfg) (f : Fail) (g : Group) (rest : List Group) :
    (openAll c f (g :: rest)).1.Sublist rest := by
  unfold openAll
  cases hg : (openGate c f g).2 with
  | false => simp only [hg, Bool.false_eq_true, if_false]; exact List.Sublist.refl _
  | true => simp only [hg, if_true]; exact openAll_sublist c f rest

/-- **A failing FlushAll / Close still makes progress**: whatever fails (composition, a Gateable
composite, the Broker's Send), a call on a non-empty gate leaves strictly fewer groups than it found
— the group whose gate failed to open is gone, none is added. -/
theorem flushAll_progress (c : Cfg) (gs : List Group) (f : Fail) (h : gs ≠ []) :
    (flushAllStep c gs f).1.length < gs.length := by
  unfold flushAllStep
  cases gs with
  | nil => exact absurd rfl h
  | cons g rest =>
    simp only [List.isEmpty_cons, Bool.false_eq_true, if_false]
    cases hb : c.broker with
    | false => simp
    | true =>
      simp only [Bool.not_true, Bool.false_eq_true, if_false]
      have := (openAll_cons_sublist c f g rest).length_le
      simp only [List.length_cons]
      omega

/-- the gate after a series of FlushAll / Close calls, each with its own failures -/
def flushes (c : Cfg) (gs : List Group) (fs : List Fail) : List Group :=
  fs.foldl (fun gs f => (flushAllStep c gs f).1) gs

/-- **So nothing lingers for ever, even under failures**: as many FlushAll / Close calls as there
are groups in the gate empty it, whatever each of them reports and whichever group each of them
fails on; further calls keep it empty. -/
theorem flushes_empty (c : Cfg) (fs : List Fail) : ∀ gs : List Group, gs.length ≤ fs.length → flushes c gs fs = [] := by
  induction fs with
  | nil => intro gs h; simpa [flushes] using h
  | cons f fs ih =>
    intro gs h
    have hstep : flushes c gs (f :: fs) = flushes c (flushAllStep c gs f).1 fs := rfl
    rw [hstep]
    apply ih
    cases gs with
    | nil => simp [flushAllStep]
    | cons g rest =>
      have := flushAll_progress c (g :: rest) f (by simp)
      simp only [List.length_cons] at h this ⊢
      omega

/-- FlushAll / Close on an empty gate: nothing is composed, nothing sent, no error (so calling Close
again, or after FlushAll, is harmless) -/
theorem flushAll_empty_noop (c : Cfg) (f : Fail) : flushAllStep c [] f = ([], ⟨.ok, []⟩) := by
  simp [flushAllStep]

theorem close_is_flushAll (c : Cfg) (gs : List Group) (f : Fail) : step c gs (.close f) = step c gs (.flushAll f) := rfl

/-- Non-vacuity: three open groups, two of them expired at the next event; FlushAll afterwards. -/
def demoGs : List Group := [⟨1, [10, 11], 5⟩, ⟨2, [12], 7⟩, ⟨3, [13], 40⟩]
example : (step ⟨true, 10⟩ demoGs (.ev 14 3 false 20 {})).2 =
    ⟨.gated, [⟨1, [10, 11], .sent⟩, ⟨2, [12], .sent⟩]⟩ := by decide
example : Succeeded (step ⟨true, 10⟩ demoGs (.ev 14 3 false 20 {})).2 := Or.inl (by decide)
example : (step ⟨true, 10⟩ demoGs (.flushAll {})).2.ret = .ok ∧ (step ⟨true, 10⟩ demoGs (.flushAll {})).1 = [] := by decide
example : (step ⟨true, 10⟩ demoGs (.flushAll { sf := 2 })).2.ret = .errSend ∧
    (step ⟨true, 10⟩ demoGs (.flushAll { sf := 2 })).1 = [⟨3, [13], 40⟩] := by decide

-- three groups, each call failing on a different one: three calls empty the gate, two do not
example : flushes ⟨true, 10⟩ demoGs [{ sf := 1 }, { cf := 2 }, { cg := 3 }] = [] ∧
    flushes ⟨true, 10⟩ demoGs [{ sf := 1 }, { cf := 2 }] = [⟨3, [13], 40⟩] := by decide

/-- **The model's steps are the code's critical sections** (regenerated from filters/gated/gated.go on
every run): `Close` and `FlushAll` each take the filter's lock once and keep it until they return
— emptying the gate is one atomic step, nobody sees or touches a group between its composition, its
emission through the Broker and its removal; `Process` consists of exactly three sections
(initialisation, the expiry sweep, the event's own group), each of them one step of M6.  A lock given
up in the middle of a sweep (e.g. around `Broker.Send`) shows here as a fourth section. -/
theorem sections_on_source : Evl.Generated.gatedSections = [1, 1, 3] := by decide

end Evl.C17
