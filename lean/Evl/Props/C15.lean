import Evl.Model.FileSink
import Evl.Props.C08
import Evl.Generated.Decisions
/-!
# C15 — FileSink rotation triggers, naming and retention follow the configuration

Model: M5 `FileSink`.  The rotation condition is tied to the source by the decision tree regenerated
from `FileSink.rotate` (`Evl.Generated.rotateCond`); names, modes and the directory listing are
compared with the real file system after every step by the correspondence harness (same runs as C08).
-/
namespace Evl.C15
open Evl.FileSink

/-- A write first rotates exactly when the active file, since it was opened, already holds at least
MaxBytes (MaxBytes > 0) or is older than MaxDuration (MaxDuration > 0). -/
theorem trigger_iff (c : Cfg) (bw el : Nat) :
    needRotate c bw el = true ↔ (c.maxBytes > 0 ∧ bw ≥ c.maxBytes) ∨ (c.maxDuration > 0 ∧ (el : Int) > c.maxDuration) := by
  unfold needRotate
  simp only [Bool.or_eq_true, Bool.and_eq_true, decide_eq_true_eq]
  constructor
  · rintro (⟨h1, h2⟩ | ⟨h1, h2⟩)
    · exact Or.inl ⟨h2, h1⟩
    · exact Or.inr ⟨h2, h1⟩
  · rintro (⟨h1, h2⟩ | ⟨h1, h2⟩)
    · exact Or.inl ⟨h2, h1⟩
    · exact Or.inr ⟨h2, h1⟩

/-- ... and that is the condition the source evaluates (regenerated from file_sink.go). -/
theorem trigger_on_source :
    Evl.Generated.rotateCond =
      [[{ l := .bytesWritten, op := .ge, r := .maxBytes }, { l := .maxBytes, op := .gt, r := .zero }],
       [{ l := .elapsed, op := .gt, r := .maxDuration }, { l := .maxDuration, op := .gt, r := .zero }]] := by decide

/-- A non-positive MaxDuration (zero, or a negative "disabled" value) never rotates by age: only the
size limit can. -/
theorem no_age_rotation_without_positive_duration (c : Cfg) (bw el : Nat) (h : c.maxDuration ≤ 0) :
    needRotate c bw el = true ↔ (c.maxBytes > 0 ∧ bw ≥ c.maxBytes) := by
  rw [trigger_iff]
  constructor
  · rintro (h1 | ⟨h1, _⟩)
    · exact h1
    · omega
  · intro h1; exact Or.inl h1

/-- With neither limit nothing ever rotates: the state after `rotate` is the state before. -/
theorem never_without_limits (c : Cfg) (s : St) (el : Nat) (h1 : c.maxBytes = 0) (h2 : c.maxDuration = 0) :
    rotate c s el = (s, .ok) := by
  unfold rotate needRotate
  simp [h1, h2]

/-- pruneFiles never removes a name outside the sink's own timestamped name space (the plain file,
foreign files). -/
theorem prune_keeps_foreign (c : Cfg) (s : St) (x : Name × Nat) (hx : x ∈ s.dir)
    (hn : ∀ n, x.1 ≠ .ts n) : x ∈ (prune c s).dir := by
  unfold prune
  split
  · exact hx
  · simp only
    rw [List.mem_filter]
    refine ⟨hx, ?_⟩
    cases hname : x.1 with
    | plain => simp [isTs]
    | foreign k => simp [isTs]
    | ts n => exact absurd hname (hn n)

/-- the timestamped entries that survive `pruneFiles`' filter of the directory -/
theorem filterMap_tsOf_filter (gone : List Nat) (d : List (Name × Nat)) :
    (d.filter (fun x => !(gone.contains x.2 && isTs x.1))).filterMap tsOf =
      (d.filterMap tsOf).filter (fun y => !gone.contains y.2) := by
  induction d with
  | nil => rfl
  | cons x xs ih =>
    obtain ⟨xn, xi⟩ := x
    have hp : isTs Name.plain = false := rfl
    have hf : ∀ k, isTs (Name.foreign k) = false := fun _ => rfl
    have ht : ∀ n, isTs (Name.ts n) = true := fun _ => rfl
    cases xn with
    | plain =>
      simp only [List.filter_cons, hp, Bool.and_false, Bool.not_false, if_true, List.filterMap_cons, tsOf]
      exact ih
    | foreign k =>
      simp only [List.filter_cons, hf, Bool.and_false, Bool.not_false, if_true, List.filterMap_cons, tsOf]
      exact ih
    | ts n =>
      by_cases hg : gone.contains xi = true
      · simp only [List.filter_cons, ht, hg, Bool.and_true, Bool.not_true, Bool.false_eq_true, if_false,
          List.filterMap_cons, tsOf]
        exact ih
      · have hg' : gone.contains xi = false := by simpa using hg
        simp only [List.filter_cons, ht, hg', Bool.and_true, Bool.not_false, if_true,
          List.filterMap_cons, tsOf, ih]

/-- the inode ids of the timestamped entries are a sublist of all the directory's inode ids -/
theorem tsOf_snd_sublist (d : List (Name × Nat)) : ((d.filterMap tsOf).map (·.2)).Sublist (d.map (·.2)) := by
  induction d with
  | nil => exact List.Sublist.slnil
  | cons x xs ih =>
    obtain ⟨xn, xi⟩ := x
    cases xn with
    | plain => simp only [List.filterMap_cons, tsOf, List.map_cons]; exact List.Sublist.cons _ ih
    | foreign k => simp only [List.filterMap_cons, tsOf, List.map_cons]; exact List.Sublist.cons _ ih
    | ts n => simp only [List.filterMap_cons, tsOf, List.map_cons]; exact List.Sublist.cons₂ _ ih

/-- **Retention bound**: in every state the ordering invariant describes (every reachable state,
`ord_run`), `pruneFiles` with MaxFiles > 0 leaves at most MaxFiles of the sink's own timestamped
files, and they are the newest ones (what is left is the tail of the oldest-first listing). -/
theorem prune_bound {c : Cfg} {s : St} (ho : Ord c s) (hm : c.maxFiles > 0) :
    (prune c s).dir.filterMap tsOf = (s.dir.filterMap tsOf).drop ((s.dir.filterMap tsOf).length - c.maxFiles) ∧
    ((prune c s).dir.filterMap tsOf).length ≤ c.maxFiles := by
  have hz : (c.maxFiles == 0) = false := by simp; omega
  have h1 : tsFiles s.dir = s.dir.filterMap tsOf := Evl.C08.sortTs_of_sorted _ ho.tsSorted
  have hnd : ((s.dir.filterMap tsOf).map (·.2)).Nodup := by
    have : (s.dir.map (·.2)).Nodup := by rw [ho.dirInodes]; exact lt_pairwise_nodup ho.sorted
    exact this.sublist (tsOf_snd_sublist s.dir)
  have heq : (prune c s).dir.filterMap tsOf =
      (s.dir.filterMap tsOf).drop ((s.dir.filterMap tsOf).length - c.maxFiles) := by
    unfold prune
    simp only [hz, Bool.false_eq_true, if_false]
    rw [filterMap_tsOf_filter, h1, List.map_take]
    exact Evl.C08.filter_take_drop (fun x : Nat × Nat => x.2) _ hnd _
  refine ⟨heq, ?_⟩
  rw [heq, List.length_drop]
  omega

/-- ... for every history of writes, Reopen calls and external renames: whatever state the sink has
reached, the next `pruneFiles` brings its timestamped files down to MaxFiles. -/
theorem retention_bound (c : Cfg) (ops : List Op) (hm : c.maxFiles > 0) :
    ((prune c (run c {} ops)).dir.filterMap tsOf).length ≤ c.maxFiles :=
  (prune_bound (ord_run c ops {} (ord_init c)) hm).2

theorem prune_fd_bw (c : Cfg) (s : St) : (prune c s).fd = s.fd ∧ (prune c s).bytesWritten = s.bytesWritten := by
  unfold prune; split <;> exact ⟨rfl, rfl⟩

theorem open_resets (c : Cfg) (s : St) (h : s.fd = none) : (openFile c s).bytesWritten = 0 := by
  unfold openFile
  simp only [h]
  split <;> rfl

/-- after a successful `rotate()` the active file's counter is below MaxBytes (MaxBytes > 0): either
the condition did not hold, or a file was (re)opened and the counter restarted at zero -/
theorem rotate_below (c : Cfg) (s s2 : St) (el : Nat) (hm : c.maxBytes > 0) (h : rotate c s el = (s2, .ok)) :
    s2.bytesWritten < c.maxBytes := by
  unfold rotate at h
  cases hn : needRotate c s.bytesWritten el with
  | false =>
    simp only [hn, Bool.false_eq_true, if_false, Prod.mk.injEq, and_true] at h
    subst h
    unfold needRotate at hn
    simp only [Bool.or_eq_false_iff, Bool.and_eq_false_iff, decide_eq_false_iff_not] at hn
    rcases hn.1 with h1 | h1 <;> omega
  | true =>
    simp only [hn, if_true] at h
    cases ht : c.tsOnly with
    | true =>
      simp only [ht, if_true] at h
      cases hl : lookup (closeFd s).dir .plain with
      | none => simp [hl] at h
      | some i =>
        simp only [hl, Prod.mk.injEq, and_true] at h
        subst h
        rw [open_resets c _ (by rw [(prune_fd_bw c _).1]; rfl)]
        exact hm
    | false =>
      simp only [ht, Bool.false_eq_true, if_false, Prod.mk.injEq, and_true] at h
      subst h
      rw [open_resets c _ (by rw [(prune_fd_bw c _).1]; rfl)]
      exact hm

/-- **Size trigger, seen from the file**: with MaxBytes > 0 an acknowledged write never lands in a
file that, since the sink opened it, already held MaxBytes or more — the counter after the write is
below MaxBytes plus the size of that one event (the limit can be overshot by one event, never by two). -/
theorem write_below_limit (c : Cfg) (s s' : St) (ev size el : Nat) (hm : c.maxBytes > 0)
    (h : step c s (.write ev size el) = (s', .ok)) : s'.bytesWritten < c.maxBytes + size := by
  simp only [step] at h
  generalize hr : rotate c (openFile c s) (if s.fd.isNone = true then 0 else el) = r at h
  obtain ⟨s2, res⟩ := r
  cases res with
  | ok =>
    cases hfd : s2.fd with
    | none => simp [hfd] at h
    | some i =>
      simp only [hfd, Prod.mk.injEq, and_true] at h
      subst h
      have := rotate_below c _ s2 _ hm hr
      simp only [appendTo]
      omega
  | errRotate => simp at h
  | errFormat => simp at h

/-- **Never otherwise**: a write into an open file whose rotation condition does not hold touches no
name — no rotation, no new file, nothing pruned: the directory and the open descriptor stay as they
were, the event is appended to the active file and acknowledged. -/
theorem no_rotation_without_trigger (c : Cfg) (s : St) (i ev size el : Nat) (hfd : s.fd = some i)
    (hn : needRotate c s.bytesWritten el = false) :
    (step c s (.write ev size el)).2 = .ok ∧ (step c s (.write ev size el)).1.dir = s.dir ∧
    (step c s (.write ev size el)).1.fd = some i ∧ (step c s (.write ev size el)).1.acked = s.acked ++ [ev] := by
  have ho : openFile c s = s := by unfold openFile; simp [hfd]
  have hr : rotate c s el = (s, .ok) := by unfold rotate; simp [hn]
  simp [step, ho, hfd, hr, appendTo]

/-- a file is created with the configured mode (0600 when unset) -/
theorem created_mode (c : Cfg) (s : St) (h : s.fd = none)
    (hnew : lookup s.dir (openName c s) = none) :
    ∃ i, (openFile c s).fd = some i ∧ { id := i, evs := [], bytes := 0, mode := fileMode c } ∈ (openFile c s).inodes := by
  unfold openFile
  simp only [h, hnew]
  exact ⟨s.stamp, rfl, by simp⟩

/-- opening resets the per-file counter, and the file name follows the configuration: the plain
name with TimestampOnlyOnRotate or without rotation limits, a fresh timestamp otherwise -/
theorem open_name (c : Cfg) (s : St) (h : s.fd = none) :
    (openFile c s).bytesWritten = 0 ∧
    (openFile c s).fdName = some (openName c s) ∧
    openName c s = (if c.tsOnly || !rotateEnabled c then Name.plain else Name.ts s.stamp) ∧
    (openFile c s).stamp = s.stamp + 1 := by
  unfold openFile
  simp only [h]
  split <;> exact ⟨rfl, rfl, rfl, rfl⟩

/-- Non-vacuity: byte rotation with retention 1 in both naming modes (the last write of the longer
history rotates a second time, and the oldest rotated file is pruned). -/
def demoOps : List Op := [.write 1 60 0, .write 2 60 0, .write 3 60 0, .write 4 60 0, .reopen, .write 5 10 0]
example : ((run ⟨100, 1, 0, true, 0⟩ {} demoOps).dir, contents (run ⟨100, 1, 0, true, 0⟩ {} demoOps)) =
    ([(Name.ts 2, 1), (Name.plain, 3)], [1, 2, 3, 4, 5]) := by decide
example : contents (run ⟨100, 1, 0, true, 0⟩ {} (demoOps ++ [.write 6 60 0, .write 7 60 0, .write 8 60 0])) = [3, 4, 5, 6, 7, 8] := by decide
example : (run ⟨100, 1, 0, false, 0⟩ {} demoOps).dir = [(Name.ts 1, 1), (Name.ts 2, 2), (Name.ts 3, 3)] := by decide
-- the size bound is attained: 60 + 60 bytes in a file limited to 100, then a rotation
example : (step ⟨100, 1, 0, true, 0⟩ (run ⟨100, 1, 0, true, 0⟩ {} [.write 1 60 0]) (.write 2 60 0)).2 = .ok ∧
    (run ⟨100, 1, 0, true, 0⟩ {} [.write 1 60 0, .write 2 60 0]).bytesWritten = 120 ∧
    (run ⟨100, 1, 0, true, 0⟩ {} [.write 1 60 0, .write 2 60 0, .write 3 60 0]).bytesWritten = 60 := by decide
-- the retention bound is not vacuous: three files listed, pruneFiles keeps the newest one
example : (prune ⟨100, 1, 0, false, 0⟩ (run ⟨100, 1, 0, false, 0⟩ {} demoOps)).dir = [(Name.ts 3, 3)] := by decide

end Evl.C15
