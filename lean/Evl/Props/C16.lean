import Evl.Model.Encrypt
import Evl.Generated.EncryptFacts
/-!
# C16 — encrypted and HMAC-ed values are correct under the key in force, across rotation

Model: M7's key material (`Keys`, `EventKeys`, `rotate`, `keyFor` / `saltFor` / `infoFor`).  That an
`enc key m` leaf decrypts to `m` and a `mac key salt info m` leaf equals HMAC-SHA256 of `m` under
HKDF(key, salt, info) is what the harness establishes for every produced value with independent
code (go-kms-wrapping's AEAD Decrypt with the candidate key, x/crypto/hkdf + crypto/hmac): a leaf is
only canonicalised to `E<key>…` / `M<key>…` if that succeeds.  The atomicity of one value under
concurrent rotation: `atomic_on_source` (regenerated: Rotate and the rotation-payload branch of Process
replace wrapper, salt and info inside ONE exclusive section of Filter.l and call no method of the
filter inside it; encrypt / hmacSha256 read the material inside one section) makes every rotation
and every protection of one value an atomic step, and `under_material_in_force` shows that then
every value is protected under the material left by some prefix of the rotations — wholly old or
wholly new, never a mix.  The race scenario `encrot` searches real schedules for a mixed value.
Assumed: AEAD decrypt ∘ encrypt = id, HKDF and HMAC themselves.
-/
namespace Evl.C16
open Evl.Encrypt

/-- every encrypted value uses the per-event wrapper derived from the filter's wrapper and the event
id when the payload carries event wrapper info, the filter's wrapper otherwise; every HMAC uses the
same key with the per-event salt / info when non-nil, else the filter's -/
theorem key_in_force (k : Keys) (ek : Option EventKeys) (ov : Overrides) (f : Field) (m : Nat) (o : FOut)
    (hex : f.exported = true) (hk : f.kind = .str m) (h : filterOne k ek ov f = some o) :
    (action (fromTag f.tag ov) = .encrypt → ∃ key, keyFor k ek = some key ∧ o = .one (.enc key m)) ∧
    (action (fromTag f.tag ov) = .hmac → ∃ key, keyFor k ek = some key ∧ o = .one (.mac key (saltFor k ek) (infoFor k ek) m)) := by
  unfold filterOne at h
  simp only [hex, Bool.not_true, Bool.false_eq_true, if_false, hk] at h
  constructor
  · intro ha
    simp only [ha, filterLeaf] at h
    cases hkey : keyFor k ek with
    | none => simp [hkey] at h
    | some key => simp [hkey] at h; exact ⟨key, rfl, h.symm⟩
  · intro ha
    simp only [ha, filterLeaf] at h
    cases hkey : keyFor k ek with
    | none => simp [hkey] at h
    | some key => simp [hkey] at h; exact ⟨key, rfl, h.symm⟩

/-- precedence of per-event values -/
theorem per_event_precedence (k : Keys) (e : EventKeys) :
    (∀ w id, e.derivedFrom = some (w, id) → keyFor k (some e) = some (w, some id)) ∧
    (∀ s, e.salt = some s → saltFor k (some e) = some s) ∧ (e.salt = none → saltFor k (some e) = k.salt) ∧
    (∀ i, e.info = some i → infoFor k (some e) = some i) ∧ (e.info = none → infoFor k (some e) = k.info) ∧
    keyFor k none = k.wrapper.map (·, none) ∧ saltFor k none = k.salt ∧ infoFor k none = k.info := by
  refine ⟨?_, ?_, ?_, ?_, ?_, rfl, rfl, rfl⟩
  · intro w id h; simp [keyFor, h]
  · intro s h; simp [saltFor, h]
  · intro h; simp [saltFor, h]
  · intro i h; simp [infoFor, h]
  · intro h; simp [infoFor, h]

/-- Rotate / a rotation payload: every supplied component is the one used afterwards, every absent
one keeps its previous value; this holds after any sequence of rotations -/
theorem rotation (k : Keys) (w s i : Option Nat) :
    ((rotate k w s i).wrapper = match w with | some x => some x | none => k.wrapper) ∧
    ((rotate k w s i).salt = match s with | some x => some x | none => k.salt) ∧
    ((rotate k w s i).info = match i with | some x => some x | none => k.info) := ⟨rfl, rfl, rfl⟩

/-- the wrapper in force after a history of rotations is the last one supplied -/
def rotateAll (k : Keys) (rs : List (Option Nat × Option Nat × Option Nat)) : Keys :=
  rs.foldl (fun k r => rotate k r.1 r.2.1 r.2.2) k

theorem last_wrapper_wins (k : Keys) (rs : List (Option Nat × Option Nat × Option Nat)) (w : Nat) (s i : Option Nat) :
    (rotateAll k (rs ++ [(some w, s, i)])).wrapper = some w := by
  unfold rotateAll
  rw [List.foldl_append]
  simp [rotate]

/-- equal inputs under equal keys give equal results (the model is a function) -/
theorem deterministic (k : Keys) (ek : Option EventKeys) (ov : Overrides) (f g : Field)
    (h : f = g) : filterOne k ek ov f = filterOne k ek ov g := by rw [h]

example : (rotateAll ⟨some 1, some 1, none⟩ [(none, some 2, none), (some 3, none, none)]) = ⟨some 3, some 2, none⟩ := by decide

/-! ### one value under concurrent rotation -/

/-- the atomic steps on the filter's key material: a rotation (Rotate or a rotation payload), and the
protection of one value, which reads the material -/
inductive KOp
  | rot (w s i : Option Nat)
  | protect
  deriving DecidableEq, Repr, Inhabited

/-- the key material each protection saw, in any serialisation of the atomic steps -/
def seen : Keys → List KOp → List Keys
  | _, [] => []
  | k, .rot w s i :: rest => seen (rotate k w s i) rest
  | k, .protect :: rest => k :: seen k rest

/-- the key material in force at some moment: after each prefix of the steps -/
def inForce : Keys → List KOp → List Keys
  | k, [] => [k]
  | k, .rot w s i :: rest => k :: inForce (rotate k w s i) rest
  | k, .protect :: rest => inForce k rest

theorem inForce_head (k : Keys) (ops : List KOp) : k ∈ inForce k ops := by
  induction ops generalizing k with
  | nil => simp [inForce]
  | cons op rest ih =>
    cases op with
    | rot w s i => simp [inForce]
    | protect => simpa [inForce] using ih k

/-- **Wholly old or wholly new.**  Whatever the interleaving of rotations and protections (given that
each is one atomic step, `atomic_on_source`), every value is protected under the complete key
material left by some prefix of the rotations: never a wrapper of one rotation with the salt or
info of another. -/
theorem under_material_in_force (k : Keys) (ops : List KOp) : ∀ x ∈ seen k ops, x ∈ inForce k ops := by
  induction ops generalizing k with
  | nil => intro x hx; simp [seen] at hx
  | cons op rest ih =>
    cases op with
    | rot w s i =>
      intro x hx
      simp only [seen] at hx
      simp only [inForce, List.mem_cons]
      exact Or.inr (ih _ x hx)
    | protect =>
      intro x hx
      simp only [seen, List.mem_cons] at hx
      simp only [inForce]
      rcases hx with hx | hx
      · subst hx; exact inForce_head _ rest
      · exact ih _ x hx

/-- with one rotation in flight a value is under the old or the new material -/
theorem old_or_new (k : Keys) (w s i : Option Nat) (a b : Nat) :
    ∀ x ∈ seen k (List.replicate a .protect ++ [.rot w s i] ++ List.replicate b .protect), x = k ∨ x = rotate k w s i := by
  intro x hx
  have := under_material_in_force k _ x hx
  have hin : ∀ (n : Nat) (k' : Keys) (tl : List KOp), inForce k' (List.replicate n KOp.protect ++ tl) = inForce k' tl := by
    intro n; induction n with
    | zero => intro k' tl; rfl
    | succ n ih => intro k' tl; simp only [List.replicate_succ, List.cons_append, inForce]; exact ih k' tl
  rw [List.append_assoc, hin] at this
  simp only [List.cons_append, List.nil_append, inForce] at this
  have h2 := hin b (rotate k w s i) []
  simp only [List.append_nil] at h2
  rw [h2] at this
  simpa [inForce] using this

/-- the premise on the current source (regenerated on every run) -/
theorem atomic_on_source : Evl.Generated.encryptFacts =
    { rotateOneSection := true, rotationPayloadOneSection := true, rotationPayloadConsumed := true,
      encryptOneSection := true, hmacSha256OneSection := true } := by decide

example : seen ⟨some 1, some 1, some 1⟩ [.protect, .rot (some 2) (some 2) (some 2), .protect] =
    [⟨some 1, some 1, some 1⟩, ⟨some 2, some 2, some 2⟩] := by decide

end Evl.C16
