import Evl.Model.Encrypt
/-!
# C16 — encrypted and HMAC-ed values are correct under the key in force, across rotation

Model: M7's key material (`Keys`, `EventKeys`, `rotate`, `keyFor` / `saltFor` / `infoFor`).  That an
`enc key m` leaf decrypts to `m` and a `mac key salt info m` leaf equals HMAC-SHA256 of `m` under
HKDF(key, salt, info) is what the harness establishes for every produced value with independent
code (go-kms-wrapping's AEAD Decrypt with the candidate key, x/crypto/hkdf + crypto/hmac): a leaf is
only canonicalised to `E<key>…` / `M<key>…` if that succeeds.  The atomicity of one value under
concurrent rotation is the lock-set fact that encrypt / hmacSha256 read the triple inside one
critical section on Filter.l (C19's table, group 5).
Assumed: AEAD decrypt ∘ encrypt = id, HKDF and HMAC themselves.
-/
namespace Evl.C16
open Evl.Encrypt

/-- every encrypted value uses the per-event wrapper derived from the filter's wrapper and the event
id when the payload carries event wrapper info, the filter's wrapper otherwise; every HMAC uses the
same key with the per-event salt / info when non-nil, else the filter's -/
theorem key_in_force (k : Keys) (ek : Option EventKeys) (ov : Overrides) (f : Field) (m : Nat) (o : FOut)
    (hex : f.exported = true) (hk : f.kind = .str m) (h : filterOne k ek ov f = some o) :
    (action (fromTag f.tag ov) = .encrypt → ∃ key, keyFor k ek = some key ∧ o = .one (.enc key m)) ∧
    (action (fromTag f.tag ov) = .hmac → ∃ key, keyFor k ek = some key ∧ o = .one (.mac key (saltFor k ek) (infoFor k ek) m)) := by
  unfold filterOne at h
  simp only [hex, Bool.not_true, Bool.false_eq_true, if_false, hk] at h
  constructor
  · intro ha
    simp only [ha, filterLeaf] at h
    cases hkey : keyFor k ek with
    | none => simp [hkey] at h
    | some key => simp [hkey] at h; exact ⟨key, rfl, h.symm⟩
  · intro ha
    simp only [ha, filterLeaf] at h
    cases hkey : keyFor k ek with
    | none => simp [hkey] at h
    | some key => simp [hkey] at h; exact ⟨key, rfl, h.symm⟩

/-- precedence of per-event values -/
theorem per_event_precedence (k : Keys) (e : EventKeys) :
    (∀ w id, e.derivedFrom = some (w, id) → keyFor k (some e) = some (w, some id)) ∧
    (∀ s, e.salt = some s → saltFor k (some e) = some s) ∧ (e.salt = none → saltFor k (some e) = k.salt) ∧
    (∀ i, e.info = some i → infoFor k (some e) = some i) ∧ (e.info = none → infoFor k (some e) = k.info) ∧
    keyFor k none = k.wrapper.map (·, none) ∧ saltFor k none = k.salt ∧ infoFor k none = k.info := by
  refine ⟨?_, ?_, ?_, ?_, ?_, rfl, rfl, rfl⟩
  · intro w id h; simp [keyFor, h]
  · intro s h; simp [saltFor, h]
  · intro h; simp [saltFor, h]
  · intro i h; simp [infoFor, h]
  · intro h; simp [infoFor, h]

/-- Rotate / a rotation payload: every supplied component is the one used afterwards, every absent
one keeps its previous value; this holds after any sequence of rotations -/
theorem rotation (k : Keys) (w s i : Option Nat) :
    ((rotate k w s i).wrapper = match w with | some x => some x | none => k.wrapper) ∧
    ((rotate k w s i).salt = match s with | some x => some x | none => k.salt) ∧
    ((rotate k w s i).info = match i with | some x => some x | none => k.info) := ⟨rfl, rfl, rfl⟩

/-- the wrapper in force after a history of rotations is the last one supplied -/
def rotateAll (k : Keys) (rs : List (Option Nat × Option Nat × Option Nat)) : Keys :=
  rs.foldl (fun k r => rotate k r.1 r.2.1 r.2.2) k

theorem last_wrapper_wins (k : Keys) (rs : List (Option Nat × Option Nat × Option Nat)) (w : Nat) (s i : Option Nat) :
    (rotateAll k (rs ++ [(some w, s, i)])).wrapper = some w := by
  unfold rotateAll
  rw [List.foldl_append]
  simp [rotate]

/-- equal inputs under equal keys give equal results (the model is a function) -/
theorem deterministic (k : Keys) (ek : Option EventKeys) (ov : Overrides) (f g : Field)
    (h : f = g) : filterOne k ek ov f = filterOne k ek ov g := by rw [h]

example : (rotateAll ⟨some 1, some 1, none⟩ [(none, some 2, none), (some 3, none, none)]) = ⟨some 3, some 2, none⟩ := by decide

end Evl.C16
