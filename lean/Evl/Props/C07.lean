import Evl.Lemmas.RegistryClose
import Evl.Generated.RegistryFacts
/-!
# C07 — overwrite policy: DenyOverwrite is sticky, AllowOverwrite swaps

Model: M1 `Registry`.  The history clauses are stated for one arbitrary operation from an arbitrary
state satisfying the registry invariant (every reachable state does: `Evl.Registry.inv_run`), hence
by induction for every history.  The clause "each Send is processed by exactly one version of an
overwritten pipeline, the new one once the call returned" is about schedules; its logical content
is `one_version` (a key has at most one entry in every reachable state, and an overwrite is one
list update — one `sync.Map.Store` in the source, checked by the regenerated fact
`regPipeSingleStore`); the schedule part is exercised by the marker-node race harness.
-/
namespace Evl.C07
open Evl.Registry

/-- A node id registered with DenyOverwrite refuses every later registration; nothing changes. -/
theorem deny_node_refuses (b : Broker) (id ty : Nat) (beh : Beh) (cf : Bool) (pol : Pol) (e : NodeEntry)
    (hl : lookupNode b.nodes id = some e) (hd : e.deny = true) :
    (step b (.regNode id ty beh cf pol)).1 = b ∧ ∃ err, (step b (.regNode id ty beh cf pol)).2 = .err err := by
  show (stepRegNode b id ty beh cf pol).1 = b ∧ ∃ err, (stepRegNode b id ty beh cf pol).2 = .err err
  unfold stepRegNode
  split
  · exact ⟨rfl, _, rfl⟩
  split
  · exact ⟨rfl, _, rfl⟩
  simp [hl, hd]

/-- The Deny-registered instance stays registered (same instance, still Deny) across *any*
operation, until an operation closes that very instance (RemoveNode / RemovePipelineAndNodes). -/
theorem deny_node_sticky (b : Broker) (hi : Inv b) (op : Op) (id : Nat) (e : NodeEntry)
    (hm : (id, e) ∈ b.nodes) (hd : e.deny = true) :
    (∃ e', (id, e') ∈ (step b op).1.nodes ∧ e'.inst = e.inst ∧ e'.deny = true) ∨
    e.inst ∈ closedOf (step b op).2 := by
  have hl : lookupNode b.nodes id = some e := lookupNode_of_mem hi.nkeys hm
  have keep : ∀ b' : Broker, b'.nodes = b.nodes →
      (∃ e', (id, e') ∈ b'.nodes ∧ e'.inst = e.inst ∧ e'.deny = true) ∨ e.inst ∈ closedOf (step b op).2 :=
    fun b' h => Or.inl ⟨e, by rw [h]; exact hm, rfl, hd⟩
  have relOld : ∀ o : Option Pipe, ∃ e', (id, e') ∈ releaseOld b.nodes o ∧ e'.inst = e.inst ∧ e'.deny = true := by
    intro o
    cases o with
    | none => exact ⟨e, hm, rfl, hd⟩
    | some o =>
      refine ⟨_, mem_release.mpr ⟨e, hm, rfl⟩, ?_, ?_⟩ <;> split <;> first | rfl | exact hd
  cases op with
  | regNode id2 ty beh cf pol =>
    left
    show ∃ e', (id, e') ∈ (stepRegNode b id2 ty beh cf pol).1.nodes ∧ _
    unfold stepRegNode
    split
    · exact ⟨e, hm, rfl, hd⟩
    split
    · exact ⟨e, hm, rfl, hd⟩
    simp only
    split
    · exact ⟨e, hm, rfl, hd⟩
    · rename_i refs hc
      have hne : id ≠ id2 := by
        intro heq
        subst heq
        rw [hl] at hc
        simp [hd] at hc
      exact ⟨e, mem_putNode.mpr (Or.inl ⟨hm, hne⟩), rfl, hd⟩
  | removeNode id2 =>
    show (∃ e', (id, e') ∈ (stepRemoveNode b id2).1.nodes ∧ _) ∨ e.inst ∈ closedOf (stepRemoveNode b id2).2
    unfold stepRemoveNode
    split
    · exact Or.inl ⟨e, hm, rfl, hd⟩
    cases hl2 : lookupNode b.nodes id2 with
    | none => exact Or.inl ⟨e, hm, rfl, hd⟩
    | some e2 =>
      simp only
      split
      · exact Or.inl ⟨e, hm, rfl, hd⟩
      · by_cases hii : id = id2
        · right
          subst hii
          rw [hl] at hl2
          injection hl2 with hl2
          subst hl2
          simp [closedOf]
        · left
          exact ⟨e, mem_eraseNode.mpr ⟨hm, hii⟩, rfl, hd⟩
  | regPipe ty pid ids pol =>
    left
    show ∃ e', (id, e') ∈ (stepRegPipe b ty pid ids pol).1.nodes ∧ _
    unfold stepRegPipe
    split
    · exact ⟨e, hm, rfl, hd⟩
    split
    · exact ⟨e, hm, rfl, hd⟩
    simp only
    split
    · exact ⟨e, hm, rfl, hd⟩
    split
    · exact ⟨e, hm, rfl, hd⟩
    split
    · exact ⟨e, hm, rfl, hd⟩
    · obtain ⟨e1, h1, h2, h3⟩ := relOld (lookupPipe b.pipes ty pid)
      refine ⟨_, mem_acquire.mpr ⟨e1, h1, rfl⟩, ?_, ?_⟩ <;> split <;> first | exact h2 | exact h3
  | removePipe ty pid =>
    left
    show ∃ e', (id, e') ∈ (stepRemovePipe b ty pid).1.nodes ∧ _
    unfold stepRemovePipe
    split
    · exact ⟨e, hm, rfl, hd⟩
    split
    · exact ⟨e, hm, rfl, hd⟩
    split
    · exact ⟨e, hm, rfl, hd⟩
    · exact relOld _
  | rpan ty pid =>
    show (∃ e', (id, e') ∈ (stepRpan b ty pid).1.nodes ∧ _) ∨ e.inst ∈ closedOf (stepRpan b ty pid).2
    unfold stepRpan
    split
    · exact Or.inl ⟨e, hm, rfl, hd⟩
    split
    · exact Or.inl ⟨e, hm, rfl, hd⟩
    split
    · exact Or.inl ⟨e, hm, rfl, hd⟩
    split
    · exact Or.inl ⟨e, hm, rfl, hd⟩
    · rename_i o _
      simp only [closedOf]
      by_cases hg : o.ids.contains id = true ∧ e.refs ≤ 1
      · right
        apply List.mem_map.mpr
        refine ⟨(id, e), ?_, rfl⟩
        unfold detachAll
        simp only [List.mem_filter, Bool.and_eq_true, decide_eq_true_eq]
        exact ⟨hm, hg⟩
      · left
        refine ⟨_, mem_detach_kept.mpr ⟨e, hm, hg, rfl⟩, ?_, ?_⟩ <;> split <;> first | rfl | exact hd
  | setThr ty n =>
    show (∃ e', (id, e') ∈ (stepSetThr b ty n).1.nodes ∧ _) ∨ _
    unfold stepSetThr
    split
    · exact Or.inl ⟨e, hm, rfl, hd⟩
    split <;> exact Or.inl ⟨e, hm, rfl, hd⟩
  | setThrSinks ty n =>
    show (∃ e', (id, e') ∈ (stepSetThrSinks b ty n).1.nodes ∧ _) ∨ _
    unfold stepSetThrSinks
    split
    · exact Or.inl ⟨e, hm, rfl, hd⟩
    split <;> exact Or.inl ⟨e, hm, rfl, hd⟩
  | getThr ty =>
    show (∃ e', (id, e') ∈ (stepGetThr b ty).1.nodes ∧ _) ∨ _
    unfold stepGetThr; split <;> exact Or.inl ⟨e, hm, rfl, hd⟩
  | getThrSinks ty =>
    show (∃ e', (id, e') ∈ (stepGetThrSinks b ty).1.nodes ∧ _) ∨ _
    unfold stepGetThrSinks; split <;> exact Or.inl ⟨e, hm, rfl, hd⟩
  | isAny ty => exact Or.inl ⟨e, hm, rfl, hd⟩
  | send ty =>
    show (∃ e', (id, e') ∈ (stepSend b ty).1.nodes ∧ _) ∨ _
    unfold stepSend; split <;> exact Or.inl ⟨e, hm, rfl, hd⟩
  | reopen f => exact Or.inl ⟨e, hm, rfl, hd⟩

/-- A pipeline registered with DenyOverwrite refuses every later registration under its key. -/
theorem deny_pipe_refuses (b : Broker) (ty pid : Nat) (ids : List Nat) (pol : Pol) (o : Pipe)
    (hl : lookupPipe b.pipes ty pid = some o) (hd : o.deny = true) :
    (step b (.regPipe ty pid ids pol)).1.pipes = b.pipes ∧ (step b (.regPipe ty pid ids pol)).1.nodes = b.nodes ∧
    ∃ err, (step b (.regPipe ty pid ids pol)).2 = .err err := by
  show (stepRegPipe b ty pid ids pol).1.pipes = _ ∧ (stepRegPipe b ty pid ids pol).1.nodes = _ ∧ ∃ err, (stepRegPipe b ty pid ids pol).2 = .err err
  unfold stepRegPipe
  split
  · exact ⟨rfl, rfl, _, rfl⟩
  split
  · exact ⟨rfl, rfl, _, rfl⟩
  simp [hl, hd]

/-- The Deny-registered pipeline stays registered, untouched, across any operation other than an
explicit removal of its own key. -/
theorem deny_pipe_sticky (b : Broker) (hi : Inv b) (op : Op) (p : Pipe) (hm : p ∈ b.pipes) (hd : p.deny = true) :
    p ∈ (step b op).1.pipes ∨ op = .removePipe p.ty p.pid ∨ op = .rpan p.ty p.pid := by
  have hl := lookupPipe_of_mem hi.pkeys hm
  cases op with
  | regPipe ty pid ids pol =>
    left
    by_cases hk : (ty, pid) = key p
    · have h1 : ty = p.ty := congrArg Prod.fst hk
      have h2 : pid = p.pid := congrArg Prod.snd hk
      subst h1; subst h2
      rw [(deny_pipe_refuses b _ _ ids pol p hl hd).1]
      exact hm
    · show p ∈ (stepRegPipe b ty pid ids pol).1.pipes
      unfold stepRegPipe
      split
      · exact hm
      split
      · exact hm
      simp only
      split
      · exact hm
      split
      · exact hm
      split
      · exact hm
      · simp only
        rw [List.mem_append]
        left
        exact mem_erasePipe.mpr ⟨hm, fun h => hk h.symm⟩
  | removePipe ty pid =>
    by_cases hk : (ty, pid) = key p
    · right; left
      have h1 : ty = p.ty := congrArg Prod.fst hk
      have h2 : pid = p.pid := congrArg Prod.snd hk
      rw [h1, h2]
    · left
      show p ∈ (stepRemovePipe b ty pid).1.pipes
      unfold stepRemovePipe
      split
      · exact hm
      split
      · exact hm
      split
      · exact hm
      · exact mem_erasePipe.mpr ⟨hm, fun h => hk h.symm⟩
  | rpan ty pid =>
    by_cases hk : (ty, pid) = key p
    · right; right
      have h1 : ty = p.ty := congrArg Prod.fst hk
      have h2 : pid = p.pid := congrArg Prod.snd hk
      rw [h1, h2]
    · left
      show p ∈ (stepRpan b ty pid).1.pipes
      unfold stepRpan
      split
      · exact hm
      split
      · exact hm
      split
      · exact hm
      split
      · exact hm
      · exact mem_erasePipe.mpr ⟨hm, fun h => hk h.symm⟩
  | regNode id ty beh cf pol =>
    left
    show p ∈ (stepRegNode b id ty beh cf pol).1.pipes
    unfold stepRegNode
    split
    · exact hm
    split
    · exact hm
    simp only
    split <;> exact hm
  | removeNode id =>
    left
    show p ∈ (stepRemoveNode b id).1.pipes
    unfold stepRemoveNode
    split
    · exact hm
    split
    · exact hm
    split <;> exact hm
  | setThr ty n =>
    left
    show p ∈ (stepSetThr b ty n).1.pipes
    unfold stepSetThr
    split
    · exact hm
    split <;> exact hm
  | setThrSinks ty n =>
    left
    show p ∈ (stepSetThrSinks b ty n).1.pipes
    unfold stepSetThrSinks
    split
    · exact hm
    split <;> exact hm
  | getThr ty => left; show p ∈ (stepGetThr b ty).1.pipes; unfold stepGetThr; split <;> exact hm
  | getThrSinks ty => left; show p ∈ (stepGetThrSinks b ty).1.pipes; unfold stepGetThrSinks; split <;> exact hm
  | isAny ty => exact Or.inl hm
  | send ty => left; show p ∈ (stepSend b ty).1.pipes; unfold stepSend; split <;> exact hm
  | reopen f => exact Or.inl hm

/-- Under AllowOverwrite (the default) a node id can be re-registered, and the policy given then is
the one recorded; the reference count is carried over to the new instance. -/
theorem allow_node_overwrite (b : Broker) (hi : Inv b) (id ty : Nat) (beh : Beh) (cf : Bool) (pol : Pol) (e : NodeEntry)
    (hid : id ≠ 0) (hp : polValid pol = true)
    (hl : lookupNode b.nodes id = some e) (hd : e.deny = false) :
    (step b (.regNode id ty beh cf pol)).2 = .ok ∧
    lookupNode (step b (.regNode id ty beh cf pol)).1.nodes id =
      some { inst := b.nextInst, ty := ty, beh := beh, closeFails := cf, refs := e.refs, deny := polDeny pol } := by
  have hs : step b (.regNode id ty beh cf pol) =
      ({ b with nodes := putNode b.nodes id { inst := b.nextInst, ty := ty, beh := beh, closeFails := cf, refs := e.refs, deny := polDeny pol },
                nextInst := b.nextInst + 1 }, .ok) := by
    show stepRegNode b id ty beh cf pol = _
    unfold stepRegNode
    have h0 : (id == 0) = false := by simpa using hid
    simp [h0, hp, hl, hd]
  rw [hs]
  refine ⟨rfl, ?_⟩
  apply lookupNode_of_mem (keys_putNode_nodup hi.nkeys _ _)
  exact mem_putNode.mpr (Or.inr rfl)

/-- Under AllowOverwrite a pipeline can be re-registered (when the new definition is itself
acceptable) and the policy given then is the one recorded from there on. -/
theorem allow_pipe_overwrite (b : Broker) (ty pid : Nat) (ids : List Nat) (pol : Pol)
    (h : (step b (.regPipe ty pid ids pol)).2 = .ok) :
    ∃ p, lookupPipe (step b (.regPipe ty pid ids pol)).1.pipes ty pid = some p ∧
      p.deny = polDeny pol ∧ p.ids = ids := by
  revert h
  show (stepRegPipe b ty pid ids pol).2 = .ok → ∃ p, lookupPipe (stepRegPipe b ty pid ids pol).1.pipes ty pid = some p ∧ _
  unfold stepRegPipe
  split
  · intro h; cases h
  split
  · intro h; cases h
  simp only
  split
  · intro h; cases h
  cases hr : resolve b.nodes ids with
  | none => intro h; cases h
  | some bs =>
    simp only
    cases hv : validateChain none (bs.map (·.ty)) with
    | some e => intro h; cases h
    | none =>
      intro _
      refine ⟨{ ty := ty, pid := pid, nodes := bs, deny := polDeny pol }, ?_, rfl, resolve_ids hr⟩
      simp only
      unfold lookupPipe
      rw [List.find?_append]
      have : List.find? (fun p => p.ty == ty && p.pid == pid) (erasePipe b.pipes ty pid) = none := by
        rw [List.find?_eq_none]
        intro q hq
        have := (mem_erasePipe.mp hq).2
        exact fun hc => (key_ne_iff q ty pid).mpr this |> fun h2 => by simp [hc] at h2
      rw [this]
      simp

/-- Invalid policy values are rejected without any change. -/
theorem invalid_policy_rejected (b : Broker) :
    (∀ id ty beh cf, step b (.regNode id ty beh cf .invalid) = (b, .err .emptyId) ∨
                     step b (.regNode id ty beh cf .invalid) = (b, .err .badPolicy)) ∧
    (∀ ty pid ids, step b (.regPipe ty pid ids .invalid) = (b, .err .invalid) ∨
                   step b (.regPipe ty pid ids .invalid) = (b, .err .badPolicy)) := by
  constructor
  · intro id ty beh cf
    show stepRegNode b id ty beh cf .invalid = _ ∨ stepRegNode b id ty beh cf .invalid = _
    unfold stepRegNode
    split
    · exact Or.inl rfl
    · exact Or.inr (by simp [polValid])
  · intro ty pid ids
    show stepRegPipe b ty pid ids .invalid = _ ∨ stepRegPipe b ty pid ids .invalid = _
    unfold stepRegPipe
    split
    · exact Or.inl rfl
    · exact Or.inr (by simp [polValid])

/-- Re-registering a node id affects only pipelines registered afterwards: existing pipelines keep
the instances they were linked to. -/
theorem node_rebinding (b : Broker) (id ty : Nat) (beh : Beh) (cf : Bool) (pol : Pol) :
    (step b (.regNode id ty beh cf pol)).1.pipes = b.pipes := by
  show (stepRegNode b id ty beh cf pol).1.pipes = _
  unfold stepRegNode
  split
  · rfl
  split
  · rfl
  simp only
  split <;> rfl

/-- In every reachable state a pipeline key has exactly one version: a traversal of the type's
pipelines meets the old one or the new one, never both. -/
theorem one_version (ops : List Op) : ((run init ops).pipes.map key).Nodup :=
  (inv_run ops inv_init).pkeys

/-- ... on the source: an overwrite is one `Store` on a pipeline map that is exactly a `sync.Map` (one
field; `Range` / `Store` / `Delete` are one call on it each — nothing cached between a registration
and the Sends that follow it), never Delete-then-Store -/
theorem one_version_on_source :
    Evl.Generated.regPipeStores = 1 ∧ Evl.Generated.regPipeDeletes = 0 ∧ Evl.Generated.graphMapPlain = true := by decide

/-- Non-vacuity. -/
def demo : List Op :=
  [ .regNode 1 1 .pass false .deny, .regNode 2 2 .pass false .dflt, .regNode 3 3 .drop false .allow,
    .regPipe 1 1 [1, 2, 3] .deny ]
example : (step (run init demo) (.regNode 1 1 .drop false .allow)).2 = .err .deny := by decide
example : (step (run init demo) (.regNode 3 3 .pass false .deny)).2 = .ok := by decide
example : (step (run init demo) (.regPipe 1 1 [2, 3] .allow)).2 = .err .deny := by decide
example : (step (run init demo) (.regPipe 2 1 [2, 3] .allow)).2 = .ok := by decide
example : (step (run init (demo ++ [.removePipe 1 1])) (.regPipe 1 1 [2, 3] .allow)).2 = .ok := by decide

/-- **Option lists.** A call may carry several options: if any of them gives an invalid policy value
the call as a whole is invalid (and, by `invalid_policy_rejected`, refused with nothing changed) —
wherever in the list it stands and whatever follows it. -/
theorem invalid_option_anywhere (os : List PolOpt) (h : ∃ o ∈ os, o.pol = .invalid) : effPol os = .invalid := by
  induction os with
  | nil => obtain ⟨o, ho, _⟩ := h; simp at ho
  | cons o rest ih =>
    unfold effPol
    by_cases ho : o.pol = .invalid
    · simp [ho]
    · simp only [ho, if_false]
      obtain ⟨x, hx, hxi⟩ := h
      rw [List.mem_cons] at hx
      rcases hx with hx | hx
      · subst hx; exact absurd hxi ho
      · rw [ih ⟨x, hx, hxi⟩]

/-- … and a list with no invalid value is valid: it asks for the default or for what its last
own-kind option says -/
theorem valid_options (os : List PolOpt) (h : ∀ o ∈ os, o.pol ≠ .invalid) : effPol os ≠ .invalid := by
  induction os with
  | nil => simp [effPol]
  | cons o rest ih =>
    have h1 := h o (by simp)
    have h2 := ih (fun x hx => h x (by simp [hx]))
    unfold effPol
    simp only [h1, if_false]
    cases hr : effPol rest with
    | invalid => exact absurd hr h2
    | dflt => simp only; split <;> simp_all
    | allow => simp
    | deny => simp

example : effPol [⟨true, .invalid⟩, ⟨true, .deny⟩] = .invalid := by decide
example : effPol [⟨true, .allow⟩, ⟨false, .invalid⟩] = .invalid := by decide
example : effPol [⟨true, .deny⟩, ⟨false, .allow⟩, ⟨true, .dflt⟩] = .deny := by decide
example : effPol [⟨true, .deny⟩, ⟨true, .allow⟩] = .allow := by decide

end Evl.C07
