import Evl.Props.C19
/-! Negative witness of the known finding F7a (kept in its own module: if the defect is repaired this
module stops checking, which is reported as "finding no longer reproduces", not as a violation). -/
namespace Evl.C19Known
open Evl.Lockset Evl.Generated

/-- negative witness: with the escape-summary row the Event's format table is not disciplined, and it
is the only such location -/
theorem discipline_full_fails :
    disciplineOK accesses = false ∧ (violations accesses).map (fun l => locGroup.getD l 9) = [1] := by decide


end Evl.C19Known
