import Evl.Model.CloudEvents
/-!
# C18 — CloudEvents output is spec-conformant and, where required, verifiably signed

Model: M8b `CloudEvents` (validate / Process / sign) over M8's JSON renderer; the model's bytes are
compared byte for byte with what the formatter stores (compact and indented), and the harness
parses the document back, decodes `serialized` and checks what the signer was given.

**Known finding F8 (genuine defect, recorded, not repaired):** the content-type attribute is emitted
under the misspelt member name `datacontentype` (struct tag in formatter_filter.go) instead of the
CloudEvents attribute `datacontenttype`; the library's own tests pin the misspelt name, so the
repair cannot be made without editing them.  The model follows the code.
Assumed: `base62.Random` freshness of generated ids (checked for collisions within a run only).
-/
namespace Evl.C18
open Evl.CloudEvents Evl.Json

/-- invalid configurations and empty IDs are rejected with an error -/
theorem reject (c : Cfg) (e : Ev) (signer : Bytes → Option Bytes) (p : Evl.CloudEvents.Pred) :
    (c.nilFilter = false → c.source = none → process c e signer p = .error .missingSource) ∧
    (c.nilFilter = false → c.source = some [] → process c e signer p = .error .missingSource) ∧
    (c.nilFilter = false → ∀ s, c.source = some s → s ≠ [] → c.format = .invalid → process c e signer p = .error .badFormat) ∧
    (c.nilFilter = false → ∀ s, c.source = some s → s ≠ [] → c.format ≠ .invalid → c.schema = some [] →
        process c e signer p = .error .emptySchema) ∧
    (validate c = none → e.idIface = some [] → process c e signer p = .error .emptyId) := by
  refine ⟨?_, ?_, ?_, ?_, ?_⟩
  · intro h1 h2; simp [process, validate, h1, h2]
  · intro h1 h2; simp [process, validate, h1, h2]
  · intro h1 s h2 h3 h4
    have : s.isEmpty = false := by cases s <;> simp_all
    simp [process, validate, h1, h2, this, h4]
  · intro h1 s h2 h3 h4 h5
    have : s.isEmpty = false := by cases s <;> simp_all
    have h4' : (c.format == Format.invalid) = false := by cases hf : c.format <;> simp_all
    simp [process, validate, h1, h2, this, h4', h5]
  · intro h1 h2; simp [process, h1, h2]

/-- the id used: the payload's ID() or the generated one -/
def idOf (e : Ev) : Bytes := match e.idIface with | some i => i | none => e.freshId

/-- the unsigned document bytes for a valid configuration -/
def unsignedDoc (c : Cfg) (e : Ev) : Option Bytes :=
  encode (c.format == .text) (docToks (idOf e) (c.source.getD []) e.ty e.data
    (if c.format == .text then ctText else ctJSON) (c.schema.getD []) e.timeTok none)

theorem process_valid (c : Cfg) (e : Ev) (signer : Bytes → Option Bytes) (p : Evl.CloudEvents.Pred)
    (hv : validate c = none) (hid : e.idIface ≠ some []) (u : Bytes) (hu : unsignedDoc c e = some u) :
    process c e signer p =
      (let signedR : Option (Option Bytes) :=
        if c.hasSigner && c.signTypes.contains e.ty then
          match signer u with
          | none => none
          | some mac => some (encode (c.format == .text) (docToks (idOf e) (c.source.getD []) e.ty e.data
              (if c.format == .text then ctText else ctJSON) (c.schema.getD []) e.timeTok (some (b64 u, mac))))
        else some (some u)
       match signedR with
       | none => .error .sign
       | some none => .error .encode
       | some (some stored) =>
         match p with
         | .absent => .forward (if c.format == .text then 3 else 2) stored
         | .ret true => .forward (if c.format == .text then 3 else 2) stored
         | .ret false => .dropped (if c.format == .text then 3 else 2) stored
         | .err => .error .predicate) := by
  unfold process
  simp only [hv]
  unfold unsignedDoc idOf at hu
  cases hi : e.idIface with
  | none => simp only [hi] at hu ⊢; simp only [hu, idOf, hi]; rfl
  | some i =>
    have hne : i.isEmpty = false := by
      cases i with
      | nil => exact absurd hi hid
      | cons a as => rfl
    simp only [hi] at hu ⊢
    simp only [hne, Bool.false_eq_true, if_false, hu, idOf, hi]
    rfl

/-- **An event whose signing failed is not forwarded unsigned.** -/
theorem sign_failure (c : Cfg) (e : Ev) (signer : Bytes → Option Bytes) (p : Evl.CloudEvents.Pred)
    (hv : validate c = none) (hid : e.idIface ≠ some []) (u : Bytes) (hu : unsignedDoc c e = some u)
    (hs : c.hasSigner = true) (hl : c.signTypes.contains e.ty = true) (hf : signer u = none) :
    process c e signer p = .error .sign := by
  rw [process_valid c e signer p hv hid u hu]
  simp only [hs, hl, Bool.and_self, if_true, hf]

/-- **Signed documents are verifiable.** With a signer and a listed type, what is stored is the
document with `serialized` = base64url of the exact unsigned document and `serialized_hmac` = the
signer's result for those bytes. -/
theorem signed (c : Cfg) (e : Ev) (signer : Bytes → Option Bytes) (p : Evl.CloudEvents.Pred) (f : Nat) (stored : Bytes)
    (hv : validate c = none) (hid : e.idIface ≠ some []) (u : Bytes) (hu : unsignedDoc c e = some u)
    (hs : c.hasSigner = true) (hl : c.signTypes.contains e.ty = true)
    (hfw : process c e signer p = .forward f stored) :
    ∃ mac, signer u = some mac ∧
      some stored = encode (c.format == .text) (docToks (idOf e) (c.source.getD []) e.ty e.data
        (if c.format == .text then ctText else ctJSON) (c.schema.getD []) e.timeTok (some (b64 u, mac))) := by
  rw [process_valid c e signer p hv hid u hu] at hfw
  simp only [hs, hl, Bool.and_self, if_true] at hfw
  cases hm : signer u with
  | none => simp [hm] at hfw
  | some mac =>
    refine ⟨mac, rfl, ?_⟩
    simp only [hm] at hfw
    generalize encode (c.format == .text) (docToks (idOf e) (c.source.getD []) e.ty e.data
        (if c.format == .text then ctText else ctJSON) (c.schema.getD []) e.timeTok (some (b64 u, mac))) = enc at hfw ⊢
    cases enc with
    | none => simp at hfw
    | some s =>
      cases p with
      | absent => simp at hfw; rw [hfw.2]
      | ret k => cases k <;> simp at hfw; rw [hfw.2]
      | err => simp at hfw

/-- **Event types not listed are never signed** (nor is anything when no signer is configured): the
stored document is the unsigned one. -/
theorem unlisted_not_signed (c : Cfg) (e : Ev) (signer : Bytes → Option Bytes) (p : Evl.CloudEvents.Pred) (f : Nat) (stored : Bytes)
    (hv : validate c = none) (hid : e.idIface ≠ some []) (u : Bytes) (hu : unsignedDoc c e = some u)
    (hn : c.hasSigner = false ∨ c.signTypes.contains e.ty = false)
    (hfw : process c e signer p = .forward f stored) : stored = u := by
  rw [process_valid c e signer p hv hid u hu] at hfw
  have : (c.hasSigner && c.signTypes.contains e.ty) = false := by
    rcases hn with h | h
    · rw [h]; rfl
    · rw [h]; exact Bool.and_false _
  simp only [this, Bool.false_eq_true, if_false] at hfw
  cases p with
  | absent => simp at hfw; exact hfw.2.symm
  | ret k => cases k <;> simp at hfw; exact hfw.2.symm
  | err => simp at hfw

end Evl.C18
