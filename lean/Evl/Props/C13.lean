import Evl.Model.FileSink
import Evl.Model.Sinks
import Evl.Generated.LockSites
import Evl.Generated.SinkFacts
/-!
# C13 — sinks deliver exactly the bytes of their configured format, or report an error

Model: M9 `Sinks`.  Contiguity under concurrent Process calls is the regenerated fact that the
single `WriteTo` of writer.Sink and FileSink happens while the sink's own mutex is held exclusively
(`write_under_lock`, see also C19).  Labelled partial for wall-clock latency of ChannelSink (the
harness records it; `channel_exactly_one` states which outcomes are possible for which readiness).
-/
namespace Evl.C13
open Evl.Sinks

/-- writer.Sink reports success only after handing the writer exactly the bytes stored for its
configured format (JSON when unset) -/
theorem writer_success (wn en : Bool) (cfg : Nat) (t : Table) (w : WBeh) (b : Bytes)
    (h : writerProcess wn en cfg t w = .wrote b) :
    wn = false ∧ en = false ∧ format t (effFormat cfg) = some b ∧
    (b = [] ∨ w = .ok ∨ ∃ n, w = .short n ∧ b.length ≤ n) := by
  unfold writerProcess at h
  cases wn <;> cases en <;> simp only [Bool.false_eq_true, if_false, if_true] at h <;> try (cases h)
  cases hf : format t (effFormat cfg) with
  | none => simp [hf] at h
  | some v =>
    simp only [hf] at h
    by_cases hv : v.isEmpty = true
    · simp only [hv, if_true] at h
      injection h with h; subst h
      have : v = [] := by simpa using hv
      exact ⟨rfl, rfl, by rw [this], Or.inl rfl⟩
    · simp only [hv, if_false, Bool.false_eq_true] at h
      cases w with
      | ok => simp only at h; injection h with h; subst h; exact ⟨rfl, rfl, rfl, Or.inr (Or.inl rfl)⟩
      | fail => cases h
      | short n =>
        simp only at h
        split at h
        · cases h
        · injection h with h; subst h
          exact ⟨rfl, rfl, rfl, Or.inr (Or.inr ⟨n, rfl, by omega⟩)⟩

/-- ... and reports an error when the event carries no bytes for that format, the writer is missing,
or the underlying write fails or is short -/
theorem writer_error (wn en : Bool) (cfg : Nat) (t : Table) (w : WBeh) :
    (wn = true → writerProcess wn en cfg t w = .errNilWriter) ∧
    (wn = false → en = false → format t (effFormat cfg) = none → writerProcess wn en cfg t w = .errNotMarshaled) ∧
    (wn = false → en = false → ∀ v, format t (effFormat cfg) = some v → v ≠ [] →
        (w = .fail ∨ ∃ n, w = .short n ∧ n < v.length) → writerProcess wn en cfg t w = .errWrite) := by
  refine ⟨?_, ?_, ?_⟩
  · intro h; simp [writerProcess, h]
  · intro h1 h2 h3; simp [writerProcess, h1, h2, h3]
  · intro h1 h2 v h3 hne h4
    have hv : v.isEmpty = false := by cases v <;> simp_all
    simp only [writerProcess, h1, h2, h3, hv]
    rcases h4 with h4 | ⟨n, h4, h5⟩
    · simp [h4]
    · simp [h4, h5]

/-- the format table is last-writer-wins -/
theorem table_lww (t : Table) (f g : Nat) (v : Bytes) :
    format (formattedAs t f v) g = if g = f then some v else format t g := by
  unfold format formattedAs
  rw [List.find?_append]
  by_cases hgf : g = f
  · subst hgf
    have : List.find? (fun x => x.1 == g) (List.filter (fun x => x.1 != g) t) = none := by
      rw [List.find?_eq_none]
      intro x hx
      have := (List.mem_filter.mp hx).2
      simpa using this
    simp [this]
  · simp only [hgf, if_false]
    have hfg : (f == g) = false := by simpa using fun h : f = g => hgf h.symm
    have : List.find? (fun x => x.1 == g) (List.filter (fun x => x.1 != f) t) = List.find? (fun x => x.1 == g) t := by
      induction t with
      | nil => rfl
      | cons x xs ih =>
        rw [List.filter_cons]
        by_cases hx : x.1 = f
        · have h1 : (x.1 != f) = false := by simp [hx]
          have h2 : (x.1 == g) = false := by rw [hx]; exact hfg
          simp only [h1, Bool.false_eq_true, if_false, List.find?_cons, h2]
          exact ih
        · have h1 : (x.1 != f) = true := by simp [hx]
          simp only [h1, if_true, List.find?_cons]
          cases (x.1 == g)
          · exact ih
          · rfl
    rw [this]
    cases List.find? (fun x => x.1 == g) t with
    | some y => rfl
    | none => simp [List.find?, hfg]

/-- the table after a history of `FormattedAs` calls, oldest first -/
def writes (t : Table) (ws : List (Nat × Bytes)) : Table := ws.foldl (fun t w => formattedAs t w.1 w.2) t

/-- the abstract specification: a format name maps to the value of the last call that named it -/
def lastWrite (ws : List (Nat × Bytes)) (g : Nat) : Option Bytes := (ws.reverse.find? (fun w => w.1 == g)).map (·.2)

/-- **Refinement to a plain map, for every history**: after any sequence of `FormattedAs` calls
`Format g` yields the value of the last call that named `g`, whatever came between, and what the
table held before when no call named it.  (`table_lww` is the one-step case.) -/
theorem table_history (t : Table) (ws : List (Nat × Bytes)) (g : Nat) :
    format (writes t ws) g = (lastWrite ws g).or (format t g) := by
  induction ws generalizing t with
  | nil => simp [writes, lastWrite]
  | cons w ws ih =>
    have hstep : writes t (w :: ws) = writes (formattedAs t w.1 w.2) ws := rfl
    rw [hstep, ih, table_lww]
    unfold lastWrite
    rw [List.reverse_cons, List.find?_append]
    cases hf : List.find? (fun x => x.1 == g) ws.reverse with
    | some y => simp
    | none =>
      by_cases h : g = w.1
      · simp [h]
      · have : (w.1 == g) = false := by simpa using fun e : w.1 = g => h e.symm
        simp [h, this]

/-- **At most one value per format, for every history**: no sequence of `FormattedAs` calls leaves
two entries under one format name (so no reader can ever see a stale value behind a fresh one). -/
theorem table_keys_nodup (t : Table) (ws : List (Nat × Bytes)) (h : (t.map (·.1)).Nodup) :
    ((writes t ws).map (·.1)).Nodup := by
  induction ws generalizing t with
  | nil => exact h
  | cons w ws ih =>
    have hstep : writes t (w :: ws) = writes (formattedAs t w.1 w.2) ws := rfl
    rw [hstep]
    apply ih
    unfold formattedAs
    rw [List.map_append, List.nodup_append]
    refine ⟨?_, by simp, ?_⟩
    · exact (h.sublist ((List.filter_sublist).map _))
    · intro a ha b hb
      simp only [List.map_cons, List.map_nil, List.mem_singleton] at hb
      subst hb
      obtain ⟨x, hx, rfl⟩ := List.mem_map.mp ha
      have := (List.mem_filter.mp hx).2
      simpa using this

/-- formatters for different formats do not disturb each other: in whichever order two of them store
their bytes, every sink reads the same -/
theorem table_commutes (t : Table) (a b : Nat × Bytes) (h : a.1 ≠ b.1) (g : Nat) :
    format (writes t [a, b]) g = format (writes t [b, a]) g := by
  simp only [writes, List.foldl_cons, List.foldl_nil, table_lww]
  by_cases h1 : g = a.1 <;> by_cases h2 : g = b.1 <;> simp_all

/-- storing a format again replaces the entry, it does not add one: a formatter that runs twice (the
same node in two pipelines of one event) leaves the table as after one run -/
theorem table_idempotent (t : Table) (f : Nat) (v w : Bytes) :
    formattedAs (formattedAs t f v) f w = formattedAs t f w := by
  simp [formattedAs, List.filter_append, List.filter_filter]

/-- an event formatted by nobody has bytes for no format: every sink refuses it -/
theorem table_empty (g : Nat) : format [] g = none := rfl

example : format (writes [] [(1, [7]), (2, [8]), (1, [9])]) 1 = some [9] ∧
    writes [] [(1, [7]), (2, [8]), (1, [9])] = [(2, [8]), (1, [9])] := by decide

/-- FileSink's special paths: /dev/null succeeds without looking at the event; stdout / stderr are a
pass-through of the configured format's bytes -/
theorem filesink_specials (cfg : Nat) (t : Table) :
    fileSinkSpecial 1 cfg t = some .nothing ∧
    (∀ v, format t (effFormat cfg) = some v → fileSinkSpecial 2 cfg t = some (.wrote v)) ∧
    (format t (effFormat cfg) = none → fileSinkSpecial 2 cfg t = some .errNotMarshaled) := by
  refine ⟨rfl, ?_, ?_⟩
  · intro v h; simp [fileSinkSpecial, h]
  · intro h; simp [fileSinkSpecial, h]

/-- ChannelSink: the single select yields exactly one of {sent, context error, timeout error}, and
only an outcome whose arm is ready; if some arm is ready the select does not block -/
theorem channel_exactly_one (cr cd to : Bool) (o : ChanOut) :
    (o ∈ chanOutcomes cr cd to ↔ (o = .sent ∧ cr = true) ∨ (o = .ctxErr ∧ cd = true) ∨ (o = .timeoutErr ∧ to = true)) ∧
    ((cr || cd || to) = true → chanOutcomes cr cd to ≠ []) := by
  cases cr <;> cases cd <;> cases to <;> cases o <;> simp [chanOutcomes]

/-- the sinks' single WriteTo happens under their own mutex, exclusively (regenerated fact) -/
theorem write_under_lock : Evl.Generated.sinkWrites.all (·.2) = true ∧
    (Evl.Generated.sinkWrites.any (·.1 == 0)) = true ∧ (Evl.Generated.sinkWrites.any (·.1 == 1)) = true := by decide

/-- ChannelSink hands the event over in a single select that also watches the context and the
timeout, so whichever becomes ready first ends the call (regenerated from channel_sink.go) -/
theorem channel_single_select : Evl.Generated.channelSelects = 1 ∧ Evl.Generated.channelSendWithCtx = true ∧
    Evl.Generated.channelSendWithTimer = true ∧ Evl.Generated.channelUnguardedSends = 0 := by decide

example : writerProcess false false 0 [(1, [7, 8])] .ok = .wrote [7, 8] := by decide
example : writerProcess false false 5 [(1, [7, 8])] .ok = .errNotMarshaled := by decide
example : writerProcess false false 0 [(1, [7, 8])] (.short 1) = .errWrite := by decide


/-- FileSink on a regular file: an event that has no bytes for the sink's format is refused ("event
was not marshaled") before the file is even looked at — no file is created, opened, rotated or
written, no counter moves -/
theorem filesink_refuses_unformatted (c : Evl.FileSink.Cfg) (s : Evl.FileSink.St) :
    Evl.FileSink.step c s .noFormat = (s, .errFormat) := rfl

end Evl.C13
