import Evl.Model.NodeClose
import Evl.Generated.Decisions
/-!
# Closing a registered node (C06, C12)

`close_spec`: with the cases of `NodeController.Close` as they are in the source (regenerated:
`close_on_source`), for every node shape — any nesting of wrappers — the loop returns, within as many
iterations as the nesting is deep (C12: the call that closes a node returns), and what it closes is
`target`: **the registered node's own `Close` when it is a Closer, decorator or not** (C06: it is the
node registered under the id that is closed, once), otherwise the first Closer found by unwrapping,
nothing for a wrapper that holds nothing.
-/
namespace Evl.NodeClose

theorem close_spec : ∀ (s : Shape) (fuel : Nat), depth s + 1 ≤ fuel → closeLoop sourceCases fuel (some s) = some (target s)
  | .plain, fuel, h => by
    obtain ⟨f, rfl⟩ : ∃ f, fuel = f + 1 := ⟨fuel - 1, by simp only [depth] at h; omega⟩
    simp [closeLoop, sourceCases, isCloser, isUnwrapper, target, List.find?]
  | .closer id, fuel, h => by
    obtain ⟨f, rfl⟩ : ∃ f, fuel = f + 1 := ⟨fuel - 1, by simp only [depth] at h; omega⟩
    simp [closeLoop, sourceCases, isCloser, target, List.find?]
  | .closerWrapper id inner, fuel, h => by
    obtain ⟨f, rfl⟩ : ∃ f, fuel = f + 1 := ⟨fuel - 1, by cases inner <;> simp only [depth] at h <;> omega⟩
    simp [closeLoop, sourceCases, isCloser, target, List.find?]
  | .wrapper none, fuel, h => by
    obtain ⟨f, rfl⟩ : ∃ f, fuel = f + 1 := ⟨fuel - 1, by simp only [depth] at h; omega⟩
    obtain ⟨g, rfl⟩ : ∃ g, f = g + 1 := ⟨f - 1, by simp only [depth] at h; omega⟩
    simp [closeLoop, sourceCases, isCloser, isUnwrapper, target, List.find?]
  | .wrapper (some s), fuel, h => by
    obtain ⟨f, rfl⟩ : ∃ f, fuel = f + 1 := ⟨fuel - 1, by simp only [depth] at h; omega⟩
    have ih := close_spec s f (by simp only [depth] at h; omega)
    unfold sourceCases at ih
    simp [closeLoop, sourceCases, isCloser, isUnwrapper, target, List.find?, ih]

/-- **The call returns** (C12), for every node shape: some number of iterations is enough. -/
theorem close_returns (s : Shape) : ∃ fuel r, closeLoop sourceCases fuel (some s) = some r :=
  ⟨depth s + 1, target s, close_spec s _ (Nat.le_refl _)⟩

/-- **It is the registered node that is closed** (C06): a registered Closer — also one that decorates
another node and says so — gets its own Close called, not the node inside. -/
theorem closes_registered_node (id : Nat) (inner : Option Shape) (fuel : Nat) (h : 2 ≤ fuel) :
    closeLoop sourceCases fuel (some (.closerWrapper id inner)) = some (some id) := by
  obtain ⟨f, rfl⟩ : ∃ f, fuel = f + 1 := ⟨fuel - 1, by omega⟩
  simp [closeLoop, sourceCases, isCloser, List.find?]

def actOf : String → Act
  | "close" => .close | "unwrap" => .unwrap | "stop" => .stop | _ => .other

/-- the model's cases are the source's (regenerated from node.go on every run) -/
theorem close_on_source : Evl.Generated.closeSwitch.map (fun c => (c.1, actOf c.2)) = sourceCases := by decide

/-- what the two seeded changes of round 13 look like in the model: with the NodeUnwrapper case first a
decorator's own Close is skipped; with a clause that is neither close, unwrap nor stop the loop is not
shown to return -/
example : closeLoop [("NodeUnwrapper", .unwrap), ("Closer", .close), ("default", .stop)] 5 (some (.closerWrapper 1 (some (.closer 2)))) = some (some 2) := by
  decide
example : closeLoop [("Closer", .close), ("NodeUnwrapper", .other), ("default", .stop)] 5 (some (.wrapper none)) = none := by decide
example : closeLoop sourceCases 5 (some (.wrapper (some (.wrapper (some (.closerWrapper 7 none)))))) = some (some 7) := by decide

end Evl.NodeClose
