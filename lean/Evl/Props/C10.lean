import Evl.Props.C09
/-!
# C10 — encrypt.Filter works on a private copy: the original event stays untouched

In a functional model "the input is not modified" holds by construction, so for that clause the
correspondence *is* the evidence: on every case of the C09 runs (flat and deep shapes) the harness
compares a deep snapshot of the payload taken before Process with the payload after Process, checks
that the forwarded payload has the same dynamic type, and (deep shapes) that container lengths,
map keys, non-string values and public values are preserved.  Labelled **partial**: Go-level
aliasing is outside the value model.  The theorem part is about flat structs: `shape` and `identity`.
-/
namespace Evl.C10
open Evl.Encrypt

/-- unexported fields, non-string fields, nil byte slices, public slices and values resolved to
"keep" (public, or operation overridden to none) come out unchanged -/
theorem shape (k : Keys) (ek : Option EventKeys) (ov : Overrides) (f : Field) (o : FOut)
    (h : filterOne k ek ov f = some o) :
    (f.exported = false → o = rawField f.kind) ∧
    (f.kind = .other → o = .one .other) ∧
    (f.kind = .bytes none → o = .one .nilBytes) ∧
    (∀ m, f.exported = true → (f.kind = .str m ∨ f.kind = .bytes (some m)) → action (fromTag f.tag ov) = .keep → o = .one (.plain m)) ∧
    ((fromTag f.tag ov).cls = .pub → o = rawField f.kind) := by
  unfold filterOne at h
  refine ⟨?_, ?_, ?_, ?_, ?_⟩
  · intro hex; simp [hex] at h; exact h.symm
  · intro hk
    cases hex : f.exported <;> simp [hex, hk, rawField] at h <;> exact h.symm
  · intro hk
    cases hex : f.exported <;> simp [hex, hk, rawField] at h <;> exact h.symm
  · intro m hex hk ha
    rcases hk with hk | hk <;> simp [hex, hk, ha, filterLeaf] at h <;> exact h.symm
  · intro hp
    have hkeep : action (fromTag f.tag ov) = .keep := by simp [action, hp]
    cases hex : f.exported
    · simp [hex] at h; exact h.symm
    · cases hk : f.kind <;> simp [hex, hk, hp, hkeep, filterLeaf, rawField] at h ⊢ <;> first | exact h.symm | (rename_i m; cases m <;> simp_all [rawField])

/-- a filtered slice keeps its length -/
theorem filterElems_length (k : Keys) (ek : Option EventKeys) (a : Action) :
    ∀ (ms : List (Option Nat)) (ls : List Leaf), filterElems k ek a ms = some ls → ls.length = ms.length := by
  intro ms
  induction ms with
  | nil => intro ls h; simp [filterElems] at h; subst h; rfl
  | cons x rest ih =>
    intro ls h
    cases x with
    | none =>
      simp only [filterElems] at h
      cases hr : filterElems k ek a rest with
      | none => simp [hr] at h
      | some ls' => simp [hr] at h; subst h; simp [ih ls' hr]
    | some m =>
      simp only [filterElems] at h
      cases hl : filterLeaf k ek a m with
      | none => simp [hl] at h
      | some l =>
        simp only [hl] at h
        cases hr : filterElems k ek a rest with
        | none => simp [hr] at h
        | some ls' => simp [hr] at h; subst h; simp [ih ls' hr]

theorem length_preserved (k : Keys) (ek : Option EventKeys) (fails : Bool) (ov : Overrides) (fs : List Field) (ls : List FOut)
    (h : processFlat k ek fails ov fs = .filtered ls) : ls.length = fs.length := by
  unfold processFlat at h
  split at h
  · cases h
  split at h
  · cases h
  split at h
  · cases h
  · cases hf : filterFields k ek ov fs with
    | none => simp [hf] at h
    | some ls' => simp [hf] at h; subst h; exact Evl.C09.filterFields_length k ek ov fs ls' hf

/-- with all operations overridden to none the very same event is forwarded -/
theorem identity (k : Keys) (ek : Option EventKeys) (fails : Bool) (ov : Overrides) (fs : List Field)
    (h : (effOps ov).all (· = .none) = true) : processFlat k ek fails ov fs = .same := by
  unfold processFlat; simp [h]


/-! ### nested payloads (M7t `EncryptTree`) -/
section Tree
open Evl.EncryptTree

/-- **Shape preserved at any depth.**  Whatever Process forwards has the input's skeleton: the same
constructors (pointer stays pointer, struct stays struct with the same fields in the same order,
slices and maps keep their lengths and keys, nil stays nil), a string / []byte position stays one,
every other scalar is untouched. -/
theorem tree_shape (c : Ctx) (ewi : Bool) (v v' : V) (h : process c ewi v = .filtered v') : skel v' = skel v :=
  filtPayload_skel c v v' (process_filtered h)

/-- with every operation overridden to none the very same event is forwarded -/
theorem tree_identity (c : Ctx) (ewi : Bool) (v : V) (h : ((effOps c.ov).all (· = .none)) = true) :
    process c ewi v = .same := by
  unfold process; simp [h]

end Tree

/-! ### Taggable maps (M7g `EncryptTag`) -/
section Tagged
open Evl.EncryptTree Evl.EncryptTag

/-- **A value classified public by its pointer tag is preserved.**  A string under a top-level key
that a pointer tag names `/k` with a keeping classification (public; or overridden to none), and that
no other kind of tag touches, comes out as it went in — whatever the other tags do elsewhere in the
map, in whatever order. -/
theorem tagged_public_preserved (c : Ctx) (ewi : Bool) (tags : List PTag) (es es' : Items) (k m : Nat)
    (hf : find k es = some (.leaf (.plain m)))
    (hk : onlyKept c k tags) (hex : ∃ t ∈ tags, t.path = [k])
    (h : processTagged c ewi tags es = .filtered (.map es')) : find k es' = some (.leaf (.plain m)) := by
  obtain ⟨s, es1, hs, he, hv⟩ := processTagged_filtered h
  injection hv with hv
  subst hv
  obtain ⟨f1, m1, c1⟩ := applyTags_key c k m tags _ s hk hs hf (by simp)
  obtain ⟨v', g1, g2⟩ := filtT_find c s.marks k _ s.es es' he f1
  have hm : s.marks.contains [k] = true := c1.mpr (Or.inr hex)
  rw [subMarks_of_heads k s.marks m1, hm] at g2
  simp only [filtTV, if_true, Option.some.injEq] at g2
  rw [g1, ← g2]

/-- **Shape preserved (Taggable maps).**  Whatever Process forwards for a Taggable map — any tags, any
order, found or not, through nested maps and pointers to maps — has the input's skeleton: the same
keys at every level, maps stay maps, pointers stay pointers, a string stays a string position, every
other value is untouched. -/
theorem tagged_shape (c : Ctx) (ewi : Bool) (tags : List PTag) (es : Items) (v' : V)
    (h : processTagged c ewi tags es = .filtered v') : skel v' = skel (.map es) := by
  obtain ⟨s, es', hs, he, rfl⟩ := processTagged_filtered h
  simp only [skel]
  rw [filtT_skel c s.marks false s.es es' he, applyTags_skel c tags _ s hs]

/-- with every operation overridden to none the very same event is forwarded -/
theorem tagged_identity (c : Ctx) (ewi : Bool) (tags : List PTag) (es : Items)
    (h : ((effOps c.ov).all (· = .none)) = true) : processTagged c ewi tags es = .same := by
  unfold processTagged; simp [h]

/-- non-vacuity -/
example : onlyKept Evl.C09.demoCtx 4 [{ path := [4], cls := sPublic, op := [] }, { path := [1], cls := sSecret, op := [] }] := by
  intro t ht hh
  simp only [List.mem_cons, List.mem_nil_iff, or_false] at ht
  rcases ht with rfl | rfl
  · exact ⟨rfl, by decide⟩
  · simp at hh
example : ∃ es', processTagged Evl.C09.demoCtx false [{ path := [4], cls := sPublic, op := [] }, { path := [1], cls := sSecret, op := [] }]
    Evl.C09.demoTagged = .filtered (.map es') ∧ find 4 es' = some (.leaf (.plain 5)) ∧ find 1 es' = some (.leaf .redacted) :=
  ⟨_, rfl, rfl, rfl⟩

end Tagged

end Evl.C10
