import Evl.Props.C09
/-!
# C10 — encrypt.Filter works on a private copy: the original event stays untouched

In a functional model "the input is not modified" holds by construction, so for that clause the
correspondence *is* the evidence: on every case of the C09 runs (flat and deep shapes) the harness
compares a deep snapshot of the payload taken before Process with the payload after Process, checks
that the forwarded payload has the same dynamic type, and (deep shapes) that container lengths,
map keys, non-string values and public values are preserved.  Labelled **partial**: Go-level
aliasing is outside the value model.  The theorem part is about flat structs: `shape` and `identity`.
-/
namespace Evl.C10
open Evl.Encrypt

/-- a filtered copy has one leaf per field; unexported fields, non-string fields, nil byte slices
and values resolved to "keep" (public, or operation overridden to none) come out unchanged -/
theorem shape (k : Keys) (ek : Option EventKeys) (ov : Overrides) (f : Field) (l : Leaf)
    (h : filterOne k ek ov f = some l) :
    (f.exported = false → l = (match f.kind with | .str m => .plain m | .bytes (some m) => .plain m | .bytes none => .nilBytes | .other => .other)) ∧
    (f.kind = .other → l = .other) ∧
    (f.kind = .bytes none → l = .nilBytes) ∧
    (∀ m, f.exported = true → (f.kind = .str m ∨ f.kind = .bytes (some m)) → action (fromTag f.tag ov) = .keep → l = .plain m) := by
  unfold filterOne at h
  refine ⟨?_, ?_, ?_, ?_⟩
  · intro hex; simp [hex] at h; exact h.symm
  · intro hk
    cases hex : f.exported <;> simp [hex, hk] at h <;> exact h.symm
  · intro hk
    cases hex : f.exported <;> simp [hex, hk] at h
    · exact h.symm
    · split at h <;> simp at h <;> exact h.symm
  · intro m hex hk ha
    rcases hk with hk | hk <;> simp [hex, hk, ha] at h <;> exact h.symm

theorem length_preserved (k : Keys) (ek : Option EventKeys) (fails : Bool) (ov : Overrides) (fs : List Field) (ls : List Leaf)
    (h : processFlat k ek fails ov fs = .filtered ls) : ls.length = fs.length := by
  unfold processFlat at h
  split at h
  · cases h
  split at h
  · cases h
  split at h
  · cases h
  · cases hf : filterFields k ek ov fs with
    | none => simp [hf] at h
    | some ls' => simp [hf] at h; subst h; exact Evl.C09.filterFields_length k ek ov fs ls' hf

/-- with all operations overridden to none the very same event is forwarded -/
theorem identity (k : Keys) (ek : Option EventKeys) (fails : Bool) (ov : Overrides) (fs : List Field)
    (h : (effOps ov).all (· = .none) = true) : processFlat k ek fails ov fs = .same := by
  unfold processFlat; simp [h]

end Evl.C10
