import Evl.Lemmas.RegistryInv
/-!
# C05 — only well-formed pipelines are ever registered; failed calls change nothing

Model: M1 `Registry`.  The acceptance theorem relates the code's recursive `doValidate`
(`validateChain`) plus the id / registration / policy checks of `RegisterPipeline` to the flat rule
of the statement, for every broker state, every id list of every length and every node-type
assignment (unknown node types included: they are just numbers other than 1–4).
-/
namespace Evl.C05
open Evl.Registry

/-- type of the node currently registered under `id` -/
def tyOf (b : Broker) (id : Nat) : Option Nat := (lookupNode b.nodes id).map (·.ty)

/-- The statement's acceptance rule. -/
def WellFormed (b : Broker) (ty pid : Nat) (ids : List Nat) (pol : Pol) : Prop :=
  pid ≠ 0 ∧ ty ≠ 0 ∧ ids ≠ [] ∧ 0 ∉ ids ∧
  (∀ id ∈ ids, (lookupNode b.nodes id).isSome = true) ∧
  (∃ pre f s, ids = pre ++ [f, s] ∧ tyOf b s = some 3 ∧ (tyOf b f = some 2 ∨ tyOf b f = some 4)) ∧
  (∀ o, lookupPipe b.pipes ty pid = some o → o.deny = false) ∧
  polValid pol = true

/-- flat form of `doValidate` on a chain -/
theorem validateChain_flat (tys : List Nat) (par : Option Nat) (hne : tys ≠ []) :
    validateChain par tys = none ↔
      (∃ pre f, tys = pre ++ [f, 3] ∧ (f = 2 ∨ f = 4)) ∨ (tys = [3] ∧ (par = some 2 ∨ par = some 4)) := by
  induction tys generalizing par with
  | nil => exact absurd rfl hne
  | cons t rest ih =>
    cases rest with
    | nil =>
      simp only [validateChain]
      constructor
      · intro h
        right
        by_cases ht : t = 3
        · subst ht
          cases par with
          | none => simp at h
          | some pt =>
            simp at h
            refine ⟨rfl, ?_⟩
            by_cases h2 : pt = 2
            · left; rw [h2]
            · right; rw [h h2]
        · have : (t != 3) = true := by simpa using ht
          simp [this] at h
      · rintro (⟨pre, f, h, _⟩ | ⟨h, hp⟩)
        · have := congrArg List.length h
          simp at this
        · injection h with h _
          subst h
          rcases hp with hp | hp <;> subst hp <;> simp
    | cons u rest' =>
      rw [validateChain_cons2, ih (some t) (by simp)]
      constructor
      · rintro (⟨pre, f, h, hf⟩ | ⟨h, hp⟩)
        · left; exact ⟨t :: pre, f, by rw [h]; rfl, hf⟩
        · left
          refine ⟨[], t, by rw [h]; rfl, ?_⟩
          rcases hp with hp | hp <;> injection hp with hp <;> simp [hp]
      · rintro (⟨pre, f, h, hf⟩ | ⟨h, _⟩)
        · cases pre with
          | nil =>
            simp at h
            right
            obtain ⟨h1, h2, h3⟩ := h
            subst h1; subst h2; subst h3
            refine ⟨rfl, ?_⟩
            rcases hf with hf | hf <;> simp [hf]
          | cons a pre' =>
            simp at h
            left
            exact ⟨pre', f, h.2, hf⟩
        · simp at h

theorem resolve_lookup {ns : List (Nat × NodeEntry)} {ids : List Nat} {bs : List Bound}
    (h : resolve ns ids = some bs) : ∀ x ∈ bs, (lookupNode ns x.id).map (·.ty) = some x.ty := by
  induction ids generalizing bs with
  | nil => simp [resolve] at h; subst h; simp
  | cons id rest ih =>
    unfold resolve at h
    cases hl : lookupNode ns id with
    | none => simp [hl] at h
    | some e =>
      simp only [hl] at h
      cases hr : resolve ns rest with
      | none => simp [hr] at h
      | some bs' =>
        simp only [hr] at h
        injection h with h
        subst h
        intro x hx
        rw [List.mem_cons] at hx
        rcases hx with hx | hx
        · subst hx; simp [hl]
        · exact ih hr x hx

/-- RegisterPipeline succeeds exactly on the well-formed definitions. -/
theorem accept_iff (b : Broker) (ty pid : Nat) (ids : List Nat) (pol : Pol) :
    (step b (.regPipe ty pid ids pol)).2 = .ok ↔ WellFormed b ty pid ids pol := by
  show (stepRegPipe b ty pid ids pol).2 = .ok ↔ _
  unfold stepRegPipe WellFormed
  by_cases h1 : (pid == 0 || ty == 0 || ids.isEmpty || ids.contains 0) = true
  · simp only [h1, if_true]
    constructor
    · intro h; cases h
    · rintro ⟨hp, ht, hi, hz, _⟩
      simp only [Bool.or_eq_true, beq_iff_eq, List.isEmpty_iff, List.contains_eq_mem, decide_eq_true_eq] at h1
      rcases h1 with ((h1 | h1) | h1) | h1
      · exact absurd h1 hp
      · exact absurd h1 ht
      · exact absurd h1 hi
      · exact absurd h1 hz
  · have h1' : pid ≠ 0 ∧ ty ≠ 0 ∧ ids ≠ [] ∧ 0 ∉ ids := by
      simp only [Bool.or_eq_true, beq_iff_eq, List.isEmpty_iff, List.contains_eq_mem, decide_eq_true_eq, not_or] at h1
      exact ⟨h1.1.1.1, h1.1.1.2, h1.1.2, h1.2⟩
    simp only [h1, if_false, Bool.false_eq_true]
    by_cases h2 : polValid pol = true
    · simp only [h2, Bool.not_true, Bool.false_eq_true, if_false]
      by_cases h3 : ((lookupPipe b.pipes ty pid).map (·.deny)).getD false = true
      · simp only [h3, if_true]
        constructor
        · intro h; cases h
        · rintro ⟨_, _, _, _, _, _, hd, _⟩
          cases ho : lookupPipe b.pipes ty pid with
          | none => simp [ho] at h3
          | some o => simp [ho] at h3; rw [hd o ho] at h3; cases h3
      · have h3' : ∀ o, lookupPipe b.pipes ty pid = some o → o.deny = false := by
          intro o ho; simp [ho] at h3; exact h3
        simp only [h3, if_false, Bool.false_eq_true]
        cases hr : resolve b.nodes ids with
        | none =>
          simp only
          constructor
          · intro h; cases h
          · rintro ⟨_, _, _, _, hreg, _⟩
            have := resolve_isSome_iff.mpr hreg
            rw [hr] at this; cases this
        | some bs =>
          simp only
          have hreg : ∀ id ∈ ids, (lookupNode b.nodes id).isSome = true :=
            resolve_isSome_iff.mp (by rw [hr]; rfl)
          have hids := resolve_ids hr
          have hlk := resolve_lookup hr
          have hne : bs.map (·.ty) ≠ [] := by
            intro h
            have : bs = [] := by simpa using h
            rw [this] at hids
            exact h1'.2.2.1 hids.symm
          cases hv : validateChain none (bs.map (·.ty)) with
          | some e =>
            simp only
            constructor
            · intro h; cases h
            · rintro ⟨_, _, _, _, _, ⟨pre, f, s, hsplit, hs, hf⟩, _, _⟩
              exfalso
              have hflat : validateChain none (bs.map (·.ty)) = none := by
                apply (validateChain_flat _ none hne).mpr
                left
                rw [← hids] at hsplit
                obtain ⟨preB, lastB, hb, hpre, hlast⟩ := List.map_eq_append_iff.mp hsplit
                obtain ⟨fb, restB, hb2, hfb, hrest⟩ := List.map_eq_cons_iff.mp hlast
                obtain ⟨sb, nilB, hb3, hsb, hnil⟩ := List.map_eq_cons_iff.mp hrest
                have : nilB = [] := by simpa using hnil
                subst this
                subst hb3; subst hb2; subst hb
                have hfty := hlk fb (by simp)
                have hsty := hlk sb (by simp)
                rw [hfb] at hfty; rw [hsb] at hsty
                unfold tyOf at hs hf
                rw [hsty] at hs
                rw [hfty] at hf
                injection hs with hs
                refine ⟨preB.map (·.ty), fb.ty, by simp [hs], ?_⟩
                rcases hf with hf | hf <;> injection hf with hf <;> simp [hf]
              rw [hflat] at hv; cases hv
          | none =>
            simp only
            refine ⟨fun _ => ⟨h1'.1, h1'.2.1, h1'.2.2.1, h1'.2.2.2, hreg, ?_, h3', trivial⟩, fun _ => trivial⟩
            rcases (validateChain_flat _ none hne).mp hv with ⟨pre, f, hsplit, hf⟩ | ⟨_, hp⟩
            · obtain ⟨preB, lastB, hb, hpre, hlast⟩ := List.map_eq_append_iff.mp hsplit
              obtain ⟨fb, restB, hb2, hfb, hrest⟩ := List.map_eq_cons_iff.mp hlast
              obtain ⟨sb, nilB, hb3, hsb, hnil⟩ := List.map_eq_cons_iff.mp hrest
              have : nilB = [] := by simpa using hnil
              subst this
              subst hb3; subst hb2; subst hb
              refine ⟨preB.map (·.id), fb.id, sb.id, by rw [← hids]; simp, ?_, ?_⟩
              · unfold tyOf; rw [hlk sb (by simp), hsb]
              · unfold tyOf; rw [hlk fb (by simp), hfb]
                rcases hf with hf | hf <;> simp [hf]
            · rcases hp with hp | hp <;> cases hp
    · simp only [h2, Bool.not_false, if_true]
      constructor
      · intro h; cases h
      · rintro ⟨_, _, _, _, _, _, _, hv⟩; exact absurd hv (by simp)

/-- A call that reports an error (RemovePipelineAndNodes: reports `false`) leaves the registered
nodes, their reference counts and the registered pipelines exactly as they were. -/
theorem failed_noop (b : Broker) (op : Op) (e : Err) (h : (step b op).2 = .err e) :
    (step b op).1.nodes = b.nodes ∧ (step b op).1.pipes = b.pipes := by
  cases op with
  | regNode id ty beh cf pol =>
    revert h
    show (stepRegNode b id ty beh cf pol).2 = _ → (stepRegNode b id ty beh cf pol).1.nodes = _ ∧ (stepRegNode b id ty beh cf pol).1.pipes = _
    unfold stepRegNode
    split
    · intro _; exact ⟨rfl, rfl⟩
    split
    · intro _; exact ⟨rfl, rfl⟩
    simp only
    split
    · intro _; exact ⟨rfl, rfl⟩
    · intro h; cases h
  | removeNode id =>
    revert h
    show (stepRemoveNode b id).2 = _ → (stepRemoveNode b id).1.nodes = _ ∧ (stepRemoveNode b id).1.pipes = _
    unfold stepRemoveNode
    split
    · intro _; exact ⟨rfl, rfl⟩
    split
    · intro _; exact ⟨rfl, rfl⟩
    split
    · intro _; exact ⟨rfl, rfl⟩
    · intro h; cases h
  | regPipe ty pid ids pol =>
    revert h
    show (stepRegPipe b ty pid ids pol).2 = _ → (stepRegPipe b ty pid ids pol).1.nodes = _ ∧ (stepRegPipe b ty pid ids pol).1.pipes = _
    unfold stepRegPipe
    split
    · intro _; exact ⟨rfl, rfl⟩
    split
    · intro _; exact ⟨rfl, rfl⟩
    simp only
    split
    · intro _; exact ⟨rfl, rfl⟩
    split
    · intro _; exact ⟨rfl, rfl⟩
    split
    · intro _; exact ⟨rfl, rfl⟩
    · intro h; cases h
  | removePipe ty pid =>
    revert h
    show (stepRemovePipe b ty pid).2 = _ → (stepRemovePipe b ty pid).1.nodes = _ ∧ (stepRemovePipe b ty pid).1.pipes = _
    unfold stepRemovePipe
    split
    · intro _; exact ⟨rfl, rfl⟩
    split
    · intro _; exact ⟨rfl, rfl⟩
    split
    · intro _; exact ⟨rfl, rfl⟩
    · intro h; cases h
  | rpan ty pid =>
    revert h
    show (stepRpan b ty pid).2 = _ → (stepRpan b ty pid).1.nodes = _ ∧ (stepRpan b ty pid).1.pipes = _
    unfold stepRpan
    split
    · intro _; exact ⟨rfl, rfl⟩
    split
    · intro _; exact ⟨rfl, rfl⟩
    split
    · intro _; exact ⟨rfl, rfl⟩
    split
    · intro _; exact ⟨rfl, rfl⟩
    · intro h; cases h
  | setThr ty n =>
    revert h
    show (stepSetThr b ty n).2 = _ → (stepSetThr b ty n).1.nodes = _ ∧ (stepSetThr b ty n).1.pipes = _
    unfold stepSetThr
    split
    · intro _; exact ⟨rfl, rfl⟩
    split
    · intro _; exact ⟨rfl, rfl⟩
    · intro _; exact ⟨rfl, rfl⟩
  | setThrSinks ty n =>
    revert h
    show (stepSetThrSinks b ty n).2 = _ → (stepSetThrSinks b ty n).1.nodes = _ ∧ (stepSetThrSinks b ty n).1.pipes = _
    unfold stepSetThrSinks
    split
    · intro _; exact ⟨rfl, rfl⟩
    split
    · intro _; exact ⟨rfl, rfl⟩
    · intro _; exact ⟨rfl, rfl⟩
  | getThr ty =>
    show (stepGetThr b ty).1.nodes = _ ∧ (stepGetThr b ty).1.pipes = _
    unfold stepGetThr; split <;> exact ⟨rfl, rfl⟩
  | getThrSinks ty =>
    show (stepGetThrSinks b ty).1.nodes = _ ∧ (stepGetThrSinks b ty).1.pipes = _
    unfold stepGetThrSinks; split <;> exact ⟨rfl, rfl⟩
  | isAny ty => exact ⟨rfl, rfl⟩
  | send ty =>
    show (stepSend b ty).1.nodes = _ ∧ (stepSend b ty).1.pipes = _
    unfold stepSend; split <;> exact ⟨rfl, rfl⟩
  | reopen f => exact ⟨rfl, rfl⟩

/-- What a failed RegisterPipeline may still change (not among the observables the statement lists,
but modelled): the graph of the event type exists afterwards once the id and option checks passed. -/
theorem failed_graph_residue (b : Broker) (ty pid : Nat) (ids : List Nat) (pol : Pol) (e : Err)
    (h : (step b (.regPipe ty pid ids pol)).2 = .err e) :
    (step b (.regPipe ty pid ids pol)).1.graphs = b.graphs ∨
    (step b (.regPipe ty pid ids pol)).1.graphs = ensureGraph b.graphs ty := by
  revert h
  show (stepRegPipe b ty pid ids pol).2 = _ → (stepRegPipe b ty pid ids pol).1.graphs = _ ∨ (stepRegPipe b ty pid ids pol).1.graphs = _
  unfold stepRegPipe
  split
  · intro _; exact Or.inl rfl
  split
  · intro _; exact Or.inl rfl
  simp only
  split
  · intro _; exact Or.inr rfl
  split
  · intro _; exact Or.inr rfl
  split
  · intro _; exact Or.inr rfl
  · intro _; exact Or.inr rfl

/-- IsAnyPipelineRegistered is true for a type exactly when a pipeline is registered for it. -/
theorem isAny_iff (b : Broker) (ty : Nat) :
    (step b (.isAny ty)).2 = .bool true ↔ ∃ p ∈ b.pipes, p.ty = ty := by
  show (stepIsAny b ty).2 = .bool true ↔ _
  unfold stepIsAny pipesOf
  simp only [Res.bool.injEq, Bool.not_eq_true', List.isEmpty_eq_false_iff]
  constructor
  · intro h
    obtain ⟨p, hp⟩ := List.exists_mem_of_ne_nil _ h
    rw [List.mem_filter] at hp
    exact ⟨p, hp.1, by simpa using hp.2⟩
  · rintro ⟨p, hp, hty⟩
    exact List.ne_nil_of_mem (List.mem_filter.mpr ⟨hp, by simpa using hty⟩)

/-- Everything registered after any history is well formed: ≥ 2 nodes, sink last, formatter(-filter) before it. -/
def PipeOk (p : Pipe) : Prop := ∃ pre f s, p.nodes = pre ++ [f, s] ∧ s.ty = 3 ∧ (f.ty = 2 ∨ f.ty = 4)

theorem registered_ok_step (b : Broker) (op : Op) (h : ∀ p ∈ b.pipes, PipeOk p) : ∀ p ∈ (step b op).1.pipes, PipeOk p := by
  cases op with
  | regPipe ty pid ids pol =>
    show ∀ p ∈ (stepRegPipe b ty pid ids pol).1.pipes, PipeOk p
    unfold stepRegPipe
    split
    · exact h
    split
    · exact h
    simp only
    split
    · exact h
    cases hr : resolve b.nodes ids with
    | none => exact h
    | some bs =>
      simp only
      cases hv : validateChain none (bs.map (·.ty)) with
      | some e => exact h
      | none =>
        intro p hp
        simp only at hp
        rw [List.mem_append] at hp
        rcases hp with hp | hp
        · exact h p (mem_erasePipe.mp hp).1
        · simp at hp
          subst hp
          have hne : bs.map (·.ty) ≠ [] := by
            intro hnil
            have hb : bs = [] := by simpa using hnil
            have hids := resolve_ids hr
            rw [hb] at hids
            rename_i h1 _ _
            apply h1
            rw [← hids]
            simp
          rcases (validateChain_flat _ none hne).mp hv with ⟨pre, f, hsplit, hf⟩ | ⟨_, hp⟩
          · obtain ⟨preB, lastB, hb, hpre, hlast⟩ := List.map_eq_append_iff.mp hsplit
            obtain ⟨fb, restB, hb2, hfb, hrest⟩ := List.map_eq_cons_iff.mp hlast
            obtain ⟨sb, nilB, hb3, hsb, hnil⟩ := List.map_eq_cons_iff.mp hrest
            have : nilB = [] := by simpa using hnil
            subst this; subst hb3; subst hb2
            exact ⟨preB, fb, sb, hb, hsb, by rw [hfb]; exact hf⟩
          · rcases hp with hp | hp <;> cases hp
  | removePipe ty pid =>
    show ∀ p ∈ (stepRemovePipe b ty pid).1.pipes, PipeOk p
    unfold stepRemovePipe
    split
    · exact h
    split
    · exact h
    split
    · exact h
    · intro p hp; exact h p (mem_erasePipe.mp hp).1
  | rpan ty pid =>
    show ∀ p ∈ (stepRpan b ty pid).1.pipes, PipeOk p
    unfold stepRpan
    split
    · exact h
    split
    · exact h
    split
    · exact h
    split
    · exact h
    · intro p hp; exact h p (mem_erasePipe.mp hp).1
  | regNode id ty beh cf pol =>
    show ∀ p ∈ (stepRegNode b id ty beh cf pol).1.pipes, PipeOk p
    unfold stepRegNode
    split
    · exact h
    split
    · exact h
    simp only
    split <;> exact h
  | removeNode id =>
    show ∀ p ∈ (stepRemoveNode b id).1.pipes, PipeOk p
    unfold stepRemoveNode
    split
    · exact h
    split
    · exact h
    split <;> exact h
  | setThr ty n =>
    show ∀ p ∈ (stepSetThr b ty n).1.pipes, PipeOk p
    unfold stepSetThr
    split
    · exact h
    split <;> exact h
  | setThrSinks ty n =>
    show ∀ p ∈ (stepSetThrSinks b ty n).1.pipes, PipeOk p
    unfold stepSetThrSinks
    split
    · exact h
    split <;> exact h
  | getThr ty => show ∀ p ∈ (stepGetThr b ty).1.pipes, PipeOk p; unfold stepGetThr; split <;> exact h
  | getThrSinks ty => show ∀ p ∈ (stepGetThrSinks b ty).1.pipes, PipeOk p; unfold stepGetThrSinks; split <;> exact h
  | isAny ty => exact h
  | send ty => show ∀ p ∈ (stepSend b ty).1.pipes, PipeOk p; unfold stepSend; split <;> exact h
  | reopen f => exact h

/-- Only well-formed pipelines are ever registered, whatever the history. -/
theorem only_wellformed_registered (ops : List Op) : ∀ p ∈ (run init ops).pipes, PipeOk p := by
  suffices ∀ b, (∀ p ∈ b.pipes, PipeOk p) → ∀ p ∈ (run b ops).pipes, PipeOk p from
    this init (by simp [init])
  induction ops with
  | nil => intro b h; exact h
  | cons op rest ih => intro b h; exact ih _ (registered_ok_step b op h)

/-- Non-vacuity: a well-formed and several ill-formed definitions against a concrete broker. -/
def demoB : Broker := run init
  [ .regNode 1 1 .pass false .dflt, .regNode 2 4 .pass false .dflt, .regNode 3 3 .drop false .dflt, .regNode 4 9 .pass false .dflt ]

example : (step demoB (.regPipe 1 1 [1, 3, 2, 3] .dflt)).2 = .ok := by decide
example : WellFormed demoB 1 1 [1, 3, 2, 3] .dflt := (accept_iff _ _ _ _ _).mp (by decide)
example : (step demoB (.regPipe 1 1 [1, 2] .dflt)).2 = .err .noChildren := by decide
example : (step demoB (.regPipe 1 1 [3] .dflt)).2 = .err .sinkAtRoot := by decide
example : (step demoB (.regPipe 1 1 [2, 4, 3] .dflt)).2 = .err .sinkNoFormatter := by decide
example : (step demoB (.regPipe 1 1 [1, 5, 3] .dflt)).2 = .err .notRegistered := by decide

end Evl.C05
