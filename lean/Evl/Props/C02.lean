import Evl.Lemmas.DispatchGhost
import Evl.Lemmas.RegistryInv
import Evl.Generated.Decisions
import Evl.Generated.DispatchFacts
/-!
# C02 — Send's Status and error truthfully account for what the pipelines did

Models: M2 `Dispatch` for the collected statuses under every schedule and cancel point (`got` is the
ghost list of statuses the collector merged: pipeline, node index, warning?), M1 `Registry` for the
thresholds, and `getError` below for the decision `Status.getError` takes (its comparison operators
and operands are tied to the source by the correspondence runs over all threshold values 0..n+1).
-/
namespace Evl.C02
open Evl.Dispatch

variable {c : Cfg}

/-- **Never invented (all schedules, all cancel points).** Every collected status stands for a
distinct pipeline whose traversal really ended at that node: the node stopped the traversal (it
dropped the event, returned an error, or is the leaf); it is a warning exactly when the node returned
an error, otherwise a complete entry for a node that returned success. -/
theorem sound (hlen : ∀ p, p < c.n → 0 < c.len p) {s : S} (hr : Reach c s) :
    (∀ e ∈ s.got, e.1 < c.n ∧ ended (s.ps e.1) ∧ e.2.1 = (s.ps e.1).k ∧
        stops c e.1 e.2.1 (c.out e.1 e.2.1) = true ∧ (e.2.2 = true ↔ c.out e.1 e.2.1 = .err) ∧
        (e.2.2 = false → (c.out e.1 e.2.1 = .drop ∨ e.2.1 + 1 = c.len e.1))) ∧
    (s.got.map (·.1)).Nodup := by
  have hi := pinv_reach hlen hr
  have hg := ginv_reach hlen hr
  refine ⟨?_, hg.gotNodup⟩
  intro e he
  obtain ⟨h1, h2, h3, h4⟩ := hg.gotOk e he
  have hst : stops c e.1 e.2.1 (c.out e.1 e.2.1) = true := by
    rw [h3]
    rcases h2 with h2 | h2
    · exact hi.stopsAt e.1 (Or.inr (Or.inl h2))
    · exact hi.stopsAt e.1 (Or.inr (Or.inr h2))
  refine ⟨h1, h2, h3, hst, ?_, ?_⟩
  · rw [h4]; simp
  · intro hw
    rw [h4] at hw
    simp [stops] at hst
    rcases hst with (h | h) | h
    · simp [h] at hw
    · exact Or.inl h
    · exact Or.inr h

/-- complete-sinks is by construction the sub-list of complete entries whose node is a sink -/
def completes (s : S) : List (Nat × Nat) := (s.got.filter (fun e => !e.2.2)).map (fun e => (e.1, e.2.1))
def completeSinks (c : Cfg) (s : S) : List (Nat × Nat) := (completes s).filter (fun e => c.sink e.1 e.2)
theorem sinks_sublist (s : S) : (completeSinks c s).Sublist (completes s) := List.filter_sublist

/-- **Exactly one entry per pipeline when not cancelled.** If the context is never cancelled, when
Send returns there is exactly one status per registered pipeline (completes + warnings = pipelines). -/
theorem complete (hlen : ∀ p, p < c.n → 0 < c.len p) {s : S} (hr : Reach c s)
    (hnc : s.ctxDone = false) (hret : s.collExited = true) :
    (∀ p, p < c.n → p ∈ s.got.map (·.1)) ∧ s.got.length = c.n := by
  have hi := pinv_reach hlen hr
  have hg := ginv_reach hlen hr
  have hclosed : s.rg = .closed := by
    rcases hi.coll hret with h | h
    · rw [hnc] at h; cases h
    · exact h
  have hall : ∀ p, p < c.n → p ∈ s.got.map (·.1) := by
    intro p hp
    have hq := not_busy (hi.quiet (Or.inr hclosed) p hp)
    have hstart := hg.started hnc (Or.inr (Or.inr hclosed)) p hp
    have hfin : (s.ps p).ph = .finished := by
      cases hph : (s.ps p).ph <;> simp [PS.live, hph] at hq hstart ⊢
    exact hg.gotAll hnc p (Or.inr hfin)
  refine ⟨hall, ?_⟩
  -- a duplicate-free list of numbers below n containing every number below n has length n
  have hlt : ∀ x ∈ s.got.map (·.1), x < c.n := by
    intro x hx
    obtain ⟨e, he, hex⟩ := List.mem_map.mp hx
    rw [← hex]; exact (hg.gotOk e he).1
  have hperm : (s.got.map (·.1)).Perm (List.range c.n) := by
    apply (List.perm_ext_iff_of_nodup hg.gotNodup List.nodup_range).mpr
    intro a
    rw [List.mem_range]
    exact ⟨hlt a, hall a⟩
  have := hperm.length_eq
  simpa using this

/-- `Status.getError`: which error (if any) Send returns, and whether it wraps the context's error. -/
inductive SendErr | notEnoughNodes | notEnoughSinks
  deriving DecidableEq, Repr

def getError (ctxDone : Bool) (nComplete nSinks thr thrSinks : Nat) : Option (SendErr × Bool) :=
  if nComplete < thr then some (.notEnoughNodes, ctxDone)
  else if nSinks < thrSinks then some (.notEnoughSinks, ctxDone)
  else none

/-- Send returns an error iff fewer completes than the success threshold, or fewer complete sinks
than the sink threshold, were reported; the error wraps the context's error iff the context was done. -/
theorem error_iff (ctxDone : Bool) (nC nS thr thrS : Nat) :
    ((getError ctxDone nC nS thr thrS).isSome = true ↔ (nC < thr ∨ nS < thrS)) ∧
    (∀ e w, getError ctxDone nC nS thr thrS = some (e, w) → w = ctxDone) := by
  unfold getError
  constructor
  · by_cases h1 : nC < thr
    · simp [h1]
    · by_cases h2 : nS < thrS <;> simp [h1, h2]
  · intro e w h
    split at h
    · injection h with h; injection h with _ h; exact h.symm
    · split at h
      · injection h with h; injection h with _ h; exact h.symm
      · cases h

/-- `getError` above is the source's `Status.getError`: its switch cases, regenerated from broker.go,
are `len(complete) < threshold` then `len(completeSinks) < thresholdSinks`, in this order; and the
complete-sinks flag is set from the node's `Type()`. -/
theorem getError_on_source :
    Evl.Generated.getErrorCases =
      [{ l := .lenComplete, op := .lt, r := .threshold }, { l := .lenCompleteSinks, op := .lt, r := .thresholdSinks }] ∧
    Evl.Generated.dispatchFacts.sinkFlagFromType = true ∧
    -- a node's error / a dropped event is always offered to the collector (the model's `sendTry`):
    -- the only way not to report is Send's own context being done
    Evl.Generated.dispatchFacts.errorAlwaysReported = true ∧
    Evl.Generated.dispatchFacts.dropAlwaysReported = true ∧
    Evl.Generated.dispatchFacts.sendsGuardedByCtx = true := by decide

/-! ### thresholds (M1): per event type, reject negatives, read back as last set -/
open Evl.Registry

theorem lookupGraph_map (gs : List Graph) (f : Graph → Graph) (hf : ∀ g, (f g).ty = g.ty) (t : Nat) :
    lookupGraph (gs.map f) t = (lookupGraph gs t).map f := by
  unfold lookupGraph
  induction gs with
  | nil => rfl
  | cons g gs ih =>
    rw [List.map_cons, List.find?_cons, List.find?_cons, hf]
    cases (g.ty == t)
    · exact ih
    · rfl

theorem lookupGraph_ty {gs : List Graph} {t : Nat} {g : Graph} (h : lookupGraph gs t = some g) : g.ty = t := by
  unfold lookupGraph at h
  have := List.find?_some h
  simpa using this

theorem lookupGraph_ensure (gs : List Graph) (ty t : Nat) :
    lookupGraph (ensureGraph gs ty) t =
      match lookupGraph gs t with
      | some g => some g
      | none => if t = ty then some { ty := ty, thr := 0, thrSinks := 0 } else none := by
  unfold ensureGraph
  cases h2 : lookupGraph gs ty with
  | some g0 =>
    simp only
    cases h3 : lookupGraph gs t with
    | some g => rfl
    | none =>
      simp only
      by_cases htt : t = ty
      · subst htt; rw [h2] at h3; cases h3
      · simp [htt]
  | none =>
    simp only
    unfold lookupGraph at h2 ⊢
    rw [List.find?_append]
    cases h3 : List.find? (fun g => g.ty == t) gs with
    | some g => rfl
    | none =>
      by_cases htt : t = ty
      · subst htt; simp [List.find?]
      · have : (ty == t) = false := by simp; exact fun h => htt h.symm
        simp [List.find?, this, htt]

theorem threshold_negative (b : Broker) (ty : Nat) (n : Int) (hn : n < 0) :
    (step b (.setThr ty n)).1 = b ∧ (∃ e, (step b (.setThr ty n)).2 = .err e) ∧
    (step b (.setThrSinks ty n)).1 = b ∧ (∃ e, (step b (.setThrSinks ty n)).2 = .err e) := by
  refine ⟨?_, ?_, ?_, ?_⟩
  · show (stepSetThr b ty n).1 = b
    unfold stepSetThr; split; rfl; simp [hn]
  · show ∃ e, (stepSetThr b ty n).2 = .err e
    unfold stepSetThr; split; exact ⟨_, rfl⟩; simp [hn]
  · show (stepSetThrSinks b ty n).1 = b
    unfold stepSetThrSinks; split; rfl; simp [hn]
  · show ∃ e, (stepSetThrSinks b ty n).2 = .err e
    unfold stepSetThrSinks; split; exact ⟨_, rfl⟩; simp [hn]

/-- a threshold reads back as last set, for that type; every other type is untouched -/
theorem threshold_readback (b : Broker) (ty : Nat) (n : Int) (hty : ty ≠ 0) (hn : 0 ≤ n) :
    (step (step b (.setThr ty n)).1 (.getThr ty)).2 = .thr n.toNat true ∧
    (∀ t, t ≠ ty → (step (step b (.setThr ty n)).1 (.getThr t)).2 = (step b (.getThr t)).2 ∧
                   (step (step b (.setThr ty n)).1 (.getThrSinks t)).2 = (step b (.getThrSinks t)).2) := by
  have h0 : (ty == 0) = false := by simpa using hty
  have hneg : ¬ n < 0 := by omega
  have hs : (step b (.setThr ty n)).1 =
      { b with graphs := (ensureGraph b.graphs ty).map (fun g => if g.ty == ty then { g with thr := n.toNat } else g) } := by
    show (stepSetThr b ty n).1 = _
    unfold stepSetThr; simp [h0, hneg]
  have hf : ∀ g : Graph, (if g.ty == ty then { g with thr := n.toNat } else g).ty = g.ty := by
    intro g; split <;> rfl
  rw [hs]
  refine ⟨?_, ?_⟩
  · show (stepGetThr _ ty).2 = _
    unfold stepGetThr
    simp only [lookupGraph_map _ _ hf, lookupGraph_ensure]
    cases h : lookupGraph b.graphs ty with
    | some g => simp [lookupGraph_ty h]
    | none => simp
  · intro t ht
    constructor
    · show (stepGetThr _ t).2 = (stepGetThr b t).2
      unfold stepGetThr
      simp only [lookupGraph_map _ _ hf, lookupGraph_ensure]
      cases h : lookupGraph b.graphs t with
      | some g =>
        have hne : g.ty ≠ ty := by rw [lookupGraph_ty h]; exact ht
        simp [hne]
      | none => simp [ht]
    · show (stepGetThrSinks _ t).2 = (stepGetThrSinks b t).2
      unfold stepGetThrSinks
      simp only [lookupGraph_map _ _ hf, lookupGraph_ensure]
      cases h : lookupGraph b.graphs t with
      | some g =>
        have hne : g.ty ≠ ty := by rw [lookupGraph_ty h]; exact ht
        simp [hne]
      | none => simp [ht]

/-- the same for the sink threshold -/
theorem thresholdSinks_readback (b : Broker) (ty : Nat) (n : Int) (hty : ty ≠ 0) (hn : 0 ≤ n) :
    (step (step b (.setThrSinks ty n)).1 (.getThrSinks ty)).2 = .thr n.toNat true ∧
    (∀ t, t ≠ ty → (step (step b (.setThrSinks ty n)).1 (.getThr t)).2 = (step b (.getThr t)).2 ∧
                   (step (step b (.setThrSinks ty n)).1 (.getThrSinks t)).2 = (step b (.getThrSinks t)).2) := by
  have h0 : (ty == 0) = false := by simpa using hty
  have hneg : ¬ n < 0 := by omega
  have hs : (step b (.setThrSinks ty n)).1 =
      { b with graphs := (ensureGraph b.graphs ty).map (fun g => if g.ty == ty then { g with thrSinks := n.toNat } else g) } := by
    show (stepSetThrSinks b ty n).1 = _
    unfold stepSetThrSinks; simp [h0, hneg]
  have hf : ∀ g : Graph, (if g.ty == ty then { g with thrSinks := n.toNat } else g).ty = g.ty := by
    intro g; split <;> rfl
  rw [hs]
  refine ⟨?_, ?_⟩
  · show (stepGetThrSinks _ ty).2 = _
    unfold stepGetThrSinks
    simp only [lookupGraph_map _ _ hf, lookupGraph_ensure]
    cases h : lookupGraph b.graphs ty with
    | some g => simp [lookupGraph_ty h]
    | none => simp
  · intro t ht
    constructor
    · show (stepGetThr _ t).2 = (stepGetThr b t).2
      unfold stepGetThr
      simp only [lookupGraph_map _ _ hf, lookupGraph_ensure]
      cases h : lookupGraph b.graphs t with
      | some g =>
        have hne : g.ty ≠ ty := by rw [lookupGraph_ty h]; exact ht
        simp [hne]
      | none => simp [ht]
    · show (stepGetThrSinks _ t).2 = (stepGetThrSinks b t).2
      unfold stepGetThrSinks
      simp only [lookupGraph_map _ _ hf, lookupGraph_ensure]
      cases h : lookupGraph b.graphs t with
      | some g =>
        have hne : g.ty ≠ ty := by rw [lookupGraph_ty h]; exact ht
        simp [hne]
      | none => simp [ht]

/-- Non-vacuity. -/
example : getError true 1 0 1 1 = some (.notEnoughSinks, true) := by decide
example : (step (step Registry.init (.setThr 2 3)).1 (.getThr 2)).2 = .thr 3 true := by decide
example : (step Registry.init (.setThr 2 (-1))).2 = .err .negative := by decide

end Evl.C02
