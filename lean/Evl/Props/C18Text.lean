import Evl.Props.C18Verify
/-!
# C18, continued — the text format

`compactS` (M8r) models `json.Compact`.  `compact_indent`: for every token stream and encoder state,
compacting the indented rendering (`Encoder.SetIndent("", "  ")`) gives the compact rendering;
`text_compacts`: compacting what the formatter stores under cloudevents-text gives the JSON text of the
same object `docJM` as in the compact format; `signed_text_verifies` / `signed_text_document_verifies`:
a forwarded signed cloudevents-text document passes the consumer's check `verifyText` (compact, parse,
base64url-decode `serialized` — which is the *indented* unsigned document — and ask the signer).
-/
namespace Evl.Json

/-- a piece of text that the scanner copies unchanged, entering and leaving it outside any string -/
def Stable (p : Bytes) : Prop := ∀ rest, compactS false false (p ++ rest) = p ++ compactS false false rest

theorem stable_nil : Stable [] := fun _ => rfl
theorem stable_append {a b : Bytes} (ha : Stable a) (hb : Stable b) : Stable (a ++ b) := by
  intro rest; rw [List.append_assoc, ha, hb, List.append_assoc]

/-- bytes that are neither white space nor a quote are copied one by one -/
theorem stable_plain : ∀ (p : Bytes), (∀ c ∈ p, isWs c = false ∧ c ≠ 34) → Stable p
  | [], _ => stable_nil
  | c :: t, h => by
    intro rest
    have hc := h c (by simp)
    have ht := stable_plain t (fun x hx => h x (by simp [hx]))
    have e : (c == 34) = false := by simp [hc.2]
    simp only [List.cons_append, compactS, hc.1, Bool.false_eq_true, if_false, e]
    rw [ht rest]

/-- white space outside strings disappears -/
theorem compact_ws : ∀ (p rest : Bytes), (∀ c ∈ p, isWs c = true) → compactS false false (p ++ rest) = compactS false false rest
  | [], _, _ => rfl
  | c :: t, rest, h => by
    have hc := h c (by simp)
    simp only [List.cons_append, compactS, hc, if_true]
    exact compact_ws t rest (fun x hx => h x (by simp [hx]))

/-! ### strings -/

/-- inside a string, bytes other than the quote and the backslash are copied -/
theorem inStr_plain : ∀ (p rest : Bytes), (∀ c ∈ p, c ≠ 34 ∧ c ≠ 92) →
    compactS true false (p ++ rest) = p ++ compactS true false rest
  | [], _, _ => rfl
  | c :: t, rest, h => by
    have hc := h c (by simp)
    have e1 : (c == 92) = false := by simp [hc.2]
    have e2 : (c == 34) = false := by simp [hc.1]
    simp only [List.cons_append, compactS, e1, e2, Bool.false_eq_true, if_false]
    rw [inStr_plain t rest (fun x hx => h x (by simp [hx]))]

theorem inStr_esc (x : Nat) (rest : Bytes) : compactS true false (92 :: x :: rest) = 92 :: x :: compactS true false rest := by
  simp [compactS]

theorem hexDigit_plain (n : Nat) (h : n < 16) : hexDigit n ≠ 34 ∧ hexDigit n ≠ 92 := by
  unfold hexDigit; split <;> omega

theorem inStr_escAscii (b : Nat) (hb : b < 0x80) (rest : Bytes) :
    compactS true false (escAscii b ++ rest) = escAscii b ++ compactS true false rest := by
  unfold escAscii
  repeat' split
  all_goals first
    | (simp only [List.cons_append, List.nil_append]; rw [inStr_esc])
    | skip
  · -- \u00XX
    simp only [u00, List.cons_append, List.nil_append]
    rw [inStr_esc]
    have h1 := hexDigit_plain (b / 16) (by omega)
    have h2 := hexDigit_plain (b % 16) (Nat.mod_lt _ (by decide))
    have := inStr_plain [48, 48, hexDigit (b / 16), hexDigit (b % 16)] rest (by
      intro c hc; simp only [List.mem_cons, List.mem_nil_iff, or_false] at hc
      rcases hc with rfl | rfl | rfl | rfl
      · decide
      · decide
      · exact h1
      · exact h2)
    simpa using this
  · -- the byte itself
    rename_i h34 h92 _ _ _ _ _ _
    have := inStr_plain [b] rest (by
      intro c hc; simp only [List.mem_cons, List.mem_nil_iff, or_false] at hc; subst hc
      simp only [beq_iff_eq] at h34 h92
      exact ⟨h34, h92⟩)
    simpa using this

theorem inStr_high (p rest : Bytes) (h : ∀ c ∈ p, 0x80 ≤ c) : compactS true false (p ++ rest) = p ++ compactS true false rest :=
  inStr_plain p rest (fun c hc => by have := h c hc; omega)

theorem inStr_escSeq (seq rest : Bytes) (h : ∀ c ∈ seq, 0x80 ≤ c) :
    compactS true false (escSeq seq ++ rest) = escSeq seq ++ compactS true false rest := by
  unfold escSeq
  split
  · simp only [List.cons_append, List.nil_append]
    rw [inStr_esc]
    have := inStr_plain [50, 48, 50, 56] rest (by decide)
    simpa using this
  · split
    · simp only [List.cons_append, List.nil_append]
      rw [inStr_esc]
      have := inStr_plain [50, 48, 50, 57] rest (by decide)
      simpa using this
    · exact inStr_high seq rest h

theorem inStr_escBytes : ∀ (n : Nat) (s rest : Bytes), s.length ≤ n →
    compactS true false (escBytes s ++ 34 :: rest) = escBytes s ++ 34 :: compactS false false rest := by
  intro n
  induction n with
  | zero =>
    intro s rest hs
    have : s = [] := by cases s <;> simp_all
    subst this
    simp [escBytes, compactS]
  | succ n ih =>
    intro s rest hs
    cases s with
    | nil => simp [escBytes, compactS]
    | cons b tl =>
      rw [escBytes]
      simp only [List.length_cons] at hs
      by_cases hb : b < 0x80
      · simp only [hb, if_true, List.append_assoc]
        rw [inStr_escAscii b hb, ih tl rest (by omega)]
      · simp only [hb, if_false]
        by_cases hz : (utf8Len (b :: tl) == 0) = true
        · simp only [hz, if_true, List.append_assoc, List.cons_append, List.nil_append]
          rw [inStr_esc]
          have := inStr_plain [102, 102, 102, 100] (escBytes tl ++ 34 :: rest) (by decide)
          simp only [List.cons_append, List.nil_append] at this
          rw [this, ih tl rest (by omega)]
        · simp only [hz, if_false, Bool.false_eq_true, List.append_assoc]
          rw [inStr_escSeq _ _ (Evl.C14.valid_seq_high b tl hb (by simpa using hz)), ih _ rest (by simp only [List.length_drop]; omega)]

/-- a quoted string is copied as a whole -/
theorem stable_quote (s : Bytes) : Stable (quote s) := by
  intro rest
  unfold quote
  simp only [List.cons_append, List.nil_append, List.append_assoc, compactS, show isWs 34 = false by decide,
    Bool.false_eq_true, if_false, show (34 == 34) = true by decide]
  rw [inStr_escBytes s.length s rest (Nat.le_refl _)]

end Evl.Json

namespace Evl.CloudEvents
open Evl.Json

/-- what the indenting renderer writes before an element, and the stack afterwards -/
def preI (st : Stack) (ak : Bool) : Bytes × Stack :=
  if ak then ([], st)
  else match st with
    | [] => ([], [])
    | true :: r => (44 :: nl (r.length + 1), true :: r)
    | false :: r => (nl (r.length + 1), true :: r)

theorem nl_ws (d : Nat) : ∀ c ∈ nl d, isWs c = true := by
  intro c hc
  simp only [nl, indentOf, List.mem_cons, List.mem_replicate] at hc
  rcases hc with rfl | ⟨_, rfl⟩ <;> decide

theorem preI_sep (st : Stack) (ak : Bool) :
    (preI st ak).2 = (sep st ak).2 ∧ ∀ rest, compactS false false ((preI st ak).1 ++ rest) = (sep st ak).1 ++ compactS false false rest := by
  unfold preI sep
  cases ak
  · cases st with
    | nil => simp
    | cons b r =>
      cases b
      · simp only [Bool.false_eq_true, if_false, true_and]
        intro rest; rw [compact_ws _ _ (nl_ws _)]; rfl
      · simp only [Bool.false_eq_true, if_false, true_and]
        intro rest
        simp only [List.cons_append, compactS, show isWs 44 = false by decide, Bool.false_eq_true, if_false,
          show (44 == 34) = false by decide]
        rw [compact_ws _ _ (nl_ws _)]; rfl
  · simp

theorem ri_val (t : Tok) (body : Bytes) (ts : List Tok) (st : Stack) (ak : Bool)
    (h : t = .null ∧ body = [110, 117, 108, 108] ∨ t = .bool true ∧ body = [116, 114, 117, 101] ∨
         t = .bool false ∧ body = [102, 97, 108, 115, 101] ∨ (∃ k, t = .num k ∧ body = k) ∨ (∃ s, t = .str s ∧ body = quote s)) :
    renderIndent (t :: ts) st ak = (renderIndent ts (preI st ak).2 false).map ((preI st ak).1 ++ body ++ ·) := by
  rcases h with ⟨rfl, rfl⟩ | ⟨rfl, rfl⟩ | ⟨rfl, rfl⟩ | ⟨k, rfl, rfl⟩ | ⟨s, rfl, rfl⟩ <;>
  · cases ak
    · rcases st with _ | ⟨_ | _, r⟩ <;> rfl
    · rfl

theorem ri_open (t : Tok) (c : Nat) (ts : List Tok) (st : Stack) (ak : Bool)
    (h : t = .beginObj ∧ c = 123 ∨ t = .beginArr ∧ c = 91) :
    renderIndent (t :: ts) st ak = (renderIndent ts (false :: (preI st ak).2) false).map ((preI st ak).1 ++ [c] ++ ·) := by
  rcases h with ⟨rfl, rfl⟩ | ⟨rfl, rfl⟩ <;>
  · cases ak
    · rcases st with _ | ⟨_ | _, r⟩ <;> rfl
    · rfl

theorem ri_key (s : Bytes) (ts : List Tok) (st : Stack) (ak : Bool) :
    renderIndent (.key s :: ts) st ak = (renderIndent ts (preI st false).2 true).map ((preI st false).1 ++ quote s ++ [58, 32] ++ ·) := by
  rcases st with _ | ⟨_ | _, r⟩ <;> rfl

/-- the two renderings of the same tokens: both fail, or the indented one compacts to the compact one
(with whatever follows) -/
def Rel (oi ot : Option Bytes) : Prop :=
  match oi, ot with
  | some x, some y => ∀ rest, compactS false false (x ++ rest) = y ++ compactS false false rest
  | none, none => True
  | _, _ => False

theorem rel_map (P S body : Bytes) (hP : ∀ rest, compactS false false (P ++ rest) = S ++ compactS false false rest)
    (hb : Stable body) {oi ot : Option Bytes} (h : Rel oi ot) :
    Rel (oi.map (P ++ body ++ ·)) (ot.map (S ++ body ++ ·)) := by
  cases oi <;> cases ot <;> simp only [Rel, Option.map_some, Option.map_none] at h ⊢
  intro rest
  rw [List.append_assoc, List.append_assoc, hP, hb, h rest]
  simp [List.append_assoc]

def tokStable : Tok → Prop
  | .num t => Stable t
  | _ => True

def allStable : List Tok → Prop
  | [] => True
  | t :: ts => tokStable t ∧ allStable ts

theorem stable_lit (p : Bytes) (h : ∀ c ∈ p, isWs c = false ∧ c ≠ 34) : Stable p := stable_plain p h

/-- **`json.Compact` of the indented rendering is the compact rendering**, for every token stream
(well-formed or not), every encoder state, provided the verbatim tokens are themselves unaffected by
compaction (number literals, quoted time stamps). -/
theorem compact_indent : ∀ (ts : List Tok) (st : Stack) (ak : Bool), allStable ts →
    Rel (renderIndent ts st ak) (renderToks ts st ak) := by
  intro ts
  induction ts with
  | nil => intro st ak _; simp [renderIndent, renderToks, Rel]
  | cons t ts ih =>
    intro st ak hst
    have ht := hst.1
    have hrest := hst.2
    obtain ⟨e2, e1⟩ := preI_sep st ak
    obtain ⟨k2, k1⟩ := preI_sep st false
    have hI : ∀ (body : Bytes) (st2 : Stack → Stack) (ak2 : Bool), Stable body →
        Rel ((renderIndent ts (st2 (preI st ak).2) ak2).map ((preI st ak).1 ++ body ++ ·))
            ((renderToks ts (st2 (sep st ak).2) ak2).map ((sep st ak).1 ++ body ++ ·)) := by
      intro body st2 ak2 hb
      rw [e2]
      exact rel_map _ _ body e1 hb (ih _ _ hrest)
    cases t with
    | unsupported => simp [renderIndent, renderToks, Rel]
    | null =>
      rw [ri_val .null [110, 117, 108, 108] ts st ak (by simp)]
      simpa [renderToks] using hI [110, 117, 108, 108] id false (stable_lit _ (by decide))
    | bool b =>
      cases b
      · rw [ri_val (.bool false) [102, 97, 108, 115, 101] ts st ak (by simp)]
        simpa [renderToks] using hI [102, 97, 108, 115, 101] id false (stable_lit _ (by decide))
      · rw [ri_val (.bool true) [116, 114, 117, 101] ts st ak (by simp)]
        simpa [renderToks] using hI [116, 114, 117, 101] id false (stable_lit _ (by decide))
    | num tk =>
      rw [ri_val (.num tk) tk ts st ak (by simp)]
      simpa [renderToks] using hI tk id false ht
    | str s =>
      rw [ri_val (.str s) (quote s) ts st ak (by simp)]
      simpa [renderToks] using hI (quote s) id false (stable_quote s)
    | beginObj =>
      rw [ri_open .beginObj 123 ts st ak (by simp)]
      simpa [renderToks] using hI [123] (fun s => false :: s) false (stable_lit _ (by decide))
    | beginArr =>
      rw [ri_open .beginArr 91 ts st ak (by simp)]
      simpa [renderToks] using hI [91] (fun s => false :: s) false (stable_lit _ (by decide))
    | key s =>
      rw [ri_key]
      have hr := ih (sep st false).2 true hrest
      simp only [renderToks]
      rw [k2]
      cases hri : renderIndent ts (sep st false).2 true <;> cases hrt : renderToks ts (sep st false).2 true <;>
        simp only [hri, hrt, Rel, Option.map_some, Option.map_none] at hr ⊢
      intro rest
      rw [List.append_assoc, List.append_assoc, List.append_assoc, k1, stable_quote s]
      simp only [List.cons_append, List.nil_append, List.append_assoc, compactS, show isWs 58 = false by decide,
        show isWs 32 = true by decide, Bool.false_eq_true, if_false, if_true, show (58 == 34) = false by decide]
      rw [hr rest]
    | endObj =>
      cases st with
      | nil => simpa [renderIndent, renderToks] using rel_map [] [] [125] (fun _ => rfl) (stable_lit _ (by decide)) (ih [] false hrest)
      | cons b r =>
        cases b
        · simpa [renderIndent, renderToks] using rel_map [] [] [125] (fun _ => rfl) (stable_lit _ (by decide)) (ih r false hrest)
        · have := rel_map (nl r.length) [] [125] (fun rest => by rw [compact_ws _ _ (nl_ws _)]; rfl) (stable_lit _ (by decide)) (ih r false hrest)
          simpa [renderIndent, renderToks] using this
    | endArr =>
      cases st with
      | nil => simpa [renderIndent, renderToks] using rel_map [] [] [93] (fun _ => rfl) (stable_lit _ (by decide)) (ih [] false hrest)
      | cons b r =>
        cases b
        · simpa [renderIndent, renderToks] using rel_map [] [] [93] (fun _ => rfl) (stable_lit _ (by decide)) (ih r false hrest)
        · have := rel_map (nl r.length) [] [93] (fun rest => by rw [compact_ws _ _ (nl_ws _)]; rfl) (stable_lit _ (by decide)) (ih r false hrest)
          simpa [renderIndent, renderToks] using this

end Evl.CloudEvents

namespace Evl.CloudEvents
open Evl.Json

theorem allStable_append (a b : List Tok) : allStable (a ++ b) ↔ allStable a ∧ allStable b := by
  induction a with
  | nil => simp [allStable]
  | cons t ts ih => simp [allStable, ih, and_assoc]

theorem numChar_plain (c : Nat) (h : isNumChar c = true) : isWs c = false ∧ c ≠ 34 := by
  simp only [isNumChar, isDigit, Bool.or_eq_true, Bool.and_eq_true, decide_eq_true_eq, beq_iff_eq] at h
  simp only [isWs, Bool.or_eq_false_iff, beq_eq_false_iff_ne, ne_eq]
  omega

theorem stable_num (lit : Bytes) (h : lit.all isNumChar = true) : Stable lit :=
  stable_plain lit (fun c hc => numChar_plain c (List.all_eq_true.mp h c hc))

mutual
/-- the compact text of a well-formed value is unaffected by compaction -/
theorem stable_renderJ : ∀ (v : J), wf v = true → Stable (renderJ v)
  | .null, _ => stable_lit _ (by decide)
  | .bool true, _ => stable_lit _ (by decide)
  | .bool false, _ => stable_lit _ (by decide)
  | .str s, _ => stable_quote s
  | .num lit, h => by
    simp only [wf, Bool.and_eq_true] at h
    exact stable_num lit h.1.2
  | .arr es, h => by
    simp only [wf] at h
    exact stable_append (stable_append (stable_lit [91] (by decide)) (stable_renderL false es h)) (stable_lit [93] (by decide))
  | .obj ms, h => by
    simp only [wf] at h
    exact stable_append (stable_append (stable_lit [123] (by decide)) (stable_renderM false ms h)) (stable_lit [125] (by decide))
theorem stable_renderL : ∀ (c : Bool) (es : JL), wfL es = true → Stable (renderL c es)
  | _, .nil, _ => stable_nil
  | c, .cons v r, h => by
    simp only [wfL, Bool.and_eq_true] at h
    have hc : Stable (if c = true then [44] else []) := by cases c <;> simp <;> first | exact stable_nil | exact stable_lit [44] (by decide)
    exact stable_append (stable_append hc (stable_renderJ v h.1)) (stable_renderL true r h.2)
theorem stable_renderM : ∀ (c : Bool) (ms : JM), wfM ms = true → Stable (renderM c ms)
  | _, .nil, _ => stable_nil
  | c, .cons k v r, h => by
    simp only [wfM, Bool.and_eq_true] at h
    have hc : Stable (if c = true then [44] else []) := by cases c <;> simp <;> first | exact stable_nil | exact stable_lit [44] (by decide)
    exact stable_append (stable_append (stable_append (stable_append hc (stable_quote k)) (stable_lit [58] (by decide))) (stable_renderJ v h.1))
      (stable_renderM true r h.2)
end

mutual
theorem allStable_toks : ∀ (v : J), wf v = true → allStable (toks v)
  | .null, _ => by simp [toks, allStable, tokStable]
  | .bool _, _ => by simp [toks, allStable, tokStable]
  | .str _, _ => by simp [toks, allStable, tokStable]
  | .num lit, h => by
    simp only [wf, Bool.and_eq_true] at h
    simp only [toks, allStable, tokStable, and_true]
    exact stable_num lit h.1.2
  | .arr es, h => by
    simp only [wf] at h
    simp only [toks, allStable_append, allStable, tokStable, true_and, and_true]
    exact allStable_toksL es h
  | .obj ms, h => by
    simp only [wf] at h
    simp only [toks, allStable_append, allStable, tokStable, true_and, and_true]
    exact allStable_toksM ms h
theorem allStable_toksL : ∀ (es : JL), wfL es = true → allStable (toksL es)
  | .nil, _ => by simp [toksL, allStable]
  | .cons v r, h => by
    simp only [wfL, Bool.and_eq_true] at h
    simp only [toksL, allStable_append]
    exact ⟨allStable_toks v h.1, allStable_toksL r h.2⟩
theorem allStable_toksM : ∀ (ms : JM), wfM ms = true → allStable (toksM ms)
  | .nil, _ => by simp [toksM, allStable]
  | .cons k v r, h => by
    simp only [wfM, Bool.and_eq_true] at h
    simp only [toksM, allStable_append, allStable, tokStable, true_and]
    exact ⟨allStable_toks v h.1, allStable_toksM r h.2⟩
end

/-- every token of the CloudEvents document is unaffected by compaction -/
theorem allStable_docToks (id source ty : Bytes) (data : Option J) (ct schema : Bytes) (tj : J) (sig : Option (Bytes × Bytes))
    (hd : ∀ d, data = some d → wf d = true) (ht : wf tj = true) :
    allStable (docToks id source ty (data.map toks) ct schema (renderJ tj) sig) := by
  have hT := stable_renderJ tj ht
  cases data with
  | none =>
    cases hs : schema.isEmpty <;> cases sig with
    | none => simp [docToks, allStable, allStable_append, tokStable, hs, hT]
    | some sm =>
      obtain ⟨ser, mac⟩ := sm
      cases h1 : ser.isEmpty <;> cases h2 : mac.isEmpty <;> simp [docToks, allStable, allStable_append, tokStable, hs, hT, h1, h2]
  | some d =>
    have hD := allStable_toks d (hd d rfl)
    cases hs : schema.isEmpty <;> cases sig with
    | none => simp [docToks, allStable, allStable_append, tokStable, hs, hT, hD]
    | some sm =>
      obtain ⟨ser, mac⟩ := sm
      cases h1 : ser.isEmpty <;> cases h2 : mac.isEmpty <;> simp [docToks, allStable, allStable_append, tokStable, hs, hT, hD, h1, h2]

/-- **The text format is the compact document, indented**: compacting what the formatter stores under
cloudevents-text (the indented rendering and its newline) gives the JSON text of `docJM` — the very bytes
`doc_render` describes for cloudevents-json, with the text content type. -/
theorem text_compacts (id source ty : Bytes) (data : Option J) (ct schema : Bytes) (tj : J) (sig : Option (Bytes × Bytes))
    (hd : ∀ d, data = some d → wf d = true) (ht : wf tj = true) (x : Bytes)
    (hx : renderIndent (docToks id source ty (data.map toks) ct schema (renderJ tj) sig) [] false = some x) :
    compact (x ++ [10]) = renderJ (.obj (docJM id source ty data ct schema tj sig)) := by
  have hr := compact_indent _ [] false (allStable_docToks id source ty data ct schema tj sig hd ht)
  have hdoc := doc_render id source ty data ct schema tj sig
  unfold render at hdoc
  rw [hx, hdoc] at hr
  simp only [Rel] at hr
  unfold compact
  rw [hr [10]]
  simp [compactS, isWs]

end Evl.CloudEvents

namespace Evl.CloudEvents
open Evl.Json

/-- the core of both verification theorems: the JSON text of a signed `docJM` verifies -/
theorem verifyDoc_docJM (signer : Bytes → Option Bytes) (id source ty : Bytes) (dv : Option J) (ct schema : Bytes) (tj : J)
    (u mac : Bytes) (hdw : ∀ d, dv = some d → wf d = true) (htw : wf tj = true)
    (hune : u ≠ []) (hb : ∀ b ∈ u, b < 256) (hsig : signer u = some mac) (hm1 : mac ≠ []) (hm2 : sanitize mac = mac) :
    verifyDoc signer (renderJ (.obj (docJM id source ty dv ct schema tj (some (b64 u, mac))))) = .verified := by
  have hser : b64 u ≠ [] := b64_nonempty u hune
  have hw : wf (.obj (docJM id source ty dv ct schema tj (some (b64 u, mac)))) = true := by
    have e1 : (b64 u).isEmpty = false := by cases h : b64 u <;> simp_all
    have e2 : mac.isEmpty = false := by cases mac <;> simp_all
    cases dv with
    | none => cases hsch : schema.isEmpty <;> simp [docJM, sigJM, wf, wfM, htw, e1, e2, hsch]
    | some d =>
      have := hdw d rfl
      cases hsch : schema.isEmpty <;> simp [docJM, sigJM, wf, wfM, htw, e1, e2, hsch, this]
  have hp := parse_render _ hw
  obtain ⟨k1, k2⟩ := member_serialized id source ty dv ct schema tj (b64 u) mac hser hm1
  have hsan : sanitize (b64 u) = b64 u := sanitize_ascii _ (b64_ascii u)
  unfold verifyDoc
  rw [hp]
  simp only [image, k1, k2, hsan, hm2, b64dec_b64 u hb, hsig, beq_self_eq_true, if_true]

end Evl.CloudEvents

namespace Evl.C18
open Evl.CloudEvents Evl.Json

/-- byte strings: the indented rendering too -/
theorem nl_ok (d : Nat) : bytesOK (nl d) := by
  intro c hc
  simp only [nl, indentOf, List.mem_cons, List.mem_replicate] at hc
  rcases hc with rfl | ⟨_, rfl⟩ <;> omega

/-- **A signed cloudevents-text document verifies**: compacted (as `json.Compact` does), the stored
indented document is the JSON text of the same object as in the compact format; its `serialized` member
base64url-decodes to exactly the (indented) unsigned document and `serialized_hmac` is the signer's
result for those bytes. -/
theorem signed_text_verifies (c : Cfg) (e : Ev) (signer : Bytes → Option Bytes) (p : Evl.CloudEvents.Pred) (f : Nat) (stored : Bytes)
    (hv : validate c = none) (hid : e.idIface ≠ some []) (hfmt : (c.format == .text) = true)
    (dv : Option J) (hd : e.data = dv.map toks) (hdw : ∀ d, dv = some d → wf d = true)
    (tj : J) (ht : e.timeTok = renderJ tj) (htw : wf tj = true)
    (u : Bytes) (hu : unsignedDoc c e = some u) (hb : ∀ b ∈ u, b < 256)
    (hs : c.hasSigner = true) (hl : c.signTypes.contains e.ty = true)
    (hmac : ∀ mac, signer u = some mac → mac ≠ [] ∧ sanitize mac = mac)
    (hfw : process c e signer p = .forward f stored) :
    verifyText signer stored = .verified := by
  obtain ⟨mac, hsig, hst⟩ := signed c e signer p f stored hv hid u hu hs hl hfw
  obtain ⟨hm1, hm2⟩ := hmac mac hsig
  have hune : u ≠ [] := by
    unfold unsignedDoc encode at hu
    intro h; subst h
    cases hr : (if (c.format == Format.text) = true then renderIndent (docToks (idOf e) (c.source.getD []) e.ty e.data
        (if (c.format == Format.text) = true then ctText else ctJSON) (c.schema.getD []) e.timeTok none) [] false
      else render (docToks (idOf e) (c.source.getD []) e.ty e.data
        (if (c.format == Format.text) = true then ctText else ctJSON) (c.schema.getD []) e.timeTok none)) with
    | none => simp [hr] at hu
    | some x => simp [hr] at hu
  rw [hfmt] at hst
  simp only [if_true, encode, hd, ht] at hst
  cases hx : renderIndent (docToks (idOf e) (c.source.getD []) e.ty (dv.map toks) ctText (c.schema.getD []) (renderJ tj)
      (some (b64 u, mac))) [] false with
  | none => simp [hx] at hst
  | some x =>
    simp only [hx, Option.map_some, Option.some.injEq] at hst
    subst hst
    unfold verifyText
    rw [text_compacts _ _ _ dv ctText _ tj _ hdw htw x hx]
    exact verifyDoc_docJM signer _ _ _ dv ctText _ tj u mac hdw htw hune hb hsig hm1 hm2

end Evl.C18

namespace Evl.CloudEvents
open Evl.Json Evl.C18

theorem preI_ok (st : Stack) (ak : Bool) : bytesOK (preI st ak).1 := by
  unfold preI
  cases ak
  · rcases st with _ | ⟨_ | _, r⟩
    · exact bytesOK_nil
    · exact nl_ok _
    · exact bytesOK_cons.mpr ⟨by omega, nl_ok _⟩
  · exact bytesOK_nil

theorem map_ok (o : Option Bytes) (a : Bytes) (out : Bytes) (ha : bytesOK a) (hr : ∀ r, o = some r → bytesOK r)
    (h : o.map (a ++ ·) = some out) : bytesOK out := by
  cases o with
  | none => simp at h
  | some r => simp only [Option.map_some, Option.some.injEq] at h; subst h; exact bytesOK_append.mpr ⟨ha, hr r rfl⟩

theorem renderIndent_ok : ∀ (ts : List Tok) (st : Stack) (ak : Bool) (out : Bytes),
    (∀ t ∈ ts, tokOK t) → renderIndent ts st ak = some out → bytesOK out := by
  intro ts
  induction ts with
  | nil => intro st ak out _ h; simp [renderIndent] at h; subst h; exact bytesOK_nil
  | cons t ts ih =>
    intro st ak out hts h
    have ht := hts t (by simp)
    have hrest : ∀ t' ∈ ts, tokOK t' := fun t' h' => hts t' (by simp [h'])
    have lit : ∀ (l : Bytes), (∀ x ∈ l, x < 256) → bytesOK l := fun l h => h
    have hp := preI_ok st ak
    cases t with
    | unsupported => simp [renderIndent] at h
    | null =>
      rw [ri_val .null [110, 117, 108, 108] ts st ak (by simp)] at h
      exact map_ok _ _ _ (bytesOK_append.mpr ⟨hp, lit _ (by decide)⟩) (fun r hr => ih _ _ r hrest hr) h
    | bool b =>
      cases b
      · rw [ri_val (.bool false) [102, 97, 108, 115, 101] ts st ak (by simp)] at h
        exact map_ok _ _ _ (bytesOK_append.mpr ⟨hp, lit _ (by decide)⟩) (fun r hr => ih _ _ r hrest hr) h
      · rw [ri_val (.bool true) [116, 114, 117, 101] ts st ak (by simp)] at h
        exact map_ok _ _ _ (bytesOK_append.mpr ⟨hp, lit _ (by decide)⟩) (fun r hr => ih _ _ r hrest hr) h
    | num tk =>
      rw [ri_val (.num tk) tk ts st ak (by simp)] at h
      exact map_ok _ _ _ (bytesOK_append.mpr ⟨hp, ht⟩) (fun r hr => ih _ _ r hrest hr) h
    | str s =>
      rw [ri_val (.str s) (quote s) ts st ak (by simp)] at h
      exact map_ok _ _ _ (bytesOK_append.mpr ⟨hp, quote_ok s ht⟩) (fun r hr => ih _ _ r hrest hr) h
    | beginObj =>
      rw [ri_open .beginObj 123 ts st ak (by simp)] at h
      exact map_ok _ _ _ (bytesOK_append.mpr ⟨hp, lit _ (by decide)⟩) (fun r hr => ih _ _ r hrest hr) h
    | beginArr =>
      rw [ri_open .beginArr 91 ts st ak (by simp)] at h
      exact map_ok _ _ _ (bytesOK_append.mpr ⟨hp, lit _ (by decide)⟩) (fun r hr => ih _ _ r hrest hr) h
    | key s =>
      rw [ri_key] at h
      exact map_ok _ _ _ (bytesOK_append.mpr ⟨bytesOK_append.mpr ⟨preI_ok st false, quote_ok s ht⟩, lit _ (by decide)⟩)
        (fun r hr => ih _ _ r hrest hr) h
    | endObj =>
      rcases st with _ | ⟨_ | _, r⟩
      · simp only [renderIndent] at h
        exact map_ok _ [125] _ (lit _ (by decide)) (fun r hr => ih _ _ r hrest hr) h
      · simp only [renderIndent] at h
        exact map_ok _ [125] _ (lit _ (by decide)) (fun r hr => ih _ _ r hrest hr) h
      · simp only [renderIndent] at h
        exact map_ok _ (nl r.length ++ [125]) _ (bytesOK_append.mpr ⟨nl_ok _, lit _ (by decide)⟩) (fun r hr => ih _ _ r hrest hr) h
    | endArr =>
      rcases st with _ | ⟨_ | _, r⟩
      · simp only [renderIndent] at h
        exact map_ok _ [93] _ (lit _ (by decide)) (fun r hr => ih _ _ r hrest hr) h
      · simp only [renderIndent] at h
        exact map_ok _ [93] _ (lit _ (by decide)) (fun r hr => ih _ _ r hrest hr) h
      · simp only [renderIndent] at h
        exact map_ok _ (nl r.length ++ [93]) _ (bytesOK_append.mpr ⟨nl_ok _, lit _ (by decide)⟩) (fun r hr => ih _ _ r hrest hr) h

end Evl.CloudEvents

namespace Evl.C18
open Evl.CloudEvents Evl.Json

theorem unsigned_bytes_text (c : Cfg) (e : Ev) (hfmt : (c.format == .text) = true) (hi : InputsOK c e)
    (u : Bytes) (hu : unsignedDoc c e = some u) : bytesOK u := by
  unfold unsignedDoc encode at hu
  simp only [hfmt, if_true] at hu
  cases hr : renderIndent (docToks (idOf e) (c.source.getD []) e.ty e.data ctText (c.schema.getD []) e.timeTok none) [] false with
  | none => simp [hr] at hu
  | some r =>
    simp only [hr, Option.map_some, Option.some.injEq] at hu
    subst hu
    refine bytesOK_append.mpr ⟨renderIndent_ok _ _ _ _ (allOK_mem _ ?_) hr, fun x hx => by simp at hx; omega⟩
    have k : ∀ (s : String), (∀ b ∈ str s, b < 256) → bytesOK (str s) := fun _ h => h
    have k1 := k "id" (by decide +kernel)
    have k2 := k "source" (by decide +kernel)
    have k3 := k "specversion" (by decide +kernel)
    have k4 := k "1.0" (by decide +kernel)
    have k5 := k "type" (by decide +kernel)
    have k6 := k "data" (by decide +kernel)
    have k7 := k "datacontentype" (by decide +kernel)
    have k8 := k "dataschema" (by decide +kernel)
    have k9 := k "time" (by decide +kernel)
    have k10 : bytesOK ctText := k "text/plain" (by decide +kernel)
    cases hd : e.data with
    | none =>
      cases hs : (c.schema.getD []).isEmpty <;>
        simp [docToks, hs, allOK, tokOK, k1, k2, k3, k4, k5, k7, k8, k9, k10, hi.id, hi.source, hi.schema, hi.ty, hi.time]
    | some d =>
      have hdd := hi.data d hd
      cases hs : (c.schema.getD []).isEmpty <;>
        simp [docToks, hs, allOK, allOK_append, tokOK, k1, k2, k3, k4, k5, k6, k7, k8, k9, k10, hi.id, hi.source, hi.schema, hi.ty, hi.time, hdd]

/-- **A signed cloudevents-text document verifies** — `signed_text_verifies` with the byte-string premise
discharged from the inputs. -/
theorem signed_text_document_verifies (c : Cfg) (e : Ev) (signer : Bytes → Option Bytes) (p : Evl.CloudEvents.Pred) (f : Nat) (stored : Bytes)
    (hv : validate c = none) (hid : e.idIface ≠ some []) (hfmt : (c.format == .text) = true) (hi : InputsOK c e)
    (dv : Option J) (hd : e.data = dv.map toks) (hdw : ∀ d, dv = some d → wf d = true)
    (tj : J) (ht : e.timeTok = renderJ tj) (htw : wf tj = true)
    (u : Bytes) (hu : unsignedDoc c e = some u)
    (hs : c.hasSigner = true) (hl : c.signTypes.contains e.ty = true)
    (hmac : ∀ mac, signer u = some mac → mac ≠ [] ∧ sanitize mac = mac)
    (hfw : process c e signer p = .forward f stored) :
    verifyText signer stored = .verified :=
  signed_text_verifies c e signer p f stored hv hid hfmt dv hd hdw tj ht htw u hu (unsigned_bytes_text c e hfmt hi u hu) hs hl hmac hfw

/-- `json.Compact` as modelled: white space outside strings goes, inside strings stays -/
example : compact [123, 10, 32, 32, 34, 97, 32, 34, 58, 32, 91, 49, 44, 10, 50, 93, 10, 125, 10] = [123, 34, 97, 32, 34, 58, 91, 49, 44, 50, 93, 125] := by
  decide
example : compact [34, 92, 34, 32, 34, 32] = [34, 92, 34, 32, 34] := by decide

end Evl.C18
