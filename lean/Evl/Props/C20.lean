import Evl.Lemmas.RegistryInv
/-!
# C20 — Reopen reaches every node of every registered pipeline

Model: M1 `Registry` (`Broker.Reopen` → `graph.reopen` → `doReopen`).  `stepReopen` walks every
registered pipeline; a pipeline's walk stops at its first failing node.  The theorems hold for every
broker state (hence every reachable one) and every choice of the failing instance.

Modelled, not proved: `Broker.Reopen` returns at the first *graph* that reports an error, in Go's
random map order, so with a failing node the set of other nodes reached is schedule-dependent; the
property only requires the error to be carried, which is what `reopen_error` states.
-/
namespace Evl.C20
open Evl.Registry

theorem reopenChain_ok (f : Nat) (ns : List Bound) (h : f = 0 ∨ ∀ n ∈ ns, n.inst ≠ f) :
    reopenChain f ns = (ns.map (·.inst), false) := by
  induction ns with
  | nil => rfl
  | cons n rest ih =>
    unfold reopenChain
    have hc : (f != 0 && n.inst == f) = false := by
      rcases h with h | h
      · simp [h]
      · have := h n (by simp); simp [this]
    rw [if_neg (by simp [hc])]
    have := ih (by
      rcases h with h | h
      · exact Or.inl h
      · exact Or.inr (fun m hm => h m (by simp [hm])))
    rw [this]
    rfl

theorem reopenChain_fail (f : Nat) (ns : List Bound) (hf : f ≠ 0) (h : ∃ n ∈ ns, n.inst = f) :
    (reopenChain f ns).2 = true ∧ f ∈ (reopenChain f ns).1 := by
  induction ns with
  | nil => simp at h
  | cons n rest ih =>
    unfold reopenChain
    by_cases hc : (f != 0 && n.inst == f) = true
    · rw [if_pos hc]
      simp only [Bool.and_eq_true, bne_iff_ne, beq_iff_eq] at hc
      exact ⟨rfl, by simp [hc.2]⟩
    · rw [if_neg hc]
      have hne : n.inst ≠ f := by
        intro heq; apply hc; simp [heq, hf]
      obtain ⟨m, hm, hmf⟩ := h
      rw [List.mem_cons] at hm
      have : ∃ n ∈ rest, n.inst = f := by
        rcases hm with hm | hm
        · subst hm; exact absurd hmf hne
        · exact ⟨m, hm, hmf⟩
      obtain ⟨h1, h2⟩ := ih this
      exact ⟨h1, List.mem_cons_of_mem _ h2⟩

/-- When no node fails, Reopen is invoked on every node of every registered pipeline (once per
occurrence) and the call reports success. -/
theorem reopen_all (b : Broker) (f : Nat) (h : f = 0 ∨ ∀ p ∈ b.pipes, ∀ n ∈ p.nodes, n.inst ≠ f) :
    (step b (.reopen f)).2 = .reopened (b.pipes.flatMap (fun p => p.nodes.map (·.inst))) false := by
  show (stepReopen b f).2 = _
  unfold stepReopen
  have : b.pipes.map (fun p => reopenChain f p.nodes) = b.pipes.map (fun p => (p.nodes.map (·.inst), false)) := by
    apply List.map_congr_left
    intro p hp
    apply reopenChain_ok
    rcases h with h | h
    · exact Or.inl h
    · exact Or.inr (h p hp)
  simp only [this, List.flatMap_map, List.any_map]
  congr 1
  · induction b.pipes with
    | nil => rfl
    | cons p ps ih => simp [List.any_cons, ih]

/-- every node of every registered pipeline is reached at least once -/
theorem reopen_reaches_every_node (b : Broker) (p : Pipe) (hp : p ∈ b.pipes) (n : Bound) (hn : n ∈ p.nodes) :
    ∃ calls, (step b (.reopen 0)).2 = .reopened calls false ∧ n.inst ∈ calls := by
  refine ⟨_, reopen_all b 0 (Or.inl rfl), ?_⟩
  rw [List.mem_flatMap]
  exact ⟨p, hp, List.mem_map.mpr ⟨n, hn, rfl⟩⟩

/-- If a node of a registered pipeline fails its Reopen, Broker.Reopen reports failure, and the
failing node's Reopen is among the calls made (its error is the one carried). -/
theorem reopen_error (b : Broker) (f : Nat) (hf : f ≠ 0) (p : Pipe) (hp : p ∈ b.pipes) (n : Bound)
    (hn : n ∈ p.nodes) (hnf : n.inst = f) :
    ∃ calls, (step b (.reopen f)).2 = .reopened calls true ∧ f ∈ calls := by
  show ∃ calls, (stepReopen b f).2 = _ ∧ _
  unfold stepReopen
  obtain ⟨h1, h2⟩ := reopenChain_fail f p.nodes hf ⟨n, hn, hnf⟩
  refine ⟨(b.pipes.map (fun p => reopenChain f p.nodes)).flatMap (·.1), ?_, ?_⟩
  · simp only [Res.reopened.injEq, true_and]
    rw [List.any_eq_true]
    exact ⟨reopenChain f p.nodes, List.mem_map.mpr ⟨p, hp, rfl⟩, h1⟩
  · rw [List.mem_flatMap]
    exact ⟨reopenChain f p.nodes, List.mem_map.mpr ⟨p, hp, rfl⟩, h2⟩

/-- Non-vacuity: two event types, a shared node, a removed pipeline. -/
def demoB : Broker := run init
  [ .regNode 1 1 .pass false .dflt, .regNode 2 2 .pass false .dflt, .regNode 3 3 .drop false .dflt,
    .regPipe 1 1 [1, 2, 3] .dflt, .regPipe 2 1 [2, 3] .dflt, .regPipe 1 2 [2, 3] .dflt, .removePipe 1 2 ]
example : (step demoB (.reopen 0)).2 = .reopened [1, 2, 3, 2, 3] false := by decide
example : (step demoB (.reopen 2)).2 = .reopened [1, 2, 2] true := by decide

end Evl.C20
