import Evl.Model.Encrypt
/-!
# C09 — encrypt.Filter leaks no classified plaintext (secure default, fails closed)

Model: M7 `Encrypt` — tag resolution (`getClassificationFromTag(String)`, `convertToOperation`),
the decision of `filterValue`, and `Process` on pointers to flat structs of string / []byte fields,
compared leaf by leaf with the implementation (every produced value is decrypted / recomputed with
independent code).

**Scope (labelled partial).** The theorems below are about tag resolution for *every* tag string and
override map, and about flat struct payloads with any number of fields.  Nested shapes (structs
through pointers, slices, maps, struct values inside maps, bare maps …) are decided on the
implementation by the harness's canary oracle, not by a Lean theorem; Taggable and wrapper-value
fields are not exercised at all.
**Known finding F6c (genuine defect, recorded):** a payload that is a struct passed *by value* is
forwarded with its sensitive / secret fields in plaintext (its fields are not settable and
`filterValue` silently skips them).  The library's own `ExampleFilter` pins that output, so the
repair cannot be made without editing the tests.  Repaired by a `fix:` commit: bare map payloads,
struct values held in maps, panics on nil pointers in slices.
-/
namespace Evl.C09
open Evl.Encrypt

/-- **Secure default of tag resolution.** For every tag string and every override map, a value is
left in plaintext only if its classification segment is literally `public`, or an override maps
that very classification to "no operation". -/
theorem defaulted_ne_none (d op : Op) (hd : d ≠ .none) : defaulted d op ≠ .none := by
  unfold defaulted; split <;> simp_all

theorem action_keep_iff (c : Cls) (op : Op) : action { cls := c, op := op } = .keep ↔ c = .pub ∨ op = .none := by
  unfold action
  constructor
  · intro h
    by_cases hc : c = .pub ∨ op = .none
    · exact hc
    · simp only [hc, if_false] at h
      cases c <;> cases op <;> simp at h
  · intro h; simp [h]

theorem tag_secure (tag : Bytes) (ov : Overrides) (h : action (fromTagString tag ov) = .keep) :
    (splitComma tag).1 = sPublic ∨ lookupOv ov (splitComma tag).1 = some .none := by
  unfold fromTagString at h
  cases hov : lookupOv ov (splitComma tag).1 with
  | some o =>
    simp only [hov] at h
    rcases (action_keep_iff _ _).mp h with hc | ho
    · left
      by_cases hp : (splitComma tag).1 = sPublic
      · exact hp
      · simp only [hp, if_false] at hc
        split at hc
        · cases hc
        · split at hc <;> cases hc
    · right; rw [ho]
  | none =>
    simp only [hov] at h
    by_cases hp : (splitComma tag).1 = sPublic
    · exact Or.inl hp
    · exfalso
      simp only [hp, if_false] at h
      by_cases h1 : (splitComma tag).1 = sSensitive
      · simp only [h1, if_true] at h
        rcases (action_keep_iff _ _).mp h with hc | ho
        · cases hc
        · exact defaulted_ne_none .encrypt _ (by simp) ho
      · simp only [h1, if_false] at h
        by_cases h2 : (splitComma tag).1 = sSecret
        · simp only [h2, if_true] at h
          rcases (action_keep_iff _ _).mp h with hc | ho
          · cases hc
          · exact defaulted_ne_none .redact _ (by simp) ho
        · simp only [h2, if_false] at h
          rcases (action_keep_iff _ _).mp h with hc | ho
          · cases hc
          · cases ho

/-- untagged fields and unknown classification spellings (any case) are redacted -/
theorem unknown_redacted (tag : Bytes) (ov : Overrides)
    (h1 : (splitComma tag).1 ≠ sPublic) (h2 : (splitComma tag).1 ≠ sSensitive) (h3 : (splitComma tag).1 ≠ sSecret)
    (hov : lookupOv ov (splitComma tag).1 = none) :
    action (fromTagString tag ov) = .redact ∧ action (fromTag none ov) = .redact := by
  unfold fromTagString fromTag
  simp [hov, h1, h2, h3, action]

/-- the operation segment is case-insensitive and unknown spellings fall back to the default -/
example : convertToOperation [72, 77, 65, 67, 45, 83, 72, 65, 50, 53, 54] = .hmac := by decide
example : action (fromTagString (sSensitive ++ [44, 98, 111, 103, 117, 115]) []) = .encrypt := by decide
example : action (fromTagString [83, 101, 110, 115, 105, 116, 105, 118, 101] []) = .redact := by decide  -- "Sensitive"

theorem filterFields_length (k : Keys) (ek : Option EventKeys) (ov : Overrides) :
    ∀ (fs : List Field) (ls : List Leaf), filterFields k ek ov fs = some ls → ls.length = fs.length := by
  intro fs
  induction fs with
  | nil => intro ls h; simp [filterFields] at h; subst h; rfl
  | cons f fs ih =>
    intro ls h
    unfold filterFields at h
    cases h1 : filterOne k ek ov f with
    | none => simp [h1] at h
    | some l =>
      cases h2 : filterFields k ek ov fs with
      | none => simp [h1, h2] at h
      | some ls' =>
        simp [h1, h2] at h; subst h
        simp [ih ls' h2]

/-- what one field may come out as -/
def Protected (m : Nat) (l : Leaf) : Prop :=
  l = .redacted ∨ (∃ key, l = .enc key m) ∨ (∃ key s i, l = .mac key s i m)

theorem filterOne_noleak (k : Keys) (ek : Option EventKeys) (ov : Overrides) (f : Field) (l : Leaf) (m : Nat)
    (hex : f.exported = true) (hk : f.kind = .str m ∨ f.kind = .bytes (some m))
    (ha : action (fromTag f.tag ov) ≠ .keep) (h : filterOne k ek ov f = some l) : Protected m l := by
  unfold filterOne at h
  simp only [hex, Bool.not_true, Bool.false_eq_true, if_false] at h
  rcases hk with hk | hk <;> simp only [hk] at h <;>
    (cases hact : action (fromTag f.tag ov) <;> simp only [hact] at h ha) <;>
    first
    | exact absurd rfl ha
    | (injection h with h; subst h; exact Or.inl rfl)
    | (cases hkey : keyFor k ek <;> simp [hkey] at h; subst h; first | exact Or.inr (Or.inl ⟨_, rfl⟩) | exact Or.inr (Or.inr ⟨_, _, _, rfl⟩))
    | cases h

/-- **No leak (flat structs, any number of fields).** If Process forwards a filtered copy, every
exported string / []byte field not resolved to "keep" is redacted, encrypted or HMAC-ed. -/
theorem flat_noleak (k : Keys) (ek : Option EventKeys) (ov : Overrides) :
    ∀ (fs : List Field) (ls : List Leaf), filterFields k ek ov fs = some ls →
      ∀ i (hi : i < fs.length) (hl : i < ls.length) (m : Nat), (fs[i]).exported = true →
        ((fs[i]).kind = .str m ∨ (fs[i]).kind = .bytes (some m)) → action (fromTag (fs[i]).tag ov) ≠ .keep →
        Protected m (ls[i]) := by
  intro fs
  induction fs with
  | nil => intro ls _ i hi; simp at hi
  | cons f fs ih =>
    intro ls h i hi hl m hex hk ha
    unfold filterFields at h
    cases h1 : filterOne k ek ov f with
    | none => simp [h1] at h
    | some l =>
      cases h2 : filterFields k ek ov fs with
      | none => simp [h1, h2] at h
      | some ls' =>
        simp [h1, h2] at h; subst h
        cases i with
        | zero => simp at hex hk ha ⊢; exact filterOne_noleak k ek ov f l m hex hk ha h1
        | succ j =>
          simp at hex hk ha ⊢
          exact ih ls' h2 j (by simp at hi; omega) (by simp at hl; omega) m hex hk ha

/-- **Fails closed.** A field whose operation cannot be carried out (unknown operation, or encrypt /
hmac without any wrapper) makes Process return an error — never a partly filtered copy. -/
theorem fail_closed (k : Keys) (ek : Option EventKeys) (fails : Bool) (ov : Overrides) (fs : List Field) (f : Field)
    (hf : f ∈ fs) (hex : f.exported = true) (m : Nat) (hk : f.kind = .str m)
    (hbad : action (fromTag f.tag ov) = .error ∨
      ((action (fromTag f.tag ov) = .encrypt ∨ action (fromTag f.tag ov) = .hmac) ∧ keyFor k ek = none)) :
    ∀ ls, processFlat k ek fails ov fs ≠ .filtered ls := by
  have hone : filterOne k ek ov f = none := by
    unfold filterOne
    simp only [hex, Bool.not_true, Bool.false_eq_true, if_false, hk]
    rcases hbad with h | ⟨h | h, hkey⟩ <;> simp [h, *]
  have hall : ∀ fs, f ∈ fs → filterFields k ek ov fs = none := by
    intro fs
    induction fs with
    | nil => intro h; simp at h
    | cons g gs ih =>
      intro h
      unfold filterFields
      rw [List.mem_cons] at h
      rcases h with h | h
      · subst h; simp [hone]
      · simp [ih h]
  intro ls
  unfold processFlat
  split
  · simp
  split
  · simp
  split
  · simp
  · simp [hall fs hf]

end Evl.C09
