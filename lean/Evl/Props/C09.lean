import Evl.Model.Encrypt
import Evl.Lemmas.EncryptTree
import Evl.Lemmas.EncryptTag
/-!
# C09 — encrypt.Filter leaks no classified plaintext (secure default, fails closed)

Model: M7 `Encrypt` — tag resolution (`getClassificationFromTag(String)`, `convertToOperation`),
the decision of `filterValue`, and `Process` on pointers to flat structs of string / []byte fields,
compared leaf by leaf with the implementation (every produced value is decrypted / recomputed with
independent code).

**Scope (labelled partial).** The theorems below are about tag resolution for *every* tag string and
override map, and about flat struct payloads with any number of fields.  Nested shapes (structs
through pointers, slices, maps, struct values inside maps, bare maps …) are decided on the
implementation by the harness's canary oracle, not by a Lean theorem; Taggable and wrapper-value
fields are not exercised at all.
**Known finding F6c (genuine defect, recorded):** a payload that is a struct passed *by value* is
forwarded with its sensitive / secret fields in plaintext (its fields are not settable and
`filterValue` silently skips them).  The library's own `ExampleFilter` pins that output, so the
repair cannot be made without editing the tests.  Repaired by a `fix:` commit: bare map payloads,
struct values held in maps, panics on nil pointers in slices.
-/
namespace Evl.C09
open Evl.Encrypt

/-- **Secure default of tag resolution.** For every tag string and every override map, a value is
left in plaintext only if its classification segment is literally `public`, or an override maps
that very classification to "no operation". -/
theorem defaulted_ne_none (d op : Op) (hd : d ≠ .none) : defaulted d op ≠ .none := by
  unfold defaulted; split <;> simp_all

theorem action_keep_iff (c : Cls) (op : Op) : action { cls := c, op := op } = .keep ↔ c = .pub ∨ op = .none := by
  unfold action
  constructor
  · intro h
    by_cases hc : c = .pub ∨ op = .none
    · exact hc
    · simp only [hc, if_false] at h
      cases c <;> cases op <;> simp at h
  · intro h; simp [h]

theorem tag_secure (tag : Bytes) (ov : Overrides) (h : action (fromTagString tag ov) = .keep) :
    (splitComma tag).1 = sPublic ∨ lookupOv ov (splitComma tag).1 = some .none := by
  unfold fromTagString at h
  cases hov : lookupOv ov (splitComma tag).1 with
  | some o =>
    simp only [hov] at h
    rcases (action_keep_iff _ _).mp h with hc | ho
    · left
      by_cases hp : (splitComma tag).1 = sPublic
      · exact hp
      · simp only [hp, if_false] at hc
        split at hc
        · cases hc
        · split at hc <;> cases hc
    · right; rw [ho]
  | none =>
    simp only [hov] at h
    by_cases hp : (splitComma tag).1 = sPublic
    · exact Or.inl hp
    · exfalso
      simp only [hp, if_false] at h
      by_cases h1 : (splitComma tag).1 = sSensitive
      · simp only [h1, if_true] at h
        rcases (action_keep_iff _ _).mp h with hc | ho
        · cases hc
        · exact defaulted_ne_none .encrypt _ (by simp) ho
      · simp only [h1, if_false] at h
        by_cases h2 : (splitComma tag).1 = sSecret
        · simp only [h2, if_true] at h
          rcases (action_keep_iff _ _).mp h with hc | ho
          · cases hc
          · exact defaulted_ne_none .redact _ (by simp) ho
        · simp only [h2, if_false] at h
          rcases (action_keep_iff _ _).mp h with hc | ho
          · cases hc
          · cases ho

/-- untagged fields and unknown classification spellings (any case) are redacted -/
theorem unknown_redacted (tag : Bytes) (ov : Overrides)
    (h1 : (splitComma tag).1 ≠ sPublic) (h2 : (splitComma tag).1 ≠ sSensitive) (h3 : (splitComma tag).1 ≠ sSecret)
    (hov : lookupOv ov (splitComma tag).1 = none) :
    action (fromTagString tag ov) = .redact ∧ action (fromTag none ov) = .redact := by
  unfold fromTagString fromTag
  simp [hov, h1, h2, h3, action]

/-- the operation segment is case-insensitive and unknown spellings fall back to the default -/
example : convertToOperation [72, 77, 65, 67, 45, 83, 72, 65, 50, 53, 54] = .hmac := by decide
example : action (fromTagString (sSensitive ++ [44, 98, 111, 103, 117, 115]) []) = .encrypt := by decide
example : action (fromTagString [83, 101, 110, 115, 105, 116, 105, 118, 101] []) = .redact := by decide  -- "Sensitive"

theorem filterFields_length (k : Keys) (ek : Option EventKeys) (ov : Overrides) :
    ∀ (fs : List Field) (ls : List FOut), filterFields k ek ov fs = some ls → ls.length = fs.length := by
  intro fs
  induction fs with
  | nil => intro ls h; simp [filterFields] at h; subst h; rfl
  | cons f fs ih =>
    intro ls h
    unfold filterFields at h
    cases h1 : filterOne k ek ov f with
    | none => simp [h1] at h
    | some l =>
      cases h2 : filterFields k ek ov fs with
      | none => simp [h1, h2] at h
      | some ls' =>
        simp [h1, h2] at h; subst h
        simp [ih ls' h2]

/-- what a protected value may come out as -/
def Protected (m : Nat) (l : Leaf) : Prop :=
  l = .redacted ∨ (∃ key, l = .enc key m) ∨ (∃ key s i, l = .mac key s i m)

theorem filterLeaf_noleak (k : Keys) (ek : Option EventKeys) (a : Action) (m : Nat) (l : Leaf)
    (ha : a ≠ .keep) (h : filterLeaf k ek a m = some l) : Protected m l := by
  unfold filterLeaf at h
  cases a with
  | keep => exact absurd rfl ha
  | redact => injection h with h; subst h; exact Or.inl rfl
  | encrypt =>
    cases hkey : keyFor k ek with
    | none => simp [hkey] at h
    | some key => simp [hkey] at h; subst h; exact Or.inr (Or.inl ⟨_, rfl⟩)
  | hmac =>
    cases hkey : keyFor k ek with
    | none => simp [hkey] at h
    | some key => simp [hkey] at h; subst h; exact Or.inr (Or.inr ⟨_, _, _, rfl⟩)
  | error => cases h

/-- a scalar string / []byte field not resolved to "keep" comes out protected -/
theorem filterOne_noleak (k : Keys) (ek : Option EventKeys) (ov : Overrides) (f : Field) (o : FOut) (m : Nat)
    (hex : f.exported = true) (hk : f.kind = .str m ∨ f.kind = .bytes (some m))
    (ha : action (fromTag f.tag ov) ≠ .keep) (h : filterOne k ek ov f = some o) : ∃ l, o = .one l ∧ Protected m l := by
  unfold filterOne at h
  simp only [hex, Bool.not_true, Bool.false_eq_true, if_false] at h
  rcases hk with hk | hk <;> simp only [hk] at h <;>
    (cases hl : filterLeaf k ek (action (fromTag f.tag ov)) m with
     | none => simp [hl] at h
     | some l => simp [hl] at h; exact ⟨l, h.symm, filterLeaf_noleak k ek _ m l ha hl⟩)

/-- every non-nil element of a filtered slice comes out protected, position by position -/
theorem filterElems_noleak (k : Keys) (ek : Option EventKeys) (a : Action) (ha : a ≠ .keep) :
    ∀ (ms : List (Option Nat)) (ls : List Leaf), filterElems k ek a ms = some ls →
      ls.length = ms.length ∧ ∀ i (hi : i < ms.length) (hl : i < ls.length) (m : Nat), ms[i] = some m → Protected m (ls[i]) := by
  intro ms
  induction ms with
  | nil => intro ls h; simp [filterElems] at h; subst h; exact ⟨rfl, fun i hi => by simp at hi⟩
  | cons x rest ih =>
    intro ls h
    cases x with
    | none =>
      simp only [filterElems] at h
      cases hr : filterElems k ek a rest with
      | none => simp [hr] at h
      | some ls' =>
        simp [hr] at h; subst h
        obtain ⟨hlen, hall⟩ := ih ls' hr
        refine ⟨by simp [hlen], ?_⟩
        intro i hi hl m hm
        cases i with
        | zero => simp at hm
        | succ j => simp at hm ⊢; exact hall j (by simp at hi; omega) (by simp at hl; omega) m hm
    | some m0 =>
      simp only [filterElems] at h
      cases hl0 : filterLeaf k ek a m0 with
      | none => simp [hl0] at h
      | some l0 =>
        simp only [hl0] at h
        cases hr : filterElems k ek a rest with
        | none => simp [hr] at h
        | some ls' =>
          simp [hr] at h; subst h
          obtain ⟨hlen, hall⟩ := ih ls' hr
          refine ⟨by simp [hlen], ?_⟩
          intro i hi hl m hm
          cases i with
          | zero => simp at hm ⊢; subst hm; exact filterLeaf_noleak k ek a m0 l0 ha hl0
          | succ j => simp at hm ⊢; exact hall j (by simp at hi; omega) (by simp at hl; omega) m hm

/-- a class-tagged []string / [][]byte field that is not public: every element is protected -/
theorem slice_noleak (k : Keys) (ek : Option EventKeys) (ov : Overrides) (f : Field) (o : FOut) (ms : List (Option Nat))
    (hex : f.exported = true) (hk : f.kind = .bss ms ∨ ∃ ss, f.kind = .strs ss ∧ ms = ss.map some)
    (hpub : (fromTag f.tag ov).cls ≠ .pub) (ha : action (fromTag f.tag ov) ≠ .keep)
    (h : filterOne k ek ov f = some o) :
    ∃ ls, o = .many ls ∧ ls.length = ms.length ∧
      ∀ i (hi : i < ms.length) (hl : i < ls.length) (m : Nat), ms[i] = some m → Protected m (ls[i]) := by
  unfold filterOne at h
  simp only [hex, Bool.not_true, Bool.false_eq_true, if_false] at h
  rcases hk with hk | ⟨ss, hk, hms⟩
  · simp only [hk, hpub, if_false] at h
    cases he : filterElems k ek (action (fromTag f.tag ov)) ms with
    | none => simp [he] at h
    | some ls =>
      simp [he] at h
      obtain ⟨h1, h2⟩ := filterElems_noleak k ek _ ha ms ls he
      exact ⟨ls, h.symm, h1, h2⟩
  · simp only [hk, hpub, if_false] at h
    cases he : filterElems k ek (action (fromTag f.tag ov)) (ss.map some) with
    | none => simp [he] at h
    | some ls =>
      simp [he] at h
      subst hms
      obtain ⟨h1, h2⟩ := filterElems_noleak k ek _ ha (ss.map some) ls he
      exact ⟨ls, h.symm, h1, h2⟩

/-- **No leak (flat structs, any number of fields).** If Process forwards a filtered copy, every
exported string / []byte field not resolved to "keep" is redacted, encrypted or HMAC-ed. -/
theorem flat_noleak (k : Keys) (ek : Option EventKeys) (ov : Overrides) :
    ∀ (fs : List Field) (ls : List FOut), filterFields k ek ov fs = some ls →
      ∀ i (hi : i < fs.length) (hl : i < ls.length) (m : Nat), (fs[i]).exported = true →
        ((fs[i]).kind = .str m ∨ (fs[i]).kind = .bytes (some m)) → action (fromTag (fs[i]).tag ov) ≠ .keep →
        ∃ l, ls[i] = .one l ∧ Protected m l := by
  intro fs
  induction fs with
  | nil => intro ls _ i hi; simp at hi
  | cons f fs ih =>
    intro ls h i hi hl m hex hk ha
    unfold filterFields at h
    cases h1 : filterOne k ek ov f with
    | none => simp [h1] at h
    | some l =>
      cases h2 : filterFields k ek ov fs with
      | none => simp [h1, h2] at h
      | some ls' =>
        simp [h1, h2] at h; subst h
        cases i with
        | zero => simp at hex hk ha ⊢; exact filterOne_noleak k ek ov f l m hex hk ha h1
        | succ j =>
          simp at hex hk ha ⊢
          exact ih ls' h2 j (by simp at hi; omega) (by simp at hl; omega) m hex hk ha

theorem filterFields_none_of_mem (k : Keys) (ek : Option EventKeys) (ov : Overrides) (f : Field)
    (hone : filterOne k ek ov f = none) : ∀ fs, f ∈ fs → filterFields k ek ov fs = none := by
  intro fs
  induction fs with
  | nil => intro h; simp at h
  | cons g gs ih =>
    intro h
    unfold filterFields
    rw [List.mem_cons] at h
    rcases h with h | h
    · subst h; simp [hone]
    · simp [ih h]

/-- **Fails closed.** A field whose operation cannot be carried out (unknown operation, or encrypt /
hmac without any wrapper) makes Process return an error — never a partly filtered copy.  This holds
for scalar fields and for *any* element of a []string / [][]byte field, wherever it sits in the slice. -/
theorem fail_closed (k : Keys) (ek : Option EventKeys) (fails : Bool) (ov : Overrides) (fs : List Field) (f : Field)
    (hf : f ∈ fs) (hex : f.exported = true) (m : Nat)
    (hk : f.kind = .str m ∨ f.kind = .bytes (some m) ∨
      ((fromTag f.tag ov).cls ≠ .pub ∧ ((∃ ms, f.kind = .bss ms ∧ some m ∈ ms) ∨ (∃ ss, f.kind = .strs ss ∧ m ∈ ss))))
    (hbad : action (fromTag f.tag ov) = .error ∨
      ((action (fromTag f.tag ov) = .encrypt ∨ action (fromTag f.tag ov) = .hmac) ∧ keyFor k ek = none)) :
    ∀ ls, processFlat k ek fails ov fs ≠ .filtered ls := by
  have hleaf : filterLeaf k ek (action (fromTag f.tag ov)) m = none := by
    unfold filterLeaf
    rcases hbad with h | ⟨h | h, hkey⟩ <;> simp [h, *]
  have helems : ∀ ms : List (Option Nat), some m ∈ ms → filterElems k ek (action (fromTag f.tag ov)) ms = none := by
    intro ms
    induction ms with
    | nil => intro h; simp at h
    | cons x rest ih =>
      intro h
      rw [List.mem_cons] at h
      cases x with
      | none =>
        rcases h with h | h
        · cases h
        · simp [filterElems, ih h]
      | some m0 =>
        simp only [filterElems]
        rcases h with h | h
        · injection h with h; subst h; simp [hleaf]
        · cases filterLeaf k ek (action (fromTag f.tag ov)) m0 <;> simp [ih h]
  have hone : filterOne k ek ov f = none := by
    unfold filterOne
    simp only [hex, Bool.not_true, Bool.false_eq_true, if_false]
    rcases hk with hk | hk | ⟨hp, ⟨ms, hk, hm⟩ | ⟨ss, hk, hm⟩⟩
    · simp [hk, hleaf]
    · simp [hk, hleaf]
    · simp [hk, hp, helems ms hm]
    · simp [hk, hp, helems (ss.map some) (List.mem_map.mpr ⟨m, hm, rfl⟩)]
  intro ls
  unfold processFlat
  split
  · simp
  split
  · simp
  split
  · simp
  · simp [filterFields_none_of_mem k ek ov f hone fs hf]


/-! ### nested payloads (M7t `EncryptTree`) -/
section Tree
open Evl.EncryptTree

/-- **No leak at any depth.**  For every payload tree — structs, pointers, interface-held values,
slices, slices of slices, untagged maps, nested arbitrarily — that is *guarded* (every string /
[]byte in it is reached addressably and under a tag whose action is not `keep`; which tags those
are is `tag_secure` / `action_keep_iff`), whatever Process forwards contains nothing readable:
every value was redacted, encrypted or HMAC-ed.  Unclassified map values need no tag: they are
always redacted. -/
theorem tree_noleak (c : Ctx) (ewi : Bool) (v v' : V) (g : guardedPayload c v = true)
    (h : process c ewi v = .filtered v') : plains v' = [] :=
  filtPayload_clean c v v' (process_filtered h) g

/-- fail closed on trees: a step that fails anywhere in the tree makes Process fail (nothing is
forwarded half filtered) — `process` forwards only what `filtPayload` returned as a whole -/
theorem tree_fail_closed (c : Ctx) (ewi : Bool) (v : V) (h : filtPayload c v = none)
    (hops : ((effOps c.ov).all (· = .none)) = false) : process c ewi v = .error := by
  unfold process
  simp only [hops, Bool.false_eq_true, if_false]
  split
  · rfl
  · split
    · rfl
    · simp [h]

def tagBytes (s : String) : Bytes := s.toUTF8.toList.map (·.toNat)

/-- a nested payload: secret string, pointer to a struct, slice of structs, untagged map with a struct
value, slice of slices of structs -/
def demoTree : V :=
  .ptr (.struct
    (.cons (.field true (some sSecret)) (.leaf (.plain 1))
    (.cons (.field true none) (.ptr (.struct (.cons (.field true (some sSensitive)) (.leaf (.plain 2)) .nil)))
    (.cons (.field true none) (.slice (.cons .elem (.struct (.cons (.field true (some sSecret)) (.leaf (.plain 3)) .nil)) .nil))
    (.cons (.field true none) (.map (.cons (.key 1) (.leaf (.plain 4))
                                    (.cons (.key 2) (.struct (.cons (.field true (some sSensitive)) (.leaf (.plain 5)) .nil)) .nil)))
    (.cons (.field true none) (.slice (.cons .elem (.slice (.cons .elem (.struct (.cons (.field true (some sSecret)) (.leaf (.plain 6)) .nil)) .nil)) .nil))
     .nil))))))

def demoCtx : Ctx := { k := { wrapper := some 1, salt := some 1, info := some 1 }, ek := none, ov := [] }

/-- non-vacuity: the premises of `tree_noleak` hold of a concrete nested payload, and it is filtered -/
example : guardedPayload demoCtx demoTree = true := by decide
example : plains demoTree = [1, 2, 3, 4, 5, 6] := by decide
example : ∃ v', process demoCtx false demoTree = .filtered v' ∧ plains v' = [] := by
  refine ⟨_, rfl, ?_⟩
  decide

/-- the known finding F6c in the tree model: the same struct passed BY VALUE is not guarded, and its
secret survives (the implementation agrees: `enctree` correspondence) -/
example : guardedPayload demoCtx (.struct (.cons (.field true (some sSecret)) (.leaf (.plain 1)) .nil)) = false := by decide
example : ∃ v', process demoCtx false (.struct (.cons (.field true (some sSecret)) (.leaf (.plain 1)) .nil)) = .filtered v' ∧ plains v' = [1] := by
  refine ⟨_, rfl, ?_⟩
  decide

end Tree

/-! ### Taggable maps (M7g `EncryptTag`) -/
section Tagged
open Evl.EncryptTree Evl.EncryptTag

/-- a pointer tag keeps a value exactly when a struct tag would: the classification is public, or
the operation in force for it is none -/
theorem tagAction_keep_iff (t : TagInfo) : tagAction t = .keep ↔ action t = .keep :=
  Evl.EncryptTag.tagAction_keep_iff t

/-- ... so a pointer tag that keeps its value names it public or is overridden to none (`tag_secure`) -/
theorem pointer_tag_secure (t : PTag) (ov : Overrides) (h : tagAction (fromTagString t.tagString ov) = .keep) :
    (splitComma t.tagString).1 = sPublic ∨ lookupOv ov (splitComma t.tagString).1 = some .none :=
  tag_secure _ ov ((tagAction_keep_iff _).mp h)

/-- a pointer tag whose classification is none of public / sensitive / secret (misspelt, mixed case,
empty) and has no override is an error: the value can be neither classified nor redacted in place, so
Process fails as a whole rather than let it pass -/
theorem misspelt_pointer_tag_fails (tag : Bytes) (ov : Overrides)
    (h0 : lookupOv ov (splitComma tag).1 = none)
    (h1 : (splitComma tag).1 ≠ sPublic) (h2 : (splitComma tag).1 ≠ sSensitive) (h3 : (splitComma tag).1 ≠ sSecret) :
    tagAction (fromTagString tag ov) = .error := by
  unfold fromTagString
  simp only [h0, h1, h2, h3, if_false]
  decide

/-- **No leak through a Taggable map.**  A Taggable map (distinct keys, its non-string values guarded
the way the values of an untagged map have to be) with any list of *protecting* pointer tags — through
nested maps and pointers to maps, found or not, in any order, also naming the same map twice — comes
out with nothing readable: tagged strings were redacted / encrypted / HMAC-ed, every other string
(no tag names it: unclassified) was redacted. -/
theorem tagged_noleak (c : Ctx) (ewi : Bool) (tags : List PTag) (es : Items) (v' : V)
    (hk : keysOK [] es = true) (hg : guardedEntries c es = true)
    (hp : ∀ t ∈ tags, tagAction (fromTagString t.tagString c.ov) ≠ .keep)
    (h : processTagged c ewi tags es = .filtered v') : plains v' = [] := by
  obtain ⟨s, es', hs, he, rfl⟩ := processTagged_filtered h
  obtain ⟨hi, _⟩ := applyTags_inv c tags _ s hp hs hk (guarded_inv c es [] hk hg)
  simp only [plains]
  exact filtT_clean c s.marks s.es es' he hi

/-- **Secure default under any tags.**  A string under a top-level key that no pointer tag names (no
tag's pointer starts with that key) is unclassified: it comes out redacted, whatever the other tags,
the overrides and the key material are. -/
theorem untagged_key_redacted (c : Ctx) (ewi : Bool) (tags : List PTag) (es es' : Items) (k m : Nat)
    (hf : find k es = some (.leaf (.plain m)))
    (hn : ∀ t ∈ tags, t.path.head? ≠ some k)
    (h : processTagged c ewi tags es = .filtered (.map es')) : find k es' = some (.leaf .redacted) := by
  obtain ⟨s, es1, hs, he, hv⟩ := processTagged_filtered h
  injection hv with hv
  subst hv
  have hk : onlyKept c k tags := fun t ht hh => absurd hh (hn t ht)
  obtain ⟨f1, m1, c1⟩ := applyTags_key c k m tags _ s hk hs hf (by simp)
  obtain ⟨v', g1, g2⟩ := filtT_find c s.marks k _ s.es es' he f1
  have hnot : s.marks.contains [k] = false := by
    cases hc : s.marks.contains [k] with
    | false => rfl
    | true =>
      rcases c1.mp hc with h | ⟨t, ht, hp⟩
      · simp at h
      · exact absurd (by simp [hp]) (hn t ht)
  rw [subMarks_of_heads k s.marks m1, hnot] at g2
  simp only [filtTV, Bool.false_eq_true, if_false, filterStr] at g2
  have ha : action mapTag = .redact := by decide
  simp only [ha, filterLeaf] at g2
  simp at g2
  rw [g1, ← g2]

/-- fail closed: a pointer tag that cannot be applied makes Process fail (nothing half filtered is
forwarded) -/
theorem tagged_fail_closed (c : Ctx) (ewi : Bool) (tags : List PTag) (es : Items)
    (h : applyTags c tags { es := es, marks := [] } = none) (hops : ((effOps c.ov).all (· = .none)) = false) :
    processTagged c ewi tags es = .error := by
  unfold processTagged
  simp only [hops, Bool.false_eq_true, if_false]
  split
  · rfl
  · split
    · rfl
    · simp [h]

/-- a protecting tag whose value is found but cannot be filtered (here: an unusable classification on a
string) stops the tag list at once -/
theorem bad_tag_stops (c : Ctx) (s : TS) (t : PTag) (ts : List PTag) (m : Nat)
    (hg : getPath t.path s.es = .found (.leaf (.plain m)))
    (ha : tagAction (fromTagString t.tagString c.ov) = .error) : applyTags c (t :: ts) s = none := by
  simp [applyTags, applyTag, hg, ha, filterTagged, filterLeaf]

/-- a Taggable map: a secret string, a nested map with a sensitive string and an unnamed one, a
pointer to a map two levels down, an unnamed string -/
def demoTagged : Items :=
  .cons (.key 1) (.leaf (.plain 1))
  (.cons (.key 2) (.map (.cons (.key 1) (.leaf (.plain 2)) (.cons (.key 2) (.leaf (.plain 3)) .nil)))
  (.cons (.key 3) (.ptr (.map (.cons (.key 1) (.map (.cons (.key 1) (.leaf (.plain 4)) .nil)) .nil)))
  (.cons (.key 4) (.leaf (.plain 5)) .nil)))

def demoTags : List PTag :=
  [ { path := [1], cls := sSecret, op := [] }, { path := [2, 1], cls := sSensitive, op := [] },
    { path := [3, 1, 1], cls := sSensitive, op := sHmac }, { path := [9], cls := sSecret, op := [] } ]

/-- non-vacuity: the premises of `tagged_noleak` hold of a concrete Taggable map, which is filtered -/
example : keysOK [] demoTagged = true ∧ guardedEntries demoCtx demoTagged = true := by decide
example : ∀ t ∈ demoTags, tagAction (fromTagString t.tagString demoCtx.ov) ≠ .keep := by decide
example : plainsI demoTagged = [1, 2, 3, 4, 5] := by decide
example : ∃ v', processTagged demoCtx false demoTags demoTagged = .filtered v' ∧ plains v' = [] := by
  refine ⟨_, rfl, ?_⟩
  decide
/-- a public tag keeps exactly its value: everything else is still protected -/
example : ∃ v', processTagged demoCtx false [{ path := [2, 2], cls := sPublic, op := [] }] demoTagged = .filtered v' ∧ plains v' = [3] := by
  refine ⟨_, rfl, ?_⟩
  decide
/-- a misspelt classification on a found string: Process fails -/
example : (match processTagged demoCtx false [{ path := [1], cls := [83, 101, 99, 114, 101, 116], op := [] }] demoTagged with
    | .error => true | _ => false) = true := by decide

end Tagged

end Evl.C09
