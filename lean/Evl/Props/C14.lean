import Evl.Model.Json
import Evl.Model.Sinks
/-!
# C14 — JSON formatters emit one faithful JSON line and never alter the event

Model: M8 `Json` (the token stream `encoding/json` walks, rendered compactly with HTML escaping) and
M9's format table.  The model's rendering is compared byte for byte with what the formatters store.

Proved: `line` (the stored value is one newline-terminated line: no raw newline can come out of the
escaper, whatever bytes — valid UTF-8 or not — the strings contain), `unencodable` (an unsupported
value anywhere ⇒ error, nothing stored, nothing forwarded), `predicate` (forwarding decisions).
That the line decodes back to the creation time, the type and the payload's JSON image is proved in
`C14Read.lean` (strings) and `C14Parse.lean` (the whole line, with the model's own strict parser,
itself compared with `encoding/json` by the harness); the formatters only read the payload (the model
is a pure function of it, and the harness compares the payload before and after).
-/
namespace Evl.C14
open Evl.Json

theorem hexDigit_ne (n : Nat) : hexDigit n ≠ 10 := by unfold hexDigit; split <;> omega

theorem escAscii_no_nl (b : Nat) : 10 ∉ escAscii b := by
  unfold escAscii
  by_cases h1 : (b == 34) = true
  · simp [h1]
  by_cases h2 : (b == 92) = true
  · simp [h1, h2]
  by_cases h3 : (b == 10) = true
  · simp [h1, h2, h3]
  by_cases h4 : (b == 13) = true
  · simp [h1, h2, h3, h4]
  by_cases h5 : (b == 9) = true
  · simp [h1, h2, h3, h4, h5]
  by_cases h6 : (b == 8) = true
  · simp [h1, h2, h3, h4, h5, h6]
  by_cases h7 : (b == 12) = true
  · simp [h1, h2, h3, h4, h5, h6, h7]
  by_cases h8 : (b < 0x20 || b == 60 || b == 62 || b == 38) = true
  · simp only [h1, h2, h3, h4, h5, h6, h7, h8, if_true, if_false, Bool.false_eq_true, u00]
    have a := hexDigit_ne (b / 16)
    have c := hexDigit_ne (b % 16)
    simp only [List.mem_cons, List.mem_nil_iff, or_false, not_or]
    exact ⟨by omega, by omega, by omega, by omega, fun h => a h.symm, fun h => c h.symm⟩
  · simp only [h1, h2, h3, h4, h5, h6, h7, h8, if_false, Bool.false_eq_true, List.mem_singleton]
    intro h; apply h3; simp [← h]

/-- a valid sequence consists of bytes ≥ 0x80 only -/
theorem valid_seq_high (b : Nat) (rest : Bytes) (hb : ¬ b < 0x80) (hn : utf8Len (b :: rest) ≠ 0) :
    ∀ x ∈ (b :: rest).take (utf8Len (b :: rest)), 0x80 ≤ x := by
  unfold utf8Len at hn ⊢
  cases rest with
  | nil => simp at hn
  | cons b1 r1 =>
    simp only at hn ⊢
    by_cases h2 : (0xC2 ≤ b && b ≤ 0xDF && isCont b1) = true
    · simp only [h2, if_true]
      intro x hx
      simp only [List.take_succ_cons, List.take_zero, List.mem_cons, List.mem_nil_iff, or_false] at hx
      simp [isCont] at h2
      rcases hx with hx | hx <;> subst hx <;> omega
    · simp only [h2, if_false, Bool.false_eq_true] at hn ⊢
      cases r1 with
      | nil => simp at hn
      | cons b2 r2 =>
        simp only at hn ⊢
        split
        · rename_i h3
          intro x hx
          simp only [List.take_succ_cons, List.take_zero, List.mem_cons, List.mem_nil_iff, or_false] at hx
          simp [isCont] at h3
          rcases hx with hx | hx | hx <;> subst hx <;> omega
        · rename_i h3
          simp only [h3, if_false, Bool.false_eq_true] at hn
          cases r2 with
          | nil => simp at hn
          | cons b3 r3 =>
            simp only at hn ⊢
            split
            · rename_i h4
              intro x hx
              simp only [List.take_succ_cons, List.take_zero, List.mem_cons, List.mem_nil_iff, or_false] at hx
              simp [isCont] at h4
              rcases hx with hx | hx | hx | hx <;> subst hx <;> omega
            · rename_i h4; simp [h4] at hn

theorem escSeq_no_nl (seq : Bytes) (h : ∀ x ∈ seq, 0x80 ≤ x) : 10 ∉ escSeq seq := by
  unfold escSeq
  split
  · simp
  · split
    · simp
    · intro hm; have := h 10 hm; omega

/-- the escaper never emits a raw newline -/
theorem esc_no_nl : ∀ (n : Nat) (s : Bytes), s.length ≤ n → 10 ∉ escBytes s := by
  intro n
  induction n with
  | zero =>
    intro s hs
    have : s = [] := by cases s <;> simp_all
    subst this; simp [escBytes]
  | succ n ih =>
    intro s hs
    cases s with
    | nil => simp [escBytes]
    | cons b rest =>
      rw [escBytes]
      simp only [List.length_cons] at hs
      by_cases hb : b < 0x80
      · simp only [hb, if_true, List.mem_append, not_or]
        exact ⟨escAscii_no_nl b, ih rest (by omega)⟩
      · simp only [hb, if_false]
        by_cases hz : (utf8Len (b :: rest) == 0) = true
        · simp only [hz, if_true, List.mem_append, not_or]
          exact ⟨by simp, ih rest (by omega)⟩
        · simp only [hz, if_false, Bool.false_eq_true, List.mem_append, not_or]
          refine ⟨escSeq_no_nl _ (valid_seq_high b rest hb (by simpa using hz)), ih _ ?_⟩
          simp only [List.length_drop]; omega

theorem quote_no_nl (s : Bytes) : 10 ∉ quote s := by
  unfold quote
  simp only [List.mem_append, List.mem_singleton, not_or]
  exact ⟨⟨by omega, esc_no_nl s.length s (Nat.le_refl _)⟩, by omega⟩

/-- number tokens are newline free (strconv output) -/
def tokOK : Tok → Prop
  | .num t => 10 ∉ t
  | _ => True

theorem sep_no_nl (st : Stack) (k : Bool) : 10 ∉ (sep st k).1 := by
  unfold sep
  split
  · simp
  · split <;> simp

theorem render_no_nl : ∀ (ts : List Tok) (st : Stack) (k : Bool) (out : Bytes),
    (∀ t ∈ ts, tokOK t) → renderToks ts st k = some out → 10 ∉ out := by
  intro ts
  induction ts with
  | nil => intro st k out _ h; simp [renderToks] at h; subst h; simp
  | cons t ts ih =>
    intro st k out hok h
    have hrest : ∀ t ∈ ts, tokOK t := fun x hx => hok x (List.mem_cons_of_mem _ hx)
    have ht := hok t List.mem_cons_self
    unfold renderToks at h
    cases t with
    | unsupported => simp at h
    | null =>
      simp only at h
      cases hr : renderToks ts (sep st k).2 false with
      | none => simp [hr] at h
      | some r =>
        simp [hr] at h; subst h
        have := ih _ _ r hrest hr
        have := sep_no_nl st k
        simp_all
    | bool b =>
      cases b with
      | true =>
        simp only at h
        cases hr : renderToks ts (sep st k).2 false with
        | none => simp [hr] at h
        | some r =>
          simp [hr] at h; subst h
          have := ih _ _ r hrest hr
          have := sep_no_nl st k
          simp_all
      | false =>
        simp only at h
        cases hr : renderToks ts (sep st k).2 false with
        | none => simp [hr] at h
        | some r =>
          simp [hr] at h; subst h
          have := ih _ _ r hrest hr
          have := sep_no_nl st k
          simp_all
    | num tok =>
      simp only at h
      cases hr : renderToks ts (sep st k).2 false with
      | none => simp [hr] at h
      | some r =>
        simp [hr] at h; subst h
        have := ih _ _ r hrest hr
        have := sep_no_nl st k
        simp only [tokOK] at ht
        simp_all
    | str s =>
      simp only at h
      cases hr : renderToks ts (sep st k).2 false with
      | none => simp [hr] at h
      | some r =>
        simp [hr] at h; subst h
        have := ih _ _ r hrest hr
        have := sep_no_nl st k
        have := quote_no_nl s
        simp_all
    | key s =>
      simp only at h
      cases hr : renderToks ts (sep st false).2 true with
      | none => simp [hr] at h
      | some r =>
        simp [hr] at h; subst h
        have := ih _ _ r hrest hr
        have := sep_no_nl st false
        have := quote_no_nl s
        simp_all
    | beginObj =>
      simp only at h
      cases hr : renderToks ts (false :: (sep st k).2) false with
      | none => simp [hr] at h
      | some r =>
        simp [hr] at h; subst h
        have := ih _ _ r hrest hr
        have := sep_no_nl st k
        simp_all
    | beginArr =>
      simp only at h
      cases hr : renderToks ts (false :: (sep st k).2) false with
      | none => simp [hr] at h
      | some r =>
        simp [hr] at h; subst h
        have := ih _ _ r hrest hr
        have := sep_no_nl st k
        simp_all
    | endObj =>
      simp only at h
      cases hr : renderToks ts st.tail false with
      | none => simp [hr] at h
      | some r => simp [hr] at h; subst h; have := ih _ _ r hrest hr; simp_all
    | endArr =>
      simp only at h
      cases hr : renderToks ts st.tail false with
      | none => simp [hr] at h
      | some r => simp [hr] at h; subst h; have := ih _ _ r hrest hr; simp_all

/-- **One line.** What the formatters store ends with a newline and contains no other newline byte,
for every payload, every event type (any bytes) and every creation-time token without newline. -/
theorem line (created ty : Bytes) (payload : List Tok) (b : Bytes) (hc : 10 ∉ created)
    (hp : ∀ t ∈ payload, tokOK t) (h : formatEvent created ty payload = some b) :
    ∃ body, b = body ++ [10] ∧ 10 ∉ body := by
  unfold formatEvent render at h
  cases hr : renderToks payload [] false with
  | none => simp [hr] at h
  | some p =>
    simp [hr] at h
    refine ⟨kCreated ++ created ++ kType ++ quote ty ++ kPayload ++ p ++ [125], by rw [← h]; simp, ?_⟩
    have h1 := render_no_nl payload [] false p hp hr
    have h2 := quote_no_nl ty
    simp only [List.mem_append, not_or]
    refine ⟨⟨⟨⟨⟨⟨by decide, hc⟩, by decide⟩, h2⟩, by decide⟩, h1⟩, by decide⟩

theorem render_unsupported : ∀ (ts : List Tok) (st : Stack) (k : Bool), Tok.unsupported ∈ ts → renderToks ts st k = none := by
  intro ts
  induction ts with
  | nil => intro _ _ h; simp at h
  | cons t ts ih =>
    intro st k h
    rw [List.mem_cons] at h
    unfold renderToks
    rcases h with h | h
    · subst h; rfl
    · cases t <;> simp only [ih _ _ h, Option.map_none] <;> first | rfl | (split <;> simp [ih _ _ h])

/-- **Unencodable payloads.** An unsupported value anywhere ⇒ error: nothing stored, nothing forwarded. -/
theorem unencodable (created ty : Bytes) (payload : List Tok) (p : Pred) (h : Tok.unsupported ∈ payload) :
    jsonFormatter created ty payload = .error ∧ jsonFormatterFilter created ty payload p = .error := by
  have : formatEvent created ty payload = none := by
    unfold formatEvent render
    rw [render_unsupported payload [] false h]; rfl
  simp [jsonFormatter, jsonFormatterFilter, this]

/-- **Forwarding.** JSONFormatterFilter forwards exactly when its predicate is absent or returns true
(an error from the predicate is an error); Filter forwards exactly when its predicate returns true. -/
theorem predicate (created ty : Bytes) (payload : List Tok) (b : Bytes) (h : formatEvent created ty payload = some b) :
    jsonFormatter created ty payload = .forward b ∧
    jsonFormatterFilter created ty payload .absent = .forward b ∧
    jsonFormatterFilter created ty payload (.ret true) = .forward b ∧
    jsonFormatterFilter created ty payload (.ret false) = .dropped b ∧
    jsonFormatterFilter created ty payload .err = .error ∧
    filterNode (.ret true) = .forward ∧ filterNode (.ret false) = .dropped ∧ filterNode .err = .error := by
  simp [jsonFormatter, jsonFormatterFilter, filterNode, h]

/-- the bytes end up in a last-writer-wins table (`Event.FormattedAs` / `Format`) -/
theorem table (t : Evl.Sinks.Table) (f g : Nat) (v : Evl.Sinks.Bytes) :
    Evl.Sinks.format (Evl.Sinks.formattedAs t f v) f = some v := by
  unfold Evl.Sinks.format Evl.Sinks.formattedAs
  rw [List.find?_append]
  have : List.find? (fun x => x.1 == f) (List.filter (fun x => x.1 != f) t) = none := by
    rw [List.find?_eq_none]
    intro x hx
    have := (List.mem_filter.mp hx).2
    simpa using this
  simp [this]

end Evl.C14
