import Evl.Lemmas.DispatchGhost
import Evl.Props.C03
import Evl.Lemmas.RegistryInv
/-!
# C01 — every registered pipeline of the event's type sees the event, in node order

Models: M2 `Dispatch` (all schedules of one Send, cancel at any step) for order / at-most-once /
completeness, and M1 `Registry` for *which* pipelines a Send traverses after any registration
history.  The model's `inv` is the ghost log of node invocations (appended where the source calls
`node.Process`: at `rangeStart` for a root, at `spawn` for a child).

Not carried by the Lean model: the identity of the `*Event` handed from node k to node k+1.  That
clause is checked on the implementation by the harness oracle (pointer identity of what node k
returned and node k+1 received, and the shape of the first event) on every run, and in M1's
sequential `walk` by the event marker.
-/
namespace Evl.C01
open Evl.Dispatch

variable {c : Cfg}

/-- the invocations of pipeline `p` in a state -/
def log (s : S) (p : Nat) : List (Nat × Nat) := s.inv.filter (fun e => e.1 == p)

/-- **Order and at-most-once, for every schedule and every cancel point.** In every reachable state
the invocations of pipeline `p` are nodes `0, 1, …, m-1` in this order, each exactly once, and node
`j+1` has been invoked only if node `j` returned an event and no error (and is not the leaf). -/
theorem order (hlen : ∀ p, p < c.n → 0 < c.len p) {s : S} (hr : Reach c s) (p : Nat) :
    (∃ m, log s p = (List.range m).map (fun j => (p, j))) ∧
    (∀ j, (p, j + 1) ∈ log s p → stops c p j (c.out p j) = false) := by
  have hg := ginv_reach hlen hr
  have hinv := hg.invP p
  unfold log
  constructor
  · by_cases hidle : (s.ps p).ph = .idle
    · exact ⟨0, by rw [hinv]; simp [hidle]⟩
    · exact ⟨(s.ps p).k + 1, by rw [hinv]; simp [hidle]⟩
  · intro j hj
    rw [hinv] at hj
    by_cases hidle : (s.ps p).ph = .idle
    · simp [hidle] at hj
    · simp [hidle] at hj
      exact hg.cont p j (by omega)

/-- a pipeline that was never started has an empty log: with a cancelled context only a subset of
the pipelines is traversed, and `order` applies to every started one -/
theorem unstarted_empty (hlen : ∀ p, p < c.n → 0 < c.len p) {s : S} (hr : Reach c s) (p : Nat)
    (h : (s.ps p).ph = .idle) : log s p = [] := by
  have := (ginv_reach hlen hr).invP p
  unfold log; rw [this]; simp [h]

theorem stopIndex_eq (p : Nat) : ∀ (fuel i k : Nat), i ≤ k → k < i + fuel →
    (∀ j, i ≤ j → j < k → stops c p j (c.out p j) = false) → stops c p k (c.out p k) = true →
    stopIndex c p fuel i = k := by
  intro fuel
  induction fuel with
  | zero => intro i k h1 h2; omega
  | succ f ih =>
    intro i k h1 h2 hc hs
    unfold stopIndex
    by_cases hik : i = k
    · subst hik; simp [hs]
    · have := hc i (Nat.le_refl i) (by omega)
      simp only [this, Bool.false_eq_true, if_false]
      exact ih (i + 1) k (by omega) (by omega) (fun j hj1 hj2 => hc j (by omega) hj2) hs

/-- **Exactly once when not cancelled.** If the context was never cancelled, then once Send has
returned (and hence all goroutines are gone) every pipeline has been traversed exactly once:
its log is nodes `0 … stop` where `stop` is the first node that dropped the event, returned an
error, or is the leaf — nothing skipped, nothing repeated, nothing after the stopping node. -/
theorem complete (hlen : ∀ p, p < c.n → 0 < c.len p) {s : S} (hr : Reach c s)
    (hnc : s.ctxDone = false) (hret : s.collExited = true) (p : Nat) (hp : p < c.n) :
    log s p = (List.range (summaryStop c p + 1)).map (fun j => (p, j)) := by
  have hi := pinv_reach hlen hr
  have hg := ginv_reach hlen hr
  have hclosed : s.rg = .closed := by
    rcases hi.coll hret with h | h
    · rw [hnc] at h; cases h
    · exact h
  have hq := not_busy (hi.quiet (Or.inr hclosed) p hp)
  have hstart := hg.started hnc (Or.inr (Or.inr hclosed)) p hp
  have hfin : (s.ps p).ph = .finished := by
    cases hph : (s.ps p).ph <;> simp [PS.live, hph] at hq hstart ⊢
  have hstop := hi.stopsAt p (Or.inr (Or.inr hfin))
  have hk := hi.kbound p hp hstart
  have : summaryStop c p = (s.ps p).k := by
    unfold summaryStop
    exact stopIndex_eq p (c.len p) 0 (s.ps p).k (Nat.zero_le _) (by omega) (fun j _ hj => hg.cont p j hj) hstop
  unfold log
  rw [hg.invP p, this]
  simp [hfin]

/-! ### which pipelines a Send traverses (M1) -/
open Evl.Registry in
/-- Send traverses exactly the pipelines registered for that event type at that moment, each once,
and no pipeline of any other type. -/
theorem selection (b : Broker) (ty : Nat) (g : Graph) (hg : lookupGraph b.graphs ty = some g) :
    ∃ e, (Registry.step b (.send ty)).2 = .sent ((b.pipes.filter (fun p => p.ty == ty)).map traverse) e := by
  show ∃ e, (stepSend b ty).2 = _
  unfold stepSend
  simp only [hg]
  exact ⟨_, rfl⟩

open Evl.Registry in
/-- after any registration history the traversed set has one entry per registered key (no pipeline
is traversed twice because a key is registered at most once) -/
theorem selection_once (ops : List Op) (ty : Nat) :
    (((run Registry.init ops).pipes.filter (fun p => p.ty == ty)).map key).Nodup :=
  List.Nodup.sublist (List.Sublist.map _ List.filter_sublist) (inv_run ops inv_init).pkeys

/-- Non-vacuity: a reachable, non-initial state of a two-pipeline system. -/
def demoCfg : Cfg := { n := 2, len := fun p => if p = 0 then 3 else 2, out := fun p k => if p = 0 ∧ k = 1 then .drop else .pass, sink := fun _ _ => false }
def fireAll (c : Cfg) : S → List Label → Option S
  | s, [] => some s
  | s, l :: ls => match fire c s l with
    | some s' => fireAll c s' ls
    | none => none
example : (fireAll demoCfg init [.rangeStart 1, .ret 1, .spawn 1, .doneRoot 1, .rangeStart 0, .ret 0, .spawn 0, .ret 0, .sendTry 0]).map (·.inv)
    = some [(1, 0), (1, 1), (0, 0), (0, 1)] := by decide
example : summaryStop demoCfg 0 = 1 ∧ summaryStop demoCfg 1 = 1 := by decide

end Evl.C01
