import Evl.Props.C14
import Evl.Model.JsonParse
/-!
# C14, continued — the stored line reads back

A reader for JSON strings (`readStr`: escapes `\" \\ \/ \b \f \n \r \t \uXXXX`, raw control characters
rejected) and the round trip: reading back what the encoder wrote for a Go string yields the string
with every byte that is not part of a valid UTF-8 sequence replaced by U+FFFD (`sanitize`; the
identity on valid UTF-8, in particular on ASCII), and stops exactly at the closing quote.  Applied to
the stored line: its `event_type` member decodes back to the event's type.
-/
namespace Evl.Json

theorem pre_pre (a b : Bytes) (o : Option (Bytes × Bytes)) : pre a (pre b o) = pre (a ++ b) o := by
  cases o with
  | none => rfl
  | some x => obtain ⟨s, r⟩ := x; simp [pre]

theorem hexVal_hexDigit (n : Nat) (h : n < 16) : hexVal (hexDigit n) = some n := by
  unfold hexVal hexDigit
  by_cases h10 : n < 10
  · simp only [h10, if_true]
    have : 48 ≤ 48 + n ∧ 48 + n ≤ 57 := by omega
    simp only [this, and_self, if_true]
    congr 1; omega
  · simp only [h10, if_false]
    have h1 : ¬ (48 ≤ 87 + n ∧ 87 + n ≤ 57) := by omega
    have h2 : 97 ≤ 87 + n ∧ 87 + n ≤ 102 := by omega
    simp only [h1, if_false, h2, and_self, if_true]
    congr 1; omega

/-- reading back one escaped ASCII byte -/
theorem read_escAscii (b : Nat) (hb : b < 0x80) (tail : Bytes) :
    readStr .normal (escAscii b ++ tail) = pre [b] (readStr .normal tail) := by
  unfold escAscii
  by_cases h1 : b = 34
  · subst h1; simp [readStr, simpleEsc]
  by_cases h2 : b = 92
  · subst h2; simp [readStr, simpleEsc]
  by_cases h3 : b = 10
  · subst h3; simp [readStr, simpleEsc]
  by_cases h4 : b = 13
  · subst h4; simp [readStr, simpleEsc]
  by_cases h5 : b = 9
  · subst h5; simp [readStr, simpleEsc]
  by_cases h6 : b = 8
  · subst h6; simp [readStr, simpleEsc]
  by_cases h7 : b = 12
  · subst h7; simp [readStr, simpleEsc]
  simp only [beq_iff_eq, h1, h2, h3, h4, h5, h6, h7, if_false]
  by_cases h8 : (b < 0x20 || b == 60 || b == 62 || b == 38) = true
  · simp only [h8, if_true, u00, List.cons_append, List.nil_append]
    have hd1 := hexVal_hexDigit (b / 16) (by omega)
    have hd2 := hexVal_hexDigit (b % 16) (Nat.mod_lt _ (by decide))
    have h48 : hexVal 48 = some 0 := by decide
    simp only [readStr, show ¬ (92 = 34) by decide, if_false, if_true, show (117 = 117) by rfl, h48, hd1, hd2,
      show ¬ (4 = 1) by decide, show ¬ (4 - 1 = 1) by decide, show ¬ (4 - 1 - 1 = 1) by decide,
      show (4 - 1 - 1 - 1 = 1) by decide]
    have : (0 * 16 + 0) * 16 + b / 16 = b / 16 := by omega
    have hcp : ((0 * 16 + 0) * 16 + b / 16) * 16 + b % 16 = b := by omega
    rw [hcp]
    have : utf8Enc b = [b] := by unfold utf8Enc; simp [hb]
    rw [this]
  · simp only [h8, if_false, Bool.false_eq_true, List.cons_append, List.nil_append]
    simp only [Bool.or_eq_true, decide_eq_true_eq, beq_iff_eq, not_or] at h8
    have hge : ¬ b < 0x20 := h8.1.1.1
    simp only [readStr, h1, h2, if_false, hge]

/-- bytes ≥ 0x80 are copied by the reader -/
theorem read_high (seq : Bytes) (h : ∀ x ∈ seq, 0x80 ≤ x) (tail : Bytes) :
    readStr .normal (seq ++ tail) = pre seq (readStr .normal tail) := by
  induction seq with
  | nil => cases hr : readStr .normal tail with
    | none => simp [pre, hr]
    | some x => obtain ⟨a, b⟩ := x; simp [pre, hr]
  | cons b bs ih =>
    have hb := h b (by simp)
    have h34 : ¬ b = 34 := by omega
    have h92 : ¬ b = 92 := by omega
    have h20 : ¬ b < 0x20 := by omega
    simp only [List.cons_append, readStr, h34, h92, h20, if_false]
    rw [ih (fun x hx => h x (List.mem_cons_of_mem _ hx)), pre_pre]
    rfl

theorem read_escSeq (seq : Bytes) (h : ∀ x ∈ seq, 0x80 ≤ x) (tail : Bytes) :
    readStr .normal (escSeq seq ++ tail) = pre seq (readStr .normal tail) := by
  unfold escSeq
  by_cases h1 : (seq == [0xE2, 0x80, 0xA8]) = true
  · have : seq = [0xE2, 0x80, 0xA8] := by simpa using h1
    subst this
    simp only [h1, if_true, List.cons_append, List.nil_append]
    simp [readStr, hexVal, utf8Enc]
  · simp only [h1, if_false, Bool.false_eq_true]
    by_cases h2 : (seq == [0xE2, 0x80, 0xA9]) = true
    · have : seq = [0xE2, 0x80, 0xA9] := by simpa using h2
      subst this
      simp only [h2, if_true, List.cons_append, List.nil_append]
      simp [readStr, hexVal, utf8Enc]
    · simp only [h2, if_false, Bool.false_eq_true]
      exact read_high seq h tail

theorem read_fffd (tail : Bytes) :
    readStr .normal ([92, 117, 102, 102, 102, 100] ++ tail) = pre [0xEF, 0xBF, 0xBD] (readStr .normal tail) := by
  simp [readStr, hexVal, utf8Enc]

/-- **Round trip.**  Reading back what the encoder wrote for a Go string gives the string, with every
byte that is not part of a valid UTF-8 sequence replaced by U+FFFD (`sanitize`), and stops exactly
at the closing quote. -/
theorem read_esc : ∀ (n : Nat) (s : Bytes) (rest : Bytes), s.length ≤ n →
    readStr .normal (escBytes s ++ 34 :: rest) = some (sanitize s, rest) := by
  intro n
  induction n with
  | zero =>
    intro s rest hs
    have : s = [] := by cases s <;> simp_all
    subst this
    simp [escBytes, sanitize, readStr]
  | succ n ih =>
    intro s rest hs
    cases s with
    | nil => simp [escBytes, sanitize, readStr]
    | cons b tl =>
      rw [escBytes, sanitize]
      simp only [List.length_cons] at hs
      by_cases hb : b < 0x80
      · simp only [hb, if_true, List.append_assoc]
        rw [read_escAscii b hb, ih tl rest (by omega)]
        rfl
      · simp only [hb, if_false]
        by_cases hz : (utf8Len (b :: tl) == 0) = true
        · simp only [hz, if_true, List.append_assoc]
          rw [read_fffd, ih tl rest (by omega)]
          rfl
        · simp only [hz, if_false, Bool.false_eq_true, List.append_assoc]
          rw [read_escSeq _ (Evl.C14.valid_seq_high b tl hb (by simpa using hz)), ih _ rest (by simp only [List.length_drop]; omega)]
          rfl

theorem read_quote (s rest : Bytes) : readStr .normal ((quote s).tail ++ rest) = some (sanitize s, rest) := by
  unfold quote
  simp only [List.cons_append, List.nil_append, List.tail_cons, List.append_assoc]
  exact read_esc s.length s rest (Nat.le_refl _)

/-- ASCII strings come back unchanged -/
theorem sanitize_ascii : ∀ (s : Bytes), (∀ b ∈ s, b < 0x80) → sanitize s = s := by
  intro s
  induction s with
  | nil => intro _; simp [sanitize]
  | cons b tl ih =>
    intro h
    rw [sanitize]
    have hb := h b (by simp)
    simp only [hb, if_true, ih (fun x hx => h x (List.mem_cons_of_mem _ hx))]

end Evl.Json

namespace Evl.C14
open Evl.Json

/-- **The type decodes back.**  In the line the formatters store, the value of the `event_type`
member — the bytes between `"event_type":` and `,"payload":` — reads back, with a JSON string reader,
as the event's type (invalid UTF-8 replaced by U+FFFD), for every type (any bytes), payload and
creation-time token. -/
theorem type_decodes_back (created ty : Bytes) (payload : List Tok) (b : Bytes)
    (h : formatEvent created ty payload = some b) :
    ∃ rest, b = (kCreated ++ created ++ kType) ++ quote ty ++ rest ∧
      readStr .normal ((quote ty).tail ++ rest) = some (sanitize ty, rest) := by
  unfold formatEvent at h
  cases hr : render payload with
  | none => simp [hr] at h
  | some p =>
    simp only [hr, Option.map_some, Option.some.injEq] at h
    refine ⟨kPayload ++ p ++ [125, 10], ?_, read_quote ty _⟩
    rw [← h]; simp only [List.append_assoc]

/-- ... unchanged when the type is ASCII -/
theorem ascii_type_decodes_back (created ty : Bytes) (payload : List Tok) (b : Bytes)
    (hty : ∀ x ∈ ty, x < 0x80) (h : formatEvent created ty payload = some b) :
    ∃ rest, b = (kCreated ++ created ++ kType) ++ quote ty ++ rest ∧
      readStr .normal ((quote ty).tail ++ rest) = some (ty, rest) := by
  obtain ⟨rest, h1, h2⟩ := type_decodes_back created ty payload b h
  exact ⟨rest, h1, by rw [h2, sanitize_ascii ty hty]⟩

/-- the reader does reject malformed strings (non-vacuity of "reads back") -/
example : readStr .normal [97, 10, 34] = none := by decide          -- raw newline
example : readStr .normal [92, 120, 34] = none := by decide         -- \x
example : readStr .normal [97, 98] = none := by decide              -- unterminated
example : sanitize [34, 60, 0xE2, 0x80, 0xA8, 255, 7] = [34, 60, 0xE2, 0x80, 0xA8, 0xEF, 0xBF, 0xBD, 7] := by
  simp [sanitize, utf8Len, isCont]

end Evl.C14
