import Evl.Lemmas.DispatchInv
import Evl.Generated.DispatchFacts
import Evl.Generated.LockSites
import Evl.Generated.RegistryFacts
/-!
# C03 — Send always returns and leaves no goroutine behind, whatever the cancel point

Model: M2 `Dispatch`, the labelled transition system of graph.go's `process` / `doProcess`.
Every interleaving of the collector, the ranger and the per-child goroutines is a run of the system;
`cancel` is a step that may fire at any point (including first, and never).  All theorems are for
any number of pipelines of any (positive) length with any node outcomes.

What the model cannot exhibit (labelled partial): wall-clock promptness and the scheduler's
fairness.  `prompt` is an *enabledness* statement (the collector's `ctx.Done()` arm is enabled as
soon as the context is done, whatever the nodes are doing); that an enabled `select` arm is
eventually taken is the Go runtime's contract.
-/
namespace Evl.C03
open Evl.Dispatch

variable {c : Cfg}

/-- **Deadlock freedom.** In every reachable state that is not terminal, either some node's
`Process` is still running (user code — the only thing the protocol ever waits for), or a protocol
step other than a node return is enabled. -/
theorem progress (hlen : ∀ p, p < c.n → 0 < c.len p) {s : S} (hr : Reach c s) (hnt : ¬ Terminal s) :
    (∃ p, p < c.n ∧ (s.ps p).ph = .calling) ∨
    ∃ l s', (∀ p, l ≠ .ret p) ∧ fire c s l = some s' := by
  have hinv := pinv_reach hlen hr
  by_cases hcall : ∃ p, p < c.n ∧ (s.ps p).ph = .calling
  · exact Or.inl hcall
  right
  have nocall : ∀ p, p < c.n → (s.ps p).ph ≠ .calling := fun p hp h => hcall ⟨p, hp, h⟩
  have ex : ∀ {s' : S}, StepI c s s' → ∃ l s', (∀ p, l ≠ .ret p) ∧ fire c s l = some s' := by
    intro s' h
    obtain ⟨l, hl⟩ := fire_complete h
    refine ⟨l, s', ?_, hl⟩
    intro q hq
    subst hq
    simp only [fire] at hl
    split at hl
    · rename_i hc; exact nocall q hc.1 hc.2
    · cases hl
  -- a helper to exhibit a label directly
  by_cases hb : ∃ p, p < c.n ∧ (s.ps p).busy = true
  · obtain ⟨p, hp, hbp⟩ := hb
    rw [busy_eq] at hbp
    by_cases hown : (s.ps p).owing > 0
    · exact ex (.doneOwing p hp hown)
    by_cases hro : (s.ps p).rootOwes = true
    · have hrg := hinv.rootCur p (Or.inl hro)
      exact ex (.doneRoot p hp hro hrg)
    have hlive : (s.ps p).live = true := by
      cases hl : (s.ps p).live with
      | true => rfl
      | false => simp [hl, hown, hro] at hbp
    cases hph : (s.ps p).ph with
    | idle => simp [PS.live, hph] at hlive
    | finished => simp [PS.live, hph] at hlive
    | calling => exact absurd hph (nocall p hp)
    | decided o =>
      cases hst : stops c p (s.ps p).k o with
      | true => exact ex (.sendTry p o hp hph hst)
      | false =>
        by_cases hk0 : (s.ps p).k = 0
        · exact ex (.spawnRoot p o hp hph hst hk0)
        · exact ex (.spawn p o hp hph hst hk0)
    | sending =>
      by_cases hc : s.collExited = false
      · exact ex (.rendezvous p hp hph hc)
      · have hc' : s.collExited = true := by simpa using hc
        rcases hinv.coll hc' with hd | hcl
        · exact ex (.sendAbort p hp hph hd)
        · have := hinv.quiet (Or.inr hcl) p hp
          rw [busy_of_live hlive] at this; cases this
    | finishing =>
      by_cases hk : (s.ps p).k = 0
      · have hrg := hinv.rootCur p (Or.inr ⟨hk, hlive⟩)
        exact ex (.doneCurRoot p hp hph hk hrg)
      · exact ex (.doneCur p hp hph hk)
  · have hnb : ∀ p, p < c.n → (s.ps p).busy = false := by
      intro p hp
      cases h : (s.ps p).busy with
      | false => rfl
      | true => exact absurd ⟨p, hp, h⟩ hb
    cases hrg : s.rg with
    | idle =>
      by_cases hall : ∀ p, p < c.n → (s.ps p).ph ≠ .idle
      · have : allBelow c.n (fun p => (s.ps p).ph != .idle) = true :=
          (allBelow_iff _ _).mpr (fun p hp => by simpa using hall p hp)
        exact ex (.rangeEnd hrg hall)
      · have : ∃ p, p < c.n ∧ (s.ps p).ph = .idle := by
          apply Classical.byContradiction
          intro hne
          apply hall
          intro p hp hidle
          exact hne ⟨p, hp, hidle⟩
        obtain ⟨p, hp, hidle⟩ := this
        exact ex (.rangeStart p hrg hp hidle)
    | inRoot p =>
      obtain ⟨hp, hcur⟩ := hinv.inRoot p hrg
      have hnbp := not_busy (hnb p hp)
      rcases hcur with h | ⟨_, h⟩
      · rw [hnbp.2.2] at h; cases h
      · rw [hnbp.1] at h; cases h
    | waiting =>
      have : allBelow c.n (fun p => !(s.ps p).busy) = true :=
        (allBelow_iff _ _).mpr (fun p hp => by simp [hnb p hp])
      exact ex (.waitEnd hrg hnb)
    | waited => exact ex (.close hrg)
    | closed =>
      by_cases hc : s.collExited = false
      · exact ex (.collectClosed hc hrg)
      · exact absurd ⟨by simpa using hc, hrg⟩ hnt

/-- **Prompt return is enabled.** Once the context is done, the collector's way out is enabled
whatever the nodes are doing — `Send` never has to wait for a node after a cancel. -/
theorem prompt (s : S) (hd : s.ctxDone = true) (hc : s.collExited = false) :
    fire c s .collectCtx = some { s with collExited := true } := by
  simp [fire, hd, hc]

/-! ### termination -/

def psCost (L : Nat) (x : PS) : Nat :=
  x.owing + (if x.rootOwes then 1 else 0) +
  match x.ph with
  | .idle => 3 * L + 2
  | .calling => 3 * (L - x.k) + 1
  | .decided _ => 3 * (L - x.k)
  | .sending => 2
  | .finishing => 1
  | .finished => 0

def rgCost : Ranger → Nat
  | .idle => 3 | .inRoot _ => 3 | .waiting => 2 | .waited => 1 | .closed => 0

def sumBelow : Nat → (Nat → Nat) → Nat
  | 0, _ => 0
  | n + 1, f => sumBelow n f + f n

theorem sumBelow_congr {n : Nat} {f g : Nat → Nat} (h : ∀ q, q < n → g q = f q) : sumBelow n g = sumBelow n f := by
  induction n with
  | zero => rfl
  | succ n ih =>
    simp only [sumBelow]
    rw [ih (fun q hq => h q (by omega)), h n (by omega)]

theorem sumBelow_lt {n : Nat} {f g : Nat → Nat} {p : Nat} (hp : p < n)
    (hother : ∀ q, q < n → q ≠ p → g q = f q) (hlt : g p < f p) : sumBelow n g < sumBelow n f := by
  induction n with
  | zero => omega
  | succ n ih =>
    simp only [sumBelow]
    by_cases hpn : p = n
    · subst hpn
      rw [sumBelow_congr (fun q hq => hother q (by omega) (by omega))]
      omega
    · have := ih (by omega) (fun q hq hne => hother q (by omega) hne)
      rw [hother n (by omega) (fun h => hpn h.symm)]
      omega

/-- the termination measure: a bound on the number of protocol steps still possible -/
def measure (c : Cfg) (s : S) : Nat :=
  sumBelow c.n (fun p => psCost (c.len p) (s.ps p)) + rgCost s.rg +
  (if s.collExited then 0 else 1) + (if s.ctxDone then 0 else 1)

theorem measure_decreases {s s' : S} (hi : PInv c s) (hs : StepI c s s') : measure c s' < measure c s := by
  have key : ∀ (p : Nat) (x : PS), p < c.n → psCost (c.len p) x < psCost (c.len p) (s.ps p) →
      sumBelow c.n (fun q => psCost (c.len q) (upd s.ps p x q)) < sumBelow c.n (fun q => psCost (c.len q) (s.ps q)) := by
    intro p x hp hlt
    apply sumBelow_lt hp
    · intro q _ hne; simp [upd_other _ _ _ _ hne]
    · simpa using hlt
  cases hs with
  | cancel hc => simp [measure, hc]
  | rangeStart p h1 h2 h3 =>
    have hdef := hi.idleDef p h3
    have := key p { s.ps p with ph := .calling, k := 0 } h2 (by simp [psCost, h3, hdef])
    simp only [measure, h1, rgCost] at this ⊢; omega
  | rangeStop q h1 h2 h3 h4 => simp only [measure, h1, rgCost]; omega
  | rangeEnd h1 h2 => simp only [measure, h1, rgCost]; omega
  | ret p h1 h2 =>
    have := key p { s.ps p with ph := .decided (c.out p (s.ps p).k) } h1 (by simp [psCost, h2])
    simp only [measure] at this ⊢; omega
  | sendTry p o h1 h2 h3 =>
    have hk := hi.kbound p h1 (by simp [h2])
    have := key p { s.ps p with ph := .sending } h1 (by simp [psCost, h2]; omega)
    simp only [measure] at this ⊢; omega
  | spawnRoot p o h1 h2 h3 h4 =>
    have hk := hi.kbound p h1 (by simp [h2])
    have hn := next_of_not_stops h3 hk
    have hro : (s.ps p).rootOwes = false := by
      cases hr : (s.ps p).rootOwes with
      | false => rfl
      | true => exact absurd h4 (hi.owesK p hr)
    have := key p { s.ps p with ph := .calling, k := 1, rootOwes := true } h1 (by simp [psCost, h2, h4, hro]; omega)
    simp only [measure] at this ⊢; omega
  | spawn p o h1 h2 h3 h4 =>
    have hk := hi.kbound p h1 (by simp [h2])
    have hn := next_of_not_stops h3 hk
    have := key p { s.ps p with ph := .calling, k := (s.ps p).k + 1, owing := (s.ps p).owing + 1 } h1
      (by simp [psCost, h2]; omega)
    simp only [measure] at this ⊢; omega
  | rendezvous p h1 h2 h3 =>
    have := key p { s.ps p with ph := .finishing } h1 (by simp [psCost, h2])
    simp only [measure] at this ⊢; omega
  | sendAbort p h1 h2 h3 =>
    have := key p { s.ps p with ph := .finishing } h1 (by simp [psCost, h2])
    simp only [measure] at this ⊢; omega
  | doneCurRoot p h1 h2 h3 h4 =>
    have := key p { s.ps p with ph := .finished } h1 (by simp [psCost, h2])
    simp only [measure, h4, rgCost] at this ⊢; omega
  | doneCur p h1 h2 h3 =>
    have := key p { s.ps p with ph := .finished } h1 (by simp [psCost, h2])
    simp only [measure] at this ⊢; omega
  | doneOwing p h1 h2 =>
    have := key p { s.ps p with owing := (s.ps p).owing - 1 } h1 (by simp [psCost]; omega)
    simp only [measure] at this ⊢; omega
  | doneRoot p h1 h2 h3 =>
    have := key p { s.ps p with rootOwes := false } h1 (by simp [psCost, h2])
    simp only [measure, h3, rgCost] at this ⊢; omega
  | waitEnd h1 h2 => simp only [measure, h1, rgCost]; omega
  | close h1 => simp only [measure, h1, rgCost]; omega
  | collectCtx h1 h2 => simp [measure, h1]
  | collectClosed h1 h2 => simp [measure, h1]

/-- a run of `m` steps from `s` -/
inductive Run (c : Cfg) : S → Nat → Prop
  | nil (s : S) : Run c s 0
  | cons {s s' : S} {m : Nat} (l : Label) : fire c s l = some s' → Run c s' m → Run c s (m + 1)

/-- **Termination.** Every run from a reachable state is finite: its length is bounded by the
measure (so `Send`'s protocol cannot loop, whatever the schedule and the cancel point). -/
theorem terminates (hlen : ∀ p, p < c.n → 0 < c.len p) {s : S} (hr : Reach c s) {m : Nat} (hrun : Run c s m) :
    m ≤ measure c s := by
  induction hrun with
  | nil s => omega
  | cons l hf _ ih =>
    have hi := pinv_reach hlen hr
    have hdec := measure_decreases hi (fire_sound hf)
    have := ih (Reach.step l hr hf)
    omega

/-- **No goroutine left behind.** In a terminal state (collector gone, channel closed) every started
traversal has finished and the WaitGroup counter is zero. -/
theorem clean (hlen : ∀ p, p < c.n → 0 < c.len p) {s : S} (hr : Reach c s) (ht : Terminal s) :
    ∀ p, p < c.n → ((s.ps p).ph = .idle ∨ (s.ps p).ph = .finished) ∧ (s.ps p).wg = 0 := by
  intro p hp
  have hq := (pinv_reach hlen hr).quiet (Or.inr ht.2) p hp
  obtain ⟨h1, h2, h3⟩ := not_busy hq
  have hph : (s.ps p).ph = .idle ∨ (s.ps p).ph = .finished := by
    cases hph : (s.ps p).ph <;> simp [PS.live, hph] at h1 <;> simp
  refine ⟨hph, ?_⟩
  unfold PS.wg
  rcases hph with h | h <;> simp [h, h2, h3]

/-- **No panic.** (a) nobody is in (or can enter) the status send once the channel is closed or about
to be; (b) the channel is closed at most once: no step leaves `closed`; (c) every `wg.Done` is
matched by an earlier `wg.Add`: a done step finds the pipeline's counter positive; (d) `wg.Add`
is only called while the counter is positive (spawn) or before `Wait` is entered (root). -/
theorem no_send_on_closed (hlen : ∀ p, p < c.n → 0 < c.len p) {s : S} (hr : Reach c s) (p : Nat) (hp : p < c.n)
    (h : (s.ps p).ph = .sending ∨ (∃ o, (s.ps p).ph = .decided o) ∨ (s.ps p).ph = .calling) :
    s.rg ≠ .closed ∧ s.rg ≠ .waited := by
  have hi := pinv_reach hlen hr
  have hl : (s.ps p).live = true := by
    rcases h with h | ⟨o, h⟩ | h <;> simp [PS.live, h]
  constructor
  · intro hc
    have := hi.quiet (Or.inr hc) p hp
    rw [busy_of_live hl] at this; cases this
  · intro hc
    have := hi.quiet (Or.inl hc) p hp
    rw [busy_of_live hl] at this; cases this

theorem closed_is_final {s s' : S} (hs : StepI c s s') (h : s.rg = .closed) : s'.rg = .closed := by
  cases hs <;> simp_all

theorem done_matches_add {s s' : S} {l : Label} {p : Nat} (hf : fire c s l = some s')
    (hl : l = .doneCur p ∨ l = .doneOwing p ∨ l = .doneRoot p) :
    0 < (s.ps p).wg ∧ (s'.ps p).wg + 1 = (s.ps p).wg := by
  rcases hl with hl | hl | hl <;> subst hl
  · simp only [fire] at hf
    split at hf
    · rename_i hc
      split at hf
      · split at hf
        · injection hf with hf; subst hf; simp [PS.wg, hc.2]; omega
        · cases hf
      · injection hf with hf; subst hf; simp [PS.wg, hc.2]; omega
    · cases hf
  · simp only [fire] at hf
    split at hf
    · rename_i hc
      injection hf with hf; subst hf
      simp only [PS.wg, upd_same]
      constructor <;> omega
    · cases hf
  · simp only [fire] at hf
    split at hf
    · rename_i hc
      injection hf with hf; subst hf
      simp [PS.wg, hc.2.1]
    · cases hf

theorem add_is_safe {s s' : S} {l : Label} {p : Nat} (hf : fire c s l = some s') :
    (l = .spawn p → 0 < (s.ps p).wg) ∧ (l = .rangeStart p → s.rg = .idle) := by
  constructor
  · intro hl; subst hl
    simp only [fire] at hf
    split at hf
    · rename_i o ho; simp [PS.wg, ho]; omega
    · cases hf
  · intro hl; subst hl
    simp only [fire] at hf
    split at hf
    · rename_i hc; exact hc.1
    · cases hf

/-- Non-vacuity: a concrete run with a cancel between a node's return and its status hand-off
reaches a terminal state. -/
def demoCfg : Cfg := { n := 2, len := fun _ => 2, out := fun p k => if p = 0 ∧ k = 1 then .drop else if k = 1 then .err else .pass, sink := fun _ k => k == 1 }

def fireAll (c : Cfg) : S → List Label → Option S
  | s, [] => some s
  | s, l :: ls => match fire c s l with
    | some s' => fireAll c s' ls
    | none => none

def demoRun : List Label :=
  [.rangeStart 0, .ret 0, .spawn 0, .doneRoot 0, .rangeStart 1, .ret 0, .sendTry 0, .cancel, .sendAbort 0, .collectCtx,
   .ret 1, .spawn 1, .doneRoot 1, .rangeEnd, .ret 1, .sendTry 1, .sendAbort 1, .doneCur 0, .doneCur 1, .waitEnd, .close]

example : ((fireAll demoCfg init demoRun).map (fun s => (s.collExited, decide (s.rg = .closed), s.got))) = some (true, true, []) := by
  decide

end Evl.C03

namespace Evl.C03
/-- **The source has the structure the model assumes** (facts regenerated from graph.go on every
run): every status send sits in a `select` next to `<-ctx.Done()` (the one bare send is provably
dead code), the collector has a `ctx.Done()` arm and tests `ok`, `close` follows `wg.Wait()` and
occurs once, `wg.Add(1)` precedes every root call and every spawn, `doProcess` defers `wg.Done()`,
the range call-back tests the context before starting a root, roots run inline and children in
goroutines, the child receives the event `Process` returned, the sink flag comes from `Type()`; the
collector's context arm contains nothing that can block (so `collectCtx` is Send's return), and the
error / dropped-event exits of `doProcess` consist of the guarded report alone. -/
theorem on_source : Evl.Generated.dispatchFacts =
    { sendsGuardedByCtx := true, noLiveBareSend := true, collectorHasCtxArm := true, collectorChecksClosed := true,
      closeAfterWait := true, closeOnce := true, addBeforeRootCall := true, addBeforeSpawn := true,
      doProcessDefersDone := true, rangeChecksCtxBeforeStart := true, childGetsReturnedEvent := true,
      sinkFlagFromType := true, childrenSpawnedWithGo := true, rootCalledInline := true,
      errorEndsTraversalFirst := true, ctxArmReturnsAtOnce := true, errorAlwaysReported := true,
      dropAlwaysReported := true } := by decide

/-- Send holds no lock of the Broker while node code runs — neither in the calling goroutine nor, as
the spawner that waits for them, around the traversal goroutines: a node that calls back into the
Broker (even a registering call) cannot wedge the Send it runs in. -/
theorem send_holds_no_lock :
    ((Evl.Generated.brokerCallbacks.filter (fun c => c.kind == 0)).all (fun c => c.brokerLock == 0 && c.otherLocks == 0)) = true ∧
    (Evl.Generated.brokerCallbacks.any (fun c => c.kind == 0)) = true ∧ Evl.Generated.lockLeaks = 0 ∧
    -- ... nor a lock of the pipeline map: it is a sync.Map, whose Range holds nothing while the call-back
    -- (the root node's Process) runs
    Evl.Generated.graphMapPlain = true := by decide
end Evl.C03
