import Evl.Lemmas.RegistryClose
import Evl.Props.NodeClose
/-!
# C06 — node in-use accounting matches registered pipelines; nodes close exactly once

Model: M1 `Registry` (broker.go RegisterNode / RegisterPipeline / RemovePipeline /
RemovePipelineAndNodes / RemoveNode, graphmap.go Nodes, node.go flatten), as the code stands
after the `fix:` commit that releases references on overwrite / RemovePipeline and counts each
distinct node once per pipeline.

All theorems quantify over *every* history `ops : List Op` from the empty broker: no bound on the
number of calls, ids, types or pipeline lengths.
-/
namespace Evl.C06
open Evl.Registry

/-- Reference count = number of registered pipelines listing the node, after every history. -/
theorem refs_eq_listing (ops : List Op) (id : Nat) (e : NodeEntry)
    (h : (id, e) ∈ (run init ops).nodes) : e.refs = listing (run init ops).pipes id :=
  (inv_run ops inv_init).refs id e h

/-- A node counts as in use (RemoveNode refuses it) exactly when a registered pipeline lists it. -/
theorem inUse_iff (ops : List Op) (id : Nat) (e : NodeEntry) (h : (id, e) ∈ (run init ops).nodes) :
    0 < e.refs ↔ ∃ p ∈ (run init ops).pipes, id ∈ p.ids := by
  rw [refs_eq_listing ops id e h]
  unfold listing
  rw [List.countP_pos_iff]
  constructor
  · rintro ⟨p, hp, hc⟩; exact ⟨p, hp, by simpa using hc⟩
  · rintro ⟨p, hp, hc⟩; exact ⟨p, hp, by simpa using hc⟩

/-- Every node a registered pipeline lists stays registered (nothing a pipeline needs is removed). -/
theorem listed_registered (ops : List Op) (p : Pipe) (hp : p ∈ (run init ops).pipes) (id : Nat) (hid : id ∈ p.ids) :
    ∃ e, (id, e) ∈ (run init ops).nodes :=
  (inv_run ops inv_init).listed p hp id (by simpa using hid)

/-- RemoveNode refuses an in-use node without side effects. -/
theorem removeNode_inUse (b : Broker) (id : Nat) (e : NodeEntry) (hid : id ≠ 0)
    (hl : lookupNode b.nodes id = some e) (hu : 0 < e.refs) :
    step b (.removeNode id) = (b, .err .inUse) := by
  show stepRemoveNode b id = _
  unfold stepRemoveNode
  have : (id == 0) = false := by simpa using hid
  simp [this, hl, hu]

/-- RemoveNode closes (once) and unregisters a registered node that is not in use; pipelines untouched. -/
theorem removeNode_free (b : Broker) (id : Nat) (e : NodeEntry) (hid : id ≠ 0)
    (hl : lookupNode b.nodes id = some e) (hu : e.refs = 0) :
    (step b (.removeNode id)).2 = .closed [e.inst] (if e.closeFails then some .closeErr else none) ∧
    lookupNode (step b (.removeNode id)).1.nodes id = none ∧
    (step b (.removeNode id)).1.pipes = b.pipes := by
  show (stepRemoveNode b id).2 = _ ∧ lookupNode (stepRemoveNode b id).1.nodes id = none ∧ (stepRemoveNode b id).1.pipes = _
  unfold stepRemoveNode
  have : (id == 0) = false := by simpa using hid
  simp only [this, hl, hu]
  refine ⟨by simp, ?_, by simp⟩
  simp [lookupNode, eraseNode]

/-- What RemovePipelineAndNodes does in a reachable state: it removes the pipeline, closes and
unregisters exactly those of its nodes that no remaining pipeline lists, keeps every other node
registered with the count of the remaining pipelines, and reports `true`. -/
theorem rpan_effect (ops : List Op) (ty pid : Nat) (o : Pipe)
    (hty : ty ≠ 0) (hpid : pid ≠ 0)
    (ho : lookupPipe (run init ops).pipes ty pid = some o) :
    let b := run init ops
    let b' := (step b (.rpan ty pid)).1
    (∃ insts anyErr, (step b (.rpan ty pid)).2 = .rpan true insts anyErr ∧
      -- closed instances = instances of the nodes listed by `o` and by no remaining pipeline
      (∀ i, i ∈ insts ↔ ∃ id e, (id, e) ∈ b.nodes ∧ id ∈ o.ids ∧ listing b'.pipes id = 0 ∧ e.inst = i)) ∧
    lookupPipe b'.pipes ty pid = none ∧
    (∀ q, q ∈ b'.pipes ↔ q ∈ b.pipes ∧ key q ≠ (ty, pid)) ∧
    -- a node survives iff a remaining pipeline lists it or `o` did not list it
    (∀ id e, (id, e) ∈ b.nodes → ((∃ e', (id, e') ∈ b'.nodes) ↔ (id ∉ o.ids ∨ 0 < listing b'.pipes id))) := by
  intro b b'
  have hi : Inv b := inv_run ops inv_init
  have hg : (lookupGraph b.graphs ty).isSome = true := by
    have := hi.graphs o (lookupPipe_some ho).1
    have hk := (lookupPipe_some ho).2
    simp [key] at hk
    rw [hk.1] at this
    exact this
  obtain ⟨g, hg⟩ := Option.isSome_iff_exists.mp hg
  have ht : (ty == 0) = false := by simpa using hty
  have hp : (pid == 0) = false := by simpa using hpid
  have hstep : step b (.rpan ty pid) =
      ({ b with nodes := (detachAll b.nodes o.ids).1, pipes := erasePipe b.pipes ty pid },
       .rpan true ((detachAll b.nodes o.ids).2.map (·.2.inst))
         (o.ids.any (fun id => (lookupNode b.nodes id).isNone) || (detachAll b.nodes o.ids).2.any (·.2.closeFails))) := by
    show stepRpan b ty pid = _
    have ho' : lookupPipe b.pipes ty pid = some o := ho
    unfold stepRpan
    simp [ht, hp, hg, ho']
  have hb' : b' = { b with nodes := (detachAll b.nodes o.ids).1, pipes := erasePipe b.pipes ty pid } := by
    show (step b (.rpan ty pid)).1 = _
    rw [hstep]
  have hcount : ∀ id, listing (erasePipe b.pipes ty pid) id + (if o.ids.contains id then 1 else 0) = listing b.pipes id :=
    fun id => listing_erasePipe hi.pkeys ho id
  refine ⟨⟨_, _, by rw [hstep], ?_⟩, ?_, ?_, ?_⟩
  · intro i
    rw [hb']
    simp only [detachAll, List.mem_map, List.mem_filter]
    constructor
    · rintro ⟨⟨id, e⟩, ⟨hm, hc⟩, rfl⟩
      simp only [Bool.and_eq_true, decide_eq_true_eq] at hc
      refine ⟨id, e, hm, by simpa using hc.1, ?_, rfl⟩
      have := hcount id
      have hr := hi.refs id e hm
      simp only [hc.1, if_true] at this
      omega
    · rintro ⟨id, e, hm, hid, hz, rfl⟩
      refine ⟨(id, e), ⟨hm, ?_⟩, rfl⟩
      have hc : o.ids.contains id = true := by simpa using hid
      have := hcount id
      have hr := hi.refs id e hm
      simp only [hc, if_true] at this
      simp only [Bool.and_eq_true, decide_eq_true_eq]
      exact ⟨hc, by omega⟩
  · rw [hb']
    simp only
    unfold lookupPipe
    rw [List.find?_eq_none]
    intro q hq
    have := (mem_erasePipe.mp hq).2
    simp [key] at this
    simp
    exact this
  · intro q
    rw [hb']
    exact mem_erasePipe
  · intro id e hm
    rw [hb']
    simp only
    have hr := hi.refs id e hm
    have hc := hcount id
    constructor
    · rintro ⟨e', he'⟩
      obtain ⟨e0, hm0, hk, _⟩ := mem_detach_kept.mp he'
      have heq : e0 = e := by
        have h1 := lookupNode_of_mem hi.nkeys hm0
        have h2 := lookupNode_of_mem hi.nkeys hm
        rw [h1] at h2; injection h2
      subst heq
      by_cases hoc : o.ids.contains id = true
      · right
        simp only [hoc, if_true] at hc
        have : ¬ e0.refs ≤ 1 := fun h => hk ⟨hoc, h⟩
        omega
      · left; simpa using hoc
    · intro h
      refine ⟨_, mem_detach_kept.mpr ⟨e, hm, ?_, rfl⟩⟩
      rintro ⟨hoc, hle⟩
      simp only [hoc, if_true] at hc
      rcases h with h | h
      · exact h (by simpa using hoc)
      · omega

/-- No history makes the broker close a registration instance twice. -/
theorem close_once (ops : List Op) : (runClosed init ops).Nodup := by
  have := (cinv_run ops cinv_init).cnd
  simpa using this

/-- Non-vacuity: a concrete history with an overwrite, a repeated node id, a shared node and a
RemovePipeline reaches a state where one node is in use, and RemovePipelineAndNodes then closes
exactly the unshared nodes. -/
def demo : List Op :=
  [ .regNode 1 1 .pass false .dflt, .regNode 2 2 .pass false .dflt, .regNode 3 3 .drop false .dflt,
    .regNode 4 3 .drop false .dflt,
    .regPipe 1 1 [1, 2, 3] .dflt, .regPipe 1 1 [1, 1, 2, 3] .dflt, .regPipe 1 2 [1, 2, 4] .dflt,
    .removePipe 1 2, .regPipe 2 1 [2, 4] .dflt ]

example : (run init demo).nodes.map (fun x => (x.1, x.2.refs)) = [(1, 1), (2, 2), (3, 1), (4, 1)] := by decide
example : (step (run init demo) (.rpan 1 1)).2 = .rpan true [1, 3] false := by decide
example : runClosed init (demo ++ [.rpan 1 1, .rpan 2 1]) = [1, 3, 2, 4] := by decide

end Evl.C06
