import Evl.Props.C14Read
import Evl.Model.JsonParse
/-!
# C14, continued — the whole stored line parses back to the event

A JSON *value* (`J`: null, booleans, number literals, strings, arrays, objects — any nesting, any
size), the token stream `encoding/json` walks for it (`toks`, the input of the model M8), a strict
recursive-descent JSON parser for compact documents (`parseV`: no white space, exact punctuation,
number literals checked against the JSON grammar, strings through `readStr`), and the round trip:

* `render_toks` — M8's renderer applied to the token stream of a value writes exactly `renderJ v`;
* `parse_render` — parsing `renderJ v` gives back `image v` (the value with every string and member
  name sanitised: invalid UTF-8 replaced by U+FFFD, the identity on valid UTF-8) and consumes exactly
  the value's bytes;
* `line_parses_back` — the line the formatters store for an event with creation-time value `cj`, type
  `ty` and payload `v` parses as the object with exactly the members `created_at`, `event_type`,
  `payload`, in that order, holding `image cj`, the sanitised type and `image v`; the parser consumes
  everything up to the final newline.
-/
namespace Evl.Json

end Evl.Json

namespace Evl.Json

/-! ## M8's renderer on the token stream of a value -/

theorem map_map_app (o : Option Bytes) (a b : Bytes) :
    (o.map (a ++ ·)).map (b ++ ·) = o.map (b ++ a ++ ·) := by
  cases o <;> simp [List.append_assoc]

theorem map_congr_app (o : Option Bytes) (a b : Bytes) (h : a = b) : o.map (a ++ ·) = o.map (b ++ ·) := by
  rw [h]

mutual
theorem renderToks_toks : ∀ (v : J) (ts : List Tok) (st : Stack) (ak : Bool),
    renderToks (toks v ++ ts) st ak = (renderToks ts (sep st ak).2 false).map ((sep st ak).1 ++ renderJ v ++ ·)
  | .null, ts, st, ak => by simp [toks, renderToks, renderJ]
  | .bool true, ts, st, ak => by simp [toks, renderToks, renderJ]
  | .bool false, ts, st, ak => by simp [toks, renderToks, renderJ]
  | .num lit, ts, st, ak => by simp [toks, renderToks, renderJ]
  | .str s, ts, st, ak => by simp [toks, renderToks, renderJ]
  | .arr es, ts, st, ak => by
    have h := renderToks_toksL es ts (sep st ak).2 false
    simp only [toks, List.append_assoc, List.cons_append, List.nil_append, renderToks, renderJ]
    rw [h]
    cases renderToks ts (sep st ak).2 false <;> simp [List.append_assoc]
  | .obj ms, ts, st, ak => by
    have h := renderToks_toksM ms ts (sep st ak).2 false
    simp only [toks, List.append_assoc, List.cons_append, List.nil_append, renderToks, renderJ]
    rw [h]
    cases renderToks ts (sep st ak).2 false <;> simp [List.append_assoc]
theorem renderToks_toksL : ∀ (es : JL) (ts : List Tok) (st0 : Stack) (f : Bool),
    renderToks (toksL es ++ .endArr :: ts) (f :: st0) false = (renderToks ts st0 false).map (renderL f es ++ [93] ++ ·)
  | .nil, ts, st0, f => by simp [toksL, renderToks, renderL]
  | .cons v r, ts, st0, f => by
    have h1 := renderToks_toks v (toksL r ++ .endArr :: ts) (f :: st0) false
    have h2 := renderToks_toksL r ts st0 true
    simp only [toksL, List.append_assoc, renderL]
    rw [h1]
    cases f
    · simp only [sep, Bool.false_eq_true, if_false]
      rw [h2]
      cases renderToks ts st0 false <;> simp [List.append_assoc]
    · simp only [sep, Bool.false_eq_true, if_false, if_true]
      rw [h2]
      cases renderToks ts st0 false <;> simp [List.append_assoc]
theorem renderToks_toksM : ∀ (ms : JM) (ts : List Tok) (st0 : Stack) (f : Bool),
    renderToks (toksM ms ++ .endObj :: ts) (f :: st0) false = (renderToks ts st0 false).map (renderM f ms ++ [125] ++ ·)
  | .nil, ts, st0, f => by simp [toksM, renderToks, renderM]
  | .cons k v r, ts, st0, f => by
    have h2 := renderToks_toksM r ts st0 true
    have h1 := renderToks_toks v (toksM r ++ .endObj :: ts) (true :: st0) true
    simp only [sep, if_true] at h1
    simp only [toksM, List.append_assoc, List.cons_append, List.nil_append, renderM, renderToks]
    cases f
    · simp only [sep, Bool.false_eq_true, if_false]
      rw [h1, h2]
      cases renderToks ts st0 false <;> simp [List.append_assoc]
    · simp only [sep, Bool.false_eq_true, if_false, if_true]
      rw [h1, h2]
      cases renderToks ts st0 false <;> simp [List.append_assoc]
end

/-- **M8's renderer writes `renderJ`.**  For every value, rendering its token stream succeeds and
gives the value's compact JSON text. -/
theorem render_toks (v : J) : render (toks v) = some (renderJ v) := by
  have h := renderToks_toks v [] [] false
  simp only [List.append_nil] at h
  unfold render
  rw [h]
  simp [sep, renderToks]

/-! ## the parser reads back what was rendered -/

/-- what may follow a value: nothing, or a byte that cannot continue a number literal -/
def okRest : Bytes → Prop
  | [] => True
  | c :: _ => isNumChar c = false

theorem spanNum_app : ∀ (lit rest : Bytes), lit.all isNumChar = true → okRest rest → spanNum (lit ++ rest) = (lit, rest)
  | [], rest, _, hr => by
    cases rest with
    | nil => simp [spanNum]
    | cons c r => simp only [okRest] at hr; simp [spanNum, hr]
  | c :: t, rest, hl, hr => by
    simp only [List.all_cons, Bool.and_eq_true] at hl
    simp only [List.cons_append, spanNum, hl.1, if_true, spanNum_app t rest hl.2 hr]

theorem numChar_ne (c : Nat) (h : isNumChar c = true) :
    c ≠ 34 ∧ c ≠ 91 ∧ c ≠ 123 ∧ c ≠ 110 ∧ c ≠ 116 ∧ c ≠ 102 ∧ c ≠ 93 ∧ c ≠ 125 := by
  simp only [isNumChar, isDigit, Bool.or_eq_true, Bool.and_eq_true, decide_eq_true_eq, beq_iff_eq] at h
  omega

/-- the first byte of a rendered value is never `]` -/
theorem renderJ_head : ∀ (v : J), wf v = true → ∃ c t, renderJ v = c :: t ∧ c ≠ 93
  | .null, _ => ⟨110, _, rfl, by decide⟩
  | .bool true, _ => ⟨116, _, rfl, by decide⟩
  | .bool false, _ => ⟨102, _, rfl, by decide⟩
  | .str s, _ => ⟨34, _, rfl, by decide⟩
  | .arr es, _ => ⟨91, _, rfl, by decide⟩
  | .obj ms, _ => ⟨123, _, rfl, by decide⟩
  | .num lit, h => by
    simp only [wf, Bool.and_eq_true, Bool.not_eq_true', List.isEmpty_eq_false_iff] at h
    cases lit with
    | nil => exact absurd rfl h.1.1
    | cons c t =>
      have hc : isNumChar c = true := by have := h.1.2; simp only [List.all_cons, Bool.and_eq_true] at this; exact this.1
      exact ⟨c, t, rfl, (numChar_ne c hc).2.2.2.2.2.2.1⟩

theorem okRest_44 (r : Bytes) : okRest (44 :: r) := by simp [okRest, isNumChar, isDigit]
theorem okRest_93 (r : Bytes) : okRest (93 :: r) := by simp [okRest, isNumChar, isDigit]
theorem okRest_125 (r : Bytes) : okRest (125 :: r) := by simp [okRest, isNumChar, isDigit]
theorem okRest_10 (r : Bytes) : okRest (10 :: r) := by simp [okRest, isNumChar, isDigit]

theorem renderL_true_cons (v : J) (r : JL) : renderL true (.cons v r) = 44 :: renderL false (.cons v r) := by
  simp [renderL]
theorem renderM_true_cons (k : Bytes) (v : J) (r : JM) : renderM true (.cons k v r) = 44 :: renderM false (.cons k v r) := by
  simp [renderM]

mutual
theorem parseV_render : ∀ (v : J) (fuel : Nat) (rest : Bytes), wf v = true → sz v ≤ fuel → okRest rest →
    parseV fuel (renderJ v ++ rest) = some (image v, rest)
  | .null, fuel, rest, _, hf, _ => by
    obtain ⟨f, rfl⟩ : ∃ f, fuel = f + 1 := ⟨fuel - 1, by simp only [sz] at hf; omega⟩
    simp [renderJ, parseV, image]
  | .bool true, fuel, rest, _, hf, _ => by
    obtain ⟨f, rfl⟩ : ∃ f, fuel = f + 1 := ⟨fuel - 1, by simp only [sz] at hf; omega⟩
    simp [renderJ, parseV, image]
  | .bool false, fuel, rest, _, hf, _ => by
    obtain ⟨f, rfl⟩ : ∃ f, fuel = f + 1 := ⟨fuel - 1, by simp only [sz] at hf; omega⟩
    simp [renderJ, parseV, image]
  | .str s, fuel, rest, _, hf, _ => by
    obtain ⟨f, rfl⟩ : ∃ f, fuel = f + 1 := ⟨fuel - 1, by simp only [sz] at hf; omega⟩
    have h := read_esc s.length s rest (Nat.le_refl _)
    simp only [renderJ, quote, List.cons_append, List.nil_append, List.append_assoc, parseV, if_true, h, image]
  | .num lit, fuel, rest, hw, hf, hr => by
    obtain ⟨f, rfl⟩ : ∃ f, fuel = f + 1 := ⟨fuel - 1, by simp only [sz] at hf; omega⟩
    simp only [wf, Bool.and_eq_true, Bool.not_eq_true', List.isEmpty_eq_false_iff] at hw
    cases lit with
    | nil => exact absurd rfl hw.1.1
    | cons c t =>
      have hall := hw.1.2
      have hc : isNumChar c = true := by have := hall; simp only [List.all_cons, Bool.and_eq_true] at this; exact this.1
      obtain ⟨n1, n2, n3, n4, n5, n6, _, _⟩ := numChar_ne c hc
      have hs := spanNum_app (c :: t) rest hall hr
      simp only [List.cons_append] at hs
      simp only [renderJ, List.cons_append, parseV, n1, n2, n3, n4, n5, n6, if_false, hs, hw.2, if_true, image]
  | .arr .nil, fuel, rest, _, hf, _ => by
    obtain ⟨f, rfl⟩ : ∃ f, fuel = f + 1 := ⟨fuel - 1, by simp only [sz] at hf; omega⟩
    simp [renderJ, renderL, parseV, image, imageL]
  | .arr (.cons v r), fuel, rest, hw, hf, _ => by
    obtain ⟨f, rfl⟩ : ∃ f, fuel = f + 1 := ⟨fuel - 1, by simp only [sz] at hf; omega⟩
    simp only [wf] at hw
    have hv : wf v = true := by simp only [wfL, Bool.and_eq_true] at hw; exact hw.1
    have hL := parseL_render (.cons v r) f rest hw (by simp only [sz] at hf; omega) (by simp)
    obtain ⟨c, t, hct, hne⟩ := renderJ_head v hv
    have hrl : renderL false (.cons v r) = c :: (t ++ renderL true r) := by simp [renderL, hct]
    rw [hrl] at hL
    simp only [renderJ, hrl, List.cons_append, List.nil_append, List.append_assoc, parseV,
      show ¬ (91 = 34) by decide, if_false, if_true]
    simp only [List.cons_append, List.append_assoc] at hL
    split
    · rename_i heq; injection heq with h1 _; exact absurd h1 hne
    · rw [hL]; simp [image]
  | .obj .nil, fuel, rest, _, hf, _ => by
    obtain ⟨f, rfl⟩ : ∃ f, fuel = f + 1 := ⟨fuel - 1, by simp only [sz] at hf; omega⟩
    simp [renderJ, renderM, parseV, image, imageM]
  | .obj (.cons k v r), fuel, rest, hw, hf, _ => by
    obtain ⟨f, rfl⟩ : ∃ f, fuel = f + 1 := ⟨fuel - 1, by simp only [sz] at hf; omega⟩
    simp only [wf] at hw
    have hM := parseM_render (.cons k v r) f rest hw (by simp only [sz] at hf; omega) (by simp)
    have hrm : renderM false (.cons k v r) = 34 :: (escBytes k ++ [34] ++ [58] ++ renderJ v ++ renderM true r) := by
      simp [renderM, quote]
    rw [hrm] at hM
    simp only [renderJ, hrm, List.cons_append, List.nil_append, List.append_assoc, parseV,
      show ¬ (123 = 34) by decide, show ¬ (123 = 91) by decide, if_false, if_true]
    simp only [List.cons_append, List.append_assoc, List.nil_append] at hM
    rw [hM]; simp [image]
theorem parseL_render : ∀ (es : JL) (fuel : Nat) (rest : Bytes), wfL es = true → szL es ≤ fuel → es ≠ .nil →
    parseL fuel (renderL false es ++ 93 :: rest) = some (imageL es, rest)
  | .nil, _, _, _, _, hne => absurd rfl hne
  | .cons v r, fuel, rest, hw, hf, _ => by
    obtain ⟨f, rfl⟩ : ∃ f, fuel = f + 1 := ⟨fuel - 1, by simp only [szL] at hf; omega⟩
    simp only [wfL, Bool.and_eq_true] at hw
    simp only [szL] at hf
    cases r with
    | nil =>
      have hV := parseV_render v f (93 :: rest) hw.1 (by omega) (okRest_93 rest)
      simp only [renderL, Bool.false_eq_true, if_false, List.nil_append, List.append_nil, parseL, hV, imageL]
    | cons v2 r2 =>
      have hV := parseV_render v f (renderL true (.cons v2 r2) ++ 93 :: rest) hw.1 (by omega)
        (by rw [renderL_true_cons]; exact okRest_44 _)
      have hL := parseL_render (.cons v2 r2) f rest hw.2 (by omega) (by simp)
      have e : renderL false (.cons v (.cons v2 r2)) = renderJ v ++ renderL true (.cons v2 r2) := by simp [renderL]
      rw [e, List.append_assoc]
      simp only [parseL, hV]
      rw [renderL_true_cons]
      simp only [List.cons_append, hL, imageL]
theorem parseM_render : ∀ (ms : JM) (fuel : Nat) (rest : Bytes), wfM ms = true → szM ms ≤ fuel → ms ≠ .nil →
    parseM fuel (renderM false ms ++ 125 :: rest) = some (imageM ms, rest)
  | .nil, _, _, _, _, hne => absurd rfl hne
  | .cons k v r, fuel, rest, hw, hf, _ => by
    obtain ⟨f, rfl⟩ : ∃ f, fuel = f + 1 := ⟨fuel - 1, by simp only [szM] at hf; omega⟩
    simp only [wfM, Bool.and_eq_true] at hw
    simp only [szM] at hf
    cases r with
    | nil =>
      have hV := parseV_render v f (125 :: rest) hw.1 (by omega) (okRest_125 rest)
      have hk := read_esc k.length k (58 :: (renderJ v ++ 125 :: rest)) (Nat.le_refl _)
      simp only [renderM, Bool.false_eq_true, if_false, List.nil_append, List.append_nil, quote, List.cons_append,
        List.append_assoc, parseM, hk, hV, imageM]
    | cons k2 v2 r2 =>
      have hV := parseV_render v f (renderM true (.cons k2 v2 r2) ++ 125 :: rest) hw.1 (by omega)
        (by rw [renderM_true_cons]; exact okRest_44 _)
      have hM := parseM_render (.cons k2 v2 r2) f rest hw.2 (by omega) (by simp)
      have hk := read_esc k.length k (58 :: (renderJ v ++ (renderM true (.cons k2 v2 r2) ++ 125 :: rest))) (Nat.le_refl _)
      have e : renderM false (.cons k v (.cons k2 v2 r2)) = 34 :: (escBytes k ++ 34 :: 58 :: (renderJ v ++ renderM true (.cons k2 v2 r2))) := by
        simp [renderM, quote]
      rw [e]
      simp only [List.cons_append, List.append_assoc, parseM, hk, hV]
      rw [renderM_true_cons]
      simp only [List.cons_append, hM, imageM]
end

/-! ## fuel: the parser never needs more steps than the document has bytes -/

mutual
theorem sz_le : ∀ (v : J), wf v = true → sz v ≤ (renderJ v).length
  | .null, _ => by simp [sz, renderJ]
  | .bool true, _ => by simp [sz, renderJ]
  | .bool false, _ => by simp [sz, renderJ]
  | .str s, _ => by simp [sz, renderJ, quote]
  | .num lit, h => by
    simp only [wf, Bool.and_eq_true, Bool.not_eq_true', List.isEmpty_eq_false_iff] at h
    cases lit with
    | nil => exact absurd rfl h.1.1
    | cons c t => simp [sz, renderJ]
  | .arr es, h => by
    have := szL_le es false (by simpa [wf] using h)
    simp only [sz, renderJ, List.length_append, List.length_cons, List.length_nil] at this ⊢
    simp only [Bool.false_eq_true, if_false] at this
    omega
  | .obj ms, h => by
    have := szM_le ms false (by simpa [wf] using h)
    simp only [sz, renderJ, List.length_append, List.length_cons, List.length_nil] at this ⊢
    omega
theorem szL_le : ∀ (es : JL) (c : Bool), wfL es = true → szL es ≤ (renderL c es).length + (if c then 0 else 1)
  | .nil, c, _ => by simp [szL]
  | .cons v r, c, h => by
    simp only [wfL, Bool.and_eq_true] at h
    have h1 := sz_le v h.1
    have h2 := szL_le r true h.2
    simp only [if_true] at h2
    cases c <;> simp only [szL, renderL, List.length_append, List.length_cons, List.length_nil, if_true, if_false,
      Bool.false_eq_true] <;> omega
theorem szM_le : ∀ (ms : JM) (c : Bool), wfM ms = true → szM ms ≤ (renderM c ms).length
  | .nil, c, _ => by simp [szM]
  | .cons k v r, c, h => by
    simp only [wfM, Bool.and_eq_true] at h
    have h1 := sz_le v h.1
    have h2 := szM_le r true h.2
    simp only [szM, renderM, List.length_append, List.length_cons, List.length_nil]
    omega
end

mutual
/-- every string and member name is unchanged by the reader (e.g. is ASCII, or any valid UTF-8) -/
def clean : J → Prop
  | .str s => sanitize s = s
  | .arr es => cleanL es
  | .obj ms => cleanM ms
  | _ => True
def cleanL : JL → Prop
  | .nil => True
  | .cons v r => clean v ∧ cleanL r
def cleanM : JM → Prop
  | .nil => True
  | .cons k v r => sanitize k = k ∧ clean v ∧ cleanM r
end

mutual
/-- on such values the image is the value itself: the line decodes back to exactly the payload -/
theorem image_clean : ∀ (v : J), clean v → image v = v
  | .null, _ => rfl
  | .bool _, _ => rfl
  | .num _, _ => rfl
  | .str s, h => by simp only [clean] at h; simp only [image, h]
  | .arr es, h => by simp only [clean] at h; simp only [image, imageL_clean es h]
  | .obj ms, h => by simp only [clean] at h; simp only [image, imageM_clean ms h]
theorem imageL_clean : ∀ (es : JL), cleanL es → imageL es = es
  | .nil, _ => rfl
  | .cons v r, h => by simp only [cleanL] at h; simp only [imageL, image_clean v h.1, imageL_clean r h.2]
theorem imageM_clean : ∀ (ms : JM), cleanM ms → imageM ms = ms
  | .nil, _ => rfl
  | .cons k v r, h => by simp only [cleanM] at h; simp only [imageM, h.1, image_clean v h.2.1, imageM_clean r h.2.2]
end

/-- **Round trip.**  A rendered value, as a whole document, parses back to its image. -/
theorem parse_render (v : J) (h : wf v = true) : parseDoc (renderJ v) = some (image v) := by
  have := parseV_render v ((renderJ v).length + 1) [] h (by have := sz_le v h; omega) trivial
  simp only [List.append_nil] at this
  simp [parseDoc, this]

end Evl.Json

namespace Evl.C14
open Evl.Json

def nCreated : Bytes := [99, 114, 101, 97, 116, 101, 100, 95, 97, 116]      -- created_at
def nType : Bytes := [101, 118, 101, 110, 116, 95, 116, 121, 112, 101]       -- event_type
def nPayload : Bytes := [112, 97, 121, 108, 111, 97, 100]                    -- payload

/-- the JSON object a stored line stands for -/
def eventJ (cj : J) (ty : Bytes) (v : J) : J :=
  .obj (.cons nCreated cj (.cons nType (.str ty) (.cons nPayload v .nil)))

theorem esc_plain : ∀ (s : Bytes), (∀ b ∈ s, 0x20 ≤ b ∧ b < 0x80 ∧ b ≠ 34 ∧ b ≠ 92 ∧ b ≠ 60 ∧ b ≠ 62 ∧ b ≠ 38) → escBytes s = s
  | [], _ => by simp [escBytes]
  | b :: t, h => by
    have hb := h b (by simp)
    rw [escBytes]
    have e : escAscii b = [b] := by
      unfold escAscii
      have : ¬ b = 10 ∧ ¬ b = 13 ∧ ¬ b = 9 ∧ ¬ b = 8 ∧ ¬ b = 12 := by omega
      simp [hb.2.2.1, hb.2.2.2.1, hb.2.2.2.2.1, hb.2.2.2.2.2.1, hb.2.2.2.2.2.2, this]
      omega
    simp only [hb.2.1, if_true, e, esc_plain t (fun x hx => h x (List.mem_cons_of_mem _ hx))]
    rfl

theorem line_is_eventJ (cj : J) (ty : Bytes) (v : J) :
    kCreated ++ renderJ cj ++ kType ++ quote ty ++ kPayload ++ renderJ v ++ [125] = renderJ (eventJ cj ty v) := by
  have e1 : escBytes nCreated = nCreated := esc_plain _ (by decide)
  have e2 : escBytes nType = nType := esc_plain _ (by decide)
  have e3 : escBytes nPayload = nPayload := esc_plain _ (by decide)
  simp only [eventJ, renderJ, renderM, quote, e1, e2, e3]
  simp only [kCreated, kType, kPayload, nCreated, nType, nPayload,
    Bool.false_eq_true, if_false, if_true, List.cons_append, List.nil_append, List.append_assoc, List.append_nil]

/-- **The stored line parses back to the event.**  For every creation-time value `cj` (rendered by
`encoding/json` as `renderJ cj`; the formatting of `time.Time` itself is trusted), every type (any
bytes) and every payload value `v` (any nesting, any size; `toks v` is the token stream the model M8
receives), the formatters store `doc ++ "\n"` where `doc` is a JSON document that a strict parser
reads, consuming all of it, as the object with **exactly** the members `created_at`, `event_type`,
`payload`, in that order, whose values are the images of the creation time, the type and the payload
(strings with invalid UTF-8 replaced by U+FFFD, everything else identical: numbers literally,
container lengths, member names and order). -/
theorem line_parses_back (cj v : J) (ty : Bytes) (hc : wf cj = true) (hv : wf v = true) :
    ∃ doc, formatEvent (renderJ cj) ty (toks v) = some (doc ++ [10]) ∧
      parseDoc doc = some (.obj (.cons nCreated (image cj) (.cons nType (.str (sanitize ty))
        (.cons nPayload (image v) .nil)))) := by
  refine ⟨renderJ (eventJ cj ty v), ?_, ?_⟩
  · unfold formatEvent
    rw [render_toks v, ← line_is_eventJ]
    simp [List.append_assoc]
  · have hw : wf (eventJ cj ty v) = true := by simp [eventJ, wf, wfM, hc, hv]
    rw [parse_render _ hw]
    have s1 : sanitize nCreated = nCreated := sanitize_ascii _ (by decide)
    have s2 : sanitize nType = nType := sanitize_ascii _ (by decide)
    have s3 : sanitize nPayload = nPayload := sanitize_ascii _ (by decide)
    simp only [eventJ, image, imageM, s1, s2, s3]

/-- two payloads whose stored lines are equal have equal images: the line determines the payload's
JSON image (nothing of it is lost or merged by the encoding) -/
theorem line_determines_payload (cj v v' : J) (ty : Bytes) (hc : wf cj = true) (hv : wf v = true) (hv' : wf v' = true)
    (h : formatEvent (renderJ cj) ty (toks v) = formatEvent (renderJ cj) ty (toks v')) : image v = image v' := by
  obtain ⟨d, h1, p1⟩ := line_parses_back cj v ty hc hv
  obtain ⟨d', h2, p2⟩ := line_parses_back cj v' ty hc hv'
  rw [h1, h2] at h
  have : d = d' := by
    have := Option.some.inj h
    exact List.append_cancel_right this
  subst this
  rw [p1] at p2
  simpa [J.obj.injEq, JM.cons.injEq] using p2

/-- the parser is strict (non-vacuity of "parses"): trailing commas, leading zeros, bare words,
white space, unterminated containers and trailing bytes are all rejected -/
example : parseDoc [91, 49, 44, 93] = none := by decide                       -- [1,]
example : parseDoc [48, 49] = none := by decide                               -- 01
example : parseDoc [123, 34, 97, 34, 58, 49, 44, 125] = none := by decide     -- {"a":1,}
example : parseDoc [91, 32, 93] = none := by decide                           -- [ ]
example : parseDoc [91, 49] = none := by decide                               -- [1
example : parseDoc [49, 93] = none := by decide                               -- 1]
example : parseDoc [110, 117, 108] = none := by decide                        -- nul
example : parseDoc [45] = none := by decide                                   -- -
example : parseDoc [49, 46] = none := by decide                               -- 1.
example : parseDoc [91, 49, 44, 123, 34, 97, 34, 58, 91, 93, 125, 93]
    = some (.arr (.cons (.num [49]) (.cons (.obj (.cons [97] (.arr .nil) .nil)) .nil))) := by rfl   -- [1,{"a":[]}]

/-- the hypotheses are satisfiable by a non-trivial event -/
example : wf (.obj (.cons [107] (.arr (.cons (.num [45, 49, 46, 53, 101, 43, 51]) (.cons (.str [255, 34]) .nil))) .nil)) = true := by
  decide

end Evl.C14
