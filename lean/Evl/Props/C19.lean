import Evl.Lemmas.Lockset
import Evl.Generated.Accesses
import Evl.Generated.LockSites
import Evl.Generated.RegistryFacts
/-!
# C19 — stock nodes are safe to share across pipelines and goroutines

Lock-set discipline (`Evl.Lockset.lockset_sound` is the general soundness theorem) over the access
table regenerated from the source for every stock node type and the shared `*Event`: every location
that some method writes is accessed under one common lock, writes exclusively.

**Known finding (genuine defect, recorded, not repaired — see DESIGN.md §7 F7a):**
`encrypt.Filter.Process` deep-copies the event with `copystructure.Copy(e)`, which reads
`Event.Formatted` without `Event.l`, while another pipeline's formatter may be writing the same
event's table through `FormattedAs`.  The table row is derived from the hand-written escape summary
of that external call (`escape := true`).  `Evl.C19Known.discipline_full_fails` (module Evl.Props.C19Known) is the proved negative witness;
`discipline_partial` is the theorem for everything else.  The repair needs a locked clone API in the
root module, which `filters/encrypt` (a separate module pinning eventlogger v0.2.10) cannot use.
-/
namespace Evl.C19
open Evl.Lockset Evl.Generated

/-- all accesses except the rows derived from an escape summary -/
def ownAccesses : List Access := accesses.filter (fun a => !a.escape)

/-- every written location of every stock node and of Event is disciplined -/
theorem discipline_partial : disciplineOK ownAccesses = true := by decide

/-- the sinks write under their own mutex, exclusively (bytes of concurrent Process calls never interleave) -/
theorem sink_writes_exclusive : sinkWrites.all (·.2) = true ∧ (sinkWrites.any (·.1 == 0)) = true ∧ (sinkWrites.any (·.1 == 1)) = true := by
  decide

/-- the gated filter composes and sends while holding its own lock exclusively: a group being
composed is unreachable for concurrent callers -/
theorem gated_compose_under_lock : gatedCalls.all (·.2) = true ∧ gatedCalls.length ≥ 3 := by decide

theorem no_nested_acquisition : nestedAcquisitions = 0 := by decide

/-- non-vacuity: the table covers every stock component -/
theorem table_nonvacuous :
    [0, 1, 2, 4, 5, 6].all (fun g => ownAccesses.any (fun a => locGroup.getD a.loc 9 == g && a.write)) = true := by decide

end Evl.C19
