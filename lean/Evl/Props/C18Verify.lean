import Evl.Props.C18
import Evl.Props.C14Parse
import Evl.Model.CloudEventsVerify
/-!
# C18, continued — a signed cloudevents-json document verifies

`b64dec_b64` (base64url decoding undoes the encoder on byte strings), `doc_render` (the compact
document the formatter stores is the JSON text of the object `docJ`: members `id`, `source`,
`specversion`, `type`, [`data`], `datacontentype`, [`dataschema`], `time`, [`serialized`,
`serialized_hmac`], in that order), and `signed_verifies`: whatever the configuration, the event and
the signer, a forwarded signed cloudevents-json document passes the consumer's check `verify` — it
parses (strict parser M8r), its `serialized` member base64url-decodes to exactly the unsigned
document, and its `serialized_hmac` member is the signer's result for those bytes.
-/
namespace Evl.CloudEvents
open Evl.Json

theorem b64val_char (n : Nat) (h : n < 64) : b64val (b64char n) = some n := by
  unfold b64char b64val
  by_cases h1 : n < 26
  · simp only [h1, if_true]
    have : 65 ≤ 65 + n ∧ 65 + n ≤ 90 := by omega
    simp only [this, and_self, if_true]; congr 1; omega
  · simp only [h1, if_false]
    by_cases h2 : n < 52
    · simp only [h2, if_true]
      have a : ¬ (65 ≤ 97 + (n - 26) ∧ 97 + (n - 26) ≤ 90) := by omega
      have b : 97 ≤ 97 + (n - 26) ∧ 97 + (n - 26) ≤ 122 := by omega
      simp only [a, if_false, b, and_self, if_true]; congr 1; omega
    · simp only [h2, if_false]
      by_cases h3 : n < 62
      · simp only [h3, if_true]
        have a : ¬ (65 ≤ 48 + (n - 52) ∧ 48 + (n - 52) ≤ 90) := by omega
        have b : ¬ (97 ≤ 48 + (n - 52) ∧ 48 + (n - 52) ≤ 122) := by omega
        have c : 48 ≤ 48 + (n - 52) ∧ 48 + (n - 52) ≤ 57 := by omega
        simp only [a, b, if_false, c, and_self, if_true]; congr 1; omega
      · simp only [h3, if_false]
        by_cases h4 : n = 62
        · subst h4; decide
        · have : n = 63 := by omega
          subst this; decide

/-- **base64url round trip**: decoding what the encoder wrote for a byte string gives it back -/
theorem b64dec_b64 : ∀ (x : Bytes), (∀ b ∈ x, b < 256) → b64dec (b64 x) = some x := by
  intro x
  induction x using b64.induct with
  | case1 a b c rest ih =>
    intro h
    have ha := h a (by simp); have hb := h b (by simp); have hc := h c (by simp)
    have hr := ih (fun y hy => h y (by simp [hy]))
    rw [b64, b64dec]
    rw [b64val_char _ (by omega), b64val_char _ (by omega), b64val_char _ (by omega), b64val_char _ (by omega), hr]
    simp only [Option.some.injEq, List.cons.injEq, and_true]
    refine ⟨by omega, by omega, by omega⟩
  | case2 a b =>
    intro h
    have ha := h a (by simp); have hb := h b (by simp)
    rw [b64, b64dec]
    rw [b64val_char _ (by omega), b64val_char _ (by omega), b64val_char _ (by omega)]
    have : (b % 16 * 4) % 4 = 0 := by omega
    simp only [this, if_true, Option.some.injEq, List.cons.injEq, and_true]
    refine ⟨by omega, by omega⟩
  | case3 a =>
    intro h
    have ha := h a (by simp)
    rw [b64, b64dec]
    rw [b64val_char _ (by omega), b64val_char _ (by omega)]
    have : (a % 4 * 16) % 16 = 0 := by omega
    simp only [this, if_true, Option.some.injEq, List.cons.injEq, and_true]
    omega
  | case4 => intro _; simp [b64, b64dec]

theorem b64char_ascii (n : Nat) : b64char n < 0x80 := by
  unfold b64char; split <;> (try split) <;> (try split) <;> (try split) <;> omega

theorem b64_ascii : ∀ (x : Bytes), ∀ c ∈ b64 x, c < 0x80 := by
  intro x
  induction x using b64.induct with
  | case1 a b c rest ih =>
    intro y hy; rw [b64] at hy
    simp only [List.mem_cons] at hy
    rcases hy with h | h | h | h | h
    · rw [h]; exact b64char_ascii _
    · rw [h]; exact b64char_ascii _
    · rw [h]; exact b64char_ascii _
    · rw [h]; exact b64char_ascii _
    · exact ih y h
  | case2 a b =>
    intro y hy; rw [b64] at hy
    simp only [List.mem_cons, List.mem_nil_iff, or_false] at hy
    rcases hy with h | h | h <;> (rw [h]; exact b64char_ascii _)
  | case3 a =>
    intro y hy; rw [b64] at hy
    simp only [List.mem_cons, List.mem_nil_iff, or_false] at hy
    rcases hy with h | h <;> (rw [h]; exact b64char_ascii _)
  | case4 => intro y hy; simp [b64] at hy

theorem b64_nonempty (x : Bytes) (h : x ≠ []) : b64 x ≠ [] := by
  match x, h with
  | [a], _ => simp [b64]
  | [a, b], _ => simp [b64]
  | a :: b :: c :: r, _ => simp [b64]

/-! ## the document as a JSON object -/

def sigJM : Option (Bytes × Bytes) → JM
  | none => .nil
  | some (ser, mac) =>
    let m : JM := if mac.isEmpty then .nil else .cons (str "serialized_hmac") (.str mac) .nil
    if ser.isEmpty then m else .cons (str "serialized") (.str ser) m

/-- members of the CloudEvents document, in the order `encoding/json` writes them -/
def docJM (id source ty : Bytes) (data : Option J) (ct schema : Bytes) (tj : J) (sig : Option (Bytes × Bytes)) : JM :=
  let tail : JM := .cons (str "time") tj (sigJM sig)
  let tail : JM := if schema.isEmpty then tail else .cons (str "dataschema") (.str schema) tail
  let tail : JM := .cons (str "datacontentype") (.str ct) tail
  let tail : JM := match data with | some d => .cons (str "data") d tail | none => tail
  .cons (str "id") (.str id) (.cons (str "source") (.str source) (.cons (str "specversion") (.str (str "1.0"))
    (.cons (str "type") (.str ty) tail)))

/-- **The stored compact document is the JSON text of `docJM`.**  `data` is the token stream of a
value (or absent), the time token is the JSON text of a value (a quoted RFC 3339 string). -/
theorem doc_render (id source ty : Bytes) (data : Option J) (ct schema : Bytes) (tj : J) (sig : Option (Bytes × Bytes)) :
    render (docToks id source ty (data.map toks) ct schema (renderJ tj) sig) =
      some (renderJ (.obj (docJM id source ty data ct schema tj sig))) := by
  have hv := fun (v : J) (ts : List Tok) (st : Stack) => renderToks_toks v ts st true
  simp only [sep, if_true] at hv
  cases data with
  | none =>
    cases hs : schema.isEmpty <;> cases sig with
    | none => simp [render, docToks, docJM, sigJM, renderToks, sep, renderJ, renderM, hs]
    | some sm =>
      obtain ⟨ser, mac⟩ := sm
      cases h1 : ser.isEmpty <;> cases h2 : mac.isEmpty <;>
        simp [render, docToks, docJM, sigJM, renderToks, sep, renderJ, renderM, hs, h1, h2]
  | some d =>
    cases hs : schema.isEmpty <;> cases sig with
    | none => simp [render, docToks, docJM, sigJM, renderToks, sep, renderJ, renderM, hs, hv]
    | some sm =>
      obtain ⟨ser, mac⟩ := sm
      cases h1 : ser.isEmpty <;> cases h2 : mac.isEmpty <;>
        simp [render, docToks, docJM, sigJM, renderToks, sep, renderJ, renderM, hs, h1, h2, hv]

/-! ## member names as byte literals -/

theorem sk_id : sanitize (str "id") = [105, 100] := by
  rw [show str "id" = [105, 100] by decide +kernel]; exact sanitize_ascii _ (by decide)
theorem sk_source : sanitize (str "source") = [115, 111, 117, 114, 99, 101] := by
  rw [show str "source" = [115, 111, 117, 114, 99, 101] by decide +kernel]; exact sanitize_ascii _ (by decide)
theorem sk_specversion : sanitize (str "specversion") = [115, 112, 101, 99, 118, 101, 114, 115, 105, 111, 110] := by
  rw [show str "specversion" = [115, 112, 101, 99, 118, 101, 114, 115, 105, 111, 110] by decide +kernel]; exact sanitize_ascii _ (by decide)
theorem sk_type : sanitize (str "type") = [116, 121, 112, 101] := by
  rw [show str "type" = [116, 121, 112, 101] by decide +kernel]; exact sanitize_ascii _ (by decide)
theorem sk_data : sanitize (str "data") = [100, 97, 116, 97] := by
  rw [show str "data" = [100, 97, 116, 97] by decide +kernel]; exact sanitize_ascii _ (by decide)
theorem sk_datacontentype : sanitize (str "datacontentype") = [100, 97, 116, 97, 99, 111, 110, 116, 101, 110, 116, 121, 112, 101] := by
  rw [show str "datacontentype" = [100, 97, 116, 97, 99, 111, 110, 116, 101, 110, 116, 121, 112, 101] by decide +kernel]; exact sanitize_ascii _ (by decide)
theorem sk_dataschema : sanitize (str "dataschema") = [100, 97, 116, 97, 115, 99, 104, 101, 109, 97] := by
  rw [show str "dataschema" = [100, 97, 116, 97, 115, 99, 104, 101, 109, 97] by decide +kernel]; exact sanitize_ascii _ (by decide)
theorem sk_time : sanitize (str "time") = [116, 105, 109, 101] := by
  rw [show str "time" = [116, 105, 109, 101] by decide +kernel]; exact sanitize_ascii _ (by decide)
theorem sk_serialized : sanitize (str "serialized") = [115, 101, 114, 105, 97, 108, 105, 122, 101, 100] := by
  rw [show str "serialized" = [115, 101, 114, 105, 97, 108, 105, 122, 101, 100] by decide +kernel]; exact sanitize_ascii _ (by decide)
theorem sk_serialized_hmac : sanitize (str "serialized_hmac") = [115, 101, 114, 105, 97, 108, 105, 122, 101, 100, 95, 104, 109, 97, 99] := by
  rw [show str "serialized_hmac" = [115, 101, 114, 105, 97, 108, 105, 122, 101, 100, 95, 104, 109, 97, 99] by decide +kernel]; exact sanitize_ascii _ (by decide)

/-- the images of the document's members, with the member names as literals -/
theorem member_serialized (id source ty : Bytes) (data : Option J) (ct schema : Bytes) (tj : J) (ser mac : Bytes)
    (h1 : ser ≠ []) (h2 : mac ≠ []) :
    member kSerialized (imageM (docJM id source ty data ct schema tj (some (ser, mac)))) = some (.str (sanitize ser)) ∧
    member kSerializedHmac (imageM (docJM id source ty data ct schema tj (some (ser, mac)))) = some (.str (sanitize mac)) := by
  have e1 : ser.isEmpty = false := by cases ser <;> simp_all
  have e2 : mac.isEmpty = false := by cases mac <;> simp_all
  cases data <;> cases hs : schema.isEmpty <;>
    simp [docJM, sigJM, imageM, image, member, e1, e2, hs, kSerialized, kSerializedHmac,
      sk_id, sk_source, sk_specversion, sk_type, sk_data, sk_datacontentype, sk_dataschema, sk_time, sk_serialized, sk_serialized_hmac]

end Evl.CloudEvents

/-! ## rendered documents are byte strings -/

namespace Evl.Json

def bytesOK (l : Bytes) : Prop := ∀ b ∈ l, b < 256

theorem bytesOK_nil : bytesOK [] := by intro b hb; simp at hb
theorem bytesOK_append {a b : Bytes} : bytesOK (a ++ b) ↔ bytesOK a ∧ bytesOK b := by
  unfold bytesOK; simp only [List.mem_append]
  constructor
  · intro h; exact ⟨fun x hx => h x (Or.inl hx), fun x hx => h x (Or.inr hx)⟩
  · intro ⟨h1, h2⟩ x hx; rcases hx with hx | hx; exact h1 x hx; exact h2 x hx
theorem bytesOK_cons {a : Nat} {b : Bytes} : bytesOK (a :: b) ↔ a < 256 ∧ bytesOK b := by
  unfold bytesOK; simp only [List.mem_cons]
  constructor
  · intro h; exact ⟨h a (Or.inl rfl), fun x hx => h x (Or.inr hx)⟩
  · intro ⟨h1, h2⟩ x hx; rcases hx with hx | hx; rw [hx]; exact h1; exact h2 x hx

theorem hexDigit_lt (n : Nat) (h : n < 16) : hexDigit n < 256 := by unfold hexDigit; split <;> omega

theorem escAscii_ok (b : Nat) (hb : b < 256) : bytesOK (escAscii b) := by
  unfold escAscii
  have h1 := hexDigit_lt (b / 16) (by omega)
  have h2 := hexDigit_lt (b % 16) (Nat.mod_lt _ (by decide))
  repeat' split
  all_goals (intro x hx; simp only [u00, List.mem_cons, List.mem_nil_iff, or_false] at hx; omega)

theorem bytesOK_take {l : Bytes} (n : Nat) (h : bytesOK l) : bytesOK (l.take n) :=
  fun b hb => h b (List.mem_of_mem_take hb)
theorem bytesOK_drop {l : Bytes} (n : Nat) (h : bytesOK l) : bytesOK (l.drop n) :=
  fun b hb => h b (List.mem_of_mem_drop hb)

theorem escSeq_ok (s : Bytes) (h : bytesOK s) : bytesOK (escSeq s) := by
  unfold escSeq
  split
  · intro x hx; simp only [List.mem_cons, List.mem_nil_iff, or_false] at hx; omega
  · split
    · intro x hx; simp only [List.mem_cons, List.mem_nil_iff, or_false] at hx; omega
    · exact h

theorem escBytes_ok : ∀ (n : Nat) (s : Bytes), s.length ≤ n → bytesOK s → bytesOK (escBytes s) := by
  intro n
  induction n with
  | zero =>
    intro s hs _
    have : s = [] := by cases s <;> simp_all
    subst this; rw [escBytes]; exact bytesOK_nil
  | succ n ih =>
    intro s hs hok
    cases s with
    | nil => rw [escBytes]; exact bytesOK_nil
    | cons b tl =>
      rw [escBytes]
      have hb := (bytesOK_cons.mp hok).1
      have htl := (bytesOK_cons.mp hok).2
      simp only [List.length_cons] at hs
      by_cases h80 : b < 0x80
      · simp only [h80, if_true]
        exact bytesOK_append.mpr ⟨escAscii_ok b hb, ih tl (by omega) htl⟩
      · simp only [h80, if_false]
        by_cases hz : (utf8Len (b :: tl) == 0) = true
        · simp only [hz, if_true]
          refine bytesOK_append.mpr ⟨?_, ih tl (by omega) htl⟩
          intro x hx; simp only [List.mem_cons, List.mem_nil_iff, or_false] at hx; omega
        · simp only [hz, if_false, Bool.false_eq_true]
          exact bytesOK_append.mpr ⟨escSeq_ok _ (bytesOK_take _ hok), ih _ (by simp only [List.length_drop]; omega) (bytesOK_drop _ htl)⟩

theorem quote_ok (s : Bytes) (h : bytesOK s) : bytesOK (quote s) := by
  unfold quote
  refine bytesOK_append.mpr ⟨bytesOK_append.mpr ⟨?_, escBytes_ok _ s (Nat.le_refl _) h⟩, ?_⟩
  · intro x hx; simp at hx; omega
  · intro x hx; simp at hx; omega

/-- the byte strings inside a token -/
def tokOK : Tok → Prop
  | .num t => bytesOK t
  | .str s => bytesOK s
  | .key s => bytesOK s
  | _ => True

theorem sep_ok (st : Stack) (ak : Bool) : bytesOK (sep st ak).1 := by
  unfold sep
  split
  · exact bytesOK_nil
  · split
    · exact bytesOK_nil
    · intro x hx; simp at hx; omega
    · exact bytesOK_nil

theorem renderToks_ok : ∀ (ts : List Tok) (st : Stack) (ak : Bool) (out : Bytes),
    (∀ t ∈ ts, tokOK t) → renderToks ts st ak = some out → bytesOK out := by
  intro ts
  induction ts with
  | nil => intro st ak out _ h; simp [renderToks] at h; subst h; exact bytesOK_nil
  | cons t ts ih =>
    intro st ak out hts h
    have ht := hts t (by simp)
    have hrest : ∀ t' ∈ ts, tokOK t' := fun t' h' => hts t' (by simp [h'])
    have lit : ∀ (l : Bytes), (∀ x ∈ l, x < 256) → bytesOK l := fun l h => h
    cases t with
    | unsupported => simp [renderToks] at h
    | null =>
      simp only [renderToks] at h
      cases hr : renderToks ts (sep st ak).2 false with
      | none => simp [hr] at h
      | some r =>
        simp only [hr, Option.map_some, Option.some.injEq] at h; subst h
        exact bytesOK_append.mpr ⟨bytesOK_append.mpr ⟨sep_ok st ak, lit _ (by decide)⟩, ih _ _ _ hrest hr⟩
    | bool b =>
      cases b <;>
      · simp only [renderToks] at h
        cases hr : renderToks ts (sep st ak).2 false with
        | none => simp [hr] at h
        | some r =>
          simp only [hr, Option.map_some, Option.some.injEq] at h; subst h
          exact bytesOK_append.mpr ⟨bytesOK_append.mpr ⟨sep_ok st ak, lit _ (by decide)⟩, ih _ _ _ hrest hr⟩
    | num tk =>
      simp only [renderToks] at h
      cases hr : renderToks ts (sep st ak).2 false with
      | none => simp [hr] at h
      | some r =>
        simp only [hr, Option.map_some, Option.some.injEq] at h; subst h
        exact bytesOK_append.mpr ⟨bytesOK_append.mpr ⟨sep_ok st ak, ht⟩, ih _ _ _ hrest hr⟩
    | str s =>
      simp only [renderToks] at h
      cases hr : renderToks ts (sep st ak).2 false with
      | none => simp [hr] at h
      | some r =>
        simp only [hr, Option.map_some, Option.some.injEq] at h; subst h
        exact bytesOK_append.mpr ⟨bytesOK_append.mpr ⟨sep_ok st ak, quote_ok s ht⟩, ih _ _ _ hrest hr⟩
    | key s =>
      simp only [renderToks] at h
      cases hr : renderToks ts (sep st false).2 true with
      | none => simp [hr] at h
      | some r =>
        simp only [hr, Option.map_some, Option.some.injEq] at h; subst h
        exact bytesOK_append.mpr ⟨bytesOK_append.mpr ⟨bytesOK_append.mpr ⟨sep_ok st false, quote_ok s ht⟩, lit _ (by decide)⟩, ih _ _ _ hrest hr⟩
    | beginObj =>
      simp only [renderToks] at h
      cases hr : renderToks ts (false :: (sep st ak).2) false with
      | none => simp [hr] at h
      | some r =>
        simp only [hr, Option.map_some, Option.some.injEq] at h; subst h
        exact bytesOK_append.mpr ⟨bytesOK_append.mpr ⟨sep_ok st ak, lit _ (by decide)⟩, ih _ _ _ hrest hr⟩
    | beginArr =>
      simp only [renderToks] at h
      cases hr : renderToks ts (false :: (sep st ak).2) false with
      | none => simp [hr] at h
      | some r =>
        simp only [hr, Option.map_some, Option.some.injEq] at h; subst h
        exact bytesOK_append.mpr ⟨bytesOK_append.mpr ⟨sep_ok st ak, lit _ (by decide)⟩, ih _ _ _ hrest hr⟩
    | endObj =>
      simp only [renderToks] at h
      cases hr : renderToks ts st.tail false with
      | none => simp [hr] at h
      | some r =>
        simp only [hr, Option.map_some, Option.some.injEq] at h; subst h
        exact bytesOK_append.mpr ⟨lit _ (by decide), ih _ _ _ hrest hr⟩
    | endArr =>
      simp only [renderToks] at h
      cases hr : renderToks ts st.tail false with
      | none => simp [hr] at h
      | some r =>
        simp only [hr, Option.map_some, Option.some.injEq] at h; subst h
        exact bytesOK_append.mpr ⟨lit _ (by decide), ih _ _ _ hrest hr⟩

end Evl.Json

namespace Evl.Json

def allOK : List Tok → Prop
  | [] => True
  | t :: ts => tokOK t ∧ allOK ts

theorem allOK_append (a b : List Tok) : allOK (a ++ b) ↔ allOK a ∧ allOK b := by
  induction a with
  | nil => simp [allOK]
  | cons t ts ih => simp [allOK, ih, and_assoc]

theorem allOK_mem : ∀ (ts : List Tok), allOK ts → ∀ t ∈ ts, tokOK t
  | [], _, t, ht => by simp at ht
  | t0 :: ts, h, t, ht => by
    simp only [List.mem_cons] at ht
    rcases ht with rfl | ht
    · exact h.1
    · exact allOK_mem ts h.2 t ht

end Evl.Json

namespace Evl.C18
open Evl.CloudEvents Evl.Json

/-- **A signed cloudevents-json document verifies.**  For every valid configuration with the compact
format, every event whose data is (the token stream of) a JSON value or absent and whose time token is
the JSON text of a value, and every signer whose signatures are non-empty valid UTF-8 strings: when
the type is listed and the document is forwarded, the consumer's check succeeds on the stored bytes —
the document parses, `serialized` base64url-decodes to exactly the unsigned document `u`, and
`serialized_hmac` is the signer's result for `u`.  (`hb`: `u` is a byte string — the model's bytes are
natural numbers.) -/
theorem signed_verifies (c : Cfg) (e : Ev) (signer : Bytes → Option Bytes) (p : Evl.CloudEvents.Pred) (f : Nat) (stored : Bytes)
    (hv : validate c = none) (hid : e.idIface ≠ some []) (hfmt : (c.format == .text) = false)
    (dv : Option J) (hd : e.data = dv.map toks) (hdw : ∀ d, dv = some d → wf d = true)
    (tj : J) (ht : e.timeTok = renderJ tj) (htw : wf tj = true)
    (u : Bytes) (hu : unsignedDoc c e = some u) (hb : ∀ b ∈ u, b < 256)
    (hs : c.hasSigner = true) (hl : c.signTypes.contains e.ty = true)
    (hmac : ∀ mac, signer u = some mac → mac ≠ [] ∧ sanitize mac = mac)
    (hfw : process c e signer p = .forward f stored) :
    verify signer stored = .verified := by
  obtain ⟨mac, hsig, hst⟩ := signed c e signer p f stored hv hid u hu hs hl hfw
  obtain ⟨hm1, hm2⟩ := hmac mac hsig
  -- u is the rendered unsigned document followed by a newline: not empty
  have hune : u ≠ [] := by
    unfold unsignedDoc encode at hu
    intro h; subst h
    cases hr : (if (c.format == Format.text) = true then renderIndent (docToks (idOf e) (c.source.getD []) e.ty e.data
        (if (c.format == Format.text) = true then ctText else ctJSON) (c.schema.getD []) e.timeTok none) [] false
      else render (docToks (idOf e) (c.source.getD []) e.ty e.data
        (if (c.format == Format.text) = true then ctText else ctJSON) (c.schema.getD []) e.timeTok none)) with
    | none => simp at hu
    | some x => simp at hu
  have hser : b64 u ≠ [] := b64_nonempty u hune
  -- the stored bytes are the JSON text of docJM plus the newline
  rw [hfmt] at hst
  simp only [Bool.false_eq_true, if_false, encode, hd, ht] at hst
  rw [doc_render] at hst
  simp only [Option.map_some, Option.some.injEq] at hst
  subst hst
  have hw : wf (.obj (docJM (idOf e) (c.source.getD []) e.ty dv ctJSON (c.schema.getD []) tj (some (b64 u, mac)))) = true := by
    have e1 : (b64 u).isEmpty = false := by cases h : b64 u <;> simp_all
    have e2 : mac.isEmpty = false := by cases mac <;> simp_all
    cases dv with
    | none => cases hsch : (c.schema.getD []).isEmpty <;> simp [docJM, sigJM, wf, wfM, htw, e1, e2, hsch]
    | some d =>
      have := hdw d rfl
      cases hsch : (c.schema.getD []).isEmpty <;> simp [docJM, sigJM, wf, wfM, htw, e1, e2, hsch, this]
  have hp := parse_render _ hw
  obtain ⟨k1, k2⟩ := member_serialized (idOf e) (c.source.getD []) e.ty dv ctJSON (c.schema.getD []) tj (b64 u) mac hser hm1
  have hsan : sanitize (b64 u) = b64 u := sanitize_ascii _ (b64_ascii u)
  unfold verify verifyDoc
  rw [List.dropLast_concat, hp]
  simp only [image, k1, k2, hsan, hm2, b64dec_b64 u hb, hsig, beq_self_eq_true, if_true]

/-- the check is not vacuous: a document whose signature member was altered, or whose `serialized`
member does not decode, is not `verified` -/
example : verify (fun _ => some [115]) ([123, 34] ++ kSerialized ++ [34, 58, 34, 65, 65, 34, 44, 34] ++ kSerializedHmac ++ [34, 58, 34, 120, 34, 125, 10]) = .mismatch := by
  decide
example : verify (fun _ => some [115]) ([123, 34] ++ kSerialized ++ [34, 58, 34, 65, 34, 44, 34] ++ kSerializedHmac ++ [34, 58, 34, 115, 34, 125, 10]) = .malformed := by
  decide
example : verify (fun _ => some [115]) ([123, 34] ++ kSerialized ++ [34, 58, 34, 65, 65, 34, 44, 34] ++ kSerializedHmac ++ [34, 58, 34, 115, 34, 125, 10]) = .verified := by
  decide
example : verify (fun _ => some [115]) [123, 125, 10] = .notSigned := by decide

/-- the strings the formatter is given are byte strings (every element below 256): trivially true of
Go strings and `[]byte`; the model's bytes are natural numbers -/
structure InputsOK (c : Cfg) (e : Ev) : Prop where
  id : bytesOK (idOf e)
  source : bytesOK (c.source.getD [])
  schema : bytesOK (c.schema.getD [])
  ty : bytesOK e.ty
  time : bytesOK e.timeTok
  data : ∀ d, e.data = some d → allOK d

theorem unsigned_bytes (c : Cfg) (e : Ev) (hfmt : (c.format == .text) = false) (hi : InputsOK c e)
    (u : Bytes) (hu : unsignedDoc c e = some u) : bytesOK u := by
  unfold unsignedDoc encode at hu
  simp only [hfmt, Bool.false_eq_true, if_false] at hu
  cases hr : render (docToks (idOf e) (c.source.getD []) e.ty e.data ctJSON (c.schema.getD []) e.timeTok none) with
  | none => simp [hr] at hu
  | some r =>
    simp only [hr, Option.map_some, Option.some.injEq] at hu
    subst hu
    refine bytesOK_append.mpr ⟨renderToks_ok _ _ _ _ (allOK_mem _ ?_) hr, fun x hx => by simp at hx; omega⟩
    have k : ∀ (s : String), (∀ b ∈ str s, b < 256) → bytesOK (str s) := fun _ h => h
    have k1 := k "id" (by decide +kernel)
    have k2 := k "source" (by decide +kernel)
    have k3 := k "specversion" (by decide +kernel)
    have k4 := k "1.0" (by decide +kernel)
    have k5 := k "type" (by decide +kernel)
    have k6 := k "data" (by decide +kernel)
    have k7 := k "datacontentype" (by decide +kernel)
    have k8 := k "dataschema" (by decide +kernel)
    have k9 := k "time" (by decide +kernel)
    have k10 : bytesOK ctJSON := k "application/cloudevents" (by decide +kernel)
    cases hd : e.data with
    | none =>
      cases hs : (c.schema.getD []).isEmpty <;>
        simp [docToks, hs, allOK, allOK_append, tokOK, k1, k2, k3, k4, k5, k7, k8, k9, k10, hi.id, hi.source, hi.schema, hi.ty, hi.time]
    | some d =>
      have hdd := hi.data d hd
      cases hs : (c.schema.getD []).isEmpty <;>
        simp [docToks, hs, allOK, allOK_append, tokOK, k1, k2, k3, k4, k5, k6, k7, k8, k9, k10, hi.id, hi.source, hi.schema, hi.ty, hi.time, hdd]

/-- **A signed cloudevents-json document verifies** — `signed_verifies` with the byte-string premise
discharged from the inputs. -/
theorem signed_document_verifies (c : Cfg) (e : Ev) (signer : Bytes → Option Bytes) (p : Evl.CloudEvents.Pred) (f : Nat) (stored : Bytes)
    (hv : validate c = none) (hid : e.idIface ≠ some []) (hfmt : (c.format == .text) = false) (hi : InputsOK c e)
    (dv : Option J) (hd : e.data = dv.map toks) (hdw : ∀ d, dv = some d → wf d = true)
    (tj : J) (ht : e.timeTok = renderJ tj) (htw : wf tj = true)
    (u : Bytes) (hu : unsignedDoc c e = some u)
    (hs : c.hasSigner = true) (hl : c.signTypes.contains e.ty = true)
    (hmac : ∀ mac, signer u = some mac → mac ≠ [] ∧ sanitize mac = mac)
    (hfw : process c e signer p = .forward f stored) :
    verify signer stored = .verified :=
  signed_verifies c e signer p f stored hv hid hfmt dv hd hdw tj ht htw u hu (unsigned_bytes c e hfmt hi u hu) hs hl hmac hfw

end Evl.C18
