import Evl.Lemmas.Gated
import Evl.Generated.LockSites
import Evl.Lemmas.GatedSpec
/-!
# C11 — gated.Filter neither loses, duplicates nor reorders gated events

Model: M6 `Gated`.  The conservation theorems quantify over every history (any number of ids,
groups, events, clock values and injected failures).

Proved here: conservation (nothing lost, nothing duplicated: every accepted event is handed to
composition or dropped at most once, or is still gated), pass-through, rejection of events without
id, that a composite reported Gateable is never sent through the Broker, and — `grouping_step`,
`grouping` — that the gate refines the per-id queue specification of `Evl.Lemmas.GatedSpec`: along
every history from the empty gate, each group handed to composition (or dropped) is exactly the list
of events of one id received since that id's group was opened, in arrival order and non-empty, and
the gate's content is at every moment the specification's pending map.
-/
namespace Evl.C11
open Evl.Gated

/-- The events an operation makes the filter accept: a Gateable event is accepted when Process
returns without error, or when it was consumed by a flush composition that then failed. -/
def accepted (op : Op) (o : Out) : List Nat :=
  match op with
  | .ev uid _ _ _ _ =>
    match o.ret with
    | .gated => [uid]
    | .flushed _ => [uid]
    | .errCompose => if o.emits.getLast?.map (·.fate) = some .flushComposeErr then [uid] else []
    | _ => []
  | _ => []

theorem fateErr_compose {x : Fate} (h : fateErr x = .errCompose) : x = .composeErr := by
  cases x <;> simp [fateErr] at h ⊢

theorem lastErr_cases (es : List Emit) :
    lastErr es = .ok ∨ lastErr es = .errGateable ∨ lastErr es = .errSend ∨
    (lastErr es = .errCompose ∧ es.getLast?.map (·.fate) = some .composeErr) := by
  unfold lastErr
  cases h : es.getLast? with
  | none => exact Or.inl rfl
  | some e =>
    simp only [Option.map_some]
    cases hf : e.fate <;> simp [fateErr]

/-- One operation conserves events: gated before + accepted = gated after + left the gate. -/
theorem conservation_step (c : Cfg) (gs : List Group) (op : Op) :
    (gatedEvents gs ++ accepted op (step c gs op).2).Perm
      (gatedEvents (step c gs op).1 ++ leaving (step c gs op).2.emits) := by
  have flushCase : ∀ f, (gatedEvents gs ++ []).Perm
      (gatedEvents (flushAllStep c gs f).1 ++ leaving (flushAllStep c gs f).2.emits) := by
    intro f
    unfold flushAllStep
    by_cases hem : gs.isEmpty = true
    · simp [hem, leaving]
    simp only [hem, if_false, Bool.false_eq_true]
    by_cases hb : (!c.broker) = true
    · simp only [hb, if_true, gatedEvents, leaving, List.flatMap_nil, List.nil_append, List.append_nil,
        List.flatMap_map]
      exact List.Perm.refl _
    · simp only [hb, if_false, Bool.false_eq_true, List.append_nil]
      exact openAll_perm c f gs
  cases op with
  | ng uid => simp [step, accepted, leaving]
  | flushAll f => exact flushCase f
  | close f => exact flushCase f
  | ev uid id flush now f =>
    unfold step
    by_cases hid : (id == 0) = true
    · simp [hid, accepted, leaving]
    simp only [hid, if_false, Bool.false_eq_true]
    have hexp := openExpired_perm c f now gs
    cases hok : (openExpired c f now gs).2.2 with
    | false =>
      simp only [Bool.not_false, if_true]
      have hacc : accepted (.ev uid id flush now f) ⟨lastErr (openExpired c f now gs).2.1, (openExpired c f now gs).2.1⟩ = [] := by
        unfold accepted
        rcases lastErr_cases (openExpired c f now gs).2.1 with h | h | h | ⟨h, h2⟩
        · simp [h]
        · simp [h]
        · simp [h]
        · simp [h, h2]
      rw [hacc, List.append_nil]
      exact hexp
    | true =>
      simp only [Bool.not_true, Bool.false_eq_true, if_false]
      have hadd := addEvent_perm (openExpired c f now gs).1 id uid (now + c.expiration)
      -- gated gs ++ [uid] ~ gated gs2 ++ leaving es
      have hbase : (gatedEvents gs ++ [uid]).Perm
          (gatedEvents (addEvent (openExpired c f now gs).1 id uid (now + c.expiration)) ++ leaving (openExpired c f now gs).2.1) := by
        refine (List.Perm.append_right [uid] hexp).trans ?_
        rw [List.append_assoc]
        refine (List.Perm.append_left _ List.perm_append_comm).trans ?_
        rw [← List.append_assoc]
        exact List.Perm.append_right _ hadd.symm
      cases flush with
      | false => simpa [accepted] using hbase
      | true =>
        simp only [if_true]
        cases ht : takeGroup (addEvent (openExpired c f now gs).1 id uid (now + c.expiration)) id with
        | none => simpa [accepted] using hbase
        | some y =>
          obtain ⟨g, r⟩ := y
          simp only
          have htp := (takeGroup_perm ht).1
          have hfin : (gatedEvents gs ++ [uid]).Perm
              (gatedEvents r ++ (leaving (openExpired c f now gs).2.1 ++ g.evs)) := by
            refine hbase.trans ?_
            refine (List.Perm.append_right _ htp).trans ?_
            rw [List.append_assoc]
            exact List.Perm.append_left _ List.perm_append_comm
          by_cases hcf : (f.cf != 0 && id == f.cf) = true
          · simp only [hcf, if_true, accepted, List.getLast?_append, List.getLast?_singleton, Option.map_some,
              Option.some_or, leaving, List.flatMap_append, List.flatMap_cons, List.flatMap_nil, List.append_nil]
            simpa [leaving] using hfin
          · simp only [hcf, if_false, Bool.false_eq_true, accepted, leaving, List.flatMap_append, List.flatMap_cons,
              List.flatMap_nil, List.append_nil]
            simpa [leaving] using hfin

/-- accepted / left events along a history -/
def runLog (c : Cfg) : List Group → List Op → List Group × List Nat × List Nat
  | gs, [] => (gs, [], [])
  | gs, op :: rest =>
    let r := step c gs op
    let (gs', acc, left) := runLog c r.1 rest
    (gs', accepted op r.2 ++ acc, leaving r.2.emits ++ left)

/-- No accepted event is lost: over every history, the accepted events are exactly (as a multiset)
the events that left the gate (handed to composition, or dropped when no Broker is configured)
plus the events still gated. -/
theorem conservation (c : Cfg) (gs : List Group) (ops : List Op) :
    (gatedEvents gs ++ (runLog c gs ops).2.1).Perm
      (gatedEvents (runLog c gs ops).1 ++ (runLog c gs ops).2.2) := by
  induction ops generalizing gs with
  | nil => simp [runLog]
  | cons op rest ih =>
    simp only [runLog]
    have h1 := conservation_step c gs op
    have h2 := ih (step c gs op).1
    -- gs ++ (a ++ A) ~ (gs' ++ l) ++ A ~ (gs' ++ A) ++ l ~ (gs'' ++ L) ++ l
    rw [← List.append_assoc]
    refine (List.Perm.append_right _ h1).trans ?_
    rw [List.append_assoc]
    refine (List.Perm.append_left _ List.perm_append_comm).trans ?_
    rw [← List.append_assoc]
    refine (List.Perm.append_right _ h2).trans ?_
    rw [List.append_assoc]
    exact List.Perm.append_left _ List.perm_append_comm

/-- ... and none is duplicated: if the events offered are pairwise distinct, no event leaves the
gate twice, and no event that left is still gated. -/
theorem no_duplication (c : Cfg) (ops : List Op) (h : ((runLog c [] ops).2.1).Nodup) :
    (gatedEvents (runLog c [] ops).1 ++ (runLog c [] ops).2.2).Nodup := by
  have := conservation c [] ops
  simp only [gatedEvents, List.flatMap_nil, List.nil_append] at this
  exact (List.Perm.nodup_iff this).mp h

/-- Non-Gateable events pass through unchanged and touch nothing. -/
theorem passthrough (c : Cfg) (gs : List Group) (uid : Nat) : step c gs (.ng uid) = (gs, ⟨.pass, []⟩) := rfl

/-- Events without an ID are rejected and touch nothing. -/
theorem no_id_rejected (c : Cfg) (gs : List Group) (uid : Nat) (flush : Bool) (now : Int) (f : Fail) :
    step c gs (.ev uid 0 flush now f) = (gs, ⟨.errNoId, []⟩) := rfl

/-- A composite that is itself Gateable is never sent through the Broker. -/
theorem never_gateable_via_broker (c : Cfg) (f : Fail) (g : Group) (h : (openGate c f g).1.fate = .sent) :
    ¬ (f.cg ≠ 0 ∧ g.id = f.cg) := by
  unfold openGate at h
  intro ⟨h1, h2⟩
  by_cases hcf : (f.cf != 0 && g.id == f.cf) = true
  · simp [hcf] at h
  · have hcg : (f.cg != 0 && g.id == f.cg) = true := by simp [h1, h2]
    simp [hcf, hcg] at h

theorem take_add (gs : List Group) (id uid : Nat) (exp : Int) :
    ∃ g r, takeGroup (addEvent gs id uid exp) id = some (g, r) ∧ g.evs.getLast? = some uid ∧ g.id = id := by
  induction gs with
  | nil => exact ⟨{ id := id, evs := [uid], exp := exp }, [], by simp [addEvent, takeGroup], by simp, rfl⟩
  | cons x rest ih =>
    unfold addEvent
    by_cases hx : (x.id == id) = true
    · simp only [hx, if_true]
      refine ⟨{ x with evs := x.evs ++ [uid] }, rest, by simp [takeGroup, hx], by simp, by simpa using hx⟩
    · simp only [hx, if_false, Bool.false_eq_true]
      obtain ⟨g, r, h1, h2, h3⟩ := ih
      exact ⟨g, x :: r, by simp [takeGroup, hx, h1], h2, h3⟩

/-- A flush event hands its id's group, ending with the flush event itself, to composition, and the
composite of exactly those events is what Process returns (it continues down the pipeline). -/
theorem flush_trigger (c : Cfg) (gs : List Group) (uid id : Nat) (now : Int) (f : Fail) (evs : List Nat)
    (h : (step c gs (.ev uid id true now f)).2.ret = .flushed evs) :
    (step c gs (.ev uid id true now f)).2.emits.getLast? = some ⟨id, evs, .flushed⟩ ∧
    evs.getLast? = some uid := by
  unfold step at h ⊢
  by_cases hid : (id == 0) = true
  · simp [hid] at h
  simp only [hid, if_false, Bool.false_eq_true] at h ⊢
  cases hok : (openExpired c f now gs).2.2 with
  | false =>
    exfalso
    simp only [hok, Bool.not_false, if_true] at h
    rcases lastErr_cases (openExpired c f now gs).2.1 with h2 | h2 | h2 | ⟨h2, _⟩ <;> rw [h2] at h <;> cases h
  | true =>
    simp only [hok, Bool.not_true, Bool.false_eq_true, if_false, if_true] at h ⊢
    obtain ⟨g, r, h1, h2, h3⟩ := take_add (openExpired c f now gs).1 id uid (now + c.expiration)
    simp only [h1] at h ⊢
    by_cases hcf : (f.cf != 0 && id == f.cf) = true
    · simp [hcf] at h
    · simp only [hcf, if_false, Bool.false_eq_true] at h ⊢
      injection h with h
      subst h
      exact ⟨by simp, h2⟩


/-! ### refinement to the per-id queue specification -/

/-- The specification actions an operation stands for, read off its observable output: first the
groups opened by the expiry sweep / FlushAll / Close, then the arrival of the event if it was
accepted, then — for a flush event — the release of the event's own group. -/
def acts (op : Op) (o : Out) : List Act :=
  match op with
  | .ev uid id _ _ _ =>
    if accepted op o = [] then o.emits.map relOf
    else match o.ret with
      | .gated => o.emits.map relOf ++ [.arrive id uid]
      | _ => o.emits.dropLast.map relOf ++ [.arrive id uid] ++ o.emits.getLast?.toList.map relOf
  | _ => o.emits.map relOf

/-- One operation refines the specification: its actions are enabled in the specification state
`pend gs` (so every release carries exactly the pending events of its id, in arrival order) and lead
to the specification state of the gate after the operation. -/
theorem grouping_step (c : Cfg) (gs : List Group) (op : Op) (hw : Wf gs) :
    specRun (pend gs) (acts op (step c gs op).2) = some (pend (step c gs op).1) ∧ Wf (step c gs op).1 := by
  have flushCase : ∀ f, specRun (pend gs) ((flushAllStep c gs f).2.emits.map relOf) = some (pend (flushAllStep c gs f).1)
      ∧ Wf (flushAllStep c gs f).1 := by
    intro f
    unfold flushAllStep
    by_cases hem : gs.isEmpty = true
    · simp only [hem, if_true, List.map_nil, specRun]; exact ⟨trivial, hw⟩
    simp only [hem, if_false, Bool.false_eq_true]
    by_cases hb : (!c.broker) = true
    · simp only [hb, if_true, List.map_map]
      exact ⟨dropAll_refines gs hw, wf_nil⟩
    · simp only [hb, if_false, Bool.false_eq_true]
      exact openAll_refines c f gs hw
  cases op with
  | ng uid => simp only [acts, step, List.map_nil, specRun]; exact ⟨trivial, hw⟩
  | flushAll f => exact flushCase f
  | close f => exact flushCase f
  | ev uid id flush now f =>
    unfold step
    by_cases hid : (id == 0) = true
    · simp only [hid, if_true, acts, accepted, List.map_nil, specRun]; exact ⟨trivial, hw⟩
    simp only [hid, if_false, Bool.false_eq_true]
    obtain ⟨hx1, hx2⟩ := openExpired_refines c f now gs [] hw
    simp only [List.nil_append] at hx1 hx2
    cases hok : (openExpired c f now gs).2.2 with
    | false =>
      simp only [Bool.not_false, if_true]
      have hacc : accepted (.ev uid id flush now f) ⟨lastErr (openExpired c f now gs).2.1, (openExpired c f now gs).2.1⟩ = [] := by
        unfold accepted
        rcases lastErr_cases (openExpired c f now gs).2.1 with h2 | h2 | h2 | ⟨h2, h3⟩
        · simp [h2]
        · simp [h2]
        · simp [h2]
        · simp [h2, h3]
      simp only [acts, hacc, if_true]
      exact ⟨hx1, hx2⟩
    | true =>
      simp only [Bool.not_true, Bool.false_eq_true, if_false]
      obtain ⟨ha1, ha2⟩ := addEvent_refines (openExpired c f now gs).1 id uid (now + c.expiration) hx2
      have harr : specStep (pend (openExpired c f now gs).1) (.arrive id uid) =
          some (pend (addEvent (openExpired c f now gs).1 id uid (now + c.expiration))) := by
        simp only [specStep, ha1]
      cases flush with
      | false =>
        simp only [Bool.false_eq_true, if_false, acts, accepted, List.cons_ne_nil]
        rw [specRun_append, hx1]
        simp only [Option.bind_some, specRun, harr]
        exact ⟨trivial, ha2⟩
      | true =>
        simp only [if_true]
        obtain ⟨g, r, h1, _, h3⟩ := take_add (openExpired c f now gs).1 id uid (now + c.expiration)
        obtain ⟨ht1, ht2⟩ := takeGroup_refines ha2 h1
        simp only [h1]
        by_cases hcf : (f.cf != 0 && id == f.cf) = true
        · simp only [hcf, if_true, acts, accepted, List.getLast?_append, List.getLast?_singleton, Option.some_or,
            Option.map_some, List.cons_ne_nil, if_false, List.dropLast_concat, Option.toList_some,
            List.map_cons, List.map_nil, relOf]
          rw [List.append_assoc, specRun_append, hx1]
          simp only [Option.bind_some, List.cons_append, List.nil_append, specRun, harr, ht1]
          exact ⟨trivial, ht2⟩
        · simp only [hcf, if_false, Bool.false_eq_true, acts, accepted, List.getLast?_append, List.getLast?_singleton,
            Option.some_or, List.cons_ne_nil, List.dropLast_concat, Option.toList_some,
            List.map_cons, List.map_nil, relOf]
          rw [List.append_assoc, specRun_append, hx1]
          simp only [Option.bind_some, List.cons_append, List.nil_append, specRun, harr, ht1]
          exact ⟨trivial, ht2⟩

/-- the specification actions of a whole history -/
def allActs (c : Cfg) : List Group → List Op → List Act
  | _, [] => []
  | gs, op :: rest => acts op (step c gs op).2 ++ allActs c (step c gs op).1 rest

/-- **Grouping and arrival order, every history.**  From the empty gate, whatever the operations,
clock values and injected failures, the specification can run the history's actions: every group
that left the gate was exactly the events of its id received since the id's group was opened, in
arrival order, and what is still gated is what the specification holds pending. -/
theorem grouping (c : Cfg) (ops : List Op) :
    specRun (pend []) (allActs c [] ops) = some (pend (run c [] ops).1) := by
  suffices h : ∀ gs, Wf gs → specRun (pend gs) (allActs c gs ops) = some (pend (run c gs ops).1) from h [] wf_nil
  induction ops with
  | nil => intro gs _; rfl
  | cons op rest ih =>
    intro gs hw
    obtain ⟨h1, h2⟩ := grouping_step c gs op hw
    simp only [allActs, run]
    rw [specRun_append, h1]
    exact ih _ h2

/-- the specification does reject wrong groupings (the refinement is not vacuous) -/
example : specRun (pend []) [.arrive 1 10, .arrive 2 11, .arrive 1 12, .release 1 [10, 12]] ≠ none := by decide
example : specRun (pend []) [.arrive 1 10, .arrive 2 11, .arrive 1 12, .release 1 [12, 10]] = none := by decide
example : specRun (pend []) [.arrive 1 10, .arrive 2 11, .arrive 1 12, .release 1 [10]] = none := by decide
example : specRun (pend []) [.arrive 1 10, .arrive 2 11, .release 1 [10, 11]] = none := by decide
example : specRun (pend []) [.arrive 1 10, .release 1 [10], .release 1 [10]] = none := by decide

/-- Non-vacuity. -/
def demoOps : List Op :=
  [ .ev 1 1 false 0 {}, .ev 2 2 false 1 {}, .ng 3, .ev 4 1 false 2 {}, .ev 5 2 true 3 {}, .ev 6 3 false 30 {},
    .flushAll { sf := 3 }, .ev 7 1 false 31 {}, .close {} ]
example : (runLog ⟨true, 10⟩ [] demoOps).2.1 = [1, 2, 4, 5, 6, 7] := by decide
example : (runLog ⟨true, 10⟩ [] demoOps).2.2 = [2, 5, 1, 4, 6, 7] := by decide
example : (runLog ⟨true, 10⟩ [] demoOps).1 = [] := by decide

example : (allActs ⟨true, 10⟩ [] demoOps).length = 10 := by decide

/-- **Each step of the model is one critical section of the code** (regenerated from
filters/gated/gated.go on every run; the same fact as `C17.sections_on_source`): `Close` and
`FlushAll` hold `Filter.l` from beginning to end; `Process` is initialisation, the expiry sweep and the
update of the event's own group, each under one exclusive acquisition.  With concurrent senders the
history the theorems quantify over is the order of these sections; a sweep that looks for expired groups
in one section and opens them in another shows here as a fourth acquisition. -/
theorem sections_on_source : Evl.Generated.gatedSections = [1, 1, 3] := by decide

end Evl.C11
