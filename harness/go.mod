module evlharness

go 1.23

toolchain go1.23.5

require (
	github.com/hashicorp/eventlogger v0.2.10
	github.com/hashicorp/eventlogger/filters/encrypt v0.1.8
	github.com/hashicorp/go-kms-wrapping/v2 v2.0.18
	github.com/hashicorp/go-multierror v1.1.1
	github.com/mitchellh/copystructure v1.2.0
	golang.org/x/crypto v0.32.0
	google.golang.org/protobuf v1.36.4
)

require (
	github.com/davecgh/go-spew v1.1.1 // indirect
	github.com/hashicorp/errwrap v1.1.0 // indirect
	github.com/hashicorp/go-secure-stdlib/base62 v0.1.2 // indirect
	github.com/hashicorp/go-secure-stdlib/parseutil v0.1.9 // indirect
	github.com/hashicorp/go-secure-stdlib/strutil v0.1.2 // indirect
	github.com/hashicorp/go-sockaddr v1.0.7 // indirect
	github.com/hashicorp/go-uuid v1.0.3 // indirect
	github.com/mitchellh/mapstructure v1.5.0 // indirect
	github.com/mitchellh/pointerstructure v1.2.1 // indirect
	github.com/mitchellh/reflectwalk v1.0.2 // indirect
	github.com/pmezard/go-difflib v1.0.0 // indirect
	github.com/ryanuber/go-glob v1.0.0 // indirect
	github.com/stretchr/testify v1.10.0 // indirect
	gopkg.in/yaml.v3 v3.0.1 // indirect
)

replace github.com/hashicorp/eventlogger => /repo

replace github.com/hashicorp/eventlogger/filters/encrypt => /repo/filters/encrypt
