module evlharness

go 1.23

toolchain go1.23.5

require (
	github.com/hashicorp/eventlogger v0.2.10
	github.com/hashicorp/eventlogger/filters/encrypt v0.1.8
)

require (
	github.com/hashicorp/errwrap v1.1.0 // indirect
	github.com/hashicorp/go-multierror v1.1.1 // indirect
)

replace github.com/hashicorp/eventlogger => /repo

replace github.com/hashicorp/eventlogger/filters/encrypt => /repo/filters/encrypt
