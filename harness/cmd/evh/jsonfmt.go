package main

// Correspondence harness for M8 Json: byte-for-byte comparison of the model's rendering with what
// JSONFormatter / JSONFormatterFilter store, over a JSON-value generator (nested maps / slices,
// strings with control, HTML and non-UTF-8 bytes, U+2028/9, large ints, floats incl. NaN/Inf,
// unsupported kinds), event types with special characters and predicate outcomes; C14 oracles.

import (
	"bytes"
	"context"
	"encoding/hex"
	"encoding/json"
	"errors"
	"flag"
	"fmt"
	"math"
	"sort"
	"strings"
	"sync"
	"time"
	"unicode/utf8"

	"github.com/hashicorp/eventlogger"
)

func hx(b []byte) string {
	if len(b) == 0 {
		return "-"
	}
	return hex.EncodeToString(b)
}

var strPieces = []string{"a", "Z", "0", " ", "\"", "\\", "\n", "\r", "\t", "\b", "\f", "\x00", "\x1f", "\x7f", "<", ">", "&", "é", "€", "😀", " ", " ",
	"\xff", "\xc3", "\xe2\x80", "\xed\xa0\x80", "\xf4\x90\x80\x80", "\xc0\xaf", "/", "'",
	// text that looks like the encoder's own escapes: a backslash followed by u003c, u0026, u2028, n, "
	`\u003c`, `\u003e`, `\u0026`, `\u2028`, `\ufffd`, `\n`, `\"`, `\\`, "u003c"}

func genStr(p *prng) string {
	var sb strings.Builder
	for i := p.intn(5); i > 0; i-- {
		sb.WriteString(strPieces[p.intn(len(strPieces))])
	}
	return sb.String()
}

type badJSONMarshaler struct{}

func (badJSONMarshaler) MarshalJSON() ([]byte, error) { return nil, errors.New("cannot be encoded") }

type badTextMarshaler struct{}

func (badTextMarshaler) MarshalText() ([]byte, error) { return nil, errors.New("cannot be encoded") }

// genVal returns a Go value and the token stream encoding/json walks for it
func genVal(p *prng, depth int) (interface{}, []string) {
	k := p.intn(12)
	if depth <= 0 && k >= 8 {
		k = p.intn(8)
	}
	switch k {
	case 0:
		return nil, []string{"N"}
	case 1:
		b := p.intn(2) == 0
		if b {
			return b, []string{"T"}
		}
		return b, []string{"F"}
	case 2:
		n := []int64{0, 1, -1, 42, math.MaxInt64, math.MinInt64, 1 << 53}[p.intn(7)]
		return n, []string{"#" + hx([]byte(fmt.Sprint(n)))}
	case 3:
		f := []float64{0, 1.5, -2.25e-9, 1e21, 1e20, 3.141592653589793, math.NaN(), math.Inf(1), 1e-7, 100}[p.intn(10)]
		if math.IsNaN(f) || math.IsInf(f, 0) {
			return f, []string{"U"}
		}
		b, _ := json.Marshal(f)
		return f, []string{"#" + hx(b)}
	case 4, 5, 6:
		s := genStr(p)
		return s, []string{"S" + hx([]byte(s))}
	case 7:
		if p.chance(1, 3) {
			// values encoding/json refuses, by every route it has for refusing: an unsupported kind, a
			// marshaller that fails (value and text), raw bytes that are not JSON, an invalid number literal,
			// a function, a complex number
			switch p.intn(7) {
			case 0:
				return make(chan int), []string{"U"}
			case 1:
				return badJSONMarshaler{}, []string{"U"}
			case 2:
				return badTextMarshaler{}, []string{"U"}
			case 3:
				return json.RawMessage("{not json"), []string{"U"}
			case 4:
				return json.Number("12x"), []string{"U"}
			case 5:
				return func() {}, []string{"U"}
			default:
				return map[badTextMarshaler]int{{}: 1}, []string{"U"}
			}
		}
		s := genStr(p)
		return s, []string{"S" + hx([]byte(s))}
	case 8, 9:
		n := p.intn(4)
		arr := make([]interface{}, 0, n) // non-nil: encodes as []
		toks := []string{"["}
		for i := 0; i < n; i++ {
			v, t := genVal(p, depth-1)
			arr = append(arr, v)
			toks = append(toks, t...)
		}
		return arr, append(toks, "]")
	default:
		n := p.intn(4)
		m := map[string]interface{}{}
		sub := map[string][]string{}
		for i := 0; i < n; i++ {
			key := genStr(p)
			v, t := genVal(p, depth-1)
			m[key] = v
			sub[key] = t
		}
		var keys []string
		for k := range m {
			keys = append(keys, k)
		}
		sort.Strings(keys)
		toks := []string{"{"}
		for _, k := range keys {
			toks = append(toks, "K"+hx([]byte(k)))
			toks = append(toks, sub[k]...)
		}
		return m, append(toks, "}")
	}
}

// jshape is encoding/json's reading of a document without insignificant white space: "bad" when it is
// not such a document, otherwise the values in document order (member names marked K, strings decoded,
// number literals verbatim). skip: the document has \u escapes in the surrogate range, which the
// model's reader does not pair (the encoder never writes them).
func jshape(b []byte) (shape string, skip bool) {
	if !json.Valid(b) {
		return "bad", false
	}
	var cb bytes.Buffer
	if json.Compact(&cb, b) != nil || cb.String() != string(b) {
		return "bad", false
	}
	if !utf8.Valid(b) {
		return "ok", true // raw invalid UTF-8 inside a string: encoding/json replaces it, the model's reader copies it
	}
	for i := 0; i+3 < len(b); i++ {
		if b[i] == '\\' && b[i+1] == 'u' && (b[i+2] == 'd' || b[i+2] == 'D') && strings.IndexByte("89abcdefABCDEF", b[i+3]) >= 0 {
			return "ok", true
		}
	}
	dec := json.NewDecoder(bytes.NewReader(b))
	dec.UseNumber()
	out := []string{"ok"}
	type frame struct {
		obj     bool
		wantKey bool
	}
	var stack []frame
	for {
		t, err := dec.Token()
		if err != nil {
			break
		}
		isKey := len(stack) > 0 && stack[len(stack)-1].obj && stack[len(stack)-1].wantKey
		switch v := t.(type) {
		case json.Delim:
			switch v {
			case '{':
				out = append(out, "{")
				if len(stack) > 0 && stack[len(stack)-1].obj {
					stack[len(stack)-1].wantKey = true
				}
				stack = append(stack, frame{obj: true, wantKey: true})
				continue
			case '[':
				out = append(out, "[")
				if len(stack) > 0 && stack[len(stack)-1].obj {
					stack[len(stack)-1].wantKey = true
				}
				stack = append(stack, frame{})
				continue
			case '}':
				out = append(out, "}")
				stack = stack[:len(stack)-1]
				continue
			case ']':
				out = append(out, "]")
				stack = stack[:len(stack)-1]
				continue
			}
		case string:
			if isKey {
				out = append(out, "K"+hx([]byte(v)))
				stack[len(stack)-1].wantKey = false
				continue
			}
			out = append(out, "S"+hx([]byte(v)))
		case json.Number:
			out = append(out, "#"+hx([]byte(v)))
		case bool:
			if v {
				out = append(out, "t")
			} else {
				out = append(out, "f")
			}
		case nil:
			out = append(out, "n")
		}
		if len(stack) > 0 && stack[len(stack)-1].obj {
			stack[len(stack)-1].wantKey = true
		}
	}
	return strings.Join(out, " "), false
}

// mutateDoc damages a JSON document in one place (or leaves it alone)
func mutateDoc(p *prng, b []byte) []byte {
	d := append([]byte(nil), b...)
	alphabet := []byte("{}[],:\"\\0123456789.eE+-ntfu/ \n\x01\x7f\xc3\xa9\xff")
	pick := func() byte { return alphabet[p.intn(len(alphabet))] }
	if len(d) == 0 {
		return d
	}
	i := p.intn(len(d))
	switch p.intn(7) {
	case 0:
		return append(d[:i], d[i+1:]...)
	case 1:
		return append(d[:i+1], d[i:]...)
	case 2:
		d[i] = pick()
	case 3:
		return append(d[:i], append([]byte{pick()}, d[i:]...)...)
	case 4:
		return d[:i]
	case 5:
		return append(d, pick())
	}
	return d
}

func jsonMain(args []string) {
	fs := flag.NewFlagSet("json", flag.ExitOnError)
	seed := fs.Uint64("seed", 1, "seed")
	n := fs.Int("n", 5000, "cases")
	out := fs.String("out", "", "output dir")
	_ = fs.String("corpus", "", "unused")
	fs.Parse(args)
	st := newStats()
	o := openOut(*out)
	p := newPrng(*seed)
	oracle := func(f string, a ...any) {
		st.hit("oracle-failure")
		if len(st.Oracle) < 40 {
			st.Oracle = append(st.Oracle, fmt.Sprintf(f, a...))
		}
	}
	ctx := context.Background()
	seen := map[string]bool{}
	// events formatted earlier are held (as a gated filter, a channel consumer or a slow sink would) and
	// re-checked after later events were formatted: the stored line must stay the event's own
	type held struct {
		e    *eventlogger.Event
		want []byte
	}
	var ring []held
	recheck := func() {
		for _, h := range ring {
			got, ok := h.e.Format("json")
			if !ok || string(got) != string(h.want) {
				oracle("C14 the json line stored for an earlier event changed after another event was formatted: %.60q -> %.60q", h.want, got)
				ring = nil
				return
			}
		}
	}
	for i := 0; i < *n; i++ {
		st.Cases++
		st.Ops++
		if i%25 == 24 { // eventlogger.Filter
			pr := []string{"keep", "drop", "err", "errkeep"}[p.intn(4)]
			f := &eventlogger.Filter{Predicate: func(e *eventlogger.Event) (bool, error) {
				switch pr {
				case "keep":
					return true, nil
				case "drop":
					return false, nil
				case "errkeep": // an error is an error, whatever the boolean next to it says
					return true, errors.New("predicate failed")
				}
				return false, errors.New("predicate failed")
			}}
			e := &eventlogger.Event{Type: "t"}
			got, err := f.Process(ctx, e)
			res := "error"
			if err == nil && got == e {
				res = "forward"
			} else if err == nil && got == nil {
				res = "dropped"
			}
			if (pr == "keep") != (res == "forward") || (pr == "err" || pr == "errkeep") != (err != nil) {
				oracle("C14 Filter predicate %s gave %s", pr, res)
			}
			o.emit("filter "+pr, res)
			continue
		}
		payload, toks := genVal(p, 3)
		ty := genStr(p)
		created := time.Date(2020+p.intn(5), time.Month(1+p.intn(12)), 1+p.intn(28), p.intn(24), p.intn(60), p.intn(60), p.intn(2)*p.intn(1e9), time.UTC)
		switch p.intn(10) {
		case 0: // not stamped by Broker.Send
			created = time.Time{}
			st.hit("time:zero")
		case 1:
			created = time.Date(1+p.intn(9998), time.Month(1+p.intn(12)), 1+p.intn(28), p.intn(24), p.intn(60), p.intn(60), p.intn(1e9), time.FixedZone("x", (p.intn(27)-13)*3600+p.intn(2)*1800))
			st.hit("time:zoned")
		}
		ctok, _ := json.Marshal(created)
		e := &eventlogger.Event{Type: eventlogger.EventType(ty), CreatedAt: created, Formatted: map[string][]byte{}, Payload: payload}
		if p.chance(1, 5) {
			// an event that was not made by Broker.Send (built by a caller or by another node): no table yet
			e.Formatted = nil
			st.hit("nil-format-table")
		}
		// a quarter of the events reach the formatter with a json entry already in the table (an earlier
		// formatter of the pipeline, another pipeline of the type, the caller): the formatter is the last writer
		var stale []byte
		if p.chance(1, 4) {
			stale = []byte("{\"created_at\":\"2001-01-01T00:00:00Z\",\"event_type\":\"stale\",\"payload\":\"stale-secret\"}\n")
			if p.chance(1, 3) {
				stale = []byte("not json at all")
			}
			e.FormattedAs("json", stale)
			st.hit("prefilled-json-entry")
		}
		useFilter := p.intn(2) == 0
		pred := "absent"
		var got *eventlogger.Event
		var err error
		if useFilter {
			pred = []string{"absent", "keep", "drop", "err", "errkeep"}[p.intn(5)]
			ff := &eventlogger.JSONFormatterFilter{}
			switch pred {
			case "keep":
				ff.Predicate = func(interface{}) (bool, error) { return true, nil }
			case "drop":
				ff.Predicate = func(interface{}) (bool, error) { return false, nil }
			case "err":
				ff.Predicate = func(interface{}) (bool, error) { return false, errors.New("predicate failed") }
			case "errkeep":
				ff.Predicate = func(interface{}) (bool, error) { return true, errors.New("predicate failed") }
			}
			got, err = ff.Process(ctx, e)
		} else {
			got, err = (&eventlogger.JSONFormatter{}).Process(ctx, e)
		}
		stored, has := e.Format("json")
		res := ""
		unsupported := false
		for _, t := range toks {
			if t == "U" {
				unsupported = true
			}
		}
		switch {
		case err != nil:
			res = "error"
			if unsupported && has && !(stale != nil && string(stored) == string(stale)) {
				oracle("C14 unencodable payload but bytes were stored")
			}
		case got == nil:
			res = "dropped " + hx(stored)
		default:
			res = "forward " + hx(stored)
			if got != e {
				oracle("C14 the formatter forwarded a different event")
			}
		}
		if unsupported && err == nil {
			oracle("C14 unencodable payload accepted")
		}
		// an error from the predicate is an error, whatever the boolean next to it says
		if (pred == "err" || pred == "errkeep") && err == nil {
			oracle("C14 the predicate returned an error (%s) but JSONFormatterFilter.Process reported none (%.20s)", pred, res)
		}
		if err == nil && stale != nil && string(stored) == string(stale) {
			oracle("C14 the json entry present before Process survived: the stored line is not the line of this event (last writer wins)")
		}
		if err == nil {
			// one newline-terminated line of valid JSON with exactly the three members
			if len(stored) == 0 || stored[len(stored)-1] != '\n' || strings.Count(string(stored), "\n") != 1 {
				oracle("C14 stored bytes are not a single newline-terminated line: %q", stored)
			}
			var doc map[string]json.RawMessage
			if jerr := json.Unmarshal(stored, &doc); jerr != nil {
				oracle("C14 stored bytes are not valid JSON: %v", jerr)
			} else {
				if len(doc) != 3 || doc["created_at"] == nil || doc["event_type"] == nil || doc["payload"] == nil {
					oracle("C14 members are %v", doc)
				}
				var ts time.Time
				if json.Unmarshal(doc["created_at"], &ts) != nil || !ts.Equal(created) {
					oracle("C14 created_at does not decode to the creation time")
				}
				var t2 string
				if json.Unmarshal(doc["event_type"], &t2) != nil || (utf8.ValidString(ty) && t2 != ty) {
					oracle("C14 event_type decodes to %q, sent %q", t2, ty)
				}
				want, _ := json.Marshal(payload)
				var a, b interface{}
				if json.Unmarshal(want, &a) == nil && json.Unmarshal(doc["payload"], &b) == nil {
					ja, _ := json.Marshal(a)
					jb, _ := json.Marshal(b)
					if string(ja) != string(jb) {
						oracle("C14 payload does not decode to the JSON image of the payload")
					}
				}
			}
		}
		if has && err == nil && len(stored) > 0 && p.chance(1, 2) {
			// the model's JSON parser (M8r, the reader of the round-trip theorems) against encoding/json as a
			// reader: the stored line as it is, and damaged in one place
			doc := stored[:len(stored)-1]
			if p.chance(1, 2) {
				doc = mutateDoc(p, doc)
			}
			want, skip := jshape(doc)
			st.Ops++
			if skip { // only acceptance is compared
				st.hit("accepts:" + want)
				o.emit("accepts "+hx(doc), want)
			} else {
				st.hit("parse:" + strings.Fields(want)[0])
				o.emit("parse "+hx(doc), want)
			}
		}
		if has && err == nil {
			recheck()
			ring = append(ring, held{e, append([]byte(nil), stored...)})
			if len(ring) > 8 {
				ring = ring[1:]
			}
		}
		st.hit("res:" + strings.Fields(res)[0])
		if unsupported {
			st.hit("unsupported")
		}
		if !utf8.ValidString(ty) {
			st.hit("type:invalid-utf8")
		}
		op := ""
		if useFilter {
			op = fmt.Sprintf("fmtf %s %s %s %s", hx(ctok), hx([]byte(ty)), pred, strings.Join(toks, " "))
		} else {
			op = fmt.Sprintf("fmt %s %s %s", hx(ctok), hx([]byte(ty)), strings.Join(toks, " "))
		}
		o.emit(op, res)
		if !seen[op] {
			seen[op] = true
			if len(toks) > 1 {
				st.Distinct++
			}
			if len(st.Samples) < 3 && len(toks) > 3 {
				st.Samples = append(st.Samples, op+" => "+res)
			}
		}
	}
	// the format table under concurrent FIRST writers (two pipelines of one type share the event): every
	// entry whose FormattedAs returned is there, under its own key, with its own bytes
	rounds := 60000
	if *n > 50000 {
		rounds = 600000
	}
	lost := 0
	for r := 0; r < rounds && lost == 0; r++ {
		e := &eventlogger.Event{Type: "t"}
		start := make(chan struct{})
		var wg sync.WaitGroup
		for g := 0; g < 4; g++ {
			wg.Add(1)
			go func(g int) {
				defer wg.Done()
				<-start
				e.FormattedAs(fmt.Sprintf("fmt-%d", g), []byte{byte(g)})
			}(g)
		}
		close(start)
		wg.Wait()
		for g := 0; g < 4; g++ {
			if b, ok := e.Format(fmt.Sprintf("fmt-%d", g)); !ok || len(b) != 1 || b[0] != byte(g) {
				lost++
				oracle("C14 format table: FormattedAs(%q) returned, yet Format gives %v, %v after concurrent first writers (round %d)", fmt.Sprintf("fmt-%d", g), b, ok, r)
				break
			}
		}
	}
	st.hit("table:concurrent-first-writers")
	o.close()
	st.write(*out)
	if len(st.Oracle) > 0 {
		fmt.Printf("ORACLE-FAILURES %d\n%s\n", len(st.Oracle), st.Oracle[0])
	}
	fmt.Printf("cases=%d distinct=%d\n", st.Cases, st.Distinct)
}
