package main

// Correspondence harness for M9 Sinks: writer.Sink with recording / failing / short writers over
// random format tables, FileSink's special paths, ChannelSink's select, Event's format table;
// concurrent Process calls check that the bytes of different events never interleave.

import (
	"context"
	"errors"
	"flag"
	"fmt"
	"io"
	"os"
	"strings"
	"sync"
	"time"

	"github.com/hashicorp/eventlogger"
	"github.com/hashicorp/eventlogger/sinks/channel"
	"github.com/hashicorp/eventlogger/sinks/writer"
)

var fmtNames = []string{"", "json", "cloudevents-json", "text"}

// gateWriter: a writer whose Write takes a moment (so that other Process calls pile up meanwhile)
type gateWriter struct {
	hold time.Duration
	buf  []byte
}

func (g *gateWriter) Write(b []byte) (int, error) {
	time.Sleep(g.hold)
	g.buf = append(g.buf, b...)
	return len(b), nil
}

type testWriter struct {
	kind   string
	n      int
	writes [][]byte
	taken  []byte // the bytes the writer actually accepted
	during func()
}

func (w *testWriter) Write(p []byte) (int, error) {
	if w.during != nil {
		w.during() // something else happens to the event while the sink is writing
	}
	w.writes = append(w.writes, append([]byte(nil), p...))
	switch w.kind {
	case "fail":
		return 0, errors.New("write failed")
	case "short":
		if w.n < len(p) {
			w.taken = append(w.taken, p[:w.n]...)
			return w.n, nil
		}
	}
	w.taken = append(w.taken, p...)
	return len(p), nil
}

func showB(b []byte) string {
	ss := make([]string, len(b))
	for i, x := range b {
		ss[i] = fmt.Sprint(int(x))
	}
	return strings.Join(ss, ".")
}

func sinksMain(args []string) {
	fs := flag.NewFlagSet("sinks", flag.ExitOnError)
	seed := fs.Uint64("seed", 1, "seed")
	n := fs.Int("n", 3000, "cases")
	out := fs.String("out", "", "output dir")
	_ = fs.String("corpus", "", "unused")
	fs.Parse(args)
	st := newStats()
	o := openOut(*out)
	p := newPrng(*seed)
	oracle := func(f string, a ...any) {
		st.hit("oracle-failure")
		if len(st.Oracle) < 40 {
			st.Oracle = append(st.Oracle, fmt.Sprintf(f, a...))
		}
	}
	seen := map[string]bool{}
	genTable := func() (map[string][]byte, []string) {
		k := p.intn(4)
		tbl := map[string][]byte{}
		var toks []string
		for i := 0; i < k; i++ {
			f := 1 + p.intn(3)
			b := make([]byte, p.intn(6))
			for j := range b {
				b[j] = byte(p.intn(256))
			}
			tbl[fmtNames[f]] = b
			toks = append(toks, fmt.Sprintf("%d:%s", f, showB(b)))
		}
		return tbl, toks
	}
	ctx := context.Background()
	for i := 0; i < *n; i++ {
		st.Cases++
		switch p.intn(12) {
		case 0, 1, 2, 3, 4: // writer.Sink
			tbl, toks := genTable()
			cfg := p.intn(4)
			wk := []string{"ok", "ok", "fail", "short", "nil"}[p.intn(5)]
			en := p.chance(1, 12)
			tw := &testWriter{kind: wk, n: p.intn(5)}
			s := &writer.Sink{Format: fmtNames[cfg]}
			wtok := wk
			if wk == "short" {
				wtok = fmt.Sprintf("short=%d", tw.n)
			}
			if wk != "nil" {
				s.Writer = tw
			}
			var e *eventlogger.Event
			if !en {
				e = &eventlogger.Event{Formatted: tbl}
			}
			key := map[bool]string{true: "json", false: fmtNames[cfg]}[cfg == 0]
			var wantSnap []byte
			restored := false
			if e != nil {
				wantSnap = append([]byte(nil), tbl[key]...)
				if _, has := tbl[key]; has && p.chance(1, 3) {
					// while the sink is writing, another pipeline's formatter stores the format again (same key,
					// a value that fits into the old one): what is written is what was stored when the sink looked
					restored = true
					tw.during = func() {
						nv := make([]byte, len(wantSnap)/2)
						for j := range nv {
							nv[j] = 0xEE
						}
						e.FormattedAs(key, nv)
					}
				}
			}
			_, err := s.Process(ctx, e)
			if restored && err == nil && len(tw.writes) == 1 && string(tw.writes[0]) != string(wantSnap) {
				oracle("C13 writer.Sink wrote %v; the bytes stored for %q when it looked were %v (the format was stored again, by somebody else, while the sink was writing)", tw.writes[0], key, wantSnap)
			}
			if restored {
				st.hit("writer:restored-during-write")
				tbl[key] = wantSnap // the oracles below speak about the value the sink was given
			}
			res := ""
			switch {
			case err == nil:
				if len(tw.writes) != 1 {
					// an empty byte string needs no Write at all (bytes.Reader.WriteTo of 0 bytes)
					if !(len(tw.writes) == 0) {
						oracle("C13 writer.Sink success after %d Write calls (exactly one expected)", len(tw.writes))
					}
					res = "wrote "
				} else {
					res = "wrote " + showB(tw.writes[0])
				}
				want, ok := tbl[map[bool]string{true: "json", false: fmtNames[cfg]}[cfg == 0]]
				if !ok || (len(tw.writes) == 1 && string(want) != string(tw.writes[0])) {
					oracle("C13 writer.Sink wrote %v but the table holds %v for the configured format", tw.writes, want)
				}
				if ok && string(tw.taken) != string(want) {
					oracle("C13 writer.Sink reported success although its writer accepted only %d of the %d bytes of the stored value", len(tw.taken), len(want))
				}
			case strings.Contains(err.Error(), "writer is nil"):
				res = "err E_NIL_WRITER"
			case strings.Contains(err.Error(), "event is nil"):
				res = "err E_NIL_EVENT"
			case strings.Contains(err.Error(), "not marshaled"):
				res = "err E_NOT_MARSHALED"
			default:
				res = "err E_WRITE"
			}
			st.hit("writer:" + strings.Fields(res)[len(strings.Fields(res))-1][:1] + ":" + wk)
			op := strings.TrimSpace(fmt.Sprintf("writer %s %s %d %s", wtok, map[bool]string{true: "1", false: "0"}[en], cfg, strings.Join(toks, " ")))
			o.emit(op, strings.TrimSpace(res)+map[bool]string{true: "", false: ""}[true])
			if !seen[op] {
				seen[op] = true
				st.Distinct++
				if len(st.Samples) < 4 {
					st.Samples = append(st.Samples, op+" => "+res)
				}
			}
		case 5: // FileSink /dev/null and stdout
			tbl, toks := genTable()
			cfg := p.intn(4)
			if p.chance(1, 5) {
				// a device on which every write fails (ENOSPC), before and after the sink's one retry: an error,
				// never success; and a standard stream that is closed
				ev := &eventlogger.Event{Formatted: map[string][]byte{"json": []byte("{\"k\":1}\n")}}
				full := &eventlogger.FileSink{Path: "/dev", FileName: "full"}
				if _, err := full.Process(ctx, ev); err == nil {
					oracle("C13 FileSink reported success although the underlying write failed (and failed again on the retry): /dev/full")
				}
				closed, _ := os.CreateTemp("", "closed")
				os.Remove(closed.Name())
				closed.Close()
				oldOut := os.Stdout
				os.Stdout = closed
				_, err := (&eventlogger.FileSink{Path: "/dev/stdout"}).Process(ctx, ev)
				os.Stdout = oldOut
				if err == nil {
					oracle("C13 FileSink reported success although the underlying write failed: closed standard output")
				}
				st.hit("fsspecial:failing-writes")
				continue
			}
			if p.chance(1, 2) {
				s := &eventlogger.FileSink{Path: "/dev/null", Format: fmtNames[cfg]}
				_, err := s.Process(ctx, nil) // does not even look at the event
				if err != nil {
					oracle("C13 FileSink(/dev/null) returned %v", err)
				}
				o.emit(strings.TrimSpace(fmt.Sprintf("fsspecial 1 %d %s", cfg, strings.Join(toks, " "))), "nothing")
				st.hit("fsspecial:devnull")
			} else {
				r, w, _ := os.Pipe()
				old := os.Stdout
				os.Stdout = w
				s := &eventlogger.FileSink{Path: "/dev/stdout", Format: fmtNames[cfg]}
				_, err := s.Process(ctx, &eventlogger.Event{Formatted: tbl})
				os.Stdout = old
				w.Close()
				got, _ := io.ReadAll(r)
				res := "wrote " + showB(got)
				if err != nil {
					res = "err E_NOT_MARSHALED"
				}
				// exactly the bytes stored for the configured format (JSON when unset), an error when there are none
				want, has := tbl[map[bool]string{true: "json", false: fmtNames[cfg]}[cfg == 0]]
				switch {
				case !has && err == nil:
					oracle("C13 FileSink(/dev/stdout) with format %q reported success although the event has no bytes for that format (it wrote %q)", fmtNames[cfg], got)
				case has && err == nil && string(got) != string(want):
					oracle("C13 FileSink(/dev/stdout) wrote %q, the bytes stored for its format are %q", got, want)
				case has && err != nil:
					oracle("C13 FileSink(/dev/stdout) failed (%v) although the event has the bytes of its format", err)
				}
				o.emit(strings.TrimSpace(fmt.Sprintf("fsspecial 2 %d %s", cfg, strings.Join(toks, " "))), strings.TrimSpace(res))
				st.hit("fsspecial:stdout")
			}
		case 6: // ChannelSink: the context ends (or the channel is drained) WHILE Process is blocked
			ch := make(chan *eventlogger.Event) // unbuffered, no receiver yet
			cs, _ := channel.NewChannelSink(ch, 400*time.Millisecond)
			c2, cancel := context.WithCancel(ctx)
			e := &eventlogger.Event{Type: "x"}
			mode := p.intn(3) // 0: cancel during the wait; 1: drain during the wait; 2: drain, then cancel at once
			recvd := make(chan *eventlogger.Event, 1)
			go func() {
				time.Sleep(4 * time.Millisecond)
				switch mode {
				case 0:
					cancel()
				case 1:
					recvd <- <-ch
				default:
					// the hand-over happens first; a context that ends right after it must not turn the
					// success into an error ("never both")
					g := <-ch
					cancel()
					recvd <- g
				}
			}()
			t0 := time.Now()
			_, err := cs.Process(c2, e)
			dt := time.Since(t0)
			cancel()
			obs := "sent"
			if err != nil {
				if errors.Is(err, context.Canceled) {
					obs = "ctx"
				} else {
					obs = "timeout"
				}
			}
			var handed *eventlogger.Event
			if mode != 0 {
				select {
				case handed = <-recvd:
				case <-time.After(500 * time.Millisecond):
				}
			}
			if handed != nil && err != nil {
				oracle("C13 ChannelSink: the event WAS handed to the channel, yet Process returned the error %q (never both)", err)
			}
			if handed == nil && err == nil {
				oracle("C13 ChannelSink: Process reported success but nothing was handed to the channel (never neither)")
			}
			if handed != nil && handed != e {
				oracle("C13 ChannelSink handed a different event to the channel")
			}
			if mode == 0 && obs != "ctx" {
				oracle("C13 ChannelSink: the context was cancelled 4ms into a blocked Process (timeout 400ms) but it returned %q after %v: never blocking longer than the shorter of the two", obs, dt)
			}
			if mode == 1 && obs != "sent" {
				oracle("C13 ChannelSink: the channel was drained 4ms into a blocked Process but it returned %q after %v", obs, dt)
			}
			if dt > 300*time.Millisecond {
				oracle("C13 ChannelSink blocked %v although an arm became ready after 4ms", dt)
			}
			if mode == 2 {
				st.hit("chan-handover-then-cancel:" + obs)
				if handed != nil {
					obs = "sent" // what the model is asked about: the receiver was ready, the context was not done yet
				}
			}
			o.emit(fmt.Sprintf("chan %s %s false %s", bstr(mode != 0), bstr(mode == 0), obs), "ok")
			st.hit("chan-during-wait:" + obs)
		case 11: // writer.Sink: 2..16 Process calls at once, one of them held inside Write for a moment
			if st.Counts["writer-concurrent"] >= 60 {
				continue
			}
			nC := 2 + p.intn(15)
			gw := &gateWriter{hold: time.Duration(50+p.intn(400)) * time.Microsecond}
			ws := &writer.Sink{Writer: gw}
			var wgc sync.WaitGroup
			okc := make([]bool, nC)
			for k := 0; k < nC; k++ {
				wgc.Add(1)
				go func(k int) {
					defer wgc.Done()
					val := []byte(fmt.Sprintf("{\"w\":%d,\"pad\":\"%s\"}\n", k, strings.Repeat("x", k*3)))
					_, err := ws.Process(ctx, &eventlogger.Event{Formatted: map[string][]byte{"json": val}})
					okc[k] = err == nil
				}(k)
			}
			wgc.Wait()
			got := string(gw.buf)
			for k := 0; k < nC; k++ {
				val := fmt.Sprintf("{\"w\":%d,\"pad\":\"%s\"}\n", k, strings.Repeat("x", k*3))
				if c := strings.Count(got, val); okc[k] && c != 1 {
					oracle("C13 writer.Sink: %d concurrent Process calls all reported success, but the bytes of call %d are in the writer %d times (exactly once, contiguous)", nC, k, c)
					break
				}
			}
			if len(got) != func() (t int) {
				for k := 0; k < nC; k++ {
					if okc[k] {
						t += len(fmt.Sprintf("{\"w\":%d,\"pad\":\"%s\"}\n", k, strings.Repeat("x", k*3)))
					}
				}
				return
			}() {
				oracle("C13 writer.Sink: the writer holds %d bytes, not the sum of the acknowledged events", len(got))
			}
			st.hit("writer-concurrent")
		case 10: // ChannelSink: several Process calls at once on one sink, each with its own bounded wait
			if st.Counts["chan-concurrent"] >= 25 {
				continue // each of these takes a timeout's worth of wall clock
			}
			nC := 2 + p.intn(4)
			ch := make(chan *eventlogger.Event) // nobody receives
			cs, _ := channel.NewChannelSink(ch, 30*time.Millisecond)
			type ret struct {
				err error
				dt  time.Duration
			}
			rets := make(chan ret, nC)
			for k := 0; k < nC; k++ {
				stagger := time.Duration(k*p.intn(12)) * time.Millisecond
				go func() {
					time.Sleep(stagger)
					t0 := time.Now()
					_, err := cs.Process(ctx, &eventlogger.Event{Type: "x"})
					rets <- ret{err, time.Since(t0)}
				}()
			}
			returned := 0
			deadline := time.After(8 * time.Second)
		collect:
			for returned < nC {
				select {
				case r := <-rets:
					returned++
					if r.err == nil {
						oracle("C13 ChannelSink: Process reported success but nobody received from the channel (never neither)")
					}
				case <-deadline:
					break collect
				}
			}
			if returned < nC {
				oracle("C13 ChannelSink: %d concurrent Process calls on a channel nobody reads (timeout 30ms): only %d returned within 8s, the others are still blocked", nC, returned)
			}
			st.hit("chan-concurrent")
			st.Cases++
		case 7: // ChannelSink
			cr, cd := p.chance(1, 2), p.chance(1, 2)
			ch := make(chan *eventlogger.Event, 1)
			if !cr {
				ch <- &eventlogger.Event{}
			}
			cs, _ := channel.NewChannelSink(ch, 15*time.Millisecond)
			c2, cancel := context.WithCancel(ctx)
			if !cd && p.chance(1, 2) && st.Counts["chan:later-deadline"] < 25 {
				st.hit("chan:later-deadline")
				// a context with a deadline that lies (far) after the sink's own timeout: the shorter of the two bounds the wait
				cancel()
				c2, cancel = context.WithTimeout(ctx, 4*time.Second)
			}
			if cd {
				cancel()
			}
			e := &eventlogger.Event{Type: "x"}
			t0 := time.Now()
			out, err := cs.Process(c2, e)
			dt := time.Since(t0)
			cancel()
			obs := "sent"
			switch {
			case err == nil:
				if out != nil {
					oracle("C13 ChannelSink returned an event")
				}
				got := <-ch
				if !cr {
					got = <-ch
				}
				if got != e {
					oracle("C13 ChannelSink handed a different event to the channel")
				}
			case errors.Is(err, context.Canceled) || errors.Is(err, context.DeadlineExceeded):
				obs = "ctx"
			default:
				obs = "timeout"
			}
			// wall-clock latency is recorded, and a violation only beyond a generous bound (the sandbox may be loaded)
			if (cr || cd) && dt > 12*time.Millisecond {
				st.hit("chan:slow-although-ready")
			}
			if dt > 3500*time.Millisecond {
				oracle("C13 ChannelSink blocked %v although its own timeout is 15ms (the context's deadline, if any, lies later): the shorter of the two bounds the wait", dt)
			}
			to := !(cr || cd)
			o.emit(fmt.Sprintf("chan %s %s %s %s", bstr(cr), bstr(cd), bstr(to), obs), "ok")
			st.hit("chan:" + obs)
		default: // Event format table
			e := &eventlogger.Event{}
			o.emit("newevent", "ok")
			for j := 0; j < 2+p.intn(6); j++ {
				f := 1 + p.intn(3)
				if p.chance(1, 2) {
					b := make([]byte, p.intn(4))
					for k := range b {
						b[k] = byte(p.intn(256))
					}
					e.FormattedAs(fmtNames[f], b)
					o.emit(strings.TrimSpace(fmt.Sprintf("fa %d %s", f, showB(b))), "ok")
				} else {
					v, ok := e.Format(fmtNames[f])
					res := "none"
					if ok {
						res = strings.TrimSpace("some " + showB(v))
					}
					o.emit(fmt.Sprintf("fq %d", f), res)
				}
			}
			st.hit("table")
		}
		st.Ops++
	}
	// concurrent Process calls: bytes of different events never interleave
	for r := 0; r < 10; r++ {
		var mu sync.Mutex
		var chunks []string
		cw := writerFunc(func(b []byte) (int, error) {
			mu.Lock()
			chunks = append(chunks, string(b))
			mu.Unlock()
			return len(b), nil
		})
		s := &writer.Sink{Writer: cw}
		var wg sync.WaitGroup
		nG := 1 + p.intn(16)
		for g := 0; g < nG; g++ {
			wg.Add(1)
			go func(g int) {
				defer wg.Done()
				for i := 0; i < 20; i++ {
					s.Process(ctx, &eventlogger.Event{Formatted: map[string][]byte{"json": []byte(fmt.Sprintf("<%d-%d>", g, i))}})
				}
			}(g)
		}
		wg.Wait()
		if len(chunks) != nG*20 {
			oracle("C13 %d writes for %d events", len(chunks), nG*20)
		}
		for _, c := range chunks {
			if !strings.HasPrefix(c, "<") || !strings.HasSuffix(c, ">") || strings.Count(c, "<") != 1 {
				oracle("C13 interleaved bytes %q", c)
				break
			}
		}
		st.hit("concurrent-rounds")
	}
	// ChannelSink when both arms are ready at once (room in the channel AND the timeout over / the context
	// done already): either outcome is fine, never both, never neither
	for r := 0; r < 200; r++ {
		ch := make(chan *eventlogger.Event, 1)
		cs, _ := channel.NewChannelSink(ch, time.Nanosecond)
		cctx := ctx
		if r%2 == 1 {
			c2, cancel := context.WithCancel(ctx)
			cancel()
			cctx = c2
			cs, _ = channel.NewChannelSink(ch, time.Second)
		}
		time.Sleep(time.Microsecond)
		ev := &eventlogger.Event{Type: "t"}
		_, err := cs.Process(cctx, ev)
		var got *eventlogger.Event
		select {
		case got = <-ch:
		default:
		}
		st.Ops++
		if err != nil && got != nil {
			oracle("C13 ChannelSink (room in the channel, %s): Process reported %q AND the event was handed to the channel: both", map[bool]string{false: "its timeout over on entry", true: "the context done on entry"}[r%2 == 1], err)
			break
		}
		if err == nil && got != ev {
			oracle("C13 ChannelSink reported success but the channel holds %v: neither", got)
			break
		}
		if err == nil {
			st.hit("channel:both-ready:delivered")
		} else {
			st.hit("channel:both-ready:error")
		}
	}
	o.close()
	st.write(*out)
	if len(st.Oracle) > 0 {
		fmt.Printf("ORACLE-FAILURES %d\n%s\n", len(st.Oracle), st.Oracle[0])
	}
	fmt.Printf("cases=%d ops=%d distinct=%d\n", st.Cases, st.Ops, st.Distinct)
}

type writerFunc func([]byte) (int, error)

func (f writerFunc) Write(b []byte) (int, error) { return f(b) }
