package main

// Harness for filters/encrypt (C09, C10, C16).
//  (i)  correspondence with M7: payloads that are pointers to flat structs built at run time
//       (reflect.StructOf with `class` tags: valid, unknown, mixed case), every override map, wrapper
//       present / absent, EventWrapperInfo payloads, Rotate / rotation payloads in between; every
//       output leaf is canonicalised by decrypting / recomputing it with independent code;
//  (ii) the canary oracle on deep shapes (nested structs through pointers, slices, maps, struct
//       values inside maps, bare maps, struct values ...): no protected plaintext may survive in the
//       forwarded event, the input must stay untouched, shape must be preserved.

import (
	"context"
	"crypto/hmac"
	"crypto/sha256"
	"encoding/base64"
	"encoding/json"
	"flag"
	"fmt"
	"io"
	"reflect"
	"sort"
	"strings"

	"github.com/hashicorp/eventlogger"
	"github.com/hashicorp/eventlogger/filters/encrypt"
	wrapping "github.com/hashicorp/go-kms-wrapping/v2"
	"golang.org/x/crypto/hkdf"
	"google.golang.org/protobuf/proto"
)

type encHarness struct {
	f        *encrypt.Filter
	wrappers map[int]wrapping.Wrapper
	st       *stats
	curW     int // model-side view is in the Lean driver; the harness only needs candidates
}

func keyBytes(k int) []byte {
	b := make([]byte, 32)
	for i := range b {
		b[i] = byte(k)
	}
	return b
}

func (h *encHarness) wrapper(k int) wrapping.Wrapper {
	if w, ok := h.wrappers[k]; ok {
		return w
	}
	w := testWrapper(byte(k))
	if k%2 == 0 {
		// wrappers 2 and 4 have different keys under ONE key id (an id that names the key's purpose, not its
		// version): a rotation from one to the other is a rotation all the same
		w.SetConfig(context.Background(), wrapping.WithKeyId("audit-events"))
	}
	h.wrappers[k] = w
	return w
}

// plainM: the plaintext of value number m: mostly "m<m>", sometimes the empty string, sometimes bytes
// that are not UTF-8 (C16: all byte strings incl. empty and non-UTF8)
func plainM(m int) string {
	switch m % 13 {
	case 5:
		return ""
	case 9:
		return fmt.Sprintf("m%d\xff\xfe\x00\x80", m)
	case 7:
		// a value that looks like the filter's own output: it is a byte string like any other
		return "encrypted:" + base64.RawURLEncoding.EncodeToString([]byte(fmt.Sprintf("blob-%d", m)))
	case 11:
		return "hmac-sha256:" + base64.RawURLEncoding.EncodeToString([]byte(fmt.Sprintf("%032d", m)))
	}
	return fmt.Sprintf("m%d", m)
}

func optBytes(s string, prefix string) []byte {
	if s == "N" {
		return nil
	}
	return []byte(prefix + s)
}

// independent HMAC: HKDF(key bytes, salt, info) -> 32 bytes -> HMAC-SHA256
func indepHmac(key, salt, info, data []byte) string {
	r := hkdf.New(sha256.New, key, salt, info)
	k := make([]byte, 32)
	io.ReadFull(r, k)
	m := hmac.New(sha256.New, k)
	m.Write(data)
	return "hmac-sha256:" + base64.RawURLEncoding.EncodeToString(m.Sum(nil))
}

type ewiPayload struct {
	id           string
	salt, info   []byte
	sName, iName string // the harness's names of those byte values
}

// canonLeaf identifies how a produced value was protected, trying every candidate key
func (h *encHarness) canonLeaf(v string, plain string, m int, ewi *ewiPayload, salts, infos map[string][]byte) string {
	switch {
	case v == plain:
		return fmt.Sprintf("p%d", m)
	case v == encrypt.RedactedData:
		return "R"
	case strings.HasPrefix(v, "encrypted:"):
		raw, err := base64.RawURLEncoding.DecodeString(strings.TrimPrefix(v, "encrypted:"))
		if err != nil {
			return "E?"
		}
		blob := new(wrapping.BlobInfo)
		if proto.Unmarshal(raw, blob) != nil {
			return "E?"
		}
		for k := 1; k <= 4; k++ {
			if pt, err := h.wrapper(k).Decrypt(context.Background(), blob, nil); err == nil && string(pt) == plain {
				return fmt.Sprintf("E%d/-:%d", k, m)
			}
			if ewi != nil && ewi.id != "" {
				if dw, err := encrypt.NewEventWrapper(context.Background(), h.wrapper(k), ewi.id); err == nil {
					if pt, err := dw.Decrypt(context.Background(), blob, nil); err == nil && string(pt) == plain {
						return fmt.Sprintf("E%d/%s:%d", k, strings.TrimPrefix(ewi.id, "ev"), m)
					}
				}
			}
		}
		return "E?"
	case strings.HasPrefix(v, "hmac-sha256:"):
		for k := 1; k <= 4; k++ {
			type cand struct {
				key []byte
				id  string
			}
			cands := []cand{{keyBytes(k), "-"}}
			if ewi != nil && ewi.id != "" {
				if dw, err := encrypt.NewEventWrapper(context.Background(), h.wrapper(k), ewi.id); err == nil {
					if kb, err := dw.(interface {
						KeyBytes(context.Context) ([]byte, error)
					}).KeyBytes(context.Background()); err == nil {
						cands = append(cands, cand{kb, strings.TrimPrefix(ewi.id, "ev")})
					}
				}
			}
			for _, c := range cands {
				for sn, s := range salts {
					for in, i := range infos {
						if indepHmac(c.key, s, i, []byte(plain)) == v {
							return fmt.Sprintf("M%d/%s:%s:%s:%d", k, c.id, sn, in, m)
						}
					}
				}
			}
		}
		return "M?"
	}
	return "X(" + v + ")"
}

// flat struct payloads implementing EventWrapperInfo need a fixed Go type
type ewiFlat struct {
	Info *ewiPayload
	S0   string `class:"sensitive"`
	S1   string `class:"sensitive,hmac-sha256"`
	B2   []byte `class:"secret,hmac-sha256"`
	S3   string `class:"secret"`
	S4   string `class:"public"`
	B5   []byte `class:"sensitive"`
	// values below maps of maps: the event's key material has to reach them too
	Details map[string]interface{}
}

type ewiInner struct {
	V string `class:"sensitive"`
	H string `class:"sensitive,hmac-sha256"`
}

func (e *ewiFlat) EventId() string  { return e.Info.id }
func (e *ewiFlat) HmacSalt() []byte { return e.Info.salt }
func (e *ewiFlat) HmacInfo() []byte { return e.Info.info }

type rotPayload struct {
	w          wrapping.Wrapper
	salt, info []byte
}

func (r *rotPayload) Wrapper() wrapping.Wrapper { return r.w }
func (r *rotPayload) HmacSalt() []byte          { return r.salt }
func (r *rotPayload) HmacInfo() []byte          { return r.info }

var tagPool = []string{"public", "sensitive", "secret", "sensitive,redact", "sensitive,hmac-sha256", "secret,encrypt", "secret,hmac-sha256", "secret,HMAC-SHA256",
	"sensitive,ENCRYPT", "Sensitive", "PUBLIC", "bogus", "sensitive,bogus", "secret,", "public,redact", "", "sensitive,redact,extra", ",redact", "secret,Redact"}

type lookalike struct {
	E string `class:"sensitive"`
	H string `class:"sensitive,hmac-sha256"`
	B []byte `class:"sensitive"`
	X string `class:"secret,encrypt"`
}

// namedTM: a Taggable map whose values are byte strings of several types
type namedTM map[string]interface{}
type namedToken []byte

var namedTagOp encrypt.FilterOperation

func (namedTM) Tags() ([]encrypt.PointerTag, error) {
	var ts []encrypt.PointerTag
	for _, k := range []string{"raw", "tok", "plain", "str"} {
		ts = append(ts, encrypt.PointerTag{Pointer: "/" + k, Classification: encrypt.SensitiveClassification, Filter: namedTagOp})
	}
	return ts, nil
}

func encryptMain(args []string) {
	fs := flag.NewFlagSet("encrypt", flag.ExitOnError)
	seed := fs.Uint64("seed", 1, "seed")
	n := fs.Int("n", 3000, "flat cases")
	deep := fs.Int("deep", 2000, "deep-shape cases")
	out := fs.String("out", "", "output dir")
	_ = fs.String("corpus", "", "unused")
	fs.Parse(args)
	st := newStats()
	o := openOut(*out)
	p := newPrng(*seed)
	h := &encHarness{wrappers: map[int]wrapping.Wrapper{}, st: st}
	perProp := map[string]int{}
	oracle := func(f string, a ...any) {
		st.hit("oracle-failure")
		// at most 15 messages per property: one property's messages do not crowd another's out
		if k := f[:3]; perProp[k] < 15 {
			perProp[k]++
			st.Oracle = append(st.Oracle, fmt.Sprintf(f, a...))
		}
	}
	ctx := context.Background()
	// the byte values are chosen so that different (salt, info) pairs have EQUAL concatenations
	// ("ab"+"c" = "a"+"bc", "tenant"+"" = ""+"tenant"): the derived key depends on the pair, not on its bytes run together
	saltVal := map[string]string{"1": "ab", "2": "a", "7": "tenant", "8": "salt8"}
	infoVal := map[string]string{"1": "c", "2": "bc", "7": "tenant", "8": "info8"}
	salts := map[string][]byte{"-": nil}
	infos := map[string][]byte{"-": nil}
	for k, v := range saltVal {
		salts[k] = []byte(v)
	}
	for k, v := range infoVal {
		infos[k] = []byte(v)
	}
	pickOpt := func(choices []string) string { return choices[p.intn(len(choices))] }
	// "N": nil (not supplied); "0": supplied but EMPTY (non-nil, length 0): it counts as supplied, and
	// HKDF treats it like no salt / info at all, so it prints as "-"
	optB := func(s, pre string) []byte {
		if s == "N" {
			return nil
		}
		if s == "0" {
			return []byte{}
		}
		if pre == "salt" {
			return []byte(saltVal[s])
		}
		return []byte(infoVal[s])
	}
	mCounter := 0
	// the slices the caller handed to the filter (at construction, through Rotate) stay the caller's:
	// whatever the filter does later, it does not write into them
	type lent struct{ b, orig []byte }
	var lentOut []lent
	lend := func(b []byte) []byte {
		if b != nil {
			lentOut = append(lentOut, lent{b, append([]byte(nil), b...)})
		}
		return b
	}
	checkLent := func(when string) {
		for _, l := range lentOut {
			if string(l.b) != string(l.orig) {
				oracle("C16 %s rewrote a salt / info slice the caller had handed to the filter earlier (%q became %q): other holders of that slice now HMAC under different key material", when, l.orig, l.b)
				lentOut = nil
				return
			}
		}
	}
	newFilter := func(w, s, i string) {
		lentOut = nil
		h.f = &encrypt.Filter{HmacSalt: lend(optB(s, "salt")), HmacInfo: lend(optB(i, "info"))}
		if w != "N" {
			h.f.Wrapper = h.wrapper(atoi(w))
		}
	}
	for c := 0; c < *n; c++ {
		st.Cases++
		w, s, i := pickOpt([]string{"N", "1", "1", "2"}), pickOpt([]string{"N", "1", "2", "0"}), pickOpt([]string{"N", "1", "0"})
		newFilter(w, s, i)
		// the key material in force, tracked from the calls the harness itself makes (C16 oracle)
		curW, curS, curI := w, s, i
		upd := func(cur *string, v string) {
			if v != "N" {
				*cur = v
			}
		}
		o.emit(fmt.Sprintf("reset %s %s %s", w, s, i), "reset")
		steps := 1 + p.intn(5)
		for k := 0; k < steps; k++ {
			st.Ops++
			switch r := p.intn(10); {
			case r == 0: // Rotate
				rw, rs, ri := pickOpt([]string{"N", "2", "3"}), pickOpt([]string{"N", "2", "0"}), pickOpt([]string{"N", "2", "0"})
				var opts []encrypt.Option
				if rw != "N" {
					opts = append(opts, encrypt.WithWrapper(h.wrapper(atoi(rw))))
				}
				if rs != "N" {
					opts = append(opts, encrypt.WithSalt(lend(optB(rs, "salt"))))
				}
				if ri != "N" {
					opts = append(opts, encrypt.WithInfo(lend(optB(ri, "info"))))
				}
				h.f.Rotate(opts...)
				checkLent("Rotate")
				upd(&curW, rw)
				upd(&curS, rs)
				upd(&curI, ri)
				o.emit(fmt.Sprintf("rotate %s %s %s", rw, rs, ri), "ok")
				st.hit("rotate")
			case r == 1: // rotation payload
				rw, rs, ri := pickOpt([]string{"N", "3", "4"}), pickOpt([]string{"N", "2", "0"}), pickOpt([]string{"N", "2", "0"})
				rp := &rotPayload{salt: optB(rs, "salt"), info: optB(ri, "info")}
				if rw != "N" {
					rp.w = h.wrapper(atoi(rw))
				}
				if p.chance(1, 3) {
					// a filter that filters nothing (every operation overridden to none) consumes a rotation payload
					// all the same -- and takes the new key material
					h.f.FilterOperationOverrides = map[encrypt.DataClassification]encrypt.FilterOperation{
						encrypt.PublicClassification: encrypt.NoOperation, encrypt.SensitiveClassification: encrypt.NoOperation, encrypt.SecretClassification: encrypt.NoOperation}
					st.hit("rotpayload:all-none")
				}
				got, err := h.f.Process(ctx, &eventlogger.Event{Type: "t", Payload: rp})
				if got != nil || err != nil {
					oracle("C09 a key-rotation payload was forwarded or failed: %v %v", got, err)
				}
				checkLent("a rotation payload")
				upd(&curW, rw)
				upd(&curS, rs)
				upd(&curI, ri)
				o.emit(fmt.Sprintf("rotpayload %s %s %s", rw, rs, ri), "consumed")
				st.hit("rotpayload")
			default:
				// overrides
				var ovToks []string
				ov := map[encrypt.DataClassification]encrypt.FilterOperation{}
				if p.chance(1, 2) {
					for _, cls := range []string{"public", "sensitive", "secret", "bogus"} {
						if p.chance(1, 3) {
							opn := pickOpt([]string{"none", "redact", "encrypt", "hmac", "other"})
							ov[encrypt.DataClassification(cls)] = map[string]encrypt.FilterOperation{"none": encrypt.NoOperation, "redact": encrypt.RedactOperation, "encrypt": encrypt.EncryptOperation, "hmac": encrypt.HmacSha256Operation, "other": "bogus-op"}[opn]
							ovToks = append(ovToks, hx([]byte(cls))+"="+opn)
						}
					}
				}
				h.f.FilterOperationOverrides = ov
				if len(ov) == 0 {
					h.f.FilterOperationOverrides = nil
				}
				sort.Strings(ovToks)
				ovTok := "-"
				if len(ovToks) > 0 {
					ovTok = strings.Join(ovToks, ",")
				}
				var payload interface{}
				var fieldToks []string
				type leafRef struct {
					get   func(out reflect.Value) (string, bool)
					plain string
					m     int
				}
				var leaves []leafRef
				var extraLeaves []leafRef // checked by the C16 oracle only
				ewiTok := "N"
				var ewi *ewiPayload
				if p.chance(1, 4) {
					// EventWrapperInfo payload of a fixed type
					id, es, ei := pickOpt([]string{"", "1", "2"}), pickOpt([]string{"N", "7", "0"}), pickOpt([]string{"N", "8", "0"})
					ewi = &ewiPayload{salt: optB(es, "salt"), info: optB(ei, "info"), sName: es, iName: ei}
					idn := 0
					if id != "" {
						ewi.id = "ev" + id
						idn = atoi(id)
					}
					ewiTok = fmt.Sprintf("%d:%s:%s", idn, es, ei)
					pl := &ewiFlat{Info: ewi}
					vals := []*string{&pl.S0, &pl.S1, nil, &pl.S3, &pl.S4, nil}
					tags := []string{"sensitive", "sensitive,hmac-sha256", "secret,hmac-sha256", "secret", "public", "sensitive"}
					fieldToks = append(fieldToks, "E:o:0:N") // the Info pointer field: no string leaf the filter touches (unexported fields inside)
					for fi := 0; fi < 6; fi++ {
						mCounter++
						plain := plainM(mCounter)
						m := mCounter
						if vals[fi] != nil {
							*vals[fi] = plain
							fieldToks = append(fieldToks, fmt.Sprintf("E:s:%d:%s", m, hx([]byte(tags[fi]))))
						} else {
							if fi == 2 {
								pl.B2 = []byte(plain)
							} else {
								pl.B5 = []byte(plain)
							}
							fieldToks = append(fieldToks, fmt.Sprintf("E:b:%d:%s", m, hx([]byte(tags[fi]))))
						}
						idx := fi + 1
						leaves = append(leaves, leafRef{plain: plain, m: m, get: func(out reflect.Value) (string, bool) {
							f := out.Elem().Field(idx)
							if f.Kind() == reflect.String {
								return f.String(), true
							}
							return string(f.Bytes()), true
						}})
					}
					// the Info field sits first; the model gets it as an `other` leaf
					leaves = append([]leafRef{{get: nil}}, leaves...)
					// Details: structs below a map, a map of maps, a map of maps of maps (oracle only: the model
					// sees an `other` leaf)
					if p.chance(1, 2) {
						mk := func() (*ewiInner, []leafRef) { return nil, nil }
						_ = mk
						var paths [][]string
						inner := func(path ...string) *ewiInner {
							mCounter += 2
							paths = append(paths, path)
							in := &ewiInner{V: plainM(mCounter - 1), H: plainM(mCounter)}
							for fi, pl := range []struct {
								plain string
								m     int
							}{{in.V, mCounter - 1}, {in.H, mCounter}} {
								fi, path := fi, path
								extraLeaves = append(extraLeaves, leafRef{plain: pl.plain, m: pl.m, get: func(out reflect.Value) (string, bool) {
									var cur interface{} = out.Elem().FieldByName("Details").Interface()
									for _, seg := range path {
										mm, ok := cur.(map[string]interface{})
										if !ok {
											return "", false
										}
										cur = mm[seg]
									}
									in, ok := cur.(*ewiInner)
									if !ok || in == nil {
										return "", false
									}
									if fi == 0 {
										return in.V, true
									}
									return in.H, true
								}})
							}
							return in
						}
						pl.Details = map[string]interface{}{
							"owner": inner("owner"),
							"inner": map[string]interface{}{
								"approver": inner("inner", "approver"),
								"deeper":   map[string]interface{}{"auditor": inner("inner", "deeper", "auditor")},
							},
						}
						st.hit("flat:ewi-with-nested-maps")
					}
					fieldToks = append(fieldToks, "E:o:0:N")
					leaves = append(leaves, leafRef{get: nil})
					payload = pl
				} else {
					nf := 1 + p.intn(6)
					var sf []reflect.StructField
					type fv struct {
						kind   string
						plain  string
						m      int
						nilB   bool
						plains []string // slice kinds: "" = nil element
						ms     []int
					}
					var fvs []fv
					for fi := 0; fi < nf; fi++ {
						tag := tagPool[p.intn(len(tagPool))]
						noTag := p.chance(1, 8)
						st := reflect.StructTag("")
						tagTok := "N"
						if !noTag {
							st = reflect.StructTag(fmt.Sprintf(`class:"%s"`, tag))
							tagTok = hx([]byte(tag))
						}
						mCounter++
						plain := plainM(mCounter)
						switch k := p.intn(11); {
						case k >= 8: // []string / [][]byte fields, possibly with nil elements and a nil tail
							isB := k >= 9
							ne := p.intn(4)
							var v fv
							v.kind = "S"
							if isB {
								v.kind = "B"
							}
							var mt []string
							for e := 0; e < ne; e++ {
								if isB && p.chance(1, 3) {
									v.plains = append(v.plains, "")
									v.ms = append(v.ms, 0)
									mt = append(mt, "N")
									continue
								}
								mCounter++
								pl := plainM(mCounter)
								if pl == "" {
									pl = fmt.Sprintf("m%d", mCounter) // "" stands for a nil element in this harness
								}
								v.plains = append(v.plains, pl)
								v.ms = append(v.ms, mCounter)
								mt = append(mt, fmt.Sprint(mCounter))
							}
							if isB {
								sf = append(sf, reflect.StructField{Name: fmt.Sprintf("F%d", fi), Type: reflect.TypeOf([][]byte(nil)), Tag: st})
							} else {
								sf = append(sf, reflect.StructField{Name: fmt.Sprintf("F%d", fi), Type: reflect.TypeOf([]string(nil)), Tag: st})
							}
							fvs = append(fvs, v)
							mtok := "-"
							if len(mt) > 0 {
								mtok = strings.Join(mt, ".")
							}
							fieldToks = append(fieldToks, fmt.Sprintf("E:%s:%s:%s", v.kind, mtok, tagTok))
						case k < 4:
							sf = append(sf, reflect.StructField{Name: fmt.Sprintf("F%d", fi), Type: reflect.TypeOf(""), Tag: st})
							fvs = append(fvs, fv{kind: "s", plain: plain, m: mCounter})
							fieldToks = append(fieldToks, fmt.Sprintf("E:s:%d:%s", mCounter, tagTok))
						case k < 6:
							nilB := p.chance(1, 4)
							sf = append(sf, reflect.StructField{Name: fmt.Sprintf("F%d", fi), Type: reflect.TypeOf([]byte(nil)), Tag: st})
							fvs = append(fvs, fv{kind: "b", plain: plain, m: mCounter, nilB: nilB})
							if nilB {
								fieldToks = append(fieldToks, fmt.Sprintf("E:b:N:%s", tagTok))
							} else {
								fieldToks = append(fieldToks, fmt.Sprintf("E:b:%d:%s", mCounter, tagTok))
							}
						default:
							sf = append(sf, reflect.StructField{Name: fmt.Sprintf("F%d", fi), Type: reflect.TypeOf(0), Tag: st})
							fvs = append(fvs, fv{kind: "o"})
							fieldToks = append(fieldToks, fmt.Sprintf("E:o:0:%s", tagTok))
						}
					}
					// a non-zero marker so that the payload is never the zero value
					sf = append(sf, reflect.StructField{Name: "Marker", Type: reflect.TypeOf(0)})
					fieldToks = append(fieldToks, "E:o:0:N")
					typ := reflect.StructOf(sf)
					pv := reflect.New(typ)
					for fi, v := range fvs {
						switch v.kind {
						case "s":
							pv.Elem().Field(fi).SetString(v.plain)
						case "b":
							if !v.nilB {
								pv.Elem().Field(fi).SetBytes([]byte(v.plain))
							}
						case "o":
							pv.Elem().Field(fi).SetInt(int64(fi))
						case "S":
							pv.Elem().Field(fi).Set(reflect.ValueOf(append([]string{}, v.plains...)))
						case "B":
							bs := make([][]byte, len(v.plains))
							for bi, pl := range v.plains {
								if pl != "" {
									bs[bi] = []byte(pl)
								}
							}
							pv.Elem().Field(fi).Set(reflect.ValueOf(bs))
						}
						fi := fi
						v := v
						if v.kind == "S" || v.kind == "B" {
							leaves = append(leaves, leafRef{plain: "\x00slice", m: 0, get: func(out reflect.Value) (string, bool) {
								f := out.Elem().Field(fi)
								var parts []string
								for ei := 0; ei < f.Len(); ei++ {
									if v.plains[ei] == "" {
										if f.Index(ei).Len() == 0 {
											parts = append(parts, "nil")
										} else {
											parts = append(parts, "X")
										}
										continue
									}
									var val string
									if v.kind == "S" {
										val = f.Index(ei).String()
									} else {
										val = string(f.Index(ei).Bytes())
									}
									parts = append(parts, h.canonLeaf(val, v.plains[ei], v.ms[ei], ewi, salts, infos))
								}
								if f.Len() != len(v.plains) {
									return "LEN", true
								}
								return "[" + strings.Join(parts, ";") + "]", true
							}})
							continue
						}
						leaves = append(leaves, leafRef{plain: v.plain, m: v.m, get: func(out reflect.Value) (string, bool) {
							f := out.Elem().Field(fi)
							switch v.kind {
							case "s":
								return f.String(), true
							case "b":
								if f.IsNil() {
									return "", false
								}
								return string(f.Bytes()), true
							}
							return "", false
						}})
					}
					pv.Elem().Field(len(fvs)).SetInt(1)
					leaves = append(leaves, leafRef{get: nil})
					payload = pv.Interface()
				}
				before, _ := json.Marshal(payload)
				e := &eventlogger.Event{Type: "t", Payload: payload, Formatted: map[string][]byte{}}
				got, err := func() (g *eventlogger.Event, er error) {
					defer func() {
						if r := recover(); r != nil {
							er = fmt.Errorf("PANIC: %v", r)
						}
					}()
					return h.f.Process(ctx, e)
				}()
				after, _ := json.Marshal(payload)
				if string(before) != string(after) {
					oracle("C10 Process modified the payload it was given")
				}
				res := ""
				switch {
				case err != nil:
					res = "error"
					if strings.HasPrefix(err.Error(), "PANIC") {
						oracle("C09 Process panicked: %v", err)
					}
					if got != nil {
						oracle("C09 Process returned an error together with an event")
					}
					pubOp, pubSet := ov[encrypt.PublicClassification]
					senOp, senSet := ov[encrypt.SensitiveClassification]
					secOp, secSet := ov[encrypt.SecretClassification]
					if senSet && senOp == encrypt.NoOperation && secSet && secOp == encrypt.NoOperation &&
						(!pubSet || pubOp == encrypt.NoOperation) && !strings.HasPrefix(err.Error(), "PANIC") {
						oracle("C10 with every operation overridden to none (nothing is filtered) the event is forwarded unchanged whatever it carries; Process returned an error instead: %v", err)
					}
				case got == e:
					res = "same"
				default:
					ov := reflect.ValueOf(got.Payload)
					var ls []string
					// C16: every protected value is under the key, salt and info in force for this event
					checkKey := func(cl string, m int) {
						if !(strings.HasPrefix(cl, "E") || strings.HasPrefix(cl, "M")) {
							return
						}
						wantID := "-"
						wantS, wantI := curS, curI
						if ewi != nil {
							wantID = strings.TrimPrefix(ewi.id, "ev")
							if ewi.salt != nil {
								wantS = ewi.sName
							}
							if ewi.info != nil {
								wantI = ewi.iName
							}
						}
						dash := func(x string) string {
							if x == "N" || x == "0" || x == "" {
								return "-"
							}
							return x
						}
						want := ""
						if strings.HasPrefix(cl, "E") {
							want = fmt.Sprintf("E%s/%s:%d", curW, wantID, m)
						} else {
							want = fmt.Sprintf("M%s/%s:%s:%s:%d", curW, wantID, dash(wantS), dash(wantI), m)
						}
						if cl != want {
							oracle("C16 a value was protected as %s but the key material in force is %s (wrapper %s, salt %s, info %s after the rotations so far)", cl, want, curW, curS, curI)
						}
					}
					for _, l := range leaves {
						if l.get == nil {
							ls = append(ls, "o")
							continue
						}
						v, ok := l.get(ov)
						if !ok {
							if l.m == 0 { // not a string / []byte field
								ls = append(ls, "o")
							} else {
								ls = append(ls, "nil")
							}
							continue
						}
						if l.plain == "\x00slice" {
							ls = append(ls, v)
							continue
						}
						cl := h.canonLeaf(v, l.plain, l.m, ewi, salts, infos)
						ls = append(ls, cl)
						checkKey(cl, l.m)

					}
					for _, l := range extraLeaves {
						if v, ok := l.get(ov); ok {
							cl := h.canonLeaf(v, l.plain, l.m, ewi, salts, infos)
							if strings.HasPrefix(cl, "p") && ovTok == "-" {
								oracle("C09 a sensitive value below nested maps came out in plaintext")
							}
							checkKey(cl, l.m)
						} else {
							oracle("C10 a value below nested maps is gone from the forwarded payload")
						}
					}
					res = "filtered " + strings.Join(ls, ",")
					if reflect.TypeOf(got.Payload) != reflect.TypeOf(payload) {
						oracle("C10 the forwarded payload has a different dynamic type")
					}
				}
				st.hit("flat:" + strings.Fields(res)[0])
				o.emit(strings.TrimSpace(fmt.Sprintf("flat %s %s %s", ewiTok, ovTok, strings.Join(fieldToks, " "))), res)
				if res != "error" && res != "same" {
					st.Distinct++
					if len(st.Samples) < 3 {
						st.Samples = append(st.Samples, fmt.Sprintf("flat %s %s %s => %s", ewiTok, ovTok, strings.Join(fieldToks, " "), res))
					}
				}
			}
		}
	}
	deepShapes(p, *deep, st, oracle)
	// values that look like the filter's own output ("encrypted:<base64>", "hmac-sha256:<base64 of 32 bytes>"):
	// byte strings like any other -- what comes out decrypts to them / is their HMAC
	for r := 0; r < 8; r++ {
		f := &encrypt.Filter{Wrapper: testWrapper(1), HmacSalt: []byte("s"), HmacInfo: []byte("i")}
		looksE := "encrypted:" + base64.RawURLEncoding.EncodeToString([]byte(fmt.Sprintf("blob-%d-%d", r, p.intn(1000))))
		looksH := "hmac-sha256:" + base64.RawURLEncoding.EncodeToString([]byte(fmt.Sprintf("%032d", r)))
		in := &lookalike{E: looksE, H: looksH, B: []byte(looksE), X: looksH}
		got, err := f.Process(ctx, &eventlogger.Event{Type: "t", Payload: in, Formatted: map[string][]byte{}})
		st.Cases++
		st.Ops++
		st.hit("lookalike-values")
		if err != nil || got == nil {
			oracle("C16 Process failed on values that look like its own output: %v", err)
			continue
		}
		out := got.Payload.(*lookalike)
		dec := func(v string) (string, bool) {
			blob := new(wrapping.BlobInfo)
			raw, derr := base64.RawURLEncoding.DecodeString(strings.TrimPrefix(v, "encrypted:"))
			if derr != nil || proto.Unmarshal(raw, blob) != nil {
				return "", false
			}
			pt, derr := testWrapper(1).Decrypt(ctx, blob, nil)
			return string(pt), derr == nil
		}
		for name, pair := range map[string][2]string{"E": {out.E, looksE}, "B": {string(out.B), looksE}, "X": {out.X, looksH}} {
			if pt, ok := dec(pair[0]); !ok || pt != pair[1] {
				oracle("C16 field %s held a value that looks like the filter's output (%.24q...); what came out does not decrypt to those bytes (decrypted=%v)", name, pair[1], ok)
			}
		}
		if want := indepHmac(keyBytes(1), []byte("s"), []byte("i"), []byte(looksH)); out.H != want {
			oracle("C16 field H held a value that looks like an HMAC digest; what came out is not HMAC-SHA256 of those bytes")
		}
	}
	// byte strings of a named type under pointer tags (json.RawMessage, a token type of the caller's): what is
	// encrypted / HMAC-ed is the value's bytes, as for a plain []byte
	for r := 0; r < 12; r++ {
		raw := []byte(fmt.Sprintf("{\"ssn\":\"%d-%d\"}", p.intn(1000), r))
		namedTagOp = []encrypt.FilterOperation{encrypt.EncryptOperation, encrypt.HmacSha256Operation}[r%2]
		f := &encrypt.Filter{Wrapper: testWrapper(1), HmacSalt: []byte("s"), HmacInfo: []byte("i")}
		in := namedTM{"raw": json.RawMessage(append([]byte(nil), raw...)), "tok": namedToken(append([]byte(nil), raw...)), "plain": append([]byte(nil), raw...), "str": string(raw)}
		got, err := f.Process(ctx, &eventlogger.Event{Type: "t", Payload: in, Formatted: map[string][]byte{}})
		st.Cases++
		st.Ops++
		if err != nil || got == nil {
			oracle("C16 a Taggable map holding byte strings of named types under pointer tags: Process failed: %v", err)
			continue
		}
		out, _ := got.Payload.(namedTM)
		for _, k := range []string{"raw", "tok", "plain", "str"} {
			v := fmt.Sprint(out[k])
			if bs, ok := out[k].([]byte); ok {
				v = string(bs)
			}
			switch {
			case strings.HasPrefix(v, "hmac-sha256:"):
				if want := indepHmac(keyBytes(1), []byte("s"), []byte("i"), raw); v != want {
					oracle("C16 the value under /%s (%T) was HMAC-ed, but the digest is not HMAC-SHA256 of the value's bytes", k, in[k])
				}
			case strings.HasPrefix(v, "encrypted:"):
				blob := new(wrapping.BlobInfo)
				rawCt, derr := base64.RawURLEncoding.DecodeString(strings.TrimPrefix(v, "encrypted:"))
				if derr != nil || proto.Unmarshal(rawCt, blob) != nil {
					oracle("C16 the value under /%s (%T) does not decode as a ciphertext", k, in[k])
					continue
				}
				pt, derr := testWrapper(1).Decrypt(ctx, blob, nil)
				if derr != nil || string(pt) != string(raw) {
					oracle("C16 the value under /%s (%T) was encrypted, but it decrypts to %.40q, the original bytes are %.40q", k, in[k], pt, raw)
				}
			default:
				oracle("C09 the value under /%s (%T), tagged sensitive, came out as %.40q", k, in[k], v)
			}
		}
		st.hit("named-byte-strings")
	}
	o.close()
	st.write(*out)
	if len(st.Oracle) > 0 {
		fmt.Printf("ORACLE-FAILURES %d\n", len(st.Oracle))
		for i, m := range st.Oracle {
			if i < 6 {
				fmt.Println(m)
			}
		}
	}
	fmt.Printf("cases=%d ops=%d distinct=%d\n", st.Cases, st.Ops, st.Distinct)
}
