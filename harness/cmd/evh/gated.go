package main

// Correspondence harness for M6 Gated (filters/gated): drives the real gated.Filter with a
// recording Gateable payload, a recording Sender and an injected clock; prints one canonical line
// per operation and evaluates the Go-side oracles of C11 and C17 from its own bookkeeping.

import (
	"context"
	"errors"
	"flag"
	"fmt"
	"strings"
	"time"

	"github.com/hashicorp/eventlogger"
	"github.com/hashicorp/eventlogger/filters/gated"
)

var gh *gatedHarness // ComposeFrom is called on an arbitrary payload: it needs the harness

type gpay struct {
	uid   int
	id    int
	flush bool
}

// the ids are distinct strings that differ in surrounding white space and in case only: an id is
// compared exactly, and anything but the empty string is an id
func gidS(i int) string {
	switch i {
	case 0:
		return ""
	case 1:
		return "req"
	case 2:
		return "req\n"
	case 3:
		return " "
	case 4:
		return " req"
	case 5:
		return "REQ"
	}
	return fmt.Sprintf("g%d", i)
}
func (p *gpay) GetID() string    { return gidS(p.id) }
func (p *gpay) FlushEvent() bool { return p.flush }
func (p *gpay) ComposeFrom(events []*eventlogger.Event) (eventlogger.EventType, interface{}, error) {
	return gh.compose(events)
}

type composite struct {
	id   int
	uids []int
}
type gcomposite struct{ composite }

func (g *gcomposite) GetID() string    { return "x" }
func (g *gcomposite) FlushEvent() bool { return false }
func (g *gcomposite) ComposeFrom([]*eventlogger.Event) (eventlogger.EventType, interface{}, error) {
	return "", nil, nil
}

type gemit struct {
	id   int
	uids []int
	fate string
}

type gatedHarness struct {
	f          *gated.Filter
	now        int64
	broker     bool
	expiration int
	cf, cg, sf int
	emits      []*gemit
	st         *stats
	caseOps    []string
	diverged   bool
	divOp      int // h.st.Ops when diverged was set
	stampCtr   int
	// oracle bookkeeping (spec state)
	pending  map[int][]int // accepted, not yet composed, per id (arrival order)
	openedAt map[int]int64 // when the id's current group was opened
	order    []int         // ids of open groups in opening order
	composed map[int]int   // uid -> number of times handed to composition
}

var errInject = errors.New("injected failure")

func (h *gatedHarness) oracle(f string, a ...any) {
	if h.diverged {
		return
	}
	h.diverged = true
	h.divOp = h.st.Ops
	h.st.hit("oracle-failure")
	if len(h.st.Oracle) < 40 {
		h.st.Oracle = append(h.st.Oracle, fmt.Sprintf(f, a...)+" || case: "+strings.Join(h.caseOps, " ; "))
	}
}

// oracleSameOp: like oracle, but a clause broken by the very operation that has just been reported
// under another clause (the bookkeeping is still sound up to this operation) is recorded as well
func (h *gatedHarness) oracleSameOp(f string, a ...any) {
	if h.diverged && h.divOp == h.st.Ops {
		h.oracleAlso(f, a...)
		return
	}
	h.oracle(f, a...)
}

// oracleAlso records a second clause broken by the operation that has just been reported
func (h *gatedHarness) oracleAlso(f string, a ...any) {
	if len(h.st.Oracle) < 40 {
		h.st.Oracle = append(h.st.Oracle, fmt.Sprintf(f, a...)+" || case: "+strings.Join(h.caseOps, " ; "))
	}
}

func (h *gatedHarness) compose(events []*eventlogger.Event) (eventlogger.EventType, interface{}, error) {
	e := &gemit{fate: "composed"}
	for _, ev := range events {
		p := ev.Payload.(*gpay)
		e.id = p.id
		e.uids = append(e.uids, p.uid)
	}
	h.emits = append(h.emits, e)
	if h.cf != 0 && e.id == h.cf {
		e.fate = "composeerr"
		return "", nil, fmt.Errorf("inject-compose: %w", errInject)
	}
	c := composite{id: e.id, uids: e.uids}
	if h.cg != 0 && e.id == h.cg {
		e.fate = "gateableerr"
		return composedType(e.id), &gcomposite{c}, nil
	}
	return composedType(e.id), &c, nil
}

// the type composition chooses for the composite: not the type of the events it was made from
func composedType(id int) eventlogger.EventType {
	return eventlogger.EventType(fmt.Sprintf("composed-%d", id))
}

func (h *gatedHarness) Send(ctx context.Context, t eventlogger.EventType, payload interface{}) (eventlogger.Status, error) {
	c, ok := payload.(*composite)
	if !ok {
		h.oracle("C11 a Gateable composite was sent through the Broker: %T", payload)
		return eventlogger.Status{}, nil
	}
	if t != composedType(c.id) {
		h.oracle("C11 the composite of id %d was sent through the Broker as type %q, composition returned %q", c.id, t, composedType(c.id))
	}
	var e *gemit
	for _, x := range h.emits {
		if x.id == c.id && x.fate == "composed" {
			e = x
		}
	}
	if e == nil {
		h.oracle("C11 Send of a composite that was never composed: %v", c)
		return eventlogger.Status{}, nil
	}
	if h.sf != 0 && c.id == h.sf {
		e.fate = "senderr"
		return eventlogger.Status{}, fmt.Errorf("inject-send: %w", errInject)
	}
	e.fate = "sent"
	return eventlogger.Status{}, nil
}

func (h *gatedHarness) reset(broker bool, expiration int) {
	h.f = &gated.Filter{Expiration: time.Duration(expiration) * time.Millisecond}
	h.f.NowFunc = func() time.Time { return time.Unix(1000, 0).Add(time.Duration(h.now) * time.Millisecond) }
	if broker {
		h.f.Broker = h
	}
	h.broker, h.expiration = broker, expiration
	h.pending = map[int][]int{}
	h.openedAt = map[int]int64{}
	h.order = nil
	h.composed = map[int]int{}
	h.caseOps = nil
	h.diverged = false
}

func gclassify(err error) string {
	s := err.Error()
	switch {
	case strings.Contains(s, "missing ID"):
		return "E_NO_ID"
	case strings.Contains(s, "inject-compose"):
		return "E_COMPOSE"
	case strings.Contains(s, "inject-send"):
		return "E_SEND"
	case strings.Contains(s, "returned a Gateable payload"):
		return "E_GATEABLE"
	}
	return "E_OTHER(" + s + ")"
}

func (h *gatedHarness) showEmits() string {
	var ss []string
	for _, e := range h.emits {
		fate := e.fate
		if fate == "composed" {
			if h.broker {
				fate = "unknown"
			} else {
				fate = "nobroker"
			}
		}
		ss = append(ss, fmt.Sprintf("%d:%s:%s", e.id, showInts(e.uids), fate))
	}
	return "emits=[" + strings.Join(ss, ",") + "]"
}

func eqInts(a, b []int) bool {
	if len(a) != len(b) {
		return false
	}
	for i := range a {
		if a[i] != b[i] {
			return false
		}
	}
	return true
}

// removeGroup drops id from the oracle's open-group bookkeeping
func (h *gatedHarness) removeGroup(id int) {
	delete(h.pending, id)
	delete(h.openedAt, id)
	for i, x := range h.order {
		if x == id {
			h.order = append(h.order[:i:i], h.order[i+1:]...)
			break
		}
	}
}

// checkEmits: every composition of this call received exactly the pending events of one id, in
// arrival order (plus the in-flight flush event), each event at most once; then forget the group.
func (h *gatedHarness) checkEmits(inflight *gpay) {
	for _, e := range h.emits {
		want := append([]int(nil), h.pending[e.id]...)
		if inflight != nil && inflight.id == e.id && e.fate == "flushed" || (inflight != nil && inflight.id == e.id && e.fate == "flushcomposeerr") {
			want = append(want, inflight.uid)
		}
		if !eqInts(want, e.uids) {
			h.oracleSameOp("C11 composition for id %d received %v, but the events accepted for that id since its group opened are %v", e.id, e.uids, want)
		}
		for _, u := range e.uids {
			h.composed[u]++
			if h.composed[u] > 1 {
				h.oracleSameOp("C11 event %d handed to composition %d times", u, h.composed[u])
			}
		}
		if e.fate == "composed" && h.broker {
			// composed, with a Broker configured, and then neither sent nor refused: the group's events are gone
			// although nothing failed for THEM (an error for another group of the same sweep is no licence)
			h.oracle("C11 the group of id %d (events %v) was composed and taken out of the gate, but its composite was never handed to the Broker and no error concerns it: accepted events discarded", e.id, e.uids)
		}
		h.removeGroup(e.id)
	}
}

func (h *gatedHarness) exec(line string) string {
	f := strings.Fields(line)
	h.caseOps = append(h.caseOps, line)
	h.st.Ops++
	h.emits = nil
	ctx := context.Background()
	if len(h.caseOps)%3 == 0 {
		// every third call gets a context that is already done: the filter's bookkeeping (what is gated, what
		// expires, what FlushAll / Close empty) does not depend on it (the Sender here ignores the context)
		c2, cancel := context.WithCancel(ctx)
		cancel()
		ctx = c2
	}
	switch f[0] {
	case "reset":
		h.reset(f[1] == "1", atoi(f[2]))
		h.caseOps = []string{line}
		return "reset"
	case "ng":
		e := &eventlogger.Event{Type: "t", Payload: fmt.Sprintf("plain-%s", f[1])}
		out, err := h.f.Process(ctx, e)
		if err != nil || out != e {
			h.oracle("C11 non-Gateable event did not pass through unchanged: %v %v", out, err)
			return "err"
		}
		h.st.hit("ng:pass")
		return "pass " + h.showEmits()
	case "ev":
		p := &gpay{uid: atoi(f[1]), id: atoi(f[2]), flush: f[3] == "1"}
		h.now = int64(atoi(f[4]))
		h.cf, h.cg, h.sf = atoi(f[5]), atoi(f[6]), atoi(f[7])
		// creation stamps that do NOT rise with arrival order (replayed or forwarded events, senders that were
		// stamped before they got the filter's lock): what counts is the order of arrival
		h.stampCtr++
		e := &eventlogger.Event{Type: "t", Payload: p, CreatedAt: time.Unix(1700000000, 0).Add(-time.Duration(h.stampCtr*7919%1000) * time.Second)}
		out, err := h.f.Process(ctx, e)
		ret := ""
		switch {
		case err != nil:
			ret = "err " + gclassify(err)
			if p.id == 0 {
				if len(h.emits) != 0 {
					h.oracle("C11 event without id had side effects")
				}
			}
		case out == nil:
			ret = "gated"
		default:
			c, ok := out.Payload.(*composite)
			if gc, isG := out.Payload.(*gcomposite); isG {
				// the flush path does not refuse a Gateable composite (only Broker-emitted ones must not be)
				c, ok = &gc.composite, true
				for _, e := range h.emits {
					if e.fate == "gateableerr" && e.id == p.id {
						e.fate = "composed"
					}
				}
			}
			if !ok {
				h.oracle("C11 Process returned an unexpected event %v", out.Payload)
				return "err"
			}
			ret = "flushed " + showInts(c.uids)
			if out.Type != composedType(c.id) {
				h.oracle("C11 the composite that continues down the pipeline has type %q, composition returned %q", out.Type, composedType(c.id))
			}
			if !p.flush {
				h.oracle("C11 a composite was returned although the event is no flush event")
			}
		}
		// attribute the flush-path composition (the last emit, if it carries the in-flight event)
		if p.flush && len(h.emits) > 0 {
			last := h.emits[len(h.emits)-1]
			if last.id == p.id && len(last.uids) > 0 && last.uids[len(last.uids)-1] == p.uid {
				if last.fate == "composeerr" {
					last.fate = "flushcomposeerr"
				} else {
					last.fate = "flushed"
				}
			}
		}
		h.st.hit("ev:" + strings.Fields(ret)[0] + map[bool]string{true: ":flush", false: ""}[p.flush])
		// ---- oracles
		if p.id == 0 {
			if err == nil {
				h.oracle("C11 event without an ID was accepted")
			}
			return ret + " " + h.showEmits()
		}
		// C17: expired groups, oldest first
		var expired []int
		for _, id := range h.order {
			if h.now > h.openedAt[id]+int64(h.expiration) {
				expired = append(expired, id)
			}
		}
		if len(expired) >= 2 {
			h.st.hit("ev:expired>=2")
		} else if len(expired) == 1 {
			h.st.hit("ev:expired=1")
		}
		if err == nil {
			// every expired group must have been composed (broker or not: openGate composes first), in order
			var got []int
			for _, e := range h.emits {
				if e.fate != "flushed" && e.fate != "flushcomposeerr" {
					got = append(got, e.id)
				}
			}
			if !eqInts(got, expired) {
				h.oracle("C17 Process at %d succeeded; expired groups (oldest first) %v but emitted %v", h.now, expired, got)
			}
			for _, e := range h.emits {
				if e.fate != "flushed" && h.broker && e.fate != "sent" {
					h.oracle("C17 expired group %d not sent although Process succeeded (fate %s)", e.id, e.fate)
				}
			}
		}
		h.checkEmits(p)
		if err == nil {
			// the event is accepted
			if out == nil {
				if _, ok := h.pending[p.id]; !ok {
					h.openedAt[p.id] = h.now
					h.order = append(h.order, p.id)
				}
				h.pending[p.id] = append(h.pending[p.id], p.uid)
			} else {
				if h.composed[p.uid] != 1 {
					h.oracle("C11 flush event %d accepted but composed %d times", p.uid, h.composed[p.uid])
				}
			}
		} else if p.flush && len(h.emits) > 0 && h.emits[len(h.emits)-1].fate == "flushcomposeerr" {
			// accepted then discarded: composition reported an error (allowed)
		}
		return ret + " " + h.showEmits()
	case "flushall", "close":
		h.cf, h.cg, h.sf = atoi(f[1]), atoi(f[2]), atoi(f[3])
		var err error
		if f[0] == "close" {
			err = h.f.Close(ctx)
		} else {
			err = h.f.FlushAll(ctx)
		}
		ret := "ok"
		if err != nil {
			ret = "err " + gclassify(err)
		}
		h.st.hit(f[0] + ":" + strings.Fields(ret)[len(strings.Fields(ret))-1])
		if len(h.order) >= 2 {
			h.st.hit(f[0] + ":groups>=2")
		}
		open := append([]int(nil), h.order...)
		h.checkEmits(nil)
		if err == nil {
			// C17: nothing remains gated; with a Broker every group was emitted exactly once, in order
			if h.broker {
				var got []int
				for _, e := range h.emits {
					got = append(got, e.id)
					if e.fate != "sent" {
						h.oracle("C17 %s succeeded but group %d has fate %s", f[0], e.id, e.fate)
					}
				}
				if !eqInts(got, open) {
					h.oracle("C17 %s succeeded; open groups %v but emitted %v", f[0], open, got)
					if len(got) < len(open) {
						h.oracleAlso("C11 %s returned successfully with a Broker configured, but of the open groups %v only %v were handed to composition and sent: accepted events were neither composed nor reported as discarded", f[0], open, got)
					}
				}
			} else {
				if len(h.emits) != 0 {
					h.oracle("C11 %s without Broker composed %d groups", f[0], len(h.emits))
				}
				for _, id := range open {
					h.removeGroup(id)
				}
			}
			if len(h.pending) != 0 {
				h.oracle("C17 %s succeeded but groups %v are still pending", f[0], h.order)
			}
		}
		return ret + " " + h.showEmits()
	}
	return "bad-op"
}

func genGatedCase(p *prng, maxLen int) []string {
	broker := p.intn(4) != 0
	exp := 5 + p.intn(20)
	ops := []string{fmt.Sprintf("reset %s %d", map[bool]string{true: "1", false: "0"}[broker], exp)}
	now := 0
	uid := 1
	n := 2 + p.intn(maxLen)
	fail := func() string {
		cf, cg, sf := 0, 0, 0
		if p.chance(1, 8) {
			switch p.intn(3) {
			case 0:
				cf = 1 + p.intn(3)
			case 1:
				cg = 1 + p.intn(3)
			default:
				sf = 1 + p.intn(3)
			}
		}
		return fmt.Sprintf("%d %d %d", cf, cg, sf)
	}
	for i := 0; i < n; i++ {
		switch k := p.intn(100); {
		case k < 62:
			id := 1 + p.intn(3)
			if maxLen > 20 && p.chance(1, 3) {
				id = 1 + p.intn(5) // up to five groups open at once (C17)
			}
			if p.chance(1, 25) {
				id = 0
			}
			if p.chance(1, 3) {
				now += p.intn(exp)
			} else if p.chance(1, 6) {
				now += exp + p.intn(2*exp) // make several groups expire at once
			} else if maxLen > 20 && p.chance(1, 10) {
				// the clock steps back (NowFunc is the caller's): a group opened now expires before older ones
				now -= p.intn(2 * exp)
				if now < 0 {
					now = 0
				}
			}
			fl := 0
			if p.chance(1, 5) {
				fl = 1
			}
			ops = append(ops, fmt.Sprintf("ev %d %d %d %d %s", uid, id, fl, now, fail()))
			uid++
		case k < 70:
			ops = append(ops, fmt.Sprintf("ng %d", uid))
			uid++
		case k < 90:
			ops = append(ops, "flushall "+fail())
		default:
			ops = append(ops, "close "+fail())
		}
	}
	// probes: a flush event per id reveals what is still gated
	for id := 1; id <= 3; id++ {
		ops = append(ops, fmt.Sprintf("ev %d %d 1 %d 0 0 0", uid, id, now))
		uid++
	}
	return ops
}

func gatedAlphabet() []string {
	// uid/now placeholders are filled in by position
	return []string{"ev 1 0 +0", "ev 1 1 +0", "ev 2 0 +0", "ev 2 0 +9", "ev 3 0 +30", "ev 3 1 +0", "ng", "flushall", "close"}
}

func gatedMain(args []string) {
	fs := flag.NewFlagSet("gated", flag.ExitOnError)
	seed := fs.Uint64("seed", 1, "seed")
	n := fs.Int("n", 3000, "random cases")
	depth := fs.Int("depth", 0, "exhaustive depth over the reduced alphabet")
	out := fs.String("out", "", "output dir")
	opsFile := fs.String("ops", "", "ops file to replay")
	corpus := fs.String("corpus", "", "corpus dir")
	fs.Parse(args)
	st := newStats()
	h := &gatedHarness{st: st}
	gh = h
	h.reset(false, 10)
	o := openOut(*out)
	start := time.Now()
	seen := map[string]bool{}
	runCase := func(ops []string, kind string) {
		st.Cases++
		st.hit("case:" + kind)
		h.diverged = false
		nontrivial := false
		for _, op := range ops {
			if h.diverged {
				break
			}
			res := h.exec(op)
			o.emit(op, res)
			if strings.Contains(res, ":sent") || strings.Contains(res, "flushed [") {
				nontrivial = true
			}
		}
		key := strings.Join(ops, ";")
		if nontrivial && !seen[key] {
			seen[key] = true
			st.Distinct++
			if len(st.Samples) < 5 {
				st.Samples = append(st.Samples, key)
			}
		}
	}
	if *opsFile != "" {
		runCase(readLines(*opsFile), "replay")
	} else {
		if *corpus != "" {
			for _, f := range globOps(*corpus) {
				runCase(readLines(f), "corpus")
			}
		}
		if *depth > 0 {
			alpha := gatedAlphabet()
			for _, broker := range []string{"1", "0"} {
				idx := make([]int, *depth)
				for {
					ops := []string{"reset " + broker + " 10"}
					now, uid := 0, 1
					for _, i := range idx {
						f := strings.Fields(alpha[i])
						switch f[0] {
						case "ev":
							now += atoi(f[3][1:])
							ops = append(ops, fmt.Sprintf("ev %d %s %s %d 0 0 0", uid, f[1], f[2], now))
						case "ng":
							ops = append(ops, fmt.Sprintf("ng %d", uid))
						default:
							ops = append(ops, f[0]+" 0 0 0")
						}
						uid++
					}
					for id := 1; id <= 3; id++ {
						ops = append(ops, fmt.Sprintf("ev %d %d 1 %d 0 0 0", uid, id, now))
						uid++
					}
					runCase(ops, "exhaustive")
					k := *depth - 1
					for k >= 0 {
						idx[k]++
						if idx[k] < len(alpha) {
							break
						}
						idx[k] = 0
						k--
					}
					if k < 0 {
						break
					}
				}
			}
			st.Extra["exhaustive_depth"] = *depth
			st.Extra["alphabet"] = alpha
		}
		p := newPrng(*seed)
		for i := 0; i < *n; i++ {
			maxLen := 14
			if i%10 == 0 {
				maxLen = 200
			}
			runCase(genGatedCase(p, maxLen), "random")
		}
	}
	o.close()
	st.Extra["wall_s"] = time.Since(start).Seconds()
	st.write(*out)
	if len(st.Oracle) > 0 {
		fmt.Printf("ORACLE-FAILURES %d\n", len(st.Oracle))
		for i, m := range st.Oracle {
			if i < 5 {
				fmt.Println(m)
			}
		}
	}
	fmt.Printf("cases=%d ops=%d distinct_nontrivial=%d\n", st.Cases, st.Ops, st.Distinct)
}
