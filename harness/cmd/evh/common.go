package main

import (
	"bufio"
	"encoding/json"
	"fmt"
	"os"
	"path/filepath"
	"sort"
	"strings"
)

// splitmix64: every random choice of a run derives from one state.
type prng struct{ s uint64 }

func newPrng(seed uint64) *prng { return &prng{s: seed*0x9E3779B97F4A7C15 + 0x1234567} }
func (p *prng) next() uint64 {
	p.s += 0x9E3779B97F4A7C15
	z := p.s
	z = (z ^ (z >> 30)) * 0xBF58476D1CE4E5B9
	z = (z ^ (z >> 27)) * 0x94D049BB133111EB
	return z ^ (z >> 31)
}
func (p *prng) intn(n int) int {
	if n <= 0 {
		return 0
	}
	return int(p.next() % uint64(n))
}
func (p *prng) chance(num, den int) bool { return p.intn(den) < num }
func pick[T any](p *prng, xs []T) T      { return xs[p.intn(len(xs))] }

// stats collects the measured input distribution for the evidence file.
type stats struct {
	Counts   map[string]int `json:"counts"`
	Cases    int            `json:"cases"`
	Ops      int            `json:"ops"`
	Distinct int            `json:"distinct_nontrivial"`
	Samples  []string       `json:"samples"`
	Oracle   []string       `json:"oracle_failures"`
	Extra    map[string]any `json:"extra,omitempty"`
}

func newStats() *stats        { return &stats{Counts: map[string]int{}, Extra: map[string]any{}} }
func (s *stats) hit(k string) { s.Counts[k]++ }
func (s *stats) write(dir string) {
	b, _ := json.MarshalIndent(s, "", " ")
	_ = os.WriteFile(filepath.Join(dir, "stats.json"), b, 0o644)
}

type outFiles struct {
	ops, impl *bufio.Writer
	fo, fi    *os.File
}

func openOut(dir string) *outFiles {
	_ = os.MkdirAll(dir, 0o755)
	fo, err := os.Create(filepath.Join(dir, "ops.txt"))
	if err != nil {
		panic(err)
	}
	fi, err := os.Create(filepath.Join(dir, "impl.out"))
	if err != nil {
		panic(err)
	}
	return &outFiles{ops: bufio.NewWriterSize(fo, 1<<20), impl: bufio.NewWriterSize(fi, 1<<20), fo: fo, fi: fi}
}
func (o *outFiles) emit(op, res string) {
	o.ops.WriteString(op)
	o.ops.WriteByte('\n')
	o.impl.WriteString(res)
	o.impl.WriteByte('\n')
}
func (o *outFiles) close() {
	o.ops.Flush()
	o.impl.Flush()
	o.fo.Close()
	o.fi.Close()
}

func sortedInts(xs []int) []int {
	ys := append([]int(nil), xs...)
	sort.Ints(ys)
	return ys
}
func showInts(xs []int) string {
	ss := make([]string, len(xs))
	for i, x := range xs {
		ss[i] = fmt.Sprint(x)
	}
	return "[" + strings.Join(ss, ",") + "]"
}
func bstr(b bool) string {
	if b {
		return "true"
	}
	return "false"
}

func readLines(path string) []string {
	b, err := os.ReadFile(path)
	if err != nil {
		panic(err)
	}
	var out []string
	for _, l := range strings.Split(string(b), "\n") {
		l = strings.TrimSpace(l)
		if l != "" && !strings.HasPrefix(l, "#") {
			out = append(out, l)
		}
	}
	return out
}

func fatalf(f string, a ...any) {
	fmt.Fprintf(os.Stderr, f+"\n", a...)
	os.Exit(2)
}

func globOps(dir string) []string {
	m, _ := filepath.Glob(filepath.Join(dir, "*.ops"))
	sort.Strings(m)
	return m
}
