package main

// Trace-inclusion harness for M2 Dispatch: runs the real Broker.Send over generated pipeline sets
// with the verif hooks installed; the hook records the protocol trace, perturbs the schedule,
// places the cancel at a chosen protocol step and can hold nodes inside Process.  The trace is
// replayed through the Lean model's `fire` by the driver (every label must be enabled, the run must
// end in a terminal state); the Go-side oracles of C01, C02 and C03 are evaluated from the nodes'
// own log.

import (
	"context"
	"errors"
	"flag"
	"fmt"
	"runtime"
	"sort"
	"strings"
	"sync"
	"time"

	"github.com/hashicorp/eventlogger"
)

type dNode struct {
	p, k    int
	out     byte // p r d e
	ty      eventlogger.NodeType
	h       *dispHarness
	slow    bool
	release chan struct{}
	reenter bool // calls back into the Broker (a registering call) from Process
}

type dErr struct{ p, k int }

func (e dErr) Error() string                 { return fmt.Sprintf("node %d/%d failed", e.p, e.k) }
func (e dErr) VerifNode() eventlogger.NodeID { return dnid(e.p, e.k) }

// dCtxErr: a node error that wraps a context error although Send's own context is fine (the node's own deadline)
type dCtxErr struct {
	dErr
	ctxErr error
}

// dFamErr: errors of one family -- errors.Is says any two of them are "the same" error (a sentinel
// several nodes return, each wrapping where it happened). They are still one warning each.
type dFamErr struct{ dErr }

func (e dFamErr) Unwrap() error { return e.dErr }
func (e dFamErr) Is(t error) bool {
	_, ok := t.(dFamErr)
	return ok
}

func (e dCtxErr) Error() string   { return e.dErr.Error() + ": " + e.ctxErr.Error() }
func (e dCtxErr) Unwrap() []error { return []error{e.dErr, e.ctxErr} }

func dnid(p, k int) eventlogger.NodeID { return eventlogger.NodeID(fmt.Sprintf("n%d_%d", p, k)) }

type dCall struct {
	p, k int
	in   *eventlogger.Event
	out  *eventlogger.Event
	err  error
}

func (n *dNode) Process(ctx context.Context, e *eventlogger.Event) (*eventlogger.Event, error) {
	if n.slow {
		<-n.release
	}
	if n.reenter && n.h.b != nil {
		// Send holds none of the Broker's locks while nodes run
		n.h.b.RegisterNode("scratch", &dNode{p: 99, k: 0, out: 'p', ty: eventlogger.NodeTypeFilter, h: n.h})
		n.h.b.IsAnyPipelineRegistered("t")
		// ... including the pipeline map of the very type being sent (removing a pipeline that is not there)
		n.h.b.RemovePipeline("t", "no-such-pipeline")
		// ... and registering the node's own pipeline again with the very same definition: the traversal
		// under way goes on through the nodes it was given
		n.h.mu.Lock()
		def, ok := n.h.defs[n.p]
		n.h.mu.Unlock()
		if ok {
			n.h.b.RegisterPipeline(def)
		}
	}
	var out *eventlogger.Event
	var err error
	switch n.out {
	case 'p':
		out = e
	case 'r':
		out = &eventlogger.Event{Type: e.Type, CreatedAt: e.CreatedAt, Formatted: map[string][]byte{}, Payload: fmt.Sprintf("repl-%d-%d", n.p, n.k)}
	case 'd':
	case 'E': // an error together with a non-nil event: the error must still end the traversal
		out = e
		err = dErr{n.p, n.k}
	case 'x': // the node's OWN deadline expired (its error wraps context.DeadlineExceeded); Send's context is fine
		err = dCtxErr{dErr{n.p, n.k}, context.DeadlineExceeded}
	case 'y': // likewise, wrapping context.Canceled
		err = dCtxErr{dErr{n.p, n.k}, context.Canceled}
	default:
		err = dErr{n.p, n.k}
	}
	if de, ok := err.(dErr); ok && n.h.famErrs {
		err = dFamErr{de}
	}
	n.h.mu.Lock()
	n.h.calls = append(n.h.calls, dCall{n.p, n.k, e, out, err})
	n.h.mu.Unlock()
	return out, err
}
func (n *dNode) Reopen() error              { return nil }
func (n *dNode) Type() eventlogger.NodeType { return n.ty }

type dispHarness struct {
	mu       sync.Mutex
	calls    []dCall
	trace    []string
	nEvents  int
	cancelAt int
	cancel   context.CancelFunc
	cancelT  time.Time
	prng     *prng
	perturb  int
	idOf     map[eventlogger.NodeID][2]int
	closedCh chan struct{}
	closeOne sync.Once
	defs     map[int]eventlogger.Pipeline
	famErrs  bool
	st       *stats
	b        *eventlogger.Broker
}

func (h *dispHarness) traceCopy() []string {
	h.mu.Lock()
	defer h.mu.Unlock()
	return append([]string(nil), h.trace...)
}

func (h *dispHarness) hook(point string, _ eventlogger.PipelineID, nid eventlogger.NodeID) {
	h.mu.Lock()
	if h.nEvents == h.cancelAt && h.cancel != nil {
		h.trace = append(h.trace, "cancel")
		h.cancelT = time.Now()
		h.cancel()
		h.cancel = nil
	}
	h.nEvents++
	pk, ok := h.idOf[nid]
	line := ""
	switch point {
	case "rangeStart":
		line = fmt.Sprintf("rangeStart %d", pk[0])
	case "rangeStop", "rangeEnd", "waited", "closed", "collect", "collectCtx", "collectClosed":
		line = point
	case "collectRecv":
		if !ok {
			line = "recv ? ?"
		} else {
			line = fmt.Sprintf("recv %d %d", pk[0], pk[1])
		}
	case "call":
		line = fmt.Sprintf("call %d %d", pk[0], pk[1])
	case "return":
		line = fmt.Sprintf("ret %d %d", pk[0], pk[1])
	case "sendTry":
		line = fmt.Sprintf("sendTry %d %d", pk[0], pk[1])
	case "sendAbort":
		line = fmt.Sprintf("abort %d %d", pk[0], pk[1])
	case "sent":
		line = fmt.Sprintf("sent %d %d", pk[0], pk[1])
	case "spawn":
		line = fmt.Sprintf("spawn %d %d", pk[0], pk[1])
	case "done":
		line = fmt.Sprintf("done %d %d", pk[0], pk[1])
	default:
		line = "unknown " + point
	}
	h.trace = append(h.trace, line)
	act := 0
	if h.perturb > 0 {
		act = h.prng.intn(h.perturb)
	}
	h.mu.Unlock()
	if point == "closed" {
		h.closeOne.Do(func() { close(h.closedCh) })
	}
	switch act {
	case 1:
		runtime.Gosched()
	case 2:
		time.Sleep(time.Duration(20) * time.Microsecond)
	}
}

type dispCase struct {
	outs      []string // per pipeline, outcome letters
	thr, thrS int
	cancelAt  int // hook event index at which the context is cancelled; -1 never; -2 before the call
	slow      map[[2]int]bool
	reenter   map[[2]int]bool
	perturb   int
}

func (c dispCase) String() string {
	var slow []string
	for k := range c.slow {
		slow = append(slow, fmt.Sprintf("%d/%d", k[0], k[1]))
	}
	sort.Strings(slow)
	var re []string
	for k := range c.reenter {
		re = append(re, fmt.Sprintf("%d/%d", k[0], k[1]))
	}
	sort.Strings(re)
	return fmt.Sprintf("pipes=%v thr=%d/%d cancelAt=%d slow=%v reenter=%v perturb=%d", c.outs, c.thr, c.thrS, c.cancelAt, slow, re, c.perturb)
}

// runDispatch executes one Send and returns the trace lines (ops) with the implementation's verdict lines.
func runDispatch(c dispCase, seed uint64, st *stats, oracle func(string, ...any)) (ops, impl []string) {
	h := &dispHarness{idOf: map[eventlogger.NodeID][2]int{}, prng: newPrng(seed), perturb: c.perturb, cancelAt: c.cancelAt, closedCh: make(chan struct{}), st: st}
	h.famErrs = (len(c.outs)+c.perturb+c.thr)%3 == 0 // a third of the cases: the failing nodes return errors of one family
	b, _ := eventlogger.NewBroker()
	h.b = b
	var slowNodes []*dNode
	nodes := map[[2]int]*dNode{}
	for p, outs := range c.outs {
		var ids []eventlogger.NodeID
		for k := range outs {
			ty := eventlogger.NodeTypeFilter
			if k == len(outs)-1 {
				ty = eventlogger.NodeTypeSink
			} else if k == len(outs)-2 {
				ty = eventlogger.NodeTypeFormatter
			}
			n := &dNode{p: p, k: k, out: outs[k], ty: ty, h: h, slow: c.slow[[2]int{p, k}], release: make(chan struct{}), reenter: c.reenter[[2]int{p, k}]}
			if n.slow {
				slowNodes = append(slowNodes, n)
			}
			nodes[[2]int{p, k}] = n
			h.idOf[dnid(p, k)] = [2]int{p, k}
			ids = append(ids, dnid(p, k))
			if err := b.RegisterNode(dnid(p, k), n); err != nil {
				panic(err)
			}
		}
		def := eventlogger.Pipeline{PipelineID: eventlogger.PipelineID(fmt.Sprintf("p%d", p)), EventType: "t", NodeIDs: ids}
		if err := b.RegisterPipeline(def); err != nil {
			panic(err)
		}
		h.mu.Lock()
		if h.defs == nil {
			h.defs = map[int]eventlogger.Pipeline{}
		}
		h.defs[p] = def
		h.mu.Unlock()
	}
	if len(c.outs) == 0 {
		_ = b.SetSuccessThreshold("t", 0) // creates the graph
	}
	_ = b.SetSuccessThreshold("t", c.thr)
	_ = b.SetSuccessThresholdSinks("t", c.thrS)
	// every other case hands Send a context that carries a cause of its own (WithCancelCause): the error
	// Send returns wraps the context's ERROR (context.Canceled) all the same
	ctx, cancel := context.WithCancel(context.Background())
	if caseSeq++; caseSeq%2 == 0 {
		cctx, ccancel := context.WithCancelCause(context.Background())
		ctx, cancel = cctx, func() { ccancel(errors.New("the caller's own cause")) }
	}
	defer cancel()
	h.cancel = cancel
	if c.cancelAt == -2 {
		h.trace = append(h.trace, "cancel")
		h.cancelT = time.Now()
		cancel()
		h.cancel = nil
	}
	eventlogger.SetVerifHook(h.hook)
	payload := "payload"
	type result struct {
		st  eventlogger.Status
		err error
	}
	resCh := make(chan result, 1)
	sendStart := time.Now()
	go func() {
		s, err := b.Send(ctx, "t", payload)
		resCh <- result{s, err}
	}()
	// slow nodes are released only once Send returned (cancel case) or, without cancel, after a short delay
	var res result
	released := false
	releaseAll := func() {
		if !released {
			released = true
			for _, n := range slowNodes {
				close(n.release)
			}
		}
	}
	willCancel := c.cancelAt != -1
	select {
	case res = <-resCh:
	case <-time.After(func() time.Duration {
		if willCancel && len(slowNodes) > 0 {
			return 60 * time.Millisecond
		}
		return 0
	}()):
		// the cancel took effect but Send is still there although only nodes are blocking: it has to return
		// promptly "even if nodes are still running"
		h.mu.Lock()
		cancelledNow := h.cancel == nil
		h.mu.Unlock()
		if cancelledNow {
			select {
			case res = <-resCh:
				resCh <- res
			case <-time.After(5 * time.Second):
				oracle("C03 Send did not return within 5s of the cancel while nodes were still running (it waits for them): %s", c)
			}
		}
		// no cancel took effect (or none requested): let the slow nodes go and wait for Send
		releaseAll()
		select {
		case res = <-resCh:
		case <-time.After(10 * time.Second):
			oracle("C03 Send did not return within 10s: %s", c)
			eventlogger.SetVerifHook(nil)
			return nil, nil
		}
	}
	sendReturned := time.Now()
	h.mu.Lock()
	cancelled := h.cancel == nil
	cancelT := h.cancelT
	h.mu.Unlock()
	if cancelled && !released && len(slowNodes) > 0 {
		st.hit("returned-while-nodes-blocked")
		if d := sendReturned.Sub(cancelT); d > 2*time.Second {
			oracle("C03 Send returned %v after the cancel although only nodes were blocking: %s", d, c)
		}
	}
	_ = sendStart
	releaseAll()
	// once every node invocation returned, no goroutine of this Send may remain: the ranger must close
	select {
	case <-h.closedCh:
	case <-time.After(10 * time.Second):
		oracle("C03 goroutines of the Send did not finish within 10s after all nodes were released: %s", c)
		eventlogger.SetVerifHook(nil)
		return nil, nil
	}
	// give the last deferred Done hooks (logged before `closed` anyway) and child exits a moment
	time.Sleep(50 * time.Microsecond)
	eventlogger.SetVerifHook(nil)
	h.mu.Lock()
	trace := append([]string(nil), h.trace...)
	calls := append([]dCall(nil), h.calls...)
	h.mu.Unlock()

	// ---- canonical lines
	ops = append(ops, fmt.Sprintf("cfg %d", len(c.outs)))
	impl = append(impl, "cfg")
	for p, outs := range c.outs {
		sinks := strings.Repeat("0", len(outs)-1) + "1"
		ops = append(ops, fmt.Sprintf("pipe %d %s %s", p, strings.NewReplacer("x", "e", "y", "e").Replace(outs), sinks))
		impl = append(impl, "pipe")
	}
	var got []string
	for _, id := range res.st.Complete() {
		pk := h.idOf[id]
		got = append(got, fmt.Sprintf("%d/%d/c", pk[0], pk[1]))
	}
	for _, w := range res.st.Warnings {
		var de dErr
		if errors.As(w, &de) {
			got = append(got, fmt.Sprintf("%d/%d/w", de.p, de.k))
		} else {
			got = append(got, "?/?/w")
		}
	}
	sort.Strings(got)
	gotS := "[" + strings.Join(got, ",") + "]"
	for _, l := range trace {
		ops = append(ops, l)
		if l == "collectCtx" || l == "collectClosed" {
			impl = append(impl, "ok got="+gotS)
		} else {
			impl = append(impl, "ok")
		}
	}
	// invocation order as logged by the hooks (rangeStart / spawn), the model's ghost `inv`
	var inv []string
	for _, l := range trace {
		f := strings.Fields(l)
		if f[0] == "rangeStart" {
			inv = append(inv, f[1]+"/0")
		} else if f[0] == "spawn" {
			inv = append(inv, f[1]+"/"+f[2])
		}
	}
	ops = append(ops, "end")
	impl = append(impl, "end terminal inv=["+strings.Join(inv, ",")+"]")

	// ---- Go-side oracles
	byP := map[int][]dCall{}
	for _, cl := range calls {
		byP[cl.p] = append(byP[cl.p], cl)
	}
	started := 0
	for p, outs := range c.outs {
		cs := byP[p]
		if len(cs) > 0 {
			started++
		}
		for i, cl := range cs {
			if cl.k != i {
				oracle("C01 pipeline %d: invocation %d was node %d (order/at-most-once violated): %s", p, i, cl.k, c)
				break
			}
			if i == 0 {
				e := cl.in
				if e.Type != "t" || e.Payload != payload || e.CreatedAt.IsZero() || e.Formatted == nil {
					oracle("C01 pipeline %d: first node got a malformed event: %s", p, c)
				}
			} else {
				prev := cs[i-1]
				if prev.err != nil || prev.out == nil {
					oracle("C01 pipeline %d: node %d invoked although node %d returned nil/error: %s", p, i, i-1, c)
				} else if cl.in != prev.out {
					oracle("C01 pipeline %d: node %d did not receive the event node %d returned: %s", p, i, i-1, c)
				}
			}
		}
		// stop index
		stop := len(outs) - 1
		for k := 0; k < len(outs); k++ {
			if outs[k] == 'd' || outs[k] == 'e' || outs[k] == 'E' || outs[k] == 'x' || outs[k] == 'y' {
				stop = k
				break
			}
		}
		if !cancelled && len(cs) != stop+1 {
			oracle("C01 pipeline %d: %d invocations, the traversal should reach node %d exactly: %s", p, len(cs), stop, c)
		}
		if len(cs) > stop+1 {
			oracle("C01 pipeline %d: node after the stopping node %d was invoked: %s", p, stop, c)
		}
	}
	if !cancelled && started != len(c.outs) {
		oracle("C01 %d of %d pipelines traversed without cancellation: %s", started, len(c.outs), c)
	}
	// C02: entries are distinct traversals that really ended so
	seenP := map[int]bool{}
	nC, nS := 0, 0
	for _, g := range got {
		var p, k int
		var kind string
		fmt.Sscanf(strings.ReplaceAll(g, "/", " "), "%d %d %s", &p, &k, &kind)
		if seenP[p] {
			oracle("C02 two status entries for pipeline %d: %s got=%s", p, c, gotS)
		}
		seenP[p] = true
		cs := byP[p]
		if k >= len(cs) {
			oracle("C02 status entry %s for a node that was never invoked: %s", g, c)
			continue
		}
		cl := cs[k]
		if kind == "w" {
			if cl.err == nil {
				oracle("C02 warning %s but the node returned no error: %s", g, c)
			}
		} else {
			nC++
			leaf := k == len(c.outs[p])-1
			if cl.err != nil || !(cl.out == nil || leaf) {
				oracle("C02 complete %s but the traversal did not end successfully there: %s", g, c)
			}
		}
	}
	var sinksGot []string
	for _, id := range res.st.CompleteSinks() {
		pk := h.idOf[id]
		sinksGot = append(sinksGot, fmt.Sprintf("%d/%d/c", pk[0], pk[1]))
		nS++
	}
	var sinksWant []string
	for _, g := range got {
		if strings.HasSuffix(g, "/c") {
			var p, k int
			fmt.Sscanf(strings.ReplaceAll(g, "/", " "), "%d %d", &p, &k)
			if nodes[[2]int{p, k}].ty == eventlogger.NodeTypeSink {
				sinksWant = append(sinksWant, g)
			}
		}
	}
	sort.Strings(sinksGot)
	sort.Strings(sinksWant)
	if strings.Join(sinksGot, ",") != strings.Join(sinksWant, ",") {
		oracle("C02 completeSinks %v but the sink entries of complete are %v: %s", sinksGot, sinksWant, c)
	}
	if !cancelled && len(got) != len(c.outs) {
		oracle("C02 %d status entries for %d pipelines without cancellation: %s got=%s", len(got), len(c.outs), c, gotS)
	}
	wantErr := nC < c.thr || nS < c.thrS
	if wantErr != (res.err != nil) {
		oracle("C02 Send error=%v but completes=%d/%d sinks=%d/%d: %s", res.err, nC, c.thr, nS, c.thrS, c)
	}
	// the context was done when the collector left its loop (the cancellation is in the trace before the
	// collector's exit; a cancellation that a late hook of the range goroutine delivers after that says
	// nothing about the error Send had already made up): the error must wrap the context's error
	cancelBeforeExit := false
	for _, l := range h.traceCopy() {
		if l == "cancel" {
			cancelBeforeExit = true
			break
		}
		if l == "collectCtx" || l == "collectClosed" {
			break
		}
	}
	if res.err != nil && ctx.Err() != nil && cancelled && (cancelBeforeExit || c.cancelAt == -2) && !errors.Is(res.err, context.Canceled) {
		oracle("C02 Send error %v does not wrap the context error: %s", res.err, c)
	}
	if cancelled {
		st.hit("cancelled")
		if len(got) < len(c.outs) {
			st.hit("cancelled:entries-missing")
		}
	} else {
		st.hit("not-cancelled")
	}
	st.hit(fmt.Sprintf("pipelines=%d", len(c.outs)))
	for _, l := range trace {
		st.hit("label:" + strings.Fields(l)[0])
	}
	return ops, impl
}

func genDispCase(p *prng) dispCase {
	n := p.intn(5)
	if p.chance(1, 3) {
		n = 1 + p.intn(3)
	}
	c := dispCase{cancelAt: -1, slow: map[[2]int]bool{}, reenter: map[[2]int]bool{}}
	total := 0
	for i := 0; i < n; i++ {
		l := 2 + p.intn(4)
		b := make([]byte, l)
		for k := range b {
			b[k] = "pppprrdeExy"[p.intn(11)]
		}
		if p.chance(1, 2) {
			b[l-1] = 'd' // sinks return (nil,nil)
		}
		c.outs = append(c.outs, string(b))
		total += l
	}
	c.thr, c.thrS = p.intn(n+2), p.intn(n+2)
	if p.chance(1, 2) {
		c.thr, c.thrS = 0, 0
	}
	switch p.intn(4) {
	case 0:
		c.cancelAt = -1
	case 1:
		c.cancelAt = -2
	default:
		c.cancelAt = p.intn(6*total + 8)
	}
	if n > 0 && p.chance(1, 4) {
		pi := p.intn(n)
		c.slow[[2]int{pi, p.intn(len(c.outs[pi]))}] = true
	}
	if n > 0 && p.chance(1, 5) {
		pi := p.intn(n)
		c.reenter[[2]int{pi, p.intn(len(c.outs[pi]))}] = true
	}
	c.perturb = []int{0, 3, 3, 6}[p.intn(4)]
	return c
}

var caseSeq int

func dispatchMain(args []string) {
	fs := flag.NewFlagSet("dispatch", flag.ExitOnError)
	seed := fs.Uint64("seed", 1, "seed")
	n := fs.Int("n", 400, "random configurations")
	sched := fs.Int("sched", 3, "schedules per configuration")
	sweep := fs.Int("sweep", 0, "additionally sweep every cancel position for this many configurations")
	out := fs.String("out", "", "output dir")
	_ = fs.String("corpus", "", "unused")
	_ = fs.String("ops", "", "unused")
	fs.Parse(args)
	st := newStats()
	o := openOut(*out)
	start := time.Now()
	p := newPrng(*seed)
	seen := map[string]bool{}
	var cur dispCase
	hung := false
	oracle := func(f string, a ...any) {
		st.hit("oracle-failure")
		if len(st.Oracle) < 40 {
			st.Oracle = append(st.Oracle, fmt.Sprintf(f, a...))
		}
		if strings.Contains(f, "did not return") || strings.Contains(f, "did not finish") {
			hung = true // goroutines of that Send are still around: they would talk to the next case's hook
		}
	}
	runOne := func(c dispCase, s uint64) {
		if hung {
			return
		}
		cur = c
		_ = cur
		ops, impl := runDispatch(c, s, st, oracle)
		st.Cases++
		st.Ops += len(ops)
		for i := range ops {
			o.emit(ops[i], impl[i])
		}
		key := strings.Join(ops, ";")
		if len(c.outs) > 0 && !seen[key] {
			seen[key] = true
			st.Distinct++
			if len(st.Samples) < 3 {
				st.Samples = append(st.Samples, c.String()+" :: "+key)
			}
		}
	}
	for i := 0; i < *n; i++ {
		c := genDispCase(p)
		for s := 0; s < *sched; s++ {
			runOne(c, p.next())
		}
		if i < *sweep {
			// every cancel position of this configuration's protocol
			total := 0
			for _, o := range c.outs {
				total += len(o)
			}
			for pos := -2; pos < 8*total+10; pos++ {
				if pos == -1 {
					continue
				}
				cc := c
				cc.cancelAt = pos
				runOne(cc, p.next())
			}
			st.hit("cancel-sweeps")
		}
	}
	o.close()
	st.Extra["wall_s"] = time.Since(start).Seconds()
	st.write(*out)
	if len(st.Oracle) > 0 {
		fmt.Printf("ORACLE-FAILURES %d\n", len(st.Oracle))
		for i, m := range st.Oracle {
			if i < 5 {
				fmt.Println(m)
			}
		}
	}
	fmt.Printf("cases=%d ops=%d distinct_nontrivial=%d\n", st.Cases, st.Ops, st.Distinct)
}
