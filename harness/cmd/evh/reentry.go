package main

// Re-entrancy harness for C12: every Broker operation with nodes that call back into the same
// Broker from Process / Close / Reopen, and the library's gated.Filter wired to the same Broker with
// 0..3 pending groups, with and without writers parked on Broker.lock; a watchdog bounds every call.

import (
	"context"
	"flag"
	"fmt"
	"os"
	"path/filepath"
	"sync/atomic"
	"time"

	"github.com/hashicorp/eventlogger"
	"github.com/hashicorp/eventlogger/filters/gated"
)

type reNode struct {
	b              *eventlogger.Broker
	ty             eventlogger.NodeType
	onProcess      bool
	onClose        bool
	onReopen       bool
	processed, hit *int32
}

func (n *reNode) Process(ctx context.Context, e *eventlogger.Event) (*eventlogger.Event, error) {
	if n.onProcess && e.Type == "outer" {
		n.b.Send(ctx, "inner", "from-process")
		n.b.IsAnyPipelineRegistered("inner")
		n.b.SuccessThreshold("inner")
		// Send holds no lock of the Broker while nodes run: a node may even change the registry
		n.b.RegisterNode("scratch-from-process", &reNode{b: n.b, ty: eventlogger.NodeTypeFilter, processed: n.processed, hit: n.hit})
	}
	if n.ty == eventlogger.NodeTypeSink {
		atomic.AddInt32(n.processed, 1)
		return nil, nil
	}
	return e, nil
}
func (n *reNode) Reopen() error {
	if n.onReopen {
		n.b.Send(context.Background(), "inner", "from-reopen")
	}
	return nil
}
func (n *reNode) Type() eventlogger.NodeType { return n.ty }
func (n *reNode) Close(ctx context.Context) error {
	if n.onClose {
		n.b.Send(ctx, "inner", "from-close")
		atomic.AddInt32(n.hit, 1)
	}
	return nil
}

// wrapNode: a decorator that is not a Closer itself but unwraps to one (NodeUnwrapper)
// loopPayload is a Gateable whose composition is a Gateable flush event again
type loopPayload struct {
	id    string
	flush bool
}

func (l *loopPayload) GetID() string    { return l.id }
func (l *loopPayload) FlushEvent() bool { return l.flush }
func (l *loopPayload) ComposeFrom(events []*eventlogger.Event) (eventlogger.EventType, interface{}, error) {
	return "outer", &loopPayload{id: "again", flush: true}, nil
}

// emptyWrap: a NodeUnwrapper with nothing inside
type emptyWrap struct{ ty eventlogger.NodeType }

func (w *emptyWrap) Process(ctx context.Context, e *eventlogger.Event) (*eventlogger.Event, error) {
	return e, nil
}
func (w *emptyWrap) Reopen() error              { return nil }
func (w *emptyWrap) Type() eventlogger.NodeType { return w.ty }
func (w *emptyWrap) Unwrap() eventlogger.Node   { return nil }

type wrapNode struct{ inner eventlogger.Node }

func (w *wrapNode) Process(ctx context.Context, e *eventlogger.Event) (*eventlogger.Event, error) {
	return w.inner.Process(ctx, e)
}
func (w *wrapNode) Reopen() error              { return w.inner.Reopen() }
func (w *wrapNode) Type() eventlogger.NodeType { return w.inner.Type() }
func (w *wrapNode) Unwrap() eventlogger.Node   { return w.inner }

func watchdog(name string, oracle func(string, ...any), f func()) bool {
	done := make(chan struct{})
	go func() { f(); close(done) }()
	select {
	case <-done:
		return true
	case <-time.After(8 * time.Second):
		oracle("C12 %s did not return within 8s (Broker permanently locked)", name)
		return false
	}
}

func reentryMain(args []string) {
	fs := flag.NewFlagSet("reentry", flag.ExitOnError)
	_ = fs.Uint64("seed", 1, "seed")
	rounds := fs.Int("rounds", 2, "rounds")
	out := fs.String("out", "", "output dir")
	fs.Parse(args)
	st := newStats()
	o := openOut(*out)
	oracle := func(f string, a ...any) {
		st.hit("oracle-failure")
		if len(st.Oracle) < 40 {
			st.Oracle = append(st.Oracle, fmt.Sprintf(f, a...))
		}
	}
	ctx := context.Background()
	for r := 0; r < *rounds; r++ {
		for _, writers := range []bool{false, true} {
			for pending := 0; pending <= 3; pending++ {
				st.Cases++
				st.Distinct++
				var processed, hit int32
				b, _ := eventlogger.NewBroker()
				mk := func(ty eventlogger.NodeType) *reNode {
					return &reNode{b: b, ty: ty, onProcess: true, onClose: true, onReopen: true, processed: &processed, hit: &hit}
				}
				gf := &gated.Filter{Broker: b, Expiration: time.Hour}
				b.RegisterNode("re", mk(eventlogger.NodeTypeFilter))
				if r%2 == 1 {
					b.RegisterNode("gated", &wrapNode{gf}) // closed through Unwrap
				} else {
					b.RegisterNode("gated", gf)
				}
				b.RegisterNode("fmt", mk(eventlogger.NodeTypeFormatter))
				b.RegisterNode("sink", mk(eventlogger.NodeTypeSink))
				b.RegisterNode("ifmt", mk(eventlogger.NodeTypeFormatter))
				b.RegisterNode("isink", mk(eventlogger.NodeTypeSink))
				b.RegisterPipeline(eventlogger.Pipeline{PipelineID: "po", EventType: "outer", NodeIDs: []eventlogger.NodeID{"re", "gated", "fmt", "sink"}})
				b.RegisterPipeline(eventlogger.Pipeline{PipelineID: "pi", EventType: "inner", NodeIDs: []eventlogger.NodeID{"ifmt", "isink"}})
				// composites of the gated filter are sent with the first event's type ("outer")
				var stop int32
				if writers {
					for w := 0; w < 3; w++ {
						go func(w int) {
							for atomic.LoadInt32(&stop) == 0 {
								b.RegisterNode(eventlogger.NodeID(fmt.Sprintf("w%d", w)), mk(eventlogger.NodeTypeFilter))
								b.SetSuccessThreshold("inner", 0)
								// writers that change the pipeline map of the very type being traversed, while its
								// root node is inside Process and about to call back into the Broker
								pw := eventlogger.PipelineID(fmt.Sprintf("pw%d", w))
								b.RegisterPipeline(eventlogger.Pipeline{PipelineID: pw, EventType: "outer", NodeIDs: []eventlogger.NodeID{"ifmt", "isink"}})
								b.RemovePipeline("outer", pw)
							}
						}(w)
					}
				}
				ok := true
				for i := 0; i < pending && ok; i++ {
					ok = watchdog("Send(gateable)", oracle, func() {
						b.Send(ctx, "outer", &gated.Payload{ID: fmt.Sprintf("g%d", i), Detail: map[string]interface{}{"i": i}})
					})
				}
				ok = ok && watchdog("Send with a node that calls Send from Process", oracle, func() { b.Send(ctx, "outer", "plain") })
				ok = ok && watchdog("Reopen with a node that calls Send from Reopen", oracle, func() { b.Reopen(ctx) })
				before := atomic.LoadInt32(&processed)
				ok = ok && watchdog(fmt.Sprintf("RemovePipelineAndNodes closing a gated.Filter with %d pending groups and nodes that Send from Close", pending), oracle, func() {
					b.RemovePipelineAndNodes(ctx, "outer", "po")
				})
				_ = before
				ok = ok && watchdog("RemovePipeline", oracle, func() { b.RemovePipeline("inner", "pi") })
				ok = ok && watchdog("RemoveNode of a node that calls Send from Close", oracle, func() { b.RemoveNode(ctx, "ifmt") })
				ok = ok && watchdog("RegisterPipeline / thresholds / IsAny after re-entrant calls", oracle, func() {
					b.RegisterNode("x", mk(eventlogger.NodeTypeFormatter))
					b.RegisterPipeline(eventlogger.Pipeline{PipelineID: "px", EventType: "inner", NodeIDs: []eventlogger.NodeID{"x", "isink"}})
					b.SetSuccessThresholdSinks("inner", 1)
					b.SuccessThresholdSinks("inner")
					b.IsAnyPipelineRegistered("inner")
					b.Send(ctx, "inner", "after")
				})
				atomic.StoreInt32(&stop, 1)
				// every call gives the lock back on every path: Reopen with nothing (left) to reopen, getters and
				// removals of unknown ids, then calls that need the write lock
				ok = ok && watchdog("write calls after Reopen / getters / failed removals on an emptied broker", oracle, func() {
					for _, id := range []eventlogger.NodeID{"x", "isink", "sink", "fmt", "re", "gated", "scratch-from-process", "w0", "w1", "w2"} {
						b.RemovePipeline("inner", "px")
						b.RemoveNode(ctx, id)
					}
					b.Reopen(ctx)
					b.RemoveNode(ctx, "no-such-node")
					b.RemovePipelineAndNodes(ctx, "inner", "no-such-pipeline")
					b.SuccessThreshold("no-such-type")
					b.IsAnyPipelineRegistered("no-such-type")
					b.Send(ctx, "no-such-type", "x")
					b.RegisterNode("after-all", mk(eventlogger.NodeTypeFilter))
					b.SetSuccessThreshold("inner", 1)
				})
				// overwriting a pipeline so that it no longer lists a gated filter with pending groups, then
				// removing that filter: whatever closes it, and whenever, the calls return
				{
					ob, _ := eventlogger.NewBroker()
					og := &gated.Filter{Broker: ob, Expiration: time.Hour}
					ob.RegisterNode("og", og)
					ob.RegisterNode("ofmt", mk(eventlogger.NodeTypeFormatter))
					ob.RegisterNode("osink", mk(eventlogger.NodeTypeSink))
					ob.RegisterPipeline(eventlogger.Pipeline{PipelineID: "op", EventType: "outer", NodeIDs: []eventlogger.NodeID{"og", "ofmt", "osink"}})
					for i := 0; i < pending && ok; i++ {
						ok = watchdog("Send(gateable) before an overwrite", oracle, func() {
							ob.Send(ctx, "outer", &gated.Payload{ID: fmt.Sprintf("o%d", i), Detail: map[string]interface{}{"i": i}})
						})
					}
					ok = ok && watchdog(fmt.Sprintf("RegisterPipeline overwriting a pipeline so that it drops a gated.Filter with %d pending groups", pending), oracle, func() {
						ob.RegisterPipeline(eventlogger.Pipeline{PipelineID: "op", EventType: "outer", NodeIDs: []eventlogger.NodeID{"ofmt", "osink"}})
					})
					ok = ok && watchdog("Send after the overwrite", oracle, func() { ob.Send(ctx, "outer", "plain") })
					ok = ok && watchdog("RemoveNode of the dropped gated.Filter", oracle, func() { ob.RemoveNode(ctx, "og") })
					ok = ok && watchdog("SetSuccessThreshold after the overwrite", oracle, func() { ob.SetSuccessThreshold("outer", 0) })
				}
				// a Gateable whose composition is itself a Gateable flush event of a type that runs through the
				// same filter: the filter refuses it (C11) or lets it through, but every call returns
				{
					lb, _ := eventlogger.NewBroker()
					var now int64
					lg := &gated.Filter{Broker: lb, Expiration: time.Second, NowFunc: func() time.Time { return time.Unix(1000+atomic.LoadInt64(&now), 0) }}
					lb.RegisterNode("lg", lg)
					lb.RegisterNode("lg-again", lg) // the same filter under a second id, in no pipeline
					lb.RegisterNode("lfmt", mk(eventlogger.NodeTypeFormatter))
					lb.RegisterNode("lsink", mk(eventlogger.NodeTypeSink))
					lb.RegisterPipeline(eventlogger.Pipeline{PipelineID: "lp", EventType: "outer", NodeIDs: []eventlogger.NodeID{"lg", "lfmt", "lsink"}})
					for i := 0; i <= pending && ok; i++ {
						ok = watchdog("Send(gateable whose composition is gateable)", oracle, func() {
							lb.Send(ctx, "outer", &loopPayload{id: fmt.Sprintf("l%d", i)})
						})
					}
					atomic.StoreInt64(&now, 10) // everything gated has expired
					ok = ok && watchdog("Send sweeping expired groups whose composition is a Gateable flush event", oracle, func() {
						lb.Send(ctx, "outer", &loopPayload{id: "late"})
					})
					ok = ok && watchdog("RemoveNode closing a gated.Filter whose composition is a Gateable flush event", oracle, func() { lb.RemoveNode(ctx, "lg-again") })
					ok = ok && watchdog("RemovePipelineAndNodes closing a gated.Filter whose composition is a Gateable flush event", oracle, func() {
						lb.RemovePipelineAndNodes(ctx, "outer", "lp")
					})
				}
				// refused calls give the lock back: a refused overwrite of a DenyOverwrite pipeline, a refused
				// RegisterNode, a second removal of a pipeline -- and then ordinary calls
				{
					db, _ := eventlogger.NewBroker()
					db.RegisterNode("df", mk(eventlogger.NodeTypeFormatter), eventlogger.WithNodeRegistrationPolicy(eventlogger.DenyOverwrite))
					db.RegisterNode("ds", mk(eventlogger.NodeTypeSink))
					dp := eventlogger.Pipeline{PipelineID: "dp", EventType: "inner", NodeIDs: []eventlogger.NodeID{"df", "ds"}}
					db.RegisterPipeline(dp, eventlogger.WithPipelineRegistrationPolicy(eventlogger.DenyOverwrite))
					ok = ok && watchdog("a refused RegisterPipeline (DenyOverwrite), then Send", oracle, func() {
						db.RegisterPipeline(dp)
						db.Send(ctx, "inner", "x")
					})
					ok = ok && watchdog("a refused RegisterNode (DenyOverwrite), then SetSuccessThreshold", oracle, func() {
						db.RegisterNode("df", mk(eventlogger.NodeTypeFormatter))
						db.SetSuccessThreshold("inner", 0)
					})
					ok = ok && watchdog("RegisterPipeline with an unknown node / an invalid policy, then Reopen", oracle, func() {
						db.RegisterPipeline(eventlogger.Pipeline{PipelineID: "dq", EventType: "inner", NodeIDs: []eventlogger.NodeID{"nope", "ds"}})
						db.RegisterPipeline(eventlogger.Pipeline{PipelineID: "dq", EventType: "inner", NodeIDs: []eventlogger.NodeID{"df", "ds"}}, eventlogger.WithPipelineRegistrationPolicy("bogus"))
						db.Reopen(ctx)
					})
					ok = ok && watchdog("RemovePipelineAndNodes twice, then RegisterNode", oracle, func() {
						db.RemovePipelineAndNodes(ctx, "inner", "dp")
						db.RemovePipelineAndNodes(ctx, "inner", "dp")
						db.RemovePipeline("inner", "dp")
						db.RegisterNode("after", mk(eventlogger.NodeTypeFilter))
					})
				}
				// a wrapper node with nothing inside (Unwrap returns nil), no Closer: there is nothing to close, and
				// the calls that would close it return
				{
					eb, _ := eventlogger.NewBroker()
					eb.RegisterNode("empty", &emptyWrap{eventlogger.NodeTypeFilter})
					eb.RegisterNode("empty2", &emptyWrap{eventlogger.NodeTypeFilter})
					eb.RegisterNode("efmt", mk(eventlogger.NodeTypeFormatter))
					eb.RegisterNode("esink", mk(eventlogger.NodeTypeSink))
					eb.RegisterPipeline(eventlogger.Pipeline{PipelineID: "ep", EventType: "inner", NodeIDs: []eventlogger.NodeID{"empty2", "efmt", "esink"}})
					ok = ok && watchdog("RemoveNode of a NodeUnwrapper whose Unwrap returns nil", oracle, func() { eb.RemoveNode(ctx, "empty") })
					ok = ok && watchdog("Send through a NodeUnwrapper whose Unwrap returns nil", oracle, func() { eb.Send(ctx, "inner", "x") })
					ok = ok && watchdog("Reopen with a NodeUnwrapper whose Unwrap returns nil", oracle, func() { eb.Reopen(ctx) })
					ok = ok && watchdog("RemovePipelineAndNodes closing a NodeUnwrapper whose Unwrap returns nil", oracle, func() { eb.RemovePipelineAndNodes(ctx, "inner", "ep") })
				}
				// a stock sink whose write(2) fails (its file is a symbolic link to /dev/full): the retry path of
				// FileSink.Process runs with the sink's own lock held; Send, a second Send and Reopen all return
				if _, serr := os.Stat("/dev/full"); serr == nil && *out != "" {
					fdir := filepath.Join(*out, fmt.Sprintf("full-%d-%v-%d", r, writers, pending))
					os.MkdirAll(fdir, 0o700)
					if os.Symlink("/dev/full", filepath.Join(fdir, "full.log")) == nil {
						fb, _ := eventlogger.NewBroker()
						fb.RegisterNode("jf", &eventlogger.JSONFormatter{})
						fb.RegisterNode("fs", &eventlogger.FileSink{Path: fdir, FileName: "full.log"})
						fb.RegisterPipeline(eventlogger.Pipeline{PipelineID: "pf", EventType: "full", NodeIDs: []eventlogger.NodeID{"jf", "fs"}})
						ok = ok && watchdog("Send to a FileSink whose write fails", oracle, func() { fb.Send(ctx, "full", "x") })
						ok = ok && watchdog("second Send to a FileSink whose write failed before", oracle, func() { fb.Send(ctx, "full", "y") })
						ok = ok && watchdog("Reopen after a failed FileSink write", oracle, func() { fb.Reopen(ctx) })
						ok = ok && watchdog("RemovePipelineAndNodes after a failed FileSink write", oracle, func() { fb.RemovePipelineAndNodes(ctx, "full", "pf") })
					}
					os.RemoveAll(fdir)
				}
				fresh, _ := eventlogger.NewBroker()
				ok = ok && watchdog("Reopen on a fresh broker, then RegisterNode", oracle, func() {
					fresh.Reopen(ctx)
					fresh.RegisterNode("n", mk(eventlogger.NodeTypeFilter))
				})
				st.Ops += 10 + pending
				st.hit(fmt.Sprintf("writers=%v pending=%d ok=%v", writers, pending, ok))
				if !ok {
					break
				}
			}
		}
	}
	o.close()
	st.Samples = append(st.Samples, "per case: gateable Sends (pending groups), Send(re-entrant Process), Reopen(re-entrant), RemovePipelineAndNodes(gated Close -> Send), RemovePipeline, RemoveNode(re-entrant Close), register/threshold calls; with and without 3 writer goroutines")
	st.write(*out)
	if len(st.Oracle) > 0 {
		fmt.Printf("ORACLE-FAILURES %d\n%s\n", len(st.Oracle), st.Oracle[0])
	}
	fmt.Printf("cases=%d ops=%d\n", st.Cases, st.Ops)
}
