package main

// Correspondence harness for M1 Registry: drives the real Broker with operation
// sequences, prints one canonical line per operation (compared with the Lean
// model's output by ./check) and evaluates the Go-side oracles of C01 (selection),
// C05, C06, C07, C20 and the threshold clause of C02 against a tiny spec state
// kept from the harness's own log of successful calls.

import (
	"context"
	"errors"
	"flag"
	"fmt"
	multierror "github.com/hashicorp/go-multierror"
	"sort"
	"strconv"
	"strings"
	"sync"
	"time"

	"github.com/hashicorp/eventlogger"
)

type recNode struct {
	inst             int
	ty               eventlogger.NodeType
	beh              string
	closeFails       bool
	slowClose        time.Duration // Close takes this long (race scenarios: widens the window after the broker released its lock)
	h                *regHarness
	closes           int
	reopens          int
	wrapped          bool // registered inside a wrapRec: the registered node is the wrapper
	decorated        bool // registered inside a wrapCloser: the registered node has a Close of its own
	inDecoratorClose bool
}

// wrapRec: a registered node that decorates another one and says so (NodeUnwrapper). It is no Closer:
// closing it closes the node inside. Its Reopen is its own business (it does not reopen the inner node).
type wrapRec struct{ inner *recNode }

func (w *wrapRec) Process(ctx context.Context, e *eventlogger.Event) (*eventlogger.Event, error) {
	return w.inner.Process(ctx, e)
}
func (w *wrapRec) Type() eventlogger.NodeType { return w.inner.ty }
func (w *wrapRec) Unwrap() eventlogger.Node   { return w.inner }
func (w *wrapRec) Reopen() error {
	n := w.inner
	n.h.mu.Lock()
	n.reopens++
	n.h.reopenCalls = append(n.h.reopenCalls, n.inst)
	fail := n.h.failInst != 0 && (n.h.failInst == n.inst || n.h.failInst2 == n.inst)
	if fail && n.h.failOnce {
		fail = !n.h.failedOnce
		n.h.failedOnce = true
	}
	n.h.mu.Unlock()
	if fail {
		return instErr{n.inst}
	}
	return nil
}

// wrapCloser: a decorator that is a Closer itself AND says what it decorates. The node registered under
// the id is the decorator: closing "the node" means calling ITS Close (which closes what it decorates).
type wrapCloser struct{ wrapRec }

func (w *wrapCloser) Close(ctx context.Context) error {
	n := w.inner
	n.h.mu.Lock()
	n.inDecoratorClose = true
	n.h.mu.Unlock()
	err := n.Close(ctx)
	n.h.mu.Lock()
	n.inDecoratorClose = false
	n.h.mu.Unlock()
	return err
}

// sameErr: identity of error values (pointers compare by address, comparable values by value)
func sameErr(a, b error) bool {
	defer func() { recover() }()
	return a == b
}

func b2i(b bool) int {
	if b {
		return 1
	}
	return 0
}

// maybeDone hands every third caller a context that is already cancelled
func (h *regHarness) maybeDone(ctx context.Context) context.Context {
	h.doneSeq++
	if h.doneSeq%3 != 0 {
		return ctx
	}
	c, cancel := context.WithCancel(ctx)
	cancel()
	return c
}

func asRec(n eventlogger.Node) *recNode {
	if w, ok := n.(*wrapRec); ok {
		return w.inner
	}
	if w, ok := n.(*wrapCloser); ok {
		return w.inner
	}
	return n.(*recNode)
}

type marker struct{ inst int }

var errNode = errors.New("node error")

type instErr struct{ inst int }

func (e instErr) Error() string { return fmt.Sprintf("inst %d failed", e.inst) }

func (n *recNode) Process(ctx context.Context, e *eventlogger.Event) (*eventlogger.Event, error) {
	m := 0
	if mk, ok := e.Payload.(marker); ok {
		m = mk.inst
	}
	n.h.mu.Lock()
	n.h.calls = append(n.h.calls, [2]int{n.inst, m})
	if m == 0 {
		// the first node of a traversal must get the sent type/payload, a creation time and an empty table
		if string(e.Type) != n.h.curType || e.Payload != n.h.curPayload || e.CreatedAt.IsZero() || e.Formatted == nil || len(e.Formatted) != 0 {
			n.h.oracle("C01 first-node event malformed: type=%q payload=%v created=%v formatted=%v", e.Type, e.Payload, e.CreatedAt, e.Formatted)
		}
	}
	n.h.mu.Unlock()
	switch n.beh {
	case "pass":
		return e, nil
	case "replace":
		return &eventlogger.Event{Type: e.Type, CreatedAt: e.CreatedAt, Formatted: map[string][]byte{}, Payload: marker{n.inst}}, nil
	case "drop":
		return nil, nil
	case "errev": // an error together with a non-nil event
		return e, n.fail()
	default:
		return nil, n.fail()
	}
}

// fail: the error this node's Process returns: a plain one, a wrapped one, or a multierror with two
// members or with none (whatever it is, it is ONE error returned by ONE node: one warning, that very
// value)
func (n *recNode) fail() error {
	var err error
	switch n.inst % 4 {
	case 1:
		err = fmt.Errorf("wrapped: %w", instErr{n.inst})
	case 2:
		err = &multierror.Error{Errors: []error{instErr{n.inst}, errors.New("second member")}}
	case 3:
		err = &multierror.Error{ErrorFormat: func([]error) string { return fmt.Sprintf("inst %d failed (empty multierror)", n.inst) }}
	default:
		err = instErr{n.inst}
	}
	n.h.mu.Lock()
	n.h.returned = append(n.h.returned, retErr{n.inst, err})
	n.h.mu.Unlock()
	return err
}

type retErr struct {
	inst int
	err  error
}

func (n *recNode) Reopen() error {
	n.h.mu.Lock()
	if n.wrapped {
		n.h.oracle("C20 Reopen was called on the node inside a registered wrapper node (instance %d), not on the registered node itself", n.inst)
	}
	n.reopens++
	n.h.reopenCalls = append(n.h.reopenCalls, n.inst)
	fail := n.h.failInst != 0 && (n.h.failInst == n.inst || n.h.failInst2 == n.inst)
	if fail && n.h.failOnce {
		fail = !n.h.failedOnce
		n.h.failedOnce = true
	}
	n.h.mu.Unlock()
	if fail {
		return instErr{n.inst}
	}
	return nil
}
func (n *recNode) Type() eventlogger.NodeType { return n.ty }
func (n *recNode) Close(ctx context.Context) error {
	n.h.mu.Lock()
	n.closes++
	n.h.closed = append(n.h.closed, n.inst)
	if n.closes > 1 {
		n.h.oracle("C06 instance %d closed %d times", n.inst, n.closes)
	}
	if n.decorated && !n.inDecoratorClose {
		n.h.oracle("C06 instance %d is registered as a decorator with a Close of its own (a Closer that is also a NodeUnwrapper); the Broker did not close the registered node but went past it and closed the node it decorates", n.inst)
	}
	sib := n.h.rpanSiblings
	n.h.mu.Unlock()
	if n.slowClose > 0 {
		time.Sleep(n.slowClose)
	}
	// while RemovePipelineAndNodes closes the nodes it detached, the pipeline is gone and none of its
	// (otherwise unreferenced) nodes is "in use" any more: a RemoveNode from inside Close says "not found"
	for _, id := range sib {
		if err := n.h.b.RemoveNode(ctx, nid(id)); err != nil && strings.Contains(err.Error(), "still in use") {
			n.h.oracle("C06 during RemovePipelineAndNodes (from a node's Close) RemoveNode(%d) was refused as in use although no registered pipeline lists it any more", id)
		}
	}
	if n.closeFails {
		return instErr{n.inst}
	}
	return nil
}

// spec state: what the properties talk about, kept from the log of successful calls.
type specPipe struct {
	ids   []int
	insts []*recNode
	deny  bool
}
type specNode struct {
	n    *recNode
	deny bool
}

type regHarness struct {
	b           *eventlogger.Broker
	mu          sync.Mutex
	calls       [][2]int
	closed      []int
	reopenCalls []int
	failInst    int
	failInst2   int
	doneSeq     int
	failOnce    bool
	failedOnce  bool
	curType     string
	curPayload  interface{}
	returned    []retErr // the errors the nodes' Process calls returned during the current Send
	nextInst    int
	st          *stats
	caseOps     []string

	rpanSiblings []int // during rpan: the pipeline's node ids that no OTHER pipeline lists
	divergedBy   map[string]bool
	diverged     bool // an oracle failed in this case: the spec state may no longer match, skip to the next case

	nodes  map[int]*specNode
	pipes  map[[2]int]*specPipe
	graphs map[int]bool
	thr    map[int][2]int
}

func (h *regHarness) oracle(f string, a ...any) {
	msg := fmt.Sprintf(f, a...)
	// one message per property prefix and case: the case stops after the current operation, but the
	// other properties' oracles of that operation are still evaluated
	prefix := strings.SplitN(msg, " ", 2)[0]
	if h.divergedBy == nil {
		h.divergedBy = map[string]bool{}
	}
	if h.divergedBy[prefix] {
		return
	}
	h.divergedBy[prefix] = true
	h.diverged = true
	h.st.hit("oracle-failure")
	if len(h.st.Oracle) < 40 {
		h.st.Oracle = append(h.st.Oracle, msg+" || case: "+strings.Join(h.caseOps, " ; "))
	}
}

func (h *regHarness) reset() {
	h.b, _ = eventlogger.NewBroker()
	h.nextInst = 1
	h.nodes = map[int]*specNode{}
	h.pipes = map[[2]int]*specPipe{}
	h.graphs = map[int]bool{}
	h.thr = map[int][2]int{}
	h.caseOps = nil
	h.diverged = false
	h.doneSeq = 0
}

func nid(i int) eventlogger.NodeID {
	if i == 0 {
		return ""
	}
	return eventlogger.NodeID("n" + strconv.Itoa(i))
}
func pidS(i int) eventlogger.PipelineID {
	if i == 0 {
		return ""
	}
	return eventlogger.PipelineID("p" + strconv.Itoa(i))
}
func tyS(i int) eventlogger.EventType {
	if i == 0 {
		return ""
	}
	return eventlogger.EventType("t" + strconv.Itoa(i))
}
func parseName(s string) int {
	if s == "" {
		return 0
	}
	i, _ := strconv.Atoi(s[1:])
	return i
}

func polOpt(pol string, node bool) []eventlogger.Option {
	if pol == "dflt" {
		return nil
	}
	var out []eventlogger.Option
	for _, tok := range strings.Split(pol, "+") {
		if tok == "nil" {
			out = append(out, nil)
			continue
		}
		own := !strings.HasPrefix(tok, "x")
		var p eventlogger.RegistrationPolicy
		switch strings.TrimPrefix(tok, "x") {
		case "allow":
			p = eventlogger.AllowOverwrite
		case "deny":
			p = eventlogger.DenyOverwrite
		case "invalidc": // the right word in the wrong case is not a policy value
			p = eventlogger.RegistrationPolicy(strings.ToLower(string(eventlogger.DenyOverwrite)))
		case "invalidu":
			p = eventlogger.RegistrationPolicy(strings.ToUpper(string(eventlogger.AllowOverwrite)))
		case "invalide":
			p = ""
		case "invalids":
			p = eventlogger.DenyOverwrite + " "
		default:
			p = "Bogus"
		}
		if own == node {
			out = append(out, eventlogger.WithNodeRegistrationPolicy(p))
		} else {
			out = append(out, eventlogger.WithPipelineRegistrationPolicy(p))
		}
	}
	return out
}

// effPol: what an option list asks for, from the statement of C07: any invalid policy value makes
// the call invalid; otherwise the last policy given for the call's own kind counts.
func effPol(pol string) string {
	if pol == "dflt" {
		return "dflt"
	}
	eff := "dflt"
	for _, tok := range strings.Split(pol, "+") {
		switch {
		case strings.HasPrefix(strings.TrimPrefix(tok, "x"), "invalid"):
			return "invalid"
		case tok == "allow" || tok == "deny":
			eff = tok
		}
	}
	return eff
}

// classify maps the library's error texts to the model's small enum.
func classify(err error) string {
	if err == nil {
		return "ok"
	}
	s := err.Error()
	switch {
	case strings.Contains(s, "node ID cannot be empty") && (strings.Contains(s, "unable to register node") || strings.Contains(s, "unable to remove node")):
		return "E_EMPTY_ID"
	case strings.Contains(s, "registration policy"):
		return "E_BAD_POLICY"
	case strings.Contains(s, "configured policy prevents overwriting"):
		return "E_DENY"
	case errors.Is(err, eventlogger.ErrNodeNotFound):
		return "E_NOT_FOUND"
	case strings.Contains(s, "still in use"):
		return "E_IN_USE"
	case strings.Contains(s, "unable to close node"):
		return "E_CLOSE"
	case strings.Contains(s, "pipeline ID is required") || strings.Contains(s, "event type is required") || strings.Contains(s, "node IDs are required") || strings.Contains(s, "node ID cannot be empty"):
		return "E_INVALID"
	case strings.Contains(s, "not registered"):
		return "E_NOT_REGISTERED"
	case strings.Contains(s, "non-sink node has no children"):
		return "E_NO_CHILDREN"
	case strings.Contains(s, "sink node at root"):
		return "E_SINK_AT_ROOT"
	case strings.Contains(s, "sink node without preceding"):
		return "E_SINK_NO_FORMATTER"
	case strings.Contains(s, "event type cannot be empty"):
		return "E_EMPTY_TYPE"
	case strings.Contains(s, "pipeline ID cannot be empty"):
		return "E_EMPTY_PID"
	case strings.Contains(s, "no graph for EventType"):
		return "E_NO_GRAPH"
	case strings.Contains(s, "unable to retrieve all nodes"):
		return "E_NO_PIPELINE"
	case strings.Contains(s, "must be 0 or greater"):
		return "E_NEGATIVE"
	case strings.Contains(s, "enough 'filter' and 'sink' nodes"):
		return "E_THRESHOLD"
	case strings.Contains(s, "enough 'sink' nodes"):
		return "E_THRESHOLD_SINKS"
	}
	return "E_OTHER(" + s + ")"
}

func atoi(s string) int { i, _ := strconv.Atoi(s); return i }

// inUseSpec: the property's definition of "in use".
func (h *regHarness) listedBy(id int) int {
	c := 0
	for _, p := range h.pipes {
		for _, x := range p.ids {
			if x == id {
				c++
				break
			}
		}
	}
	return c
}

func (h *regHarness) dumpLine() string {
	nodes, graphs := h.b.VerifDump()
	var ns []string
	var ids []int
	byID := map[int]eventlogger.VerifNode{}
	for id, n := range nodes {
		i := parseName(string(id))
		ids = append(ids, i)
		byID[i] = n
	}
	sort.Ints(ids)
	for _, i := range ids {
		n := byID[i]
		ns = append(ns, fmt.Sprintf("%d/%d/%d/%s", i, asRec(n.Node).inst, n.ReferenceCount, bstr(n.Policy == eventlogger.DenyOverwrite)))
	}
	type pk struct{ t, p int }
	var pks []pk
	pm := map[pk]eventlogger.VerifPipeline{}
	var gs []string
	var gts []int
	for t := range graphs {
		gts = append(gts, parseName(string(t)))
	}
	sort.Ints(gts)
	for _, t := range gts {
		g := graphs[tyS(t)]
		gs = append(gs, fmt.Sprintf("%d/%d/%d", t, g.SuccessThreshold, g.SuccessThresholdSinks))
		for p, vp := range g.Pipelines {
			k := pk{t, parseName(string(p))}
			pks = append(pks, k)
			pm[k] = vp
		}
	}
	sort.Slice(pks, func(i, j int) bool { return pks[i].t < pks[j].t || (pks[i].t == pks[j].t && pks[i].p < pks[j].p) })
	var ps []string
	for _, k := range pks {
		vp := pm[k]
		var xs []int
		for _, id := range vp.NodeIDs {
			xs = append(xs, parseName(string(id)))
		}
		ps = append(ps, fmt.Sprintf("%d/%d/%s/%s", k.t, k.p, showInts(xs), bstr(vp.Policy == eventlogger.DenyOverwrite)))
	}
	return "dump nodes=" + strings.Join(ns, ",") + " pipes=" + strings.Join(ps, ",") + " graphs=" + strings.Join(gs, ",")
}

// observable state the failed-call clause of C05 talks about (graphs residue excluded).
func (h *regHarness) observable() string {
	d := h.dumpLine()
	if i := strings.Index(d, " graphs="); i >= 0 {
		d = d[:i]
	}
	return d
}

// checkInvariants evaluates the history-independent oracles after every operation.
func (h *regHarness) checkInvariants() {
	nodes, graphs := h.b.VerifDump()
	// C06: in use <=> listed by a currently registered pipeline (spec pipes)
	for id, n := range nodes {
		i := parseName(string(id))
		want := h.listedBy(i)
		if (n.ReferenceCount > 0) != (want > 0) {
			h.oracle("C06 in-use mismatch: node %d refs=%d but listed by %d registered pipelines", i, n.ReferenceCount, want)
		}
	}
	// every listed node is registered
	for k, p := range h.pipes {
		for _, id := range p.ids {
			if _, ok := nodes[nid(id)]; !ok {
				h.oracle("C06 pipeline %v lists node %d which is no longer registered", k, id)
			}
		}
	}
	// spec nodes == registered nodes
	if len(nodes) != len(h.nodes) {
		h.oracle("C05 registered node set differs from spec: impl=%d spec=%d", len(nodes), len(h.nodes))
	}
	for i, sn := range h.nodes {
		n, ok := nodes[nid(i)]
		if !ok || asRec(n.Node) != sn.n {
			h.oracle("C07 node %d: registered instance differs from spec", i)
		}
	}
	// spec pipes == registered pipes, bound instances unchanged (C07 node rebinding)
	cnt := 0
	for t, g := range graphs {
		for p, vp := range g.Pipelines {
			cnt++
			sp, ok := h.pipes[[2]int{parseName(string(t)), parseName(string(p))}]
			if !ok {
				h.oracle("C05 pipeline %s/%s registered but not in spec", t, p)
				continue
			}
			if len(vp.Nodes) != len(sp.insts) {
				h.oracle("C01 pipeline %s/%s has %d linked nodes, spec %d", t, p, len(vp.Nodes), len(sp.insts))
				continue
			}
			for i := range vp.Nodes {
				if asRec(vp.Nodes[i]) != sp.insts[i] || parseName(string(vp.NodeIDs[i])) != sp.ids[i] {
					h.oracle("C01/C07 pipeline %s/%s node %d bound to a different instance/id than at registration", t, p, i)
				}
			}
		}
	}
	if cnt != len(h.pipes) {
		h.oracle("C05 registered pipeline count %d differs from spec %d", cnt, len(h.pipes))
	}
	// C05 isAny
	for t := 0; t <= 3; t++ {
		want := false
		for k := range h.pipes {
			if k[0] == t {
				want = true
			}
		}
		if got := h.b.IsAnyPipelineRegistered(tyS(t)); got != want {
			h.oracle("C05 IsAnyPipelineRegistered(%d)=%v want %v", t, got, want)
		}
	}
	// C02 thresholds read back as last set
	for t := 0; t <= 3; t++ {
		n, ok := h.b.SuccessThreshold(tyS(t))
		n2, ok2 := h.b.SuccessThresholdSinks(tyS(t))
		w := h.thr[t]
		if ok != h.graphs[t] || ok2 != h.graphs[t] || n != w[0] || n2 != w[1] {
			h.oracle("C02 thresholds of type %d read (%d,%v),(%d,%v); want %v graph=%v", t, n, ok, n2, ok2, w, h.graphs[t])
		}
	}
}

// specAccept: the acceptance rule of C05, from the statement.
func (h *regHarness) specAccept(ty, pid int, ids []int, pol string) bool {
	if pid == 0 || ty == 0 || len(ids) == 0 {
		return false
	}
	for _, id := range ids {
		if id == 0 {
			return false
		}
		if _, ok := h.nodes[id]; !ok {
			return false
		}
	}
	if len(ids) < 2 {
		return false
	}
	last := h.nodes[ids[len(ids)-1]].n.ty
	prev := h.nodes[ids[len(ids)-2]].n.ty
	if last != eventlogger.NodeTypeSink {
		return false
	}
	if prev != eventlogger.NodeTypeFormatter && prev != eventlogger.NodeTypeFormatterFilter {
		return false
	}
	if old, ok := h.pipes[[2]int{ty, pid}]; ok && old.deny {
		return false
	}
	return effPol(pol) != "invalid"
}

func (h *regHarness) exec(line string) string {
	f := strings.Fields(line)
	h.caseOps = append(h.caseOps, line)
	h.st.Ops++
	ctx := context.Background()
	switch f[0] {
	case "reset":
		h.reset()
		h.caseOps = []string{}
		return "reset"
	case "dump":
		return h.dumpLine()
	case "regnode":
		id, ty, beh, cf, pol := atoi(f[1]), atoi(f[2]), f[3], f[4] == "1", f[5]
		n := &recNode{inst: h.nextInst, ty: eventlogger.NodeType(ty), beh: beh, closeFails: cf, h: h}
		before := h.observable()
		var reg eventlogger.Node = n
		if h.nextInst%4 == 3 {
			// every fourth instance is registered inside a wrapper (decided by the history alone, so a replay agrees)
			n.wrapped = true
			reg = &wrapRec{inner: n}
		} else if h.nextInst%8 == 5 {
			n.decorated = true
			reg = &wrapCloser{wrapRec{inner: n}}
		}
		err := h.b.RegisterNode(nid(id), reg, polOpt(pol, true)...)
		r := classify(err)
		h.st.hit("regnode:" + r)
		// oracle C07/C05
		old, exists := h.nodes[id]
		want := id != 0 && effPol(pol) != "invalid" && !(exists && old.deny)
		if want != (err == nil) {
			h.oracle("C07 RegisterNode(%d,%s) returned %v, statement says success=%v", id, pol, err, want)
		}
		if err == nil {
			h.nextInst++
			h.nodes[id] = &specNode{n: n, deny: effPol(pol) == "deny"}
			return "ok"
		}
		if h.observable() != before {
			h.oracle("C05 failed RegisterNode changed observable state")
		}
		return "err " + r
	case "rmnode":
		id := atoi(f[1])
		before := h.observable()
		h.closed = nil
		// every third removal is asked for with a context that is already done (a caller shutting down): the
		// call does what it does all the same -- the node is closed and unregistered, or nothing changes
		err := h.b.RemoveNode(h.maybeDone(ctx), nid(id))
		r := classify(err)
		h.st.hit("rmnode:" + r)
		sn, exists := h.nodes[id]
		inUse := h.listedBy(id) > 0
		switch {
		case id == 0 || !exists || inUse:
			if err == nil {
				h.oracle("C06 RemoveNode(%d) succeeded; exists=%v inUse=%v", id, exists, inUse)
			}
			if len(h.closed) != 0 || h.observable() != before {
				h.oracle("C06 refused RemoveNode(%d) had side effects", id)
			}
			return "err " + r
		default:
			if len(h.closed) != 1 || h.closed[0] != sn.n.inst {
				h.oracle("C06 RemoveNode(%d) closed %v, want instance %d", id, h.closed, sn.n.inst)
			}
			if (err != nil) != sn.n.closeFails {
				h.oracle("C06 RemoveNode(%d) error=%v closeFails=%v", id, err, sn.n.closeFails)
			}
			delete(h.nodes, id)
			e := "ok"
			if err != nil {
				e = r
			}
			return fmt.Sprintf("closed %s %s", showInts(sortedInts(h.closed)), e)
		}
	case "regpipe":
		ty, pid, pol := atoi(f[1]), atoi(f[2]), f[3]
		var ids []int
		var nids []eventlogger.NodeID
		for _, x := range f[4:] {
			ids = append(ids, atoi(x))
			nids = append(nids, nid(atoi(x)))
		}
		before := h.observable()
		// the thresholds of every event type that has them (a failed call changes nothing of this)
		thrBefore := map[int][4]int{}
		for t := range h.graphs {
			n1, ok1 := h.b.SuccessThreshold(tyS(t))
			n2, ok2 := h.b.SuccessThresholdSinks(tyS(t))
			thrBefore[t] = [4]int{n1, b2i(ok1), n2, b2i(ok2)}
		}
		want := h.specAccept(ty, pid, ids, pol)
		err := h.b.RegisterPipeline(eventlogger.Pipeline{PipelineID: pidS(pid), EventType: tyS(ty), NodeIDs: nids}, polOpt(pol, false)...)
		r := classify(err)
		h.st.hit("regpipe:" + r)
		if want != (err == nil) {
			h.oracle("C05 RegisterPipeline(%d,%d,%v,%s) returned %v, statement says success=%v", ty, pid, ids, pol, err, want)
			// the overwrite policy's part of the rule (C07): refused by policy although nothing under this
			// (type, id) forbids it, or accepted over a pipeline registered with DenyOverwrite
			old, exists := h.pipes[[2]int{ty, pid}]
			switch {
			case r == "E_DENY" && !(exists && old.deny):
				h.oracle("C07 RegisterPipeline(%d,%d,%s) was refused by the overwrite policy, but no pipeline with DenyOverwrite is registered under this event type and id", ty, pid, pol)
			case err == nil && exists && old.deny:
				h.oracle("C07 RegisterPipeline(%d,%d,%s) overwrote a pipeline registered with DenyOverwrite", ty, pid, pol)
			}
		}
		if err == nil {
			sp := &specPipe{ids: ids, deny: effPol(pol) == "deny"}
			for _, id := range ids {
				sp.insts = append(sp.insts, h.nodes[id].n)
			}
			if _, ok := h.pipes[[2]int{ty, pid}]; ok {
				h.st.hit("regpipe:overwrite")
			}
			h.pipes[[2]int{ty, pid}] = sp
			h.graphs[ty] = true
			return "ok"
		}
		if h.observable() != before {
			h.oracle("C05 failed RegisterPipeline changed observable state")
		}
		for t, was := range thrBefore {
			n1, ok1 := h.b.SuccessThreshold(tyS(t))
			n2, ok2 := h.b.SuccessThresholdSinks(tyS(t))
			if now := [4]int{n1, b2i(ok1), n2, b2i(ok2)}; now != was && h.graphs[t] {
				h.oracle("C05 a failed RegisterPipeline(%d,%d,…) changed the success thresholds of event type %d from %v to %v (value, known, sinks value, known)", ty, pid, t, was, now)
			}
		}
		if r != "E_INVALID" && r != "E_BAD_POLICY" {
			h.graphs[ty] = true // residue: the graph exists from now on
		}
		return "err " + r
	case "rmpipe":
		ty, pid := atoi(f[1]), atoi(f[2])
		err := h.b.RemovePipeline(tyS(ty), pidS(pid))
		r := classify(err)
		h.st.hit("rmpipe:" + r)
		if err == nil {
			if _, ok := h.pipes[[2]int{ty, pid}]; ok {
				h.st.hit("rmpipe:existing")
			}
			delete(h.pipes, [2]int{ty, pid})
			return "ok"
		}
		return "err " + r
	case "rpan":
		ty, pid := atoi(f[1]), atoi(f[2])
		before := h.observable()
		h.closed = nil
		if spx, okx := h.pipes[[2]int{ty, pid}]; okx {
			var sibs []int
			seenS := map[int]bool{}
			for _, id := range spx.ids {
				if !seenS[id] && h.listedBy(id) == 1 {
					sibs = append(sibs, id)
				}
				seenS[id] = true
			}
			h.mu.Lock()
			h.rpanSiblings = sibs
			h.mu.Unlock()
		}
		ok, err := h.b.RemovePipelineAndNodes(h.maybeDone(ctx), tyS(ty), pidS(pid))
		h.mu.Lock()
		h.rpanSiblings = nil
		h.mu.Unlock()
		sp, exists := h.pipes[[2]int{ty, pid}]
		if ok != exists {
			h.oracle("C06 RemovePipelineAndNodes(%d,%d)=%v but pipeline registered=%v", ty, pid, ok, exists)
		}
		if !ok {
			r := classify(err)
			h.st.hit("rpan:" + r)
			if len(h.closed) != 0 || h.observable() != before {
				h.oracle("C05 RemovePipelineAndNodes reporting false had side effects")
			}
			return "err " + r
		}
		h.st.hit("rpan:true")
		delete(h.pipes, [2]int{ty, pid})
		// exactly the nodes no remaining pipeline lists are closed (once) and unregistered
		var wantClosed []int
		anyFail := false
		seen := map[int]bool{}
		if sp != nil {
			for _, id := range sp.ids {
				if seen[id] {
					continue
				}
				seen[id] = true
				if h.listedBy(id) == 0 {
					if sn, ok := h.nodes[id]; ok {
						wantClosed = append(wantClosed, sn.n.inst)
						anyFail = anyFail || sn.n.closeFails
						delete(h.nodes, id)
					}
				}
			}
		}
		if showInts(sortedInts(wantClosed)) != showInts(sortedInts(h.closed)) {
			h.oracle("C06 RemovePipelineAndNodes(%d,%d) closed %v want %v", ty, pid, sortedInts(h.closed), sortedInts(wantClosed))
		}
		if len(h.closed) > 0 {
			h.st.hit("rpan:closed-some")
		}
		if sp != nil && len(h.closed) < len(seen) {
			h.st.hit("rpan:kept-shared")
		}
		if (err != nil) != anyFail {
			h.oracle("C06 RemovePipelineAndNodes error=%v anyCloseFail=%v", err, anyFail)
		}
		return fmt.Sprintf("rpan true %s %s", showInts(sortedInts(h.closed)), bstr(err != nil))
	case "setthr", "setthrs":
		ty, n := atoi(f[1]), atoi(f[2])
		var err error
		if f[0] == "setthr" {
			err = h.b.SetSuccessThreshold(tyS(ty), n)
		} else {
			err = h.b.SetSuccessThresholdSinks(tyS(ty), n)
		}
		r := classify(err)
		h.st.hit(f[0] + ":" + r)
		if (err == nil) != (ty != 0 && n >= 0) {
			h.oracle("C02 %s(%d,%d) returned %v", f[0], ty, n, err)
		}
		if err == nil {
			w := h.thr[ty]
			if f[0] == "setthr" {
				w[0] = n
			} else {
				w[1] = n
			}
			h.thr[ty] = w
			h.graphs[ty] = true
			return "ok"
		}
		return "err " + r
	case "getthr":
		n, ok := h.b.SuccessThreshold(tyS(atoi(f[1])))
		return fmt.Sprintf("thr %d %s", n, bstr(ok))
	case "getthrs":
		n, ok := h.b.SuccessThresholdSinks(tyS(atoi(f[1])))
		return fmt.Sprintf("thr %d %s", n, bstr(ok))
	case "isany":
		return "bool " + bstr(h.b.IsAnyPipelineRegistered(tyS(atoi(f[1]))))
	case "send":
		ty := atoi(f[1])
		h.mu.Lock()
		h.calls = nil
		h.curType = string(tyS(ty))
		h.curPayload = fmt.Sprintf("payload-%d", h.st.Ops)
		if len(h.caseOps)%5 == 0 {
			// the payload is itself an Event of the type being sent (an event kept from an earlier Send, with a
			// line already in its format table): it is a payload like any other
			h.curPayload = &eventlogger.Event{Type: tyS(ty), CreatedAt: time.Unix(1, 0), Payload: "inner", Formatted: map[string][]byte{"json": []byte("{}\n")}}
		}
		h.returned = nil
		h.mu.Unlock()
		status, err := h.b.Send(ctx, tyS(ty), h.curPayload)
		if !h.graphs[ty] {
			if err == nil {
				h.oracle("C02 Send to type %d without graph returned nil", ty)
			}
			h.st.hit("send:E_NO_GRAPH")
			return "err " + classify(err)
		}
		h.mu.Lock()
		calls := append([][2]int(nil), h.calls...)
		h.mu.Unlock()
		// oracle C01/C02 from the spec pipes of this type
		var wantCalls [][2]int
		var wantComplete, wantSinks, wantWarn []int
		npipes := 0
		for k, sp := range h.pipes {
			if k[0] != ty {
				continue
			}
			npipes++
			m := 0
			for i, n := range sp.insts {
				wantCalls = append(wantCalls, [2]int{n.inst, m})
				stop := false
				switch n.beh {
				case "err", "errev":
					wantWarn = append(wantWarn, n.inst)
					stop = true
				case "drop":
					wantComplete = append(wantComplete, sp.ids[i])
					if n.ty == eventlogger.NodeTypeSink {
						wantSinks = append(wantSinks, sp.ids[i])
					}
					stop = true
				case "replace":
					m = n.inst
				}
				if stop {
					break
				}
				if i == len(sp.insts)-1 {
					wantComplete = append(wantComplete, sp.ids[i])
					if n.ty == eventlogger.NodeTypeSink {
						wantSinks = append(wantSinks, sp.ids[i])
					}
				}
			}
		}
		cs := func(xs [][2]int) string {
			ss := make([]string, len(xs))
			for i, x := range xs {
				ss[i] = fmt.Sprintf("%d/%d", x[0], x[1])
			}
			sort.Strings(ss)
			return "[" + strings.Join(ss, ",") + "]"
		}
		var gotComplete, gotSinks, gotWarn []int
		for _, c := range status.Complete() {
			gotComplete = append(gotComplete, parseName(string(c)))
		}
		for _, c := range status.CompleteSinks() {
			gotSinks = append(gotSinks, parseName(string(c)))
		}
		h.mu.Lock()
		returned := append([]retErr(nil), h.returned...)
		h.mu.Unlock()
		for _, w := range status.Warnings {
			// every warning is an error a node returned during this Send: that very value
			inst := -1
			for i, r := range returned {
				if r.err != nil && sameErr(r.err, w) {
					inst = r.inst
					returned[i].err = nil
					break
				}
			}
			if inst < 0 {
				h.oracle("C02 Send(%d): the warning %q is not an error that a node returned during this Send (returned: %d errors)", ty, w.Error(), len(h.returned))
			}
			gotWarn = append(gotWarn, inst)
		}
		if cs(calls) != cs(wantCalls) {
			h.oracle("C01 Send(%d) invoked %s, statement says %s", ty, cs(calls), cs(wantCalls))
		}
		if showInts(sortedInts(gotComplete)) != showInts(sortedInts(wantComplete)) || showInts(sortedInts(gotSinks)) != showInts(sortedInts(wantSinks)) || showInts(sortedInts(gotWarn)) != showInts(sortedInts(wantWarn)) {
			h.oracle("C02 Send(%d) status complete=%v sinks=%v warn=%v; want %v %v %v", ty, gotComplete, gotSinks, gotWarn, wantComplete, wantSinks, wantWarn)
		}
		if len(gotComplete)+len(gotWarn) != npipes {
			h.oracle("C02 completes+warnings=%d pipelines=%d", len(gotComplete)+len(gotWarn), npipes)
		}
		w := h.thr[ty]
		wantErr := len(gotComplete) < w[0] || len(gotSinks) < w[1]
		if wantErr != (err != nil) {
			h.oracle("C02 Send(%d) err=%v but completes=%d/%d sinks=%d/%d", ty, err, len(gotComplete), w[0], len(gotSinks), w[1])
		}
		r := classify(err)
		h.st.hit("send:" + r)
		h.st.hit(fmt.Sprintf("send:pipelines=%d", npipes))
		return fmt.Sprintf("sent %s calls=%s complete=%s sinks=%s warns=%s", r, cs(calls), showInts(sortedInts(gotComplete)), showInts(sortedInts(gotSinks)), showInts(sortedInts(gotWarn)))
	case "reopen":
		fail := atoi(f[1])
		h.mu.Lock()
		h.reopenCalls = nil
		h.failInst = fail
		// every third failure is transient: the node's Reopen fails once and would succeed if it were asked again
		h.failOnce = len(h.caseOps)%3 == 0
		h.failedOnce = false
		// every fourth failing Reopen a second node fails too (the next instance listed by some pipeline)
		h.failInst2 = 0
		failListed := false
		for _, sp := range h.pipes {
			for _, n := range sp.insts {
				failListed = failListed || n.inst == fail
			}
		}
		if fail != 0 && failListed && len(h.caseOps)%4 == 1 {
			for _, sp := range h.pipes {
				for _, n := range sp.insts {
					if n.inst != fail && (h.failInst2 == 0 || n.inst < h.failInst2) {
						h.failInst2 = n.inst
					}
				}
			}
			if h.failInst2 != 0 {
				h.failOnce = false
			}
		}
		h.mu.Unlock()
		rctx := ctx
		if len(h.caseOps)%2 == 0 {
			// every other Reopen is given a context that is already done: it reaches every node all the same
			c2, cancel := context.WithCancel(ctx)
			cancel()
			rctx = c2
		}
		err := h.b.Reopen(rctx)
		h.mu.Lock()
		calls := append([]int(nil), h.reopenCalls...)
		fail2 := h.failInst2
		h.failInst, h.failInst2 = 0, 0
		if fail2 != 0 && err != nil {
			// every failing node that was asked is in what Reopen returns
			for _, fi := range []int{fail, fail2} {
				asked := false
				for _, c := range calls {
					asked = asked || c == fi
				}
				if asked && !strings.Contains(err.Error(), instErr{fi}.Error()) {
					h.oracle("C20 Reopen with two failing nodes (instances %d and %d, both asked): the error %q does not carry the failure of instance %d", fail, fail2, err.Error(), fi)
				}
			}
		}
		h.mu.Unlock()
		// C20 oracle
		failing := false
		var want []int
		for _, sp := range h.pipes {
			for _, n := range sp.insts {
				want = append(want, n.inst)
				if fail != 0 && n.inst == fail {
					failing = true
				}
			}
		}
		if failing {
			h.st.hit("reopen:failing")
			var ie instErr
			if err == nil || !errors.As(err, &ie) || (ie.inst != fail && ie.inst != fail2) || (fail2 == 0 && ie.inst != fail) {
				h.oracle("C20 Reopen with failing instance %d (transient=%v) returned %v", fail, h.failOnce, err)
			}
			nFail, nListed := 0, 0
			for _, c := range calls {
				if c == fail {
					nFail++
				}
			}
			for _, w := range want {
				if w == fail {
					nListed++
				}
			}
			if nFail > nListed {
				h.oracle("C20 Reopen called the failing instance %d %d times, it is listed %d times", fail, nFail, nListed)
			}
			return "reopened failed"
		}
		h.st.hit("reopen:ok")
		if err != nil {
			h.oracle("C20 Reopen returned %v although no node fails", err)
		}
		if showInts(sortedInts(calls)) != showInts(sortedInts(want)) {
			h.oracle("C20 Reopen reached %v, want %v", sortedInts(calls), sortedInts(want))
		}
		return "reopened ok " + showInts(sortedInts(calls))
	}
	return "bad-op"
}

// ---- generators ----

var regBehs = []string{"pass", "pass", "replace", "drop", "err", "errev"}
var regPols = []string{"dflt", "dflt", "allow", "deny"}
var regPolToks = []string{"allow", "deny", "allow", "deny", "invalid", "xallow", "xdeny", "xinvalid", "nil", "invalidc", "invalidu", "invalide", "invalids", "xinvalidc"}

func genRegistryCase(p *prng, malformed bool, maxLen int) []string {
	ops := []string{"reset"}
	n := 3 + p.intn(maxLen)
	nIDs, nTy, nPid := 4, 2, 3
	if p.chance(1, 4) {
		nTy = 3
	}
	// a common prologue makes most cases reach registered pipelines
	if !malformed && p.chance(3, 4) {
		ops = append(ops, fmt.Sprintf("regnode 1 1 %s 0 dflt", pick(p, regBehs)))
		ops = append(ops, fmt.Sprintf("regnode 2 %d pass 0 dflt", 2+2*p.intn(2)))
		ops = append(ops, fmt.Sprintf("regnode 3 3 %s %d dflt", pick(p, []string{"drop", "drop", "pass", "err"}), p.intn(2)))
	}
	for i := 0; i < n; i++ {
		id := func() int {
			if malformed && p.chance(1, 6) {
				return 0
			}
			return 1 + p.intn(nIDs)
		}
		ty := func() int {
			if malformed && p.chance(1, 6) {
				return 0
			}
			return 1 + p.intn(nTy)
		}
		pid := func() int {
			if malformed && p.chance(1, 6) {
				return 0
			}
			return 1 + p.intn(nPid)
		}
		pol := func() string {
			if malformed && p.chance(1, 5) {
				return pick(p, []string{"invalid", "invalid", "invalidc", "invalidu", "invalide", "invalids"})
			}
			if p.chance(1, 7) {
				// several options in one call: each is applied in order
				n := 2 + p.intn(2)
				toks := make([]string, n)
				for i := range toks {
					toks[i] = pick(p, regPolToks)
				}
				return strings.Join(toks, "+")
			}
			return pick(p, regPols)
		}
		switch k := p.intn(100); {
		case k < 18:
			t := pick(p, []int{1, 2, 3, 3, 4})
			if p.chance(1, 9) || (malformed && p.chance(1, 4)) {
				t = pick(p, []int{0, 5, 9}) // a node whose Type() is none of the four known ones
			}
			ops = append(ops, fmt.Sprintf("regnode %d %d %s %d %s", id(), t, pick(p, regBehs), p.intn(2), pol()))
		case k < 26:
			ops = append(ops, fmt.Sprintf("rmnode %d", id()))
		case k < 50:
			l := 2 + p.intn(3)
			if malformed || p.chance(1, 8) {
				l = p.intn(6)
			}
			var ids []string
			if !malformed && p.chance(2, 3) {
				// well-formed shape: filters..., formatter, sink
				for j := 0; j < l-2; j++ {
					ids = append(ids, strconv.Itoa(pick(p, []int{1, 1, 4, 2})))
				}
				ids = append(ids, "2", "3")
			} else {
				for j := 0; j < l; j++ {
					ids = append(ids, strconv.Itoa(id()))
				}
			}
			ops = append(ops, strings.TrimSpace(fmt.Sprintf("regpipe %d %d %s %s", ty(), pid(), pol(), strings.Join(ids, " "))))
		case k < 57:
			ops = append(ops, fmt.Sprintf("rmpipe %d %d", ty(), pid()))
		case k < 67:
			ops = append(ops, fmt.Sprintf("rpan %d %d", ty(), pid()))
		case k < 72:
			v := p.intn(4)
			if malformed && p.chance(1, 3) {
				v = -1 - p.intn(3)
			}
			ops = append(ops, fmt.Sprintf("%s %d %d", pick(p, []string{"setthr", "setthrs"}), ty(), v))
		case k < 75:
			ops = append(ops, fmt.Sprintf("%s %d", pick(p, []string{"getthr", "getthrs", "isany"}), ty()))
		case k < 90:
			ops = append(ops, fmt.Sprintf("send %d", ty()))
		case k < 96:
			f := 0
			if p.chance(1, 2) {
				f = 1 + p.intn(6)
			}
			ops = append(ops, fmt.Sprintf("reopen %d", f))
		default:
			ops = append(ops, "dump")
		}
	}
	ops = append(ops, "dump")
	return ops
}

// exhaustive enumeration of all sequences of length depth over a reduced alphabet
func registryAlphabet() []string {
	return []string{
		"regnode 1 1 pass 0 dflt",
		"regnode 1 1 pass 0 deny",
		"regnode 2 2 pass 0 dflt",
		"regnode 3 3 drop 0 dflt",
		"regpipe 1 1 dflt 1 2 3",
		"regpipe 1 1 deny 2 3",
		"regpipe 1 2 dflt 1 1 2 3",
		"regpipe 2 1 dflt 2 3",
		"rmpipe 1 1",
		"rpan 1 1",
		"rpan 1 2",
		"rmnode 1",
		"rmnode 3",
	}
}

// policyProbe: policy sequences per id on a scratch broker in which an id is also re-registered with
// the SAME node instance (an application registering its nodes again, "sealing" them with a second,
// DenyOverwrite registration, or retrying): the rule is about ids and policies, not about which
// object is passed.  Oracle from the statement of C07 only (no model): a registration succeeds iff its
// policy values are valid and the id is not held under DenyOverwrite; the policy of the last
// successful registration applies from there on; a removal lifts it.
func (h *regHarness) policyProbe(p *prng) {
	b, _ := eventlogger.NewBroker()
	type held struct {
		n    *recNode
		deny bool
	}
	cur := map[int]*held{}
	var hist []string
	inst := 1000000
	for step := 0; step < 4+p.intn(10); step++ {
		id := 1 + p.intn(2)
		switch k := p.intn(10); {
		case k < 8:
			pol := pick(p, []string{"dflt", "allow", "deny", "deny", "invalid", "invalidc"})
			var n *recNode
			same := cur[id] != nil && p.chance(1, 2)
			if same {
				n = cur[id].n
			} else {
				inst++
				n = &recNode{inst: inst, ty: eventlogger.NodeTypeFilter, beh: "pass", h: h}
			}
			hist = append(hist, fmt.Sprintf("RegisterNode(%d, same-instance=%v, %s)", id, same, pol))
			err := b.RegisterNode(nid(id), n, polOpt(pol, true)...)
			want := effPol(pol) != "invalid" && !(cur[id] != nil && cur[id].deny)
			if want != (err == nil) {
				h.oracle("C07 %s returned %v, the statement says success=%v (history: %s)", hist[len(hist)-1], err, want, strings.Join(hist, "; "))
				return
			}
			if err == nil {
				cur[id] = &held{n, effPol(pol) == "deny"}
			}
		default:
			hist = append(hist, fmt.Sprintf("RemoveNode(%d)", id))
			err := b.RemoveNode(context.Background(), nid(id))
			if (err == nil) != (cur[id] != nil) {
				h.oracle("C07 %s returned %v although registered=%v (history: %s)", hist[len(hist)-1], err, cur[id] != nil, strings.Join(hist, "; "))
				return
			}
			delete(cur, id)
		}
	}
	h.st.hit("policy-probe")
}

func registryMain(args []string) {
	fs := flag.NewFlagSet("registry", flag.ExitOnError)
	seed := fs.Uint64("seed", 1, "seed")
	n := fs.Int("n", 2000, "random cases")
	depth := fs.Int("depth", 0, "exhaustive depth over the reduced alphabet (0: off)")
	out := fs.String("out", "", "output dir")
	opsFile := fs.String("ops", "", "run this ops file instead of generating")
	corpus := fs.String("corpus", "", "corpus dir whose *.ops run first")
	fs.Parse(args)
	st := newStats()
	h := &regHarness{st: st}
	h.reset()
	o := openOut(*out)
	start := time.Now()
	seen := map[string]bool{}
	runCase := func(ops []string, kind string) {
		st.Cases++
		st.hit("case:" + kind)
		nontrivial := false
		h.diverged = false
		h.divergedBy = nil
		for _, op := range ops {
			// after a divergence the case goes on (against the specification state, which says what
			// should have happened): a later operation may show the damage under another property's
			// name -- a rejected call that silently removed a pipeline shows at the next Send.  The
			// harness's own bookkeeping may no longer fit the broker then: a panic ends the case.
			res, crashed := func() (r string, c bool) {
				defer func() {
					if x := recover(); x != nil && h.diverged {
						r, c = "harness-stopped", true
					} else if x != nil {
						panic(x)
					}
				}()
				r = h.exec(op)
				return r, false
			}()
			o.emit(op, res)
			if crashed {
				break
			}
			if op != "reset" && op != "dump" {
				func() {
					defer func() {
						if x := recover(); x != nil && !h.diverged {
							panic(x)
						} else if x != nil {
							crashed = true
						}
					}()
					h.checkInvariants()
				}()
			}
			if crashed {
				break
			}
			if res == "ok" && (strings.HasPrefix(op, "regpipe") || strings.HasPrefix(op, "rpan")) || strings.HasPrefix(res, "rpan true") {
				nontrivial = true
			}
		}
		key := strings.Join(ops, ";")
		if nontrivial && !seen[key] {
			seen[key] = true
			st.Distinct++
			if len(st.Samples) < 5 {
				st.Samples = append(st.Samples, key)
			}
		}
	}
	if *opsFile != "" {
		runCase(readLines(*opsFile), "replay")
	} else {
		if *corpus != "" {
			for _, f := range globOps(*corpus) {
				runCase(readLines(f), "corpus")
			}
		}
		if *depth > 0 {
			alpha := registryAlphabet()
			idx := make([]int, *depth)
			for {
				ops := []string{"reset"}
				for _, i := range idx {
					ops = append(ops, alpha[i])
				}
				ops = append(ops, "send 1", "reopen 0", "dump")
				runCase(ops, "exhaustive")
				k := *depth - 1
				for k >= 0 {
					idx[k]++
					if idx[k] < len(alpha) {
						break
					}
					idx[k] = 0
					k--
				}
				if k < 0 {
					break
				}
			}
			st.Extra["exhaustive_depth"] = *depth
			st.Extra["alphabet"] = alpha
		}
		p := newPrng(*seed)
		for i := 0; i < *n; i++ {
			mal := i%5 == 4
			kind := "structured"
			if mal {
				kind = "malformed"
			}
			maxLen := 12
			if i%7 == 0 {
				maxLen = 60
			}
			runCase(genRegistryCase(p, mal, maxLen), kind)
			if i%4 == 0 {
				h.policyProbe(p)
			}
		}
	}
	o.close()
	st.Extra["wall_s"] = time.Since(start).Seconds()
	st.write(*out)
	if len(st.Oracle) > 0 {
		fmt.Printf("ORACLE-FAILURES %d\n", len(st.Oracle))
		for i, m := range st.Oracle {
			if i < 5 {
				fmt.Println(m)
			}
		}
	}
	fmt.Printf("cases=%d ops=%d distinct_nontrivial=%d\n", st.Cases, st.Ops, st.Distinct)
}
