package main

import (
	"context"
	"encoding/json"
	"errors"
	"fmt"
	"github.com/mitchellh/copystructure"
	"google.golang.org/protobuf/types/known/wrapperspb"
	"reflect"
	"sort"
	"strconv"
	"strings"
	"time"

	"github.com/hashicorp/eventlogger"
	"github.com/hashicorp/eventlogger/filters/encrypt"
	wrapping "github.com/hashicorp/go-kms-wrapping/v2"
)

type dLeaf struct {
	Pub     string `class:"public"`
	Sens    string `class:"sensitive"`
	Sec     string `class:"secret"`
	None    string
	SecB    []byte   `class:"secret"`
	Strs    []string `class:"secret"`
	PubStrs []string `class:"public"`
	Bss     [][]byte `class:"sensitive,redact"`
	N       int
	hidden  string
}

type dNest struct {
	L  dLeaf
	P  *dLeaf
	S  []dLeaf
	SP []*dLeaf
	M  map[string]interface{}
	MS map[string]string
	MB map[string][]byte
	PM *map[string]interface{}
	TP map[string]*string // typed maps of pointers to strings / []byte
	TQ map[string]*[]byte
	SS [][]dLeaf  // structs reached through a slice of slices
	SQ [][]*dLeaf // ... of pointers
	N  int
}

// wrapper-value (wrapperspb) fields, directly, by value, and as values of typed and untyped maps
type dWrap struct {
	S  *wrapperspb.StringValue `class:"secret"`
	B  *wrapperspb.BytesValue  `class:"sensitive"`
	P  *wrapperspb.StringValue `class:"public"`
	U  *wrapperspb.StringValue
	Z  *wrapperspb.StringValue `class:"secret"` // nil
	SV wrapperspb.StringValue  `class:"secret"`
	M  map[string]interface{}
	TM map[string]*wrapperspb.StringValue
	TB map[string]*wrapperspb.BytesValue
	N  int
}

// interface-typed fields holding their value directly (string, []byte, struct) or through a pointer
type dIface struct {
	S  interface{} `class:"secret"`
	B  interface{} `class:"sensitive"`
	P  interface{} `class:"public"`
	U  interface{}
	T  interface{}
	PT interface{}
	L  interface{} `class:"secret"`
	N  int
}

// slices of interfaces (JSON-like data) and slices of slices of strings
type dSl struct {
	L  []interface{} `class:"secret"`
	LS []interface{} `class:"sensitive"`
	LP []interface{} `class:"public"`
	LU []interface{}
	SS [][]string `class:"secret"`
	SP [][]string `class:"public"`
	M  map[string]interface{}
	N  int
}

// pointers to pointers (the filter follows a pointer field twice)
type dPP struct {
	PS **string `class:"sensitive"`
	PB **[]byte `class:"secret"`
	PT **dLeaf
	PP **string `class:"public"`
	N  int
}

// Taggable shapes: the tags of the value under test are set per case
var curTags []encrypt.PointerTag

type tagMap map[string]interface{}

func (t tagMap) Tags() ([]encrypt.PointerTag, error) { return curTags, nil }

// a struct with a Taggable map field next to ordinary tagged fields
type dTagHolder struct {
	Attrs tagMap
	L     dLeaf
	N     int
}

// copyProbe: a type with a copier registered with copystructure; the copier is called while
// encrypt.Filter.Process deep-copies the event, i.e. in the middle of Process
type copyProbe struct{ N int }

type dProbe struct {
	P copyProbe
	L dLeaf
	N int
}

var (
	copyProbeEvent *eventlogger.Event // the event Process is working on
	copyProbeFail  bool
	copyProbeSaw   string
)

func init() {
	copystructure.Copiers[reflect.TypeOf(copyProbe{})] = func(v interface{}) (interface{}, error) {
		if e := copyProbeEvent; e != nil {
			if b, ok := e.Format("pre"); !ok || string(b) != "abc" {
				copyProbeSaw = fmt.Sprintf("while Process was copying the event, the event it was given had no %q entry in its format table (found=%v %q): Process took it away", "pre", ok, b)
			}
		}
		if copyProbeFail {
			return nil, errors.New("copier failed")
		}
		return v, nil
	}
}

type dPubSS struct {
	PP [][]*dLeaf                 `class:"public"`
	PV [][]dLeaf                  `class:"public"`
	PM [][]map[string]interface{} `class:"public"`
	SS [][]string                 `class:"public"`
	N  int
}

// a Taggable struct whose tag list is empty, and a struct that holds one before a Taggable map holder
type dNoTags struct {
	Name   string `class:"public"`
	Secret string `class:"secret"`
}

func (*dNoTags) Tags() ([]encrypt.PointerTag, error) { return nil, nil }

type dTagSibling struct {
	A *dNoTags
	H dTagHolder
	N int
}

// mkTagMap builds a map whose keys carry canaries, and a tag list over present and absent keys in a
// random order: keys tagged public keep their value, everything else must not survive
func mkTagMap(c *canary, p *prng) (tagMap, []encrypt.PointerTag) {
	m := tagMap{}
	var tags []encrypt.PointerTag
	ops := []encrypt.FilterOperation{"", encrypt.RedactOperation, encrypt.EncryptOperation, encrypt.HmacSha256Operation}
	nk := 2 + p.intn(4)
	for i := 0; i < nk; i++ {
		k := fmt.Sprintf("k%d", i)
		switch p.intn(5) {
		case 0: // public
			m[k] = c.pub()
			tags = append(tags, encrypt.PointerTag{Pointer: "/" + k, Classification: encrypt.PublicClassification})
		case 1:
			m[k] = c.prot()
			tags = append(tags, encrypt.PointerTag{Pointer: "/" + k, Classification: encrypt.SensitiveClassification, Filter: ops[p.intn(4)]})
		case 2:
			m[k] = c.prot()
			tags = append(tags, encrypt.PointerTag{Pointer: "/" + k, Classification: encrypt.SecretClassification, Filter: ops[p.intn(4)]})
		case 3:
			// a classification that is none of public / sensitive / secret (misspelt, mixed case, empty,
			// "unknown"): the value is not classified public, so it must not survive
			m[k] = c.prot()
			if p.chance(1, 3) { // (rarely: such a tag makes Process fail as a whole)
				cls := []encrypt.DataClassification{"Secret", "SENSITIVE", "top-secret", "unknown", "", "Public"}[p.intn(6)]
				tags = append(tags, encrypt.PointerTag{Pointer: "/" + k, Classification: cls, Filter: ops[p.intn(4)]})
			}
		default: // untagged key of a Taggable map
			m[k] = c.prot()
		}
	}
	// optional attributes this value lacks
	for i := p.intn(3); i > 0; i-- {
		tags = append(tags, encrypt.PointerTag{Pointer: fmt.Sprintf("/absent%d", i), Classification: encrypt.SecretClassification})
	}
	if p.chance(1, 2) {
		m["nested"] = map[string]interface{}{"in": c.prot(), "other": c.prot()}
		tags = append(tags, encrypt.PointerTag{Pointer: "/nested/in", Classification: encrypt.SensitiveClassification})
	}
	if p.chance(1, 2) {
		m["list"] = []interface{}{map[string]interface{}{"name": c.prot(), "other": c.prot()}}
		tags = append(tags, encrypt.PointerTag{Pointer: "/list/0/name", Classification: encrypt.SensitiveClassification})
		if p.chance(1, 6) {
			// a bad tag pointer: an index past the end of the list (not "this key is absent"): Process fails
			tags = append(tags, encrypt.PointerTag{Pointer: pick(p, []string{"/list/1/name", "/list/7", "/list/x/name"}), Classification: encrypt.SecretClassification})
		}
	}
	if p.chance(1, 3) {
		// a tagged value held through a pointer: filtered in place, still a pointer
		pv := c.prot()
		m["pv"] = &pv
		tags = append(tags, encrypt.PointerTag{Pointer: "/pv", Classification: encrypt.SensitiveClassification, Filter: ops[p.intn(4)]})
	}
	// pointer tags to values two or more containers below the Taggable: through maps, a pointer to a
	// map, a slice inside a nested map, a struct holding a map
	deepVal := func() (string, encrypt.PointerTag) {
		switch p.intn(3) {
		case 0:
			return c.pub(), encrypt.PointerTag{Classification: encrypt.PublicClassification}
		case 1:
			return c.prot(), encrypt.PointerTag{Classification: encrypt.SensitiveClassification, Filter: ops[p.intn(4)]}
		}
		return c.prot(), encrypt.PointerTag{Classification: encrypt.SecretClassification, Filter: ops[p.intn(4)]}
	}
	if p.chance(1, 3) {
		v, t := deepVal()
		m["deep"] = map[string]interface{}{"a": map[string]interface{}{"b": v, "o": c.prot()}, "o": c.prot()}
		t.Pointer = "/deep/a/b"
		tags = append(tags, t)
	}
	if p.chance(1, 3) {
		// four and five containers down
		v, t := deepVal()
		v2, t2 := deepVal()
		m["d4"] = map[string]interface{}{"a": map[string]interface{}{"b": map[string]interface{}{"c": v, "o": c.prot(),
			"d": map[string]interface{}{"e": v2, "o": c.prot()}}, "o": c.prot()}}
		t.Pointer, t2.Pointer = "/d4/a/b/c", "/d4/a/b/d/e"
		tags = append(tags, t, t2)
	}
	if p.chance(1, 4) {
		v, t := deepVal()
		pm := map[string]interface{}{"c": v, "o": c.prot()}
		m["pm"] = &pm
		t.Pointer = "/pm/c"
		tags = append(tags, t)
	}
	if p.chance(1, 4) {
		v, t := deepVal()
		m["nl"] = map[string]interface{}{"l": []interface{}{map[string]interface{}{"c": v, "o": c.prot()}}}
		t.Pointer = "/nl/l/0/c"
		tags = append(tags, t)
	}
	if p.chance(1, 4) {
		v, t := deepVal()
		m["st"] = &dMapHolder{M: map[string]interface{}{"c": v, "o": c.prot()}, N: 1}
		t.Pointer = "/st/M/c"
		tags = append(tags, t)
	}
	for i := len(tags) - 1; i > 0; i-- {
		j := p.intn(i + 1)
		tags[i], tags[j] = tags[j], tags[i]
	}
	return m, tags
}

// a struct holding an (untagged) map, reached from a Taggable map through a pointer
type dMapHolder struct {
	M map[string]interface{}
	N int
}

// a type listed in Filter.IgnoreTypes (as a pointer type), reached directly, as a map value and behind an
// interface-typed field
type dMask struct {
	Owner string
	Raw   []byte
}

type dIgn struct {
	Direct *dMask
	M      map[string]interface{}
	Any    interface{}
	L      dLeaf
}

// flakyWrapper fails its n-th Encrypt call (a transient KMS failure)
type flakyWrapper struct {
	wrapping.Wrapper
	failAt, calls int
	failed        bool
}

func (f *flakyWrapper) Encrypt(ctx context.Context, pt []byte, opt ...wrapping.Option) (*wrapping.BlobInfo, error) {
	f.calls++
	if f.calls == f.failAt {
		f.failed = true
		return nil, errors.New("kms unavailable")
	}
	return f.Wrapper.Encrypt(ctx, pt, opt...)
}

type canary struct{ n int }

func (c *canary) prot() string { c.n++; return fmt.Sprintf("CANARY-prot-%d", c.n) }
func (c *canary) pub() string  { c.n++; return fmt.Sprintf("CANARY-pub-%d", c.n) }

func mkLeaf(c *canary, p *prng) dLeaf {
	l := dLeaf{Pub: c.pub(), Sens: c.prot(), Sec: c.prot(), None: c.prot(), SecB: []byte(c.prot()), N: 7, hidden: "h"}
	for i := p.intn(3); i > 0; i-- {
		l.Strs = append(l.Strs, c.prot())
		l.PubStrs = append(l.PubStrs, c.pub())
		l.Bss = append(l.Bss, []byte(c.prot()))
	}
	return l
}

func mkMap(c *canary, p *prng, depth int, structValues bool) map[string]interface{} {
	m := map[string]interface{}{"s": c.prot(), "b": []byte(c.prot()), "n": 3, "strs": []string{c.prot(), c.prot()}}
	if p.chance(1, 2) {
		// pointers to a string / []byte / slice of strings as map values
		ps, pb, pl := c.prot(), []byte(c.prot()), []string{c.prot()}
		m["pstr"], m["pbytes"], m["pstrs"] = &ps, &pb, &pl
	}
	if depth > 0 {
		m["m"] = mkMap(c, p, depth-1, structValues)
		m["ms"] = map[string]string{"k": c.prot()}
		l := mkLeaf(c, p)
		m["ps"] = &l
		m["slm"] = []interface{}{map[string]interface{}{"x": c.prot()}}
		if structValues {
			m["sv"] = mkLeaf(c, p) // a struct held by value in the map
		}
	}
	return m
}

// collect gathers every string / []byte reachable in v, and a shape signature
func collect(v reflect.Value, sb *strings.Builder, shape *strings.Builder) {
	if !v.IsValid() {
		shape.WriteString("nil;")
		return
	}
	switch v.Kind() {
	case reflect.Ptr, reflect.Interface:
		if v.IsNil() {
			shape.WriteString("nil;")
			return
		}
		shape.WriteString("*")
		collect(v.Elem(), sb, shape)
	case reflect.String:
		sb.WriteString(v.String() + "\x00")
		shape.WriteString("S;")
	case reflect.Slice:
		if v.Type().Elem().Kind() == reflect.Uint8 {
			sb.WriteString(string(v.Bytes()) + "\x00")
			if v.IsNil() {
				shape.WriteString("Bnil;")
			} else {
				shape.WriteString("B;")
			}
			return
		}
		shape.WriteString(fmt.Sprintf("[%d:", v.Len()))
		for i := 0; i < v.Len(); i++ {
			collect(v.Index(i), sb, shape)
		}
		shape.WriteString("]")
	case reflect.Map:
		keys := v.MapKeys()
		sort.Slice(keys, func(i, j int) bool { return keys[i].String() < keys[j].String() })
		shape.WriteString("{")
		for _, k := range keys {
			shape.WriteString(k.String() + "=")
			collect(v.MapIndex(k), sb, shape)
		}
		shape.WriteString("}")
	case reflect.Struct:
		shape.WriteString(v.Type().Name() + "(")
		for i := 0; i < v.NumField(); i++ {
			if v.Type().Field(i).PkgPath != "" {
				continue
			}
			collect(v.Field(i), sb, shape)
		}
		shape.WriteString(")")
	default:
		shape.WriteString(fmt.Sprintf("%v;", v.Interface()))
	}
}

func deepShapes(p *prng, n int, st *stats, oracle func(string, ...any)) {
	ctx := context.Background()
	f := &encrypt.Filter{Wrapper: testWrapper(1), HmacSalt: []byte("s"), HmacInfo: []byte("i")}
	reported := map[string]bool{}
	var reuseE *eventlogger.Event
	var typeBefore reflect.Type
	for i := 0; i < n; i++ {
		st.Cases++
		st.Ops++
		c := &canary{}
		var payload interface{}
		kind := ""
		curTags = nil
		f.IgnoreTypes = nil
		switch p.intn(33) {
		case 0:
			l := mkLeaf(c, p)
			payload, kind = &l, "ptr-struct"
		case 1:
			l := mkLeaf(c, p)
			lp := mkLeaf(c, p)
			ms := map[string]string{"a": c.prot()}
			pm := mkMap(c, p, 1, false)
			nst := &dNest{L: l, P: &lp, S: []dLeaf{mkLeaf(c, p), mkLeaf(c, p)}, SP: []*dLeaf{&lp}, M: mkMap(c, p, 2, false), MS: ms, MB: map[string][]byte{"k": []byte(c.prot())}, PM: &pm, N: 1}
			if p.chance(1, 2) {
				tp, tq := c.prot(), []byte(c.prot())
				nst.TP, nst.TQ = map[string]*string{"a": &tp}, map[string]*[]byte{"a": &tq}
			}
			payload, kind = nst, "ptr-nested"
		case 2:
			payload, kind = []dLeaf{mkLeaf(c, p), mkLeaf(c, p)}, "slice-struct"
		case 3:
			a, b := mkLeaf(c, p), mkLeaf(c, p)
			payload, kind = []*dLeaf{&a, &b}, "slice-ptr-struct"
		case 4:
			s := c.prot()
			payload, kind = &s, "ptr-string"
		case 5:
			payload, kind = []string{c.prot(), c.prot()}, "slice-string"
		case 6:
			payload, kind = [][]byte{[]byte(c.prot())}, "slice-bytes"
		case 7:
			payload, kind = mkMap(c, p, 2, false), "bare-map"
		case 8:
			m := mkMap(c, p, 1, false)
			payload, kind = &m, "ptr-map"
		case 9:
			payload, kind = mkLeaf(c, p), "struct-value"
		case 10:
			nst := &dNest{M: mkMap(c, p, 1, true), N: 1}
			payload, kind = nst, "map-with-struct-values"
		case 11:
			a := mkLeaf(c, p)
			payload, kind = []*dLeaf{&a, nil}, "slice-ptr-struct-with-nil"
		case 12:
			nst := &dNest{SP: []*dLeaf{nil}, N: 1}
			payload, kind = nst, "nested-slice-with-nil-ptr"
		case 13:
			a := mkLeaf(c, p)
			nst := &dNest{N: 1, SS: [][]dLeaf{{mkLeaf(c, p)}, {}, {mkLeaf(c, p), mkLeaf(c, p)}}, SQ: [][]*dLeaf{{&a, nil}}}
			payload, kind = nst, "nested-slice-of-slices"
		case 14:
			a := mkLeaf(c, p)
			payload, kind = [][]*dLeaf{{&a}, nil, {nil}}, "slice-of-slices"
		case 15:
			nst := &dNest{N: 1, M: map[string]interface{}{"ss": [][]dLeaf{{mkLeaf(c, p)}}, "sm": [][]map[string]interface{}{{{"k": c.prot()}}}}}
			payload, kind = nst, "map-with-slice-of-slices"
		case 16:
			m, tags := mkTagMap(c, p)
			curTags = tags
			payload, kind = m, "taggable-map"
		case 17:
			m, tags := mkTagMap(c, p)
			curTags = tags
			payload, kind = &dTagHolder{Attrs: m, L: mkLeaf(c, p), N: 1}, "taggable-map-field"
		case 19:
			// values of an ignored type: whatever the filter does with them, it does it to its private copy
			f.IgnoreTypes = []reflect.Type{reflect.TypeOf(&dMask{})}
			payload, kind = &dIgn{Direct: &dMask{Owner: c.pub(), Raw: []byte(c.pub())}, M: map[string]interface{}{"mask": &dMask{Owner: "mask-owner", Raw: []byte("mask-raw")}, "s": c.prot()},
				Any: &dMask{Owner: "any-owner", Raw: []byte("any-raw")}, L: mkLeaf(c, p)}, "ignored-types"
		case 18:
			m, tags := mkTagMap(c, p)
			curTags = tags
			payload, kind = []*dTagHolder{{Attrs: m, L: mkLeaf(c, p)}}, "slice-with-taggable-map-field"
		case 22:
			w := &dWrap{S: wrapperspb.String(c.prot()), B: wrapperspb.Bytes([]byte(c.prot())), P: wrapperspb.String(c.pub()), U: wrapperspb.String(c.prot()), N: 1}
			w.SV.Value = c.prot()
			if p.chance(1, 2) {
				w.M = map[string]interface{}{"ws": wrapperspb.String(c.prot()), "wb": wrapperspb.Bytes([]byte(c.prot()))}
			}
			if p.chance(1, 2) {
				w.TM = map[string]*wrapperspb.StringValue{"a": wrapperspb.String(c.prot()), "b": wrapperspb.String(c.prot())}
			}
			if p.chance(1, 2) {
				w.TB = map[string]*wrapperspb.BytesValue{"a": wrapperspb.Bytes([]byte(c.prot()))}
			}
			payload, kind = w, "wrapper-values"
		case 23:
			l := mkLeaf(c, p)
			payload, kind = &dIface{S: c.prot(), B: []byte(c.prot()), P: c.pub(), U: c.prot(), T: mkLeaf(c, p), PT: &l, L: []string{c.prot()}, N: 1}, "interface-held-values"
		case 24:
			l := mkLeaf(c, p)
			mixed := func() []interface{} {
				return []interface{}{c.prot(), mkLeaf(c, p), &l, map[string]interface{}{"k": c.prot()}, []byte(c.prot()), nil, 7, []string{c.prot()}}
			}
			payload, kind = &dSl{L: mixed(), LS: []interface{}{c.prot(), []byte(c.prot())}, LP: []interface{}{c.pub(), 3}, LU: mixed(),
				SS: [][]string{{c.prot(), c.prot()}, nil, {}}, SP: [][]string{{c.pub()}},
				M: map[string]interface{}{"tags": []interface{}{c.prot(), c.prot()}, "rows": []interface{}{[]interface{}{c.prot(), mkLeaf(c, p)}}}, N: 1}, "slices-of-interfaces"
		case 26:
			ps, pb, pp := c.prot(), []byte(c.prot()), c.pub()
			l := mkLeaf(c, p)
			psp, pbp, plp, ppp := &ps, &pb, &l, &pp
			payload, kind = &dPP{PS: &psp, PB: &pbp, PT: &plp, PP: &ppp, N: 1}, "pointers-to-pointers"
		case 32:
			// slices of slices under a public tag: the tag speaks for strings held directly; structs and maps
			// further down carry their own tags (or none)
			a, b2 := mkLeaf(c, p), mkLeaf(c, p)
			payload, kind = &dPubSS{PP: [][]*dLeaf{{&a}, nil, {&b2, nil}}, PV: [][]dLeaf{{mkLeaf(c, p)}},
				PM: [][]map[string]interface{}{{{"k": c.prot()}}}, SS: [][]string{{c.pub()}}, N: 1}, "public-slices-of-slices"
		case 31:
			// the payload is a pointer to a Taggable map
			m, tags := mkTagMap(c, p)
			curTags = tags
			payload, kind = &m, "pointer-to-taggable-map"
		case 30:
			// the payload is a pointer to a map
			pm := map[string]interface{}{"s": c.prot(), "n": 1, "in": map[string]interface{}{"k": c.prot()}}
			payload, kind = &pm, "pointer-to-map"
		case 29:
			// a value of a type with a registered copier (copystructure's extension point): the copier runs in
			// the middle of Process and looks at the event Process was given; one in three fails
			copyProbeFail = p.chance(1, 3)
			payload, kind = &dProbe{P: copyProbe{N: 1}, L: mkLeaf(c, p), N: 1}, "copy-probe"
		case 28:
			// a Taggable struct (one that names no pointers) next to a struct holding a Taggable map: what the
			// filter does for the first must not change what it does for its siblings
			m, tags := mkTagMap(c, p)
			curTags = tags
			payload, kind = &dTagSibling{A: &dNoTags{Name: c.pub(), Secret: c.prot()}, H: dTagHolder{Attrs: m, L: mkLeaf(c, p), N: 1}, N: 1}, "taggable-struct-sibling"
		case 27:
			// the payload itself is a string or bytes, held by value (nothing to set: refused) or by pointer
			// (filtered in place of the copy), or a slice of them
			ps, pb := c.prot(), []byte(c.prot())
			switch p.intn(6) {
			case 0:
				payload = ps
			case 1:
				payload = pb
			case 2:
				payload = &ps
			case 3:
				payload = &pb
			case 4:
				payload = []string{c.prot(), c.prot()}
			default:
				payload = [][]byte{[]byte(c.prot()), nil, []byte(c.prot())}
			}
			kind = "bare-values"
		case 25:
			l := mkLeaf(c, p)
			payload, kind = []interface{}{c.prot(), mkLeaf(c, p), &l, map[string]interface{}{"k": c.prot(), "l": []interface{}{c.prot()}}, nil}, "payload-slice-of-interfaces"
		case 21:
			// zero payloads of every kind: forwarded unchanged, with their dynamic type
			switch p.intn(7) {
			case 0:
				payload = (*dLeaf)(nil)
			case 1:
				payload = map[string]interface{}(nil)
			case 2:
				payload = []dLeaf(nil)
			case 3:
				payload = dLeaf{}
			case 4:
				payload = ""
			case 5:
				payload = (*dNest)(nil)
			default:
				payload = tagMap(nil)
			}
			kind = "zero-payload"
		default:
			nst := &dNest{N: 1, MS: map[string]string{"k": c.prot()}}
			payload, kind = nst, "ptr-nested-sparse"
		}
		st.hit("deep:" + kind)
		// a quarter of the cases run with a wrapper whose n-th Encrypt fails, and with the sensitive
		// elements of slices encrypted, so that a failure can fall on any element of a slice
		var fw *flakyWrapper
		f.Wrapper = testWrapper(1)
		f.FilterOperationOverrides = nil
		if p.chance(1, 4) {
			fw = &flakyWrapper{Wrapper: testWrapper(1), failAt: 1 + p.intn(6)}
			f.Wrapper = fw
			f.FilterOperationOverrides = map[encrypt.DataClassification]encrypt.FilterOperation{encrypt.SecretClassification: encrypt.EncryptOperation}
			st.hit("deep:flaky-wrapper")
		}
		var inS, inShape strings.Builder
		collect(reflect.ValueOf(payload), &inS, &inShape)
		before, _ := json.Marshal(payload)
		// the event reaches the filter already formatted (a formatter before it, another pipeline)
		e := &eventlogger.Event{Type: "t", CreatedAt: time.Unix(1700000000, 12345), Payload: payload, Formatted: map[string][]byte{"pre": []byte("abc"), "empty": {}, "nilv": nil}}
		if reuseE != nil && p.chance(1, 3) {
			// the caller re-uses its Event value for the next payload: what is forwarded belongs to what the
			// event holds now
			reuseE.Payload, reuseE.Formatted = payload, e.Formatted
			e = reuseE
			st.hit("deep:event-value-reused")
		}
		reuseE = e
		got, err := func() (g *eventlogger.Event, er error) {
			defer func() {
				if r := recover(); r != nil {
					er = fmt.Errorf("PANIC: %v", r)
				}
			}()
			typeBefore = reflect.TypeOf(e.Payload)
			copyProbeEvent, copyProbeSaw = e, ""
			defer func() { copyProbeEvent = nil }()
			return f.Process(ctx, e)
		}()
		after, _ := json.Marshal(payload)
		once := func(prop, key, msg string) {
			if !reported[prop+key] {
				reported[prop+key] = true
				oracle("%s [%s] %s", prop, key, msg)
			}
		}
		if string(before) != string(after) {
			once("C10", kind, "Process modified the payload it was given")
		}
		if copyProbeSaw != "" {
			once("C10", kind, copyProbeSaw)
		}
		if reflect.TypeOf(e.Payload) != typeBefore {
			once("C10", kind, fmt.Sprintf("the event Process was given held a %v before the call and holds a %v after it: Process wrote to the event it was given", typeBefore, reflect.TypeOf(e.Payload)))
		}
		// whatever the outcome (success, error, a failing copier): the event Process was given still has its table
		if b, ok := e.Format("pre"); !ok || string(b) != "abc" || len(e.Formatted) != 3 {
			once("C10", kind, fmt.Sprintf("after Process returned (err=%v) the event it was given has lost (part of) its format table: %d entries, pre=%q", err, len(e.Formatted), b))
		}
		for _, t := range curTags {
			if (t.Pointer == "/list/1/name" || t.Pointer == "/list/7" || t.Pointer == "/list/x/name") && err == nil {
				once("C09", kind+"/badptr", fmt.Sprintf("the tag pointer %s does not resolve (index past the end of the list / not an index): a bad tag pointer, yet Process returned no error and forwarded the event", t.Pointer))
			}
		}
		if fw != nil && fw.failed && err == nil {
			once("C09", kind+"/flaky", fmt.Sprintf("the wrapper failed on Encrypt call %d but Process returned no error: not failing closed", fw.failAt))
		}
		if err != nil {
			if strings.HasPrefix(err.Error(), "PANIC") {
				once("C09", kind, "Process panicked instead of returning an error: "+err.Error())
			}
			st.hit("deep:error:" + kind)
			continue
		}
		if got == nil {
			once("C09", kind, "nothing forwarded and no error")
			continue
		}
		if got != e {
			// the envelope of the forwarded event is the input's: type, creation time, format table (entry for
			// entry, empty entries staying empty and nil ones nil)
			if got.Type != e.Type || !got.CreatedAt.Equal(e.CreatedAt) || !reflect.DeepEqual(got.Formatted, e.Formatted) {
				once("C10", kind+"/envelope", fmt.Sprintf("the forwarded event's type / creation time / format table differ from the input's: %q %v %#v", got.Type, got.CreatedAt, got.Formatted))
			}
			// the forwarded event is a private copy: what later nodes do to it does not reach the input event
			got.FormattedAs("probe", []byte("x"))
			if b, ok := got.Format("pre"); ok && len(b) > 0 {
				b[0] = 'X'
			}
			_, hasProbe := e.Formatted["probe"]
			if hasProbe || string(e.Formatted["pre"]) != "abc" {
				once("C10", kind, "the forwarded event shares its format table (or the bytes in it) with the event it was given")
			}
		}
		var outS, outShape strings.Builder
		collect(reflect.ValueOf(got.Payload), &outS, &outShape)
		if strings.Contains(outS.String(), "CANARY-prot-") {
			i := strings.Index(outS.String(), "CANARY-prot-")
			once("C09", kind, "protected plaintext survives in the forwarded event: "+strings.SplitN(outS.String()[i:], "\x00", 2)[0])
		}
		for _, s := range strings.Split(inS.String(), "\x00") {
			if strings.HasPrefix(s, "CANARY-pub-") && !strings.Contains(outS.String(), s+"\x00") {
				once("C10", kind, "a public value was not preserved")
			}
		}
		// Taggable maps: every tagged value comes out as its tag dictates (the operation given, else the
		// classification's default), also for pointers into a nested map
		if curTags != nil && fw == nil {
			var om tagMap
			switch v := got.Payload.(type) {
			case tagMap:
				om = v
			case *dTagHolder:
				om = v.Attrs
			case []*dTagHolder:
				om = v[0].Attrs
			case *dTagSibling:
				om = v.H.Attrs
			case *tagMap:
				if v != nil {
					om = *v
				}
			}
			for _, t := range curTags {
				cur := reflect.ValueOf(map[string]interface{}(om))
				okPath := true
				for _, seg := range strings.Split(strings.TrimPrefix(t.Pointer, "/"), "/") {
					for cur.IsValid() && (cur.Kind() == reflect.Interface || cur.Kind() == reflect.Ptr) {
						cur = cur.Elem()
					}
					if !cur.IsValid() {
						okPath = false
						break
					}
					switch cur.Kind() {
					case reflect.Slice:
						ix, cerr := strconv.Atoi(seg)
						if cerr != nil || ix >= cur.Len() {
							okPath = false
						} else {
							cur = cur.Index(ix)
						}
					case reflect.Map:
						cur = cur.MapIndex(reflect.ValueOf(seg))
						okPath = cur.IsValid()
					case reflect.Struct:
						cur = cur.FieldByName(seg)
						okPath = cur.IsValid()
					default:
						okPath = false
					}
					if !okPath {
						break
					}
				}
				for okPath && cur.IsValid() && cur.Kind() == reflect.Interface {
					cur = cur.Elem()
				}
				var curI interface{}
				if okPath && cur.IsValid() && cur.CanInterface() {
					curI = cur.Interface()
				}
				sv, isS := curI.(string)
				if !okPath || !isS {
					continue
				}
				opn := t.Filter
				if opn == "" {
					opn = map[encrypt.DataClassification]encrypt.FilterOperation{encrypt.SensitiveClassification: encrypt.EncryptOperation, encrypt.SecretClassification: encrypt.RedactOperation}[t.Classification]
				}
				want := map[encrypt.FilterOperation]string{encrypt.RedactOperation: "[REDACTED]", encrypt.EncryptOperation: "encrypted:", encrypt.HmacSha256Operation: "hmac-sha256:"}[opn]
				if t.Classification != encrypt.PublicClassification && want != "" && !strings.HasPrefix(sv, want) {
					once("C09", kind+"/op", fmt.Sprintf("the value tagged %s (%s,%q) came out as %.24q, its tag dictates %q", t.Pointer, t.Classification, t.Filter, sv, want))
				}
			}
		}
		if inShape.String() != outShape.String() {
			once("C10", kind, "shape not preserved")
		}
		if reflect.TypeOf(got.Payload) != reflect.TypeOf(payload) {
			once("C10", kind, fmt.Sprintf("dynamic type changed: %T came out as %T", payload, got.Payload))
		}
		if kind == "zero-payload" && !reflect.DeepEqual(got.Payload, payload) {
			once("C10", kind, fmt.Sprintf("a zero payload (%T) was not forwarded unchanged", payload))
		}
		st.Distinct++
	}
}
