package main

import (
	"os"
)

func main() {
	if len(os.Args) < 2 {
		fatalf("usage: evh <model> [flags]")
	}
	switch os.Args[1] {
	case "registry":
		registryMain(os.Args[2:])
	case "encrypt":
		encryptMain(os.Args[2:])
	case "enctree":
		enctreeMain(os.Args[2:])
	case "enctag":
		enctagMain(os.Args[2:])
	case "ce":
		ceMain(os.Args[2:])
	case "json":
		jsonMain(os.Args[2:])
	case "sinks":
		sinksMain(os.Args[2:])
	case "filesink":
		filesinkMain(os.Args[2:])
	case "filesink-child":
		fsChildMain(os.Args[2:])
	case "filesink-child-fsize":
		fsChildFsizeMain(os.Args[2:])
	case "reentry":
		reentryMain(os.Args[2:])
	case "race":
		raceMain(os.Args[2:])
	case "dispatch":
		dispatchMain(os.Args[2:])
	case "gated":
		gatedMain(os.Args[2:])
	default:
		fatalf("unknown model %q", os.Args[1])
	}
}
