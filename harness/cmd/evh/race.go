package main

// Concurrency harness (built with -race by ./check): exercises the real library from many
// goroutines.  It never stands in for a theorem: it validates the lock-set tables against the code
// (the race detector sees what the extractor might miss) and searches for a failing schedule when a
// proof obligation or correspondence broke.  Scenarios:
//   window   C04/C07: Sends racing with RegisterPipeline overwrites / removals (marker nodes)
//   registry C04/C06: random registry histories from several goroutines + senders, invariants at quiescence
//   stock    C19/C13: pipelines composed from the stock nodes, shared nodes, concurrent Reopen / Rotate
//   gated    C11/C17: concurrent gateable events + FlushAll with a slow ComposeFrom, exactly-once oracle

import (
	"bufio"
	"bytes"
	"context"
	"encoding/json"
	"errors"
	"flag"
	"fmt"
	"net/url"
	"os"
	"path/filepath"
	"runtime"
	"strings"
	"sync"
	"sync/atomic"
	"time"

	"github.com/hashicorp/eventlogger"
	"github.com/hashicorp/eventlogger/filters/encrypt"
	"github.com/hashicorp/eventlogger/filters/gated"
	"github.com/hashicorp/eventlogger/formatter_filters/cloudevents"
	"github.com/hashicorp/eventlogger/sinks/channel"
	"github.com/hashicorp/eventlogger/sinks/writer"
	wrapping "github.com/hashicorp/go-kms-wrapping/v2"
	"github.com/hashicorp/go-kms-wrapping/v2/aead"
)

type raceH struct {
	st *stats
	mu sync.Mutex
}

func (h *raceH) oracle(f string, a ...any) {
	h.mu.Lock()
	defer h.mu.Unlock()
	h.st.hit("oracle-failure")
	if len(h.st.Oracle) < 40 {
		h.st.Oracle = append(h.st.Oracle, fmt.Sprintf(f, a...))
	}
}

// ---- window: overwrite / removal racing with Send ----

type countPayload struct {
	hits [3]int32
	slow time.Duration // how long the slow root takes for this event
}

type markNode struct{ ver int }

func (m *markNode) Process(ctx context.Context, e *eventlogger.Event) (*eventlogger.Event, error) {
	if p, ok := e.Payload.(*countPayload); ok {
		atomic.AddInt32(&p.hits[m.ver], 1)
	}
	return nil, nil // filters the event: the traversal ends successfully here
}
func (m *markNode) Reopen() error              { return nil }
func (m *markNode) Type() eventlogger.NodeType { return eventlogger.NodeTypeFilter }

// slowMark: a root node that takes a while, so that a Send's walk over the pipelines of the type
// overlaps registrations and removals
type slowMark struct {
	d time.Duration
	n int64
}

func (m *slowMark) Process(ctx context.Context, e *eventlogger.Event) (*eventlogger.Event, error) {
	// the event says how long its walk stays in this root: walks started in one order need not end in it
	k := atomic.AddInt64(&m.n, 1)
	d := m.d/3 + time.Duration(k*7919%40)*time.Microsecond
	if p, ok := e.Payload.(*countPayload); ok && p.slow > 0 {
		d = p.slow
	}
	time.Sleep(d)
	if p, ok := e.Payload.(*countPayload); ok {
		atomic.AddInt32(&p.hits[0], 1)
	}
	return nil, nil
}
func (m *slowMark) Reopen() error              { return nil }
func (m *slowMark) Type() eventlogger.NodeType { return eventlogger.NodeTypeFilter }

type nopSink struct{}

func (nopSink) Process(ctx context.Context, e *eventlogger.Event) (*eventlogger.Event, error) {
	return nil, nil
}
func (nopSink) Reopen() error              { return nil }
func (nopSink) Type() eventlogger.NodeType { return eventlogger.NodeTypeSink }

func raceWindow(h *raceH, p *prng, rounds int) {
	b, _ := eventlogger.NewBroker()
	must := func(err error) {
		if err != nil {
			panic(err)
		}
	}
	must(b.RegisterNode("v1", &markNode{1}))
	must(b.RegisterNode("v2", &markNode{2}))
	must(b.RegisterNode("fmt", &eventlogger.JSONFormatter{}))
	must(b.RegisterNode("sink", nopSink{}))
	// a long pipeline: whatever an overwriting registration does between taking the old version out and
	// putting the new one in takes a while
	var pads []eventlogger.NodeID
	for k := 0; k < 48; k++ {
		id := eventlogger.NodeID(fmt.Sprintf("pad%d", k))
		must(b.RegisterNode(id, &eventlogger.Filter{Predicate: func(*eventlogger.Event) (bool, error) { return true, nil }}))
		pads = append(pads, id)
	}
	pl := func(v string) eventlogger.Pipeline {
		ids := append([]eventlogger.NodeID{eventlogger.NodeID(v)}, pads...)
		return eventlogger.Pipeline{PipelineID: "p", EventType: "t", NodeIDs: append(ids, "fmt", "sink")}
	}
	must(b.RegisterPipeline(pl("v1")))
	must(b.SetSuccessThreshold("t", 1))
	var stop int32
	var wg sync.WaitGroup
	var sends int64
	for g := 0; g < 6; g++ {
		wg.Add(1)
		go func() {
			defer wg.Done()
			for atomic.LoadInt32(&stop) == 0 {
				cp := &countPayload{}
				_, err := b.Send(context.Background(), "t", cp)
				atomic.AddInt64(&sends, 1)
				n := cp.hits[1] + cp.hits[2]
				if n != 1 || err != nil {
					h.oracle("C07 while pipeline p was overwritten a Send was processed by %d versions (v1=%d v2=%d), err=%v: never both and never neither", n, cp.hits[1], cp.hits[2], err)
					h.oracle("C04 a Send overlapping an overwriting registration of pipeline p (registered all along, never removed) was delivered %d times, err=%v: no sequential order of the calls explains that", n, err)
					return
				}
			}
		}()
	}
	for i := 0; i < rounds*8; i++ {
		v := "v2"
		if i%2 == 1 {
			v = "v1"
		}
		must(b.RegisterPipeline(pl(v)))
		// only the new version once the overwriting call has returned
		cp := &countPayload{}
		b.Send(context.Background(), "t", cp)
		want := 2
		if v == "v1" {
			want = 1
		}
		if cp.hits[want] != 1 || cp.hits[3-want] != 0 {
			h.oracle("C07 a Send started after the overwrite returned was processed by v1=%d v2=%d, new version is v%d", cp.hits[1], cp.hits[2], want)
			break
		}
	}
	atomic.StoreInt32(&stop, 1)
	wg.Wait()
	h.st.hit("window:overwrite-rounds")
	h.st.Ops += int(sends)
	// refused overwrites: a pipeline registered with DenyOverwrite, registrations of its id that are refused
	// again and again, and Sends meanwhile: a refused call has no effect, at no moment
	{
		rb, _ := eventlogger.NewBroker()
		must(rb.RegisterNode("v1", &markNode{1}))
		must(rb.RegisterNode("v2", &markNode{2}))
		must(rb.RegisterNode("fmt", &eventlogger.JSONFormatter{}))
		must(rb.RegisterNode("sink", nopSink{}))
		must(rb.RegisterPipeline(eventlogger.Pipeline{PipelineID: "d", EventType: "w", NodeIDs: []eventlogger.NodeID{"v1", "fmt", "sink"}},
			eventlogger.WithPipelineRegistrationPolicy(eventlogger.DenyOverwrite)))
		var stop2 int32
		var wg3 sync.WaitGroup
		var sends2 int64
		for g := 0; g < 8; g++ {
			wg3.Add(1)
			go func() {
				defer wg3.Done()
				for atomic.LoadInt32(&stop2) == 0 {
					cp := &countPayload{}
					rb.Send(context.Background(), "w", cp)
					atomic.AddInt64(&sends2, 1)
					if cp.hits[1] != 1 || cp.hits[2] != 0 {
						h.oracle("C04 while registrations of pipeline d were being REFUSED (it is registered with DenyOverwrite and never removed) a Send was delivered %d times to it and %d times to the refused definition: a refused call had an effect, no sequential order of the calls explains that", cp.hits[1], cp.hits[2])
						h.oracle("C07 a Send was processed by the definition a DenyOverwrite pipeline refused (v1=%d v2=%d)", cp.hits[1], cp.hits[2])
						return
					}
				}
			}()
		}
		for i := 0; i < rounds*8 && atomic.LoadInt32(&stop2) == 0; i++ {
			if err := rb.RegisterPipeline(eventlogger.Pipeline{PipelineID: "d", EventType: "w", NodeIDs: []eventlogger.NodeID{"v2", "fmt", "sink"}}); err == nil {
				h.oracle("C07 a registration of a DenyOverwrite pipeline's id was accepted")
				break
			}
		}
		atomic.StoreInt32(&stop2, 1)
		wg3.Wait()
		h.st.hit("window:refused-overwrite-rounds")
		h.st.Ops += int(sends2)
	}
	// registration / removal windows (C04); a second pipeline of the type with a slow root keeps every
	// Send's walk over the type's pipelines going for a while
	must(b.RegisterNode("slow", &slowMark{d: 60 * time.Microsecond}))
	must(b.RegisterPipeline(eventlogger.Pipeline{PipelineID: "s", EventType: "u", NodeIDs: []eventlogger.NodeID{"slow", "fmt", "sink"}}))
	for i := 0; i < rounds/4+1; i++ {
		var wg2 sync.WaitGroup
		wg2.Add(1)
		go func() { // Sends overlapping the registration and the removal: zero or one delivery each
			defer wg2.Done()
			for k := 0; k < 6; k++ {
				c := &countPayload{slow: time.Duration(150+k*130) * time.Microsecond}
				b.Send(context.Background(), "u", c)
				if c.hits[1] > 1 || c.hits[0] != 1 {
					h.oracle("C04 overlapping Send delivered %d times to q and %d times to the pipeline that was registered all along", c.hits[1], c.hits[0])
				}
			}
		}()
		must(b.RegisterPipeline(eventlogger.Pipeline{PipelineID: "q", EventType: "u", NodeIDs: []eventlogger.NodeID{"v1", "fmt", "sink"}}))
		cp := &countPayload{}
		b.Send(context.Background(), "u", cp)
		if cp.hits[1] != 1 {
			h.oracle("C04 a Send after RegisterPipeline returned delivered %d times", cp.hits[1])
		}
		must(b.RemovePipeline("u", "q"))
		cp = &countPayload{}
		b.Send(context.Background(), "u", cp)
		if cp.hits[1] != 0 {
			h.oracle("C04 a Send after RemovePipeline returned still delivered %d times", cp.hits[1])
		}
		wg2.Wait()
		// ... and once the overlapping senders are done, too (nothing they saw may stick)
		cp = &countPayload{}
		b.Send(context.Background(), "u", cp)
		if cp.hits[1] != 0 || cp.hits[0] != 1 {
			h.oracle("C04 at quiescence after RemovePipeline a Send delivered %d times to the removed pipeline and %d times to the remaining one", cp.hits[1], cp.hits[0])
		}
	}
}

// ---- registry: concurrent histories ----

func raceRegistry(h *raceH, p *prng, rounds int) {
	for r := 0; r < rounds; r++ {
		rh := &regHarness{st: newStats()}
		rh.reset()
		b := rh.b
		var wg sync.WaitGroup
		nG := 2 + p.intn(6)
		seeds := make([]uint64, nG)
		for i := range seeds {
			seeds[i] = p.next()
		}
		for g := 0; g < nG; g++ {
			wg.Add(1)
			go func(g int) {
				defer wg.Done()
				q := newPrng(seeds[g])
				ctx := context.Background()
				for i := 0; i < 40; i++ {
					id := nid(1 + q.intn(4))
					ty := tyS(1 + q.intn(2))
					pid := pidS(1 + q.intn(3))
					switch q.intn(11) {
					case 0, 1:
						t := []eventlogger.NodeType{1, 2, 3, 3, 4}[q.intn(5)]
						n := &recNode{inst: int(q.next() % 100000), ty: t, beh: "pass", h: rh}
						if q.intn(2) == 0 { // a node whose Close takes a while: calls overlap a removal that already released the lock
							n.slowClose = time.Duration(200+q.intn(1500)) * time.Microsecond
						}
						b.RegisterNode(id, n)
					case 2:
						b.RemoveNode(ctx, id)
					case 3, 4:
						b.RegisterPipeline(eventlogger.Pipeline{PipelineID: pid, EventType: ty, NodeIDs: []eventlogger.NodeID{nid(1 + q.intn(4)), nid(1 + q.intn(4)), nid(1 + q.intn(4))}})
					case 5:
						b.RemovePipeline(ty, pid)
					case 6:
						b.RemovePipelineAndNodes(ctx, ty, pid)
					case 7:
						b.SetSuccessThreshold(ty, q.intn(3))
						b.SuccessThresholdSinks(ty)
					case 8:
						b.IsAnyPipelineRegistered(ty)
						b.Reopen(ctx)
					default:
						rh.mu.Lock()
						rh.curType = string(ty)
						rh.curPayload = nil
						rh.mu.Unlock()
						b.Send(ctx, ty, nil)
					}
				}
			}(g)
		}
		wg.Wait()
		// quiescence: the registry is as if the calls had run in some sequential order, in particular
		// the in-use accounting matches the registered pipelines
		nodes, graphs := b.VerifDump()
		listed := map[eventlogger.NodeID]int{}
		for _, g := range graphs {
			for _, pl := range g.Pipelines {
				seen := map[eventlogger.NodeID]bool{}
				for _, id := range pl.NodeIDs {
					if !seen[id] {
						seen[id] = true
						listed[id]++
					}
				}
			}
		}
		for id, n := range nodes {
			if n.ReferenceCount != listed[id] {
				h.oracle("C04 at quiescence node %s has reference count %d but %d registered pipelines list it (no sequential order explains this)", id, n.ReferenceCount, listed[id])
			}
		}
		for id := range listed {
			if _, ok := nodes[id]; !ok {
				h.oracle("C04 at quiescence a registered pipeline lists node %s which is not registered", id)
			}
		}
		h.st.Cases++
		h.st.Ops += nG * 40
	}
	h.st.hit("registry:rounds")
}

// ---- stock: compositions of the library's own nodes ----

type safeBuf struct {
	mu sync.Mutex
	b  bytes.Buffer
}

func (s *safeBuf) Write(p []byte) (int, error) {
	s.mu.Lock()
	defer s.mu.Unlock()
	// one Write per event expected; a torn write would show as an invalid line later
	return s.b.Write(p)
}

type stockPayload struct {
	Name   string `class:"public"`
	Secret string `class:"secret"`
	Email  string `class:"sensitive"`
	N      int
}

func testWrapper(key byte) wrapping.Wrapper {
	w := aead.NewWrapper()
	w.SetConfig(context.Background(), wrapping.WithKeyId(fmt.Sprintf("k%d", key)))
	k := make([]byte, 32)
	for i := range k {
		k[i] = key
	}
	w.SetAesGcmKeyBytes(k)
	return w
}

func raceStock(h *raceH, p *prng, rounds int, dir string, withEnc bool) {
	for r := 0; r < rounds; r++ {
		b, _ := eventlogger.NewBroker()
		src, _ := url.Parse("https://verif.example/src")
		ce := &cloudevents.FormatterFilter{Source: src, Signer: func(ctx context.Context, b []byte) (string, error) { return "sig", nil }, SignEventTypes: []string{"t"}}
		enc := &encrypt.Filter{Wrapper: testWrapper(1), HmacSalt: []byte("salt"), HmacInfo: []byte("info")}
		gf := &gated.Filter{Broker: b, Expiration: time.Millisecond}
		buf := &safeBuf{}
		ws := &writer.Sink{Writer: buf}
		cbuf := &safeBuf{}
		wsCE := &writer.Sink{Writer: cbuf, Format: string(cloudevents.FormatJSON)}
		fsink := &eventlogger.FileSink{Path: filepath.Join(dir, fmt.Sprintf("stock%d", r)), FileName: "ev.log", MaxBytes: 300, MaxFiles: 2}
		// FileSink's pass-through paths: the standard streams point at scratch files for the round
		errF, _ := os.OpenFile(filepath.Join(dir, fmt.Sprintf("stderr%d", r)), os.O_CREATE|os.O_WRONLY|os.O_APPEND, 0o600)
		outF, _ := os.OpenFile(filepath.Join(dir, fmt.Sprintf("stdout%d", r)), os.O_CREATE|os.O_WRONLY|os.O_APPEND, 0o600)
		savedErr, savedOut := os.Stderr, os.Stdout
		os.Stderr, os.Stdout = errF, outF
		fserr := &eventlogger.FileSink{Path: "/dev/stderr"}
		fsout := &eventlogger.FileSink{Path: "/dev/stdout"}
		fsnull := &eventlogger.FileSink{Path: "/dev/null"}
		ch := make(chan *eventlogger.Event, 64)
		cs, _ := channel.NewChannelSink(ch, 50*time.Millisecond)
		go func() {
			// the consumer reads what it is handed, while other pipelines may still be formatting the event
			for ev := range ch {
				if ev != nil {
					ev.Format(string(eventlogger.JSONFormat))
					ev.Format(string(cloudevents.FormatJSON))
				}
			}
		}()
		reg := map[string]eventlogger.Node{
			"fserr": fserr, "fsout": fsout, "fsnull": fsnull,
			"filter": &eventlogger.Filter{Predicate: func(e *eventlogger.Event) (bool, error) { return true, nil }},
			"json":   &eventlogger.JSONFormatter{}, "jsonff": &eventlogger.JSONFormatterFilter{}, "ce": ce, "enc": enc, "gated": gf,
			"wsink": ws, "wsinkce": wsCE, "fsink": fsink, "chsink": cs,
		}
		for id, n := range reg {
			b.RegisterNode(eventlogger.NodeID(id), n)
		}
		// every ordered pair of node kinds occurs as neighbours across the pipelines; filters at the root and downstream
		shapes := [][]string{
			{"enc", "json", "wsink"}, {"filter", "enc", "jsonff", "fsink"}, {"json", "filter", "ce", "wsinkce"}, {"gated", "enc", "json", "chsink"},
			{"ce", "enc", "json", "wsink"}, {"filter", "gated", "ce", "wsinkce"}, {"jsonff", "enc", "json", "fsink"}, {"enc", "filter", "ce", "chsink"},
			{"json", "fserr"}, {"filter", "jsonff", "fsout"}, {"json", "fsnull"}, {"jsonff", "fserr"},
		}
		nP := 1 + p.intn(4)
		if withEnc && nP == 1 {
			nP = 2
		}
		off := p.intn(len(shapes))
		for i := 0; i < nP; i++ {
			var ids []eventlogger.NodeID
			for _, s := range shapes[(off+i)%len(shapes)] {
				if s == "enc" && nP > 1 && !withEnc {
					// encrypt.Filter next to another pipeline on the same event is the known finding F7a
					// (it can crash the process: concurrent map read and map write); exercised by `stockenc`
					s = "filter"
				}
				ids = append(ids, eventlogger.NodeID(s))
			}
			if err := b.RegisterPipeline(eventlogger.Pipeline{PipelineID: eventlogger.PipelineID(fmt.Sprintf("p%d", i)), EventType: "t", NodeIDs: ids}); err != nil {
				panic(err)
			}
		}
		var wg sync.WaitGroup
		nS := 2 + p.intn(7)
		for g := 0; g < nS; g++ {
			wg.Add(1)
			go func(g int) {
				defer wg.Done()
				for i := 0; i < 25; i++ {
					var payload interface{} = &stockPayload{Name: "n", Secret: "s3cr3t", Email: "a@b", N: i}
					if i%5 == 4 {
						payload = &gated.Payload{ID: fmt.Sprintf("g%d", i%3), Flush: i%10 == 9, Detail: map[string]interface{}{"i": i}}
					}
					b.Send(context.Background(), "t", payload)
				}
			}(g)
		}
		wg.Add(1)
		go func() {
			defer wg.Done()
			for i := 0; i < 10; i++ {
				b.Reopen(context.Background())
				enc.Rotate(encrypt.WithWrapper(testWrapper(byte(2+i))), encrypt.WithSalt([]byte("s2")))
				ce.Rotate(func(ctx context.Context, b []byte) (string, error) { return "sig2", nil })
				time.Sleep(200 * time.Microsecond)
			}
		}()
		wg.Wait()
		gf.FlushAll(context.Background())
		close(ch)
		// two pipelines of one type: one formats and writes every event, the other one's JSONFormatterFilter
		// rejects every event. What the second does with ITS rendering never takes anything from the first.
		{
			rb, _ := eventlogger.NewBroker()
			rbuf := &safeBuf{}
			rb.RegisterNode("json", &eventlogger.JSONFormatter{})
			// the sink's Writer is a buffered writer -- not safe for concurrent use, with a Flush method of its
			// own: the sink's lock is all that serialises what reaches it, Reopen calls included
			bw := bufio.NewWriterSize(rbuf, 512)
			rb.RegisterNode("out", &writer.Sink{Writer: bw})
			rb.RegisterNode("reject", &eventlogger.JSONFormatterFilter{Predicate: func(interface{}) (bool, error) { return false, nil }})
			rb.RegisterNode("never", &eventlogger.FileSink{Path: "/dev/null"})
			rb.RegisterPipeline(eventlogger.Pipeline{PipelineID: "audit", EventType: "t", NodeIDs: []eventlogger.NodeID{"json", "out"}})
			rb.RegisterPipeline(eventlogger.Pipeline{PipelineID: "sample", EventType: "t", NodeIDs: []eventlogger.NodeID{"reject", "never"}})
			var rwg sync.WaitGroup
			var warned int32
			var firstWarn atomic.Value
			const perSender = 30
			for g := 0; g < 3; g++ {
				rwg.Add(1)
				go func(g int) {
					defer rwg.Done()
					for i := 0; i < perSender; i++ {
						st, _ := rb.Send(context.Background(), "t", map[string]interface{}{"g": g, "i": i})
						if len(st.Warnings) > 0 {
							atomic.AddInt32(&warned, 1)
							firstWarn.Store(st.Warnings[0].Error())
						}
					}
				}(g)
			}
			var stopReopen int32
			reopenDone := make(chan struct{})
			go func() {
				defer close(reopenDone)
				for atomic.LoadInt32(&stopReopen) == 0 {
					rb.Reopen(context.Background())
					runtime.Gosched()
				}
			}()
			rwg.Wait()
			atomic.StoreInt32(&stopReopen, 1)
			<-reopenDone
			bw.Flush()
			rbuf.mu.Lock()
			lines := strings.Count(rbuf.b.String(), "\n")
			rbuf.mu.Unlock()
			if lines != 3*perSender || warned > 0 {
				fw, _ := firstWarn.Load().(string)
				h.oracle("C19 two pipelines of one event type, [JSONFormatter, writer.Sink] and [JSONFormatterFilter rejecting every event, sink]: %d events sent, the first pipeline's sink wrote %d lines, %d Sends reported a warning (%.80s): one pipeline's formatting took the other pipeline's rendering away", 3*perSender, lines, warned, fw)
			}
			h.st.Ops += 3 * perSender
		}
		// a channel sink whose consumer has stalled, shared by overlapping senders: each of them gets its own
		// bounded wait (an error after the timeout), none is left waiting for another one's timer
		{
			stalled := make(chan *eventlogger.Event)
			cs2, _ := channel.NewChannelSink(stalled, 30*time.Millisecond)
			nC := 2 + p.intn(3)
			done := make(chan error, nC)
			for k := 0; k < nC; k++ {
				go func(k int) {
					time.Sleep(time.Duration(k*8) * time.Millisecond)
					_, err := cs2.Process(context.Background(), &eventlogger.Event{Type: "t"})
					done <- err
				}(k)
			}
			deadline := time.After(8 * time.Second)
			for k := 0; k < nC; k++ {
				select {
				case err := <-done:
					if err == nil {
						h.oracle("C19 ChannelSink shared by %d senders: Process reported success although nobody receives", nC)
					}
				case <-deadline:
					h.oracle("C19 ChannelSink shared by %d overlapping senders with a stalled consumer (timeout 30ms): only %d of them returned within 8s, the rest is blocked for ever", nC, k)
					k = nC
				}
			}
		}
		os.Stderr, os.Stdout = savedErr, savedOut
		for _, x := range []struct {
			name string
			f    *os.File
			s    *eventlogger.FileSink
		}{{"stderr", errF, fserr}, {"stdout", outF, fsout}} {
			if fi, err := x.f.Stat(); err == nil && fi.Size() != x.s.BytesWritten {
				h.oracle("C19 FileSink on /dev/%s: BytesWritten=%d but %d bytes were written (concurrent Process calls lost an update)", x.name, x.s.BytesWritten, fi.Size())
			}
			x.f.Close()
			os.Remove(x.f.Name())
		}
		// per-sink output integrity: every line of the writer sink is one whole JSON document
		for _, line := range strings.Split(strings.TrimSuffix(buf.b.String(), "\n"), "\n") {
			if line == "" {
				continue
			}
			if !strings.HasPrefix(line, "{") || !strings.HasSuffix(line, "}") {
				h.oracle("C19 corrupted writer.Sink output line: %.80q", line)
				break
			}
			if strings.Contains(line, "s3cr3t") && strings.Contains(line, "\"Secret\"") {
				// only pipelines through enc redact; others legitimately carry the plaintext
			}
		}
		// the file sink, shared by pipelines and senders, reopened and rotated meanwhile: whole lines only, and
		// its counter describes the file it is writing to
		if ents, err := os.ReadDir(filepath.Join(dir, fmt.Sprintf("stock%d", r))); err == nil && len(ents) > 0 {
			var newest string
			for _, e := range ents {
				data, _ := os.ReadFile(filepath.Join(dir, fmt.Sprintf("stock%d", r), e.Name()))
				for _, line := range strings.Split(strings.TrimSuffix(string(data), "\n"), "\n") {
					if line != "" && !json.Valid([]byte(line)) {
						h.oracle("C19 FileSink shared by %d pipelines / %d senders with concurrent Reopen: %s holds a line that is not a whole JSON document: %.60q", nP, nS, e.Name(), line)
						break
					}
				}
				if len(data) > 0 && data[len(data)-1] != '\n' {
					h.oracle("C19 FileSink: %s does not end at an event boundary", e.Name())
				}
				if e.Name() > newest {
					newest = e.Name()
				}
			}
			if fi, err := os.Stat(filepath.Join(dir, fmt.Sprintf("stock%d", r), newest)); err == nil && fi.Size() != fsink.BytesWritten {
				h.oracle("C19 FileSink after concurrent Sends and Reopens: BytesWritten=%d but its current file %s holds %d bytes", fsink.BytesWritten, newest, fi.Size())
			}
		}
		h.st.Cases++
		h.st.Ops += nS * 25
		h.st.hit(fmt.Sprintf("stock:pipelines=%d", nP))
		os.RemoveAll(filepath.Join(dir, fmt.Sprintf("stock%d", r)))
	}
}

// ---- gated: concurrent senders, slow composition ----

type cgPayload struct {
	uid   int64
	id    string
	flush bool
	h     *cgHarness
}

type cgHarness struct {
	mu       sync.Mutex
	composed map[int64]int
	slow     time.Duration
}

func (p *cgPayload) GetID() string    { return p.id }
func (p *cgPayload) FlushEvent() bool { return p.flush }
func (p *cgPayload) ComposeFrom(events []*eventlogger.Event) (eventlogger.EventType, interface{}, error) {
	var h *cgHarness
	for _, e := range events {
		h = e.Payload.(*cgPayload).h
	}
	if h == nil {
		return "t", "empty", nil
	}
	time.Sleep(h.slow)
	h.mu.Lock()
	for _, e := range events {
		h.composed[e.Payload.(*cgPayload).uid]++
	}
	h.mu.Unlock()
	return "t", fmt.Sprintf("composite-%d", len(events)), nil
}

type slowSender struct{ d time.Duration }

func (s slowSender) Send(ctx context.Context, t eventlogger.EventType, payload interface{}) (eventlogger.Status, error) {
	runtime.Gosched()
	if s.d > 0 {
		time.Sleep(s.d)
	}
	return eventlogger.Status{}, nil
}

type nullSender struct{}

func (nullSender) Send(ctx context.Context, t eventlogger.EventType, payload interface{}) (eventlogger.Status, error) {
	return eventlogger.Status{}, nil
}

func raceGated(h *raceH, p *prng, rounds int) {
	for r := 0; r < rounds; r++ {
		ch := &cgHarness{composed: map[int64]int{}, slow: time.Duration(p.intn(300)) * time.Microsecond}
		// the filter's clock takes its time (a yield and a few microseconds): whatever the filter does between
		// looking a group up and storing an event in it is stretched, under its lock or not
		// ... and so does the Broker the composites are sent through (a slow sink): whatever the filter does
		// around Send is stretched too
		// every other round the groups expire while the senders are at it: sweeps of several Process calls overlap
		exp := time.Hour
		if r%2 == 1 {
			exp = time.Duration(100+p.intn(400)) * time.Microsecond
		}
		f := &gated.Filter{Broker: slowSender{time.Duration(p.intn(150)) * time.Microsecond}, Expiration: exp, NowFunc: func() time.Time {
			runtime.Gosched()
			time.Sleep(5 * time.Microsecond)
			return time.Now()
		}}
		var uid int64
		var accMu sync.Mutex
		accepted := map[int64]bool{}
		var wg sync.WaitGroup
		nG := 2 + p.intn(5)
		nIDs := 2 + r%3
		for g := 0; g < nG; g++ {
			wg.Add(1)
			go func(g int) {
				defer wg.Done()
				for i := 0; i < 30; i++ {
					u := atomic.AddInt64(&uid, 1)
					pl := &cgPayload{uid: u, id: fmt.Sprintf("g%d", i%nIDs), flush: i%4 == 3, h: ch}
					_, err := f.Process(context.Background(), &eventlogger.Event{Type: "t", Payload: pl})
					if err == nil {
						accMu.Lock()
						accepted[u] = true
						accMu.Unlock()
					}
					if g == 0 && i%7 == 6 {
						f.FlushAll(context.Background())
					}
				}
			}(g)
		}
		wg.Wait()
		if err := f.FlushAll(context.Background()); err != nil {
			h.oracle("C17 final FlushAll failed: %v", err)
		}
		for u := range accepted {
			if n := ch.composed[u]; n != 1 {
				if n == 0 {
					h.oracle("C17 FlushAll, called after %d concurrent senders (and FlushAll calls) had finished, returned successfully but an accepted event of one of the %d groups was never handed to composition: it remains gated", nG, nIDs)
				} else {
					h.oracle("C17 a gated group was emitted %d times (senders, flush events and FlushAll running concurrently): every gated group is emitted exactly once", n)
				}
				h.oracle("C11 under concurrent senders an accepted event was handed to composition %d times (exactly once required)", n)
				h.oracle("C19 gated.Filter shared by %d senders: an accepted event reached composition %d times: the composed output is corrupted (an event lost or doubled)", nG, n)
				break
			}
		}
		h.st.Cases++
		h.st.Ops += nG * 30
	}
	h.st.hit("gated:rounds")
}

// ---- encrot: rotation payloads against concurrent HMAC-ed events (C16, last clause) ----

type slowRot struct {
	w          wrapping.Wrapper
	salt, info []byte
}

func (r *slowRot) Wrapper() wrapping.Wrapper { return r.w }
func (r *slowRot) HmacSalt() []byte {
	runtime.Gosched() // caller-supplied accessors take their time
	time.Sleep(30 * time.Microsecond)
	return r.salt
}
func (r *slowRot) HmacInfo() []byte {
	runtime.Gosched()
	return r.info
}

type hmacOnly struct {
	V string `class:"sensitive,hmac-sha256"`
}

// every value HMAC-ed while rotation payloads (wrapper + salt + info together) and Rotate calls go by
// must be under ONE of the key-material sets that were in force, wholly: never a mix
func raceEncRot(h *raceH, p *prng, rounds int) {
	ctx := context.Background()
	for r := 0; r < rounds; r++ {
		nSets := 4
		f := &encrypt.Filter{Wrapper: testWrapper(1), HmacSalt: []byte("salt-0"), HmacInfo: []byte("info-0")}
		want := map[string]int{}
		for k := 0; k < nSets; k++ {
			want[indepHmac(keyBytes(k+1), []byte(fmt.Sprintf("salt-%d", k)), []byte(fmt.Sprintf("info-%d", k)), []byte("value"))] = k
		}
		var wg sync.WaitGroup
		stop := make(chan struct{})
		wg.Add(1)
		go func() {
			defer wg.Done()
			defer close(stop)
			for k := 1; k < nSets; k++ {
				time.Sleep(150 * time.Microsecond)
				set := &slowRot{w: testWrapper(byte(k + 1)), salt: []byte(fmt.Sprintf("salt-%d", k)), info: []byte(fmt.Sprintf("info-%d", k))}
				if k%2 == 1 {
					f.Process(ctx, &eventlogger.Event{Type: "t", Payload: set, Formatted: map[string][]byte{}})
				} else {
					f.Rotate(encrypt.WithWrapper(set.w), encrypt.WithSalt(set.salt), encrypt.WithInfo(set.info))
				}
			}
			time.Sleep(100 * time.Microsecond)
		}()
		nG := 2 + p.intn(4)
		var mu sync.Mutex
		for g := 0; g < nG; g++ {
			wg.Add(1)
			go func() {
				defer wg.Done()
				for {
					select {
					case <-stop:
						return
					default:
					}
					got, err := f.Process(ctx, &eventlogger.Event{Type: "t", Payload: &hmacOnly{V: "value"}, Formatted: map[string][]byte{}})
					if err != nil || got == nil {
						h.oracle("C16 Process failed during a rotation: %v", err)
						return
					}
					v := got.Payload.(*hmacOnly).V
					mu.Lock()
					h.st.Ops++
					if _, ok := want[v]; !ok {
						h.oracle("C16 a value HMAC-ed while the key material was rotated is under none of the %d (wrapper, salt, info) sets that were in force: it mixes old and new key material", nSets)
						mu.Unlock()
						return
					}
					mu.Unlock()
				}
			}()
		}
		wg.Wait()
		h.st.Cases++
	}
	// events that carry their own key material (event id, salt, info), several at once through one filter:
	// every digest is under ITS event's key, salt and info -- exactly, not "one of those around"
	for r := 0; r < rounds/4+1; r++ {
		f := &encrypt.Filter{Wrapper: testWrapper(1), HmacSalt: []byte("salt-f"), HmacInfo: []byte("info-f")}
		nW := 3 + p.intn(5)
		type wk struct {
			info *ewiPayload
			want string
		}
		ws := make([]wk, nW)
		for k := range ws {
			if k == 0 {
				ws[k].want = indepHmac(keyBytes(1), []byte("salt-f"), []byte("info-f"), []byte("value"))
				continue
			}
			ws[k].info = &ewiPayload{id: fmt.Sprintf("ev%d-%d", r, k), salt: []byte(fmt.Sprintf("s%d", k)), info: []byte(fmt.Sprintf("i%d", k))}
			dw, err := encrypt.NewEventWrapper(ctx, testWrapper(1), ws[k].info.id)
			if err != nil {
				continue
			}
			kb, _ := dw.(interface {
				KeyBytes(context.Context) ([]byte, error)
			}).KeyBytes(ctx)
			ws[k].want = indepHmac(kb, ws[k].info.salt, ws[k].info.info, []byte("value"))
		}
		var wg sync.WaitGroup
		var bad int32
		for k := range ws {
			wg.Add(1)
			go func(k int) {
				defer wg.Done()
				for i := 0; i < 150 && atomic.LoadInt32(&bad) == 0; i++ {
					var payload interface{} = &hmacOnly{V: "value"}
					if ws[k].info != nil {
						payload = &ewiFlat{Info: ws[k].info, S1: "value"}
					}
					got, err := f.Process(ctx, &eventlogger.Event{Type: "t", Payload: payload, Formatted: map[string][]byte{}})
					if err != nil || got == nil {
						h.oracle("C16 Process failed for an event with its own key material: %v", err)
						atomic.StoreInt32(&bad, 1)
						return
					}
					v := ""
					switch pl := got.Payload.(type) {
					case *hmacOnly:
						v = pl.V
					case *ewiFlat:
						v = pl.S1
					}
					if v != ws[k].want && ws[k].want != "" {
						atomic.StoreInt32(&bad, 1)
						whose := "nobody's"
						for j := range ws {
							if ws[j].want == v {
								whose = fmt.Sprintf("sender %d's", j)
							}
						}
						h.oracle("C16 %d senders through one filter, each event with its own id / salt / info: a value of sender %d was HMAC-ed under %s key material, not under the event's own", nW, k, whose)
						return
					}
				}
			}(k)
		}
		wg.Wait()
		h.st.Cases++
		h.st.Ops += nW * 150
	}
	h.st.hit("encrot:rounds")
}

// ---- typehook: a second Broker call made while RegisterPipeline is validating (C05, C07, C04) ----

// hookNode is a node whose Type() -- node code, called by RegisterPipeline while it validates the
// definition -- takes its time, once: it announces that validation is under way and waits until the
// competing call has returned, or 30 ms
type hookNode struct {
	ty    eventlogger.NodeType
	once  sync.Once
	hook  func()
	calls int32 // Process calls
}

// gateNode: a root filter; the first Process call across the nodes sharing `once` says which pipeline it
// belongs to and waits to be released
type gateNode struct {
	k       int
	once    *sync.Once
	parked  chan int
	release chan struct{}
}

func (g *gateNode) Process(ctx context.Context, e *eventlogger.Event) (*eventlogger.Event, error) {
	g.once.Do(func() {
		g.parked <- g.k
		select {
		case <-g.release:
		case <-time.After(2 * time.Second):
		}
	})
	return e, nil
}
func (g *gateNode) Reopen() error              { return nil }
func (g *gateNode) Type() eventlogger.NodeType { return eventlogger.NodeTypeFilter }

// slowTypeNode: Type() takes a while every time it is asked
type slowTypeNode struct {
	hookNode
	each func()
}

func (n *slowTypeNode) Type() eventlogger.NodeType {
	n.each()
	return n.ty
}

// hookCloser: a hookNode that is a Closer; its Close takes its time once (closeHook) and counts
type hookCloser struct {
	hookNode
	closeOnce sync.Once
	closeHook func()
	closes    int32
}

func (n *hookCloser) Close(ctx context.Context) error {
	atomic.AddInt32(&n.closes, 1)
	if n.closeHook != nil {
		n.closeOnce.Do(n.closeHook)
	}
	return nil
}

func (n *hookNode) Process(ctx context.Context, e *eventlogger.Event) (*eventlogger.Event, error) {
	atomic.AddInt32(&n.calls, 1)
	if n.ty == eventlogger.NodeTypeSink {
		return nil, nil
	}
	return e, nil
}
func (n *hookNode) Reopen() error { return nil }
func (n *hookNode) Type() eventlogger.NodeType {
	if n.hook != nil {
		n.once.Do(n.hook)
	}
	return n.ty
}

// A registration is one atomic step for every other call: whatever arrives while it is validating the
// definition takes effect wholly before or wholly after it.
func raceTypeHook(h *raceH, p *prng, rounds int) {
	ctx := context.Background()
	for r := 0; r < rounds; r++ {
		// two RemoveNode calls for one node overlapping (the second arrives while the node is being closed):
		// the node is closed once, one of the calls finds nothing to remove
		{
			b, _ := eventlogger.NewBroker()
			inClose := make(chan struct{})
			yDone := make(chan struct{})
			hc := &hookCloser{hookNode: hookNode{ty: eventlogger.NodeTypeSink}}
			hc.closeHook = func() {
				close(inClose)
				select {
				case <-yDone:
				case <-time.After(30 * time.Millisecond):
				}
			}
			b.RegisterNode("c", hc)
			var errX error
			xDone := make(chan struct{})
			go func() { errX = b.RemoveNode(ctx, "c"); close(xDone) }()
			select {
			case <-inClose:
				errY := b.RemoveNode(ctx, "c")
				close(yDone)
				<-xDone
				if n := atomic.LoadInt32(&hc.closes); n != 1 || (errX == nil && errY == nil) {
					h.oracle("C06 two overlapping RemoveNode calls for one node (the second made while the node was being closed): the node was closed %d times, the calls returned %v and %v: a node is closed once, and only one call removes it", n, errX, errY)
					h.oracle("C04 two overlapping RemoveNode calls for one node closed it %d times (%v, %v): no sequential order explains it", n, errX, errY)
				}
			case <-xDone:
				close(yDone)
			}
			h.st.Cases++
			h.st.hit("typehook:remove-remove")
		}
		// a registration that fails validation while a Send is on its way through the type's pipelines: the
		// refused chain never receives an event, the pipeline it was to replace gets the event
		{
			b, _ := eventlogger.NewBroker()
			parked := make(chan int, 1)
			release := make(chan struct{})
			var gateOnce sync.Once
			mkGate := func(k int) *gateNode {
				return &gateNode{k: k, once: &gateOnce, parked: parked, release: release}
			}
			sinks := [3]*hookNode{nil, {ty: eventlogger.NodeTypeSink}, {ty: eventlogger.NodeTypeSink}}
			for k := 1; k <= 2; k++ {
				b.RegisterNode(eventlogger.NodeID(fmt.Sprintf("g%d", k)), mkGate(k))
				b.RegisterNode(eventlogger.NodeID(fmt.Sprintf("f%d", k)), &hookNode{ty: eventlogger.NodeTypeFormatter})
				b.RegisterNode(eventlogger.NodeID(fmt.Sprintf("s%d", k)), sinks[k])
				b.RegisterPipeline(eventlogger.Pipeline{PipelineID: eventlogger.PipelineID(fmt.Sprintf("p%d", k)), EventType: "t",
					NodeIDs: []eventlogger.NodeID{eventlogger.NodeID(fmt.Sprintf("g%d", k)), eventlogger.NodeID(fmt.Sprintf("f%d", k)), eventlogger.NodeID(fmt.Sprintf("s%d", k))}})
			}
			var relOnce sync.Once
			letGo := func() { relOnce.Do(func() { close(release) }); time.Sleep(20 * time.Millisecond) }
			hf := &slowTypeNode{hookNode: hookNode{ty: eventlogger.NodeTypeFilter}, each: letGo}
			hs := &slowTypeNode{hookNode: hookNode{ty: eventlogger.NodeTypeSink}, each: letGo}
			b.RegisterNode("hf", hf)
			b.RegisterNode("hs", hs)
			sendDone := make(chan struct{})
			go func() { b.Send(ctx, "t", "x"); close(sendDone) }()
			var first int
			select {
			case first = <-parked:
			case <-time.After(2 * time.Second):
			}
			if first != 0 {
				other := 3 - first
				// [filter, sink] in place of the pipeline the Send has not reached yet: refused (no formatter)
				errX := b.RegisterPipeline(eventlogger.Pipeline{PipelineID: eventlogger.PipelineID(fmt.Sprintf("p%d", other)), EventType: "t", NodeIDs: []eventlogger.NodeID{"hf", "hs"}})
				relOnce.Do(func() { close(release) })
				<-sendDone
				if errX == nil {
					h.oracle("C05 a pipeline [filter, sink] (no formatter before the sink) was registered")
				} else if n := atomic.LoadInt32(&hs.calls) + atomic.LoadInt32(&hf.calls); n != 0 || atomic.LoadInt32(&sinks[other].calls) != 1 {
					h.oracle("C05 RegisterPipeline refused a definition that is not well formed (%v); a Send that was on its way through the type's pipelines meanwhile was processed %d times by the refused chain and %d times by the pipeline it was to replace: a failing RegisterPipeline leaves the pipelines that receive events as they were", errX, n, atomic.LoadInt32(&sinks[other].calls))
					h.oracle("C04 a refused RegisterPipeline had an effect on a Send that overlapped it (refused chain %d events, replaced pipeline %d)", n, atomic.LoadInt32(&sinks[other].calls))
				}
			} else {
				relOnce.Do(func() { close(release) })
				<-sendDone
			}
			h.st.Cases++
			h.st.hit("typehook:refused-visible")
		}
		for _, variant := range []string{"deny", "remove-node", "deny-deny", "new-type"} {
			b, _ := eventlogger.NewBroker()
			inV := make(chan struct{})
			yDone := make(chan struct{})
			hooked := &hookNode{ty: eventlogger.NodeTypeFormatter}
			hooked.hook = func() {
				close(inV)
				select {
				case <-yDone:
				case <-time.After(30 * time.Millisecond):
				}
			}
			// the slow node is the formatter or the sink of the definition being registered
			f, s := eventlogger.Node(hooked), eventlogger.Node(&hookNode{ty: eventlogger.NodeTypeSink})
			if p.intn(2) == 0 {
				hooked.ty = eventlogger.NodeTypeSink
				f, s = &hookNode{ty: eventlogger.NodeTypeFormatter}, hooked
			}
			b.RegisterNode("f", f)
			b.RegisterNode("s", s)
			b.RegisterNode("f2", &hookNode{ty: eventlogger.NodeTypeFormatter})
			b.RegisterNode("s2", &hookNode{ty: eventlogger.NodeTypeSink})
			var errX error
			xDone := make(chan struct{})
			var xOpts []eventlogger.Option
			if variant == "deny-deny" {
				xOpts = append(xOpts, eventlogger.WithPipelineRegistrationPolicy(eventlogger.DenyOverwrite))
			}
			go func() {
				errX = b.RegisterPipeline(eventlogger.Pipeline{PipelineID: "p", EventType: "t", NodeIDs: []eventlogger.NodeID{"f", "s"}}, xOpts...)
				close(xDone)
			}()
			select {
			case <-inV:
			case <-xDone: // the node's Type was not consulted: nothing to interleave with
				h.st.hit("typehook:no-hook")
				close(yDone)
				h.st.Cases++
				continue
			}
			var errY error
			switch variant {
			case "deny", "deny-deny":
				errY = b.RegisterPipeline(eventlogger.Pipeline{PipelineID: "p", EventType: "t", NodeIDs: []eventlogger.NodeID{"f2", "s2"}},
					eventlogger.WithPipelineRegistrationPolicy(eventlogger.DenyOverwrite))
			case "remove-node":
				errY = b.RemoveNode(ctx, "f")
			case "new-type":
				// X is the first registration ever for event type "t"; so is Y
				errY = b.RegisterPipeline(eventlogger.Pipeline{PipelineID: "p2", EventType: "t", NodeIDs: []eventlogger.NodeID{"f2", "s2"}})
			}
			close(yDone)
			<-xDone
			switch variant {
			case "deny":
				// X then Y: Y's DenyOverwrite version is in place; Y then X: X is refused. Either way the id is protected now.
				err3 := b.RegisterPipeline(eventlogger.Pipeline{PipelineID: "p", EventType: "t", NodeIDs: []eventlogger.NodeID{"f2", "s"}})
				if errX == nil && errY == nil && err3 == nil {
					h.oracle("C07 RegisterPipeline(p, DenyOverwrite) returned nil while another RegisterPipeline(p) was validating its nodes; both succeeded and a third RegisterPipeline(p) was accepted too: the DenyOverwrite registration was overwritten without an error and the id is no longer protected")
					h.oracle("C04 two overlapping RegisterPipeline calls (one DenyOverwrite) both succeeded and left the id unprotected: no sequential order of the two explains it")
				}
			case "deny-deny":
				if errX == nil && errY == nil {
					h.oracle("C07 two overlapping RegisterPipeline(p, DenyOverwrite) calls both returned nil: one of them overwrote a pipeline that forbids overwriting")
					h.oracle("C05 RegisterPipeline succeeded although an existing pipeline with that id and type forbids overwriting (registered by a call that returned while this one was validating)")
					h.oracle("C04 two overlapping RegisterPipeline(p, DenyOverwrite) calls both succeeded: no sequential order explains it")
				}
			case "new-type":
				// both registered, in whichever order: a Send of the type goes through both pipelines
				if errX == nil && errY == nil {
					st, _ := b.Send(ctx, "t", "x")
					nodesV, graphsV := b.VerifDump()
					_ = nodesV
					n := 0
					if g, ok := graphsV["t"]; ok {
						n = len(g.Pipelines)
					}
					if n != 2 || len(st.Complete()) != 2 {
						h.oracle("C01 two RegisterPipeline calls for an event type the Broker had not seen before overlapped (one was validating its nodes) and both returned nil, but the type now has %d registered pipelines, a Send completed %v: a registered pipeline is not traversed", n, st.Complete())
						h.oracle("C04 two overlapping first registrations for one event type both succeeded and one pipeline is gone: no sequential order explains it")
					}
				}
			case "remove-node":
				// X then Y: the node is in use, Y is refused; Y then X: the node is gone, X is refused
				if errX == nil && errY == nil {
					h.oracle("C06 RemoveNode(f) succeeded (closing and unregistering f) while a RegisterPipeline listing f was validating, and that registration succeeded too: a registered pipeline lists a node that counts as unused and was closed")
					_, listed := b.VerifDump()
					h.oracle("C05 RegisterPipeline returned nil for a definition listing node f, and RemoveNode(f), made while the definition was being validated, returned nil too: a registered pipeline lists a node that is not registered (%d graphs)", len(listed))
					h.oracle("C04 overlapping RegisterPipeline([f,s]) and RemoveNode(f) both succeeded: no sequential order explains it")
				}
			}
			h.st.Cases++
			h.st.Ops += 3
			h.st.hit("typehook:" + variant)
		}
	}
}

// ---- reopen: overlapping Reopen calls (C20) ----

type roNode struct {
	ty   eventlogger.NodeType
	n    int32
	fail error
	park *int32        // 1: the next Reopen to arrive parks here
	gate chan struct{} // ... until this is closed
	inCh chan struct{} // signalled when a call has parked
}

func (r *roNode) Process(ctx context.Context, e *eventlogger.Event) (*eventlogger.Event, error) {
	if r.ty == eventlogger.NodeTypeSink {
		return nil, nil
	}
	return e, nil
}
func (r *roNode) Type() eventlogger.NodeType { return r.ty }
func (r *roNode) Reopen() error {
	atomic.AddInt32(&r.n, 1)
	if r.park != nil && atomic.CompareAndSwapInt32(r.park, 1, 0) {
		r.inCh <- struct{}{}
		<-r.gate
	}
	return r.fail
}

// every Reopen call reopens every node of every registered pipeline and reports a failing node --
// also a call that overlaps another Reopen still walking the pipelines
func raceReopen(h *raceH, p *prng, rounds int) {
	ctx := context.Background()
	for r := 0; r < rounds; r++ {
		b, _ := eventlogger.NewBroker()
		var park int32 = 1
		gate := make(chan struct{})
		inCh := make(chan struct{}, 1)
		boom := errors.New("reopen failed")
		failing := p.intn(3) == 0
		nodes := map[string]*roNode{}
		for _, id := range []string{"f1", "s1", "f2", "s2"} {
			ty := eventlogger.NodeTypeFormatter
			if id[0] == 's' {
				ty = eventlogger.NodeTypeSink
			}
			n := &roNode{ty: ty, park: &park, gate: gate, inCh: inCh}
			if failing && id == "s2" {
				n.fail = boom
			}
			nodes[id] = n
			b.RegisterNode(eventlogger.NodeID(id), n)
		}
		b.RegisterPipeline(eventlogger.Pipeline{PipelineID: "p", EventType: "t1", NodeIDs: []eventlogger.NodeID{"f1", "s1"}})
		b.RegisterPipeline(eventlogger.Pipeline{PipelineID: "p", EventType: "t2", NodeIDs: []eventlogger.NodeID{"f2", "s2"}})
		first := make(chan error, 1)
		go func() { first <- b.Reopen(ctx) }()
		select {
		case <-inCh:
		case <-time.After(8 * time.Second):
			h.oracle("C20 Reopen did not reach any node within 8s")
			close(gate)
			continue
		}
		// the first call is parked inside a node's Reopen: the second call does all the work itself
		before := map[string]int32{}
		for id, n := range nodes {
			before[id] = atomic.LoadInt32(&n.n)
		}
		err := b.Reopen(ctx)
		for id, n := range nodes {
			// (a walk that meets a failing node may stop there: every node only when nothing fails)
			if !failing && atomic.LoadInt32(&n.n) == before[id] {
				h.oracle("C20 a Reopen call that overlapped another one returned %v without reopening node %s", err, id)
				break
			}
		}
		if failing && !errors.Is(err, boom) {
			h.oracle("C20 node s2 failed to reopen but the overlapping Reopen call returned %v", err)
		}
		if !failing && err != nil {
			h.oracle("C20 Reopen returned %v although no node failed", err)
		}
		close(gate)
		if e1 := <-first; failing != (e1 != nil) {
			h.oracle("C20 the first of two overlapping Reopen calls returned %v, failing node=%v", e1, failing)
		}
		h.st.Cases++
		h.st.Ops += 2
	}
	h.st.hit("reopen:rounds")
}

func raceMain(args []string) {
	fs := flag.NewFlagSet("race", flag.ExitOnError)
	seed := fs.Uint64("seed", 1, "seed")
	scen := fs.String("scenario", "window,registry,stock,gated", "comma separated scenarios")
	rounds := fs.Int("rounds", 20, "rounds per scenario")
	out := fs.String("out", "", "output dir")
	_ = fs.String("corpus", "", "unused")
	fs.Parse(args)
	st := newStats()
	h := &raceH{st: st}
	p := newPrng(*seed)
	o := openOut(*out)
	start := time.Now()
	for _, s := range strings.Split(*scen, ",") {
		switch s {
		case "window":
			raceWindow(h, p, *rounds*20)
			st.Cases++
		case "registry":
			raceRegistry(h, p, *rounds)
		case "stock":
			raceStock(h, p, *rounds, *out, false)
		case "stockenc":
			raceStock(h, p, *rounds, *out, true)
		case "gated":
			raceGated(h, p, *rounds*2)
		case "encrot":
			raceEncRot(h, p, *rounds*4)
		case "reopen":
			raceReopen(h, p, *rounds*4)
		case "typehook":
			raceTypeHook(h, p, *rounds)
		}
		st.hit("scenario:" + s)
	}
	o.close()
	st.Distinct = st.Cases
	st.Samples = append(st.Samples, fmt.Sprintf("scenarios=%s rounds=%d seed=%d", *scen, *rounds, *seed))
	st.Extra["wall_s"] = time.Since(start).Seconds()
	st.write(*out)
	if len(st.Oracle) > 0 {
		fmt.Printf("ORACLE-FAILURES %d\n", len(st.Oracle))
		for i, m := range st.Oracle {
			if i < 5 {
				fmt.Println(m)
			}
		}
	}
	fmt.Printf("cases=%d ops=%d\n", st.Cases, st.Ops)
}
