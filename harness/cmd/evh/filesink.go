package main

// Correspondence harness for M5 FileSink on real files: operation sequences (write of 1..200 bytes,
// Reopen, external rename of the active file, pause) x MaxBytes x MaxFiles x MaxDuration x
// TimestampOnlyOnRotate x Mode, directory listing after every step; Go-side oracles of C08 / C15;
// concurrent writers; a child process SIGKILLed at a random instant.

import (
	"bufio"
	"bytes"
	"context"
	"flag"
	"fmt"
	"os"
	"os/exec"
	"os/signal"
	"path/filepath"
	"sort"
	"strconv"
	"strings"
	"sync"
	"syscall"
	"time"

	"github.com/hashicorp/eventlogger"
)

type fsHarness struct {
	dir      string
	sink     *eventlogger.FileSink
	md       int // MaxDuration in ms
	mf       int
	mb       int
	tso      bool
	mode     int
	acked    []int
	st       *stats
	caseOps  []string
	diverged bool
	foreign  bool
	lastOK   bool
	base     string
	// bytes acknowledged since the sink last opened a file, tracked independently of the sink's own
	// counter (-1: unknown after a failed call)
	sinceOpen int64
	// the configured file name: stem + ext ("" = none: rotated files then end in .log), and a file of
	// ANOTHER sink in the same directory whose name shares a prefix with ours
	stem, ext, decoy string
	divergedBy       map[string]bool
	decoys           []string // files of other programs that share this sink's prefix but not its name shape
	skipRest         bool     // the case can no longer be followed (a call straddled MaxDuration): drop its remaining operations
}

func (h *fsHarness) plainName() string { return h.stem + h.ext }
func (h *fsHarness) tsExt() string {
	if h.ext == "" {
		return ".log"
	}
	return h.ext
}

func (h *fsHarness) oracle(f string, a ...any) {
	// one message per case and property: a C15 message does not hide the C08 one of the same case
	if h.divergedBy == nil {
		h.divergedBy = map[string]bool{}
	}
	if len(f) >= 3 && h.divergedBy[f[:3]] {
		return
	}
	if len(f) >= 3 {
		h.divergedBy[f[:3]] = true
	}
	h.diverged = true
	h.st.hit("oracle-failure")
	if len(h.st.Oracle) < 40 {
		h.st.Oracle = append(h.st.Oracle, fmt.Sprintf(f, a...)+" || case: "+strings.Join(h.caseOps, " ; "))
	}
}

func eventBytes(id, size int) []byte {
	s := fmt.Sprintf("e%d:", id)
	for len(s) < size-1 {
		s += "x"
	}
	return []byte(s + "\n")
}

// parseFile returns the event ids of a file, or an error text when an event is torn
func parseFile(path string) ([]int, string) {
	b, err := os.ReadFile(path)
	if err != nil {
		return nil, err.Error()
	}
	if len(b) == 0 {
		return nil, ""
	}
	if b[len(b)-1] != '\n' {
		return nil, "file does not end at an event boundary"
	}
	var ids []int
	for _, line := range strings.Split(strings.TrimSuffix(string(b), "\n"), "\n") {
		i := strings.Index(line, ":")
		if !strings.HasPrefix(line, "e") || i < 0 {
			return nil, fmt.Sprintf("torn event %.30q", line)
		}
		id, err := strconv.Atoi(line[1:i])
		if err != nil || strings.Trim(line[i+1:], "x") != "" {
			return nil, fmt.Sprintf("torn event %.30q", line)
		}
		ids = append(ids, id)
	}
	return ids, ""
}

type fsFile struct {
	kind string // plain ts foreign
	key  int64
	ids  []int
	mode os.FileMode
}

func (h *fsHarness) list() ([]fsFile, string) {
	ents, _ := os.ReadDir(h.dir)
	var fs []fsFile
	for _, e := range ents {
		n := e.Name()
		f := fsFile{}
		switch {
		case n == h.plainName():
			f.kind = "plain"
		case strings.HasPrefix(n, h.stem+"-") && strings.HasSuffix(n, h.tsExt()):
			f.kind = "ts"
			f.key, _ = strconv.ParseInt(strings.TrimSuffix(strings.TrimPrefix(n, h.stem+"-"), h.tsExt()), 10, 64)
		case strings.HasPrefix(n, "moved"):
			f.kind = "foreign"
			f.key, _ = strconv.ParseInt(strings.TrimSuffix(strings.TrimPrefix(n, "moved"), ".log"), 10, 64)
		default:
			continue
		}
		ids, bad := parseFile(filepath.Join(h.dir, n))
		if bad != "" {
			return nil, n + ": " + bad
		}
		f.ids = ids
		if info, err := e.Info(); err == nil {
			f.mode = info.Mode().Perm()
		}
		fs = append(fs, f)
	}
	rank := map[string]int{"plain": 0, "ts": 1, "foreign": 2}
	sort.Slice(fs, func(i, j int) bool {
		if fs[i].kind != fs[j].kind {
			return rank[fs[i].kind] < rank[fs[j].kind]
		}
		return fs[i].key < fs[j].key
	})
	return fs, ""
}

func (h *fsHarness) listing() string {
	fs, bad := h.list()
	if bad != "" {
		h.oracle("C08 %s", bad)
		return "torn"
	}
	var parts []string
	r := 0
	for _, f := range fs {
		switch f.kind {
		case "plain":
			parts = append(parts, fmt.Sprintf("plain:%s:%d", showInts(f.ids), f.mode))
		case "ts":
			parts = append(parts, fmt.Sprintf("ts%d:%s:%d", r, showInts(f.ids), f.mode))
			r++
		default:
			parts = append(parts, fmt.Sprintf("foreign%d:%s:%d", f.key, showInts(f.ids), f.mode))
		}
	}
	// f is unexported: "open" is observed through a no-op probe the model mirrors: not available, so the
	// harness reports the model-independent facts only (BytesWritten); `open=` is derived below
	return strings.Join(parts, " ") + fmt.Sprintf(" | bw=%d", h.sink.BytesWritten)
}

// checkFiles: C08 (whole events, once, in order, only retention may remove) and C15 (retention, names, modes)
func (h *fsHarness) checkFiles(afterRotation bool) {
	// names: nothing but the plain file, base-<timestamp> files, externally renamed files and the other sink's file
	if h.decoy != "" {
		if _, err := os.Stat(filepath.Join(h.dir, h.decoy)); err != nil {
			h.oracle("C15 the file %s of another sink (outside this sink's name space %s-*%s) was removed", h.decoy, h.stem, h.tsExt())
		}
	}
	for _, d := range h.decoys {
		if _, err := os.Stat(filepath.Join(h.dir, d)); err != nil {
			h.oracle("C15 the file %s (outside this sink's name space %s-*%s) was removed", d, h.stem, h.tsExt())
		}
	}
	if ents, err := os.ReadDir(h.dir); err == nil {
		for _, e := range ents {
			n := e.Name()
			isDecoy := false
			for _, d := range h.decoys {
				isDecoy = isDecoy || n == d
			}
			ok := isDecoy || n == h.plainName() || n == h.decoy || strings.HasPrefix(n, "moved") ||
				(strings.HasPrefix(n, h.stem+"-") && strings.HasSuffix(n, h.tsExt()))
			if !ok {
				h.oracle("C15 a file named %s appeared: not the configured name %s, not %s-<timestamp>%s", n, h.plainName(), h.stem, h.tsExt())
			}
		}
	}
	fs, bad := h.list()
	if bad != "" {
		h.oracle("C08 %s", bad)
		return
	}
	seen := map[int]bool{}
	nTs := 0
	var own []int // ids in the sink's own files, ts files by timestamp then the plain file
	var plainIDs []int
	for _, f := range fs {
		for i, id := range f.ids {
			if seen[id] {
				h.oracle("C08 event %d present twice", id)
			}
			seen[id] = true
			if i > 0 && f.ids[i-1] >= id {
				h.oracle("C08 events out of acknowledgement order inside one file: %v", f.ids)
			}
		}
		want := os.FileMode(0o600)
		if h.mode != 0 {
			want = os.FileMode(h.mode)
		}
		if f.mode != want {
			h.oracle("C15 file mode %o, configured %o", f.mode, want)
		}
		switch f.kind {
		case "ts":
			nTs++
			own = append(own, f.ids...)
		case "plain":
			plainIDs = f.ids
		}
	}
	own = append(own, plainIDs...)
	for i := 1; i < len(own); i++ {
		if own[i-1] >= own[i] {
			h.oracle("C08 reading the sink's files oldest to newest is not in acknowledgement order: %v", own)
			break
		}
	}
	ackedSet := map[int]bool{}
	for _, a := range h.acked {
		ackedSet[a] = true
	}
	for id := range seen {
		if !ackedSet[id] {
			h.oracle("C08 event %d is in the files but was never acknowledged", id)
		}
	}
	if h.mf == 0 {
		for _, a := range h.acked {
			if !seen[a] {
				h.oracle("C08 acknowledged event %d is missing although MaxFiles=0", a)
				break
			}
		}
	} else if !h.foreign && len(own) > 0 {
		// what remains is a suffix of the acknowledged sequence
		min := own[0]
		for _, a := range h.acked {
			if a >= min && !seen[a] {
				h.oracle("C08 acknowledged event %d missing from the middle: remaining files are not a suffix (first remaining %d)", a, min)
				break
			}
		}
		if len(h.acked) > 0 && !seen[h.acked[len(h.acked)-1]] {
			h.oracle("C08 the most recently acknowledged event %d is missing", h.acked[len(h.acked)-1])
		}
	}
	// retention: the active file is a ts file too unless TimestampOnlyOnRotate
	if h.mf > 0 && afterRotation {
		limit := h.mf
		if !h.tso {
			limit++
		}
		if nTs > limit {
			h.oracle("C15 %d timestamped files right after a rotation, MaxFiles=%d", nTs, h.mf)
		}
	}
	if h.tso && h.lastOK {
		if _, err := os.Stat(filepath.Join(h.dir, h.plainName())); err != nil && !h.foreign {
			h.oracle("C15 TimestampOnlyOnRotate: the plain file name is not the active file")
		}
	}
}

func (h *fsHarness) reset(f []string) {
	h.mb, h.mf, h.md, h.tso, h.mode = atoi(f[1]), atoi(f[2]), atoi(f[3]), f[4] == "1", atoi(f[5])
	h.dir = filepath.Join(h.base, fmt.Sprintf("c%d", h.st.Cases))
	os.RemoveAll(h.dir)
	names := [][3]string{{"ev", ".log", ""}, {"catalog", ".log", "cata-1000000000000000000.log"}, {"debug", ".log", "debu-1000000000000000000.log"}, {"syslog", "", "sys-1000000000000000000.log"}}
	nm := names[(h.mb+h.mf+h.md+100+h.mode)%len(names)]
	h.stem, h.ext, h.decoy = nm[0], nm[1], nm[2]
	if h.decoy != "" {
		os.MkdirAll(h.dir, 0o700)
		os.WriteFile(filepath.Join(h.dir, h.decoy), []byte("another sink's file\n"), 0o600)
	}
	h.decoys = nil
	if (h.mb+h.mf)%2 == 1 {
		// <stem>-… files that are not <stem>-<timestamp><ext>: a read-me, a compressed old file, an archive
		h.decoys = []string{h.stem + "-00-README.txt", h.stem + "-1000000000000000000" + h.tsExt() + ".gz", h.stem + "-zz-archive.tar"}
		os.MkdirAll(h.dir, 0o700)
		for _, d := range h.decoys {
			os.WriteFile(filepath.Join(h.dir, d), []byte("not this sink's file\n"), 0o600)
		}
	}
	h.sink = &eventlogger.FileSink{Path: h.dir, FileName: h.plainName(), MaxBytes: h.mb, MaxFiles: h.mf, MaxDuration: time.Duration(h.md) * time.Millisecond,
		TimestampOnlyOnRotate: h.tso, Mode: os.FileMode(h.mode)}
	h.acked = nil
	h.caseOps = nil
	h.diverged = false
	h.divergedBy = nil
	h.foreign = false
	h.lastOK = false
	h.sinceOpen = 0
}

func (h *fsHarness) exec(line string) (string, string) {
	f := strings.Fields(line)
	h.caseOps = append(h.caseOps, line)
	h.st.Ops++
	switch f[0] {
	case "reset":
		h.reset(f)
		h.caseOps = []string{line}
		return line, "reset"
	case "pause":
		time.Sleep(time.Duration(h.md+8) * time.Millisecond)
		return "", ""
	case "write":
		id, size := atoi(f[1]), atoi(f[2])
		size = len(eventBytes(id, size))
		e := &eventlogger.Event{Type: "t", Formatted: map[string][]byte{"json": eventBytes(id, size)}}
		bwBefore := h.sink.BytesWritten
		lcBefore := h.sink.LastCreated
		eb := time.Since(lcBefore)
		tCall := time.Now()
		_, err := h.sink.Process(context.Background(), e)
		if h.md > 0 && time.Since(tCall) > time.Duration(h.md)*time.Millisecond/3 {
			// the call itself took a sizeable part of MaxDuration (a loaded machine): whether the file it
			// opened or wrote was "too old" at the moment of the check cannot be told from outside
			h.st.hit("write:timing-unreliable-case-dropped")
			h.skipRest = true
			return "", ""
		}
		ea := time.Since(lcBefore)
		rotated := !h.sink.LastCreated.Equal(lcBefore)
		md := time.Duration(h.md) * time.Millisecond
		elapsed := 0
		switch {
		case h.md <= 0 || lcBefore.IsZero(): // zero or negative ("disabled") MaxDuration: age never counts
		case eb > md:
			elapsed = h.md + 1
			h.st.hit("write:time-condition-certainly-true")
		case ea <= md:
		default:
			// the measured interval straddles MaxDuration: the decision bit is read from LastCreated
			h.st.hit("write:time-condition-uncertain")
			if rotated && !(int(bwBefore) >= h.mb && h.mb > 0) {
				elapsed = h.md + 1
			}
		}
		res := "ok "
		if err != nil {
			res = "err "
			h.st.hit("write:err")
		} else {
			h.acked = append(h.acked, id)
		}
		// C15 trigger: rotate first exactly when the file, since it was opened, already holds MaxBytes or is too old
		if h.lastOK && !lcBefore.IsZero() {
			want := (h.mb > 0 && int(bwBefore) >= h.mb) || elapsed > h.md && h.md > 0
			if want != rotated && err == nil {
				h.oracle("C15 rotation=%v but BytesWritten=%d MaxBytes=%d elapsed>MaxDuration=%v", rotated, bwBefore, h.mb, elapsed > h.md)
			}
			if h.mb == 0 && h.md <= 0 && rotated {
				h.oracle("C15 rotated although neither limit is configured (MaxBytes=0, MaxDuration=%dms)", h.md)
			}
		}
		if rotated {
			h.st.hit("write:rotated")
		}
		// the exported counter describes the active file: bytes written since it was opened
		switch {
		case err != nil:
			h.sinceOpen = -1
		case rotated:
			h.sinceOpen = int64(size)
		case h.sinceOpen >= 0:
			h.sinceOpen += int64(size)
		}
		if err == nil && h.sinceOpen >= 0 && h.sink.BytesWritten != h.sinceOpen {
			h.oracle("C15 BytesWritten=%d but %d bytes were written since the active file was opened", h.sink.BytesWritten, h.sinceOpen)
		}
		h.lastOK = err == nil
		h.checkFiles(rotated && err == nil)
		return fmt.Sprintf("write %d %d %d", id, size, elapsed), res + h.listing()
	case "nofmt":
		// an event that has no bytes for the sink's format (JSON when unset): refused, and nothing is touched
		e := &eventlogger.Event{Type: "t", Formatted: map[string][]byte{"text": []byte("not the format of this sink\n")}}
		bwBefore, lcBefore := h.sink.BytesWritten, h.sink.LastCreated
		before := h.listing()
		_, err := h.sink.Process(context.Background(), e)
		if err == nil {
			h.oracle("C13 FileSink reported success for an event that has no bytes for its format (table: text only, format: json)")
		}
		if h.sink.BytesWritten != bwBefore || !h.sink.LastCreated.Equal(lcBefore) || h.listing() != before {
			h.oracle("C13 FileSink refused an event without its format but changed its files or counters (%s -> %s)", before, h.listing())
		}
		h.st.hit("nofmt")
		if err != nil {
			return line, "errfmt " + h.listing()
		}
		return line, "ok " + h.listing()
	case "reopen":
		tReopen := time.Now()
		if err := h.sink.Reopen(); err != nil {
			h.oracle("C08 Reopen failed: %v", err)
			h.sinceOpen = -1
		} else {
			// Reopen opens a file (a new one, or the existing one again): the counters start afresh
			h.sinceOpen = 0
			if h.sink.BytesWritten != 0 {
				h.oracle("C15 BytesWritten=%d right after Reopen: the counter does not describe the file just opened", h.sink.BytesWritten)
			}
			if h.sink.LastCreated.Before(tReopen) {
				h.oracle("C15 LastCreated predates the Reopen that opened the active file")
			}
		}
		h.lastOK = true
		h.checkFiles(false)
		return line, "ok " + h.listing()
	case "extrename":
		name := h.plainName()
		if !h.tso && (h.mb > 0 || h.md != 0) {
			name = fmt.Sprintf("%s-%d%s", h.stem, h.sink.LastCreated.UnixNano(), h.tsExt())
		}
		target := filepath.Join(h.dir, "moved"+f[1]+".log")
		if _, err := os.Stat(filepath.Join(h.dir, name)); err == nil {
			if _, err := os.Stat(target); err != nil {
				if os.Rename(filepath.Join(h.dir, name), target) == nil {
					h.foreign = true
					h.st.hit("extrename:done")
				}
			}
		}
		h.lastOK = false
		return line, "ok " + h.listing()
	}
	return line, "bad-op"
}

func genFsCase(p *prng) []string {
	mb := []int{0, 0, 50, 120, 300}[p.intn(5)]
	mf := p.intn(4)
	md := []int{0, 0, 0, 30, 30, -1, -40}[p.intn(7)]
	tso := p.intn(2)
	mode := []int{0, 0, 416, 438, 432}[p.intn(5)] // 0640, and 0666 / 0660: bits the process umask (022) would clear
	ops := []string{fmt.Sprintf("reset %d %d %d %d %d", mb, mf, md, tso, mode)}
	n := 3 + p.intn(25)
	id := 1
	k := 1
	for i := 0; i < n; i++ {
		switch r := p.intn(100); {
		case r < 72:
			ops = append(ops, fmt.Sprintf("write %d %d", id, 4+p.intn(197)))
			id++
		case r < 74:
			ops = append(ops, "nofmt")
		case r < 82:
			ops = append(ops, "reopen")
		case r < 90:
			ops = append(ops, fmt.Sprintf("extrename %d", k))
			k++
			if p.chance(2, 3) {
				ops = append(ops, "reopen")
			}
		default:
			if md > 0 {
				ops = append(ops, "pause")
			}
		}
	}
	return ops
}

func fsConcurrent(h *fsHarness, p *prng, rounds int) {
	for r := 0; r < rounds; r++ {
		h.st.Cases++
		dir := filepath.Join(h.base, fmt.Sprintf("conc%d", r))
		os.RemoveAll(dir)
		mbC := 200 + p.intn(300)
		if p.chance(1, 2) {
			mbC = 40 + p.intn(60) // a rotation every event or two
		}
		sink := &eventlogger.FileSink{Path: dir, FileName: "ev.log", MaxBytes: mbC, MaxFiles: 0, TimestampOnlyOnRotate: p.intn(2) == 0}
		nW := 1 + p.intn(8)
		var wg sync.WaitGroup
		var mu sync.Mutex
		var acked []int
		for w := 0; w < nW; w++ {
			wg.Add(1)
			go func(w int) {
				defer wg.Done()
				for i := 0; i < 40; i++ {
					id := w*1000 + i + 1
					e := &eventlogger.Event{Type: "t", Formatted: map[string][]byte{"json": eventBytes(id, 10+(id*7)%120)}}
					if _, err := sink.Process(context.Background(), e); err == nil {
						mu.Lock()
						acked = append(acked, id)
						mu.Unlock()
					}
					if i%17 == 16 {
						sink.Reopen()
					}
				}
			}(w)
		}
		wg.Wait()
		hh := &fsHarness{dir: dir, st: h.st, stem: "ev", ext: ".log"}
		fs, bad := hh.list()
		if bad != "" {
			h.oracle("C08 concurrent writers: %s", bad)
			continue
		}
		seen := map[int]int{}
		for _, f := range fs {
			for _, id := range f.ids {
				seen[id]++
			}
		}
		for _, a := range acked {
			if seen[a] != 1 {
				h.oracle("C08 concurrent writers: acknowledged event %d present %d times", a, seen[a])
				break
			}
		}
		// reading the files oldest to newest (rotated files by timestamp, then the active plain file) keeps
		// every writer's own events in the order it sent (and had acknowledged) them
		var seq, fileOf []int
		for fi, f := range fs {
			if f.kind == "ts" {
				seq = append(seq, f.ids...)
				for range f.ids {
					fileOf = append(fileOf, fi)
				}
			}
		}
		for fi, f := range fs {
			if f.kind == "plain" {
				seq = append(seq, f.ids...)
				for range f.ids {
					fileOf = append(fileOf, fi)
				}
			}
		}
		lastOf, lastFile := map[int]int{}, map[int]int{}
		for k, id := range seq {
			w := id / 1000
			if id <= lastOf[w] {
				h.oracle("C08 concurrent writers: reading the files oldest to newest, event %d of writer %d comes after its event %d: acknowledgement order lost across files", id, w, lastOf[w])
				if lastFile[w] != fileOf[k] {
					h.oracle("C15 concurrent writers: the time stamps in the file names do not increase with the order in which the files were made (the file with time stamp %d, holding later events of writer %d, sorts before the one with %d, which holds earlier ones): retention by name would keep the wrong files", fs[lastFile[w]].key, w, fs[fileOf[k]].key)
				}
				break
			}
			lastOf[w], lastFile[w] = id, fileOf[k]
		}
		h.st.Ops += nW * 40
		h.st.hit(fmt.Sprintf("concurrent:writers=%d", nW))
		os.RemoveAll(dir)
	}
}

// fsChild: run in a child process, writes events until killed, printing each acknowledged id
func fsChildMain(args []string) {
	dir, mb, tso, nSinks := args[0], atoi(args[1]), args[2] == "1", 1
	if len(args) > 3 {
		nSinks = atoi(args[3])
	}
	// several independent sinks (a directory and a writer each) multiply the moments at which the kill can
	// fall between two steps of a rotation
	var mu sync.Mutex
	w := bufio.NewWriter(os.Stdout)
	var wg sync.WaitGroup
	for k := 0; k < nSinks; k++ {
		wg.Add(1)
		go func(k int) {
			defer wg.Done()
			sink := &eventlogger.FileSink{Path: filepath.Join(dir, fmt.Sprintf("s%d", k)), FileName: "ev.log", MaxBytes: mb, TimestampOnlyOnRotate: tso}
			for id := 1; ; id++ {
				e := &eventlogger.Event{Type: "t", Formatted: map[string][]byte{"json": eventBytes(id, 10+(id*13)%190)}}
				if _, err := sink.Process(context.Background(), e); err == nil {
					mu.Lock()
					fmt.Fprintf(w, "%d %d\n", k, id)
					w.Flush()
					mu.Unlock()
				}
			}
		}(k)
	}
	wg.Wait()
}

// fsDirOnDemand: "files are created ... in a directory created on demand": every open creates a missing
// directory -- the first write, Reopen, and the open after a rotation, also when the directory vanished
// after the sink had already opened a file there
func fsDirOnDemand(h *fsHarness, p *prng, rounds int) {
	for r := 0; r < rounds; r++ {
		h.st.Cases++
		dir := filepath.Join(h.base, fmt.Sprintf("ondemand%d", r), "a", "b")
		os.RemoveAll(filepath.Join(h.base, fmt.Sprintf("ondemand%d", r)))
		mb := []int{0, 5}[p.intn(2)]
		tso := p.intn(2) == 0
		sink := &eventlogger.FileSink{Path: dir, FileName: "ev.log", MaxBytes: mb, MaxFiles: 2, TimestampOnlyOnRotate: tso}
		write := func(id int) error {
			_, err := sink.Process(context.Background(), &eventlogger.Event{Type: "t", Formatted: map[string][]byte{"json": eventBytes(id, 12)}})
			return err
		}
		if err := write(1); err != nil {
			h.oracle("C15 first write into a directory that does not exist yet failed: %v", err)
			continue
		}
		os.RemoveAll(dir) // the directory goes away under the sink (a clean-up job, a re-mounted volume)
		viaReopen := p.intn(2) == 0
		if viaReopen {
			if err := sink.Reopen(); err != nil {
				h.oracle("C15 Reopen after the log directory was removed failed (%v): the directory is created on demand", err)
				continue
			}
		}
		var err error
		for id := 2; id <= 4 && err == nil; id++ {
			err = write(id)
		}
		// (in timestamp-only mode a rotation first renames the plain file, which is gone with its directory:
		// that write fails, as it does after an external rename; no claim there)
		sure := viaReopen || (mb > 0 && !tso)
		if err != nil && sure {
			h.oracle("C15 writes after the log directory was removed (reopen=%v, MaxBytes=%d) keep failing: %v", viaReopen, mb, err)
			continue
		}
		if sure {
			ents, _ := os.ReadDir(dir)
			if len(ents) == 0 {
				h.oracle("C15 the log directory was not recreated (reopen=%v, MaxBytes=%d)", viaReopen, mb)
			}
			for _, e := range ents {
				if info, ierr := e.Info(); ierr == nil && info.Mode().Perm() != 0o600 {
					h.oracle("C15 file %s in the recreated directory has mode %o, want 0600", e.Name(), info.Mode().Perm())
				}
			}
		}
		h.st.hit("dir-on-demand")
		os.RemoveAll(filepath.Join(h.base, fmt.Sprintf("ondemand%d", r)))
	}
}

// fsChildFsizeMain runs in a child process whose file-size limit is lowered (RLIMIT_FSIZE, SIGXFSZ
// ignored): a write(2) that crosses the limit writes what fits and fails with EFBIG -- the partially
// failing write of a full disk or a quota. It prints the ids FileSink.Process acknowledged.
func fsChildFsizeMain(args []string) {
	dir, limit, tso, size, count := args[0], atoi(args[1]), args[2] == "1", atoi(args[3]), atoi(args[4])
	signal.Ignore(syscall.SIGXFSZ)
	var rl syscall.Rlimit
	if syscall.Getrlimit(syscall.RLIMIT_FSIZE, &rl) != nil {
		fmt.Println("skip")
		return
	}
	rl.Cur = uint64(limit)
	if syscall.Setrlimit(syscall.RLIMIT_FSIZE, &rl) != nil {
		fmt.Println("skip")
		return
	}
	sink := &eventlogger.FileSink{Path: dir, FileName: "ev.log", MaxBytes: 10 * limit, TimestampOnlyOnRotate: tso}
	w := bufio.NewWriter(os.Stdout)
	for id := 1; id <= count; id++ {
		e := &eventlogger.Event{Type: "t", Formatted: map[string][]byte{"json": eventBytes(id, size)}}
		if _, err := sink.Process(context.Background(), e); err == nil {
			fmt.Fprintf(w, "%d\n", id)
		} else {
			fmt.Fprintf(w, "-%d\n", id)
		}
		w.Flush()
	}
}

// fsShortWrite: "success only after writing exactly the stored bytes, once and contiguously" / "every
// acknowledged event is present exactly once", when a write(2) is cut short by the file-size limit: the
// sink may report an error, or retry after reopening -- an acknowledged event is whole in one file
func fsShortWrite(h *fsHarness, p *prng, rounds int) {
	self, _ := os.Executable()
	for r := 0; r < rounds; r++ {
		h.st.Cases++
		dir := filepath.Join(h.base, fmt.Sprintf("short%d", r))
		os.RemoveAll(dir)
		size := 3000 + p.intn(14000)
		limit := size*2 + 1 + p.intn(size-1) // the third event of a file crosses the limit
		tso := p.intn(3) == 0
		count := 5 + p.intn(4)
		cmd := exec.Command(self, "filesink-child-fsize", dir, strconv.Itoa(limit), map[bool]string{true: "1", false: "0"}[tso], strconv.Itoa(size), strconv.Itoa(count))
		outB, _ := cmd.Output()
		lines := strings.Fields(string(outB))
		if len(lines) == 1 && lines[0] == "skip" {
			h.st.hit("short-write:skipped")
			continue
		}
		ents, _ := os.ReadDir(dir)
		var files [][]byte
		for _, e := range ents {
			b, _ := os.ReadFile(filepath.Join(dir, e.Name()))
			files = append(files, b)
		}
		acks, refused := 0, 0
		for _, l := range lines {
			id := atoi(l)
			if id < 0 {
				refused++
				continue
			}
			acks++
			want := eventBytes(id, size)
			whole := 0
			for _, b := range files {
				whole += bytes.Count(b, want)
			}
			if whole != 1 {
				h.oracle("C13 FileSink.Process reported success for event %d (%d bytes; file-size limit %d, timestamp-only=%v: the first write(2) was cut short) but its bytes are in one piece in %d places of the sink's files", id, size, limit, tso, whole)
				h.oracle("C08 acknowledged event %d is present %d times in one piece after a write(2) that was cut short by the file-size limit (%d-byte events, limit %d)", id, whole, size, limit)
				break
			}
		}
		h.st.hit(fmt.Sprintf("short-write:acked=%d", acks))
		if refused > 0 {
			h.st.hit("short-write:some-refused")
		}
		h.st.Ops += len(lines)
		os.RemoveAll(dir)
	}
}

// fsByteForByte: what is acknowledged is in the files byte for byte -- also when the stored bytes are not
// one tidy line (several newlines at the end, none at all, newlines in the middle, empty)
func fsByteForByte(h *fsHarness, p *prng, rounds int) {
	for r := 0; r < rounds; r++ {
		h.st.Cases++
		dir := filepath.Join(h.base, fmt.Sprintf("raw%d", r))
		os.RemoveAll(dir)
		sink := &eventlogger.FileSink{Path: dir, FileName: "ev.log", Format: "raw"}
		if r%2 == 1 {
			sink.MaxBytes, sink.TimestampOnlyOnRotate = 40, true
		}
		var want []byte
		tails := []string{"\n", "\n\n", "\n\n\n\n", "", "\n \n", "\r\n\n"}
		for id := 1; id <= 8; id++ {
			b := []byte(fmt.Sprintf("e%d:%s", id, strings.Repeat("x", p.intn(12))) + tails[p.intn(len(tails))])
			if p.chance(1, 8) {
				b = []byte("\n\n")
			}
			if _, err := sink.Process(context.Background(), &eventlogger.Event{Type: "t", Formatted: map[string][]byte{"raw": b}}); err == nil {
				want = append(want, b...)
			}
		}
		ents, _ := os.ReadDir(dir)
		var names []string
		for _, e := range ents {
			if e.Name() != "ev.log" {
				names = append(names, e.Name())
			}
		}
		sort.Strings(names)
		names = append(names, "ev.log")
		var got []byte
		for _, n := range names {
			b, _ := os.ReadFile(filepath.Join(dir, n))
			got = append(got, b...)
		}
		if string(got) != string(want) {
			h.oracle("C08 the files, read oldest to newest, hold %d bytes; the acknowledged events are %d bytes: not byte for byte (%.60q vs %.60q)", len(got), len(want), got, want)
			h.oracle("C13 FileSink reported success but what it wrote is not exactly the stored bytes (%d bytes written for %d stored)", len(got), len(want))
		}
		h.st.hit("byte-for-byte")
		h.st.Ops += 8
		os.RemoveAll(dir)
	}
}

// fsWriteFault: the sink's file is a symbolic link to /dev/full: open, stat and close work, every
// write(2) fails. Process must not report success for an event that is in no file; once the fault is
// gone (link removed, Reopen) the files hold exactly the acknowledged events.
func fsWriteFault(h *fsHarness, p *prng, rounds int) {
	if _, err := os.Stat("/dev/full"); err != nil {
		h.st.hit("write-fault:skipped")
		return
	}
	for r := 0; r < rounds; r++ {
		h.st.Cases++
		dir := filepath.Join(h.base, fmt.Sprintf("fault%d", r))
		os.RemoveAll(dir)
		os.MkdirAll(dir, 0o700)
		if os.Symlink("/dev/full", filepath.Join(dir, "ev.log")) != nil {
			continue
		}
		sink := &eventlogger.FileSink{Path: dir, FileName: "ev.log", TimestampOnlyOnRotate: true}
		if p.intn(2) == 0 {
			sink.MaxBytes, sink.MaxFiles = 200, 3
		}
		var acked []int
		write := func(id int) error {
			_, err := sink.Process(context.Background(), &eventlogger.Event{Type: "t", Formatted: map[string][]byte{"json": eventBytes(id, 20+p.intn(30))}})
			if err == nil {
				acked = append(acked, id)
			}
			return err
		}
		nFault := 1 + p.intn(3)
		for id := 1; id <= nFault; id++ {
			if write(id) == nil {
				h.oracle("C08 FileSink.Process reported success for event %d while every write(2) to its file fails (ENOSPC): the event is in no file", id)
				h.oracle("C13 FileSink.Process reported success for event %d although no write of its bytes succeeded (both attempts failed with ENOSPC)", id)
			}
		}
		os.Remove(filepath.Join(dir, "ev.log"))
		if err := sink.Reopen(); err != nil {
			h.oracle("C15 Reopen after the faulty file was removed failed: %v", err)
			continue
		}
		for id := nFault + 1; id <= nFault+3; id++ {
			if err := write(id); err != nil {
				h.oracle("C08 write %d after the fault was repaired and the sink reopened failed: %v", id, err)
			}
		}
		hh := &fsHarness{dir: dir, st: h.st, stem: "ev", ext: ".log"}
		fl, bad := hh.list()
		if bad != "" {
			h.oracle("C08 after a write fault: %s", bad)
			continue
		}
		seen := map[int]int{}
		for _, f := range fl {
			for _, id := range f.ids {
				seen[id]++
			}
		}
		for _, a := range acked {
			if seen[a] != 1 {
				h.oracle("C08 acknowledged event %d present %d times after a write fault", a, seen[a])
			}
		}
		h.st.hit("write-fault:rounds")
		h.st.Ops += nFault + 3
		os.RemoveAll(dir)
	}
}

func fsKill(h *fsHarness, p *prng, rounds int) {
	self, _ := os.Executable()
	for r := 0; r < rounds; r++ {
		h.st.Cases++
		dir := filepath.Join(h.base, fmt.Sprintf("kill%d", r))
		os.RemoveAll(dir)
		nSinks := 1 + 3*p.intn(2)
		mb, tso := []int{0, 1, 150, 400}[p.intn(4)], p.intn(2)
		if r%2 == 0 {
			// MaxBytes 1: a rotation before every write but the first; eight sinks at it; the plain name renamed
			// at every rotation
			mb, tso, nSinks = 1, 1, 8
		}
		cmd := exec.Command(self, "filesink-child", dir, strconv.Itoa(mb), strconv.Itoa(tso), strconv.Itoa(nSinks))
		out, _ := cmd.StdoutPipe()
		cmd.Start()
		done := make(chan map[int][]int, 1)
		go func() {
			ids := map[int][]int{}
			sc := bufio.NewScanner(out)
			for sc.Scan() {
				f := strings.Fields(sc.Text())
				if len(f) == 2 {
					ids[atoi(f[0])] = append(ids[atoi(f[0])], atoi(f[1]))
				}
			}
			done <- ids
		}()
		time.Sleep(time.Duration(3000+p.intn(9000)) * time.Microsecond)
		cmd.Process.Signal(syscall.SIGKILL)
		cmd.Wait()
		ackedBy := <-done
		for k := 0; k < nSinks; k++ {
			acked := ackedBy[k]
			hh := &fsHarness{dir: filepath.Join(dir, fmt.Sprintf("s%d", k)), st: h.st, stem: "ev", ext: ".log"}
			if _, err := os.Stat(hh.dir); err != nil {
				continue // killed before this sink wrote anything
			}
			// the write(2) that was under way when the process was killed may have been cut short (the kernel
			// checks for a fatal signal between pages): a fragment of the event in flight -- never acknowledged
			// -- at the very end of the file being written says nothing against the sink. A fragment of an
			// ACKNOWLEDGED event does.
			ackedSet := map[int]bool{}
			for _, a := range acked {
				ackedSet[a] = true
			}
			if ents, err := os.ReadDir(hh.dir); err == nil {
				for _, e := range ents {
					path := filepath.Join(hh.dir, e.Name())
					data, rerr := os.ReadFile(path)
					if rerr != nil || len(data) == 0 || data[len(data)-1] == '\n' {
						continue
					}
					cut := bytes.LastIndexByte(data, '\n') + 1
					frag := string(data[cut:])
					id, known := 0, false
					if strings.HasPrefix(frag, "e") {
						if i := strings.IndexByte(frag, ':'); i > 1 {
							id, known = atoi(frag[1:i]), true
						}
					}
					if known && ackedSet[id] {
						continue // left for the oracle below
					}
					os.Truncate(path, int64(cut))
					h.st.hit("kill:torn-tail-of-the-event-in-flight")
				}
			}
			fs, bad := hh.list()
			if bad != "" {
				h.oracle("C08 after SIGKILL: %s", bad)
				continue
			}
			seen := map[int]int{}
			max := 0
			for _, f := range fs {
				for _, id := range f.ids {
					seen[id]++
					if id > max {
						max = id
					}
				}
			}
			for _, a := range acked {
				if seen[a] != 1 {
					h.oracle("C08 after SIGKILL acknowledged event %d present %d times", a, seen[a])
				}
			}
			// at most the one in flight beyond the acknowledged ones (an ack may also be lost in the pipe: ids are consecutive)
			for id := 1; id <= max; id++ {
				if seen[id] != 1 {
					h.oracle("C08 after SIGKILL event %d missing or duplicated below the last written %d", id, max)
					break
				}
			}
			h.st.Ops += max
		}
		h.st.hit("kill:rounds")
		h.st.hit(fmt.Sprintf("kill:sinks=%d", nSinks))
		os.RemoveAll(dir)
	}
}

func filesinkMain(args []string) {
	fs := flag.NewFlagSet("filesink", flag.ExitOnError)
	seed := fs.Uint64("seed", 1, "seed")
	n := fs.Int("n", 150, "random cases")
	conc := fs.Int("conc", 5, "concurrent-writer rounds")
	kill := fs.Int("kill", 5, "SIGKILL rounds")
	out := fs.String("out", "", "output dir")
	opsFile := fs.String("ops", "", "ops file to replay")
	corpus := fs.String("corpus", "", "corpus dir")
	fs.Parse(args)
	syscall.Umask(0o022) // the configured mode must come out whatever the umask clears at creation
	st := newStats()
	h := &fsHarness{st: st, base: filepath.Join(*out, "files")}
	o := openOut(*out)
	seen := map[string]bool{}
	runCase := func(ops []string, kind string) {
		st.Cases++
		st.hit("case:" + kind)
		h.diverged = false
		h.skipRest = false
		for _, op := range ops {
			if h.diverged || h.skipRest {
				break
			}
			opLine, res := h.exec(op)
			if opLine != "" {
				o.emit(opLine, res+suffixOpen(opLine, res))
			}
		}
		key := strings.Join(ops, ";")
		if len(h.acked) > 1 && !seen[key] {
			seen[key] = true
			st.Distinct++
			if len(st.Samples) < 4 {
				st.Samples = append(st.Samples, key)
			}
		}
		os.RemoveAll(h.dir)
	}
	if *opsFile != "" {
		runCase(readLines(*opsFile), "replay")
	} else {
		if *corpus != "" {
			for _, f := range globOps(*corpus) {
				runCase(readLines(f), "corpus")
			}
		}
		p := newPrng(*seed)
		for i := 0; i < *n; i++ {
			runCase(genFsCase(p), "random")
		}
		fsConcurrent(h, p, *conc)
		fsKill(h, p, *kill)
		fsDirOnDemand(h, p, 6)
		fsByteForByte(h, p, 4)
		fsWriteFault(h, p, 6)
		fsShortWrite(h, p, 4)
	}
	o.close()
	os.RemoveAll(h.base)
	st.write(*out)
	if len(st.Oracle) > 0 {
		fmt.Printf("ORACLE-FAILURES %d\n%s\n", len(st.Oracle), st.Oracle[0])
	}
	fmt.Printf("cases=%d ops=%d distinct_nontrivial=%d\n", st.Cases, st.Ops, st.Distinct)
}

func suffixOpen(op, res string) string { return "" }
